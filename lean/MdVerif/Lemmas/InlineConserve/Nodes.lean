/-
C06 inline half, part 7: elements — `nodeFlat`, `nodeOk` through field updates; the shape of the emphasis expressions.
-/
import MdVerif.Lemmas.InlineConserve.Seq

namespace MdVerif.Flat
open Py Inline

/-! ### projections -/

theorem nodeFlat_eq (tbl : List Str) (n : Node) :
    nodeFlat tbl n = flatT tbl 0 (n.text.getD []) ++ kidsFlat tbl n.children := by
  cases n; rfl

theorem kidsFlat_cons (tbl : List Str) (c : Node) (r : List Node) :
    kidsFlat tbl (c :: r) = nodeFlat tbl c ++ flatT tbl 0 (c.tail.getD []) ++ kidsFlat tbl r := rfl

theorem kidsFlat_nil (tbl : List Str) : kidsFlat tbl [] = [] := rfl

theorem kidsFlat_append (tbl : List Str) (a b : List Node) : kidsFlat tbl (a ++ b) = kidsFlat tbl a ++ kidsFlat tbl b := by
  induction a with
  | nil => rfl
  | cons c r ih => simp only [List.cons_append, kidsFlat_cons, ih, List.append_assoc]

theorem nodeOk_eq (L : Char → Bool) (k : Nat) (n : Node) :
    nodeOk L k n = (ok L k (n.text.getD []) && ok L k (n.tail.getD []) && kidsOk L k n.children) := by
  cases n; rfl

theorem nodeOk_iff {L : Char → Bool} {k : Nat} {n : Node} :
    nodeOk L k n = true ↔ ok L k (n.text.getD []) = true ∧ ok L k (n.tail.getD []) = true ∧ kidsOk L k n.children = true := by
  rw [nodeOk_eq]; simp only [Bool.and_eq_true, and_assoc]

theorem kidsOk_cons {L : Char → Bool} {k : Nat} {c : Node} {r : List Node} :
    kidsOk L k (c :: r) = true ↔ nodeOk L k c = true ∧ kidsOk L k r = true := by
  simp only [kidsOk, Bool.and_eq_true]

theorem kidsOk_append {L : Char → Bool} {k : Nat} {a b : List Node} :
    kidsOk L k (a ++ b) = true ↔ kidsOk L k a = true ∧ kidsOk L k b = true := by
  induction a with
  | nil => simp [kidsOk]
  | cons c r ih => simp only [List.cons_append, kidsOk_cons, ih, and_assoc]

theorem nonAtomic_iff {n : Node} :
    nonAtomic n = true ↔ n.textAtomic = false ∧ n.attrs = [] ∧ kidsNonAtomic n.children = true := by
  cases n; simp only [nonAtomic, Bool.and_eq_true, Bool.not_eq_true', List.isEmpty_iff, and_assoc]

theorem kidsNonAtomic_cons {c : Node} {r : List Node} :
    kidsNonAtomic (c :: r) = true ↔ nonAtomic c = true ∧ kidsNonAtomic r = true := by
  simp only [kidsNonAtomic, Bool.and_eq_true]

theorem kidsNonAtomic_append {a b : List Node} :
    kidsNonAtomic (a ++ b) = true ↔ kidsNonAtomic a = true ∧ kidsNonAtomic b = true := by
  induction a with
  | nil => simp [kidsNonAtomic]
  | cons c r ih => simp only [List.cons_append, kidsNonAtomic_cons, ih, and_assoc]

theorem content_eq (n : Node) : content n = n.text.getD [] ++ contentKids n.children := by
  cases n; rfl

theorem contentKids_cons (c : Node) (r : List Node) :
    contentKids (c :: r) = content c ++ c.tail.getD [] ++ contentKids r := rfl

theorem contentKids_append (a b : List Node) : contentKids (a ++ b) = contentKids a ++ contentKids b := by
  induction a with
  | nil => rfl
  | cons c r ih => simp only [List.cons_append, contentKids_cons, ih, List.append_assoc]

/-! ### `mkEl`, `append`, `setLast`, `setTextOrTail` -/

theorem nodeFlat_mkEl (tbl : List Str) (t : String) : nodeFlat tbl (mkEl t) = [] := rfl
theorem nodeOk_mkEl (L : Char → Bool) (k : Nat) (t : String) : nodeOk L k (mkEl t) = true := rfl

theorem nodeFlat_append_child (tbl : List Str) (p el : Node) :
    nodeFlat tbl (p.append el) = nodeFlat tbl p ++ nodeFlat tbl el ++ flatT tbl 0 (el.tail.getD []) := by
  simp only [nodeFlat_eq, Node.append, kidsFlat_append, kidsFlat_cons, kidsFlat_nil, List.append_nil, List.append_assoc]

theorem nodeOk_append_child {L : Char → Bool} {k : Nat} {p el : Node} (hp : nodeOk L k p = true)
    (he : nodeOk L k el = true) : nodeOk L k (p.append el) = true := by
  rw [nodeOk_iff] at hp ⊢
  simp only [Node.append]
  exact ⟨hp.1, hp.2.1, kidsOk_append.2 ⟨hp.2.2, kidsOk_cons.2 ⟨he, rfl⟩⟩⟩

/-- the bookkeeping of `parse_sub_patterns`: where the next piece of text goes -/
structure SubOk (p : Node) (hasLast : Bool) : Prop where
  tail : p.tail = none
  last : hasLast = true → ∃ init l, p.children = init ++ [l] ∧ l.tail = none
  first : hasLast = false → p.text = none ∧ p.children = []

theorem setTextOrTail_spec {L : Char → Bool} {k : Nat} (tbl : List Str) {p : Node} {hasLast : Bool} {text : Str}
    (hs : SubOk p hasLast) (hp : nodeOk L k p = true) (ht : ok L k text = true) :
    nodeOk L k (setTextOrTail p hasLast text) = true ∧
      nodeFlat tbl (setTextOrTail p hasLast text) = nodeFlat tbl p ++ flatT tbl 0 text ∧
      (setTextOrTail p hasLast text).tail = none ∧
      (nonAtomic p = true → nonAtomic (setTextOrTail p hasLast text) = true) := by
  unfold setTextOrTail
  split
  · rename_i he
    have : text = [] := by cases text <;> simp_all
    subst this
    exact ⟨hp, by simp [flatT], hs.tail, fun h => h⟩
  · cases hasLast with
    | true =>
      obtain ⟨init, l, hc, hl⟩ := hs.last rfl
      simp only [if_true, hc, List.getLast?_append, List.getLast?_singleton]
      simp only [Option.some_or]
      rw [nodeOk_iff] at hp
      have hk := hp.2.2
      rw [hc, kidsOk_append, kidsOk_cons] at hk
      have hlk := nodeOk_iff.1 hk.2.1
      refine ⟨?_, ?_, hs.tail, ?_⟩
      rotate_left 2
      · intro hna
        rw [nonAtomic_iff] at hna ⊢
        have hkk := hna.2.2
        rw [hc, kidsNonAtomic_append, kidsNonAtomic_cons] at hkk
        simp only [Node.setLast, hc, List.dropLast_concat]
        refine ⟨hna.1, hna.2.1, kidsNonAtomic_append.2 ⟨hkk.1, kidsNonAtomic_cons.2 ⟨?_, rfl⟩⟩⟩
        have hl' := nonAtomic_iff.1 hkk.2.1
        rw [nonAtomic_iff]; exact ⟨hl'.1, hl'.2.1, hl'.2.2⟩
      · rw [nodeOk_iff]
        simp only [Node.setLast, hc, List.dropLast_concat]
        refine ⟨hp.1, hp.2.1, kidsOk_append.2 ⟨hk.1, kidsOk_cons.2 ⟨?_, rfl⟩⟩⟩
        rw [nodeOk_iff]; exact ⟨hlk.1, ht, hlk.2.2⟩
      · simp only [nodeFlat_eq, Node.setLast, hc, List.dropLast_concat, kidsFlat_append, kidsFlat_cons, kidsFlat_nil,
          hl, Option.getD_none, Option.getD_some, flatT_nil, List.append_nil, List.append_assoc]
    | false =>
      obtain ⟨htx, hch⟩ := hs.first rfl
      simp only [Bool.false_eq_true, if_false]
      rw [nodeOk_iff] at hp
      refine ⟨?_, ?_, hs.tail, ?_⟩
      rotate_left 2
      · intro hna
        rw [nonAtomic_iff] at hna ⊢
        exact ⟨rfl, hna.2.1, hna.2.2⟩
      · rw [nodeOk_iff]; exact ⟨ht, hp.2.1, hp.2.2⟩
      · simp only [nodeFlat_eq, htx, hch, kidsFlat_nil, Option.getD_none, Option.getD_some, flatT_nil, List.nil_append,
          List.append_nil]

theorem subOk_append {p el : Node} (hp : p.tail = none) (he : el.tail = none) : SubOk (p.append el) true :=
  ⟨hp, fun _ => ⟨p.children, el, rfl, he⟩, fun h => (by cases h)⟩

theorem nonAtomic_mkEl (t : String) : nonAtomic (mkEl t) = true := rfl

theorem nonAtomic_append_child {p el : Node} (hp : nonAtomic p = true) (he : nonAtomic el = true) :
    nonAtomic (p.append el) = true := by
  rw [nonAtomic_iff] at hp ⊢
  simp only [Node.append]
  exact ⟨hp.1, hp.2.1, kidsNonAtomic_append.2 ⟨hp.2.2, kidsNonAtomic_cons.2 ⟨he, rfl⟩⟩⟩

theorem subOk_mkEl (t : String) : SubOk (mkEl t) false := ⟨rfl, fun h => (by cases h), fun _ => ⟨rfl, rfl⟩⟩

/-! ### the shape of the emphasis expressions -/

/-- the expression continues with a delimiter run (after look-arounds) -/
def startsLit : List Step → Bool
  | .lit m :: _ => decide (0 < m)
  | .notnext :: rest => startsLit rest
  | .nbW :: rest => startsLit rest
  | .nbC :: rest => startsLit rest
  | .naW :: rest => startsLit rest
  | _ => false

/-- every group is followed by a delimiter run -/
def shapeOk : List Step → Bool
  | [] => true
  | .lazy _ _ :: rest => startsLit rest && shapeOk rest
  | .greedy _ :: rest => startsLit rest && shapeOk rest
  | _ :: rest => shapeOk rest

theorem startsLit_head {c : Char} {rest : List Step} (h : startsLit rest = true) (gs : List Str) (post : Str) :
    ∃ x, assemble c rest gs ++ post = c :: x := by
  induction rest with
  | nil => simp [startsLit] at h
  | cons st r ih =>
    cases st with
    | lit m =>
      simp only [startsLit, decide_eq_true_eq] at h
      cases m with
      | zero => omega
      | succ m => simp only [assemble, List.replicate_succ, List.cons_append]; exact ⟨_, rfl⟩
    | notnext => simpa [assemble] using ih h
    | nbW => simpa [assemble] using ih h
    | nbC => simpa [assemble] using ih h
    | naW => simpa [assemble] using ih h
    | lazy a b => simp [startsLit] at h
    | greedy a => simp [startsLit] at h

/-- **the match splits.**  Expanding the matched text gives the expansions of the groups in order; the delimiters
    contribute no letter; every group and the rest are well formed. -/
theorem assemble_split {L : Char → Bool} {n : Nat} (tbl : List Str) {c : Char} (hb : brk c = true) (hc : c ≠ STX)
    (hL : L c = false) :
    ∀ (steps : List Step) (gs : List Str) (post : Str), gs.length = nGroups steps → shapeOk steps = true →
      ok L n (assemble c steps gs ++ post) = true →
      (∀ g ∈ gs, ok L n g = true) ∧ ok L n post = true ∧
        letters L (flatT tbl 0 (assemble c steps gs ++ post)) =
          (gs.map (fun g => letters L (flatT tbl 0 g))).flatten ++ letters L (flatT tbl 0 post) := by
  intro steps
  induction steps with
  | nil =>
    intro gs post hl _ hok
    have : gs = [] := List.length_eq_zero_iff.1 (by simpa [nGroups] using hl)
    subst this
    exact ⟨by simp, by simpa [assemble] using hok, by simp [assemble]⟩
  | cons st rest ih =>
    intro gs post hl hsh hok
    cases st with
    | lit m =>
      simp only [assemble, List.append_assoc] at hok ⊢
      have hrest := ih gs post (by simpa [nGroups] using hl) (by simpa [shapeOk] using hsh) (ok_of_append_right hok)
      refine ⟨hrest.1, hrest.2.1, ?_⟩
      have hno : STX ∉ List.replicate m c := fun hm => hc (List.eq_of_mem_replicate hm).symm
      rw [flatT_append_no_stx tbl hno, letters_append, letters_replicate L hL, List.nil_append, hrest.2.2]
    | notnext =>
      simpa [assemble] using ih gs post (by simpa [nGroups] using hl) (by simpa [shapeOk] using hsh)
        (by simpa [assemble] using hok)
    | nbW =>
      simpa [assemble] using ih gs post (by simpa [nGroups] using hl) (by simpa [shapeOk] using hsh)
        (by simpa [assemble] using hok)
    | nbC =>
      simpa [assemble] using ih gs post (by simpa [nGroups] using hl) (by simpa [shapeOk] using hsh)
        (by simpa [assemble] using hok)
    | naW =>
      simpa [assemble] using ih gs post (by simpa [nGroups] using hl) (by simpa [shapeOk] using hsh)
        (by simpa [assemble] using hok)
    | lazy a b =>
      cases gs with
      | nil => simp [nGroups] at hl
      | cons g gs =>
        simp only [shapeOk, Bool.and_eq_true] at hsh
        simp only [assemble, List.append_assoc] at hok ⊢
        obtain ⟨x, hx⟩ := startsLit_head (c := c) hsh.1 gs post
        have hg : ok L n g = true := by rw [hx] at hok; exact ok_of_append_brk hb hok
        have hrest := ih gs post (by simpa [nGroups] using hl) hsh.2 (ok_of_append_right hok)
        refine ⟨?_, hrest.2.1, ?_⟩
        · intro g' hg'
          rcases List.mem_cons.1 hg' with rfl | hg'
          · exact hg
          · exact hrest.1 g' hg'
        · rw [flatT_append_ok tbl hg, letters_append, hrest.2.2]
          simp only [List.map_cons, List.flatten_cons, List.append_assoc]
    | greedy a =>
      cases gs with
      | nil => simp [nGroups] at hl
      | cons g gs =>
        simp only [shapeOk, Bool.and_eq_true] at hsh
        simp only [assemble, List.append_assoc] at hok ⊢
        obtain ⟨x, hx⟩ := startsLit_head (c := c) hsh.1 gs post
        have hg : ok L n g = true := by rw [hx] at hok; exact ok_of_append_brk hb hok
        have hrest := ih gs post (by simpa [nGroups] using hl) hsh.2 (ok_of_append_right hok)
        refine ⟨?_, hrest.2.1, ?_⟩
        · intro g' hg'
          rcases List.mem_cons.1 hg' with rfl | hg'
          · exact hg
          · exact hrest.1 g' hg'
        · rw [flatT_append_ok tbl hg, letters_append, hrest.2.2]
          simp only [List.map_cons, List.flatten_cons, List.append_assoc]

end MdVerif.Flat
