/-
C06 inline half, part 16b: paths into the tree (`getAt`, `setAt`, `remap`) and the coverage invariant of the stack of
`InlineProcessor.run`: every element one of whose children still has a text or tail with a placeholder is at or below
a path of the stack.
-/
import MdVerif.Lemmas.InlineConserve.Visit

namespace MdVerif.Flat
open Py Inline

/-- some child has a text or tail that may still contain a placeholder -/
def dirtyKid (L : Char → Bool) (m : Node) : Prop := ∃ c ∈ m.children, topClean L c = false

/-- every element with such a child is at or below a path of the stack -/
def Covered (L : Char → Bool) (root : Node) (stack : List Path) : Prop :=
  ∀ q m, getAt root q = some m → dirtyKid L m → ∃ q' ∈ stack, q' <+: q

theorem getAt_nil (n : Node) : getAt n [] = some n := rfl

theorem getAt_cons (n : Node) (i : Nat) (p : Path) :
    getAt n (i :: p) = match n.children[i]? with | some c => getAt c p | none => none := rfl

theorem getAt_append {root : Node} {p r : Path} {c : Node} (h : getAt root p = some c) :
    getAt root (p ++ r) = getAt c r := by
  induction p generalizing root with
  | nil => simp only [getAt, Option.some.injEq] at h; subst h; rfl
  | cons i p ih =>
    simp only [List.cons_append, getAt_cons] at h ⊢
    split at h
    · exact ih h
    · simp at h

theorem getAt_prefix {root : Node} {p r : Path} {m : Node} (h : getAt root (p ++ r) = some m) :
    ∃ c, getAt root p = some c := by
  induction p generalizing root with
  | nil => exact ⟨root, rfl⟩
  | cons i p ih =>
    simp only [List.cons_append, getAt_cons] at h ⊢
    split at h
    · exact ih h
    · simp at h

theorem setAt_cons {root c : Node} {i : Nat} (hc : root.children[i]? = some c) (p : Path) (new : Node) :
    setAt root (i :: p) new = { root with children := root.children.set i (setAt c p new) } := by
  simp only [setAt, hc]

/-- below the replaced element the new tree is the new element -/
theorem getAt_setAt_under {root cur : Node} {p : Path} (h : getAt root p = some cur) (new : Node) (r : Path) :
    getAt (setAt root p new) (p ++ r) = getAt new r := by
  induction p generalizing root with
  | nil => rfl
  | cons i p ih =>
    rw [getAt_cons] at h
    split at h
    · rename_i c hc
      rw [setAt_cons hc, List.cons_append, getAt_cons]
      have hlt := (List.getElem?_eq_some_iff.1 hc).1
      simp only [List.getElem?_set_self hlt]
      exact ih h
    · simp at h

/-- the replaced element keeps its own text and tail -/
theorem setAt_top {L : Char → Bool} {c cur new : Node} {s : Path} (h : getAt c s = some cur)
    (ht : new.text = cur.text) (hl : new.tail = cur.tail) : topClean L (setAt c s new) = topClean L c := by
  cases s with
  | nil =>
    simp only [getAt, Option.some.injEq] at h; subst h
    simp only [setAt, topClean, ht, hl]
  | cons k s' =>
    rw [getAt_cons] at h
    split at h
    · rename_i x hx; rw [setAt_cons hx]; rfl
    · simp at h

/-- outside the replaced element nothing changes as far as the children's own texts are concerned -/
theorem getAt_setAt_other {L : Char → Bool} {new cur : Node} (ht : new.text = cur.text) (hl : new.tail = cur.tail) :
    ∀ (q p : Path) (root m' : Node), ¬ p <+: q → getAt root p = some cur → getAt (setAt root p new) q = some m' →
      ∃ m, getAt root q = some m ∧ (dirtyKid L m' → dirtyKid L m) := by
  intro q
  induction q with
  | nil =>
    intro p root m' hnp hp hq
    cases p with
    | nil => exact absurd (List.prefix_refl _) hnp
    | cons i s =>
      rw [getAt_cons] at hp
      split at hp
      · rename_i c hc
        rw [setAt_cons hc, getAt_nil] at hq
        simp only [Option.some.injEq] at hq
        subst hq
        refine ⟨root, rfl, ?_⟩
        rintro ⟨x, hx, hxd⟩
        simp only [] at hx
        rcases List.mem_or_eq_of_mem_set hx with hx | hx
        · exact ⟨x, hx, hxd⟩
        · refine ⟨c, List.mem_of_getElem? hc, ?_⟩
          rw [← setAt_top (L := L) hp ht hl, ← hx]; exact hxd
      · simp at hp
  | cons j q' ih =>
    intro p root m' hnp hp hq
    cases p with
    | nil => exact absurd List.nil_prefix hnp
    | cons i s =>
      rw [getAt_cons] at hp
      split at hp
      · rename_i c hc
        have hlt := (List.getElem?_eq_some_iff.1 hc).1
        rw [setAt_cons hc, getAt_cons] at hq
        simp only [] at hq
        by_cases hij : i = j
        · subst hij
          simp only [List.getElem?_set_self hlt] at hq
          have hns : ¬ s <+: q' := fun hsq => hnp (by
            obtain ⟨t, rfl⟩ := hsq
            exact ⟨t, rfl⟩)
          obtain ⟨m, hm, hd⟩ := ih s c m' hns hp hq
          exact ⟨m, by rw [getAt_cons, hc]; exact hm, hd⟩
        · rw [List.getElem?_set_ne hij] at hq
          exact ⟨m', by rw [getAt_cons]; exact hq, fun h => h⟩
      · simp at hp

theorem startsWithPath_iff (q p : Path) : remap.startsWithPath q p = true ↔ p <+: q := by
  induction p generalizing q with
  | nil => simp [remap.startsWithPath]
  | cons b p ih =>
    cases q with
    | nil => simp [remap.startsWithPath]
    | cons a q =>
      simp only [remap.startsWithPath, Bool.and_eq_true, decide_eq_true_eq, ih, List.cons_prefix_cons]
      constructor
      · rintro ⟨h1, h2⟩; exact ⟨h1.symm, h2⟩
      · rintro ⟨h1, h2⟩; exact ⟨h1.symm, h2⟩

theorem remap_of_not_prefix {p q : Path} (pm : List (Nat × Nat)) (h : ¬ p <+: q) : remap p pm q = q := by
  unfold remap
  have : remap.startsWithPath q p = false := by
    cases hs : remap.startsWithPath q p with
    | false => rfl
    | true => exact absurd ((startsWithPath_iff q p).1 hs) h
  simp [this]

theorem kidsAtomOk_set {L : Char → Bool} {ns : List Node} (h : kidsAtomOk L ns = true) (i : Nat) {x : Node}
    (hx : atomOk L x = true) : kidsAtomOk L (ns.set i x) = true := by
  apply kidsAtomOk_of_forall
  intro r hr
  rcases List.mem_or_eq_of_mem_set hr with hr | hr
  · exact atomOk_of_mem h r hr
  · rw [hr]; exact hx

theorem atomOk_setAt {L : Char → Bool} {new cur : Node} (hta : new.textAtomic = cur.textAtomic)
    (ht : new.text = cur.text) (hat : new.attrs = cur.attrs) (hn : kidsAtomOk L new.children = true) :
    ∀ (p : Path) (root : Node), getAt root p = some cur → atomOk L root = true → atomOk L (setAt root p new) = true := by
  intro p
  induction p with
  | nil =>
    intro root hp hroot
    simp only [getAt, Option.some.injEq] at hp; subst hp
    rw [atomOk_iff] at hroot ⊢
    simp only [setAt, hta, ht, hat]
    exact ⟨hroot.1, hroot.2.1, hn⟩
  | cons i p ih =>
    intro root hp hroot
    rw [getAt_cons] at hp
    split at hp
    · rename_i c hc
      rw [setAt_cons hc]
      rw [atomOk_iff] at hroot ⊢
      refine ⟨hroot.1, hroot.2.1, kidsAtomOk_set hroot.2.2 i (ih c hp (atomOk_of_mem hroot.2.2 c (List.mem_of_getElem? hc)))⟩
    · simp at hp

/-! ### from "no element has a dirty child" to "no placeholder anywhere" -/

/-- every element of the tree satisfies `P` -/
def Deep (P : Node → Prop) (t : Node) : Prop := ∀ q m, getAt t q = some m → P m

theorem deep_child {P : Node → Prop} {t c : Node} (h : Deep P t) (hc : c ∈ t.children) : Deep P c := by
  obtain ⟨i, hi⟩ := List.getElem?_of_mem hc
  intro q m hq
  exact h (i :: q) m (by rw [getAt_cons, hi]; exact hq)

mutual
theorem kidsOk0_of_deep {L : Char → Bool} {n : Nat} : (t : Node) → nodeOk L n t = true →
    Deep (fun m => ∀ c ∈ m.children, topClean L c = true) t → kidsOk L 0 t.children = true
  | ⟨_, _, _, _, children, _, _⟩, hok, h => by
    have h0 := h [] _ rfl
    simp only [] at h0 ⊢
    exact kidsOk0_list children (fun c hc => h0 c hc) (fun c hc => deep_child h hc)
      (by rw [nodeOk_iff] at hok; exact hok.2.2)
theorem kidsOk0_list {L : Char → Bool} {n : Nat} : (ts : List Node) → (∀ c ∈ ts, topClean L c = true) →
    (∀ c ∈ ts, Deep (fun m => ∀ c ∈ m.children, topClean L c = true) c) → kidsOk L n ts = true →
    kidsOk L 0 ts = true
  | [], _, _, _ => rfl
  | c :: r, h1, h2, hok => by
    rw [kidsOk_cons] at hok ⊢
    refine ⟨?_, kidsOk0_list r (fun x hx => h1 x (List.mem_cons_of_mem _ hx))
      (fun x hx => h2 x (List.mem_cons_of_mem _ hx)) hok.2⟩
    have hc := h1 c (by simp)
    simp only [topClean, Bool.and_eq_true] at hc
    rw [nodeOk_iff]
    exact ⟨hc.1, hc.2, kidsOk0_of_deep c hok.1 (h2 c (by simp))⟩
end

end MdVerif.Flat
