/-
C06 inline half, part 11: escape, line break, not_strong, emphasis; `findMatch` and `applyPattern`.
-/
import MdVerif.Lemmas.InlineConserve.Patterns

namespace MdVerif.Flat
open Py Inline

theorem char_toNat_lt (c : Char) : c.toNat < 0x110000 := by
  have := c.valid
  simp only [UInt32.isValidChar, Nat.isValidChar] at this
  have e : c.toNat = c.val.toNat := rfl
  omega

section
variable {L : Char → Bool} {st : St} {data : Str}

/-- pattern 1 -/
theorem found_esc (hL : LetterClass L) {cfg : Cfg} (hE : EscNotLetter L cfg) (hdata : ok L st.stash.length data = true)
    {si i : Nat} {ch : Char} (hsi : si ≤ data.length) (h : escScan (data.drop si) si = some (i, ch)) :
    FoundOk L st data
      ⟨if cfg.esc.contains ch then .str (STX :: natToDec ch.toNat ++ [ETX]) else .none, i, ((i + 2 : Nat) : Int)⟩ := by
  obtain ⟨pre', rest, h1, h2, _⟩ := escScan_spec h
  by_cases hc : cfg.esc.contains ch = true
  · simp only [FoundOk, hc, if_true]
    have hmem : ch ∈ cfg.esc := by simpa using hc
    obtain ⟨hLch, hne, hnamp⟩ := hE ch hmem
    have hLch' : tokChar L (Char.ofNat ch.toNat) = true := by
      rw [Char.ofNat_toNat]; simp [tokChar, hLch, hne, hnamp]
    refine ⟨ok_escToken 0 (char_toNat_lt ch) hLch', ?_⟩
    have htok : letters L (STX :: natToDec ch.toNat ++ [ETX]) = [] := letters_escToken hL ch.toNat
    rw [htok]
    have hd : data = (data.take si ++ pre') ++ ('\\' :: [ch]) ++ rest := by
      have := (List.take_append_drop si data).symm
      rw [h1] at this
      simpa [List.append_assoc] using this
    have hlen : (data.take si ++ pre').length = i := by
      rw [List.length_append, List.length_take, Nat.min_eq_left hsi, h2]
    have hcut := cut_of (X := []) hdata hd (by decide) ?_
    · rw [hlen] at hcut
      simpa using hcut
    · have e : ('\\' :: [ch]) ++ rest = '\\' :: ch :: rest := rfl
      rw [e, flat_cons_ne _ (by decide), flat_cons_ne _ hne, letters_cons_of_not L hL.bslash,
        letters_cons_of_not L hLch, List.nil_append]
  · simp only [FoundOk, hc]
    trivial

/-- pattern 10 -/
theorem found_br (hL : LetterClass L) (hdata : ok L st.stash.length data = true) {si off : Nat} (hsi : si ≤ data.length)
    (h : find [' ', ' ', '\n'] (data.drop si) = some off) :
    FoundOk L st data ⟨.el (mkEl "br"), si + off, ((si + off + 3 : Nat) : Int)⟩ := by
  obtain ⟨pre', rest, h1, h2⟩ := find_spec h
  refine ⟨rfl, nodeOk_mkEl _ _ _, rfl, rfl, ?_⟩
  have hd : data = (data.take si ++ pre') ++ (' ' :: [' ', '\n']) ++ rest := by
    have := (List.take_append_drop si data).symm
    rw [h1] at this
    simpa [List.append_assoc] using this
  have hlen : (data.take si ++ pre').length = si + off := by
    rw [List.length_append, List.length_take, Nat.min_eq_left hsi, h2]
  have hcut := cut_of (X := []) hdata hd (by decide) ?_
  · rw [hlen] at hcut
    simpa [nodeFlat_mkEl, letters_nil] using hcut
  · have e : (' ' :: [' ', '\n']) ++ rest = ' ' :: ' ' :: '\n' :: rest := rfl
    rw [e, flat_cons_ne _ (by decide), flat_cons_ne _ (by decide), flat_cons_ne _ (by decide),
      letters_cons_of_not L (hL.space _ (by decide)), letters_cons_of_not L (hL.space _ (by decide)),
      letters_cons_of_not L (hL.space _ (by decide)), List.nil_append]

/-- pattern 13 -/
theorem found_ns (hL : LetterClass L) (hdata : ok L st.stash.length data = true) {si s e : Nat}
    (h : nsFind data si = some (s, e)) : FoundOk L st data ⟨.str (slice data s e), s, (e : Int)⟩ := by
  unfold nsFind at h
  split at h
  · simp at h
  · rename_i hsi
    obtain ⟨pre', rest, k, c, h1, h2, h3, h4, h5⟩ := nsScan_spec h
    obtain ⟨k', rfl⟩ : ∃ k', k = k' + 1 := ⟨k - 1, by omega⟩
    have hd : data = (data.take si ++ pre') ++ (c :: List.replicate k' c) ++ rest :=
      calc data = data.take si ++ data.drop si := (List.take_append_drop si data).symm
        _ = data.take si ++ (pre' ++ List.replicate (k' + 1) c ++ rest) := by rw [h1]
        _ = _ := by simp [List.replicate_succ]
    have hlen : (data.take si ++ pre').length = s := by
      rw [List.length_append, List.length_take, Nat.min_eq_left (by omega), h2]
    have hsl : slice data s e = List.replicate (k' + 1) c := by
      have hd' : data = (data.take si ++ pre') ++ (List.replicate (k' + 1) c ++ rest) :=
        hd.trans (by simp [List.replicate_succ])
      rw [slice, hd', ← hlen, h3]
      have : (data.take si ++ pre').length + (k' + 1) = (data.take si ++ pre' ++ List.replicate (k' + 1) c).length := by
        simp only [List.length_append, List.length_replicate]
      rw [hlen, ← hlen, this, ← List.append_assoc, List.take_left, List.drop_left]
    have hcL : L c = false := by rcases h5 with rfl | rfl; exact hL.star; exact hL.under
    have hcS : c ≠ STX := by rcases h5 with rfl | rfl <;> decide
    have hcB : brk c = true := by rcases h5 with rfl | rfl <;> decide
    have hcO : charOk c = true := by rcases h5 with rfl | rfl <;> decide
    rw [hsl]
    refine ⟨ok_of_no_stx (fun x hx => by rw [List.eq_of_mem_replicate hx]; exact hcO)
      (not_mem_replicate (Ne.symm hcS) _), ?_⟩
    show Cut L st.stash data s (e : Int) _
    rw [letters_replicate L hcL]
    have hcut := cut_of (X := []) hdata hd hcB ?_
    · rw [hlen] at hcut
      have : s + (c :: List.replicate k' c).length = e := by simp; omega
      rw [this] at hcut; exact hcut
    · have e' : (c :: List.replicate k' c) ++ rest = List.replicate (k' + 1) c ++ rest := by simp [List.replicate_succ]
      rw [e', flat_append_no_stx _ (not_mem_replicate (Ne.symm hcS) _), letters_append, letters_replicate L hcL]

/-! ### emphasis -/

theorem emHandle_spec {c : Char} {i : Nat} {el : Node} {e : Nat} :
    ∀ (items : List EmItem) (idx : Nat), emHandle data i c items idx = some (some (el, e)) →
      ∃ item ∈ items, ∃ groups idx', seqMatch data i c item.steps = some (e, groups) ∧
        build c (data.length + 2) groups item idx' = some el := by
  intro items
  induction items with
  | nil => intro idx h; simp [emHandle] at h
  | cons item rest ih =>
    intro idx h
    simp only [emHandle] at h
    split at h
    · rename_i e' groups hm
      split at h
      · rename_i el' hb
        simp only [Option.some.injEq, Prod.mk.injEq] at h
        obtain ⟨h1, h2⟩ := h
        subst h1; subst h2
        exact ⟨item, by simp, groups, idx, hm, hb⟩
      · simp at h
    · obtain ⟨it, hit, x⟩ := ih _ h
      exact ⟨it, List.mem_cons_of_mem _ hit, x⟩

theorem emScan_spec {c : Char} {el : Node} {s e : Nat} :
    ∀ (suf : Str) (i : Nat), emScan data c suf i = some (some (el, s, e)) →
      ∃ item ∈ emPatterns c, ∃ groups idx', seqMatch data s c item.steps = some (e, groups) ∧
        build c (data.length + 2) groups item idx' = some el := by
  intro suf
  induction suf with
  | nil => intro i h; simp [emScan] at h
  | cons ch r ih =>
    intro i h
    simp only [emScan] at h
    split at h
    · split at h
      · simp at h
      · rename_i el' e' hh
        simp only [Option.some.injEq, Prod.mk.injEq] at h
        obtain ⟨h1, h2, h3⟩ := h
        subst h1; subst h2; subst h3
        exact emHandle_spec _ _ hh
      · exact ih _ h
    · exact ih _ h

/-- patterns 14 and 15 -/
theorem found_em {c : Char} (hd : Delim L c) (hdata : ok L st.stash.length data = true) {suf : Str} {i s e : Nat}
    {el : Node} (h : emScan data c suf i = some (some (el, s, e))) :
    FoundOk L st data ⟨.el el, s, (e : Int)⟩ := by
  obtain ⟨item, hit, groups, idx', hm, hb⟩ := emScan_spec _ _ h
  have hio := emPatterns_ok c item hit
  simp only [itemOk', Bool.and_eq_true, beq_iff_eq] at hio
  obtain ⟨⟨hshape, hstarts⟩, hng⟩ := hio
  obtain ⟨hpos, hgl, hdrop, he⟩ := seqMatch_spec hm
  obtain ⟨x, hx⟩ := startsLit_head (c := c) hstarts groups []
  rw [List.append_nil] at hx
  have hokpos : ok L st.stash.length (data.drop s) = true := ok_drop hdata _
  rw [hdrop] at hokpos
  obtain ⟨hgs, _, hlet⟩ := assemble_split (table st.stash) hd.brk hd.ne hd.notL item.steps groups _ hgl hshape hokpos
  have hbuilt := build_spec (tbl := table st.stash) hd _ groups item idx' el hgs (by rw [hgl, hng]) hb
  refine ⟨hbuilt.tail, hbuilt.nok, (nonAtomic_iff.1 hbuilt.na).2.1, (nonAtomic_iff.1 hbuilt.na).2.2, ?_⟩
  have hdd : data = data.take s ++ (c :: x) ++ data.drop e := by
    have := (List.take_append_drop s data).symm
    rw [hdrop, hx] at this
    simpa [List.append_assoc] using this
  have hlen : (data.take s).length = s := by rw [List.length_take]; exact Nat.min_eq_left hpos
  have hcut := cut_of (X := letters L (nodeFlat (table st.stash) el)) hdata hdd hd.brk ?_
  · rw [hlen] at hcut
    have : s + (c :: x).length = e := by rw [← hx]; omega
    rw [this] at hcut; exact hcut
  · rw [← hx]
    simp only [flat]
    rw [hlet, hbuilt.lets]

/-! ### `findMatch` -/

theorem findMatch_spec (hL : LetterClass L) {cfg : Cfg} (hE : EscNotLetter L cfg)
    (hdata : ok L st.stash.length data = true) {pi si : Nat} {f : Found} {st1 : St}
    (h : findMatch cfg pi data si st = some (some f, st1)) : st1 = st ∧ FoundOk L st data f := by
  unfold findMatch at h
  simp only [] at h
  split at h
  · simp at h
  · rename_i hsi
    have hsi' : si ≤ data.length := by omega
    obtain ⟨hno1, hno2, _, _⟩ := not_mem_of_ok hdata
    split at h
    · -- 0
      split at h
      · rename_i m hm
        obtain ⟨pre, suf', hd, hshape⟩ := btFind_spec hm
        split at h
        · rename_i hkc
          simp only [Option.some.injEq, Prod.mk.injEq] at h
          obtain ⟨h1, h2⟩ := h
          subst h1; subst h2
          refine ⟨rfl, ?_⟩
          cases hshape with
          | bs k rest hk he hs hkind hstart hstop hg => rw [hkind] at hkc; cases hkc
          | code n g rest hn hs _ hstart hstop hg => exact found_code hL hdata hd hn hs hstart hstop hg
        · rename_i hkc
          simp only [Option.some.injEq, Prod.mk.injEq] at h
          obtain ⟨h1, h2⟩ := h
          subst h1; subst h2
          refine ⟨rfl, ?_⟩
          cases hshape with
          | code n g rest hn hs hkind hstart hstop hg => rw [hkind] at hkc; cases hkc
          | bs k rest hk he hs _ hstart hstop hg => exact found_bs hL hdata hd hk he hs hstart hstop hg
      · simp at h
    · -- 1
      split at h
      · rename_i i ch hsc
        simp only [Option.some.injEq, Prod.mk.injEq] at h
        obtain ⟨h1, h2⟩ := h
        subst h1; subst h2
        exact ⟨rfl, found_esc hL hE hdata hsi' hsc⟩
      · simp at h
    · -- 10
      split at h
      · rename_i off hf
        simp only [Option.some.injEq, Prod.mk.injEq] at h
        obtain ⟨h1, h2⟩ := h
        subst h1; subst h2
        exact ⟨rfl, found_br hL hdata hsi' hf⟩
      · simp at h
    · -- 12
      have : entityFind data si = none := by
        unfold entityFind
        split
        · rfl
        · exact entityScan_none _ _ (fun hm => hno2 (List.mem_of_mem_drop hm))
      simp [this] at h
    · -- 13
      split at h
      · rename_i s e hn
        simp only [Option.some.injEq, Prod.mk.injEq] at h
        obtain ⟨h1, h2⟩ := h
        subst h1; subst h2
        exact ⟨rfl, found_ns hL hdata hn⟩
      · simp at h
    · -- 14
      split at h
      · simp at h
      · simp at h
      · rename_i el s e hem
        simp only [Option.some.injEq, Prod.mk.injEq] at h
        obtain ⟨h1, h2⟩ := h
        subst h1; subst h2
        simp only [if_true] at hem
        exact ⟨rfl, found_em ⟨by decide, by decide, hL.star⟩ hdata hem⟩
    · -- 15
      split at h
      · simp at h
      · simp at h
      · rename_i el s e hem
        simp only [Option.some.injEq, Prod.mk.injEq] at h
        obtain ⟨h1, h2⟩ := h
        subst h1; subst h2
        simp only [show (15 = 14) = False by decide, if_false] at hem
        exact ⟨rfl, found_em ⟨by decide, by decide, hL.under⟩ hdata hem⟩
    · simp at h
    · simp at h
    · simp at h
    · split at h
      · rw [linkScan_none _ _ _ _ _ _ _ (fun hm => hno1 (List.mem_of_mem_drop hm))] at h
        simp at h
      · simp at h

end

end MdVerif.Flat
