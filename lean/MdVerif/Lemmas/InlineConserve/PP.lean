/-
C06 inline half, part 13: `__processPlaceholders` rebuilds the expanded text, in order.
-/
import MdVerif.Lemmas.InlineConserve.Handle

namespace MdVerif.Flat
open Py Inline

/-! ### more about `flatT` -/

/-- up to the first occurrence of the placeholder stem nothing is expanded -/
theorem flatT_find (tbl : List Str) {s : Str} {off : Nat} (h : find phPrefix s = some off) :
    flatT tbl 0 s = s.take off ++ flatT tbl 0 (s.drop off) := by
  induction s generalizing off with
  | nil =>
    have : off = 0 := by
      have := (find_some_iff_drop.1 h).1; simpa using this
    subst this; rfl
  | cons c r ih =>
    rw [find_cons] at h
    split at h
    · simp only [Option.some.injEq] at h; subst h; rfl
    · rename_i hsw
      cases hf : find phPrefix r with
      | none => simp [hf] at h
      | some o =>
        simp only [hf, Option.map_some, Option.some.injEq] at h
        subst h
        have hlit : flatT tbl 0 (c :: r) = c :: flatT tbl 0 r := by
          rw [flatT]; simp [hsw]
        rw [hlit, ih hf]; rfl

theorem flatT_find_none (tbl : List Str) {s : Str} (h : find phPrefix s = none) : flatT tbl 0 s = s := by
  induction s with
  | nil => rfl
  | cons c r ih =>
    rw [find_cons] at h
    split at h
    · simp at h
    · rename_i hsw
      have hf : find phPrefix r = none := by cases hf : find phPrefix r <;> simp [hf] at h ⊢
      have hlit : flatT tbl 0 (c :: r) = c :: flatT tbl 0 r := by
        rw [flatT]; simp [hsw]
      rw [hlit, ih hf]

theorem phTok_zero (r : Str) : phTok 0 r = false := by
  unfold phTok
  cases phAt (r.drop (phPrefixLen - 1)) with
  | none => simp
  | some x => simp

/-- a string without placeholders is its own expansion -/
theorem flatT_ok0 {L : Char → Bool} (tbl : List Str) {s : Str} (h : ok L 0 s = true) : flatT tbl 0 s = s := by
  induction s with
  | nil => rfl
  | cons c r ih =>
    rw [ok_cons] at h
    by_cases hc : c = STX
    · subst hc
      rcases h.2.1 with h1 | h1 | h1
      · exact absurd rfl h1
      · rw [flatT_stx, escTok_not_startsWith h1]
        simp only [Bool.false_eq_true, if_false, ih h.2.2]
      · rw [phTok_zero] at h1; cases h1
    · rw [flatT_cons_ne tbl hc, ih h.2.2]

/-- a string without placeholders that is well formed for some stash is well formed for the empty stash -/
theorem ok_of_no_stem {L : Char → Bool} {n : Nat} {s : Str} (h : ok L n s = true)
    (hfree : contains s phPrefix = false) : ok L 0 s = true := by
  induction s with
  | nil => rfl
  | cons c r ih =>
    obtain ⟨h1, h2⟩ := contains_cons_eq_false hfree
    rw [ok_cons] at h ⊢
    refine ⟨h.1, ?_, ih h.2.2 h2⟩
    rcases h.2.1 with hc | hc | hc
    · exact Or.inl hc
    · exact Or.inr (Or.inl hc)
    · by_cases hcs : c = STX
      · subst hcs
        exfalso
        unfold phTok at hc
        simp only [Bool.and_eq_true] at hc
        have : startsWith (STX :: r) phPrefix = true := by
          have e : phPrefix.drop 1 = ['k', 'l', 'z', 'z', 'w', 'x', 'h', ':'] := by decide
          have hsw := hc.1
          rw [e] at hsw
          rw [phPrefix_eq]
          simp only [startsWith, decide_true, Bool.true_and] at hsw ⊢
          exact hsw
        rw [this] at h1; cases h1
      · exact Or.inl hcs

theorem contains_take_of_find {pat s : Str} {off : Nat} (h : find pat s = some off) (hp : pat ≠ []) :
    contains (s.take off) pat = false := by
  obtain ⟨hle, _, hmin⟩ := find_some_iff_drop.1 h
  rw [contains_eq_false_iff]
  intro pre post e
  have hlen : (s.take off).length = off := by rw [List.length_take]; omega
  have hpl : 0 < pat.length := List.length_pos_iff.2 hp
  have hj : pre.length < off := by
    have := congrArg List.length e
    simp only [List.length_append] at this
    omega
  have := hmin pre.length hj
  have hs : s = pre ++ pat ++ post ++ s.drop off := by
    rw [← e, List.take_append_drop]
  have hd : s.drop pre.length = pat ++ (post ++ s.drop off) := by
    conv => lhs; rw [hs]
    simp only [List.append_assoc]
    rw [List.drop_left]
  rw [hd] at this
  have h2 : startsWith (pat ++ (post ++ s.drop off)) pat = true := startsWith_iff_prefix.2 ⟨_, rfl⟩
  rw [h2] at this; cases this

theorem contains_of_find_none {pat s : Str} (h : find pat s = none) : contains s pat = false := by
  simp [contains, h]

theorem table_getElem (stash : List StashItem) {k : Nat} (hk : k < stash.length) :
    (table stash)[k]? = some (itemText (table (stash.take k)) stash[k]) := by
  have hsplit : stash = (stash.take k ++ [stash[k]]) ++ stash.drop (k + 1) := by
    rw [List.append_assoc, List.singleton_append, ← List.drop_eq_getElem_cons hk, List.take_append_drop]
  obtain ⟨e, he⟩ := table_append (stash.take k ++ [stash[k]]) (stash.drop (k + 1))
  rw [← hsplit, table_snoc] at he
  have hlen : (table (stash.take k)).length = k := by
    rw [table_length, List.length_take]; omega
  rw [he, List.append_assoc, List.getElem?_append_right (by omega), hlen]
  simp

theorem stashOk_getElem {L : Char → Bool} {stash : List StashItem} (h : stashOk L stash = true) {k : Nat}
    (hk : k < stash.length) : itemOk L k stash[k] = true := by
  have hsplit : stash = stash.take k ++ (stash[k] :: stash.drop (k + 1)) := by
    rw [← List.drop_eq_getElem_cons hk, List.take_append_drop]
  unfold stashOk at h
  rw [hsplit, stashOkAux_append] at h
  simp only [Bool.and_eq_true, stashOkAux] at h
  have hlen : (stash.take k).length = k := by rw [List.length_take]; omega
  have := h.2.1
  rw [hlen, Nat.zero_add] at this
  exact this

end MdVerif.Flat

namespace MdVerif.Flat
open Py Inline

/-! ### clean texts -/

mutual
/-- an `AtomicString` text (which the tree walk does not run through the patterns again) contains no placeholder -/
def atomOk (L : Char → Bool) : Node → Bool
  | ⟨_, attrs, text, ta, children, _, _⟩ => (!ta || ok L 0 (text.getD [])) && attrs.isEmpty && kidsAtomOk L children
def kidsAtomOk (L : Char → Bool) : List Node → Bool
  | [] => true
  | c :: r => atomOk L c && kidsAtomOk L r
end

/-- the element's own text and tail contain no placeholder -/
def topClean (L : Char → Bool) (n : Node) : Bool := ok L 0 (n.text.getD []) && ok L 0 (n.tail.getD [])

/-- elements just made by `__processPlaceholders` -/
def GoodKids (L : Char → Bool) (ns : List Node) : Prop := ∀ r ∈ ns, topClean L r = true ∧ atomOk L r = true

theorem atomOk_iff {L : Char → Bool} {n : Node} :
    atomOk L n = true ↔ (n.textAtomic = true → ok L 0 (n.text.getD []) = true) ∧ n.attrs = [] ∧
      kidsAtomOk L n.children = true := by
  cases n
  simp only [atomOk, Bool.and_eq_true, Bool.or_eq_true, Bool.not_eq_true', List.isEmpty_iff, and_assoc]
  constructor
  · rintro ⟨h1, h2, h3⟩
    refine ⟨fun h => ?_, h2, h3⟩
    rcases h1 with h1 | h1
    · rw [h] at h1; cases h1
    · exact h1
  · rintro ⟨h1, h2, h3⟩
    refine ⟨?_, h2, h3⟩
    rename_i ta _ _ _
    cases ta
    · exact Or.inl rfl
    · exact Or.inr (h1 rfl)

theorem kidsAtomOk_cons {L : Char → Bool} {c : Node} {r : List Node} :
    kidsAtomOk L (c :: r) = true ↔ atomOk L c = true ∧ kidsAtomOk L r = true := by
  simp only [kidsAtomOk, Bool.and_eq_true]

theorem kidsAtomOk_append {L : Char → Bool} {a b : List Node} :
    kidsAtomOk L (a ++ b) = true ↔ kidsAtomOk L a = true ∧ kidsAtomOk L b = true := by
  induction a with
  | nil => simp [kidsAtomOk]
  | cons c r ih => simp only [List.cons_append, kidsAtomOk_cons, ih, and_assoc]

theorem kidsAtomOk_of_forall {L : Char → Bool} {ns : List Node} (h : ∀ r ∈ ns, atomOk L r = true) :
    kidsAtomOk L ns = true := by
  induction ns with
  | nil => rfl
  | cons c r ih =>
    exact kidsAtomOk_cons.2 ⟨h c (by simp), ih (fun x hx => h x (List.mem_cons_of_mem _ hx))⟩

theorem atomOk_of_mem {L : Char → Bool} {ns : List Node} (h : kidsAtomOk L ns = true) : ∀ r ∈ ns, atomOk L r = true := by
  induction ns with
  | nil => simp
  | cons c r ih =>
    rw [kidsAtomOk_cons] at h
    intro x hx
    rcases List.mem_cons.1 hx with rfl | hx
    · exact h.1
    · exact ih h.2 x hx

mutual
theorem atomOk_of_nonAtomic {L : Char → Bool} : (n : Node) → nonAtomic n = true → atomOk L n = true
  | ⟨_, _, text, ta, children, _, _⟩, h => by
    simp only [nonAtomic, Bool.and_eq_true, Bool.not_eq_true'] at h
    simp only [atomOk, Bool.and_eq_true, Bool.or_eq_true, Bool.not_eq_true']
    exact ⟨⟨Or.inl h.1.1, h.1.2⟩, kidsAtomOk_of_nonAtomic children h.2⟩
theorem kidsAtomOk_of_nonAtomic {L : Char → Bool} : (ns : List Node) → kidsNonAtomic ns = true → kidsAtomOk L ns = true
  | [], _ => rfl
  | c :: r, h => by
    simp only [kidsNonAtomic, Bool.and_eq_true] at h
    simp only [kidsAtomOk, Bool.and_eq_true]
    exact ⟨atomOk_of_nonAtomic c h.1, kidsAtomOk_of_nonAtomic r h.2⟩
end

/-! ### `linkText` -/

/-- the field of the parent that receives leading text -/
def field (p : Node) (isText : Bool) : Str := if isText then p.text.getD [] else p.tail.getD []

/-- `p'` is `p` with only that field changed -/
structure SameBut (isText : Bool) (p p' : Node) : Prop where
  kids : p'.children = p.children
  attrs : p'.attrs = p.attrs
  tail : isText = true → p'.tail = p.tail
  text : isText = false → p'.text = p.text

theorem SameBut.refl (isText : Bool) (p : Node) : SameBut isText p p := ⟨rfl, rfl, fun _ => rfl, fun _ => rfl⟩

theorem getD_of_not_truthy {t : Option Str} (h : Node.truthy t = false) : t.getD [] = [] := by
  cases t with
  | none => rfl
  | some s => cases s with
    | nil => rfl
    | cons c r => simp [Node.truthy] at h

theorem kidsOk_reverse {L : Char → Bool} {n : Nat} {ns : List Node} :
    kidsOk L n ns.reverse = true ↔ kidsOk L n ns = true := by
  induction ns with
  | nil => simp
  | cons c r ih =>
    rw [List.reverse_cons, kidsOk_append, kidsOk_cons, kidsOk_cons, ih]
    simp only [kidsOk, and_true]
    exact And.comm

structure PPInv (L : Char → Bool) (n : Nat) (tbl : List Str) (isText : Bool) (parent0 : Node) (A : Str)
    (result : List Node) (parent : Node) : Prop where
  same : SameBut isText parent0 parent
  kok : kidsOk L n result = true
  fok : ok L n (field parent isText) = true
  cf : ok L 0 (field parent isText) = true
  cr : GoodKids L result
  acc : flatT tbl 0 (field parent isText) ++ kidsFlat tbl result.reverse = A

theorem good_set_tail {L : Char → Bool} {l : Node} (h : topClean L l = true ∧ atomOk L l = true) {t : Str}
    (ht : ok L 0 t = true) (a : Bool) :
    topClean L { l with tail := some t, tailAtomic := a } = true ∧
      atomOk L { l with tail := some t, tailAtomic := a } = true := by
  obtain ⟨h1, h2⟩ := h
  simp only [topClean, Bool.and_eq_true] at h1 ⊢
  rw [atomOk_iff] at h2 ⊢
  exact ⟨⟨h1.1, ht⟩, h2⟩

theorem goodKids_cons {L : Char → Bool} {c : Node} {r : List Node} (hc : topClean L c = true ∧ atomOk L c = true)
    (hr : GoodKids L r) : GoodKids L (c :: r) := by
  intro x hx
  rcases List.mem_cons.1 hx with rfl | hx
  · exact hc
  · exact hr x hx

theorem linkText_spec {L : Char → Bool} {n : Nat} {tbl : List Str} {isText : Bool} {parent0 : Node} {A : Str}
    {result : List Node} {parent : Node} (hinv : PPInv L n tbl isText parent0 A result parent) {text : Str}
    (atomic : Bool) (hok0 : ok L 0 text = true) :
    PPInv L n tbl isText parent0 (A ++ text) (linkText text atomic isText result parent).fst
      (linkText text atomic isText result parent).snd := by
  have hok : ok L n text = true := ok_mono (Nat.zero_le _) hok0
  have hfl : flatT tbl 0 text = text := flatT_ok0 tbl hok0
  unfold linkText
  split
  · rename_i he
    have : text = [] := by cases text <;> simp_all
    subst this
    simpa using hinv
  · cases result with
    | nil =>
      simp only []
      have hA := hinv.acc
      simp only [List.reverse_nil, kidsFlat_nil, List.append_nil] at hA
      cases isText with
      | false =>
        simp only [Bool.not_false, if_true]
        have hfield : field parent false = parent.tail.getD [] := rfl
        split
        · refine ⟨⟨hinv.same.kids, hinv.same.attrs, fun h => (by cases h), fun _ => hinv.same.text rfl⟩, rfl, ?_, ?_,
            fun r hr => (by cases hr), ?_⟩
          · simp only [field, Bool.false_eq_true, if_false, Option.getD_some]
            exact ok_append (hfield ▸ hinv.fok) hok
          · simp only [field, Bool.false_eq_true, if_false, Option.getD_some]
            exact ok_append (hfield ▸ hinv.cf) hok0
          · simp only [field, Bool.false_eq_true, if_false, Option.getD_some, List.reverse_nil, kidsFlat_nil,
              List.append_nil]
            rw [flatT_append_ok tbl (hfield ▸ hinv.fok), hfl, ← hA]; rfl
        · rename_i ht
          have ht' : parent.tail.getD [] = [] := getD_of_not_truthy (by simpa using ht)
          refine ⟨⟨hinv.same.kids, hinv.same.attrs, fun h => (by cases h), fun _ => hinv.same.text rfl⟩, rfl, ?_, ?_,
            fun r hr => (by cases hr), ?_⟩
          · simp only [field, Bool.false_eq_true, if_false, Option.getD_some]; exact hok
          · simp only [field, Bool.false_eq_true, if_false, Option.getD_some]; exact hok0
          · simp only [field, Bool.false_eq_true, if_false, Option.getD_some, List.reverse_nil, kidsFlat_nil,
              List.append_nil, hfl]
            rw [← hA, hfield, ht']; rfl
      | true =>
        simp only [Bool.not_true, Bool.false_eq_true, if_false]
        have hfield : field parent true = parent.text.getD [] := rfl
        split
        · refine ⟨⟨hinv.same.kids, hinv.same.attrs, fun _ => hinv.same.tail rfl, fun h => (by cases h)⟩, rfl, ?_, ?_,
            fun r hr => (by cases hr), ?_⟩
          · simp only [field, if_true, Option.getD_some]
            exact ok_append (hfield ▸ hinv.fok) hok
          · simp only [field, if_true, Option.getD_some]
            exact ok_append (hfield ▸ hinv.cf) hok0
          · simp only [field, if_true, Option.getD_some, List.reverse_nil, kidsFlat_nil, List.append_nil]
            rw [flatT_append_ok tbl (hfield ▸ hinv.fok), hfl, ← hA]; rfl
        · rename_i ht
          have ht' : parent.text.getD [] = [] := getD_of_not_truthy (by simpa using ht)
          refine ⟨⟨hinv.same.kids, hinv.same.attrs, fun _ => hinv.same.tail rfl, fun h => (by cases h)⟩, rfl, ?_, ?_,
            fun r hr => (by cases hr), ?_⟩
          · simp only [field, if_true, Option.getD_some]; exact hok
          · simp only [field, if_true, Option.getD_some]; exact hok0
          · simp only [field, if_true, Option.getD_some, List.reverse_nil, kidsFlat_nil, List.append_nil, hfl]
            rw [← hA, hfield, ht']; rfl
    | cons l r =>
      simp only []
      have hk := kidsOk_cons.1 hinv.kok
      have hl := nodeOk_iff.1 hk.1
      have hA := hinv.acc
      simp only [List.reverse_cons, kidsFlat_append, kidsFlat_cons, kidsFlat_nil, List.append_nil] at hA
      have hgl := hinv.cr l (by simp)
      have hgr : GoodKids L r := fun x hx => hinv.cr x (List.mem_cons_of_mem _ hx)
      have hltail : ok L 0 (l.tail.getD []) = true := by
        have := hgl.1; simp only [topClean, Bool.and_eq_true] at this; exact this.2
      split
      · refine ⟨hinv.same, kidsOk_cons.2 ⟨?_, hk.2⟩, hinv.fok, hinv.cf,
          goodKids_cons (good_set_tail hgl (ok_append hltail hok0) _) hgr, ?_⟩
        · rw [nodeOk_iff]; exact ⟨hl.1, by simpa using ok_append hl.2.1 hok, hl.2.2⟩
        · simp only [List.reverse_cons, kidsFlat_append, kidsFlat_cons, kidsFlat_nil, List.append_nil, nodeFlat_eq,
            Option.getD_some]
          rw [flatT_append_ok tbl hl.2.1, hfl, ← hA]
          simp only [nodeFlat_eq, List.append_assoc]
      · rename_i ht
        have ht' : l.tail.getD [] = [] := getD_of_not_truthy (by simpa using ht)
        refine ⟨hinv.same, kidsOk_cons.2 ⟨?_, hk.2⟩, hinv.fok, hinv.cf,
          goodKids_cons (good_set_tail hgl hok0 _) hgr, ?_⟩
        · rw [nodeOk_iff]; exact ⟨hl.1, by simpa using hok, hl.2.2⟩
        · simp only [List.reverse_cons, kidsFlat_append, kidsFlat_cons, kidsFlat_nil, List.append_nil, nodeFlat_eq,
            Option.getD_some, hfl]
          rw [← hA, ht']
          simp only [nodeFlat_eq, flatT_nil, List.append_nil, List.append_assoc]

end MdVerif.Flat
