/-
C06 inline half, part 12: `__applyPattern`, the pattern loop and `__handleInline` keep the visible letters.
-/
import MdVerif.Lemmas.InlineConserve.Patterns2

namespace MdVerif.Flat
open Py Inline

section
variable {L : Char → Bool}

theorem findMatch_state {cfg : Cfg} {st st2 : St} {data : Str} {pi si : Nat} {r : Option Found}
    (hno : '&' ∉ data) (h : findMatch cfg pi data si st = some (r, st2)) : st2 = st := by
  unfold findMatch at h
  simp only [] at h
  split at h
  · simp only [Option.some.injEq, Prod.mk.injEq] at h; exact h.2.symm
  · split at h
    · split at h
      · split at h <;> (simp only [Option.some.injEq, Prod.mk.injEq] at h; exact h.2.symm)
      · simp only [Option.some.injEq, Prod.mk.injEq] at h; exact h.2.symm
    · split at h <;> (simp only [Option.some.injEq, Prod.mk.injEq] at h; exact h.2.symm)
    · split at h <;> (simp only [Option.some.injEq, Prod.mk.injEq] at h; exact h.2.symm)
    · have : entityFind data si = none := by
        unfold entityFind
        split
        · rfl
        · exact entityScan_none _ _ (fun hm => hno (List.mem_of_mem_drop hm))
      simp only [this, Option.some.injEq, Prod.mk.injEq] at h; exact h.2.symm
    · split at h <;> (simp only [Option.some.injEq, Prod.mk.injEq] at h; exact h.2.symm)
    · split at h
      · simp at h
      · simp only [Option.some.injEq, Prod.mk.injEq] at h; exact h.2.symm
      · simp only [Option.some.injEq, Prod.mk.injEq] at h; exact h.2.symm
    · split at h
      · simp at h
      · simp only [Option.some.injEq, Prod.mk.injEq] at h; exact h.2.symm
      · simp only [Option.some.injEq, Prod.mk.injEq] at h; exact h.2.symm
    · simp only [Option.some.injEq, Prod.mk.injEq] at h; exact h.2.symm
    · simp only [Option.some.injEq, Prod.mk.injEq] at h; exact h.2.symm
    · simp only [Option.some.injEq, Prod.mk.injEq] at h; exact h.2.symm
    · split at h <;> (simp only [Option.some.injEq, Prod.mk.injEq] at h; exact h.2.symm)

theorem lettersN_eq (stash : List StashItem) (n : Node) :
    lettersN L stash n = lettersF L stash (n.text.getD []) ++ lettersK L stash n.children := by
  simp only [lettersN, lettersF, lettersK, flat, nodeFlat_eq, letters_append]

theorem cut_ext {st st2 : St} {data : Str} {a : Nat} {b : Int} {X : Str} (hext : ∃ e, st2.stash = st.stash ++ e)
    (hdata : ok L st.stash.length data = true) (h : Cut L st.stash data a b X) : Cut L st2.stash data a b X := by
  obtain ⟨pre, M, post, h1, h2, h3, h4, h5, h6⟩ := h
  have hle := ext_length hext
  refine ⟨pre, M, post, h1, h2, h3, ok_mono hle h4, ok_mono hle h5, ?_⟩
  rw [lettersF_ext hext hdata, lettersF_ext hext h4, lettersF_ext hext h5, h6]

/-- the element of a match after the nested `__handleInline` calls -/
theorem el_nested {hi : HI} (hhi : HISpec L hi) {st sta stb : St} {n n1 : Node} {kids : List Node} {pi : Nat}
    (hs : stashOk L st.stash = true) (hn : nodeOk L st.stash.length n = true) (ht : n.tail = none)
    (hna : kidsNonAtomic n.children = true) (hat : n.attrs = [])
    (h1 : hiNode hi pi { n with children := [] } st = some (n1, sta))
    (h2 : hiNodes hi pi n.children sta = some (kids, stb)) :
    (∃ e, stb.stash = st.stash ++ e) ∧ stashOk L stb.stash = true ∧
      nodeOk L stb.stash.length { n1 with children := kids } = true ∧
      stb.html = st.html ∧
      ({ n1 with children := kids } : Node).tail = none ∧ n1.attrs = [] ∧ kidsNonAtomic kids = true ∧
      lettersN L stb.stash { n1 with children := kids } = lettersN L st.stash n := by
  have hn' := nodeOk_iff.1 hn
  have hn0 : nodeOk L st.stash.length { n with children := [] } = true := by
    rw [nodeOk_iff]; exact ⟨hn'.1, hn'.2.1, rfl⟩
  have s1 := hiNode_spec hhi hs hn0 h1
  have hle1 := ext_length s1.ext
  obtain ⟨ext2, sok2, kok2, lk2, na2, hh2⟩ := hiNodes_spec hhi pi _ _ _ _ s1.sok (kidsOk_mono hle1 _ hn'.2.2) h2
  have hle2 := ext_length ext2
  obtain ⟨x1, hx1⟩ := s1.ext
  obtain ⟨x2, hx2⟩ := ext2
  have hn1 := nodeOk_iff.1 s1.nok
  refine ⟨⟨x1 ++ x2, by rw [hx2, hx1, List.append_assoc]⟩, sok2, ?_, by rw [hh2, s1.html], s1.tailNone ht,
    by rw [s1.attrs]; exact hat, na2 hna, ?_⟩
  · rw [nodeOk_iff]; exact ⟨ok_mono hle2 hn1.1, ok_mono hle2 hn1.2.1, kok2⟩
  · rw [lettersN_eq, lettersN_eq]
    simp only []
    rw [lk2, lettersF_ext ⟨x2, hx2⟩ hn1.1, s1.ltext, lettersK_ext s1.ext hn'.2.2]

/-- stashing the (processed) element of a match -/
theorem put_el {st st1 st' : St} {data data' : Str} {f : Found} {n n' : Node}
    (hd : ok L st.stash.length data = true)
    (hcut : Cut L st.stash data f.start f.stop (letters L (nodeFlat (table st.stash) n)))
    (hext : ∃ e, st1.stash = st.stash ++ e) (hhtml : st1.html = st.html) (sok1 : stashOk L st1.stash = true)
    (nok1 : nodeOk L st1.stash.length n' = true) (tail1 : n'.tail = none)
    (at1 : n'.attrs = []) (na1 : kidsNonAtomic n'.children = true)
    (let1 : lettersN L st1.stash n' = lettersN L st.stash n)
    (h1 : data.take f.start ++ (stashNode st1 (.node n')).1 ++ pyDrop data f.stop = data')
    (h4 : (stashNode st1 (.node n')).2 = st') : Conserves L st data st' data' := by
  obtain ⟨pre, M, post, c1, c2, c3, c4, c5, c6⟩ := cut_ext hext hd hcut
  subst h1; subst h4
  rw [c2, c3]
  have hit : itemOk L st1.stash.length (.node n') = true := by
    simp only [itemOk, Bool.and_eq_true]; exact ⟨⟨⟨nok1, by rw [tail1]; rfl⟩, by rw [at1]; rfl⟩, na1⟩
  have hput := stash_put (it := .node n') (M := M) sok1 hit c4 c5
    (by rw [← c1, c6]; simp only [itemText]; simp only [lettersN] at let1; rw [let1])
  rw [← c1] at hput
  have h0 : Conserves L st data st1 data :=
    ⟨hext, sok1, ok_mono (ext_length hext) hd, lettersF_ext hext hd, hhtml⟩
  exact h0.trans hput

theorem applyPattern_spec (hL : LetterClass L) {cfg : Cfg} (hE : EscNotLetter L cfg) {hi : HI} (hhi : HISpec L hi)
    {st st' : St} {data data' : Str} {pi si si' : Nat} {m : Bool}
    (hs : stashOk L st.stash = true) (hd : ok L st.stash.length data = true)
    (h : applyPattern cfg hi pi data si st = some (data', m, si', st')) : Conserves L st data st' data' := by
  obtain ⟨_, hamp, _, _⟩ := not_mem_of_ok hd
  unfold applyPattern at h
  split at h
  · simp at h
  · rename_i st2 hf
    have := findMatch_state hamp hf
    subst this
    simp only [Option.some.injEq, Prod.mk.injEq] at h
    obtain ⟨h1, _, _, h4⟩ := h
    subst h1; subst h4
    exact Conserves.refl hs hd
  · rename_i f st2 hf
    obtain ⟨hst, hfo⟩ := findMatch_spec hL hE hd hf
    subst hst
    unfold FoundOk at hfo
    split at h
    · simp only [Option.some.injEq, Prod.mk.injEq] at h
      obtain ⟨h1, _, _, h4⟩ := h
      subst h1; subst h4
      exact Conserves.refl hs hd
    · rename_i s hnode
      rw [hnode] at hfo
      obtain ⟨hoks, pre, M, post, c1, c2, c3, c4, c5, c6⟩ := hfo
      simp only [Option.some.injEq, Prod.mk.injEq] at h
      obtain ⟨h1, _, _, h4⟩ := h
      subst h1; subst h4
      rw [c2, c3]
      have := stash_put (it := .str s) (M := M) hs hoks c4 c5 (by rw [← c1]; exact c6)
      rw [← c1] at this
      exact this
    · rename_i n hnode
      rw [hnode] at hfo
      obtain ⟨htail, hnok, hattrs, hna, hcut⟩ := hfo
      by_cases hc : (n.text.isSome && n.textAtomic) = true
      · simp only [hc, if_true, Option.some.injEq, Prod.mk.injEq] at h
        exact put_el hd hcut ⟨[], by simp⟩ rfl hs hnok htail hattrs hna rfl h.1 h.2.2.2
      · simp only [hc] at h
        cases hh1 : hiNode hi pi { n with children := [] } st2 with
        | none => simp [hh1] at h
        | some x1 =>
          obtain ⟨n1, sta⟩ := x1
          simp only [hh1] at h
          cases hh2 : hiNodes hi pi n.children sta with
          | none => simp [hh2] at h
          | some x2 =>
            obtain ⟨kids, stb⟩ := x2
            simp only [hh2, Bool.false_eq_true, ↓reduceIte, Option.some.injEq, Prod.mk.injEq] at h
            obtain ⟨hext, sok1, nok1, hh, tail1, at1, na1, let1⟩ := el_nested hhi hs hnok htail hna hattrs hh1 hh2
            exact put_el hd hcut hext hh sok1 nok1 tail1 at1 na1 let1 h.1 h.2.2.2

/-! ### the pattern loop -/

theorem hiLoop_spec {ap : Nat → Str → Nat → St → Option (Str × Bool × Nat × St)}
    (hap : ∀ pi data si st data' m si' st', stashOk L st.stash = true → ok L st.stash.length data = true →
      ap pi data si st = some (data', m, si', st') → Conserves L st data st' data') :
    ∀ (g : Nat) (data : Str) (pi si : Nat) (st : St) (data' : Str) (st' : St), stashOk L st.stash = true →
      ok L st.stash.length data = true → hiLoop ap g data pi si st = some (data', st') →
      Conserves L st data st' data' := by
  intro g
  induction g with
  | zero => intro data pi si st data' st' _ _ h; simp [hiLoop] at h
  | succ g ih =>
    intro data pi si st data' st' hs hd h
    simp only [hiLoop] at h
    split at h
    · split at h
      · simp at h
      · rename_i d m si1 st1 hap1
        have c1 := hap _ _ _ _ _ _ _ _ hs hd hap1
        exact c1.trans (ih _ _ _ _ _ _ c1.sok c1.dok h)
    · simp only [Option.some.injEq, Prod.mk.injEq] at h
      obtain ⟨h1, h2⟩ := h
      subst h1; subst h2
      exact Conserves.refl hs hd

/-- **`__handleInline` keeps the visible letters** (any nesting depth) -/
theorem handleInline_spec (hL : LetterClass L) {cfg : Cfg} (hE : EscNotLetter L cfg) :
    ∀ (f : Nat), HISpec L (fun d p s => handleInline cfg f d p s) := by
  intro f
  induction f with
  | zero => intro d pi st d' st' _ _ h; simp [handleInline] at h
  | succ f ih =>
    intro d pi st d' st' hs hd h
    simp only [handleInline] at h
    exact hiLoop_spec (fun pi data si st data' m si' st' hs hd h => applyPattern_spec hL hE ih hs hd h)
      _ _ _ _ _ _ _ hs hd h

end

end MdVerif.Flat
