/-
C06 inline half, part 18: `Inline.run` on a document tree of the domain; trees without placeholders.
-/
import MdVerif.Lemmas.InlineConserve.Run

namespace MdVerif.Flat
open Py Inline

section
variable {L : Char → Bool}

theorem ok_of_strClean {n : Nat} {s : Str} (h : strClean s = true) : ok L n s = true := by
  simp only [strClean, List.all_eq_true, Bool.and_eq_true, bne_iff_ne, ne_eq] at h
  exact ok_of_no_stx (fun c hc => (h c hc).1) (fun hm => (h _ hm).2 rfl)

mutual
theorem nodeOk_of_treeClean {n : Nat} : (t : Node) → treeClean t = true → nodeOk L n t = true
  | ⟨_, _, text, _, children, tail, _⟩, h => by
    simp only [treeClean, Bool.and_eq_true] at h
    simp only [nodeOk, Bool.and_eq_true]
    exact ⟨⟨ok_of_strClean h.1.1.1, ok_of_strClean h.1.1.2⟩, kidsOk_of_kidsClean children h.1.2⟩
theorem kidsOk_of_kidsClean {n : Nat} : (ts : List Node) → kidsClean ts = true → kidsOk L n ts = true
  | [], _ => rfl
  | c :: r, h => by
    simp only [kidsClean, Bool.and_eq_true] at h
    simp only [kidsOk, Bool.and_eq_true]
    exact ⟨nodeOk_of_treeClean c h.1, kidsOk_of_kidsClean r h.2⟩
end

theorem flatT_of_phFree (tbl : List Str) {s : Str} (h : contains s phPrefix = false) : flatT tbl 0 s = s := by
  apply flatT_find_none
  simp only [contains] at h
  cases hf : find phPrefix s with
  | none => rfl
  | some x => simp [hf] at h

mutual
theorem nodeFlat_of_phFree (tbl : List Str) : (t : Node) → phFree t = true → nodeFlat tbl t = content t
  | ⟨_, _, text, _, children, tail, _⟩, h => by
    simp only [phFree, Bool.and_eq_true, Bool.not_eq_true'] at h
    simp only [nodeFlat, content]
    rw [flatT_of_phFree tbl h.1.1, kidsFlat_of_phFree tbl children h.2]
theorem kidsFlat_of_phFree (tbl : List Str) : (ts : List Node) → kidsPhFree ts = true → kidsFlat tbl ts = contentKids ts
  | [], _ => rfl
  | c :: r, h => by
    simp only [kidsPhFree, Bool.and_eq_true] at h
    simp only [kidsFlat, contentKids]
    rw [nodeFlat_of_phFree tbl c h.1, kidsFlat_of_phFree tbl r h.2]
    have : contains (c.tail.getD []) phPrefix = false := by
      have h1 := h.1
      obtain ⟨_, _, _, _, _, tail, _⟩ := c
      simp only [phFree, Bool.and_eq_true, Bool.not_eq_true'] at h1
      exact h1.1.2
    rw [flatT_of_phFree tbl this]
end

theorem strClean_no_stem {s : Str} (h : strClean s = true) : contains s phPrefix = false := by
  rw [contains_eq_false_iff]
  intro pre post e
  simp only [strClean, List.all_eq_true, Bool.and_eq_true, bne_iff_ne, ne_eq] at h
  exact (h STX (by rw [e, phPrefix_eq]; simp)).2 rfl

mutual
theorem phFree_of_treeClean : (t : Node) → treeClean t = true → phFree t = true
  | ⟨_, _, text, _, children, tail, _⟩, h => by
    simp only [treeClean, Bool.and_eq_true] at h
    simp only [phFree, Bool.and_eq_true, Bool.not_eq_true']
    exact ⟨⟨strClean_no_stem h.1.1.1, strClean_no_stem h.1.1.2⟩, kidsPhFree_of_kidsClean children h.1.2⟩
theorem kidsPhFree_of_kidsClean : (ts : List Node) → kidsClean ts = true → kidsPhFree ts = true
  | [], _ => rfl
  | c :: r, h => by
    simp only [kidsClean, Bool.and_eq_true] at h
    simp only [kidsPhFree, Bool.and_eq_true]
    exact ⟨phFree_of_treeClean c h.1, kidsPhFree_of_kidsClean r h.2⟩
end

theorem flatT_nil_tbl (s : Str) : flatT [] 0 s = s := by
  induction s with
  | nil => rfl
  | cons c r ih =>
    rw [flatT]
    have hg : ∀ id, tblGet [] id = none := by intro id; simp [tblGet]
    split
    · split
      · rename_i id l _; simp only [hg, ih]
      · simp only [ih]
    · simp only [ih]

mutual
theorem nodeFlat_nil : (t : Node) → nodeFlat [] t = content t
  | ⟨_, _, text, _, children, _, _⟩ => by
    simp only [nodeFlat, content, flatT_nil_tbl, kidsFlat_nil' children]
theorem kidsFlat_nil' : (ts : List Node) → kidsFlat [] ts = contentKids ts
  | [] => rfl
  | c :: r => by
    simp only [kidsFlat, contentKids, flatT_nil_tbl, nodeFlat_nil c, kidsFlat_nil' r]
end

theorem ok0_of_strClean {s : Str} (h : strClean s = true) : ok L 0 s = true := ok_of_strClean h

mutual
theorem atomOk_of_treeClean : (t : Node) → treeClean t = true → atomOk L t = true
  | ⟨_, _, text, ta, children, tail, _⟩, h => by
    simp only [treeClean, Bool.and_eq_true] at h
    simp only [atomOk, Bool.and_eq_true, Bool.or_eq_true, Bool.not_eq_true']
    exact ⟨⟨Or.inr (ok_of_strClean h.1.1.1), h.2⟩, kidsAtomOk_of_kidsClean children h.1.2⟩
theorem kidsAtomOk_of_kidsClean : (ts : List Node) → kidsClean ts = true → kidsAtomOk L ts = true
  | [], _ => rfl
  | c :: r, h => by
    simp only [kidsClean, Bool.and_eq_true] at h
    simp only [kidsAtomOk, Bool.and_eq_true]
    exact ⟨atomOk_of_treeClean c h.1, kidsAtomOk_of_kidsClean r h.2⟩
end

theorem topClean_of_treeClean {t : Node} (h : treeClean t = true) : topClean L t = true := by
  obtain ⟨_, _, text, _, children, tail, _⟩ := t
  simp only [treeClean, Bool.and_eq_true] at h
  simp only [topClean, Bool.and_eq_true]
  exact ⟨ok_of_strClean h.1.1.1, ok_of_strClean h.1.1.2⟩

/-- `InlineProcessor.run` on a tree of the domain: the result and the stash are well formed, no placeholder is left
    in the result, and the letters of the result are the letters of the tree -/
theorem run_spec (hL : LetterClass L) {cfg : Cfg} (hE : EscNotLetter L cfg) {tree tree' : Node} {st : St}
    {html : List Str} (hclean : treeClean tree = true) (h : run cfg tree html = some (tree', st)) :
    stashOk L st.stash = true ∧ nodeOk L st.stash.length tree' = true ∧
      lettersN L st.stash tree' = docLetters L tree ∧ nodeOk L 0 tree' = true ∧ atomOk L tree' = true ∧
      st.html = html := by
  unfold run at h
  have h0 : nodeOk L ({ html := html } : St).stash.length tree = true := nodeOk_of_treeClean tree hclean
  have hcov : Covered L tree [[]] := fun q m _ _ => ⟨[], by simp, List.nil_prefix⟩
  obtain ⟨a1, a2, a3, a4, a5, a6, a7⟩ := runLoop_spec hL hE _ _ _ _ _ _ _ rfl h0 (atomOk_of_treeClean tree hclean) hcov
    (topClean_of_treeClean hclean) h
  refine ⟨a1, a2, ?_, ?_, a6, a7⟩
  · rw [a3]
    simp only [lettersN, docLetters]
    rw [nodeFlat_of_phFree _ tree (phFree_of_treeClean tree hclean)]
  · have hdeep : Deep (fun m => ∀ c ∈ m.children, topClean L c = true) tree' := by
      intro q m hq c hc
      cases htc : topClean L c with
      | true => rfl
      | false =>
        obtain ⟨q', hq', _⟩ := a4 q m hq ⟨c, hc, htc⟩
        cases hq'
    have hk := kidsOk0_of_deep tree' a2 hdeep
    simp only [topClean, Bool.and_eq_true] at a5
    rw [nodeOk_iff]; exact ⟨a5.1, a5.2, hk⟩

/-- a tree without placeholders is its own expansion -/
theorem nodeFlat_of_ok0 (tbl : List Str) {t : Node} (h : nodeOk L 0 t = true) : nodeFlat tbl t = content t := by
  have := nodeFlat_ext (L := L) [] tbl t h
  simp only [List.nil_append] at this
  rw [this]
  exact nodeFlat_nil t

end

end MdVerif.Flat
