/-
C06 inline half, part 14: the `while data` loop of `__processPlaceholders`, `procNode`, and the recursion.
-/
import MdVerif.Lemmas.InlineConserve.PP

namespace MdVerif.Flat
open Py Inline

/-- what is done to an element taken out of the stash keeps its expanded text -/
def NestedSpec (L : Char → Bool) (n : Nat) (tbl : List Str) (nested : Node → Option Node) : Prop :=
  ∀ nd nd', nodeOk L n nd = true → nd.tail = none → nd.attrs = [] → kidsNonAtomic nd.children = true →
    nested nd = some nd' →
    nodeFlat tbl nd' = nodeFlat tbl nd ∧ nd'.tail = none ∧ nodeOk L n nd' = true ∧
      ok L 0 (nd'.text.getD []) = true ∧ atomOk L nd' = true

theorem of_ite_none' {α : Type} {b : Prop} [Decidable b] {x : Option α} {y : α}
    (h : (if b then none else x) = some y) : x = some y := by
  split at h
  · simp at h
  · exact h

theorem ph_at_stem_aux {L : Char → Bool} {n : Nat} (r : Str) (hok : ok L n (STX :: r) = true)
    (hsw : startsWith r (phPrefix.drop 1) = true) :
    ∃ id l, phAt (r.drop (phPrefixLen - 1)) = some (id, l) ∧ pad4 (decToNat id) = id ∧ decToNat id < n := by
  rw [ok_cons] at hok
  rcases hok.2.1 with h | h | h
  · exact absurd rfl h
  · rw [escTok_not_startsWith h] at hsw; cases hsw
  · unfold phTok at h
    simp only [Bool.and_eq_true] at h
    cases hp : phAt (r.drop (phPrefixLen - 1)) with
    | none => rw [hp] at h; simp at h
    | some x =>
      obtain ⟨id, l⟩ := x
      have h2 := h.2
      rw [hp] at h2
      simp only [Bool.and_eq_true, decide_eq_true_eq] at h2
      exact ⟨id, l, rfl, h2.1, h2.2⟩

/-- the token at a stem found in a well-formed string is a placeholder with an id in range -/
theorem ph_at_stem {L : Char → Bool} {n : Nat} {s : Str} (hok : ok L n s = true)
    (hsw : startsWith s phPrefix = true) :
    ∃ r id l, s = STX :: r ∧ startsWith r (phPrefix.drop 1) = true ∧ phAt (r.drop (phPrefixLen - 1)) = some (id, l) ∧
      pad4 (decToNat id) = id ∧ decToNat id < n := by
  obtain ⟨t, ht⟩ := startsWith_iff_prefix.1 hsw
  have hs : s = STX :: ((phPrefix.drop 1) ++ t) := by rw [ht]; rfl
  have hsw' : startsWith ((phPrefix.drop 1) ++ t) (phPrefix.drop 1) = true := startsWith_iff_prefix.2 ⟨t, rfl⟩
  rw [hs] at hok
  obtain ⟨id, l, h1, h2, h3⟩ := ph_at_stem_aux _ hok hsw'
  exact ⟨_, id, l, hs, hsw', h1, h2, h3⟩

theorem findPh_at {data r id : Str} {index l : Nat} (hd : data.drop index = STX :: r)
    (hsw : startsWith r (phPrefix.drop 1) = true) (hp : phAt (r.drop (phPrefixLen - 1)) = some (id, l)) :
    findPh data index = (some id, index + phPrefixLen + l) := by
  have hle : ¬ index > data.length := by
    intro h
    rw [List.drop_of_length_le (by omega)] at hd; cases hd
  have e1 : startsWith (STX :: r) phPrefix = true := by
    have e : phPrefix.drop 1 = ['k', 'l', 'z', 'z', 'w', 'x', 'h', ':'] := by decide
    rw [e] at hsw
    rw [phPrefix_eq]
    simp only [startsWith, decide_true, Bool.true_and] at hsw ⊢
    exact hsw
  have e2 : (STX :: r).drop phPrefixLen = r.drop (phPrefixLen - 1) := by simp [phPrefixLen]
  simp only [findPh, hle, if_false, hd, findPhScan, e1, e2, hp, decide_true, Bool.and_self, if_true]

section
variable {L : Char → Bool} {stash : List StashItem} {nested : Node → Option Node} {data : Str} {isText : Bool}
  {parent0 : Node}

theorem ppLoop_spec (hs : stashOk L stash = true) (hn : NestedSpec L stash.length (table stash) nested)
    (hdata : ok L stash.length data = true) (atomic : Bool) (T : Str) :
    ∀ (g start : Nat) (result : List Node) (parent : Node) (A : Str) (res : List Node) (parent' : Node),
      PPInv L stash.length (table stash) isText parent0 A result parent →
      A ++ flatT (table stash) 0 (data.drop start) = T →
      ppLoop stash nested data atomic isText g start result parent = some (res, parent') →
      SameBut isText parent0 parent' ∧ kidsOk L stash.length res = true ∧
        ok L stash.length (field parent' isText) = true ∧
        flatT (table stash) 0 (field parent' isText) ++ kidsFlat (table stash) res = T ∧
        ok L 0 (field parent' isText) = true ∧ GoodKids L res := by
  intro g
  induction g with
  | zero => intro start result parent A res parent' _ _ h; simp [ppLoop] at h
  | succ g ih =>
    intro start result parent A res parent' hinv hT h
    simp only [ppLoop] at h
    split at h
    · -- a stem at `start + off`
      rename_i off hfind
      have hfind' : find phPrefix (data.drop start) = some off := of_ite_none' hfind
      obtain ⟨hle, hsw, _⟩ := find_some_iff_drop.1 hfind'
      rw [List.drop_drop] at hsw
      have hoki : ok L stash.length (data.drop (start + off)) = true := ok_drop hdata _
      obtain ⟨r, id, l, hdr, hswr, hp, hcanon, hlt⟩ := ph_at_stem hoki hsw
      have hfp := findPh_at hdr hswr hp
      -- the text in front of the stem
      have hslice : slice data start (start + off) = (data.drop start).take off := by
        simp only [slice, List.drop_take]; congr 1; omega
      have hsplit : data.drop start = (data.drop start).take off ++ STX :: r := by
        rw [← hdr, ← List.drop_drop, List.take_append_drop]
      have hokpiece : ok L stash.length ((data.drop start).take off) = true := by
        have := ok_drop hdata start
        rw [hsplit] at this
        exact ok_of_append_brk brk_stx this
      have hok0piece : ok L 0 ((data.drop start).take off) = true :=
        ok_of_no_stem hokpiece (contains_take_of_find hfind' (by decide))
      have hinv1 : PPInv L stash.length (table stash) isText parent0 (A ++ (data.drop start).take off)
          (if start + off > 0 then linkText (slice data start (start + off)) false isText result parent
            else (result, parent)).fst
          (if start + off > 0 then linkText (slice data start (start + off)) false isText result parent
            else (result, parent)).snd := by
        split
        · rw [hslice]; exact linkText_spec hinv false hok0piece
        · rename_i h0
          have : off = 0 := by omega
          subst this
          simpa using hinv
      -- the expansion at the stem
      have hstash : stashGet stash id = stash[decToNat id]? := by simp [stashGet, hcanon]
      have hget : stash[decToNat id]? = some stash[decToNat id] := List.getElem?_eq_getElem hlt
      have htbl : tblGet (table stash) id = some (itemText (table (stash.take (decToNat id))) stash[decToNat id]) := by
        simp only [tblGet, hcanon, if_true]; exact table_getElem stash hlt
      have hflat : flatT (table stash) 0 (data.drop start) =
          (data.drop start).take off ++ (itemText (table (stash.take (decToNat id))) stash[decToNat id] ++
            flatT (table stash) 0 (data.drop (start + off + phPrefixLen + l))) := by
        rw [flatT_find (table stash) hfind', List.drop_drop, hdr, flatT_stx]
        simp only [hswr, if_true, hp, htbl]
        have : r.drop (phPrefixLen - 1 + l) = data.drop (start + off + phPrefixLen + l) := by
          have : data.drop (start + off + phPrefixLen + l) = (data.drop (start + off)).drop (phPrefixLen + l) := by
            rw [List.drop_drop]; congr 1; omega
          rw [this, hdr]
          simp only [phPrefixLen]
          rw [show 9 + l = (8 + l) + 1 by omega, List.drop_succ_cons]
        rw [this]
      have hitem := stashOk_getElem hs hlt
      simp only [hfp, Option.bind_some, hstash, hget] at h
      cases hit : stash[decToNat id] with
      | node nd =>
        simp only [hit] at h hitem hflat
        simp only [itemOk, Bool.and_eq_true] at hitem
        have htail : nd.tail = none := by
          cases ht : nd.tail with
          | none => rfl
          | some x => have := hitem.1.1.2; rw [ht] at this; simp at this
        have hndok : nodeOk L stash.length nd = true := nodeOk_mono (Nat.le_of_lt hlt) _ hitem.1.1.1
        split at h
        · simp at h
        · rename_i nd' hnest
          obtain ⟨hnf, hnt, hnok, hntext, hnatom⟩ := hn nd nd' hndok htail (by simpa using hitem.1.2) hitem.2 hnest
          have hstable : nodeFlat (table stash) nd = nodeFlat (table (stash.take (decToNat id))) nd := by
            have hlen : (stash.take (decToNat id)).length = decToNat id := by
              rw [List.length_take]; omega
            have := nodeFlat_table_ext (L := L) (stash := stash.take (decToNat id)) (n := nd)
              (by rw [hlen]; exact hitem.1.1.1) (stash.drop (decToNat id))
            rw [List.take_append_drop] at this
            exact this
          refine ih _ _ _ (A ++ (data.drop start).take off ++ nodeFlat (table stash) nd) _ _ ?_ ?_ h
          · have hgood : topClean L nd' = true ∧ atomOk L nd' = true := by
              refine ⟨?_, hnatom⟩
              simp only [topClean, Bool.and_eq_true, hnt]; exact ⟨hntext, rfl⟩
            refine ⟨hinv1.same, kidsOk_cons.2 ⟨hnok, hinv1.kok⟩, hinv1.fok, hinv1.cf, goodKids_cons hgood hinv1.cr, ?_⟩
            rw [List.reverse_cons, kidsFlat_append, kidsFlat_cons, kidsFlat_nil, ← List.append_assoc, hinv1.acc, hnf, hnt]
            simp [flatT_nil]
          · rw [← hT, hflat, hstable]
            simp only [itemText, List.append_assoc]
      | str sv =>
        simp only [hit] at h hitem hflat
        simp only [itemOk] at hitem
        have hinv2 := linkText_spec hinv1 false hitem
        refine ih _ _ _ _ _ _ hinv2 ?_ h
        rw [← hT, hflat]
        simp only [itemText, List.append_assoc]
    · -- no stem left
      rename_i hfind
      simp only [Option.some.injEq, Prod.mk.injEq] at h
      obtain ⟨h1, h2⟩ := h
      have hfl : flatT (table stash) 0 (data.drop start) = data.drop start := by
        split at hfind
        · rw [List.drop_of_length_le (by omega)]; rfl
        · exact flatT_find_none _ hfind
      have hok0 : ok L 0 (data.drop start) = true := by
        split at hfind
        · rw [List.drop_of_length_le (by omega)]; rfl
        · exact ok_of_no_stem (ok_drop hdata start) (contains_of_find_none hfind)
      have hinv1 := linkText_spec hinv atomic hok0
      subst h1; subst h2
      refine ⟨hinv1.same, kidsOk_reverse.2 hinv1.kok, hinv1.fok, ?_, hinv1.cf, ?_⟩
      · rw [hinv1.acc, ← hT, hfl]
      · intro r hr; exact hinv1.cr r (List.mem_reverse.1 hr)

end

end MdVerif.Flat
