/-
C06 inline half, part 8: the emphasis builders (`build_single`, `build_double`, `build_double2`,
`parse_sub_patterns`): the element built from the groups of a match shows the letters of the groups, in order.
-/
import MdVerif.Lemmas.InlineConserve.Nodes

namespace MdVerif.Flat
open Py Inline

def builderGroups : Builder → Nat
  | .single => 1
  | .double => 2
  | .double2 => 2

/-- what is needed of an emphasis expression -/
def itemOk' (item : EmItem) : Bool :=
  shapeOk item.steps && startsLit item.steps && (nGroups item.steps == builderGroups item.builder)

theorem emPatterns_ok (c : Char) : ∀ item ∈ emPatterns c, itemOk' item = true := by
  unfold emPatterns
  split
  · decide
  · decide

/-- the delimiter characters -/
structure Delim (L : Char → Bool) (c : Char) : Prop where
  brk : brk c = true
  ne : c ≠ STX
  notL : L c = false

/-- what a built element satisfies -/
structure Built (L : Char → Bool) (n : Nat) (tbl : List Str) (groups : List Str) (el : Node) : Prop where
  tail : el.tail = none
  nok : nodeOk L n el = true
  lets : letters L (nodeFlat tbl el) = (groups.map (fun g => letters L (flatT tbl 0 g))).flatten
  na : nonAtomic el = true

def BuildSpec (L : Char → Bool) (n : Nat) (tbl : List Str) (bld : List Str → EmItem → Nat → Option Node) : Prop :=
  ∀ groups item idx el, (∀ g ∈ groups, ok L n g = true) → groups.length = builderGroups item.builder →
    bld groups item idx = some el → Built L n tbl groups el

theorem drop_eq_slice_append (data : Str) {a b : Nat} (h : a ≤ b) : data.drop a = slice data a b ++ data.drop b := by
  have h1 : slice data a b = (data.drop a).take (b - a) := by simp only [slice, List.drop_take]
  have h2 : data.drop b = (data.drop a).drop (b - a) := by rw [List.drop_drop]; congr 1; omega
  rw [h1, h2, List.take_append_drop]

structure SubInv (L : Char → Bool) (n : Nat) (tbl : List Str) (data : Str) (Q : Str) (s : SubSt) : Prop where
  sub : SubOk s.parent s.hasLast
  nok : nodeOk L n s.parent = true
  le : s.offset ≤ s.pos
  na : nonAtomic s.parent = true
  q : letters L (nodeFlat tbl s.parent) ++ letters L (flatT tbl 0 (data.drop s.offset)) = Q

section
variable {L : Char → Bool} {n : Nat} {tbl : List Str} {c : Char} {bld : List Str → EmItem → Nat → Option Node}
  {data : Str}

theorem subTry_spec (hd : Delim L c) (hb : BuildSpec L n tbl bld) (hdata : ok L n data = true) (idx : Nat) (Q : Str) :
    ∀ (items : List EmItem), (∀ item ∈ items, itemOk' item = true) → ∀ (index : Nat) (s s' : SubSt),
      SubInv L n tbl data Q s → subTry bld data c idx items index s = some s' → SubInv L n tbl data Q s' := by
  intro items
  induction items with
  | nil =>
    intro _ index s s' hs h
    simp only [subTry, Option.some.injEq] at h
    subst h; exact hs
  | cons item rest ih =>
    intro hit index s s' hs h
    have hrest : ∀ it ∈ rest, itemOk' it = true := fun it hm => hit it (List.mem_cons_of_mem _ hm)
    simp only [subTry] at h
    split at h
    · exact ih hrest _ _ _ hs h
    · split at h
      · exact ih hrest _ _ _ hs h
      · rename_i e groups hm
        split at h
        · simp at h
        · rename_i el hbld
          refine ih hrest _ _ _ ?_ h
          have hio := hit item (by simp)
          simp only [itemOk', Bool.and_eq_true, beq_iff_eq] at hio
          obtain ⟨⟨hshape, hstarts⟩, hng⟩ := hio
          obtain ⟨hpos, hgl, hdrop, he⟩ := seqMatch_spec hm
          have hokpos : ok L n (data.drop s.pos) = true := ok_drop hdata _
          rw [hdrop] at hokpos
          obtain ⟨hgs, hoke, hlet⟩ := assemble_split tbl hd.brk hd.ne hd.notL item.steps groups _ hgl hshape hokpos
          have hbuilt := hb groups item index el hgs (by rw [hgl, hng]) hbld
          obtain ⟨x, hx⟩ := startsLit_head (c := c) hstarts groups (data.drop e)
          have hsplit := drop_eq_slice_append data hs.le
          have hokoff : ok L n (data.drop s.offset) = true := ok_drop hdata _
          rw [hsplit, hdrop, hx] at hokoff
          have hoksl : ok L n (slice data s.offset s.pos) = true := ok_of_append_brk hd.brk hokoff
          obtain ⟨hn1, hf1, ht1, hna1⟩ := setTextOrTail_spec tbl hs.sub hs.nok hoksl
          refine ⟨subOk_append ht1 hbuilt.tail, nodeOk_append_child hn1 hbuilt.nok, Nat.le_refl _,
            nonAtomic_append_child (hna1 hs.na) hbuilt.na, ?_⟩
          simp only []
          rw [← hs.q, nodeFlat_append_child, hf1, hbuilt.tail, hsplit, flatT_append_ok tbl hoksl, hdrop]
          simp only [letters_append, hlet, hbuilt.lets, Option.getD_none, flatT_nil, List.append_nil,
            List.append_assoc]

theorem subLoop_spec (hd : Delim L c) (hb : BuildSpec L n tbl bld) (hdata : ok L n data = true) (idx : Nat) (Q : Str) :
    ∀ (g : Nat) (s s' : SubSt), SubInv L n tbl data Q s → subLoop bld data c idx g s = some s' →
      SubInv L n tbl data Q s' := by
  intro g
  induction g with
  | zero => intro s s' _ h; simp [subLoop] at h
  | succ g ih =>
    intro s s' hs h
    simp only [subLoop] at h
    split at h
    · split at h
      · split at h
        · simp at h
        · rename_i s1 hs1
          have h1 : SubInv L n tbl data Q s1 :=
            subTry_spec hd hb hdata idx Q (emPatterns c) (emPatterns_ok c) 0
              { s with matched := false } _ ⟨hs.sub, hs.nok, hs.le, hs.na, hs.q⟩ hs1
          refine ih _ _ ?_ h
          split
          · exact h1
          · exact (⟨h1.sub, h1.nok, Nat.le_succ_of_le h1.le, h1.na, h1.q⟩ : SubInv L n tbl data Q { s1 with pos := s1.pos + 1 })
      · exact ih { s with pos := s.pos + 1 } _ ⟨hs.sub, hs.nok, Nat.le_succ_of_le hs.le, hs.na, hs.q⟩ h
    · simp only [Option.some.injEq] at h
      subst h; exact hs

theorem parseSub_spec (hd : Delim L c) (hb : BuildSpec L n tbl bld) (hdata : ok L n data = true) (idx : Nat)
    {parent node : Node} {hasLast : Bool} (hsub : SubOk parent hasLast) (hnok : nodeOk L n parent = true)
    (hna : nonAtomic parent = true)
    (h : parseSub bld data parent hasLast idx c = some node) :
    node.tail = none ∧ nodeOk L n node = true ∧
      letters L (nodeFlat tbl node) = letters L (nodeFlat tbl parent) ++ letters L (flatT tbl 0 data) ∧
      nonAtomic node = true := by
  unfold parseSub at h
  split at h
  · simp at h
  · rename_i s hs
    simp only [Option.some.injEq] at h
    subst h
    have h0 : SubInv L n tbl data (letters L (nodeFlat tbl parent) ++ letters L (flatT tbl 0 data))
        ⟨0, 0, parent, hasLast, false⟩ := ⟨hsub, hnok, Nat.le_refl _, hna, by simp⟩
    have h1 := subLoop_spec hd hb hdata idx _ _ _ _ h0 hs
    obtain ⟨hn1, hf1, ht1, hna1⟩ := setTextOrTail_spec tbl h1.sub h1.nok (ok_drop hdata s.offset)
    exact ⟨ht1, hn1, by rw [hf1, letters_append, h1.q], hna1 h1.na⟩

theorem build_spec (hd : Delim L c) : ∀ (f : Nat), BuildSpec L n tbl (build c f) := by
  intro f
  induction f with
  | zero => intro groups item idx el _ _ h; simp [build] at h
  | succ f ih =>
    intro groups item idx el hgs hlen h
    simp only [build] at h
    cases hbd : item.builder with
    | single =>
      simp only [hbd, builderGroups] at h hlen
      match groups, hlen with
      | [g0], _ =>
        simp only [List.headD_cons] at h
        obtain ⟨h1, h2, h3, h4⟩ := parseSub_spec hd ih (hgs g0 (by simp)) idx (subOk_mkEl _) (nodeOk_mkEl _ _ _)
          (nonAtomic_mkEl _) h
        exact ⟨h1, h2, by simpa [nodeFlat_mkEl, letters_nil] using h3, h4⟩
    | double =>
      simp only [hbd, builderGroups] at h hlen
      match groups, hlen with
      | [g0, g1], _ =>
        simp only [List.headD_cons] at h
        split at h
        · simp at h
        · rename_i el2 hel2
          obtain ⟨h1, h2, h3, h4⟩ := parseSub_spec hd ih (hgs g0 (by simp)) idx (subOk_mkEl _) (nodeOk_mkEl _ _ _)
            (nonAtomic_mkEl _) hel2
          have hsub : SubOk ((mkEl item.tag1).append el2) true := subOk_append rfl h1
          have hnok : nodeOk L n ((mkEl item.tag1).append el2) = true := nodeOk_append_child (nodeOk_mkEl _ _ _) h2
          obtain ⟨k1, k2, k3, k4⟩ := parseSub_spec hd ih (hgs g1 (by simp)) idx hsub hnok
            (nonAtomic_append_child (nonAtomic_mkEl _) h4) h
          refine ⟨k1, k2, ?_, k4⟩
          rw [k3, nodeFlat_append_child, h1]
          simp [nodeFlat_mkEl, h3, flatT_nil, letters_nil]
    | double2 =>
      simp only [hbd, builderGroups] at h hlen
      match groups, hlen with
      | [g0, g1], _ =>
        simp only [List.headD_cons, List.getD_cons_succ, List.getD_cons_zero] at h
        split at h
        · rename_i el1 el2 hel1 hel2
          simp only [Option.some.injEq] at h
          subst h
          obtain ⟨h1, h2, h3, h4⟩ := parseSub_spec hd ih (hgs g0 (by simp)) idx (subOk_mkEl _) (nodeOk_mkEl _ _ _)
            (nonAtomic_mkEl _) hel1
          obtain ⟨k1, k2, k3, k4⟩ := parseSub_spec hd ih (hgs g1 (by simp)) idx (subOk_mkEl _) (nodeOk_mkEl _ _ _)
            (nonAtomic_mkEl _) hel2
          refine ⟨by simpa [Node.append] using h1, nodeOk_append_child h2 k2, ?_, nonAtomic_append_child h4 k4⟩
          rw [nodeFlat_append_child, k1]
          simp [nodeFlat_mkEl, letters_append, h3, k3, flatT_nil, letters_nil] 
        · simp at h

end

end MdVerif.Flat
