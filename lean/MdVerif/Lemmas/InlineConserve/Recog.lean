/-
C06 inline half, part 4: what the recognisers of the simple patterns return (escape, line break, not_strong,
backtick), and that the link / entity patterns never match without `[` / `&`.
-/
import MdVerif.Lemmas.InlineConserve.Table

namespace MdVerif.Flat
open Py Inline

/-! ### slices -/

theorem pyDrop_nat (s : Str) (k : Nat) : pyDrop s (k : Int) = s.drop k := by
  simp only [pyDrop, pyIdx]
  have : ¬ ((k : Int) < 0) := by omega
  simp only [this, if_false, Int.toNat_natCast]
  by_cases h : k ≤ s.length
  · rw [Nat.min_eq_left h]
  · rw [Nat.min_eq_right (by omega), List.drop_of_length_le (Nat.le_refl _), List.drop_of_length_le (by omega)]

/-- a match `M` found at offset `|A|` -/
theorem take_drop_of_eq {data A M rest : Str} (h : data = A ++ M ++ rest) :
    data.take A.length = A ∧ data.drop (A.length + M.length) = rest := by
  subst h
  constructor
  · rw [List.append_assoc, List.take_left]
  · rw [← List.length_append, List.drop_left]

theorem drop_eq_of_suffix {data suf : Str} {k : Nat} (hk : k ≤ data.length) (h : data.drop k = suf) :
    data = data.take k ++ suf ∧ (data.take k).length = k := by
  subst h
  exact ⟨(List.take_append_drop k data).symm, by rw [List.length_take]; exact Nat.min_eq_left hk⟩

/-! ### escape -/

theorem escScan_spec {suf : Str} {i j : Nat} {ch : Char} (h : escScan suf i = some (j, ch)) :
    ∃ pre rest, suf = pre ++ '\\' :: ch :: rest ∧ j = i + pre.length ∧ '\\' ∉ pre := by
  induction suf generalizing i with
  | nil => simp [escScan] at h
  | cons c r ih =>
    cases r with
    | nil => simp [escScan] at h
    | cons d r' =>
      simp only [escScan] at h
      split at h
      · rename_i hc
        simp only [Option.some.injEq, Prod.mk.injEq] at h
        exact ⟨[], r', by simp [hc, h.2], by simp [h.1], by simp⟩
      · rename_i hc
        obtain ⟨pre, rest, h1, h2, h3⟩ := ih h
        refine ⟨c :: pre, rest, by rw [h1]; rfl, by simp only [List.length_cons]; omega, ?_⟩
        intro hm
        rcases List.mem_cons.1 hm with hm | hm
        · exact hc hm.symm
        · exact h3 hm

/-! ### line break -/

theorem find_spec {pat s : Str} {off : Nat} (h : find pat s = some off) :
    ∃ pre rest, s = pre ++ pat ++ rest ∧ off = pre.length := by
  have := (find_some_iff_drop.1 h)
  obtain ⟨hle, hsw, _⟩ := this
  obtain ⟨t, ht⟩ := startsWith_iff_prefix.1 hsw
  refine ⟨s.take off, t, ?_, by rw [List.length_take]; omega⟩
  rw [List.append_assoc, ← ht, List.take_append_drop]

/-! ### not_strong -/

theorem countPrefix_take (ch : Char) (lim : Option Nat) (s : Str) :
    s.take (countPrefix ch lim s) = List.replicate (countPrefix ch lim s) ch := by
  induction s generalizing lim with
  | nil => cases lim with
    | none => simp [countPrefix]
    | some n => cases n <;> simp
  | cons c r ih =>
    cases lim with
    | none =>
      simp only [countPrefix]
      split
      · rename_i hc; simp only [List.take_succ_cons, List.replicate_succ, hc, Option.map_none]; rw [ih]
      · simp
    | some n =>
      cases n with
      | zero => simp
      | succ n =>
        simp only [countPrefix]
        split
        · rename_i hc; simp only [List.take_succ_cons, List.replicate_succ, hc]; rw [ih]
        · simp

theorem nsRun_spec {c : Char} {suf : Str} {k : Nat} (h : nsRun c suf = some k) :
    0 < k ∧ ∃ rest, suf = List.replicate k c ++ rest := by
  unfold nsRun at h
  simp only [] at h
  split at h
  · simp at h
  · rename_i hk
    have hk' : k = countPrefix c (some 3) suf := by
      split at h
      · simp only [Option.some.injEq] at h; exact h.symm
      · split at h
        · simp only [Option.some.injEq] at h; exact h.symm
        · simp at h
    refine ⟨by omega, suf.drop k, ?_⟩
    rw [hk', ← countPrefix_take, List.take_append_drop]

theorem of_ite_none {α : Type} {b : Prop} [Decidable b] {x : Option α} {y : α}
    (h : (if b then x else none) = some y) : x = some y := by
  split at h
  · exact h
  · simp at h

theorem ns_here {suf : Str} {i s e : Nat}
    (h : (match nsRun '*' suf with
      | some k => some (i, i + k)
      | none => (nsRun '_' suf).map (fun k => (i, i + k))) = some (s, e)) :
    ∃ k c, (c = '*' ∨ c = '_') ∧ nsRun c suf = some k ∧ s = i ∧ e = i + k := by
  cases h1 : nsRun '*' suf with
  | some k =>
    simp only [h1, Option.some.injEq, Prod.mk.injEq] at h
    exact ⟨k, '*', Or.inl rfl, h1, h.1.symm, h.2.symm⟩
  | none =>
    cases h2 : nsRun '_' suf with
    | none => simp [h1, h2] at h
    | some k =>
      simp only [h1, h2, Option.map_some, Option.some.injEq, Prod.mk.injEq] at h
      exact ⟨k, '_', Or.inr rfl, h2, h.1.symm, h.2.symm⟩

theorem nsScan_spec {prev : Option Char} {suf : Str} {i s e : Nat} (h : nsScan prev suf i = some (s, e)) :
    ∃ pre rest k c, suf = pre ++ List.replicate k c ++ rest ∧ s = i + pre.length ∧ e = s + k ∧ 0 < k ∧
      (c = '*' ∨ c = '_') := by
  induction suf generalizing prev i with
  | nil => simp [nsScan] at h
  | cons ch r ih =>
    simp only [nsScan] at h
    split at h
    · rename_i x hx
      simp only [Option.some.injEq] at h
      subst h
      obtain ⟨k, c, hc, hk, h1, h2⟩ := ns_here (of_ite_none hx)
      obtain ⟨hpos, rest, hr⟩ := nsRun_spec hk
      exact ⟨[], rest, k, c, by simpa using hr, by simp [h1], by omega, hpos, hc⟩
    · obtain ⟨pre, rest, k, c, h1, h2, h3, h4, h5⟩ := ih h
      exact ⟨ch :: pre, rest, k, c, by rw [h1]; rfl, by simp only [List.length_cons]; omega, h3, h4, h5⟩

/-! ### patterns that need `[` or `&` -/

theorem linkScan_none (cfg : Cfg) (stash : List StashItem) (pi : Nat) (data : Str) (prev : Option Char) (suf : Str)
    (i : Nat) (h : '[' ∉ suf) : linkScan cfg stash pi data prev suf i = none := by
  induction suf generalizing prev i with
  | nil => rfl
  | cons ch r ih =>
    have h1 : ch ≠ '[' := fun e => h (by simp [e])
    have h2 : '[' ∉ r := fun hm => h (List.mem_cons_of_mem _ hm)
    have h3 : r.head? ≠ some '[' := by
      intro e; cases r with
      | nil => simp at e
      | cons x r' => simp only [List.head?_cons, Option.some.injEq] at e; exact h2 (by simp [e])
    simp only [linkScan]
    have : (if (pi = 4 || pi = 5 || pi = 7) = true then
        (if (ch = '!' && r.head? == some '[') = true then linkHandle cfg stash pi data i (i + 2) else none)
      else (if (ch = '[' && prev != some '!') = true then linkHandle cfg stash pi data i (i + 1) else none)) = none := by
      split
      · simp [h3]
      · simp [h1]
    simp only [this]
    exact ih _ _ h2

theorem entityScan_none (suf : Str) (i : Nat) (h : '&' ∉ suf) : entityScan suf i = none := by
  induction suf generalizing i with
  | nil => rfl
  | cons c r ih =>
    have h1 : c ≠ '&' := fun e => h (by simp [e])
    simp only [entityScan, h1, if_false]
    exact ih _ (fun hm => h (List.mem_cons_of_mem _ hm))

theorem not_mem_of_ok {L : Char → Bool} {n : Nat} {s : Str} (h : ok L n s = true) :
    '[' ∉ s ∧ '&' ∉ s ∧ '>' ∉ s ∧ '<' ∉ s := by
  have hc := charOk_of_ok h
  refine ⟨?_, ?_, ?_, ?_⟩ <;> (intro hm; have := hc _ hm; revert this; decide)

end MdVerif.Flat
