/-
C06 inline half, part 15: `__processElementText`, the element loop of `__processPlaceholders`, the recursion.
-/
import MdVerif.Lemmas.InlineConserve.PP2

namespace MdVerif.Flat
open Py Inline

/-- `__processPlaceholders(data, parent, isText)`: the text that stays with the parent followed by the expanded text
    of the new elements is the expansion of `data` -/
def PPSpec (L : Char → Bool) (n : Nat) (tbl : List Str) (pp : PP) : Prop :=
  ∀ data atomic parent isText res parent', ok L n data = true → field parent isText = [] →
    pp data atomic parent isText = some (res, parent') →
    SameBut isText parent parent' ∧ kidsOk L n res = true ∧ ok L n (field parent' isText) = true ∧
      flatT tbl 0 (field parent' isText) ++ kidsFlat tbl res = flatT tbl 0 data ∧
      ok L 0 (field parent' isText) = true ∧ GoodKids L res

theorem charOk_of_isSpace {c : Char} (h : isSpace c = true) : charOk c = true := by
  have h2 := isSpace_toNat h
  simp only [charOk, Bool.and_eq_true, bne_iff_ne, ne_eq]
  refine ⟨⟨⟨?_, ?_⟩, ?_⟩, ?_⟩ <;> (intro e; subst e; revert h; decide)

/-- a text that `__processElementText` leaves alone (empty or blank) contains no placeholder -/
theorem ok0_of_not_processed {L : Char → Bool} {t : Option Str} (h : ¬ (Node.truthy t && !blankOpt t) = true) :
    ok L 0 (t.getD []) = true := by
  simp only [Bool.and_eq_true, Bool.not_eq_true', not_and, Bool.not_eq_false] at h
  cases ht : Node.truthy t with
  | false => rw [getD_of_not_truthy ht]; rfl
  | true =>
    have hb := h ht
    simp only [blankOpt, isBlank, List.all_eq_true] at hb
    exact ok_of_no_stx (fun c hc => charOk_of_isSpace (hb c hc)) (fun hm => ne_stx_of_isSpace (hb _ hm) rfl)

section
variable {L : Char → Bool} {n : Nat} {tbl : List Str} {pp : PP}

theorem petTail_spec (hpp : PPSpec L n tbl pp) {c c' : Node} {res : List Node}
    (hc : ok L n (c.tail.getD []) = true) (h : petTail pp c = some (c', res)) :
    c'.text = c.text ∧ c'.children = c.children ∧ c'.attrs = c.attrs ∧ kidsOk L n res = true ∧
      ok L n (c'.tail.getD []) = true ∧
      flatT tbl 0 (c'.tail.getD []) ++ kidsFlat tbl res = flatT tbl 0 (c.tail.getD []) ∧
      ok L 0 (c'.tail.getD []) = true ∧ GoodKids L res := by
  unfold petTail at h
  split at h
  · split at h
    · rename_i res' c'' hp
      simp only [Option.some.injEq, Prod.mk.injEq] at h
      obtain ⟨h1, h2⟩ := h
      subst h1; subst h2
      obtain ⟨hsame, hk, hf, hfl, hc0, hg⟩ := hpp _ _ _ _ _ _ hc rfl hp
      exact ⟨hsame.text rfl, hsame.kids, hsame.attrs, hk, hf, hfl, hc0, hg⟩
    · simp at h
  · rename_i hnp
    simp only [Option.some.injEq, Prod.mk.injEq] at h
    obtain ⟨h1, h2⟩ := h
    subst h1; subst h2
    exact ⟨rfl, rfl, rfl, rfl, hc, by simp [kidsFlat_nil], ok0_of_not_processed hnp, fun r hr => (by cases hr)⟩

theorem petText_spec (hpp : PPSpec L n tbl pp) {c c2 : Node} (hc : nodeOk L n c = true)
    (h : petText pp c = some c2) :
    c2.tail = c.tail ∧ nodeFlat tbl c2 = nodeFlat tbl c ∧ nodeOk L n c2 = true ∧
      ok L 0 (c2.text.getD []) = true ∧ (kidsAtomOk L c.children = true → kidsAtomOk L c2.children = true) ∧
      c2.attrs = c.attrs := by
  have hc' := nodeOk_iff.1 hc
  unfold petText at h
  split at h
  · split at h
    · rename_i res c' hp
      simp only [Option.some.injEq] at h
      subst h
      obtain ⟨hsame, hk, hf, hfl, hc0, hg⟩ := hpp _ _ _ _ _ _ hc'.1 rfl hp
      have hkids : c'.children = c.children := hsame.kids
      have htail : c'.tail = c.tail := hsame.tail rfl
      refine ⟨htail, ?_, ?_, hc0, ?_, hsame.attrs⟩
      rotate_left 2
      · intro hka
        simp only [hkids]
        exact kidsAtomOk_append.2 ⟨kidsAtomOk_of_forall (fun r hr => (hg r hr).2), hka⟩
      · simp only [nodeFlat_eq, kidsFlat_append, hkids]
        rw [← List.append_assoc]
        have : flatT tbl 0 (c'.text.getD []) ++ kidsFlat tbl res = flatT tbl 0 (c.text.getD []) := hfl
        rw [this]
      · rw [nodeOk_iff]
        simp only [htail, hkids]
        exact ⟨hf, hc'.2.1, kidsOk_append.2 ⟨hk, hc'.2.2⟩⟩
    · simp at h
  · rename_i hnp
    simp only [Option.some.injEq] at h
    subst h
    exact ⟨rfl, rfl, hc, ok0_of_not_processed hnp, fun h => h, rfl⟩

theorem procKids_spec (hpp : PPSpec L n tbl pp) :
    ∀ (ns ns' : List Node), kidsOk L n ns = true → kidsAtomOk L ns = true → procKids pp ns = some ns' →
      kidsOk L n ns' = true ∧ kidsFlat tbl ns' = kidsFlat tbl ns ∧ GoodKids L ns' := by
  intro ns
  induction ns with
  | nil =>
    intro ns' _ _ h
    simp only [procKids, Option.some.injEq] at h
    subst h; exact ⟨rfl, rfl, fun r hr => (by cases hr)⟩
  | cons c r ih =>
    intro ns' hk hka h
    rw [kidsOk_cons] at hk
    rw [kidsAtomOk_cons] at hka
    have hc := nodeOk_iff.1 hk.1
    simp only [procKids] at h
    split at h
    · simp at h
    · rename_i c1 res h1
      split at h
      · simp at h
      · rename_i c2 h2
        split at h
        · simp at h
        · rename_i r' h3
          simp only [Option.some.injEq] at h
          subst h
          obtain ⟨t1, t2, t2a, t3, t4, t5, t6, t7⟩ := petTail_spec hpp hc.2.1 h1
          have hc1 : nodeOk L n c1 = true := by
            rw [nodeOk_iff, t1, t2]; exact ⟨hc.1, t4, hc.2.2⟩
          obtain ⟨u1, u2, u3, u4, u5, u6⟩ := petText_spec hpp hc1 h2
          obtain ⟨v1, v2, v3⟩ := ih _ hk.2 hka.2 h3
          refine ⟨kidsOk_cons.2 ⟨u3, kidsOk_append.2 ⟨t3, v1⟩⟩, ?_, ?_⟩
          rotate_left
          · have hc2good : topClean L c2 = true ∧ atomOk L c2 = true := by
              refine ⟨?_, ?_⟩
              · simp only [topClean, Bool.and_eq_true, u1]; exact ⟨u4, t6⟩
              · rw [atomOk_iff]
                refine ⟨fun _ => u4, by rw [u6, t2a]; exact (atomOk_iff.1 hka.1).2.1, u5 ?_⟩
                rw [t2]; exact (atomOk_iff.1 hka.1).2.2
            intro x hx
            rcases List.mem_cons.1 hx with rfl | hx
            · exact hc2good
            · rcases List.mem_append.1 hx with hx | hx
              · exact t7 x hx
              · exact v3 x hx
          simp only [kidsFlat_cons, kidsFlat_append, u2, u1, v2]
          have : nodeFlat tbl c1 = nodeFlat tbl c := by simp only [nodeFlat_eq, t1, t2]
          rw [this, ← t5]
          simp only [List.append_assoc]

theorem procNode_spec (hpp : PPSpec L n tbl pp) : NestedSpec L n tbl (procNode pp) := by
  intro nd nd' hok htail hattrs hna h
  have hnd := nodeOk_iff.1 hok
  unfold procNode at h
  simp only [] at h
  have hpt : petTail pp { nd with children := [] } = some ({ nd with children := [] }, []) := by
    unfold petTail
    simp [htail, Node.truthy]
  rw [hpt] at h
  simp only [] at h
  split at h
  · simp at h
  · rename_i n2 h2
    split at h
    · simp at h
    · rename_i kids h3
      simp only [Option.some.injEq] at h
      subst h
      have hn1 : nodeOk L n { nd with children := [] } = true := by
        rw [nodeOk_iff]; exact ⟨hnd.1, hnd.2.1, rfl⟩
      obtain ⟨u1, u2, u3, u4, u5, u6⟩ := petText_spec hpp hn1 h2
      obtain ⟨v1, v2, v3⟩ := procKids_spec hpp _ _ hnd.2.2 (kidsAtomOk_of_nonAtomic _ hna) h3
      have hn2 := nodeOk_iff.1 u3
      refine ⟨?_, by simpa [htail] using u1, ?_, u4, ?_⟩
      rotate_left 2
      · rw [atomOk_iff]
        refine ⟨fun _ => u4, by rw [u6]; exact hattrs, ?_⟩
        simp only [List.append_nil]
        exact kidsAtomOk_append.2 ⟨u5 rfl, kidsAtomOk_of_forall (fun r hr => (v3 r hr).2)⟩
      · have e : nodeFlat tbl n2 = flatT tbl 0 (nd.text.getD []) := by
          rw [u2]; simp [nodeFlat_eq, kidsFlat_nil]
        rw [nodeFlat_eq] at e
        simp only [nodeFlat_eq, kidsFlat_append, List.append_nil, v2]
        rw [← List.append_assoc, e]
      · rw [nodeOk_iff]
        simp only [List.append_nil]
        exact ⟨hn2.1, hn2.2.1, kidsOk_append.2 ⟨hn2.2.2, v1⟩⟩

end

/-- `__processPlaceholders` at every nesting depth -/
theorem processPlaceholders_spec {L : Char → Bool} {stash : List StashItem} (hs : stashOk L stash = true) :
    ∀ (f : Nat), PPSpec L stash.length (table stash) (fun d a p t => processPlaceholders stash f d a p t) := by
  intro f
  induction f with
  | zero => intro data atomic parent isText res parent' _ _ h; simp [processPlaceholders] at h
  | succ f ih =>
    intro data atomic parent isText res parent' hd hfield h
    simp only [processPlaceholders] at h
    split at h
    · rename_i he
      have : data = [] := by cases data <;> simp_all
      subst this
      simp only [Option.some.injEq, Prod.mk.injEq] at h
      obtain ⟨h1, h2⟩ := h
      subst h1; subst h2
      exact ⟨SameBut.refl _ _, rfl, by rw [hfield]; rfl, by rw [hfield]; rfl, by rw [hfield]; rfl,
        fun r hr => (by cases hr)⟩
    · have hinv : PPInv L stash.length (table stash) isText parent [] [] parent :=
        ⟨SameBut.refl _ _, rfl, by rw [hfield]; rfl, by rw [hfield]; rfl, fun r hr => (by cases hr),
          by rw [hfield]; rfl⟩
      exact ppLoop_spec hs (procNode_spec ih) hd atomic _ _ _ _ _ _ _ _ hinv (by simp) h

end MdVerif.Flat
