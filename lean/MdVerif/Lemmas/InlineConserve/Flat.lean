/-
C06 inline half, part 2: `ok` (tokens are complete) and `flatT` (expansion): splitting, tables.
-/
import MdVerif.Lemmas.InlineConserve.Basic

namespace MdVerif.Flat
open Py Inline

/-! ### `startsWith` -/

theorem startsWith_append_left {s p : Str} (h : startsWith s p = true) (b : Str) : startsWith (s ++ b) p = true := by
  obtain ⟨t, ht⟩ := startsWith_iff_prefix.1 h
  exact startsWith_iff_prefix.2 ⟨t ++ b, by rw [ht, List.append_assoc]⟩

theorem startsWith_of_append_not_mem {a b p : Str} {c : Char} (hc : c ∉ p)
    (h : startsWith (a ++ c :: b) p = true) : startsWith a p = true := by
  induction a generalizing p with
  | nil =>
    cases p with
    | nil => rfl
    | cons q ps =>
      simp only [List.nil_append, startsWith, Bool.and_eq_true, decide_eq_true_eq] at h
      exact absurd (by rw [h.1]; simp) hc
  | cons x a' ih =>
    cases p with
    | nil => rfl
    | cons q ps =>
      simp only [List.cons_append, startsWith, Bool.and_eq_true, decide_eq_true_eq] at h ⊢
      exact ⟨h.1, ih (fun hm => hc (List.mem_cons_of_mem _ hm)) h.2⟩

/-! ### tokens under append -/

theorem escTok_append {L : Char → Bool} {r : Str} (h : escTok L r = true) (b : Str) : escTok L (r ++ b) = true := by
  unfold escTok at h ⊢
  cases hp : phAt r with
  | none => simp [hp] at h
  | some x => rw [phAt_append hp b]; simpa [hp] using h

theorem escTok_of_append_brk {L : Char → Bool} {a b : Str} {c : Char} (hc : brk c = true)
    (h : escTok L (a ++ c :: b) = true) : escTok L a = true := by
  unfold escTok at h ⊢
  cases hp : phAt (a ++ c :: b) with
  | none => simp [hp] at h
  | some x => rw [phAt_of_append_brk hc hp]; simpa [hp] using h

theorem phTok_append {n : Nat} {r : Str} (h : phTok n r = true) (b : Str) : phTok n (r ++ b) = true := by
  unfold phTok at h ⊢
  simp only [Bool.and_eq_true] at h ⊢
  obtain ⟨h1, h2⟩ := h
  refine ⟨startsWith_append_left h1 b, ?_⟩
  have hlen : (phPrefixLen - 1) ≤ r.length := by
    have := startsWith_length_le h1; simpa [phPrefix, phPrefixLen] using this
  cases hp : phAt (r.drop (phPrefixLen - 1)) with
  | none => simp [hp] at h2
  | some x =>
    rw [List.drop_append_of_le_length hlen, phAt_append hp b]; simpa [hp] using h2

theorem phTok_of_append_brk {n : Nat} {a b : Str} {c : Char} (hc : brk c = true)
    (h : phTok n (a ++ c :: b) = true) : phTok n a = true := by
  unfold phTok at h ⊢
  simp only [Bool.and_eq_true] at h ⊢
  obtain ⟨h1, h2⟩ := h
  have hcm : c ∉ phPrefix.drop 1 := by
    simp only [brk, Bool.and_eq_true, Bool.not_eq_true'] at hc
    have := hc.2
    have e : phPrefix.drop 1 = ['k', 'l', 'z', 'z', 'w', 'x', 'h', ':'] := by decide
    rw [e]
    simp only [List.contains_eq_mem, decide_eq_false_iff_not, List.mem_cons, List.not_mem_nil, or_false] at this
    simp only [List.mem_cons, List.not_mem_nil, or_false]
    intro h; apply this
    rcases h with h | h | h | h | h | h | h | h <;> simp [h]
  have h1' := startsWith_of_append_not_mem hcm h1
  refine ⟨h1', ?_⟩
  have hlen : (phPrefixLen - 1) ≤ a.length := by
    have := startsWith_length_le h1'; simpa [phPrefix, phPrefixLen] using this
  rw [List.drop_append_of_le_length hlen] at h2
  cases hp : phAt (a.drop (phPrefixLen - 1) ++ c :: b) with
  | none => simp [hp] at h2
  | some x => rw [phAt_of_append_brk hc hp]; simpa [hp] using h2

theorem phTok_mono {n m : Nat} (hnm : n ≤ m) {r : Str} (h : phTok n r = true) : phTok m r = true := by
  unfold phTok at h ⊢
  simp only [Bool.and_eq_true] at h ⊢
  refine ⟨h.1, ?_⟩
  cases hp : phAt (r.drop (phPrefixLen - 1)) with
  | none => simp [hp] at h
  | some x =>
    have h2 := h.2
    simp only [hp, Bool.and_eq_true, decide_eq_true_eq] at h2 ⊢
    exact ⟨h2.1, by omega⟩

/-! ### `ok` -/

theorem ok_nil (L : Char → Bool) (n : Nat) : ok L n [] = true := rfl

theorem ok_cons {L : Char → Bool} {n : Nat} {c : Char} {r : Str} :
    ok L n (c :: r) = true ↔ charOk c = true ∧ (c ≠ STX ∨ escTok L r = true ∨ phTok n r = true) ∧ ok L n r = true := by
  simp only [ok, Bool.and_eq_true, Bool.or_eq_true, bne_iff_ne, ne_eq, and_assoc, or_assoc]

theorem ok_append {L : Char → Bool} {n : Nat} {a b : Str} (ha : ok L n a = true) (hb : ok L n b = true) :
    ok L n (a ++ b) = true := by
  induction a with
  | nil => simpa using hb
  | cons c r ih =>
    rw [ok_cons] at ha
    rw [List.cons_append, ok_cons]
    refine ⟨ha.1, ?_, ih ha.2.2⟩
    rcases ha.2.1 with h | h | h
    · exact Or.inl h
    · exact Or.inr (Or.inl (escTok_append h b))
    · exact Or.inr (Or.inr (phTok_append h b))

theorem ok_of_append_right {L : Char → Bool} {n : Nat} {a b : Str} (h : ok L n (a ++ b) = true) :
    ok L n b = true := by
  induction a with
  | nil => simpa using h
  | cons c r ih => rw [List.cons_append, ok_cons] at h; exact ih h.2.2

theorem ok_drop {L : Char → Bool} {n : Nat} {s : Str} (h : ok L n s = true) (k : Nat) : ok L n (s.drop k) = true := by
  have := List.take_append_drop k s
  rw [← this] at h; exact ok_of_append_right h

theorem ok_of_append_brk {L : Char → Bool} {n : Nat} {a b : Str} {c : Char} (hc : brk c = true)
    (h : ok L n (a ++ c :: b) = true) : ok L n a = true := by
  induction a with
  | nil => rfl
  | cons x r ih =>
    rw [List.cons_append, ok_cons] at h
    rw [ok_cons]
    refine ⟨h.1, ?_, ih h.2.2⟩
    rcases h.2.1 with h1 | h1 | h1
    · exact Or.inl h1
    · exact Or.inr (Or.inl (escTok_of_append_brk hc h1))
    · exact Or.inr (Or.inr (phTok_of_append_brk hc h1))

theorem ok_mono {L : Char → Bool} {n m : Nat} (hnm : n ≤ m) {s : Str} (h : ok L n s = true) : ok L m s = true := by
  induction s with
  | nil => rfl
  | cons c r ih =>
    rw [ok_cons] at h ⊢
    refine ⟨h.1, ?_, ih h.2.2⟩
    rcases h.2.1 with h1 | h1 | h1
    · exact Or.inl h1
    · exact Or.inr (Or.inl h1)
    · exact Or.inr (Or.inr (phTok_mono hnm h1))

/-- a string without `STX` whose characters are in the domain -/
theorem ok_of_no_stx {L : Char → Bool} {n : Nat} {s : Str} (h1 : ∀ c ∈ s, charOk c = true) (h2 : STX ∉ s) :
    ok L n s = true := by
  induction s with
  | nil => rfl
  | cons c r ih =>
    rw [ok_cons]
    refine ⟨h1 c (by simp), Or.inl ?_, ih (fun x hx => h1 x (List.mem_cons_of_mem _ hx))
      (fun hm => h2 (List.mem_cons_of_mem _ hm))⟩
    intro hc; exact h2 (by simp [hc])

theorem charOk_of_ok {L : Char → Bool} {n : Nat} {s : Str} (h : ok L n s = true) : ∀ c ∈ s, charOk c = true := by
  induction s with
  | nil => simp
  | cons c r ih =>
    rw [ok_cons] at h
    intro x hx
    rcases List.mem_cons.1 hx with rfl | hx
    · exact h.1
    · exact ih h.2.2 x hx

/-! ### `flatT` -/

theorem flatT_eq_drop (tbl : List Str) (k : Nat) (s : Str) : flatT tbl k s = flatT tbl 0 (s.drop k) := by
  induction s generalizing k with
  | nil => cases k <;> simp [flatT]
  | cons c r ih =>
    cases k with
    | zero => simp
    | succ k => simp only [flatT, List.drop_succ_cons]; exact ih k

theorem flatT_nil (tbl : List Str) : flatT tbl 0 [] = [] := rfl

theorem flatT_cons_ne (tbl : List Str) {c : Char} (h : c ≠ STX) (s : Str) :
    flatT tbl 0 (c :: s) = c :: flatT tbl 0 s := by
  simp [flatT, h]

/-- the recursion equation of `flatT` at an `STX` -/
theorem flatT_stx (tbl : List Str) (s : Str) :
    flatT tbl 0 (STX :: s) =
      if startsWith s (phPrefix.drop 1) then
        match phAt (s.drop (phPrefixLen - 1)) with
        | some (id, l) =>
          match tblGet tbl id with
          | some v => v ++ flatT tbl 0 (s.drop (phPrefixLen - 1 + l))
          | none => STX :: flatT tbl 0 s
        | none => STX :: flatT tbl 0 s
      else STX :: flatT tbl 0 s := by
  have e1 : startsWith (STX :: s) phPrefix = startsWith s (phPrefix.drop 1) := by
    simp [phPrefix]
  have e2 : (STX :: s).drop phPrefixLen = s.drop (phPrefixLen - 1) := by simp [phPrefixLen]
  rw [flatT]
  simp only [e1, e2, decide_true, Bool.true_and]
  split
  · cases hp : phAt (s.drop (phPrefixLen - 1)) with
    | none => rfl
    | some x =>
      obtain ⟨id, l⟩ := x
      simp only []
      cases tblGet tbl id with
      | none => rfl
      | some v =>
        simp only []
        rw [flatT_eq_drop]
        have hl := (phAt_some hp).1
        congr 2
        simp only [phPrefixLen]; congr 1; omega
  · rfl

theorem flatT_append_no_stx (tbl : List Str) {a : Str} (h : STX ∉ a) (b : Str) :
    flatT tbl 0 (a ++ b) = a ++ flatT tbl 0 b := by
  induction a with
  | nil => rfl
  | cons c r ih =>
    have hc : c ≠ STX := fun e => h (by simp [e])
    rw [List.cons_append, flatT_cons_ne tbl hc, ih (fun hm => h (List.mem_cons_of_mem _ hm))]; rfl

theorem flatT_no_stx (tbl : List Str) {a : Str} (h : STX ∉ a) : flatT tbl 0 a = a := by
  have := flatT_append_no_stx tbl h []
  simpa [flatT] using this

theorem escTok_not_startsWith {L : Char → Bool} {r : Str} (h : escTok L r = true) :
    startsWith r (phPrefix.drop 1) = false := by
  unfold escTok at h
  cases hp : phAt r with
  | none => simp [hp] at h
  | some x =>
    obtain ⟨id, l⟩ := x
    obtain ⟨_, hpos, hd, rest, hr⟩ := phAt_some hp
    cases id with
    | nil => simp at hpos
    | cons d ds =>
      have hdd := hd d (by simp)
      subst hr
      have e : phPrefix.drop 1 = ['k', 'l', 'z', 'z', 'w', 'x', 'h', ':'] := by decide
      rw [e, List.cons_append]
      by_cases hk : d = 'k'
      · subst hk; simp [isAsciiDigit] at hdd
      · simp [startsWith, hk]

/-- **splitting.**  The expansion of `a ++ b` is the expansion of `a` followed by that of `b` when the tokens of `a`
    are complete. -/
theorem flatT_append {L : Char → Bool} {n : Nat} (tbl : List Str) :
    ∀ (k : Nat) (a : Str), a.length ≤ k → ok L n a = true → ∀ b, flatT tbl 0 (a ++ b) = flatT tbl 0 a ++ flatT tbl 0 b := by
  intro k
  induction k with
  | zero =>
    intro a hk _ b
    have : a = [] := List.length_eq_zero_iff.1 (by omega)
    subst this; rfl
  | succ k ih =>
    intro a hk hok b
    cases a with
    | nil => rfl
    | cons c r =>
      rw [ok_cons] at hok
      simp only [List.length_cons] at hk
      have ihr := ih r (by omega) hok.2.2 b
      by_cases hc : c = STX
      · subst hc
        rw [List.cons_append, flatT_stx, flatT_stx]
        rcases hok.2.1 with h | h | h
        · exact absurd rfl h
        · rw [escTok_not_startsWith h, escTok_not_startsWith (escTok_append h b)]
          simp only [Bool.false_eq_true, if_false, List.cons_append, ihr]
        · have h' := phTok_append h b
          unfold phTok at h h'
          simp only [Bool.and_eq_true] at h h'
          have hlen : (phPrefixLen - 1) ≤ r.length := by
            have := startsWith_length_le h.1; simpa [phPrefix, phPrefixLen] using this
          simp only [h.1, h'.1, if_true]
          cases hp : phAt (r.drop (phPrefixLen - 1)) with
          | none => simp [hp] at h
          | some x =>
            obtain ⟨id, l⟩ := x
            have hp' : phAt ((r ++ b).drop (phPrefixLen - 1)) = some (id, l) := by
              rw [List.drop_append_of_le_length hlen]; exact phAt_append hp b
            simp only [hp']
            cases tblGet tbl id with
            | none => simp only [List.cons_append, ihr]
            | some v =>
              simp only []
              obtain ⟨hl, _, _, rest, hr⟩ := phAt_some hp
              have hlen2 : phPrefixLen - 1 + l ≤ r.length := by
                have := congrArg List.length hr
                simp only [List.length_drop, List.length_append, List.length_cons] at this
                omega
              rw [List.drop_append_of_le_length hlen2,
                ih (r.drop (phPrefixLen - 1 + l)) (by simp only [List.length_drop]; omega) (ok_drop hok.2.2 _) b,
                List.append_assoc]
      · rw [List.cons_append, flatT_cons_ne tbl hc, flatT_cons_ne tbl hc, ihr]; rfl

theorem flatT_append_ok {L : Char → Bool} {n : Nat} (tbl : List Str) {a : Str} (h : ok L n a = true) (b : Str) :
    flatT tbl 0 (a ++ b) = flatT tbl 0 a ++ flatT tbl 0 b :=
  flatT_append tbl a.length a (Nat.le_refl _) h b

/-- splitting in front of a character that cannot continue a token -/
theorem flatT_append_brk {L : Char → Bool} {n : Nat} (tbl : List Str) {a b : Str} {c : Char} (hc : brk c = true)
    (h : ok L n (a ++ c :: b) = true) :
    flatT tbl 0 (a ++ c :: b) = flatT tbl 0 a ++ flatT tbl 0 (c :: b) :=
  flatT_append_ok tbl (ok_of_append_brk hc h) _

end MdVerif.Flat
