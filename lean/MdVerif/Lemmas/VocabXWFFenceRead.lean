/-
Lemmas for C05 on the extension model, output level with fenced_code, part 2: reading.

* `PRd fmt Z its`: the string `Z` is read as the items `its` in front of anything readable (`Ser.Reads` in
  continuation form, so that it composes: `prd_append`); `Readable fmt tagOk keyOk Z`: … and the items are in the
  vocabulary (`VocabXOut.RXL`);
* `readable_sok` (a strictly readable text), `readable_elem` (an element the serializer would write, around ANY
  readable content), `readable_void_xhtml` / `readable_void_html`;
* `readable_entry`: an entry of `FencedBlockPreprocessor` is read as one `pre` element (attributes `id`, `class`, in
  the order the entry writes them) holding one `code` element (attribute `class`) holding one text;
* `readable_tfrag`; `tfrag_replace`: `str.replace` of an `STX…` token by an entity reference keeps a `TFrag`.

Core Lean only.
-/
import MdVerif.Lemmas.VocabXWFFencePass

namespace MdVerif.VocabXFence
open Py Ser Vocab2 VocabXOut
open MdVerif.NoCtl

/-! ### readable in front of anything readable -/

def PRd (fmt : Fmt) (Z : Str) (its : List RNode) : Prop :=
  ∀ X items, Reads fmt X items → Reads fmt (Z ++ X) (its ++ items)

theorem prd_nil (fmt : Fmt) : PRd fmt [] [] := fun _ _ h => h

theorem prd_append {fmt : Fmt} {Z1 Z2 : Str} {i1 i2 : List RNode} (h1 : PRd fmt Z1 i1) (h2 : PRd fmt Z2 i2) :
    PRd fmt (Z1 ++ Z2) (i1 ++ i2) := by
  intro X items h
  have := h1 _ _ (h2 _ _ h)
  simpa [List.append_assoc] using this

theorem prd_reads {fmt : Fmt} {Z : Str} {its : List RNode} (h : PRd fmt Z its) : Reads fmt Z its := by
  have := h [] [] (reads_nil fmt)
  simpa using this

/-- a text -/
theorem prd_text (fmt : Fmt) {S : Str} {tk : List Tok} (hlt : NoLt S) (htr : Transp S tk) : PRd fmt S [.text tk] := by
  intro X items h pre toks rest fuel hlt0 htr0 hend hf
  have hlt' : NoLt (pre ++ S) := noLt_append hlt0 hlt
  have htr' : Transp (pre ++ S) (toks ++ tk) := by
    intro Y
    rw [List.append_assoc, htr0, htr Y]
    cases strict cdata 0 Y <;> simp
  have := h (pre ++ S) (toks ++ tk) rest fuel hlt' htr' hend (by simpa [List.append_assoc] using hf)
  show readContent fmt fuel (pre ++ ((S ++ X) ++ rest)) = some (mergeTexts (.text toks :: .text tk :: items), rest)
  rw [mergeTexts_text_text]
  simpa [List.append_assoc] using this

/-- an element written as `Z'` whose `readElem` succeeds -/
theorem prd_elem_core (fmt : Fmt) (t B : Str) (n : RNode) (ht : isName t = true) (hn : notText n)
    (hE : ∀ f Y, (t ++ (B ++ Y)).length < f + 1 → readElem fmt (f + 1) (t ++ (B ++ Y)) = some (n, Y)) :
    PRd fmt ('<' :: (t ++ B)) [n] := by
  intro X items h
  exact reads_elem_core fmt t B X n items ht hn hE h

variable {tagOk keyOk : Str → Bool}

/-- … and what is read lies in the vocabulary -/
def Readable (fmt : Fmt) (tagOk keyOk : Str → Bool) (Z : Str) : Prop :=
  ∃ its, PRd fmt Z its ∧ RXL tagOk keyOk its = true

theorem readable_nil (fmt : Fmt) : Readable fmt tagOk keyOk [] := ⟨[], prd_nil fmt, rfl⟩

theorem readable_append {fmt : Fmt} {Z1 Z2 : Str} (h1 : Readable fmt tagOk keyOk Z1) (h2 : Readable fmt tagOk keyOk Z2) :
    Readable fmt tagOk keyOk (Z1 ++ Z2) := by
  obtain ⟨i1, p1, r1⟩ := h1
  obtain ⟨i2, p2, r2⟩ := h2
  exact ⟨i1 ++ i2, prd_append p1 p2, by rw [rxl_append, r1, r2]; rfl⟩

theorem readable_sok (fmt : Fmt) {S : Str} (h : SOK S) : Readable fmt tagOk keyOk S := by
  obtain ⟨toks, ht⟩ := sok_toks h
  exact ⟨[.text toks], prd_text fmt (sok_noLt h) (strict_transp ht), by simp [RXL, RX]⟩

/-- the forest of a readable string -/
theorem Readable.forest {fmt : Fmt} {Z : Str} (h : Readable fmt tagOk keyOk Z) :
    ∃ forest, readForest fmt Z = some forest ∧ RXL tagOk keyOk forest = true := by
  obtain ⟨its, p, r⟩ := h
  have h1 := prd_reads p
  have h2 := h1 [] [] [] (Z.length + 1) noLt_nil transp_nil_nil (Or.inl rfl) (by simp)
  simp only [List.append_nil, List.nil_append] at h2
  refine ⟨mergeTexts its, ?_, rxl_mergeTexts _ r⟩
  simp only [readForest, h2, mergeTexts_nil_text]

theorem canonAttrs_keys (as : List (Str × Str)) (hk : ∀ kv ∈ as, keyOk kv.1 = true) :
    (canonAttrs as).all (fun kv => keyOk kv.1) = true := by
  simp only [canonAttrs, List.all_eq_true, List.mem_map]
  rintro x ⟨kv, hkv, rfl⟩
  exact hk kv hkv

/-- **an element that the serializer would write, around any readable content** -/
theorem readable_elem (fmt : Fmt) (t : Str) (as : List (Str × Str)) (C : Str) (ht : isName t = true)
    (hk : ∀ kv ∈ as, isName kv.1 = true) (hnd : keysNodup as = true) (hv : isEmptyTag t = false)
    (hr : isRawTextTag t = false) (htag : tagOk t = true) (hkeys : ∀ kv ∈ as, keyOk kv.1 = true)
    (hC : Readable fmt tagOk keyOk C) :
    Readable fmt tagOk keyOk ('<' :: (t ++ (writeAttrs fmt as ++ '>' :: (C ++ ("</".toList ++ t ++ ['>']))))) := by
  obtain ⟨kids, pk, rk⟩ := hC
  refine ⟨[.elem t (canonAttrs as) (mergeTexts kids)], ?_, ?_⟩
  · exact prd_elem_core fmt t _ _ ht (notText_elem _ _ _)
      (fun f Y hf => readElem_normal fmt t C as kids ht hk hnd hv hr (prd_reads pk) f Y hf)
  · simp only [RXL, RX, htag, canonAttrs_keys as hkeys, hv, rxl_mergeTexts _ rk, Bool.not_false, Bool.true_or,
      Bool.and_self]

theorem readable_void_xhtml (t : Str) (as : List (Str × Str)) (ht : isName t = true)
    (hk : ∀ kv ∈ as, isName kv.1 = true) (hnd : keysNodup as = true) (hv : isEmptyTag t = true)
    (htag : tagOk t = true) (hkeys : ∀ kv ∈ as, keyOk kv.1 = true) :
    Readable .xhtml tagOk keyOk ('<' :: (t ++ (writeAttrs .xhtml as ++ " />".toList))) := by
  refine ⟨[.elem t (canonAttrs as) []], ?_, ?_⟩
  · exact prd_elem_core .xhtml t _ _ ht (notText_elem _ _ _)
      (fun f Y _ => readElem_void_xhtml t as ht hk hnd hv f Y)
  · simp [RXL, RX, htag, canonAttrs_keys as hkeys]

theorem readable_void_html (t : Str) (as : List (Str × Str)) (ht : isName t = true)
    (hk : ∀ kv ∈ as, isName kv.1 = true) (hnd : keysNodup as = true) (hv : isEmptyTag t = true)
    (htag : tagOk t = true) (hkeys : ∀ kv ∈ as, keyOk kv.1 = true) :
    Readable .html tagOk keyOk ('<' :: (t ++ (writeAttrs .html as ++ ['>']))) := by
  refine ⟨[.elem t (canonAttrs as) []], ?_, ?_⟩
  · exact prd_elem_core .html t _ _ ht (notText_elem _ _ _)
      (fun f Y _ => readElem_void_html t as ht hk hnd hv f Y)
  · simp [RXL, RX, htag, canonAttrs_keys as hkeys]

/-! ### an element with attributes written in any order -/

theorem readElem_custom (fmt : Fmt) (t A C : Str) (as : List (Str × List Tok)) (kids : List RNode)
    (ht : isName t = true) (hv : isEmptyTag t = false) (hr : isRawTextTag t = false)
    (hA : A = [] ∨ ∃ a, A = ' ' :: a)
    (hRA : ∀ R fuel, 2 < fuel → readAttrs fmt fuel (A ++ '>' :: R) = some (as, false, R))
    (hC : Reads fmt C kids) (f : Nat) (Y : Str)
    (hf : (t ++ ((A ++ '>' :: (C ++ ("</".toList ++ t ++ ['>']))) ++ Y)).length < f + 1) :
    readElem fmt (f + 1) (t ++ ((A ++ '>' :: (C ++ ("</".toList ++ t ++ ['>']))) ++ Y)) =
      some (.elem t as (mergeTexts kids), Y) := by
  have e : (A ++ '>' :: (C ++ ("</".toList ++ t ++ ['>']))) ++ Y = A ++ '>' :: (C ++ '<' :: '/' :: (t ++ '>' :: Y)) := by
    simp
  have hW : AttrEnd (A ++ '>' :: (C ++ '<' :: '/' :: (t ++ '>' :: Y))) := by
    rcases hA with rfl | ⟨a, rfl⟩
    · exact ⟨_, Or.inl rfl⟩
    · exact ⟨_, Or.inr rfl⟩
  rw [e] at hf ⊢
  have htk := takeWhile_stop isNameChar t _ (isName_chars ht) (attrEnd_stops hW)
  have hdr := dropWhile_stop isNameChar t _ (isName_chars ht) (attrEnd_stops hW)
  have hne : t.isEmpty = false := by
    obtain ⟨c, r, rfl, _⟩ := isName_cons ht; rfl
  have hra := hRA (C ++ '<' :: '/' :: (t ++ '>' :: Y)) ((A ++ '>' :: (C ++ '<' :: '/' :: (t ++ '>' :: Y))).length + 1)
    (by simp; omega)
  have hc := hC [] [] ('<' :: '/' :: (t ++ '>' :: Y)) f noLt_nil transp_nil_nil (Or.inr ⟨_, rfl⟩)
    (by simp at hf ⊢; omega)
  simp only [List.nil_append] at hc
  rw [readElem_eq]
  simp only [htk, hdr, hne, hra, hv, hr, Bool.false_eq_true, if_false, hc, readClose_self, Option.map_some,
    mergeTexts_nil_text]

theorem prd_elem_custom (fmt : Fmt) (t A C : Str) (as : List (Str × List Tok)) (kids : List RNode)
    (ht : isName t = true) (hv : isEmptyTag t = false) (hr : isRawTextTag t = false)
    (hA : A = [] ∨ ∃ a, A = ' ' :: a)
    (hRA : ∀ R fuel, 2 < fuel → readAttrs fmt fuel (A ++ '>' :: R) = some (as, false, R))
    (hC : Reads fmt C kids) :
    PRd fmt ('<' :: (t ++ (A ++ '>' :: (C ++ ("</".toList ++ t ++ ['>']))))) [.elem t as (mergeTexts kids)] :=
  prd_elem_core fmt t _ _ ht (notText_elem _ _ _)
    (fun f Y hf => readElem_custom fmt t A C as kids ht hv hr hA hRA hC f Y hf)

/-- one quoted attribute in front of attributes that are read -/
theorem readAttrs_q (fmt : Fmt) (k v W : Str) (as : List (Str × List Tok)) (R : Str) (hk : isName k = true) (n : Nat)
    (hW : ∀ fuel, n < fuel → readAttrs fmt fuel W = some (as, false, R))
    (hnot : as.any (fun kv => kv.1 = k) = false) :
    ∀ fuel, n + 1 < fuel →
      readAttrs fmt fuel (' ' :: k ++ '=' :: '"' :: escAttrHtml v ++ '"' :: W) =
        some ((k, lenient attr 0 v) :: as, false, R) := by
  intro fuel hf
  cases fuel with
  | zero => omega
  | succ f =>
    rw [readAttrs_quoted fmt f k v W hk, hW f (by omega)]
    simp only [hnot, Bool.false_eq_true, if_false]

/-! ### an entry of `FencedBlockPreprocessor` -/

/-- the attributes of the `pre` element as the entry writes them: `id`, then `class` -/
def preA (id : Str) (classes : List Str) : Str :=
  (if id.isEmpty then [] else " id=\"".toList ++ escAttrHtml id ++ ['"']) ++
  (if classes.isEmpty then [] else " class=\"".toList ++ escAttrHtml (join [' '] classes) ++ ['"'])

def preToks (id : Str) (classes : List Str) : List (Str × List Tok) :=
  (if id.isEmpty then [] else [("id".toList, lenient attr 0 id)]) ++
  (if classes.isEmpty then [] else [("class".toList, lenient attr 0 (join [' '] classes))])

def codeA (lang : Str) : Str :=
  if lang.isEmpty then [] else " class=\"language-".toList ++ escAttrHtml lang ++ ['"']

def codeToks (lang : Str) : List (Str × List Tok) :=
  if lang.isEmpty then [] else [("class".toList, lenient attr 0 ("language-".toList ++ lang))]

theorem readAttrs_end' (fmt : Fmt) (R : Str) : ∀ fuel, 0 < fuel → readAttrs fmt fuel ('>' :: R) = some ([], false, R) := by
  intro fuel hf
  cases fuel with
  | zero => omega
  | succ f => exact readAttrs_end fmt f R

theorem q_id (x y : Str) : " id=\"".toList ++ x ++ ['"'] ++ y = ' ' :: "id".toList ++ '=' :: '"' :: x ++ '"' :: y := by
  simp
theorem q_class (x y : Str) :
    " class=\"".toList ++ x ++ ['"'] ++ y = ' ' :: "class".toList ++ '=' :: '"' :: x ++ '"' :: y := by
  simp

theorem readAttrs_preA (fmt : Fmt) (id : Str) (classes : List Str) (R : Str) :
    ∀ fuel, 2 < fuel → readAttrs fmt fuel (preA id classes ++ '>' :: R) = some (preToks id classes, false, R) := by
  intro fuel hf
  have n1 : isName "id".toList = true := by decide
  have n2 : isName "class".toList = true := by decide
  unfold preA preToks
  by_cases h1 : id.isEmpty = true <;> by_cases h2 : classes.isEmpty = true
  · simp only [h1, h2, if_true, List.append_nil, List.nil_append]
    exact readAttrs_end' fmt R fuel (by omega)
  · simp only [h1, h2, if_true, Bool.false_eq_true, if_false, List.nil_append]
    rw [q_class]
    exact readAttrs_q fmt _ _ _ [] R n2 0 (readAttrs_end' fmt R) rfl fuel (by omega)
  · simp only [h1, h2, if_true, Bool.false_eq_true, if_false, List.append_nil]
    rw [q_id]
    exact readAttrs_q fmt _ _ _ [] R n1 0 (readAttrs_end' fmt R) rfl fuel (by omega)
  · simp only [h1, h2, Bool.false_eq_true, if_false]
    rw [List.append_assoc, q_id, q_class]
    exact readAttrs_q fmt _ _ _ _ R n1 1
      (readAttrs_q fmt _ _ _ [] R n2 0 (readAttrs_end' fmt R) rfl)
      (by simp) fuel (by omega)

theorem escAttrHtml_language (lang : Str) :
    escAttrHtml ("language-".toList ++ lang) = "language-".toList ++ escAttrHtml lang := by
  rw [onepass_attr', onepass_attr']
  exact esc1_body true false _ lang (by decide)

theorem q_lang (x y : Str) : " class=\"language-".toList ++ x ++ ['"'] ++ y =
    ' ' :: "class".toList ++ '=' :: '"' :: ("language-".toList ++ x) ++ '"' :: y := by
  simp

theorem readAttrs_codeA (fmt : Fmt) (lang : Str) (R : Str) :
    ∀ fuel, 2 < fuel → readAttrs fmt fuel (codeA lang ++ '>' :: R) = some (codeToks lang, false, R) := by
  intro fuel hf
  have n2 : isName "class".toList = true := by decide
  unfold codeA codeToks
  by_cases h1 : lang.isEmpty = true
  · simp only [h1, if_true, List.nil_append]
    exact readAttrs_end' fmt R fuel (by omega)
  · simp only [h1, Bool.false_eq_true, if_false]
    rw [q_lang, ← escAttrHtml_language]
    exact readAttrs_q fmt _ _ _ [] R n2 0 (readAttrs_end' fmt R) rfl fuel (by omega)

theorem sok_fenceEscape1 : ∀ (s : Str), SOK (Code.fenceEscape1 s)
  | [] => sok_nil
  | c :: r => by
    have ih := sok_fenceEscape1 r
    simp only [Code.fenceEscape1]
    refine sok_append ?_ ih
    unfold Code.fesc1Char
    split
    · exact sok_entRef (by decide)
    · split
      · exact sok_entRef (by decide)
      · split
        · exact sok_entRef (by decide)
        · split
          · exact sok_entRef (by decide)
          · rename_i h1 h2 h3 h4
            apply sok_inert
            intro x hx
            simp only [List.mem_singleton] at hx
            subst hx
            exact ⟨h1, h2, h3, h4⟩

theorem preA_shape (id : Str) (classes : List Str) : preA id classes = [] ∨ ∃ a, preA id classes = ' ' :: a := by
  unfold preA
  by_cases h1 : id.isEmpty = true <;> by_cases h2 : classes.isEmpty = true
  · left; simp [h1, h2]
  · right; simp only [h1, h2, if_true, Bool.false_eq_true, if_false, List.nil_append]; exact ⟨_, rfl⟩
  · right; simp only [h1, h2, if_true, Bool.false_eq_true, if_false, List.append_nil]; exact ⟨_, rfl⟩
  · right; simp only [h1, h2, Bool.false_eq_true, if_false]; exact ⟨_, rfl⟩

theorem codeA_shape (lang : Str) : codeA lang = [] ∨ ∃ a, codeA lang = ' ' :: a := by
  unfold codeA
  by_cases h1 : lang.isEmpty = true
  · left; simp [h1]
  · right; simp only [h1, Bool.false_eq_true, if_false]; exact ⟨_, rfl⟩

theorem assoc_entry (a1 a2 a3 fe : Str) :
    "<pre".toList ++ a1 ++ a2 ++ "><code".toList ++ a3 ++ ['>'] ++ fe ++ "</code></pre>".toList =
      '<' :: ("pre".toList ++ ((a1 ++ a2) ++ '>' ::
        (('<' :: ("code".toList ++ (a3 ++ '>' :: (fe ++ ("</".toList ++ "code".toList ++ ['>']))))) ++
          ("</".toList ++ "pre".toList ++ ['>'])))) := by
  have l1 : "<pre".toList = '<' :: "pre".toList := rfl
  have l2 : "><code".toList = '>' :: '<' :: "code".toList := rfl
  have l3 : "</code></pre>".toList = ("</".toList ++ "code".toList ++ ['>']) ++ ("</".toList ++ "pre".toList ++ ['>']) := by
    decide
  rw [l1, l2, l3]
  simp only [List.append_assoc, List.cons_append, List.nil_append]

theorem blockHtmlA_eq (id : Str) (classes : List Str) (lang code : Str) :
    Fenced.blockHtmlA id classes lang code =
      '<' :: ("pre".toList ++ (preA id classes ++ '>' ::
        (('<' :: ("code".toList ++ (codeA lang ++ '>' ::
            (Code.fenceEscape code ++ ("</".toList ++ "code".toList ++ ['>']))))) ++
          ("</".toList ++ "pre".toList ++ ['>'])))) :=
  assoc_entry _ _ _ _

/-- **an entry is read as `pre` > `code` > text** -/
theorem prd_entry (fmt : Fmt) (id : Str) (classes : List Str) (lang code : Str) :
    ∃ toks, PRd fmt (Fenced.blockHtmlA id classes lang code)
      [.elem "pre".toList (preToks id classes)
        (mergeTexts [.elem "code".toList (codeToks lang) (mergeTexts [.text toks])])] := by
  have hs : SOK (Code.fenceEscape code) := by rw [Code.fenceEscape_onepass]; exact sok_fenceEscape1 code
  obtain ⟨toks, ht⟩ := sok_toks hs
  refine ⟨toks, ?_⟩
  have hin := prd_elem_custom fmt "code".toList (codeA lang) (Code.fenceEscape code) (codeToks lang) [.text toks]
    (by decide) (by decide) (by decide) (codeA_shape lang) (fun R fuel hf => readAttrs_codeA fmt lang R fuel hf)
    (prd_reads (prd_text fmt (sok_noLt hs) (strict_transp ht)))
  have hout := prd_elem_custom fmt "pre".toList (preA id classes) _ (preToks id classes) _
    (by decide) (by decide) (by decide) (preA_shape id classes)
    (fun R fuel hf => readAttrs_preA fmt id classes R fuel hf) (prd_reads hin)
  rw [blockHtmlA_eq]
  exact hout

theorem readable_entry (fmt : Fmt) {e : Str} (he : FEntry e)
    (hvoc : tagOk "pre".toList = true ∧ tagOk "code".toList = true ∧ keyOk "class".toList = true ∧
      keyOk "id".toList = true) : Readable fmt tagOk keyOk e := by
  obtain ⟨⟨id, classes, lang, code, rfl⟩, _⟩ := he
  obtain ⟨toks, hp⟩ := prd_entry fmt id classes lang code
  refine ⟨_, hp, ?_⟩
  obtain ⟨h1, h2, h3, h4⟩ := hvoc
  have e1 : isEmptyTag "pre".toList = false := by decide
  have e2 : isEmptyTag "code".toList = false := by decide
  have h3' : keyOk ['c', 'l', 'a', 's', 's'] = true := h3
  have h4' : keyOk ['i', 'd'] = true := h4
  have hk1 : (preToks id classes).all (fun kv => keyOk kv.1) = true := by
    unfold preToks
    by_cases a : id.isEmpty = true <;> by_cases b : classes.isEmpty = true <;> simp [a, b, h3', h4']
  have hk2 : (codeToks lang).all (fun kv => keyOk kv.1) = true := by
    unfold codeToks
    by_cases a : lang.isEmpty = true <;> simp [a, h3']
  have r1 : RXL tagOk keyOk (mergeTexts [RNode.text toks]) = true := rxl_mergeTexts _ (by simp [RXL, RX])
  have r2 : RXL tagOk keyOk (mergeTexts [RNode.elem "code".toList (codeToks lang) (mergeTexts [RNode.text toks])]) = true := by
    apply rxl_mergeTexts
    simp only [RXL, RX, h2, hk2, e2, r1, Bool.not_false, Bool.true_or, Bool.and_self]
  simp only [RXL, RX, h1, hk1, e1, r2, Bool.not_false, Bool.true_or, Bool.and_self]

/-! ### strictly readable stretches and entries -/

theorem readable_tfrag (fmt : Fmt)
    (hvoc : tagOk "pre".toList = true ∧ tagOk "code".toList = true ∧ keyOk "class".toList = true ∧
      keyOk "id".toList = true) {X : Str} (h : TFrag X) : Readable fmt tagOk keyOk X := by
  induction h with
  | txt S hS => exact readable_sok fmt hS
  | ent S e R hS he _ ih => exact readable_append (readable_sok fmt hS) (readable_append (readable_entry fmt he hvoc) ih)

theorem fentry_d4 {e : Str} (he : FEntry e) (R : Str) : D4 (e ++ R) := by
  obtain ⟨r, rfl⟩ := fentry_pre he
  exact d4_cons (Or.inl rfl) _

/-- `str.replace` of an `STX…` token by an entity reference keeps such a string such a string -/
theorem tfrag_replace {pat by' : Str} (h : RepOK pat by') {X : Str} (hX : TFrag X) : TFrag (replace X pat by') := by
  induction hX with
  | txt S hS => exact TFrag.txt _ (strict_rep h cdata _ S (Nat.le_refl _) hS)
  | ent S e R hS he _ ih =>
    rw [rep_app h S _ (fentry_d4 he R), rep_plain h e R (fentry_noSTX he)]
    exact TFrag.ent _ e _ (strict_rep h cdata _ S (Nat.le_refl _) hS) he ih

end MdVerif.VocabXFence
