/-
Helper lemmas for C02 (inline part): the fuels of `Model/Inline.lean` always suffice.  Core Lean only.

Measure of a text: `tau s` = number of *trigger* characters (the characters with which a match of one of the 16
core patterns can begin).  A placeholder contains none; every match begins with one; a stashing match removes it.
-/
import MdVerif.Model.Inline
import MdVerif.Model.Post
import MdVerif.Model.TreeProc
import MdVerif.Lemmas.PyBasic

namespace MdVerif.Inline
open Py

/-! ### the measure -/

/-- first characters of the matches of the core patterns (`!` for `![`) -/
def isTrig (c : Char) : Bool :=
  c = '`' || c = '\\' || c = '[' || c = '!' || c = '&' || c = '*' || c = '_' || c = ' '

/-- number of trigger characters -/
def tau (s : Str) : Nat := s.countP isTrig

@[simp] theorem tau_nil : tau [] = 0 := rfl
theorem tau_cons (c : Char) (s : Str) : tau (c :: s) = (if isTrig c then 1 else 0) + tau s := by
  simp only [tau, List.countP_cons]; omega
@[simp] theorem tau_append (a b : Str) : tau (a ++ b) = tau a + tau b := by simp [tau, List.countP_append]

theorem tau_le_length (s : Str) : tau s ≤ s.length := List.countP_le_length

theorem tau_sublist {a b : Str} (h : a.Sublist b) : tau a ≤ tau b := h.countP_le

theorem tau_take_add_drop (s : Str) (k : Nat) : tau (s.take k) + tau (s.drop k) = tau s := by
  rw [← tau_append, List.take_append_drop]

theorem tau_drop_le (s : Str) (k : Nat) : tau (s.drop k) ≤ tau s := by
  have := tau_take_add_drop s k; omega

theorem tau_take_le (s : Str) (k : Nat) : tau (s.take k) ≤ tau s := by
  have := tau_take_add_drop s k; omega

theorem tau_drop_mono (s : Str) {i j : Nat} (h : i ≤ j) : tau (s.drop j) ≤ tau (s.drop i) := by
  have : s.drop j = (s.drop i).drop (j - i) := by rw [List.drop_drop]; congr 1; omega
  rw [this]; exact tau_drop_le _ _

/-- a trigger character at `i` is counted in `drop i` and not in `drop (i+1)` -/
theorem tau_drop_succ {s : Str} {i : Nat} {c : Char} (h : s[i]? = some c) (hc : isTrig c = true) :
    tau (s.drop i) = tau (s.drop (i + 1)) + 1 := by
  have hi : i < s.length := by
    rcases Nat.lt_or_ge i s.length with h' | h'
    · exact h'
    · rw [List.getElem?_eq_none h'] at h; cases h
  have hd : s.drop i = c :: s.drop (i + 1) := by
    rw [List.drop_eq_getElem_cons hi]
    congr 1
    rw [List.getElem?_eq_getElem hi] at h; exact Option.some.inj h
  rw [hd, tau_cons, hc]; simp; omega

/-- the trigger at `start` lies in `[start, stop)` -/
theorem tau_cut {s : Str} {start stop : Nat} {c : Char} (h : s[start]? = some c) (hc : isTrig c = true)
    (hlt : start < stop) : tau (s.take start) + tau (s.drop stop) + 1 ≤ tau s := by
  have h1 := tau_take_add_drop s start
  have h2 := tau_drop_succ h hc
  have h3 := tau_drop_mono s (show start + 1 ≤ stop by omega)
  omega

theorem tau_digits {s : Str} (h : ∀ c ∈ s, isAsciiDigit c = true) : tau s = 0 := by
  simp only [tau, List.countP_eq_zero]
  intro c hc
  have hd := h c hc
  simp only [isAsciiDigit, Bool.and_eq_true, decide_eq_true_eq] at hd
  have h0 : (48 : Nat) ≤ c.toNat := hd.1
  have h9 : c.toNat ≤ 57 := hd.2
  simp only [isTrig, Bool.or_eq_true, decide_eq_true_eq, not_or]
  refine ⟨⟨⟨⟨⟨⟨⟨?_, ?_⟩, ?_⟩, ?_⟩, ?_⟩, ?_⟩, ?_⟩, ?_⟩ <;> (intro e; subst e; revert h0 h9; decide)

theorem tau_placeholder (k : Nat) : tau (placeholder k) = 0 := by
  simp only [placeholder, tau_append, tau_digits (pad4_digits k)]
  decide

/-! ### the pattern loop `hiLoop` -/

/-- what one `__applyPattern` call does, as far as the loop is concerned: it answers, and either
    (a) reports no match, or (b) leaves the text alone and moves `startIndex` past a trigger, or
    (c) replaces a match by a placeholder, which lowers `tau` -/
def ApOK (ap : Nat → Str → Nat → St → Option (Str × Bool × Nat × St)) (T0 : Nat) : Prop :=
  ∀ pi data si st, tau data ≤ T0 →
    ∃ d m si' st', ap pi data si st = some (d, m, si', st') ∧
      ((m = false ∧ d = data ∧ si' = 0) ∨
       (m = true ∧ d = data ∧ tau (data.drop si') < tau (data.drop si)) ∨
       (m = true ∧ si' = 0 ∧ tau d < tau data))

/-- potential of the loop state -/
def pot (T0 pi : Nat) (data : Str) (si : Nat) : Nat :=
  (patternCount - pi) * (T0 + 1) + tau data * (T0 + 1) + tau (data.drop si)

theorem hiLoop_total {ap} {T0 : Nat} (hap : ApOK ap T0) :
    ∀ (g : Nat) (data : Str) (pi si : Nat) (st : St), tau data ≤ T0 → pot T0 pi data si < g →
      (hiLoop ap g data pi si st).isSome = true := by
  intro g
  induction g with
  | zero => intro data pi si st _ h; omega
  | succ g ih =>
    intro data pi si st hT hpot
    unfold hiLoop
    split
    · next hpi =>
      obtain ⟨d, m, si', st', hap', hcase⟩ := hap pi data si st hT
      rw [hap']
      simp only
      have hdrop := tau_drop_le data si
      rcases hcase with ⟨hm, hd, hs⟩ | ⟨hm, hd, hlt⟩ | ⟨hm, hs, hlt⟩
      · subst hm hd hs
        apply ih _ _ _ _ hT
        simp only [pot, Bool.false_eq_true, if_false, List.drop_zero] at hpot ⊢
        have : (patternCount - pi) * (T0 + 1) = (patternCount - (pi + 1)) * (T0 + 1) + (T0 + 1) := by
          have : patternCount - pi = (patternCount - (pi + 1)) + 1 := by omega
          rw [this, Nat.add_mul]; omega
        omega
      · subst hm hd
        apply ih _ _ _ _ hT
        simp only [pot, if_true] at hpot ⊢
        omega
      · subst hm hs
        have hT' : tau d ≤ T0 := by omega
        apply ih _ _ _ _ hT'
        simp only [pot, if_true, List.drop_zero] at hpot ⊢
        have : tau data * (T0 + 1) ≥ tau d * (T0 + 1) + (T0 + 1) := by
          have : tau d + 1 ≤ tau data := hlt
          calc tau data * (T0 + 1) ≥ (tau d + 1) * (T0 + 1) := Nat.mul_le_mul_right _ this
            _ = tau d * (T0 + 1) + (T0 + 1) := by rw [Nat.add_mul]; omega
        omega
    · rfl

/-- the potential of the initial state is below the model's `loopFuel` -/
theorem pot_lt_loopFuel (data : Str) (pi : Nat) : pot (tau data) pi data 0 < loopFuel data.length := by
  have h := tau_le_length data
  simp only [pot, List.drop_zero, loopFuel, patternCount]
  generalize tau data = t at h
  generalize data.length = n at h
  have h1 : (16 - pi) * (t + 1) ≤ 16 * (n + 1) := Nat.mul_le_mul (by omega) (by omega)
  have h2 : t * (t + 1) ≤ n * (n + 1) := Nat.mul_le_mul h (by omega)
  have h3 : 16 * (n + 2) * (n + 2) = 16 * (n * n) + 64 * n + 64 := by grind
  have h4 : n * (n + 1) = n * n + n := by grind
  omega

/-! ### accounting for the emphasis matcher `seqGo`: what it consumes = the groups + the delimiter runs -/

def litSum : List Step → Nat
  | [] => 0
  | .lit m :: r => m + litSum r
  | _ :: r => litSum r

/-- `Σ countP p g` -/
def sumP (p : Char → Bool) : List Str → Nat
  | [] => 0
  | g :: r => g.countP p + sumP p r

/-- accounting property of a continuation: it consumes a prefix of the text, appends groups, and the prefix holds
    the groups plus `L` further `p`-characters -/
def KAcct (p : Char → Bool) (k : K) (L : Nat) : Prop :=
  ∀ prev suf pos gs e out, k prev suf pos gs = some (e, out) →
    ∃ consumed rest new, suf = consumed ++ rest ∧ e = pos + consumed.length ∧ out = gs.reverse ++ new ∧
      consumed.countP p = sumP p new + L

theorem lazyLoop_acct {p : Char → Bool} {c : Char} {notc : Bool} {k : K} {gs : List Str} {L : Nat}
    (hk : KAcct p k L) :
    ∀ (suf : Str) (need : Nat) (prev : Option Char) (pos : Nat) (acc : Str) e out,
      lazyLoop c notc k gs need prev suf pos acc = some (e, out) →
      ∃ g2 c2 rest new, suf = g2 ++ c2 ++ rest ∧ e = pos + g2.length + c2.length ∧
        out = gs.reverse ++ (acc.reverse ++ g2) :: new ∧ c2.countP p = sumP p new + L := by
  intro suf
  induction suf with
  | nil =>
    intro need prev pos acc e out h
    cases need with
    | zero =>
      simp only [lazyLoop] at h
      obtain ⟨consumed, rest, new, h1, h2, h3, h4⟩ := hk _ _ _ _ _ _ h
      refine ⟨[], consumed, rest, new, by simpa using h1, by simpa using h2, ?_, h4⟩
      simp [h3]
    | succ n => simp [lazyLoop] at h
  | cons ch r ih =>
    intro need prev pos acc e out h
    cases need with
    | zero =>
      simp only [lazyLoop] at h
      split at h
      · next x hx =>
        cases h
        obtain ⟨consumed, rest, new, h1, h2, h3, h4⟩ := hk _ _ _ _ _ _ hx
        refine ⟨[], consumed, rest, new, by simpa using h1, by simpa using h2, ?_, h4⟩
        simp [h3]
      · split at h
        · obtain ⟨g2, c2, rest, new, h1, h2, h3, h4⟩ := ih _ _ _ _ _ _ h
          refine ⟨ch :: g2, c2, rest, new, by simp [h1], by simp [h2]; omega, ?_, h4⟩
          simp [h3]
        · cases h
    | succ n =>
      simp only [lazyLoop] at h
      split at h
      · obtain ⟨g2, c2, rest, new, h1, h2, h3, h4⟩ := ih _ _ _ _ _ _ h
        refine ⟨ch :: g2, c2, rest, new, by simp [h1], by simp [h2]; omega, ?_, h4⟩
        simp [h3]
      · cases h

theorem greedyLoop_acct {p : Char → Bool} {c : Char} {mn : Nat} {k : K} {gs : List Str} {L : Nat}
    (hk : KAcct p k L) :
    ∀ (suf : Str) (prev : Option Char) (pos Ln : Nat) (acc : Str) e out,
      greedyLoop c mn k gs prev suf pos Ln acc = some (e, out) →
      ∃ g2 c2 rest new, suf = g2 ++ c2 ++ rest ∧ e = pos + g2.length + c2.length ∧
        out = gs.reverse ++ (acc.reverse ++ g2) :: new ∧ c2.countP p = sumP p new + L := by
  intro suf
  have here : ∀ (suf : Str) (prev : Option Char) (pos Ln : Nat) (acc : Str) e out,
      (if Ln ≥ mn then k prev suf pos (acc.reverse :: gs) else none) = some (e, out) →
      ∃ g2 c2 rest new, suf = g2 ++ c2 ++ rest ∧ e = pos + g2.length + c2.length ∧
        out = gs.reverse ++ (acc.reverse ++ g2) :: new ∧ c2.countP p = sumP p new + L := by
    intro suf prev pos Ln acc e out h
    split at h
    · obtain ⟨consumed, rest, new, h1, h2, h3, h4⟩ := hk _ _ _ _ _ _ h
      refine ⟨[], consumed, rest, new, by simpa using h1, by simpa using h2, ?_, h4⟩
      simp [h3]
    · cases h
  induction suf with
  | nil =>
    intro prev pos Ln acc e out h
    simp only [greedyLoop] at h
    exact here _ _ _ _ _ _ _ h
  | cons ch r ih =>
    intro prev pos Ln acc e out h
    simp only [greedyLoop] at h
    split at h
    · split at h
      · next x hx =>
        cases h
        obtain ⟨g2, c2, rest, new, h1, h2, h3, h4⟩ := ih _ _ _ _ _ _ hx
        refine ⟨ch :: g2, c2, rest, new, by simp [h1], by simp [h2]; omega, ?_, h4⟩
        simp [h3]
      · exact here _ _ _ _ _ _ _ h
    · exact here _ _ _ _ _ _ _ h

theorem seqGo_acct (p : Char → Bool) (c : Char) :
    ∀ steps : List Step, KAcct p (seqGo c steps) (litSum steps * (if p c then 1 else 0)) := by
  intro steps
  induction steps with
  | nil =>
    intro prev suf pos gs e out h
    simp only [seqGo] at h
    cases h
    exact ⟨[], suf, [], by simp, by simp, by simp, by simp [sumP, litSum]⟩
  | cons st rest ih =>
    intro prev suf pos gs e out h
    cases st with
    | lit m =>
      simp only [seqGo] at h
      split at h
      · next hm =>
        simp only [Bool.and_eq_true, decide_eq_true_eq, beq_iff_eq] at hm
        obtain ⟨consumed, rst, new, h1, h2, h3, h4⟩ := ih _ _ _ _ _ _ h
        have hpre := countPrefix_prefix c (some m) suf
        rw [hm.2] at hpre
        refine ⟨List.replicate m c ++ consumed, rst, new, ?_, ?_, h3, ?_⟩
        · rw [List.append_assoc, ← h1, ← hpre, List.take_append_drop]
        · simp [h2]; omega
        · simp only [List.countP_append, List.countP_replicate, litSum, h4, Nat.add_mul]
          split <;> simp <;> omega
      · cases h
    | notnext =>
      simp only [seqGo] at h
      split at h
      · cases h
      · simpa [litSum] using ih _ _ _ _ _ _ h
    | nbW =>
      simp only [seqGo] at h
      split at h
      · cases h
      · simpa [litSum] using ih _ _ _ _ _ _ h
    | nbC =>
      simp only [seqGo] at h
      split at h
      · cases h
      · simpa [litSum] using ih _ _ _ _ _ _ h
    | naW =>
      simp only [seqGo] at h
      split at h
      · cases h
      · simpa [litSum] using ih _ _ _ _ _ _ h
    | lazy mn notc =>
      simp only [seqGo] at h
      obtain ⟨g2, c2, rst, new, h1, h2, h3, h4⟩ := lazyLoop_acct ih _ _ _ _ _ _ _ h
      refine ⟨g2 ++ c2, rst, g2 :: new, h1, by simp [h2]; omega, by simpa using h3, ?_⟩
      simp only [List.countP_append, sumP, litSum, h4]; omega
    | greedy mn =>
      simp only [seqGo] at h
      obtain ⟨g2, c2, rst, new, h1, h2, h3, h4⟩ := greedyLoop_acct ih _ _ _ _ _ _ _ h
      refine ⟨g2 ++ c2, rst, g2 :: new, h1, by simp [h2]; omega, by simpa using h3, ?_⟩
      simp only [List.countP_append, sumP, litSum, h4]; omega

theorem mem_le_sumP (p : Char → Bool) {g : Str} {gs : List Str} (hg : g ∈ gs) : g.countP p ≤ sumP p gs := by
  induction gs with
  | nil => cases hg
  | cons x r ih =>
    simp only [sumP]
    rcases List.mem_cons.1 hg with rfl | hg
    · omega
    · have := ih hg; omega

/-- consequences for a match of one pattern: lengths -/
theorem seqMatch_len {s : Str} {i : Nat} {c : Char} {steps : List Step} {e : Nat} {gs : List Str}
    (h : seqMatch s i c steps = some (e, gs)) :
    i ≤ s.length ∧ e ≤ s.length ∧ i + litSum steps ≤ e ∧ ∀ g ∈ gs, g.length + litSum steps ≤ e - i := by
  simp only [seqMatch] at h
  split at h
  · cases h
  · next hi =>
    obtain ⟨consumed, rest, new, h1, h2, h3, h4⟩ := seqGo_acct (fun _ => true) c steps _ _ _ _ _ _ h
    simp only [List.reverse_nil, List.nil_append] at h3
    subst h3
    have hl : (s.drop i).length = consumed.length + rest.length := by rw [h1]; simp
    simp only [List.length_drop] at hl
    simp only [List.countP_true, if_true, Nat.mul_one] at h4
    refine ⟨by omega, by omega, by omega, ?_⟩
    intro g hg
    have := mem_le_sumP (fun _ => true) hg
    simp only [List.countP_true] at this
    omega

/-- consequences for a match of one pattern: trigger characters -/
theorem seqMatch_tau {s : Str} {i : Nat} {c : Char} {steps : List Step} {e : Nat} {gs : List Str}
    (hc : isTrig c = true) (h : seqMatch s i c steps = some (e, gs)) :
    ∀ g ∈ gs, tau g + litSum steps ≤ tau s := by
  simp only [seqMatch] at h
  split at h
  · cases h
  · obtain ⟨consumed, rest, new, h1, h2, h3, h4⟩ := seqGo_acct isTrig c steps _ _ _ _ _ _ h
    simp only [List.reverse_nil, List.nil_append] at h3
    subst h3
    simp only [hc, if_true, Nat.mul_one] at h4
    have hle : tau consumed ≤ tau s := by
      have h5 := tau_drop_le s i
      rw [h1, tau_append] at h5; omega
    intro g hg
    have := mem_le_sumP isTrig hg
    simp only [tau] at hle ⊢
    omega

theorem emPatterns_litSum (c : Char) : ∀ item ∈ emPatterns c, 1 ≤ litSum item.steps := by
  intro item h
  simp only [emPatterns] at h
  split at h
  · simp only [starPatterns, List.mem_cons, List.not_mem_nil, or_false] at h
    rcases h with rfl | rfl | rfl | rfl | rfl <;> decide
  · simp only [underPatterns, List.mem_cons, List.not_mem_nil, or_false] at h
    rcases h with rfl | rfl | rfl | rfl | rfl <;> decide

/-! ### the groups of a match are parts of the text -/

/-- a continuation whose new groups are parts of the text it is given -/
def KInf (k : K) : Prop :=
  ∀ prev suf pos gs e out, k prev suf pos gs = some (e, out) →
    ∃ new, out = gs.reverse ++ new ∧ ∀ g ∈ new, g <:+: suf

theorem infix_cons {g r : Str} (ch : Char) (h : g <:+: r) : g <:+: ch :: r := by
  obtain ⟨a, b, rfl⟩ := h
  exact ⟨ch :: a, b, by simp⟩

theorem lazyLoop_inf {c : Char} {notc : Bool} {k : K} {gs : List Str} (hk : KInf k) :
    ∀ (suf : Str) (need : Nat) (prev : Option Char) (pos : Nat) (acc : Str) e out,
      lazyLoop c notc k gs need prev suf pos acc = some (e, out) →
      ∃ g2 new, g2 <+: suf ∧ out = gs.reverse ++ (acc.reverse ++ g2) :: new ∧ ∀ g ∈ new, g <:+: suf := by
  intro suf
  induction suf with
  | nil =>
    intro need prev pos acc e out h
    cases need with
    | zero =>
      simp only [lazyLoop] at h
      obtain ⟨new, h1, h2⟩ := hk _ _ _ _ _ _ h
      exact ⟨[], new, List.nil_prefix, by simp [h1], h2⟩
    | succ n => simp [lazyLoop] at h
  | cons ch r ih =>
    intro need prev pos acc e out h
    cases need with
    | zero =>
      simp only [lazyLoop] at h
      split at h
      · next x hx =>
        cases h
        obtain ⟨new, h1, h2⟩ := hk _ _ _ _ _ _ hx
        exact ⟨[], new, List.nil_prefix, by simp [h1], h2⟩
      · split at h
        · obtain ⟨g2, new, h1, h2, h3⟩ := ih _ _ _ _ _ _ h
          exact ⟨ch :: g2, new, List.cons_prefix_cons.2 ⟨rfl, h1⟩, by simp [h2], fun g hg => infix_cons ch (h3 g hg)⟩
        · cases h
    | succ n =>
      simp only [lazyLoop] at h
      split at h
      · obtain ⟨g2, new, h1, h2, h3⟩ := ih _ _ _ _ _ _ h
        exact ⟨ch :: g2, new, List.cons_prefix_cons.2 ⟨rfl, h1⟩, by simp [h2], fun g hg => infix_cons ch (h3 g hg)⟩
      · cases h

theorem greedyLoop_inf {c : Char} {mn : Nat} {k : K} {gs : List Str} (hk : KInf k) :
    ∀ (suf : Str) (prev : Option Char) (pos Ln : Nat) (acc : Str) e out,
      greedyLoop c mn k gs prev suf pos Ln acc = some (e, out) →
      ∃ g2 new, g2 <+: suf ∧ out = gs.reverse ++ (acc.reverse ++ g2) :: new ∧ ∀ g ∈ new, g <:+: suf := by
  intro suf
  have here : ∀ (suf : Str) (prev : Option Char) (pos Ln : Nat) (acc : Str) e out,
      (if Ln ≥ mn then k prev suf pos (acc.reverse :: gs) else none) = some (e, out) →
      ∃ g2 new, g2 <+: suf ∧ out = gs.reverse ++ (acc.reverse ++ g2) :: new ∧ ∀ g ∈ new, g <:+: suf := by
    intro suf prev pos Ln acc e out h
    split at h
    · obtain ⟨new, h1, h2⟩ := hk _ _ _ _ _ _ h
      exact ⟨[], new, List.nil_prefix, by simp [h1], h2⟩
    · cases h
  induction suf with
  | nil =>
    intro prev pos Ln acc e out h
    simp only [greedyLoop] at h
    exact here _ _ _ _ _ _ _ h
  | cons ch r ih =>
    intro prev pos Ln acc e out h
    simp only [greedyLoop] at h
    split at h
    · split at h
      · next x hx =>
        cases h
        obtain ⟨g2, new, h1, h2, h3⟩ := ih _ _ _ _ _ _ hx
        exact ⟨ch :: g2, new, List.cons_prefix_cons.2 ⟨rfl, h1⟩, by simp [h2], fun g hg => infix_cons ch (h3 g hg)⟩
      · exact here _ _ _ _ _ _ _ h
    · exact here _ _ _ _ _ _ _ h

theorem seqGo_inf (c : Char) : ∀ steps : List Step, KInf (seqGo c steps) := by
  intro steps
  induction steps with
  | nil =>
    intro prev suf pos gs e out h
    simp only [seqGo] at h
    cases h
    exact ⟨[], by simp, by intro g hg; cases hg⟩
  | cons st rest ih =>
    intro prev suf pos gs e out h
    cases st with
    | lit m =>
      simp only [seqGo] at h
      split at h
      · obtain ⟨new, h1, h2⟩ := ih _ _ _ _ _ _ h
        exact ⟨new, h1, fun g hg => (h2 g hg).trans (List.drop_suffix _ _).isInfix⟩
      · cases h
    | notnext =>
      simp only [seqGo] at h
      split at h
      · cases h
      · exact ih _ _ _ _ _ _ h
    | nbW =>
      simp only [seqGo] at h
      split at h
      · cases h
      · exact ih _ _ _ _ _ _ h
    | nbC =>
      simp only [seqGo] at h
      split at h
      · cases h
      · exact ih _ _ _ _ _ _ h
    | naW =>
      simp only [seqGo] at h
      split at h
      · cases h
      · exact ih _ _ _ _ _ _ h
    | lazy mn notc =>
      simp only [seqGo] at h
      obtain ⟨g2, new, h1, h2, h3⟩ := lazyLoop_inf ih _ _ _ _ _ _ _ h
      refine ⟨g2 :: new, by simpa using h2, ?_⟩
      intro g hg
      rcases List.mem_cons.1 hg with rfl | hg
      · exact h1.isInfix
      · exact h3 g hg
    | greedy mn =>
      simp only [seqGo] at h
      obtain ⟨g2, new, h1, h2, h3⟩ := greedyLoop_inf ih _ _ _ _ _ _ _ h
      refine ⟨g2 :: new, by simpa using h2, ?_⟩
      intro g hg
      rcases List.mem_cons.1 hg with rfl | hg
      · exact h1.isInfix
      · exact h3 g hg

/-- the groups of a match are parts of the text -/
theorem seqMatch_infix {s : Str} {i : Nat} {c : Char} {steps : List Step} {e : Nat} {gs : List Str}
    (h : seqMatch s i c steps = some (e, gs)) : ∀ g ∈ gs, g <:+: s := by
  simp only [seqMatch] at h
  split at h
  · cases h
  · obtain ⟨new, h1, h2⟩ := seqGo_inf c steps _ _ _ _ _ _ h
    simp only [List.reverse_nil, List.nil_append] at h1
    subst h1
    exact fun g hg => (h2 g hg).trans (List.drop_suffix _ _).isInfix

/-! ### emphasis builders: `build` never runs out of fuel, and the texts it makes are parts of the groups -/

/-- a property of texts that parts inherit -/
def InfixClosed (Q : Str → Prop) : Prop := ∀ a b : Str, a <:+: b → Q b → Q a

def optQ (Q : Str → Prop) (t : Option Str) : Prop := ∀ s, t = some s → Q s

/-- the element's own text and tail satisfy `Q` -/
def TopQ (Q : Str → Prop) (n : Node) : Prop := optQ Q n.text ∧ optQ Q n.tail

/-- … and those of its children: the strings `__applyPattern` passes to the nested `__handleInline` -/
def ShallowQ (Q : Str → Prop) (n : Node) : Prop := TopQ Q n ∧ ∀ c ∈ n.children, TopQ Q c

/-- the instance used for termination: at most `k` triggers -/
abbrev optLe (k : Nat) (t : Option Str) : Prop := optQ (fun s => tau s ≤ k) t
abbrev Top (k : Nat) (n : Node) : Prop := TopQ (fun s => tau s ≤ k) n
abbrev Shallow (k : Nat) (n : Node) : Prop := ShallowQ (fun s => tau s ≤ k) n

theorem infixClosed_tau (k : Nat) : InfixClosed (fun s => tau s ≤ k) :=
  fun _ _ hab hb => Nat.le_trans (tau_sublist hab.sublist) hb

theorem optQ_none (Q : Str → Prop) : optQ Q none := by intro s h; cases h
theorem optQ_some {Q : Str → Prop} {t : Str} (h : Q t) : optQ Q (some t) := by
  intro s hs; cases hs; exact h
theorem optLe_none (k : Nat) : optLe k none := optQ_none _
theorem optLe_some {k : Nat} {t : Str} (h : tau t ≤ k) : optLe k (some t) := optQ_some h

theorem shallowQ_mkEl (Q : Str → Prop) (tag : String) : ShallowQ Q (mkEl tag) :=
  ⟨⟨optQ_none Q, optQ_none Q⟩, by intro c hc; cases hc⟩
theorem shallow_mkEl (k : Nat) (tag : String) : Shallow k (mkEl tag) := shallowQ_mkEl _ tag

theorem shallowQ_append {Q : Str → Prop} {p el : Node} (hp : ShallowQ Q p) (he : TopQ Q el) :
    ShallowQ Q (p.append el) := by
  refine ⟨hp.1, ?_⟩
  intro c hc
  simp only [Node.append, List.mem_append, List.mem_singleton] at hc
  rcases hc with hc | rfl
  · exact hp.2 c hc
  · exact he

theorem shallowQ_setTextOrTail {Q : Str → Prop} {p : Node} {text : Str} (hasLast : Bool) (hp : ShallowQ Q p)
    (ht : Q text) : ShallowQ Q (setTextOrTail p hasLast text) := by
  unfold setTextOrTail
  split
  · exact hp
  · split
    · split
      · next l hl =>
        refine ⟨hp.1, ?_⟩
        intro c hc
        simp only [Node.setLast, List.mem_append, List.mem_singleton] at hc
        rcases hc with hc | rfl
        · exact hp.2 c ((List.dropLast_sublist _).subset hc)
        · have hl' : l ∈ p.children := List.mem_of_getLast? hl
          exact ⟨(hp.2 l hl').1, optQ_some ht⟩
      · exact hp
    · exact ⟨⟨optQ_some ht, hp.1.2⟩, hp.2⟩

/-- a builder that answers on groups shorter than `L` with texts satisfying `Q` -/
def BuildOKQ (b : List Str → EmItem → Nat → Option Node) (L : Nat) (Q : Str → Prop) : Prop :=
  ∀ groups item idx, 0 < L → (∀ g ∈ groups, g.length < L ∧ Q g) →
    ∃ n, b groups item idx = some n ∧ ShallowQ Q n

abbrev BuildOK (b : List Str → EmItem → Nat → Option Node) (L k : Nat) : Prop :=
  BuildOKQ b L (fun s => tau s ≤ k)

theorem slice_infix (s : Str) (a b : Nat) : slice s a b <:+: s :=
  (List.drop_suffix _ _).isInfix.trans (List.take_prefix _ _).isInfix

theorem subTry_ok {b} {data : Str} {c : Char} {idx : Nat} {Q : Str → Prop} (hQ : InfixClosed Q)
    (hb : BuildOKQ b data.length Q) (hd : Q data) :
    ∀ (items : List EmItem) (index : Nat) (s : SubSt), (∀ it ∈ items, 1 ≤ litSum it.steps) →
      ShallowQ Q s.parent →
      ∃ s', subTry b data c idx items index s = some s' ∧ ShallowQ Q s'.parent ∧ s.pos ≤ s'.pos ∧
        (s'.matched = true → s.matched = true ∨ s.pos < s'.pos) := by
  intro items
  induction items with
  | nil => intro index s _ hs; exact ⟨s, rfl, hs, Nat.le_refl _, fun h => Or.inl h⟩
  | cons item rest ih =>
    intro index s hl hs
    have hl' : ∀ it ∈ rest, 1 ≤ litSum it.steps := fun it h => hl it (List.mem_cons_of_mem _ h)
    unfold subTry
    split
    · exact ih _ _ hl' hs
    · split
      · exact ih _ _ hl' hs
      · next e groups hm =>
        have hlen := seqMatch_len hm
        have hinf := seqMatch_infix hm
        have h1 := hl item (List.mem_cons_self ..)
        have hgroups : ∀ g ∈ groups, g.length < data.length ∧ Q g := by
          intro g hg
          have a := hlen.2.2.2 g hg
          exact ⟨by omega, hQ _ _ (hinf g hg) hd⟩
        obtain ⟨el, hel, hsh⟩ := hb groups item index (by omega) hgroups
        rw [hel]
        simp only
        have hp1 : ShallowQ Q (setTextOrTail s.parent s.hasLast (slice data s.offset s.pos)) :=
          shallowQ_setTextOrTail _ hs (hQ _ _ (slice_infix _ _ _) hd)
        obtain ⟨s', hs', hsh', hpos, hmat⟩ := ih (index + 1)
          { pos := e, offset := e, parent := (setTextOrTail s.parent s.hasLast (slice data s.offset s.pos)).append el,
            hasLast := true, matched := true } hl' (shallowQ_append hp1 hsh.1)
        refine ⟨s', hs', hsh', ?_, ?_⟩
        · simp only at hpos; omega
        · intro _; right; simp only at hpos; omega

theorem subLoop_ok {b} {data : Str} {c : Char} {idx : Nat} {Q : Str → Prop} (hQ : InfixClosed Q)
    (hb : BuildOKQ b data.length Q) (hd : Q data) :
    ∀ (g : Nat) (s : SubSt), data.length - s.pos < g → ShallowQ Q s.parent →
      ∃ s', subLoop b data c idx g s = some s' ∧ ShallowQ Q s'.parent := by
  intro g
  induction g with
  | zero => intro s h; omega
  | succ g ih =>
    intro s hg hs
    unfold subLoop
    split
    · next hpos =>
      split
      · obtain ⟨s', hs', hsh', hpos', hmat⟩ :=
          subTry_ok (c := c) (idx := idx) hQ hb hd (emPatterns c) 0 { s with matched := false } (emPatterns_litSum c) hs
        rw [hs']
        simp only
        split
        · next hm =>
          have hlt : s.pos < s'.pos := by
            rcases hmat hm with h | h
            · cases h
            · exact h
          exact ih _ (by omega) hsh'
        · exact ih _ (by simp only at hpos' ⊢; omega) hsh'
      · exact ih _ (by simp only; omega) hs
    · exact ⟨s, rfl, hs⟩

theorem parseSub_ok {b} {data : Str} {c : Char} {Q : Str → Prop} (hQ : InfixClosed Q)
    (hb : BuildOKQ b data.length Q) (hd : Q data) (parent : Node) (hasLast : Bool) (idx : Nat)
    (hp : ShallowQ Q parent) :
    ∃ n, parseSub b data parent hasLast idx c = some n ∧ ShallowQ Q n := by
  unfold parseSub
  obtain ⟨s', hs', hsh'⟩ := subLoop_ok (c := c) (idx := idx) hQ hb hd (data.length + 1) ⟨0, 0, parent, hasLast, false⟩
    (by simp only; omega) hp
  rw [hs']
  exact ⟨_, rfl, shallowQ_setTextOrTail _ hsh' (hQ _ _ (List.drop_suffix _ _).isInfix hd)⟩

theorem buildOKQ_mono {b} {L L' : Nat} {Q : Str → Prop} (h : BuildOKQ b L Q) (hl : L' ≤ L) : BuildOKQ b L' Q := by
  intro groups item idx h0 hg
  exact h groups item idx (by omega) (fun g hgm => ⟨by have := (hg g hgm).1; omega, (hg g hgm).2⟩)

theorem build_okQ (c : Char) {Q : Str → Prop} (hQ : InfixClosed Q) (hQ0 : Q []) :
    ∀ f, BuildOKQ (build c f) f Q := by
  intro f
  induction f with
  | zero => intro groups item idx h0; omega
  | succ f ih =>
    intro groups item idx _ hg
    have ih' : BuildOKQ (fun g i j => build c f g i j) f Q := ih
    have hsub : ∀ (d : Str) (p : Node) (hl : Bool), d.length ≤ f → Q d → ShallowQ Q p →
        ∃ n, parseSub (fun g i j => build c f g i j) d p hl idx c = some n ∧ ShallowQ Q n :=
      fun d p hl hdl hdt hp => parseSub_ok hQ (buildOKQ_mono ih' hdl) hdt p hl idx hp
    have hget : ∀ j, (groups.getD j []).length ≤ f ∧ Q (groups.getD j []) := by
      intro j
      rcases Nat.lt_or_ge j groups.length with hj | hj
      · have hm : groups.getD j [] ∈ groups := by
          rw [List.getD_eq_getElem?_getD, List.getElem?_eq_getElem hj]; exact List.getElem_mem hj
        have := hg _ hm
        exact ⟨by omega, this.2⟩
      · rw [List.getD_eq_getElem?_getD, List.getElem?_eq_none hj]; exact ⟨by simp, hQ0⟩
    have hhead : groups.headD [] = groups.getD 0 [] := by cases groups <;> rfl
    have h0 := hget 0
    rw [← hhead] at h0
    unfold build
    simp only
    split
    · exact hsub _ _ _ h0.1 h0.2 (shallowQ_mkEl Q _)
    · obtain ⟨el2, hel2, hsh2⟩ := hsub (groups.headD []) (mkEl item.tag2) false h0.1 h0.2 (shallowQ_mkEl Q _)
      rw [hel2]
      simp only
      have hel1 : ShallowQ Q ((mkEl item.tag1).append el2) := shallowQ_append (shallowQ_mkEl Q _) hsh2.1
      split
      · next a g1 =>
        have h1 := hget 1
        simp only [List.getD_cons_succ, List.getD_cons_zero] at h1
        exact hsub _ _ _ h1.1 h1.2 hel1
      · exact ⟨_, rfl, hel1⟩
    · obtain ⟨el1, hel1, hsh1⟩ := hsub (groups.headD []) (mkEl item.tag1) false h0.1 h0.2 (shallowQ_mkEl Q _)
      have h1 := hget 1
      obtain ⟨el2, hel2, hsh2⟩ := hsub (groups.getD 1 []) (mkEl item.tag2) false h1.1 h1.2 (shallowQ_mkEl Q _)
      rw [hel1, hel2]
      exact ⟨_, rfl, shallowQ_append hsh1 hsh2.1⟩

theorem build_ok {c : Char} (_hc : isTrig c = true) (k : Nat) : ∀ f, BuildOK (build c f) f k :=
  build_okQ c (infixClosed_tau k) (by simp)

/-! ### every match begins with a trigger character and is not empty -/

/-- the match `[start, stop)` found in `suf` (the text from offset `i`) begins at a trigger character -/
def RelOK (suf : Str) (i start stop : Nat) : Prop :=
  ∃ j c, start = i + j ∧ suf[j]? = some c ∧ isTrig c = true ∧ start < stop

theorem RelOK.cons {ch : Char} {r : Str} {i start stop : Nat} (h : RelOK r (i + 1) start stop) :
    RelOK (ch :: r) i start stop := by
  obtain ⟨j, c, h1, h2, h3, h4⟩ := h
  exact ⟨j + 1, c, by omega, by simpa using h2, h3, h4⟩

theorem countPrefix_pos_head {ch : Char} {lim : Option Nat} {s : Str} (h : 0 < countPrefix ch lim s) :
    s.head? = some ch := by
  cases s with
  | nil => simp at h
  | cons c r =>
    cases lim with
    | none =>
      simp only [countPrefix] at h
      split at h
      · next hc => simp [hc]
      · omega
    | some n =>
      cases n with
      | zero => simp at h
      | succ n =>
        simp only [countPrefix] at h
        split at h
        · next hc => simp [hc]
        · omega

theorem btCode_pos {suf : Str} : ∀ {t m L : Nat}, btCode suf t = some (m, L) → 0 < m := by
  intro t
  induction t with
  | zero => intro m L h; simp [btCode] at h
  | succ t ih =>
    intro m L h
    simp only [btCode] at h
    split at h
    · split at h
      · cases h; omega
      · exact ih h
    · exact ih h

theorem btAt_ok {prev : Option Char} {suf : Str} {i : Nat} {m : BtMatch} (h : btAt prev suf i = some m) :
    RelOK suf i m.start m.stop := by
  unfold btAt at h
  split at h
  · cases h
  · simp only at h
    split at h
    · next hk =>
      cases h
      simp only [Bool.and_eq_true, decide_eq_true_eq] at hk
      have hh := countPrefix_pos_head (ch := '\\') (lim := none) (s := suf) (by omega)
      refine ⟨0, '\\', rfl, ?_, by decide, by simp only; omega⟩
      cases suf with
      | nil => simp at hh
      | cons c r => simp at hh; simp [hh]
    · split at h
      · next r =>
        split at h
        · next mm L hb =>
          cases h
          have := btCode_pos hb
          exact ⟨0, '`', rfl, by simp, by decide, by simp only; omega⟩
        · cases h
      · cases h

theorem btScan_ok : ∀ {suf : Str} {prev : Option Char} {i : Nat} {m : BtMatch},
    btScan prev suf i = some m → RelOK suf i m.start m.stop := by
  intro suf
  induction suf with
  | nil =>
    intro prev i m h
    unfold btScan at h
    split at h
    · next r hr => cases h; exact btAt_ok hr
    · cases h
  | cons ch r ih =>
    intro prev i m h
    unfold btScan at h
    split at h
    · next r' hr => cases h; exact btAt_ok hr
    · exact (ih h).cons

theorem escScan_ok : ∀ {suf : Str} {i s : Nat} {d : Char}, escScan suf i = some (s, d) → RelOK suf i s (s + 2) := by
  intro suf
  induction suf with
  | nil => intro i s d h; simp [escScan] at h
  | cons c r ih =>
    intro i s d h
    cases r with
    | nil => simp [escScan] at h
    | cons d' r' =>
      simp only [escScan] at h
      split at h
      · next hc => cases h; exact ⟨0, '\\', rfl, by simp [hc], by decide, by omega⟩
      · exact (ih h).cons

theorem entityScan_ok : ∀ {suf : Str} {i s e : Nat}, entityScan suf i = some (s, e) → RelOK suf i s e := by
  intro suf
  induction suf with
  | nil => intro i s e h; simp [entityScan] at h
  | cons c r ih =>
    intro i s e h
    simp only [entityScan] at h
    split at h
    · next hc =>
      split at h
      · cases h; exact ⟨0, '&', rfl, by simp [hc], by decide, by omega⟩
      · exact (ih h).cons
    · exact (ih h).cons

theorem nsRun_ok {c : Char} {suf : Str} {k : Nat} (h : nsRun c suf = some k) : 0 < k ∧ suf.head? = some c := by
  unfold nsRun at h
  simp only at h
  split at h
  · cases h
  · next hk =>
    have hpos : 0 < countPrefix c (some 3) suf := by omega
    have hh := countPrefix_pos_head hpos
    split at h
    · cases h; exact ⟨hpos, hh⟩
    · split at h
      · cases h; exact ⟨hpos, hh⟩
      · cases h

def okPrev (prev : Option Char) : Bool := match prev with | none => true | some p => isSpace p

/-- the attempt of `NOT_STRONG_RE` at one position -/
def nsHere (prev : Option Char) (suf : Str) (i : Nat) : Option (Nat × Nat) :=
  if okPrev prev then
    match nsRun '*' suf with
    | some k => some (i, i + k)
    | none => (nsRun '_' suf).map (fun k => (i, i + k))
  else none

theorem nsScan_cons (prev : Option Char) (ch : Char) (r : Str) (i : Nat) :
    nsScan prev (ch :: r) i =
      match nsHere prev (ch :: r) i with
      | some x => some x
      | none => nsScan (some ch) r (i + 1) := by
  conv => lhs; unfold nsScan
  rfl

theorem nsHere_ok {prev : Option Char} {suf : Str} {i s e : Nat} (h : nsHere prev suf i = some (s, e)) :
    RelOK suf i s e := by
  unfold nsHere at h
  cases hok : okPrev prev with
  | false => simp [hok] at h
  | true =>
    simp only [hok, if_true] at h
    cases h1 : nsRun '*' suf with
    | some k =>
      simp only [h1] at h
      cases h
      have := nsRun_ok h1
      cases suf with
      | nil => simp at this
      | cons c r =>
        simp only [List.head?_cons, Option.some.injEq] at this
        exact ⟨0, '*', rfl, by simp [this.2], by decide, by omega⟩
    | none =>
      simp only [h1, Option.map_eq_some_iff] at h
      obtain ⟨k, hk, hke⟩ := h
      cases hke
      have := nsRun_ok hk
      cases suf with
      | nil => simp at this
      | cons c r =>
        simp only [List.head?_cons, Option.some.injEq] at this
        exact ⟨0, '_', rfl, by simp [this.2], by decide, by omega⟩

theorem nsScan_ok : ∀ {suf : Str} {prev : Option Char} {i s e : Nat},
    nsScan prev suf i = some (s, e) → RelOK suf i s e := by
  intro suf
  induction suf with
  | nil => intro prev i s e h; simp [nsScan] at h
  | cons ch r ih =>
    intro prev i s e h
    rw [nsScan_cons] at h
    split at h
    · next x hx => cases h; exact nsHere_ok hx
    · exact (ih h).cons

/-- from the text from `si` on back to the whole text -/
theorem RelOK.abs {data : Str} {si start stop : Nat} (h : RelOK (data.drop si) si start stop) :
    si ≤ start ∧ (∃ c, data[start]? = some c ∧ isTrig c = true) ∧ start < stop := by
  obtain ⟨j, c, h1, h2, h3, h4⟩ := h
  refine ⟨by omega, ⟨c, ?_, h3⟩, h4⟩
  rw [List.getElem?_drop] at h2
  rw [h1]; exact h2

/-! ### links, images, references -/

theorem getTextLoop_ok : ∀ (suf : Str) (bc index : Nat) (acc : Str),
    ∃ pre, pre <+: suf ∧ (getTextLoop suf bc index acc).1 = acc.reverse ++ pre ∧
      index ≤ (getTextLoop suf bc index acc).2.1 := by
  intro suf
  induction suf with
  | nil => intro bc index acc; exact ⟨[], List.prefix_refl _, by simp [getTextLoop], by simp [getTextLoop]⟩
  | cons c r ih =>
    intro bc index acc
    unfold getTextLoop
    extract_lets bc'
    split
    · exact ⟨[], List.nil_prefix, by simp, by simp⟩
    · obtain ⟨pre, h1, h2, h3⟩ := ih bc' (index + 1) (c :: acc)
      refine ⟨c :: pre, ?_, ?_, by omega⟩
      · exact List.cons_prefix_cons.2 ⟨rfl, h1⟩
      · rw [h2]; simp

theorem getText_ok (data : Str) (index : Nat) :
    tau (getText data index).1 ≤ tau (data.drop index) ∧ index ≤ (getText data index).2.1 := by
  obtain ⟨pre, h1, h2, h3⟩ := getTextLoop_ok (data.drop index) 1 index []
  simp only [getText]
  refine ⟨?_, h3⟩
  rw [h2]; simpa using tau_sublist h1.sublist

theorem evalId_ok {data : Str} {index : Nat} {text id : Str} {e : Nat}
    (h : evalId data index text = some (id, e)) : index < e := by
  unfold evalId at h
  simp only at h
  split at h
  · next c r hsuf =>
    split at h
    · split at h
      · split at h
        · cases h; omega
        · cases h
      · cases h
    · split at h
      · split at h
        · cases h; omega
        · cases h
      · cases h
  · cases h

/-- invariant of the bracket/quote automaton of `getLink` -/
def LinkInv (p : Nat) (s : LinkSt) : Prop := p ≤ s.index ∧ ∀ lb, s.lastBracket = some lb → p < lb

theorem linkStep_inv {p : Nat} {s : LinkSt} (c : Char) (h : LinkInv p s) :
    LinkInv p (linkStep s c) ∧ (linkStep s c).index = s.index := by
  obtain ⟨h1, h2⟩ := h
  simp only [linkStep]
  repeat' split
  all_goals first
    | exact ⟨⟨h1, h2⟩, rfl⟩
    | (refine ⟨⟨h1, ?_⟩, rfl⟩; intro lb hlb; simp only [Option.some.injEq] at hlb; omega)

theorem linkLoop_inv {data : Str} {p : Nat} : ∀ (suf : Str) (s : LinkSt), LinkInv p s →
    LinkInv p (linkLoop data p suf s).1 := by
  intro suf
  induction suf with
  | nil => intro s h; simpa [linkLoop] using h
  | cons c r ih =>
    intro s h
    obtain ⟨⟨h1, h2⟩, h3⟩ := linkStep_inv c h
    simp only [linkLoop]
    split
    · exact ⟨by simp only; omega, h2⟩
    · apply ih
      split
      · exact ⟨by simp only; omega, h2⟩
      · exact ⟨by simp only; omega, h2⟩

theorem linkAngle_ok {data : Str} {p : Nat} {g1 : Str} {g2 : Option Str} {e : Nat}
    (h : linkAngle data p = some (g1, g2, e)) : p < e := by
  unfold linkAngle at h
  split at h
  · simp only at h
    split at h
    · split at h
      · split at h
        · split at h
          · split at h
            · cases h; omega
            · cases h
          · cases h
        · split at h
          · cases h; omega
          · cases h
      · cases h
    · cases h
  · cases h

/-- the index `getLink` answers: at or after the `(`, or `-1` with the `(` inside the text -/
theorem getLinkRaw_ok {data : Str} {index : Nat} {href : Str} {title : Option Str} {idx : Int}
    (h : getLinkRaw data index = (href, title, idx, true)) :
    index < data.length ∧ ((index : Int) < idx ∨ idx = -1) := by
  unfold getLinkRaw at h
  split at h
  · simp at h
  · next hpar =>
    have hlt : index < data.length := by
      rcases Nat.lt_or_ge index data.length with h' | h'
      · exact h'
      · rw [List.getElem?_eq_none h'] at hpar; simp at hpar
    refine ⟨hlt, ?_⟩
    simp only at h
    split at h
    · next g1 g2 e ha =>
      have := linkAngle_ok ha
      simp only [Prod.mk.injEq] at h
      left; omega
    · have hinv := linkLoop_inv (data := data) (p := index + 1 + spanLen isSpace (data.drop (index + 1)))
        (data.drop (index + 1 + spanLen isSpace (data.drop (index + 1))))
        { index := index + 1 + spanLen isSpace (data.drop (index + 1)) } ⟨Nat.le_refl _, by intro lb hlb; cases hlb⟩
      revert h
      generalize linkLoop data _ _ _ = res at hinv
      obtain ⟨s, res⟩ := res
      obtain ⟨hi1, hi2⟩ := hinv
      simp only at hi1 hi2 ⊢
      intro h
      split at h
      · split at h
        · next lb hlb =>
          simp only [Prod.mk.injEq] at h
          have := hi2 lb hlb
          left; omega
        · simp only [Prod.mk.injEq] at h
          right; omega
      · simp only [Prod.mk.injEq] at h
        left; omega

/-- what the loop needs to know about a match -/
structure FoundOK (data : Str) (si : Nat) (f : Found) : Prop where
  le : si ≤ f.start
  trig : ∃ c, data[f.start]? = some c ∧ isTrig c = true
  stop : f.start < pyIdx data.length f.stop
  nonneg : f.node = PNode.none → 0 ≤ f.stop
  small : ∀ n, f.node = PNode.el n →
    (n.text.isSome && n.textAtomic) = true ∨ ∃ k, k < tau data ∧ Shallow k n

theorem FoundOK.mk' {data : Str} {si : Nat} {node : PNode} {start : Nat} {stop : Int} (le : si ≤ start)
    (trig : ∃ c, data[start]? = some c ∧ isTrig c = true) (hstop : start < pyIdx data.length stop)
    (nonneg : node = PNode.none → 0 ≤ stop)
    (small : ∀ n, node = PNode.el n → (n.text.isSome && n.textAtomic) = true ∨ ∃ k, k < tau data ∧ Shallow k n) :
    FoundOK data si ⟨node, start, stop⟩ := ⟨le, trig, hstop, nonneg, small⟩

theorem shallow_setAttr {Q : Str → Prop} {n : Node} (a b : Str) (h : ShallowQ Q n) : ShallowQ Q (n.setAttr a b) := by
  unfold Node.setAttr
  split <;> exact h

theorem shallow_text {Q : Str → Prop} {tag : String} {text : Str} (h : Q text) :
    ShallowQ Q { mkEl tag with text := some text } :=
  ⟨⟨optQ_some h, optQ_none Q⟩, by intro c hc; cases hc⟩

theorem shallow_with_text {Q : Str → Prop} {n : Node} {text : Str} (h : ShallowQ Q n) (ht : Q text) :
    ShallowQ Q { n with text := some text } :=
  ⟨⟨optQ_some ht, h.1.2⟩, h.2⟩

theorem tau_drop_lt {data : Str} {i j : Nat} {c : Char} (h : data[i]? = some c) (hc : isTrig c = true)
    (hij : i < j) : tau (data.drop j) < tau data := by
  have h1 := tau_drop_succ h hc
  have h2 := tau_drop_mono data (show i + 1 ≤ j by omega)
  have h3 := tau_drop_le data i
  omega

theorem pyIdx_gt {n start : Nat} {idx : Int} {index : Nat} (hs : start < index) (hn : index < n)
    (h : (index : Int) < idx ∨ idx = -1) : start < pyIdx n idx := by
  unfold pyIdx
  rcases h with h | h
  · have : ¬ idx < 0 := by omega
    simp only [this, if_false]
    have : index < idx.toNat := by omega
    omega
  · subst h
    simp only [show ((-1 : Int) < 0) by decide, if_true]
    omega

theorem pyIdx_nat_gt {n start e : Nat} (hs : start < e) (hn : start < n) : start < pyIdx n (e : Int) := by
  unfold pyIdx
  have : ¬ (e : Int) < 0 := by omega
  simp only [this, if_false, Int.toNat_natCast]
  omega

theorem linkHandle_ok {cfg : Cfg} {stash : List StashItem} {pi : Nat} {data : Str} {mstart mend : Nat} {f : Found}
    {c : Char} (hc : data[mstart]? = some c) (ht : isTrig c = true) (hm : mstart < mend)
    (h : linkHandle cfg stash pi data mstart mend = some f) : FoundOK data mstart f := by
  have hn : mstart < data.length := by
    rcases Nat.lt_or_ge mstart data.length with h' | h'
    · exact h'
    · rw [List.getElem?_eq_none h'] at hc; cases hc
  have hgt := getText_ok data mend
  unfold linkHandle at h
  revert h hgt
  generalize getText data mend = r
  obtain ⟨text, index, handled⟩ := r
  simp only
  intro h hgt
  have hk : tau (data.drop mend) < tau data := tau_drop_lt hc ht hm
  have hsmall : ∀ tag, Shallow (tau (data.drop mend)) { mkEl tag with text := some text } :=
    fun tag => shallow_text hgt.1
  split at h
  · cases h
  · split at h
    · -- inline link / image
      revert h
      generalize hgl : getLink (unescape stash) data index = gl
      obtain ⟨href, title, idx, ok⟩ := gl
      simp only
      intro h
      split at h
      · cases h
      · next hok =>
        have hok' : ok = true := by simpa using hok
        subst hok'
        have hraw : ∃ h0 t0, getLinkRaw data index = (h0, t0, idx, true) := by
          unfold getLink at hgl
          revert hgl
          generalize getLinkRaw data index = raw
          obtain ⟨h0, t0, i0, k0⟩ := raw
          simp only [Prod.mk.injEq]
          intro hgl
          exact ⟨h0, t0, rfl, rfl, hgl.2.2.1, hgl.2.2.2⟩
        obtain ⟨h0, t0, hraw⟩ := hraw
        have hidx := getLinkRaw_ok hraw
        cases h
        refine FoundOK.mk' (Nat.le_refl _) ⟨c, hc, ht⟩ (pyIdx_gt (by omega) hidx.1 hidx.2) (by intro h; cases h) ?_
        intro n hn'
        right
        refine ⟨_, hk, ?_⟩
        simp only [PNode.el.injEq] at hn'
        subst hn'
        split
        · split
          · exact shallow_setAttr _ _ (shallow_setAttr _ _ (shallow_setAttr _ _ (shallow_mkEl _ _)))
          · exact shallow_setAttr _ _ (shallow_setAttr _ _ (shallow_mkEl _ _))
        · split
          · exact shallow_setAttr _ _ (shallow_setAttr _ _ (hsmall _))
          · exact shallow_setAttr _ _ (hsmall _)
    · -- references
      split at h
      · cases h
      · next id e2 hr =>
        have he2 : index ≤ e2 := by
          split at hr
          · simp only [Option.some.injEq, Prod.mk.injEq] at hr; omega
          · have := evalId_ok hr; omega
        split at h
        · cases h
          exact FoundOK.mk' (Nat.le_refl _) ⟨c, hc, ht⟩ (pyIdx_nat_gt (by omega) hn) (by intro _; omega)
            (by intro n hn'; cases hn')
        · cases h
          refine FoundOK.mk' (Nat.le_refl _) ⟨c, hc, ht⟩ (pyIdx_nat_gt (by omega) hn) (by intro h; cases h) ?_
          intro n hn'
          right
          refine ⟨_, hk, ?_⟩
          simp only [PNode.el.injEq] at hn'
          subst hn'
          split
          · split
            · exact shallow_setAttr _ _ (shallow_setAttr _ _ (shallow_setAttr _ _ (shallow_mkEl _ _)))
            · exact shallow_setAttr _ _ (shallow_setAttr _ _ (shallow_mkEl _ _))
          · split
            · exact shallow_with_text (shallow_setAttr _ _ (shallow_setAttr _ _ (shallow_mkEl _ _))) hgt.1
            · exact shallow_with_text (shallow_setAttr _ _ (shallow_mkEl _ _)) hgt.1

theorem FoundOK.weaken {data : Str} {si si' : Nat} {f : Found} (h : FoundOK data si f) (hle : si' ≤ si) :
    FoundOK data si' f := ⟨Nat.le_trans hle h.le, h.trig, h.stop, h.nonneg, h.small⟩

theorem drop_eq_cons {data : Str} {i : Nat} {ch : Char} {r : Str} (h : ch :: r = data.drop i) :
    data[i]? = some ch ∧ r = data.drop (i + 1) := by
  have hi : i < data.length := by
    rcases Nat.lt_or_ge i data.length with h' | h'
    · exact h'
    · rw [List.drop_eq_nil_of_le h'] at h; cases h
  rw [List.drop_eq_getElem_cons hi] at h
  simp only [List.cons.injEq] at h
  exact ⟨by rw [List.getElem?_eq_getElem hi, h.1], h.2⟩

/-- the attempt of a link / image pattern at one position -/
def linkHere (cfg : Cfg) (stash : List StashItem) (pi : Nat) (data : Str) (prev : Option Char) (ch : Char)
    (r : Str) (i : Nat) : Option Found :=
  if pi = 4 || pi = 5 || pi = 7 then
    (if ch = '!' && r.head? == some '[' then linkHandle cfg stash pi data i (i + 2) else none)
  else
    (if ch = '[' && prev != some '!' then linkHandle cfg stash pi data i (i + 1) else none)

theorem linkScan_cons (cfg : Cfg) (stash : List StashItem) (pi : Nat) (data : Str) (prev : Option Char)
    (ch : Char) (r : Str) (i : Nat) :
    linkScan cfg stash pi data prev (ch :: r) i =
      match linkHere cfg stash pi data prev ch r i with
      | some f => some f
      | none => linkScan cfg stash pi data (some ch) r (i + 1) := by
  conv => lhs; unfold linkScan
  rfl

theorem linkScan_ok {cfg : Cfg} {stash : List StashItem} {pi : Nat} {data : Str} :
    ∀ {suf : Str} {prev : Option Char} {i : Nat} {f : Found}, suf = data.drop i →
      linkScan cfg stash pi data prev suf i = some f → FoundOK data i f := by
  intro suf
  induction suf with
  | nil => intro prev i f _ h; simp [linkScan] at h
  | cons ch r ih =>
    intro prev i f hsuf h
    obtain ⟨hch, hr⟩ := drop_eq_cons hsuf
    rw [linkScan_cons] at h
    split at h
    · next f' hf' =>
      cases h
      unfold linkHere at hf'
      split at hf'
      · split at hf'
        · next hc =>
          simp only [Bool.and_eq_true, decide_eq_true_eq] at hc
          exact linkHandle_ok (c := '!') (by rw [hch, hc.1]) (by decide) (by omega) hf'
        · cases hf'
      · split at hf'
        · next hc =>
          simp only [Bool.and_eq_true, decide_eq_true_eq] at hc
          exact linkHandle_ok (c := '[') (by rw [hch, hc.1]) (by decide) (by omega) hf'
        · cases hf'
    · exact (ih hr h).weaken (by omega)

/-! ### emphasis -/

theorem tau_pos_of_trig {data : Str} {i : Nat} {c : Char} (h : data[i]? = some c) (hc : isTrig c = true) :
    0 < tau data := by
  have := tau_drop_lt h hc (Nat.lt_succ_self i); omega

theorem emHandle_ok {data : Str} {i : Nat} {c : Char} (hd : data[i]? = some c) (hc : isTrig c = true) :
    ∀ (items : List EmItem) (idx : Nat), (∀ it ∈ items, 1 ≤ litSum it.steps) →
      ∃ r, emHandle data i c items idx = some r ∧
        ∀ el e, r = some (el, e) → i < e ∧ Shallow (tau data - 1) el := by
  intro items
  induction items with
  | nil => intro idx _; exact ⟨none, rfl, by intro el e h; cases h⟩
  | cons item rest ih =>
    intro idx hl
    unfold emHandle
    split
    · next e groups hm =>
      have hlen := seqMatch_len hm
      have htau := seqMatch_tau hc hm
      have h1 := hl item (List.mem_cons_self ..)
      have hgroups : ∀ g ∈ groups, g.length < data.length + 2 ∧ tau g ≤ tau data - 1 := by
        intro g hg
        have a := hlen.2.2.2 g hg
        have b := htau g hg
        exact ⟨by omega, by omega⟩
      obtain ⟨el, hel, hsh⟩ := build_ok hc (tau data - 1) (data.length + 2) groups item idx (by omega) hgroups
      rw [hel]
      refine ⟨_, rfl, ?_⟩
      intro el' e' h
      simp only [Option.some.injEq, Prod.mk.injEq] at h
      obtain ⟨rfl, rfl⟩ := h
      exact ⟨by omega, hsh⟩
    · exact ih _ (fun it h => hl it (List.mem_cons_of_mem _ h))

theorem emScan_ok {data : Str} {c : Char} (hc : isTrig c = true) :
    ∀ (suf : Str) (i : Nat), suf = data.drop i →
      ∃ r, emScan data c suf i = some r ∧
        ∀ el s e, r = some (el, s, e) → FoundOK data i ⟨.el el, s, e⟩ := by
  intro suf
  induction suf with
  | nil => intro i _; exact ⟨none, rfl, by intro el s e h; cases h⟩
  | cons ch r ih =>
    intro i hsuf
    obtain ⟨hch, hr⟩ := drop_eq_cons hsuf
    obtain ⟨r', hr', hspec⟩ := ih (i + 1) hr
    unfold emScan
    split
    · next hcc =>
      subst hcc
      obtain ⟨x, hx, hxs⟩ := emHandle_ok hch hc (emPatterns ch) 0 (emPatterns_litSum ch)
      rw [hx]
      cases x with
      | none =>
        simp only
        refine ⟨r', hr', ?_⟩
        intro el s e h
        exact (hspec el s e h).weaken (by omega)
      | some p =>
        obtain ⟨el, e⟩ := p
        simp only
        refine ⟨_, rfl, ?_⟩
        intro el' s' e' h
        simp only [Option.some.injEq, Prod.mk.injEq] at h
        obtain ⟨rfl, rfl, rfl⟩ := h
        have := hxs el e rfl
        have hn : i < data.length := by
          rcases Nat.lt_or_ge i data.length with h' | h'
          · exact h'
          · rw [List.getElem?_eq_none h'] at hch; cases hch
        refine FoundOK.mk' (Nat.le_refl _) ⟨ch, hch, hc⟩ (pyIdx_nat_gt this.1 hn) (by intro h; cases h) ?_
        intro n hn'
        simp only [PNode.el.injEq] at hn'
        subst hn'
        exact Or.inr ⟨_, by have := tau_pos_of_trig hch hc; omega, this.2⟩
    · refine ⟨r', hr', ?_⟩
      intro el s e h
      exact (hspec el s e h).weaken (by omega)

/-! ### `findMatch`: all 16 patterns -/

theorem foundOK_of_rel {data : Str} {si start stop : Nat} {node : PNode}
    (h : RelOK (data.drop si) si start stop)
    (small : ∀ n, node = PNode.el n → (n.text.isSome && n.textAtomic) = true ∨ ∀ k, Shallow k n) :
    FoundOK data si ⟨node, start, (stop : Int)⟩ := by
  obtain ⟨hle, ⟨c, hc, ht⟩, hlt⟩ := h.abs
  have hn : start < data.length := by
    rcases Nat.lt_or_ge start data.length with h' | h'
    · exact h'
    · rw [List.getElem?_eq_none h'] at hc; cases hc
  refine FoundOK.mk' hle ⟨c, hc, ht⟩ (pyIdx_nat_gt hlt hn) (by intro _; omega) ?_
  intro n hn'
  rcases small n hn' with h | h
  · exact Or.inl h
  · exact Or.inr ⟨tau data - 1, by have := tau_pos_of_trig hc ht; omega, h _⟩

theorem no_el_str {s : Str} : ∀ n, PNode.str s = PNode.el n →
    (n.text.isSome && n.textAtomic) = true ∨ ∀ k, Shallow k n := by intro n h; cases h

theorem no_el_none : ∀ n, PNode.none = PNode.el n →
    (n.text.isSome && n.textAtomic) = true ∨ ∀ k, Shallow k n := by intro n h; cases h

theorem findMatch_ok (cfg : Cfg) (pi : Nat) (data : Str) (si : Nat) (st : St) :
    ∃ r st', findMatch cfg pi data si st = some (r, st') ∧ ∀ f, r = some f → FoundOK data si f := by
  unfold findMatch
  simp only
  split
  · exact ⟨none, st, rfl, by intro f h; cases h⟩
  · next hsi =>
    split
    · -- backtick
      split
      · next m hm =>
        have hrel : RelOK (data.drop si) si m.start m.stop := by
          unfold btFind at hm
          rw [if_neg hsi] at hm
          exact btScan_ok hm
        split
        · refine ⟨_, _, rfl, ?_⟩
          intro f h; cases h
          exact foundOK_of_rel hrel (by intro n h; cases h; exact Or.inl rfl)
        · refine ⟨_, _, rfl, ?_⟩
          intro f h; cases h
          exact foundOK_of_rel hrel no_el_str
      · exact ⟨none, st, rfl, by intro f h; cases h⟩
    · -- escape
      split
      · next i ch hm =>
        refine ⟨_, _, rfl, ?_⟩
        intro f h; cases h
        have := foundOK_of_rel (node := if cfg.esc.contains ch = true then PNode.str (STX :: natToDec ch.toNat ++ [ETX]) else PNode.none)
          (escScan_ok hm) (by intro n h; split at h <;> cases h)
        simpa using this
      · exact ⟨none, st, rfl, by intro f h; cases h⟩
    · -- linebreak
      split
      · next off hm =>
        refine ⟨_, _, rfl, ?_⟩
        intro f h; cases h
        have hrel : RelOK (data.drop si) si (si + off) (si + off + 3) := by
          obtain ⟨pre, post, h1, h2, _⟩ := find_some_iff.1 hm
          refine ⟨off, ' ', rfl, ?_, by decide, by omega⟩
          rw [h1, ← h2]; simp
        have := foundOK_of_rel (node := PNode.el (mkEl "br")) hrel
          (by intro n h; cases h; exact Or.inr (fun k => shallow_mkEl k _))
        simpa using this
      · exact ⟨none, st, rfl, by intro f h; cases h⟩
    · -- entity
      split
      · next s e hm =>
        refine ⟨_, _, rfl, ?_⟩
        intro f h; cases h
        have hrel : RelOK (data.drop si) si s e := by
          unfold entityFind at hm
          rw [if_neg hsi] at hm
          exact entityScan_ok hm
        exact foundOK_of_rel hrel no_el_str
      · exact ⟨none, st, rfl, by intro f h; cases h⟩
    · -- not_strong
      split
      · next s e hm =>
        refine ⟨_, _, rfl, ?_⟩
        intro f h; cases h
        have hrel : RelOK (data.drop si) si s e := by
          unfold nsFind at hm
          rw [if_neg hsi] at hm
          exact nsScan_ok hm
        exact foundOK_of_rel hrel no_el_str
      · exact ⟨none, st, rfl, by intro f h; cases h⟩
    · -- em_strong
      obtain ⟨r, hr, hspec⟩ := emScan_ok (data := data) (c := '*') (by decide) (data.drop si) si rfl
      simp only [↓reduceIte]
      rw [hr]
      cases r with
      | none => exact ⟨none, st, rfl, by intro f h; cases h⟩
      | some p =>
        obtain ⟨el, s, e⟩ := p
        refine ⟨_, _, rfl, ?_⟩
        intro f h; cases h
        exact hspec el s e rfl
    · -- em_strong2
      obtain ⟨r, hr, hspec⟩ := emScan_ok (data := data) (c := '_') (by decide) (data.drop si) si rfl
      simp only [Nat.reduceEqDiff, ↓reduceIte]
      rw [hr]
      cases r with
      | none => exact ⟨none, st, rfl, by intro f h; cases h⟩
      | some p =>
        obtain ⟨el, s, e⟩ := p
        refine ⟨_, _, rfl, ?_⟩
        intro f h; cases h
        exact hspec el s e rfl
    · exact ⟨none, st, rfl, by intro f h; cases h⟩
    · exact ⟨none, st, rfl, by intro f h; cases h⟩
    · exact ⟨none, st, rfl, by intro f h; cases h⟩
    · split
      · refine ⟨_, _, rfl, ?_⟩
        intro f h
        exact linkScan_ok rfl h
      · exact ⟨none, st, rfl, by intro f h; cases h⟩

/-! ### `__applyPattern` and `__handleInline` -/

/-- the nested `__handleInline` answers on every text with fewer than `T` triggers -/
def HiOK (hi : HI) (T : Nat) : Prop := ∀ t pi st, tau t < T → (hi t pi st).isSome = true

theorem hiOpt_ok {hi : HI} {T k : Nat} (hhi : HiOK hi T) (hk : k < T) {t : Option Str} (ht : optLe k t)
    (atomic : Bool) (pi : Nat) (st : St) : ∃ r st', hiOpt hi t atomic pi st = some (r, st') := by
  unfold hiOpt
  split
  · next hc =>
    cases t with
    | none => simp [Node.truthy] at hc
    | some x =>
      have := hhi x pi st (by have := ht x rfl; omega)
      simp only [Option.getD_some]
      cases hx : hi x pi st with
      | none => rw [hx] at this; cases this
      | some p => exact ⟨_, _, rfl⟩
  · exact ⟨_, _, rfl⟩

theorem hiNode_ok {hi : HI} {T k : Nat} (hhi : HiOK hi T) (hk : k < T) {n : Node} (hn : Top k n)
    (pi : Nat) (st : St) : ∃ n' st', hiNode hi pi n st = some (n', st') := by
  unfold hiNode
  obtain ⟨t, st1, h1⟩ := hiOpt_ok hhi hk hn.1 n.textAtomic (pi + 1) st
  rw [h1]
  obtain ⟨tl, st2, h2⟩ := hiOpt_ok hhi hk hn.2 n.tailAtomic pi st1
  simp only [h2]
  exact ⟨_, _, rfl⟩

theorem hiNodes_ok {hi : HI} {T k : Nat} (hhi : HiOK hi T) (hk : k < T) (pi : Nat) :
    ∀ (l : List Node) (st : St), (∀ c ∈ l, Top k c) → ∃ l' st', hiNodes hi pi l st = some (l', st') := by
  intro l
  induction l with
  | nil => intro st _; exact ⟨_, _, rfl⟩
  | cons n r ih =>
    intro st hl
    unfold hiNodes
    obtain ⟨n', st1, h1⟩ := hiNode_ok hhi hk (hl n (List.mem_cons_self ..)) pi st
    rw [h1]
    obtain ⟨r', st2, h2⟩ := ih st1 (fun c hc => hl c (List.mem_cons_of_mem _ hc))
    simp only [h2]
    exact ⟨_, _, rfl⟩

theorem tau_replaced {data : Str} {start : Nat} {stop : Int} {k : Nat}
    (htrig : ∃ c, data[start]? = some c ∧ isTrig c = true) (hstop : start < pyIdx data.length stop) :
    tau (data.take start ++ placeholder k ++ pyDrop data stop) < tau data := by
  obtain ⟨c, hc, ht⟩ := htrig
  have := tau_cut hc ht hstop
  simp only [tau_append, tau_placeholder, pyDrop]
  omega

theorem applyPattern_ok (cfg : Cfg) {hi : HI} {T0 : Nat} (hhi : HiOK hi T0) : ApOK (applyPattern cfg hi) T0 := by
  intro pi data si st hT
  obtain ⟨r, st', hfm, hspec⟩ := findMatch_ok cfg pi data si st
  unfold applyPattern
  rw [hfm]
  cases r with
  | none => exact ⟨_, _, _, _, rfl, Or.inl ⟨rfl, rfl, rfl⟩⟩
  | some f =>
    have hf := hspec f rfl
    simp only
    cases hnode : f.node with
    | none =>
      simp only
      refine ⟨_, _, _, _, rfl, Or.inr (Or.inl ⟨rfl, rfl, ?_⟩)⟩
      have h0 := hf.nonneg hnode
      have hs := hf.stop
      obtain ⟨c, hc, ht⟩ := hf.trig
      have hlt : f.start < f.stop.toNat := by
        unfold pyIdx at hs
        have : ¬ f.stop < 0 := by omega
        simp only [this, if_false] at hs
        omega
      have h1 := tau_drop_succ hc ht
      have h2 := tau_drop_mono data (show f.start + 1 ≤ f.stop.toNat by omega)
      have h3 := tau_drop_mono data hf.le
      omega
    | str s =>
      simp only [stashNode]
      exact ⟨_, _, _, _, rfl, Or.inr (Or.inr ⟨rfl, rfl, tau_replaced hf.trig hf.stop⟩)⟩
    | el n =>
      simp only
      split
      · next heq =>
        exfalso
        split at heq
        · cases heq
        · next hat =>
          rcases hf.small n hnode with h | ⟨k, hk, hsh⟩
          · exact absurd h hat
          · obtain ⟨n1, st1, h1⟩ := hiNode_ok hhi (show k < T0 by omega) (n := { n with children := [] }) hsh.1 pi st'
            rw [h1] at heq
            obtain ⟨kids, st2, h2⟩ := hiNodes_ok hhi (show k < T0 by omega) pi n.children st1 hsh.2
            simp only [h2] at heq
            cases heq
      · simp only [stashNode]
        exact ⟨_, _, _, _, rfl, Or.inr (Or.inr ⟨rfl, rfl, tau_replaced hf.trig hf.stop⟩)⟩

/-- `__handleInline` answers whenever its depth fuel exceeds the number of triggers of the text -/
theorem handleInline_total (cfg : Cfg) : ∀ (f : Nat) (data : Str) (pi : Nat) (st : St), tau data < f →
    (handleInline cfg f data pi st).isSome = true := by
  intro f
  induction f with
  | zero => intro data pi st h; omega
  | succ f ih =>
    intro data pi st hf
    unfold handleInline
    have hhi : HiOK (fun d p s => handleInline cfg f d p s) (tau data) := by
      intro t pi' st' ht
      exact ih t pi' st' (by omega)
    exact hiLoop_total (applyPattern_ok cfg hhi) _ data pi 0 st (Nat.le_refl _) (pot_lt_loopFuel data pi)

theorem handleInlineTop_total (cfg : Cfg) (data : Str) (st : St) : (handleInlineTop cfg data st).isSome = true := by
  unfold handleInlineTop depthFuel
  exact handleInline_total cfg _ data 0 st (by have := tau_le_length data; omega)

end MdVerif.Inline

/-! ## `__processPlaceholders`: recursion through the stash -/
namespace MdVerif.Inline
open Py

/-- the attempt of `INLINE_PLACEHOLDER_RE` at the start of `suf` -/
def phHere (suf : Str) : Option (Str × Nat) :=
  match suf with
  | [] => none
  | c :: r => if c = STX && startsWith (c :: r) phPrefix then phAt ((c :: r).drop phPrefixLen) else none

/-- the ids of all well-formed inline placeholders of the text -/
def idsOf : Str → List Str
  | [] => []
  | c :: r => (match phHere (c :: r) with | some (id, _) => [id] | none => []) ++ idsOf r

theorem idsOf_drop_subset (s : Str) (k : Nat) : ∀ id ∈ idsOf (s.drop k), id ∈ idsOf s := by
  induction k generalizing s with
  | zero => intro d h; simpa using h
  | succ k ih =>
    intro d h
    cases s with
    | nil => simpa using h
    | cons c r =>
      simp only [List.drop_succ_cons] at h
      simp only [idsOf, List.mem_append]
      exact Or.inr (ih r d h)

theorem findPhScan_cons (c : Char) (r : Str) (i : Nat) :
    findPhScan (c :: r) i =
      match (match phHere (c :: r) with | some (id, l) => some (id, i + phPrefixLen + l) | none => none) with
      | some x => some x
      | none => findPhScan r (i + 1) := by
  conv => lhs; unfold findPhScan
  simp only [phHere]
  by_cases hc : (decide (c = STX) && startsWith (c :: r) phPrefix) = true
  · simp only [hc, if_true]
    cases phAt (List.drop phPrefixLen (c :: r)) with
    | none => rfl
    | some p => rfl
  · simp only [hc]; rfl

theorem findPhScan_ok : ∀ {suf : Str} {i : Nat} {id : Str} {e : Nat}, findPhScan suf i = some (id, e) →
    id ∈ idsOf suf ∧ i + phPrefixLen < e := by
  intro suf
  induction suf with
  | nil => intro i id e h; simp [findPhScan] at h
  | cons c r ih =>
    intro i id e h
    rw [findPhScan_cons] at h
    cases hh : phHere (c :: r) with
    | none =>
      simp only [hh] at h
      obtain ⟨h1, h2⟩ := ih h
      exact ⟨by simp only [idsOf, List.mem_append]; exact Or.inr h1, by omega⟩
    | some p =>
      obtain ⟨id', l⟩ := p
      simp only [hh, Option.some.injEq, Prod.mk.injEq] at h
      obtain ⟨rfl, rfl⟩ := h
      refine ⟨by simp [idsOf, hh], ?_⟩
      -- `l` counts at least the closing `ETX`
      simp only [phHere] at hh
      split at hh
      · simp only [phAt] at hh
        split at hh
        · cases hh; omega
        · cases hh
      · cases hh

theorem findPh_ok {data : Str} {index : Nat} {id : Str} {e : Nat} (h : findPh data index = (some id, e)) :
    id ∈ idsOf data ∧ index + phPrefixLen < e := by
  unfold findPh at h
  split at h
  · next id' e' hm =>
    simp only [Prod.mk.injEq, Option.some.injEq] at h
    obtain ⟨rfl, rfl⟩ := h
    split at hm
    · cases hm
    · obtain ⟨h1, h2⟩ := findPhScan_ok hm
      exact ⟨idsOf_drop_subset _ _ _ h1, h2⟩
  · simp at h

/-- the id is spelt the way `'%04d'` spells it -/
def canon (id : Str) : Bool := pad4 (decToNat id) == id

theorem stashGet_some {stash : List StashItem} {id : Str} {it : StashItem} (h : stashGet stash id = some it) :
    canon id = true ∧ stash[decToNat id]? = some it := by
  unfold stashGet at h
  simp only at h
  split at h
  · next hc => exact ⟨by simp [canon, hc], h⟩
  · cases h

/-- the strings of a stashed element in which `__processPlaceholders` looks for placeholders -/
def nodeStrings (n : Node) : List Str :=
  n.text.getD [] :: n.tail.getD [] :: n.children.flatMap (fun c => [c.text.getD [], c.tail.getD []])

/-- **ids increase**: an element in the stash only contains (well-formed, canonically spelt) placeholders of
    entries made before it -/
def StashOK (stash : List StashItem) : Prop :=
  ∀ i n, stash[i]? = some (StashItem.node n) → ∀ s ∈ nodeStrings n, ∀ id ∈ idsOf s, canon id = true → decToNat id < i

/-- `linkText` leaves the other string of the parent alone -/
theorem linkText_parent (text : Str) (atomic isText : Bool) (result : List Node) (parent : Node) :
    (isText = false → (linkText text atomic isText result parent).2.text = parent.text) ∧
    (isText = true → (linkText text atomic isText result parent).2.tail = parent.tail) ∧
    (linkText text atomic isText result parent).2.children = parent.children := by
  unfold linkText
  split
  · exact ⟨fun _ => rfl, fun _ => rfl, rfl⟩
  · split
    · split <;> exact ⟨fun _ => rfl, fun _ => rfl, rfl⟩
    · split
      · split <;> exact ⟨fun _ => rfl, by intro h; simp_all, rfl⟩
      · split <;> exact ⟨by intro h; simp_all, fun _ => rfl, rfl⟩

/-- what `ppLoop` preserves of the parent -/
def SameSide (isText : Bool) (p p' : Node) : Prop :=
  (isText = false → p'.text = p.text) ∧ (isText = true → p'.tail = p.tail) ∧ p'.children = p.children

theorem SameSide.refl (isText : Bool) (p : Node) : SameSide isText p p := ⟨fun _ => rfl, fun _ => rfl, rfl⟩

theorem SameSide.linkText {isText : Bool} {p p' : Node} (h : SameSide isText p p') (text : Str) (atomic : Bool)
    (result : List Node) : SameSide isText p (linkText text atomic isText result p').2 := by
  obtain ⟨h1, h2, h3⟩ := linkText_parent text atomic isText result p'
  exact ⟨fun e => (h1 e).trans (h.1 e), fun e => (h2 e).trans (h.2.1 e), h3.trans h.2.2⟩

theorem ppLoop_total {stash : List StashItem} {nested : Node → Option Node} {data : Str} {atomic isText : Bool}
    (hn : ∀ id ∈ idsOf data, ∀ n, stashGet stash id = some (StashItem.node n) → (nested n).isSome = true)
    (p0 : Node) :
    ∀ (g start : Nat) (result : List Node) (parent : Node), data.length - start < g → SameSide isText p0 parent →
      ∃ res p', ppLoop stash nested data atomic isText g start result parent = some (res, p') ∧
        SameSide isText p0 p' := by
  intro g
  induction g with
  | zero => intro start result parent h; omega
  | succ g ih =>
    intro start result parent hg hs
    unfold ppLoop
    split
    · next off hfind =>
      have hstart : ¬ start > data.length := by
        intro h; rw [if_pos h] at hfind; cases hfind
      rw [if_neg hstart] at hfind
      have hle := find_le_length hfind
      simp only [List.length_drop] at hle
      have hpl : phPrefix.length = phPrefixLen := rfl
      simp only
      cases hfp : findPh data (start + off) with
      | mk idopt phEnd =>
        simp only
        cases hget : idopt.bind (stashGet stash) with
        | none =>
          simp only
          exact ih _ _ _ (by rw [hpl] at hle; simp only [phPrefixLen] at hle ⊢; omega) (hs.linkText _ _ _)
        | some item =>
          simp only
          cases idopt with
          | none => simp at hget
          | some id =>
            simp only [Option.bind_some] at hget
            obtain ⟨hmem, hend⟩ := findPh_ok hfp
            have hs' : SameSide isText p0
                (if start + off > 0 then linkText (slice data start (start + off)) false isText result parent
                 else (result, parent)).2 := by
              split
              · exact hs.linkText _ _ _
              · exact hs
            cases item with
            | node n =>
              simp only
              have := hn id hmem n hget
              cases hnn : nested n with
              | none => rw [hnn] at this; cases this
              | some n' =>
                simp only
                exact ih _ _ _ (by rw [hpl] at hle; simp only [phPrefixLen] at hle hend; omega) hs'
            | str x =>
              simp only
              exact ih _ _ _ (by rw [hpl] at hle; simp only [phPrefixLen] at hle hend; omega) (hs'.linkText _ _ _)
    · exact ⟨_, _, rfl, hs.linkText _ _ _⟩

/-- `pp` answers on the strings of `S`, whatever the parent, and leaves the parent's other string alone -/
def PPok (pp : PP) (S : List Str) : Prop :=
  ∀ s ∈ S, ∀ atomic parent isText, ∃ res p', pp s atomic parent isText = some (res, p') ∧ SameSide isText parent p'

theorem petTail_ok {pp : PP} {c : Node} (h : PPok pp [c.tail.getD []]) :
    ∃ c' res, petTail pp c = some (c', res) ∧ c'.text = c.text ∧ c'.children = c.children := by
  unfold petTail
  split
  · obtain ⟨res, p', hp, hs⟩ := h _ (List.mem_singleton.2 rfl) c.tailAtomic { c with tail := none, tailAtomic := false } false
    rw [hp]
    exact ⟨_, _, rfl, hs.1 rfl, hs.2.2⟩
  · exact ⟨_, _, rfl, rfl, rfl⟩

theorem petText_ok {pp : PP} {c : Node} (h : PPok pp [c.text.getD []]) : ∃ c', petText pp c = some c' := by
  unfold petText
  split
  · obtain ⟨res, p', hp, _⟩ := h _ (List.mem_singleton.2 rfl) c.textAtomic { c with text := none, textAtomic := false } true
    rw [hp]
    exact ⟨_, rfl⟩
  · exact ⟨_, rfl⟩

theorem procKids_ok {pp : PP} : ∀ (kids : List Node),
    PPok pp (kids.flatMap (fun c => [c.text.getD [], c.tail.getD []])) → ∃ r, procKids pp kids = some r := by
  intro kids
  induction kids with
  | nil => intro _; exact ⟨_, rfl⟩
  | cons c r ih =>
    intro h
    have hc1 : PPok pp [c.tail.getD []] := by
      intro s hs; rw [List.mem_singleton.1 hs]; exact h _ (by simp)
    have hc2 : PPok pp [c.text.getD []] := by
      intro s hs; rw [List.mem_singleton.1 hs]; exact h _ (by simp)
    have hr : PPok pp (r.flatMap (fun c => [c.text.getD [], c.tail.getD []])) := by
      intro s hs; exact h s (by simp only [List.flatMap_cons, List.mem_append]; exact Or.inr hs)
    unfold procKids
    obtain ⟨c1, res, h1, ht, _⟩ := petTail_ok hc1
    rw [h1]
    simp only
    obtain ⟨c2, h2⟩ := petText_ok (c := c1) (by rw [ht]; exact hc2)
    rw [h2]
    obtain ⟨r', h3⟩ := ih hr
    simp only [h3]
    exact ⟨_, rfl⟩

theorem procNode_ok {pp : PP} {n : Node} (h : PPok pp (nodeStrings n)) : (procNode pp n).isSome = true := by
  have hc1 : PPok pp [n.tail.getD []] := by
    intro s hs; rw [List.mem_singleton.1 hs]; exact h _ (by simp [nodeStrings])
  have hc2 : PPok pp [n.text.getD []] := by
    intro s hs; rw [List.mem_singleton.1 hs]; exact h _ (by simp [nodeStrings])
  have hk : PPok pp (n.children.flatMap (fun c => [c.text.getD [], c.tail.getD []])) := by
    intro s hs; exact h s (by simp only [nodeStrings, List.mem_cons]; exact Or.inr (Or.inr hs))
  unfold procNode
  obtain ⟨n1, tailRes, h1, ht, _⟩ := petTail_ok (c := { n with children := [] }) hc1
  simp only
  rw [h1]
  simp only
  obtain ⟨n2, h2⟩ := petText_ok (c := n1) (by rw [ht]; exact hc2)
  rw [h2]
  obtain ⟨kids, h3⟩ := procKids_ok n.children hk
  simp only [h3]
  rfl

/-- `__processPlaceholders` answers when its depth fuel exceeds the ids (of existing entries) in the text by two -/
theorem processPlaceholders_total {stash : List StashItem} (hOK : StashOK stash) :
    ∀ (f : Nat) (data : Str), 0 < f →
      (∀ id ∈ idsOf data, ∀ it, stashGet stash id = some it → decToNat id + 1 < f) →
      ∀ atomic parent isText, ∃ res p', processPlaceholders stash f data atomic parent isText = some (res, p') ∧
        SameSide isText parent p' := by
  intro f
  induction f with
  | zero => intro data h; omega
  | succ f ih =>
    intro data _ hids atomic parent isText
    unfold processPlaceholders
    split
    · exact ⟨_, _, rfl, SameSide.refl _ _⟩
    · refine ppLoop_total (p0 := parent) ?_ (data.length + 2) 0 [] parent (by omega) (SameSide.refl _ _)
      intro id hid n hget
      obtain ⟨hcan, hidx⟩ := stashGet_some hget
      have hlt := hids id hid _ hget
      apply procNode_ok
      intro s hs atomic' parent' isText'
      apply ih s (by omega)
      intro id' hid' it' hget'
      have := hOK _ n hidx s hs id' hid' (stashGet_some hget').1
      omega

theorem ppTop_total (st : St) (hOK : StashOK st.stash) (data : Str) (atomic : Bool) (parent : Node)
    (isText : Bool) : (ppTop st data atomic parent isText).isSome = true := by
  unfold ppTop
  obtain ⟨res, p', h, _⟩ := processPlaceholders_total hOK (st.stash.length + 2) data (by omega) (by
    intro id _ it hget
    have := (stashGet_some hget).2
    have hlt : decToNat id < st.stash.length := by
      rcases Nat.lt_or_ge (decToNat id) st.stash.length with h | h
      · exact h
      · rw [List.getElem?_eq_none h] at this; cases this
    omega) atomic parent isText
  rw [h]; rfl

/-! ### ids increase: the invariant of `__applyPattern` (`stash_ids_increasing`) -/

theorem etx_not_asciiDigit : isAsciiDigit ETX = false := by decide

/-- shape of a placeholder occurrence -/
theorem phHere_decomp {x : Str} {id : Str} {l : Nat} (h : phHere x = some (id, l)) :
    x = phPrefix ++ id ++ ETX :: x.drop (phPrefixLen + l) ∧ l = id.length + 1 ∧ 0 < id.length ∧
      (∀ c ∈ id, isAsciiDigit c = true) := by
  cases x with
  | nil => simp [phHere] at h
  | cons c r =>
    simp only [phHere] at h
    split at h
    · next hc =>
      simp only [Bool.and_eq_true, decide_eq_true_eq] at hc
      have hsuf := startsWith_drop hc.2
      have hlen : phPrefix.length = phPrefixLen := rfl
      rw [hlen] at hsuf
      generalize (c :: r).drop phPrefixLen = t at hsuf h
      simp only [phAt] at h
      split at h
      · next hm =>
        simp only [Bool.and_eq_true, decide_eq_true_eq, beq_iff_eq] at hm
        cases h
        have h1 : spanLen isAsciiDigit t < t.length := by
          rcases Nat.lt_or_ge (spanLen isAsciiDigit t) t.length with h' | h'
          · exact h'
          · rw [List.getElem?_eq_none h'] at hm; cases hm.2
        have ht : t = t.take (spanLen isAsciiDigit t) ++ ETX :: t.drop (spanLen isAsciiDigit t + 1) := by
          conv => lhs; rw [← List.take_append_drop (spanLen isAsciiDigit t) t]
          congr 1
          rw [List.drop_eq_getElem_cons h1]
          congr 1
          have := hm.2
          rw [List.getElem?_eq_getElem h1] at this
          exact Option.some.inj this
        have htl : (t.take (spanLen isAsciiDigit t)).length = spanLen isAsciiDigit t := by
          rw [List.length_take]; exact Nat.min_eq_left (Nat.le_of_lt h1)
        refine ⟨?_, by rw [htl], by rw [htl]; exact hm.1, spanLen_prefix_all _ _⟩
        have hd : (c :: r).drop (phPrefixLen + (spanLen isAsciiDigit t + 1)) = t.drop (spanLen isAsciiDigit t + 1) := by
          conv => lhs; rw [hsuf]
          rw [show phPrefixLen + (spanLen isAsciiDigit t + 1) = phPrefix.length + (spanLen isAsciiDigit t + 1) by
            rw [hlen]]
          rw [List.drop_append]
          have h0 : List.drop (phPrefix.length + (spanLen isAsciiDigit t + 1)) phPrefix = [] :=
            List.drop_eq_nil_of_le (by omega)
          rw [h0, List.nil_append]
          congr 1; omega
        rw [hd, List.append_assoc, ← ht]
        exact hsuf
      · cases h
    · cases h

/-- a complete placeholder is recognised whatever follows -/
theorem phHere_complete {id : Str} (hd : 0 < id.length) (hdig : ∀ c ∈ id, isAsciiDigit c = true) (y : Str) :
    phHere (phPrefix ++ id ++ ETX :: y) = some (id, id.length + 1) := by
  have hshape : phPrefix ++ id ++ ETX :: y = STX :: ("klzzwxh:".toList ++ id ++ ETX :: y) := by simp [phPrefix]
  rw [hshape]
  simp only [phHere]
  rw [← hshape]
  have hs : startsWith (phPrefix ++ id ++ ETX :: y) phPrefix = true := by
    rw [List.append_assoc]; exact startsWith_append _ _
  simp only [hs, decide_true, Bool.and_self, if_true]
  have hdrop : (phPrefix ++ id ++ ETX :: y).drop phPrefixLen = id ++ ETX :: y := by
    rw [List.append_assoc, show phPrefixLen = phPrefix.length from rfl, List.drop_left]
  rw [hdrop]
  have hspan : spanLen isAsciiDigit (id ++ ETX :: y) = id.length := by
    rw [spanLen_append_of_all (List.all_eq_true.2 hdig), spanLen_cons, etx_not_asciiDigit]; simp
  simp [phAt, hspan, hd]

/-- an occurrence depends only on its own characters -/
theorem phHere_of_take {x y : Str} {id : Str} {l : Nat} (h : phHere x = some (id, l))
    (hy : y.take (phPrefixLen + l) = x.take (phPrefixLen + l)) (hlen : phPrefixLen + l ≤ y.length) :
    phHere y = some (id, l) := by
  obtain ⟨h1, h2, h3, h4⟩ := phHere_decomp h
  have hP : (phPrefix ++ id ++ [ETX]).length = phPrefixLen + l := by
    simp only [List.length_append, List.length_singleton]; rw [h2]; rfl
  have hx : x.take (phPrefixLen + l) = phPrefix ++ id ++ [ETX] := by
    conv => lhs; rw [h1]
    rw [show phPrefix ++ id ++ ETX :: x.drop (phPrefixLen + l) = (phPrefix ++ id ++ [ETX]) ++ x.drop (phPrefixLen + l)
      by simp, ← hP, List.take_left]
  have hyy : y = phPrefix ++ id ++ ETX :: y.drop (phPrefixLen + l) := by
    conv => lhs; rw [← List.take_append_drop (phPrefixLen + l) y, hy, hx]
    simp
  rw [hyy, h2]
  exact phHere_complete h3 h4 _

theorem phHere_append {x : Str} {id : Str} {l : Nat} (h : phHere x = some (id, l)) (y : Str) :
    phHere (x ++ y) = some (id, l) := by
  obtain ⟨h1, h2, h3, h4⟩ := phHere_decomp h
  have hlen : phPrefixLen + l ≤ x.length := by
    have := congrArg List.length h1
    simp only [List.length_append, List.length_cons, List.length_drop] at this
    have hp : phPrefix.length = phPrefixLen := rfl
    omega
  exact phHere_of_take h (by rw [List.take_append_of_le_length hlen]) (by simp; omega)

theorem idsOf_append_left (a b : Str) : ∀ id ∈ idsOf a, id ∈ idsOf (a ++ b) := by
  induction a with
  | nil => intro id h; cases h
  | cons c r ih =>
    intro id h
    simp only [idsOf, List.mem_append] at h
    simp only [List.cons_append, idsOf, List.mem_append]
    rcases h with h | h
    · left
      cases hh : phHere (c :: r) with
      | none => simp [hh] at h
      | some p =>
        obtain ⟨id', l⟩ := p
        have := phHere_append hh b
        simp only [List.cons_append] at this
        simp only [hh] at h
        simp only [this]; exact h
    · exact Or.inr (ih id h)

/-- the ids of a part are ids of the whole -/
theorem idsOf_infix {a b : Str} (h : a <:+: b) : ∀ id ∈ idsOf a, id ∈ idsOf b := by
  obtain ⟨pre, post, rfl⟩ := h
  intro id hid
  have h1 := idsOf_append_left a post id hid
  have h2 := idsOf_drop_subset (pre ++ a ++ post) pre.length id
  rw [List.append_assoc, List.drop_left] at h2
  rw [List.append_assoc]
  exact h2 h1

theorem phPrefix_tail_no_stx : STX ∉ "klzzwxh:".toList := by decide

/-- no occurrence reaches over an `STX` -/
theorem phHere_of_append_stx {x b : Str} {id : Str} {l : Nat} (hx : x ≠ [])
    (hb : b = [] ∨ b.head? = some STX) (h : phHere (x ++ b) = some (id, l)) : phHere x = some (id, l) := by
  obtain ⟨h1, h2, h3, h4⟩ := phHere_decomp h
  have hP : (phPrefix ++ id ++ [ETX]).length = phPrefixLen + l := by
    simp only [List.length_append, List.length_singleton]; rw [h2]; rfl
  have hlen : phPrefixLen + l ≤ x.length := by
    rcases hb with hb | hb
    · subst hb
      have := congrArg List.length h1
      simp only [List.append_nil, List.length_append, List.length_cons, List.length_drop] at this
      have hp : phPrefix.length = phPrefixLen := rfl
      omega
    · rcases Nat.lt_or_ge x.length (phPrefixLen + l) with hlt | hge
      · exfalso
        -- the character at `x.length` is `STX`, inside the placeholder after its first character
        have hget : (x ++ b)[x.length]? = some STX := by
          rw [List.getElem?_append_right (Nat.le_refl _), Nat.sub_self]
          cases b with
          | nil => simp at hb
          | cons c r => simpa using hb
        rw [h1] at hget
        rw [show phPrefix ++ id ++ ETX :: (x ++ b).drop (phPrefixLen + l) =
          (phPrefix ++ id ++ [ETX]) ++ (x ++ b).drop (phPrefixLen + l) by simp] at hget
        rw [List.getElem?_append_left (by rw [hP]; exact hlt)] at hget
        have hpos : 0 < x.length := List.length_pos_iff.2 hx
        have hmem := List.mem_of_getElem? hget
        -- position ≥ 1: drop the leading `STX`
        have hshape : phPrefix ++ id ++ [ETX] = STX :: ("klzzwxh:".toList ++ id ++ [ETX]) := by simp [phPrefix]
        rw [hshape] at hget
        cases hxl : x.length with
        | zero => omega
        | succ k =>
          rw [hxl] at hget
          simp only [List.getElem?_cons_succ] at hget
          have hmem' := List.mem_of_getElem? hget
          simp only [List.mem_append, List.mem_singleton] at hmem'
          rcases hmem' with (hm | hm) | hm
          · exact phPrefix_tail_no_stx hm
          · have := h4 _ hm; revert this; decide
          · revert hm; decide
      · exact hge
  exact phHere_of_take h (by rw [List.take_append_of_le_length hlen]) hlen

theorem idsOf_append_stx {a b : Str} (hb : b = [] ∨ b.head? = some STX) :
    ∀ id ∈ idsOf (a ++ b), id ∈ idsOf a ∨ id ∈ idsOf b := by
  induction a with
  | nil => intro id h; exact Or.inr (by simpa using h)
  | cons c r ih =>
    intro id h
    simp only [List.cons_append, idsOf, List.mem_append] at h
    rcases h with h | h
    · left
      cases hh : phHere (c :: (r ++ b)) with
      | none => simp [hh] at h
      | some p =>
        obtain ⟨id', l⟩ := p
        have := phHere_of_append_stx (x := c :: r) (by simp) hb (by simpa using hh)
        simp only [hh] at h
        simp only [idsOf, List.mem_append, this]
        exact Or.inl h
    · rcases ih id h with h' | h'
      · left; simp only [idsOf, List.mem_append]; exact Or.inr h'
      · exact Or.inr h'

theorem idsOf_no_stx {a : Str} (h : STX ∉ a) (b : Str) : idsOf (a ++ b) = idsOf b := by
  induction a with
  | nil => rfl
  | cons c r ih =>
    have hc : c ≠ STX := fun e => h (by rw [e]; exact List.mem_cons_self ..)
    have hr : STX ∉ r := fun e => h (List.mem_cons_of_mem _ e)
    simp only [List.cons_append, idsOf, phHere, hc, decide_false, Bool.false_and, Bool.false_eq_true, if_false,
      List.nil_append]
    exact ih hr

theorem idsOf_placeholder (k : Nat) (b : Str) : idsOf (placeholder k ++ b) = pad4 k :: idsOf b := by
  have hd : 0 < (pad4 k).length := by have := pad4_length k; omega
  have h1 := phHere_complete hd (pad4_digits k) b
  have hshape : placeholder k ++ b = STX :: ("klzzwxh:".toList ++ pad4 k ++ [ETX] ++ b) := by
    simp [placeholder, phPrefix]
  have hshape' : phPrefix ++ pad4 k ++ ETX :: b = STX :: ("klzzwxh:".toList ++ pad4 k ++ [ETX] ++ b) := by
    simp [phPrefix]
  rw [hshape'] at h1
  rw [hshape]
  simp only [idsOf, h1, List.singleton_append, List.cons.injEq, true_and]
  rw [List.append_assoc, List.append_assoc, idsOf_no_stx phPrefix_tail_no_stx,
    idsOf_no_stx (fun h => by have := pad4_digits k _ h; revert this; decide), idsOf_no_stx (by decide)]

/-- all canonically spelt placeholder ids of the text are below `L` -/
def IdsLt (L : Nat) (s : Str) : Prop := ∀ id ∈ idsOf s, canon id = true → decToNat id < L

theorem IdsLt.nil (L : Nat) : IdsLt L [] := by intro id h; cases h

theorem IdsLt.infix {L : Nat} {a b : Str} (h : IdsLt L b) (hab : a <:+: b) : IdsLt L a :=
  fun id hid hc => h id (idsOf_infix hab id hid) hc

theorem IdsLt.mono {L L' : Nat} {s : Str} (h : IdsLt L s) (hl : L ≤ L') : IdsLt L' s :=
  fun id hid hc => Nat.lt_of_lt_of_le (h id hid hc) hl

theorem canon_pad4 (k : Nat) : canon (pad4 k) = true := by simp [canon]

/-- replacing a match by the new placeholder keeps the ids below the new size of the stash -/
theorem idsLt_replaced {data : Str} {start : Nat} {stop : Int} {k L : Nat} (h : IdsLt L data) (hk : k < L) :
    IdsLt L (data.take start ++ placeholder k ++ pyDrop data stop) := by
  intro id hid hc
  rw [List.append_assoc] at hid
  have hb : placeholder k ++ pyDrop data stop = [] ∨ (placeholder k ++ pyDrop data stop).head? = some STX :=
    Or.inr (by simp [placeholder, phPrefix])
  rcases idsOf_append_stx hb id hid with h1 | h1
  · exact h.infix (List.take_prefix _ _).isInfix id h1 hc
  · rw [idsOf_placeholder] at h1
    rcases List.mem_cons.1 h1 with rfl | h1
    · simpa using hk
    · exact h.infix (List.drop_suffix _ _).isInfix id h1 hc

/-- characters a placeholder consists of -/
def isPhChar (c : Char) : Bool := c = STX || c = ETX || isAsciiDigit c || "klzzwxh:".toList.contains c

theorem phHere_take_phChars {x : Str} {id : Str} {l : Nat} (h : phHere x = some (id, l)) :
    ∀ c ∈ x.take (phPrefixLen + l), isPhChar c = true := by
  obtain ⟨h1, h2, h3, h4⟩ := phHere_decomp h
  have hP : (phPrefix ++ id ++ [ETX]).length = phPrefixLen + l := by
    simp only [List.length_append, List.length_singleton]; rw [h2]; rfl
  have hx : x.take (phPrefixLen + l) = phPrefix ++ id ++ [ETX] := by
    conv => lhs; rw [h1]
    rw [show phPrefix ++ id ++ ETX :: x.drop (phPrefixLen + l) = (phPrefix ++ id ++ [ETX]) ++ x.drop (phPrefixLen + l)
      by simp, ← hP, List.take_left]
  rw [hx]
  intro c hc
  simp only [List.mem_append, List.mem_singleton] at hc
  rcases hc with (hc | hc) | hc
  · revert c; decide
  · simp [isPhChar, h4 c hc]
  · subst hc; decide

/-- the text with every `a` replaced by `rep` -/
def subst1 (a : Char) (rep : Str) (s : Str) : Str := s.flatMap (fun c => if c = a then rep else [c])

theorem subst1_take {a : Char} {rep : Str} (hhead : ∃ c r, rep = c :: r ∧ isPhChar c = false) :
    ∀ (r : Str) (n : Nat), (∀ c ∈ (subst1 a rep r).take n, isPhChar c = true) →
      (subst1 a rep r).take n = r.take n ∧ (n ≤ (subst1 a rep r).length → n ≤ r.length) := by
  obtain ⟨c0, r0, hrep, hc0⟩ := hhead
  intro r
  induction r with
  | nil => intro n _; simp [subst1]
  | cons d r' ih =>
    intro n hall
    cases n with
    | zero => simp
    | succ n =>
      by_cases hd : d = a
      · exfalso
        have : c0 ∈ (subst1 a rep (d :: r')).take (n + 1) := by
          simp [subst1, hd, hrep]
        have := hall _ this
        rw [hc0] at this; cases this
      · have hout : subst1 a rep (d :: r') = d :: subst1 a rep r' := by simp [subst1, hd]
        rw [hout] at hall ⊢
        simp only [List.take_succ_cons] at hall ⊢
        have := ih n (fun c hc => hall c (List.mem_cons_of_mem _ hc))
        exact ⟨by rw [this.1], by simp only [List.length_cons]; intro h; have := this.2 (by omega); omega⟩

theorem idsOf_subst1 {a : Char} {rep : Str} (ha : a ≠ STX) (hrep : STX ∉ rep)
    (hhead : ∃ c r, rep = c :: r ∧ isPhChar c = false) :
    ∀ (s : Str), ∀ id ∈ idsOf (subst1 a rep s), id ∈ idsOf s := by
  intro s
  induction s with
  | nil => intro id h; simpa [subst1] using h
  | cons c r ih =>
    intro id h
    by_cases hc : c = a
    · have hout : subst1 a rep (c :: r) = rep ++ subst1 a rep r := by simp [subst1, hc]
      rw [hout, idsOf_no_stx hrep] at h
      simp only [idsOf, List.mem_append]
      exact Or.inr (ih id h)
    · have hout : subst1 a rep (c :: r) = c :: subst1 a rep r := by simp [subst1, hc]
      rw [hout] at h
      simp only [idsOf, List.mem_append] at h ⊢
      rcases h with h | h
      · left
        cases hh : phHere (c :: subst1 a rep r) with
        | none => simp [hh] at h
        | some p =>
          obtain ⟨id', l⟩ := p
          simp only [hh] at h
          have hall := phHere_take_phChars hh
          have hlen : phPrefixLen + l ≤ (c :: subst1 a rep r).length := by
            obtain ⟨h1, _⟩ := phHere_decomp hh
            have := congrArg List.length h1
            simp only [List.length_append, List.length_cons, List.length_drop] at this
            have hp : phPrefix.length = phPrefixLen := rfl
            simp only [List.length_cons]; omega
          have hn : phPrefixLen + l = (phPrefixLen + l - 1) + 1 := by simp only [phPrefixLen]; omega
          rw [hn] at hall hlen
          simp only [List.take_succ_cons] at hall
          have := subst1_take hhead r (phPrefixLen + l - 1) (fun c' hc' => hall c' (List.mem_cons_of_mem _ hc'))
          have hy : phHere (c :: r) = some (id', l) := by
            apply phHere_of_take hh
            · rw [hn]; simp only [List.take_succ_cons]; rw [this.1]
            · rw [hn]; simp only [List.length_cons] at hlen ⊢; have := this.2 (by omega); omega
          simp only [hy]; exact h
      · exact Or.inr (ih id h)

/-- `code_escape` makes no placeholder -/
theorem idsOf_codeEscape (t : Str) : ∀ id ∈ idsOf (codeEscape t), id ∈ idsOf t := by
  intro id h
  unfold codeEscape at h
  rw [replace_single, replace_single, replace_single] at h
  have h3 := idsOf_subst1 (a := '>') (rep := "&gt;".toList) (by decide) (by decide) ⟨'&', "gt;".toList, rfl, by decide⟩ _ id h
  have h2 := idsOf_subst1 (a := '<') (rep := "&lt;".toList) (by decide) (by decide) ⟨'&', "lt;".toList, rfl, by decide⟩ _ id h3
  exact idsOf_subst1 (a := '&') (rep := "&amp;".toList) (by decide) (by decide) ⟨'&', "amp;".toList, rfl, by decide⟩ _ id h2

theorem IdsLt.codeEscape_strip {L : Nat} {g : Str} (h : IdsLt L g) : IdsLt L (codeEscape (strip g)) :=
  fun id hid hc => (h.infix (strip_infix g)) id (idsOf_codeEscape _ id hid) hc

/-! #### the strings of a new element are parts of the text (or `code_escape` of a part) -/

/-- the strings of a found element satisfy `Q` -/
def FoundQ (Q : Str → Prop) (f : Found) : Prop := ∀ n, f.node = PNode.el n → ShallowQ Q n

theorem getText_infix (data : Str) (index : Nat) : (getText data index).1 <:+: data := by
  obtain ⟨pre, h1, h2, _⟩ := getTextLoop_ok (data.drop index) 1 index []
  simp only [getText]
  rw [h2]
  simpa using h1.isInfix.trans (List.drop_suffix _ _).isInfix

theorem linkHandle_Q {Q : Str → Prop} (hQ : InfixClosed Q) {cfg : Cfg} {stash : List StashItem} {pi : Nat}
    {data : Str} {mstart mend : Nat} {f : Found} (hd : Q data)
    (h : linkHandle cfg stash pi data mstart mend = some f) : FoundQ Q f := by
  have hgt := getText_infix data mend
  unfold linkHandle at h
  revert h hgt
  generalize getText data mend = r
  obtain ⟨text, index, handled⟩ := r
  simp only
  intro h hgt
  have htext : Q text := hQ _ _ hgt hd
  split at h
  · cases h
  · split at h
    · revert h
      generalize getLink (unescape stash) data index = gl
      obtain ⟨href, title, idx, ok⟩ := gl
      simp only
      intro h
      split at h
      · cases h
      · cases h
        intro n hn'
        simp only [PNode.el.injEq] at hn'
        subst hn'
        split
        · split
          · exact shallow_setAttr _ _ (shallow_setAttr _ _ (shallow_setAttr _ _ (shallowQ_mkEl _ _)))
          · exact shallow_setAttr _ _ (shallow_setAttr _ _ (shallowQ_mkEl _ _))
        · split
          · exact shallow_setAttr _ _ (shallow_setAttr _ _ (shallow_text htext))
          · exact shallow_setAttr _ _ (shallow_text htext)
    · split at h
      · cases h
      · split at h
        · cases h
          intro n hn'; cases hn'
        · cases h
          intro n hn'
          simp only [PNode.el.injEq] at hn'
          subst hn'
          split
          · split
            · exact shallow_setAttr _ _ (shallow_setAttr _ _ (shallow_setAttr _ _ (shallowQ_mkEl _ _)))
            · exact shallow_setAttr _ _ (shallow_setAttr _ _ (shallowQ_mkEl _ _))
          · split
            · exact shallow_with_text (shallow_setAttr _ _ (shallow_setAttr _ _ (shallowQ_mkEl _ _))) htext
            · exact shallow_with_text (shallow_setAttr _ _ (shallowQ_mkEl _ _)) htext

theorem linkScan_Q {Q : Str → Prop} (hQ : InfixClosed Q) {cfg : Cfg} {stash : List StashItem} {pi : Nat}
    {data : Str} (hd : Q data) :
    ∀ {suf : Str} {prev : Option Char} {i : Nat} {f : Found},
      linkScan cfg stash pi data prev suf i = some f → FoundQ Q f := by
  intro suf
  induction suf with
  | nil => intro prev i f h; simp [linkScan] at h
  | cons ch r ih =>
    intro prev i f h
    rw [linkScan_cons] at h
    split at h
    · next f' hf' =>
      cases h
      unfold linkHere at hf'
      split at hf'
      · split at hf'
        · exact linkHandle_Q hQ hd hf'
        · cases hf'
      · split at hf'
        · exact linkHandle_Q hQ hd hf'
        · cases hf'
    · exact ih h

theorem emHandle_Q {Q : Str → Prop} (hQ : InfixClosed Q) (hQ0 : Q []) {data : Str} {i : Nat} {c : Char}
    (hd : Q data) :
    ∀ (items : List EmItem) (idx : Nat) el e, emHandle data i c items idx = some (some (el, e)) → ShallowQ Q el := by
  intro items
  induction items with
  | nil => intro idx el e h; simp [emHandle] at h
  | cons item rest ih =>
    intro idx el e h
    unfold emHandle at h
    split at h
    · next e' groups hm =>
      have hlen := seqMatch_len hm
      have hinf := seqMatch_infix hm
      by_cases hpos : 0 < data.length + 2
      · obtain ⟨n, hn, hsh⟩ := build_okQ c hQ hQ0 (data.length + 2) groups item idx hpos
          (fun g hg => ⟨by have := hlen.2.2.2 g hg; omega, hQ _ _ (hinf g hg) hd⟩)
        rw [hn] at h
        simp only [Option.some.injEq, Prod.mk.injEq] at h
        rw [← h.1]; exact hsh
      · omega
    · exact ih _ _ _ h

theorem emScan_Q {Q : Str → Prop} (hQ : InfixClosed Q) (hQ0 : Q []) {data : Str} {c : Char} (hd : Q data) :
    ∀ (suf : Str) (i : Nat) el s e, emScan data c suf i = some (some (el, s, e)) → ShallowQ Q el := by
  intro suf
  induction suf with
  | nil => intro i el s e h; simp [emScan] at h
  | cons ch r ih =>
    intro i el s e h
    unfold emScan at h
    split at h
    · split at h
      · cases h
      · next el' e' hx =>
        simp only [Option.some.injEq, Prod.mk.injEq] at h
        rw [← h.1]
        exact emHandle_Q hQ hQ0 hd _ _ _ _ hx
      · exact ih _ _ _ _ h
    · exact ih _ _ _ _ h

theorem btScan_infix : ∀ {suf : Str} {prev : Option Char} {i : Nat} {m : BtMatch},
    btScan prev suf i = some m → m.group <:+: suf := by
  intro suf
  have hat : ∀ {suf : Str} {prev : Option Char} {i : Nat} {m : BtMatch}, btAt prev suf i = some m →
      m.group <:+: suf := by
    intro suf prev i m h
    unfold btAt at h
    split at h
    · cases h
    · simp only at h
      split at h
      · cases h; exact (List.take_prefix _ _).isInfix
      · split at h
        · split at h
          · cases h; exact (List.take_prefix _ _).isInfix.trans (List.drop_suffix _ _).isInfix
          · cases h
        · cases h
  induction suf with
  | nil =>
    intro prev i m h
    unfold btScan at h
    split at h
    · next r hr => cases h; exact hat hr
    · cases h
  | cons ch r ih =>
    intro prev i m h
    unfold btScan at h
    split at h
    · next r' hr => cases h; exact hat hr
    · exact infix_cons ch (ih h)

/-- every pattern: the strings of a new element satisfy `Q` when the text does (`Q` inherited by parts and
    preserved by `code_escape ∘ strip`), and the inline stash is not touched -/
theorem findMatch_Q {Q : Str → Prop} (hQ : InfixClosed Q) (hQ0 : Q [])
    (hcode : ∀ g, Q g → Q (codeEscape (strip g))) (cfg : Cfg) (pi : Nat) (data : Str) (si : Nat) (st : St)
    (hd : Q data) {r : Option Found} {st' : St} (h : findMatch cfg pi data si st = some (r, st')) :
    st'.stash = st.stash ∧ ∀ f, r = some f → FoundQ Q f := by
  unfold findMatch at h
  simp only at h
  have hnone : ∀ {x : Option Found × St}, some (none, st) = some x → x.2.stash = st.stash ∧ ∀ f, x.1 = some f → FoundQ Q f := by
    intro x hx; cases hx; exact ⟨rfl, by intro f hf; cases hf⟩
  split at h
  · exact hnone h
  · next hsi =>
    split at h
    · split at h
      · next m hm =>
        have hinf : m.group <:+: data := by
          unfold btFind at hm
          rw [if_neg hsi] at hm
          exact (btScan_infix hm).trans (List.drop_suffix _ _).isInfix
        split at h
        · cases h
          refine ⟨rfl, ?_⟩
          intro f hf; cases hf
          intro n hn; cases hn
          exact ⟨⟨optQ_some (hcode _ (hQ _ _ hinf hd)), optQ_none _⟩, by intro c hc; cases hc⟩
        · cases h
          exact ⟨rfl, by intro f hf; cases hf; intro n hn; cases hn⟩
      · exact hnone h
    · split at h
      · cases h
        refine ⟨rfl, ?_⟩
        intro f hf; cases hf
        intro n hn; split at hn <;> cases hn
      · exact hnone h
    · split at h
      · cases h
        exact ⟨rfl, by intro f hf; cases hf; intro n hn; cases hn; exact shallowQ_mkEl _ _⟩
      · exact hnone h
    · split at h
      · cases h
        exact ⟨rfl, by intro f hf; cases hf; intro n hn; cases hn⟩
      · exact hnone h
    · split at h
      · cases h
        exact ⟨rfl, by intro f hf; cases hf; intro n hn; cases hn⟩
      · exact hnone h
    · split at h
      · cases h
      · exact hnone h
      · next el s e hx =>
        cases h
        refine ⟨rfl, ?_⟩
        intro f hf; cases hf
        intro n hn; cases hn
        exact emScan_Q hQ hQ0 hd _ _ _ _ _ hx
    · split at h
      · cases h
      · exact hnone h
      · next el s e hx =>
        cases h
        refine ⟨rfl, ?_⟩
        intro f hf; cases hf
        intro n hn; cases hn
        exact emScan_Q hQ hQ0 hd _ _ _ _ _ hx
    · exact hnone h
    · exact hnone h
    · exact hnone h
    · split at h
      · cases h
        exact ⟨rfl, fun f hf => linkScan_Q hQ hd hf⟩
      · exact hnone h

/-! #### the invariant through `__applyPattern`, the pattern loop and `__handleInline` -/

theorem infixClosed_idsLt (L : Nat) : InfixClosed (IdsLt L) := fun _ _ hab hb => hb.infix hab

/-- what a call leaves behind: ids still increase, the text only holds ids of existing entries, the stash grew -/
def InvOut (st : St) (d : Str) (st' : St) : Prop :=
  StashOK st'.stash ∧ IdsLt st'.stash.length d ∧ st.stash <+: st'.stash

/-- the nested `__handleInline` keeps the invariant -/
def HiInv (hi : HI) : Prop :=
  ∀ t pi st d st', hi t pi st = some (d, st') → StashOK st.stash → IdsLt st.stash.length t → InvOut st d st'

theorem stashOK_append_str {stash : List StashItem} (h : StashOK stash) (x : Str) :
    StashOK (stash ++ [StashItem.str x]) := by
  intro i n hi s hs id hid hc
  rcases Nat.lt_or_ge i stash.length with hlt | hge
  · rw [List.getElem?_append_left hlt] at hi
    exact h i n hi s hs id hid hc
  · rw [List.getElem?_append_right hge] at hi
    cases hsub : i - stash.length with
    | zero => rw [hsub] at hi; simp at hi
    | succ k => rw [hsub] at hi; simp at hi

theorem stashOK_append_node {stash : List StashItem} (h : StashOK stash) {n : Node}
    (hn : ∀ s ∈ nodeStrings n, IdsLt stash.length s) : StashOK (stash ++ [StashItem.node n]) := by
  intro i n' hi s hs id hid hc
  rcases Nat.lt_or_ge i stash.length with hlt | hge
  · rw [List.getElem?_append_left hlt] at hi
    exact h i n' hi s hs id hid hc
  · rw [List.getElem?_append_right hge] at hi
    cases hsub : i - stash.length with
    | zero =>
      rw [hsub] at hi
      simp only [List.getElem?_cons_zero, Option.some.injEq, StashItem.node.injEq] at hi
      subst hi
      have := hn s hs id hid hc
      omega
    | succ k => rw [hsub] at hi; simp at hi

theorem shallowQ_nodeStrings {Q : Str → Prop} (hQ0 : Q []) {n : Node} (h : ShallowQ Q n) :
    ∀ s ∈ nodeStrings n, Q s := by
  have hopt : ∀ (t : Option Str), optQ Q t → Q (t.getD []) := by
    intro t ht
    cases t with
    | none => exact hQ0
    | some x => exact ht x rfl
  intro s hs
  simp only [nodeStrings, List.mem_cons, List.mem_flatMap, List.not_mem_nil, or_false] at hs
  rcases hs with rfl | rfl | ⟨c, hc, rfl | rfl⟩
  · exact hopt _ h.1.1
  · exact hopt _ h.1.2
  · exact hopt _ (h.2 c hc).1
  · exact hopt _ (h.2 c hc).2

theorem optQ_mono {L L' : Nat} (hl : L ≤ L') {t : Option Str} (h : optQ (IdsLt L) t) : optQ (IdsLt L') t :=
  fun s hs => (h s hs).mono hl

theorem topQ_mono {L L' : Nat} (hl : L ≤ L') {n : Node} (h : TopQ (IdsLt L) n) : TopQ (IdsLt L') n :=
  ⟨optQ_mono hl h.1, optQ_mono hl h.2⟩

theorem hiOpt_inv {hi : HI} (hhi : HiInv hi) {t : Option Str} {atomic : Bool} {pi : Nat} {st : St}
    {r : Option Str} {st' : St} (h : hiOpt hi t atomic pi st = some (r, st')) (hs : StashOK st.stash)
    (ht : optQ (IdsLt st.stash.length) t) :
    StashOK st'.stash ∧ optQ (IdsLt st'.stash.length) r ∧ st.stash <+: st'.stash := by
  unfold hiOpt at h
  split at h
  · next hc =>
    cases t with
    | none => simp [Node.truthy] at hc
    | some x =>
      simp only [Option.getD_some] at h
      split at h
      · next d st1 hx =>
        cases h
        obtain ⟨h1, h2, h3⟩ := hhi _ _ _ _ _ hx hs (ht x rfl)
        exact ⟨h1, optQ_some h2, h3⟩
      · cases h
  · cases h
    exact ⟨hs, ht, List.prefix_refl _⟩

theorem hiNode_inv {hi : HI} (hhi : HiInv hi) {pi : Nat} {n : Node} {st : St} {n' : Node} {st' : St}
    (h : hiNode hi pi n st = some (n', st')) (hs : StashOK st.stash) (hn : TopQ (IdsLt st.stash.length) n) :
    StashOK st'.stash ∧ TopQ (IdsLt st'.stash.length) n' ∧ st.stash <+: st'.stash ∧ n'.children = n.children := by
  unfold hiNode at h
  split at h
  · cases h
  · next t st1 h1 =>
    obtain ⟨a1, a2, a3⟩ := hiOpt_inv hhi h1 hs hn.1
    split at h
    · cases h
    · next tl st2 h2 =>
      cases h
      obtain ⟨b1, b2, b3⟩ := hiOpt_inv hhi h2 a1 (optQ_mono a3.length_le hn.2)
      exact ⟨b1, ⟨optQ_mono b3.length_le a2, b2⟩, a3.trans b3, rfl⟩

theorem hiNodes_inv {hi : HI} (hhi : HiInv hi) {pi : Nat} :
    ∀ (l : List Node) {st : St} {l' : List Node} {st' : St}, hiNodes hi pi l st = some (l', st') →
      StashOK st.stash → (∀ c ∈ l, TopQ (IdsLt st.stash.length) c) →
      StashOK st'.stash ∧ (∀ c ∈ l', TopQ (IdsLt st'.stash.length) c) ∧ st.stash <+: st'.stash := by
  intro l
  induction l with
  | nil =>
    intro st l' st' h hs _
    simp only [hiNodes, Option.some.injEq, Prod.mk.injEq] at h
    obtain ⟨rfl, rfl⟩ := h
    refine ⟨hs, ?_, List.prefix_refl _⟩
    intro c hc; cases hc
  | cons n r ih =>
    intro st l' st' h hs hl
    unfold hiNodes at h
    split at h
    · cases h
    · next n1 st1 h1 =>
      obtain ⟨a1, a2, a3, _⟩ := hiNode_inv hhi h1 hs (hl n (List.mem_cons_self ..))
      split at h
      · cases h
      · next r' st2 h2 =>
        cases h
        obtain ⟨b1, b2, b3⟩ := ih h2 a1 (fun c hc => topQ_mono a3.length_le (hl c (List.mem_cons_of_mem _ hc)))
        refine ⟨b1, ?_, a3.trans b3⟩
        intro c hc
        rcases List.mem_cons.1 hc with rfl | hc
        · exact topQ_mono b3.length_le a2
        · exact b2 c hc

/-- **`stash_ids_increasing`**: `__applyPattern` keeps the invariant -/
theorem applyPattern_inv (cfg : Cfg) {hi : HI} (hhi : HiInv hi) {pi : Nat} {data : Str} {si : Nat} {st : St}
    {d : Str} {m : Bool} {si' : Nat} {st' : St}
    (h : applyPattern cfg hi pi data si st = some (d, m, si', st')) (hs : StashOK st.stash)
    (hd : IdsLt st.stash.length data) : InvOut st d st' := by
  unfold applyPattern at h
  split at h
  · cases h
  · cases h
    next st0 hfm =>
    have := (findMatch_Q (infixClosed_idsLt _) (IdsLt.nil _) (fun g hg => hg.codeEscape_strip) cfg pi data si st hd hfm).1
    exact ⟨by rw [this]; exact hs, by rw [this]; exact hd, by rw [this]; exact List.prefix_refl _⟩
  · next f st0 hfm =>
    obtain ⟨hst0, hfq⟩ := findMatch_Q (infixClosed_idsLt _) (IdsLt.nil _) (fun g hg => hg.codeEscape_strip) cfg pi
      data si st hd hfm
    have hfq := hfq f rfl
    split at h
    · cases h
      exact ⟨by rw [hst0]; exact hs, by rw [hst0]; exact hd, by rw [hst0]; exact List.prefix_refl _⟩
    · next x =>
      simp only [stashNode, Option.some.injEq, Prod.mk.injEq] at h
      obtain ⟨rfl, _, _, rfl⟩ := h
      refine ⟨?_, ?_, ?_⟩
      · simp only; rw [hst0]; exact stashOK_append_str hs _
      · simp only [List.length_append, List.length_singleton]
        rw [hst0]
        exact idsLt_replaced (hd.mono (Nat.le_succ _)) (Nat.lt_succ_self _)
      · simp only; rw [hst0]; exact List.prefix_append _ _
    · next n hnode =>
      have hsh : ShallowQ (IdsLt st0.stash.length) n := by rw [hst0]; exact hfq n hnode
      have hs0 : StashOK st0.stash := by rw [hst0]; exact hs
      have hd0 : IdsLt st0.stash.length data := by rw [hst0]; exact hd
      have hpre0 : st.stash <+: st0.stash := by rw [hst0]; exact List.prefix_refl _
      have finish : ∀ {n' : Node} {st1 : St}, StashOK st1.stash → ShallowQ (IdsLt st1.stash.length) n' →
          st0.stash <+: st1.stash →
          InvOut st (List.take f.start data ++ placeholder st1.stash.length ++ pyDrop data f.stop)
            { stash := st1.stash ++ [StashItem.node n'], html := st1.html } := by
        intro n' st1 k1 k2 k3
        refine ⟨?_, ?_, ?_⟩
        · exact stashOK_append_node k1 (shallowQ_nodeStrings (IdsLt.nil _) k2)
        · simp only [List.length_append, List.length_singleton]
          exact idsLt_replaced (hd0.mono (Nat.le_trans k3.length_le (Nat.le_succ _))) (Nat.lt_succ_self _)
        · exact (hpre0.trans k3).trans (List.prefix_append _ _)
      split at h
      · -- atomic text: no nested call
        simp only [stashNode, Option.some.injEq, Prod.mk.injEq] at h
        obtain ⟨rfl, _, _, rfl⟩ := h
        exact finish hs0 hsh (List.prefix_refl _)
      · split at h
        · cases h
        · next n1 sta h1 =>
          obtain ⟨a1, a2, a3, _⟩ := hiNode_inv hhi h1 hs0 hsh.1
          split at h
          · cases h
          · next kids stb h2 =>
            simp only [stashNode, Option.some.injEq, Prod.mk.injEq] at h
            obtain ⟨rfl, _, _, rfl⟩ := h
            obtain ⟨b1, b2, b3⟩ := hiNodes_inv hhi n.children h2 a1
              (fun c hc => topQ_mono a3.length_le (hsh.2 c hc))
            exact finish b1 ⟨topQ_mono b3.length_le a2, b2⟩ (a3.trans b3)

theorem hiLoop_inv {ap : Nat → Str → Nat → St → Option (Str × Bool × Nat × St)}
    (hap : ∀ pi data si st d m si' st', ap pi data si st = some (d, m, si', st') → StashOK st.stash →
      IdsLt st.stash.length data → InvOut st d st') :
    ∀ (g : Nat) (data : Str) (pi si : Nat) (st : St) (d : Str) (st' : St),
      hiLoop ap g data pi si st = some (d, st') → StashOK st.stash → IdsLt st.stash.length data →
      InvOut st d st' := by
  intro g
  induction g with
  | zero => intro data pi si st d st' h; simp [hiLoop] at h
  | succ g ih =>
    intro data pi si st d st' h hs hd
    unfold hiLoop at h
    split at h
    · split at h
      · cases h
      · next d1 m si1 st1 hx =>
        obtain ⟨a1, a2, a3⟩ := hap _ _ _ _ _ _ _ _ hx hs hd
        obtain ⟨b1, b2, b3⟩ := ih _ _ _ _ _ _ h a1 a2
        exact ⟨b1, b2, a3.trans b3⟩
    · cases h
      exact ⟨hs, hd, List.prefix_refl _⟩

theorem handleInline_inv (cfg : Cfg) : ∀ f, HiInv (handleInline cfg f) := by
  intro f
  induction f with
  | zero => intro t pi st d st' h; simp [handleInline] at h
  | succ f ih =>
    intro t pi st d st' h hs hd
    unfold handleInline at h
    exact hiLoop_inv (fun pi data si st d m si' st' hx hs' hd' => applyPattern_inv cfg ih hx hs' hd') _ _ _ _ _ _ _ h hs hd

/-! ### `run`: one visit of a child; more fuel never changes a result -/

theorem handleInlineTop_inv (cfg : Cfg) {data : Str} {st : St} {d : Str} {st' : St}
    (h : handleInlineTop cfg data st = some (d, st')) (hs : StashOK st.stash) (hd : IdsLt st.stash.length data) :
    InvOut st d st' :=
  handleInline_inv cfg _ _ _ _ _ _ h hs hd

theorem idsOf_of_no_stx {s : Str} (h : STX ∉ s) : idsOf s = [] := by
  have := idsOf_no_stx h []
  simpa [idsOf] using this

theorem IdsLt.of_no_stx (L : Nat) {s : Str} (h : STX ∉ s) : IdsLt L s := by
  intro id hid; rw [idsOf_of_no_stx h] at hid; cases hid

/-- the text half of `visitChild` -/
def textStep (cfg : Cfg) (child : Node) (st : St) : Option (Node × List Node × St) :=
  if Node.truthy child.text && !child.textAtomic then
    match handleInlineTop cfg (child.text.getD []) st with
    | none => none
    | some (data, st1) =>
      match ppTop st1 data false { child with text := none, textAtomic := false } true with
      | none => none
      | some (lst, c1) => some (c1, lst, st1)
  else some (child, [], st)

/-- the tail half of `visitChild` -/
def tailStep (cfg : Cfg) (c1 : Node) (st1 : St) : Option (Node × List Node × St) :=
  if Node.truthy c1.tail then
    let tl := c1.tail.getD []
    let h : Option (Str × St) := if c1.tailAtomic then some (tl, st1) else handleInlineTop cfg tl st1
    match h with
    | none => none
    | some (data, st2) =>
      match ppTop st2 data c1.tailAtomic (mkEl "d") false with
      | none => none
      | some (tr, dumby) =>
        let c2 : Node :=
          if Node.truthy dumby.tail then { c1 with tail := dumby.tail, tailAtomic := dumby.tailAtomic }
          else { c1 with tail := none, tailAtomic := false }
        some (c2, tr, st2)
  else some (c1, [], st1)

theorem visitChild_eq (cfg : Cfg) (child : Node) (v : Visit) :
    visitChild cfg child v =
      match textStep cfg child v.st with
      | none => none
      | some (c1, lst, st1) =>
        match tailStep cfg c1 st1 with
        | none => none
        | some (c2, tr, st2) =>
          let i := v.done.length
          let pushes := ((List.range lst.length).map (fun k => [i, k])).reverse ++ v.pushes
          let pushes := if child.children.isEmpty then pushes else [i] :: pushes
          let c3 := { c2 with children := lst ++ c2.children }
          some (c3, tr, { v with pushes := pushes, st := st2 }) := by
  unfold visitChild textStep tailStep
  rfl

theorem ppTop_ok (st : St) (hOK : StashOK st.stash) (data : Str) (atomic : Bool) (parent : Node) (isText : Bool) :
    ∃ res p', ppTop st data atomic parent isText = some (res, p') ∧ SameSide isText parent p' := by
  unfold ppTop
  exact processPlaceholders_total hOK (st.stash.length + 2) data (by omega) (by
    intro id _ it hget
    have := (stashGet_some hget).2
    have hlt : decToNat id < st.stash.length := by
      rcases Nat.lt_or_ge (decToNat id) st.stash.length with h | h
      · exact h
      · rw [List.getElem?_eq_none h] at this; cases this
    omega) atomic parent isText

theorem optQ_getD {Q : Str → Prop} (hQ0 : Q []) {t : Option Str} (h : optQ Q t) : Q (t.getD []) := by
  cases t with
  | none => exact hQ0
  | some x => exact h x rfl

theorem textStep_ok (cfg : Cfg) (child : Node) (st : St) (hs : StashOK st.stash)
    (ht : optQ (IdsLt st.stash.length) child.text) :
    ∃ c1 lst st1, textStep cfg child st = some (c1, lst, st1) ∧ StashOK st1.stash ∧ st.stash <+: st1.stash ∧
      c1.tail = child.tail := by
  unfold textStep
  split
  · have htot := handleInlineTop_total cfg (child.text.getD []) st
    cases hh : handleInlineTop cfg (child.text.getD []) st with
    | none => rw [hh] at htot; cases htot
    | some p =>
      obtain ⟨data, st1⟩ := p
      obtain ⟨a1, a2, a3⟩ := handleInlineTop_inv cfg hh hs (optQ_getD (IdsLt.nil _) ht)
      obtain ⟨res, p', hp, hside⟩ := ppTop_ok st1 a1 data false { child with text := none, textAtomic := false } true
      simp only [hp]
      exact ⟨_, _, _, rfl, a1, a3, hside.2.1 rfl⟩
  · exact ⟨_, _, _, rfl, hs, List.prefix_refl _, rfl⟩

theorem tailStep_ok (cfg : Cfg) (c1 : Node) (st1 : St) (hs : StashOK st1.stash)
    (ht : optQ (IdsLt st1.stash.length) c1.tail) :
    ∃ c2 tr st2, tailStep cfg c1 st1 = some (c2, tr, st2) ∧ StashOK st2.stash ∧ st1.stash <+: st2.stash := by
  unfold tailStep
  split
  · simp only
    by_cases hat : c1.tailAtomic = true
    · simp only [hat, if_true]
      obtain ⟨res, p', hp, _⟩ := ppTop_ok st1 hs (c1.tail.getD []) true (mkEl "d") false
      simp only [hp]
      exact ⟨_, _, _, rfl, hs, List.prefix_refl _⟩
    · simp only [hat]
      have htot := handleInlineTop_total cfg (c1.tail.getD []) st1
      cases hh : handleInlineTop cfg (c1.tail.getD []) st1 with
      | none => rw [hh] at htot; cases htot
      | some p =>
        obtain ⟨data, st2⟩ := p
        obtain ⟨a1, a2, a3⟩ := handleInlineTop_inv cfg hh hs (optQ_getD (IdsLt.nil _) ht)
        obtain ⟨res, p', hp, _⟩ := ppTop_ok st2 a1 data false (mkEl "d") false
        simp only [Bool.false_eq_true, if_false, hp]
        exact ⟨_, _, _, rfl, a1, a3⟩
  · exact ⟨_, _, _, rfl, hs, List.prefix_refl _⟩

/-- **one visit**: processing the text and the tail of one child succeeds and keeps `StashOK`, when the stash is
    `StashOK` and the child's text and tail only hold ids of existing entries -/
theorem visitChild_total (cfg : Cfg) (child : Node) (v : Visit) (hs : StashOK v.st.stash)
    (ht : optQ (IdsLt v.st.stash.length) child.text) (htl : optQ (IdsLt v.st.stash.length) child.tail) :
    ∃ c tr v', visitChild cfg child v = some (c, tr, v') ∧ StashOK v'.st.stash ∧ v.st.stash <+: v'.st.stash := by
  rw [visitChild_eq]
  obtain ⟨c1, lst, st1, h1, a1, a2, a3⟩ := textStep_ok cfg child v.st hs ht
  rw [h1]
  simp only
  obtain ⟨c2, tr, st2, h2, b1, b2⟩ := tailStep_ok cfg c1 st1 a1 (by rw [a3]; exact optQ_mono a2.length_le htl)
  rw [h2]
  exact ⟨_, _, _, rfl, b1, a2.trans b2⟩

/-! #### more fuel never changes a result -/

theorem visitLoop_mono (cfg : Cfg) : ∀ (g g' : Nat) (todo : List (Node × Option Nat)) (v r : Visit), g ≤ g' →
    visitLoop cfg g todo v = some r → visitLoop cfg g' todo v = some r := by
  intro g
  induction g with
  | zero => intro g' todo v r _ h; simp [visitLoop] at h
  | succ g ih =>
    intro g' todo v r hle h
    cases g' with
    | zero => omega
    | succ g' =>
      cases todo with
      | nil => simpa [visitLoop] using h
      | cons x todo =>
        obtain ⟨child, orig⟩ := x
        simp only [visitLoop] at h ⊢
        split at h
        · cases h
        · next c tr v1 hx =>
          try simp only [hx]
          exact ih g' _ _ _ (by omega) h

theorem runLoop_mono (cfg : Cfg) {g2 g2' : Nat} (h2 : g2 ≤ g2') : ∀ (g g' : Nat) (root : Node) (stack : List Path)
    (st : St) (r : Node × St), g ≤ g' → runLoop cfg g2 g root stack st = some r →
    runLoop cfg g2' g' root stack st = some r := by
  intro g
  induction g with
  | zero => intro g' root stack st r _ h; simp [runLoop] at h
  | succ g ih =>
    intro g' root stack st r hle h
    cases g' with
    | zero => omega
    | succ g' =>
      cases stack with
      | nil => simpa [runLoop] using h
      | cons p stack =>
        simp only [runLoop] at h ⊢
        split at h
        · next hget =>
          try simp only [hget]
          exact ih g' _ _ _ _ (by omega) h
        · next cur hget =>
          try simp only [hget]
          split at h
          · cases h
          · next v hv =>
            rw [visitLoop_mono cfg g2 g2' _ _ _ h2 hv]
            exact ih g' _ _ _ _ (by omega) h

end MdVerif.Inline

/-! ## `RawHtmlPostprocessor.run`: the fix-point recursion -/
namespace MdVerif.Post
open Py

/-- the character after a stray `STX` stays where it is and cannot continue a placeholder -/
def okAfterStx (r : Str) : Bool :=
  match r with
  | [] => true
  | x :: _ => x != 'w' && x != STX && x != '<'

/-- every `STX` of the text begins a well-formed raw-HTML placeholder, or is followed by a character other than
    `w`, `STX`, `<` (e.g. the `STX` of a leaked inline placeholder `STX klzzwxh:…`, of `STX amp ETX`, of an escape
    `STX 42 ETX`) -/
def wellPh : Str → Bool
  | [] => true
  | c :: r => (c != STX || (htmlPhAt (c :: r)).isSome || okAfterStx r) && wellPh r

/-- the numbers of all well-formed placeholders of the text -/
def phAll : Str → List Str
  | [] => []
  | c :: r => (match htmlPhAt (c :: r) with | some (d, _) => [d] | none => []) ++ phAll r

theorem subPass_skip (bl : List Str) (stash : List Str) : ∀ (k : Nat) (s : Str),
    subPass bl stash k s = subPass bl stash 0 (s.drop k) := by
  intro k
  induction k with
  | zero => intro s; rfl
  | succ k ih =>
    intro s
    cases s with
    | nil => simp [subPass]
    | cons c r => simp only [subPass, List.drop_succ_cons]; exact ih r

theorem htmlPhAt_head {suf : Str} {d : Str} {l : Nat} (h : htmlPhAt suf = some (d, l)) : suf.head? = some STX := by
  unfold htmlPhAt at h
  split at h
  · next hs =>
    obtain ⟨t, ht⟩ := startsWith_iff_prefix.1 hs
    rw [ht]; rfl
  · cases h

theorem htmlPhAt_none_of_ne {c : Char} (r : Str) (h : c ≠ STX) : htmlPhAt (c :: r) = none := by
  cases hh : htmlPhAt (c :: r) with
  | none => rfl
  | some p =>
    obtain ⟨d, l⟩ := p
    have := htmlPhAt_head hh
    simp at this; exact absurd this h

/-- shape of a placeholder occurrence -/
theorem htmlPhAt_decomp {suf : Str} {d : Str} {l : Nat} (h : htmlPhAt suf = some (d, l)) :
    suf = htmlPrefix ++ d ++ ETX :: suf.drop l ∧ l = htmlPrefixLen + d.length + 1 ∧ 0 < d.length ∧
      (∀ c ∈ d, isAsciiDigit c = true) := by
  unfold htmlPhAt at h
  split at h
  · next hs =>
    simp only at h
    split at h
    · next hc =>
      simp only [Bool.and_eq_true, decide_eq_true_eq, beq_iff_eq] at hc
      cases h
      have hsuf := startsWith_drop hs
      have hlen : htmlPrefix.length = htmlPrefixLen := rfl
      rw [hlen] at hsuf
      generalize suf.drop htmlPrefixLen = r at hsuf hc
      have hr : r = r.take (spanLen isAsciiDigit r) ++ ETX :: r.drop (spanLen isAsciiDigit r + 1) := by
        have h1 : spanLen isAsciiDigit r < r.length := by
          rcases Nat.lt_or_ge (spanLen isAsciiDigit r) r.length with h' | h'
          · exact h'
          · rw [List.getElem?_eq_none h'] at hc; cases hc.2
        conv => lhs; rw [← List.take_append_drop (spanLen isAsciiDigit r) r]
        congr 1
        rw [List.drop_eq_getElem_cons h1]
        congr 1
        have := hc.2
        rw [List.getElem?_eq_getElem h1] at this
        exact Option.some.inj this
      have hlenle := spanLen_le isAsciiDigit r
      refine ⟨?_, by simp [List.length_take]; omega, by simp [List.length_take]; omega, spanLen_prefix_all _ _⟩
      have hd : suf.drop (htmlPrefixLen + spanLen isAsciiDigit r + 1) = r.drop (spanLen isAsciiDigit r + 1) := by
        conv => lhs; rw [hsuf]
        rw [show htmlPrefixLen + spanLen isAsciiDigit r + 1 = htmlPrefix.length + (spanLen isAsciiDigit r + 1) by
          rw [hlen]; omega]
        rw [List.drop_append]
        have h0 : List.drop (htmlPrefix.length + (spanLen isAsciiDigit r + 1)) htmlPrefix = [] :=
          List.drop_eq_nil_of_le (by omega)
        rw [h0, List.nil_append]
        congr 1; omega
      rw [hd, List.append_assoc, ← hr]
      exact hsuf
    · cases h
  · cases h

theorem etx_not_digit : isAsciiDigit ETX = false := by decide

/-- a complete placeholder is recognised whatever follows -/
theorem htmlPhAt_complete {d : Str} (hd : 0 < d.length) (hdig : ∀ c ∈ d, isAsciiDigit c = true) (y : Str) :
    htmlPhAt (htmlPrefix ++ d ++ ETX :: y) = some (d, htmlPrefixLen + d.length + 1) := by
  unfold htmlPhAt
  have hs : startsWith (htmlPrefix ++ d ++ ETX :: y) htmlPrefix = true := by
    rw [List.append_assoc]; exact startsWith_append _ _
  rw [if_pos hs]
  have hdrop : (htmlPrefix ++ d ++ ETX :: y).drop htmlPrefixLen = d ++ ETX :: y := by
    rw [List.append_assoc, show htmlPrefixLen = htmlPrefix.length from rfl, List.drop_left]
  simp only [hdrop]
  have hall : d.all isAsciiDigit = true := List.all_eq_true.2 hdig
  have hspan : spanLen isAsciiDigit (d ++ ETX :: y) = d.length := by
    rw [spanLen_append_of_all hall, spanLen_cons, etx_not_digit]; simp
  rw [hspan]
  simp [hd]

theorem phAll_append_of_no_stx {a : Str} (h : STX ∉ a) (b : Str) : phAll (a ++ b) = phAll b := by
  induction a with
  | nil => rfl
  | cons c r ih =>
    have hc : c ≠ STX := fun e => h (by rw [e]; exact List.mem_cons_self ..)
    have hr : STX ∉ r := fun e => h (List.mem_cons_of_mem _ e)
    simp only [List.cons_append, phAll, htmlPhAt_none_of_ne _ hc, List.nil_append]
    exact ih hr

theorem no_stx_of_digits {d : Str} (hdig : ∀ c ∈ d, isAsciiDigit c = true) : STX ∉ d := by
  intro h
  have := hdig _ h
  revert this; decide

/-- the placeholders of `placeholder ++ y` are its number and those of `y` -/
theorem phAll_placeholder {d : Str} (hd : 0 < d.length) (hdig : ∀ c ∈ d, isAsciiDigit c = true) (y : Str) :
    phAll (htmlPrefix ++ d ++ ETX :: y) = d :: phAll y := by
  have h1 := htmlPhAt_complete hd hdig y
  have hshape : htmlPrefix ++ d ++ ETX :: y = STX :: ("wzxhzdk:".toList ++ d ++ [ETX] ++ y) := by
    simp [htmlPrefix]
  rw [hshape] at h1 ⊢
  simp only [phAll, h1, List.singleton_append, List.cons.injEq, true_and]
  rw [List.append_assoc, List.append_assoc]
  rw [phAll_append_of_no_stx (by decide), phAll_append_of_no_stx (no_stx_of_digits hdig)]
  rw [phAll_append_of_no_stx (by decide)]

theorem phAll_drop_subset (s : Str) (k : Nat) : ∀ d ∈ phAll (s.drop k), d ∈ phAll s := by
  induction k generalizing s with
  | zero => intro d h; simpa using h
  | succ k ih =>
    intro d h
    cases s with
    | nil => simpa using h
    | cons c r =>
      simp only [List.drop_succ_cons] at h
      simp only [phAll, List.mem_append]
      exact Or.inr (ih r d h)

theorem phAll_head_mem {suf : Str} {d : Str} {l : Nat} (h : htmlPhAt suf = some (d, l)) : d ∈ phAll suf := by
  cases suf with
  | nil => simp [htmlPhAt, htmlPrefix] at h
  | cons c r => simp [phAll, h]

theorem wellPh_drop (s : Str) (k : Nat) (h : wellPh s = true) : wellPh (s.drop k) = true := by
  induction k generalizing s with
  | zero => simpa using h
  | succ k ih =>
    cases s with
    | nil => simp [wellPh]
    | cons c r =>
      simp only [wellPh, Bool.and_eq_true] at h
      simp only [List.drop_succ_cons]
      exact ih r h.2

/-- the text is a fixed point of the substitution: no placeholder of it has an entry -/
def Stable (stash : List Str) (s : Str) : Prop := ∀ d ∈ phAll s, stashLookup stash d = none

theorem subPass_stable (bl : List Str) (stash : List Str) : ∀ (n : Nat) (s : Str), s.length ≤ n → Stable stash s →
    subPass bl stash 0 s = s := by
  intro n
  induction n with
  | zero =>
    intro s hl _
    cases s with
    | nil => rfl
    | cons c r => simp at hl
  | succ n ih =>
    intro s hl hst
    cases s with
    | nil => rfl
    | cons c r =>
      have hrest : ∀ k, 0 < k → subPass bl stash (k - 1) r = (c :: r).drop k := by
        intro k hk
        rw [subPass_skip]
        have hd : r.drop (k - 1) = (c :: r).drop k := by
          cases k with
          | zero => omega
          | succ k => simp
        rw [hd]
        apply ih
        · simp only [List.length_drop, List.length_cons] at hl ⊢; omega
        · intro d hd'; exact hst d (phAll_drop_subset _ _ d hd')
      simp only [subPass]
      split
      · next out len halt =>
        split at halt
        · split at halt
          · next digits l hph =>
            split at halt
            · have hmem : digits ∈ phAll (c :: r) := phAll_drop_subset _ 3 _ (phAll_head_mem hph)
              have hnone := hst digits hmem
              simp only [hnone] at halt
              cases halt
              rw [hrest _ (by omega), List.take_append_drop]
            · cases halt
          · cases halt
        · cases halt
      · split
        · next digits l hph =>
          split at hph
          · have hnone := hst digits (phAll_head_mem hph)
            simp only [hnone]
            have hl' := (htmlPhAt_decomp hph).2.1
            rw [hrest _ (by omega), List.take_append_drop]
          · cases hph
        · rw [hrest 1 (by omega)]; rfl

theorem stashLookup_mem {stash : List Str} {d html : Str} (h : stashLookup stash d = some html) : html ∈ stash := by
  unfold stashLookup at h
  simp only at h
  split at h
  · exact List.mem_of_getElem? h
  · cases h

/-- one pass over a text whose `STX` all begin placeholders, with `STX`-free entries, leaves only placeholders
    without an entry -/
theorem subPass_makes_stable (bl : List Str) (stash : List Str) (hst : ∀ e ∈ stash, STX ∉ e) :
    ∀ (n : Nat) (s : Str), s.length ≤ n → wellPh s = true → Stable stash (subPass bl stash 0 s) := by
  intro n
  induction n with
  | zero =>
    intro s hl _
    cases s with
    | nil => intro d hd; simp [subPass, phAll] at hd
    | cons c r => simp at hl
  | succ n ih =>
    intro s hl hw
    cases s with
    | nil => intro d hd; simp [subPass, phAll] at hd
    | cons c r =>
      have hrest : ∀ k, 0 < k → Stable stash (subPass bl stash (k - 1) r) := by
        intro k hk
        rw [subPass_skip]
        have hd : r.drop (k - 1) = (c :: r).drop k := by
          cases k with
          | zero => omega
          | succ k => simp
        rw [hd]
        apply ih
        · simp only [List.length_drop, List.length_cons] at hl ⊢; omega
        · exact wellPh_drop _ _ hw
      -- the unchanged copy of a placeholder, possibly inside `<p>` … `</p>`
      have hcopy : ∀ (pre : Str) (suf : Str) (digits : Str) (l : Nat) (post X : Str), STX ∉ pre → STX ∉ post →
          htmlPhAt suf = some (digits, l) → stashLookup stash digits = none → Stable stash X →
          Stable stash (pre ++ suf.take l ++ post ++ X) := by
        intro pre suf digits l post X hpre hpost hph hnone hX
        obtain ⟨h1, h2, h3, h4⟩ := htmlPhAt_decomp hph
        have htake : suf.take l = htmlPrefix ++ digits ++ [ETX] := by
          conv => lhs; rw [h1]
          have : l = (htmlPrefix ++ digits ++ [ETX]).length := by
            simp only [List.length_append, List.length_singleton]; rw [h2]; rfl
          rw [show htmlPrefix ++ digits ++ ETX :: suf.drop l = (htmlPrefix ++ digits ++ [ETX]) ++ suf.drop l by simp]
          rw [this, List.take_left]
        intro d hd
        rw [htake, List.append_assoc, List.append_assoc, phAll_append_of_no_stx hpre] at hd
        rw [show htmlPrefix ++ digits ++ [ETX] ++ (post ++ X) = htmlPrefix ++ digits ++ ETX :: (post ++ X) by simp] at hd
        rw [phAll_placeholder h3 h4, phAll_append_of_no_stx hpost] at hd
        rcases List.mem_cons.1 hd with rfl | hd
        · exact hnone
        · exact hX d hd
      simp only [subPass]
      split
      · next out len halt =>
        split at halt
        · next hlt =>
          split at halt
          · next digits l hph =>
            split at halt
            · next hclose =>
              cases hlook : stashLookup stash digits with
              | none =>
                simp only [hlook] at halt
                cases halt
                simp only [Bool.and_eq_true, decide_eq_true_eq] at hlt
                have hp3 : (c :: r) = "<p>".toList ++ (c :: r).drop 3 := startsWith_drop hlt.2
                have hp4 : ((c :: r).drop (3 + l)) = "</p>".toList ++ ((c :: r).drop (3 + l)).drop 4 :=
                  startsWith_drop hclose
                have htk : (c :: r).take (3 + l + 4) = "<p>".toList ++ ((c :: r).drop 3).take l ++ "</p>".toList := by
                  have e1 : (c :: r).take (3 + l + 4) = (c :: r).take 3 ++ (((c :: r).drop 3).take l ++
                      (((c :: r).drop 3).drop l).take 4) := by
                    rw [show 3 + l + 4 = 3 + (l + 4) by omega, List.take_add, List.take_add]
                  rw [e1]
                  have e2 : (c :: r).take 3 = "<p>".toList := by
                    conv => lhs; rw [hp3]
                    rfl
                  have e3 : (((c :: r).drop 3).drop l).take 4 = "</p>".toList := by
                    rw [List.drop_drop, hp4]; rfl
                  rw [e2, e3, List.append_assoc]
                rw [htk]
                have := hcopy "<p>".toList ((c :: r).drop 3) digits l "</p>".toList _ (by decide) (by decide) hph hlook
                  (hrest (3 + l + 4) (by omega))
                simpa [List.append_assoc] using this
              | some html =>
                simp only [hlook] at halt
                have hh : STX ∉ html := hst html (stashLookup_mem hlook)
                split at halt
                · cases halt
                  intro d hd
                  rw [phAll_append_of_no_stx hh] at hd
                  exact hrest _ (by omega) d hd
                · cases halt
                  intro d hd
                  rw [List.append_assoc, List.append_assoc, phAll_append_of_no_stx (by decide),
                    phAll_append_of_no_stx hh, phAll_append_of_no_stx (by decide)] at hd
                  exact hrest _ (by omega) d hd
            · cases halt
          · cases halt
        · cases halt
      · split
        · next digits l hph =>
          split at hph
          · have hl' := (htmlPhAt_decomp hph).2.1
            cases hlook : stashLookup stash digits with
            | none =>
              simp only
              have := hcopy [] (c :: r) digits l [] _ (by simp) (by simp) hph hlook (hrest l (by omega))
              simpa using this
            | some html =>
              simp only
              have hh : STX ∉ html := hst html (stashLookup_mem hlook)
              intro d hd
              rw [phAll_append_of_no_stx hh] at hd
              exact hrest _ (by omega) d hd
          · cases hph
        · next hnone =>
          by_cases hc : c = STX
          · subst hc
            simp only [if_true] at hnone
            simp only [wellPh, Bool.and_eq_true, Bool.or_eq_true, bne_iff_ne, ne_eq, not_true_eq_false, false_or]
              at hw
            have hok : okAfterStx r = true := by
              rcases hw.1 with h | h
              · rw [hnone] at h; cases h
              · exact h
            have hhead : htmlPhAt (STX :: subPass bl stash 0 r) = none := by
              cases r with
              | nil => simp [subPass, htmlPhAt, startsWith, htmlPrefix]
              | cons x r' =>
                simp only [okAfterStx, Bool.and_eq_true, bne_iff_ne, ne_eq] at hok
                have hx : subPass bl stash 0 (x :: r') = x :: subPass bl stash 0 r' := by
                  simp [subPass, hok.1.2, hok.2]
                rw [hx]
                simp [htmlPhAt, startsWith, htmlPrefix, hok.1.1]
            intro d hd
            simp only [phAll, hhead, List.nil_append] at hd
            exact hrest 1 (by omega) d hd
          · intro d hd
            simp only [phAll, htmlPhAt_none_of_ne _ hc, List.nil_append] at hd
            exact hrest 1 (by omega) d hd

/-- `RawHtmlPostprocessor.run` reaches its fixed point after one substitution pass (the second pass changes
    nothing), so `rawHtmlFuel` suffices -/
theorem rawHtml_total (bl : List Str) (stash : List Str) (text : Str) (hst : ∀ e ∈ stash, STX ∉ e)
    (hw : wellPh text = true) :
    rawHtml bl stash (rawHtmlFuel stash) text = some (if stash.isEmpty then text else subPass bl stash 0 text) := by
  unfold rawHtmlFuel
  rw [show stash.length + 3 = (stash.length + 1) + 1 + 1 by omega]
  simp only [rawHtml]
  split
  · rfl
  · split
    · next h => rw [h]
    · have hstable := subPass_makes_stable bl stash hst _ text (Nat.le_refl _) hw
      have := subPass_stable bl stash _ _ (Nat.le_refl _) hstable
      simp only [this, if_true]

end MdVerif.Post

/-! ## `UnescapeTreeprocessor`: when `chr(int(…))` raises -/
namespace MdVerif.TreeProc
open Py

/-- at the start of `suf`: `STX digits ETX` with a number that `chr` rejects -/
def BadAt (suf : Str) : Prop :=
  ∃ d post, suf = STX :: (d ++ ETX :: post) ∧ d ≠ [] ∧ (∀ c ∈ d, isDecimal c = true) ∧ 0x110000 ≤ decToNat d

theorem unescapeText_skip : ∀ (k : Nat) (s : Str), unescapeText k s = unescapeText 0 (s.drop k) := by
  intro k
  induction k with
  | zero => intro s; rfl
  | succ k ih =>
    intro s
    cases s with
    | nil => simp [unescapeText]
    | cons c r => simp only [unescapeText, List.drop_succ_cons]; exact ih r

theorem etx_not_decimal : isDecimal ETX = false := by decide
theorem stx_not_decimal : isDecimal STX = false := by decide

/-- the scanner at an `STX`: the digits it reads -/
theorem span_decomp (s : Str) (h : 0 < spanLen isDecimal s ∧ s[spanLen isDecimal s]? = some ETX) :
    s = s.take (spanLen isDecimal s) ++ ETX :: s.drop (spanLen isDecimal s + 1) := by
  have h1 : spanLen isDecimal s < s.length := by
    rcases Nat.lt_or_ge (spanLen isDecimal s) s.length with h' | h'
    · exact h'
    · rw [List.getElem?_eq_none h'] at h; cases h.2
  conv => lhs; rw [← List.take_append_drop (spanLen isDecimal s) s]
  congr 1
  rw [List.drop_eq_getElem_cons h1]
  congr 1
  have := h.2
  rw [List.getElem?_eq_getElem h1] at this
  exact Option.some.inj this

theorem spanLen_digits_etx {d : Str} (hd : ∀ c ∈ d, isDecimal c = true) (post : Str) :
    spanLen isDecimal (d ++ ETX :: post) = d.length := by
  rw [spanLen_append_of_all (List.all_eq_true.2 hd), spanLen_cons, etx_not_decimal]; simp

/-- **exact characterisation**: `unescape` raises iff somewhere in the text there is `STX digits ETX` (digits =
    `\d+`, any script) whose number is above `0x10FFFF` -/
theorem unescapeText_none_iff (s : Str) : unescapeText 0 s = none ↔ ∃ k, BadAt (s.drop k) := by
  have main : ∀ (n : Nat) (s : Str), s.length ≤ n → (unescapeText 0 s = none ↔ ∃ k, BadAt (s.drop k)) := by
    intro n
    induction n with
    | zero =>
      intro s hl
      have : s = [] := List.eq_nil_of_length_eq_zero (by omega)
      subst this
      simp only [unescapeText, List.drop_nil, reduceCtorEq, false_iff]
      rintro ⟨k, d, post, h, _⟩
      cases h
    | succ n ih =>
      intro s hl
      cases s with
      | nil =>
        simp only [unescapeText, List.drop_nil, reduceCtorEq, false_iff]
        rintro ⟨k, d, post, h, _⟩
        cases h
      | cons c r =>
        have hl' : r.length ≤ n := by simp at hl; omega
        have shift : (∃ k, BadAt (r.drop k)) → ∃ k, BadAt ((c :: r).drop k) := by
          rintro ⟨k, hk⟩; exact ⟨k + 1, by simpa using hk⟩
        have unshift : ¬ BadAt (c :: r) → (∃ k, BadAt ((c :: r).drop k)) → ∃ k, BadAt (r.drop k) := by
          rintro h0 ⟨k, hk⟩
          cases k with
          | zero => exact absurd (by simpa using hk) h0
          | succ k => exact ⟨k, by simpa using hk⟩
        simp only [unescapeText]
        split
        · next hc =>
          subst hc
          split
          · next hm =>
            simp only [Bool.and_eq_true, decide_eq_true_eq, beq_iff_eq] at hm
            have hdec := span_decomp r hm
            have hdig : ∀ c ∈ r.take (spanLen isDecimal r), isDecimal c = true := spanLen_prefix_all _ _
            split
            · next hv =>
              -- a valid escape: the scan goes on after it
              rw [Option.map_eq_none_iff, unescapeText_skip]
              have hlen : (r.drop (spanLen isDecimal r + 1)).length ≤ n := by
                simp only [List.length_drop]; omega
              rw [ih _ hlen]
              constructor
              · rintro ⟨k, hk⟩
                refine ⟨(spanLen isDecimal r + 1 + k) + 1, ?_⟩
                rw [List.drop_succ_cons, ← List.drop_drop]
                exact hk
              · rintro ⟨k, hk⟩
                -- the bad occurrence starts with `STX`, which is neither a digit nor `ETX`
                obtain ⟨d, post, hk1, hk2, hk3, hk4⟩ := hk
                have hge : spanLen isDecimal r + 2 ≤ k := by
                  rcases Nat.lt_or_ge k (spanLen isDecimal r + 2) with hlt | hge
                  · exfalso
                    cases k with
                    | zero =>
                      simp only [List.drop_zero, List.cons.injEq, true_and] at hk1
                      have h1 : spanLen isDecimal r = d.length := by
                        rw [hk1]; exact spanLen_digits_etx hk3 post
                      have h2 : decToNat (r.take (spanLen isDecimal r)) = decToNat d := by
                        rw [h1]; conv => lhs; rw [hk1]
                        simp
                      omega
                    | succ k =>
                      simp only [List.drop_succ_cons] at hk1
                      have hk' : r[k]? = some STX := by
                        have := congrArg List.head? hk1
                        simpa [List.head?_drop] using this
                      rw [hdec] at hk'
                      have hsl := spanLen_le isDecimal r
                      have htl : (r.take (spanLen isDecimal r)).length = spanLen isDecimal r := by
                        rw [List.length_take]; exact Nat.min_eq_left hsl
                      rcases Nat.lt_or_ge k (spanLen isDecimal r) with h' | h'
                      · rw [List.getElem?_append_left (by rw [htl]; exact h')] at hk'
                        have hmem := List.mem_of_getElem? hk'
                        have := hdig _ hmem
                        rw [stx_not_decimal] at this; cases this
                      · have hkeq : k = spanLen isDecimal r := by omega
                        rw [List.getElem?_append_right (by rw [htl]; omega)] at hk'
                        rw [htl, hkeq, Nat.sub_self] at hk'
                        simp only [List.getElem?_cons_zero, Option.some.injEq] at hk'
                        revert hk'; decide
                  · exact hge
                refine ⟨k - (spanLen isDecimal r + 2), d, post, ?_, hk2, hk3, hk4⟩
                rw [← hk1, List.drop_drop]
                have : k = (spanLen isDecimal r + 1 + (k - (spanLen isDecimal r + 2))) + 1 := by omega
                conv => rhs; rw [this]
                rw [List.drop_succ_cons]
            · next hv =>
              simp only [true_iff]
              refine ⟨0, r.take (spanLen isDecimal r), r.drop (spanLen isDecimal r + 1), ?_, ?_, hdig, by omega⟩
              · simp only [List.drop_zero, List.cons.injEq, true_and]; exact hdec
              · intro e
                have hlen2 : (r.take (spanLen isDecimal r)).length = spanLen isDecimal r := by
                  rw [List.length_take]; exact Nat.min_eq_left (spanLen_le _ _)
                rw [e] at hlen2
                simp at hlen2
                omega
          · next hm =>
            rw [Option.map_eq_none_iff, ih _ hl']
            have h0 : ¬ BadAt (STX :: r) := by
              rintro ⟨d, post, h1, h2, h3, h4⟩
              simp only [List.cons.injEq, true_and] at h1
              apply hm
              have hs := spanLen_digits_etx h3 post
              rw [← h1] at hs
              simp only [Bool.and_eq_true, decide_eq_true_eq, beq_iff_eq]
              refine ⟨by rw [hs]; exact List.length_pos_iff.2 h2, ?_⟩
              rw [hs, h1]; simp
            exact ⟨shift, unshift h0⟩
        · next hc =>
          rw [Option.map_eq_none_iff, ih _ hl']
          have h0 : ¬ BadAt (c :: r) := by
            rintro ⟨d, post, h1, _⟩
            simp only [List.cons.injEq] at h1
            exact hc h1.1
          exact ⟨shift, unshift h0⟩
  exact main s.length s (Nat.le_refl _)

/-- no `STX`, no failure -/
theorem unescapeText_some_of_no_stx {s : Str} (h : STX ∉ s) : unescapeText 0 s = some s := by
  induction s with
  | nil => rfl
  | cons c r ih =>
    have hc : c ≠ STX := fun e => h (by rw [e]; exact List.mem_cons_self ..)
    have hr : STX ∉ r := fun e => h (List.mem_cons_of_mem _ e)
    simp only [unescapeText, hc, if_false, ih hr, Option.map_some]

theorem char_toNat_lt (ch : Char) : ch.toNat < 0x110000 := by
  have := ch.valid
  unfold UInt32.isValidChar Nat.isValidChar at this
  show ch.val.toNat < _
  omega

/-- what the escape pattern stores for `\ch` is read back as `ch` -/
theorem escape_entry_roundtrip (ch : Char) : unescapeText 0 (STX :: natToDec ch.toNat ++ [ETX]) = some [ch] := by
  have hdig : ∀ c ∈ natToDec ch.toNat, isDecimal c = true :=
    fun c hc => isDecimal_of_isAsciiDigit (natToDec_digits _ c hc)
  have hs : spanLen isDecimal (natToDec ch.toNat ++ [ETX]) = (natToDec ch.toNat).length :=
    spanLen_digits_etx hdig []
  have hpos := natToDec_length_pos ch.toNat
  rw [List.cons_append]
  simp only [unescapeText, if_true, hs]
  have h1 : (natToDec ch.toNat ++ [ETX])[(natToDec ch.toNat).length]? = some ETX := by simp
  have h2 : (natToDec ch.toNat ++ [ETX]).take (natToDec ch.toNat).length = natToDec ch.toNat := by simp
  simp only [h1, h2, decToNat_natToDec, hpos, decide_true, Bool.and_self, if_true, char_toNat_lt ch, beq_self_eq_true]
  rw [unescapeText_skip]
  simp [unescapeText, Char.ofNat_toNat]

mutual
/-- the strings `UnescapeTreeprocessor.run` passes to `unescape`: every truthy text of an element other than
    `code`, every truthy tail, every attribute value -/
def unescInputs : Node → List Str
  | ⟨tag, attrs, text, _, children, tail, _⟩ =>
    (if Node.truthy text && !(tag == .name "code".toList) then [text.getD []] else []) ++
    (if Node.truthy tail then [tail.getD []] else []) ++ attrs.map (·.2) ++ unescInputsList children
def unescInputsList : List Node → List Str
  | [] => []
  | c :: r => unescInputs c ++ unescInputsList r
end

theorem unescAttrs_isSome : ∀ (attrs : List (Str × Str)),
    (unescAttrs attrs).isSome = true ↔ ∀ s ∈ attrs.map (·.2), (unescapeText 0 s).isSome = true := by
  intro attrs
  induction attrs with
  | nil => simp [unescAttrs]
  | cons kv r ih =>
    obtain ⟨k, v⟩ := kv
    simp only [unescAttrs, List.map_cons, List.mem_cons, forall_eq_or_imp]
    rw [← ih]
    cases unescapeText 0 v <;> cases unescAttrs r <;> simp

theorem forall_mem_ite {P : Str → Prop} (b : Bool) (x : Str) :
    (∀ s ∈ (if b = true then [x] else []), P s) ↔ (b = true → P x) := by cases b <;> simp

mutual
theorem unescapeTree_isSome : ∀ (t : Node),
    (unescapeTree t).isSome = true ↔ ∀ s ∈ unescInputs t, (unescapeText 0 s).isSome = true
  | ⟨tag, attrs, text, ta, children, tail, tla⟩ => by
    have ihk := unescapeKids_isSome children
    have iha := unescAttrs_isSome attrs
    simp only [unescapeTree, unescInputs, List.mem_append, or_imp, forall_and, forall_mem_ite]
    rw [← ihk, ← iha]
    generalize (Node.truthy text && !(tag == Tag.name "code".toList)) = doText
    generalize Node.truthy tail = doTail
    generalize unescapeText 0 (text.getD []) = a
    generalize unescapeText 0 (tail.getD []) = b
    generalize unescAttrs attrs = c
    generalize unescapeKids children = d
    cases doText <;> cases doTail <;> cases a <;> cases b <;> cases c <;> cases d <;> simp
theorem unescapeKids_isSome : ∀ (l : List Node),
    (unescapeKids l).isSome = true ↔ ∀ s ∈ unescInputsList l, (unescapeText 0 s).isSome = true
  | [] => by simp [unescapeKids, unescInputsList]
  | c :: r => by
    have ih1 := unescapeTree_isSome c
    have ih2 := unescapeKids_isSome r
    simp only [unescapeKids, unescInputsList, List.mem_append, or_imp, forall_and]
    rw [← ih1, ← ih2]
    cases unescapeTree c <;> cases unescapeKids r <;> simp
end

end MdVerif.TreeProc
