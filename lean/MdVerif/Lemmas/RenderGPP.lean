/-
Helper lemmas for `Props/C16RenderG.lean`, part 3: `__processPlaceholders` on the text of a paragraph whose footnote
references were replaced by placeholders — the `sup` elements come back in order, each with the text that follows it
as tail; the visit of the paragraph by the inline tree processor.

Core Lean only.
-/
import MdVerif.Lemmas.RenderGInl

namespace MdVerif.RenderG
open Py Block BlockExt MdVerif.RenderX Inline InlineX

/-- a node with the text that follows it as tail -/
def withTail (n : Node) (u : Str) : Node := if u.isEmpty then n else { n with tail := some u, tailAtomic := false }

/-- the state of the `while data` loop after the items: `B` is the text pending before the first item -/
def ppFold : List (Node × Str) → Str → List Node × Node → List Node × Node
  | [], B, rp => DocParse2.lt B rp
  | it :: r, B, rp => ppFold r it.2 (it.1 :: (DocParse2.lt B rp).1, (DocParse2.lt B rp).2)

theorem lt_cons (nd : Node) (u : Str) (res : List Node) (par : Node) (h : nd.tail = none) :
    DocParse2.lt u (nd :: res, par) = (withTail nd u :: res, par) := by
  obtain ⟨tag, attrs, text, ta, children, tail, tla⟩ := nd
  simp only at h
  subst h
  cases u with
  | nil => simp [DocParse2.lt, linkText, withTail]
  | cons a b => simp [DocParse2.lt, linkText, withTail, Node.truthy]

theorem ppFold_closed : ∀ (items : List (Node × Str)) (nd : Node) (u : Str) (res : List Node) (par : Node),
    nd.tail = none → (∀ it ∈ items, it.1.tail = none) →
    ppFold items u (nd :: res, par) = ((items.map (fun it => withTail it.1 it.2)).reverse ++ (withTail nd u :: res), par) := by
  intro items
  induction items with
  | nil => intro nd u res par h _; simp [ppFold, lt_cons nd u res par h]
  | cons it r ih =>
    intro nd u res par h hall
    simp only [ppFold, lt_cons nd u res par h]
    rw [ih it.1 it.2 _ par (hall it List.mem_cons_self) (fun x hx => hall x (List.mem_cons_of_mem _ hx))]
    simp

theorem phPrefix_eq : phPrefix = STX :: "klzzwxh:".toList := by decide

theorem length_phItems (items : List (Node × Str)) : ∀ n, items.length ≤ (phItems n items).length := by
  induction items with
  | nil => intro n; simp
  | cons it r ih =>
    intro n
    have := ih (n + 1)
    have hp : 1 ≤ (placeholder n).length := by rw [Escape.placeholder_eq]; simp only [List.length_append, List.length_cons]; omega
    simp only [phItems, List.length_append, List.length_cons]
    omega

/-- the `while data` loop over the items -/
theorem ppLoop_items (S : List StashItem) (nested : Node → Option Node) :
    ∀ (items : List (Node × Str)) (P B : Str) (m : Nat) (rp : List Node × Node) (g : Nat),
      STX ∉ B → (∀ it ∈ items, STX ∉ it.2) → (∀ k it, items[k]? = some it → S[m + k]? = some (.node it.1)) →
      (∀ it ∈ items, nested it.1 = some it.1) → items.length + 1 ≤ g →
      ppLoop S nested (P ++ B ++ phItems m items) false true g P.length rp.1 rp.2 =
        some ((ppFold items B rp).1.reverse, (ppFold items B rp).2) := by
  intro items
  induction items with
  | nil =>
    intro P B m rp g hB _ _ _ hg
    obtain ⟨g', rfl⟩ : ∃ g', g = g' + 1 := ⟨g - 1, by omega⟩
    simp only [phItems, List.append_nil, ppFold]
    have hdrop : (P ++ B).drop P.length = B := List.drop_left' rfl
    rw [DocParse2.ppLoop_endG S nested (P ++ B) g' P.length rp (by simp)
      (by rw [hdrop, phPrefix_eq]; exact Escape.find_none_of_head hB), hdrop]
  | cons it r ih =>
    intro P B m rp g hB hT hS hN hg
    obtain ⟨g', rfl⟩ : ∃ g', g = g' + 1 := ⟨g - 1, by omega⟩
    have hdata : P ++ B ++ phItems m (it :: r) = (P ++ B) ++ placeholder m ++ (it.2 ++ phItems (m + 1) r) := by
      simp [phItems, List.append_assoc]
    have hdrop : ((P ++ B) ++ placeholder m ++ (it.2 ++ phItems (m + 1) r)).drop P.length =
        B ++ phPrefix ++ ((pad4 m ++ [ETX]) ++ (it.2 ++ phItems (m + 1) r)) := by
      rw [Escape.placeholder_eq]
      rw [show P ++ B ++ (phPrefix ++ (pad4 m ++ [ETX])) ++ (it.2 ++ phItems (m + 1) r) =
        P ++ (B ++ phPrefix ++ ((pad4 m ++ [ETX]) ++ (it.2 ++ phItems (m + 1) r))) by simp [List.append_assoc]]
      exact List.drop_left' rfl
    have hfind : find phPrefix (((P ++ B) ++ placeholder m ++ (it.2 ++ phItems (m + 1) r)).drop P.length) = some B.length := by
      rw [hdrop, phPrefix_eq]; exact Escape.find_prefix_after B _ hB
    have hph := Escape.findPh_placeholder (P ++ B) m (it.2 ++ phItems (m + 1) r)
    rw [List.length_append] at hph
    have hslice : Inline.slice ((P ++ B) ++ placeholder m ++ (it.2 ++ phItems (m + 1) r)) P.length (P.length + B.length) = B := by
      have : ((P ++ B) ++ placeholder m ++ (it.2 ++ phItems (m + 1) r)).take (P.length + B.length) = P ++ B := by
        rw [← List.length_append, List.append_assoc (P ++ B)]; exact List.take_left' rfl
      rw [Inline.slice, this]; simp
    have h4 : stashGet S (pad4 m) = some (.node it.1) := by
      rw [Escape.stashGet_pad4]
      have := hS 0 it (by simp)
      simpa using this
    rw [hdata, DocParse2.ppLoop_stepNode S nested _ g' P.length rp B.length (pad4 m) _ it.1 (by simp) hfind hph h4
      (hN it List.mem_cons_self), hslice]
    have hih := ih (P ++ B ++ placeholder m) it.2 (m + 1)
      (it.1 :: (DocParse2.lt B rp).1, (DocParse2.lt B rp).2) g' (hT it List.mem_cons_self)
      (fun x hx => hT x (List.mem_cons_of_mem _ hx))
      (fun k x hk => by
        have := hS (k + 1) x (by simpa using hk)
        rw [show m + 1 + k = m + (k + 1) by omega]; exact this)
      (fun x hx => hN x (List.mem_cons_of_mem _ hx)) (by simp at hg; omega)
    have e : P ++ B ++ placeholder m ++ (it.2 ++ phItems (m + 1) r) = P ++ B ++ placeholder m ++ it.2 ++ phItems (m + 1) r := by
      simp [List.append_assoc]
    rw [e, hih]
    rfl

/-- `__processPlaceholders` on an element `sup > a` with a number as text: nothing to do -/
theorem procNode_supG (S : List StashItem) (f : Nat) (refId id : Str) (n : Nat) :
    procNode (fun d a p t => processPlaceholders S (f + 1) d a p t) (supG refId id (natToDec n)) =
      some (supG refId id (natToDec n)) := by
  have hstx : STX ∉ natToDec n := by
    intro hm
    exact absurd (natToDec_alnumSp n _ hm) (by decide)
  have hnb : isBlank (natToDec n) = false := by
    cases h : natToDec n with
    | nil => exact absurd h (natToDec_ne n)
    | cons a b =>
      have ha : DocSpec.isAlnumSp a = true := natToDec_alnumSp n a (by rw [h]; simp)
      have ha2 := EscX.natToDec_all (fun c => c != ' ') (by decide) n a (by rw [h]; simp)
      have : isSpace a = false := DocParse.alnum_visible a ha (by simpa using ha2)
      simp [isBlank, this]
  have h1 := processPlaceholders_noPh S f (natToDec n)
    { tag := .name "a".toList, attrs := [("href".toList, '#' :: Footnotes.footnoteId id), ("class".toList, "footnote-ref".toList)] }
    (natToDec_ne n) (by rw [phPrefix_eq]; exact Escape.find_none_of_head hstx) rfl rfl
  have htr := truthy_natToDec n
  have htn : Node.truthy (none : Option Str) = false := rfl
  simp only [supG, procNode, petTail, petText, procKids, htr, htn, blankOpt, Bool.false_and, Bool.false_eq_true,
    if_false, Option.getD_some, Option.getD_none, hnb, Bool.not_false, Bool.and_self, if_true, h1, List.append_nil,
    List.nil_append]

/-- the items are `sup` elements with numbers, their texts are plain -/
structure ItemsOK (items : List (Node × Str)) : Prop where
  sup : ∀ it ∈ items, ∃ refId id n, it.1 = supG refId id (natToDec n)
  tails : ∀ it ∈ items, ∀ c ∈ it.2, DocSpec.isAlnumSp c = true

theorem itemsOK_refItems (keys : List Str) : ∀ (segs : List (Str × Str)) (fs : Footnotes.State), SegsOK segs →
    ItemsOK (refItems keys segs fs).1 := by
  intro segs
  induction segs with
  | nil => intro fs _; exact ⟨by simp [refItems], by simp [refItems]⟩
  | cons s r ih =>
    intro fs hs
    have h := ih (Footnotes.footnoteRefId s.1 true fs).2 hs.tail
    refine ⟨?_, ?_⟩
    · intro it hit
      simp only [refItems, List.mem_cons] at hit
      rcases hit with rfl | hit
      · exact ⟨_, _, _, fnRefNode_eq keys s.1 _⟩
      · exact h.sup it hit
    · intro it hit
      simp only [refItems, List.mem_cons] at hit
      rcases hit with rfl | hit
      · exact hs.tails s List.mem_cons_self
      · exact h.tails it hit

/-- `__processPlaceholders` on the text of the paragraph after the footnote pattern -/
theorem ppTop_items (st : Inline.St) (t : Str) (items : List (Node × Str)) (parent : Node) (n : Nat) (ht : t ≠ [])
    (hs : Inline.STX ∉ t) (hI : ItemsOK items)
    (hS : ∀ k it, items[k]? = some it → st.stash[n + k]? = some (.node it.1))
    (hp1 : parent.text = none) (hp2 : parent.textAtomic = false) :
    ppTop st (t ++ phItems n items) false parent true =
      some (items.map (fun it => withTail it.1 it.2), { parent with text := some t }) := by
  obtain ⟨c, r, rfl⟩ : ∃ c r, t = c :: r := by cases t <;> simp_all
  have hN : ∀ it ∈ items, procNode (fun d a p t_1 => processPlaceholders st.stash (st.stash.length + 1) d a p t_1) it.1 =
      some it.1 := by
    intro it hit
    obtain ⟨refId, id, k, e⟩ := hI.sup it hit
    rw [e]; exact procNode_supG st.stash st.stash.length refId id k
  have hT : ∀ it ∈ items, STX ∉ it.2 := by
    intro it hit hm
    exact absurd (hI.tails it hit _ hm) (by decide)
  have htl : ∀ it ∈ items, it.1.tail = none := by
    intro it hit
    obtain ⟨refId, id, k, e⟩ := hI.sup it hit
    rw [e]; rfl
  have hlen := length_phItems items n
  unfold ppTop
  rw [show st.stash.length + 2 = (st.stash.length + 1) + 1 from rfl]
  unfold processPlaceholders
  simp only [List.cons_append, List.isEmpty_cons, Bool.false_eq_true, if_false]
  have hloop := ppLoop_items st.stash
    (procNode fun d a p t_1 => processPlaceholders st.stash (st.stash.length + 1) d a p t_1) items [] (c :: r) n
    ([], parent) ((c :: (r ++ phItems n items)).length + 2) hs hT hS hN (by simp only [List.length_cons, List.length_append]; omega)
  simp only [List.nil_append, List.length_nil, List.cons_append] at hloop
  rw [hloop]
  obtain ⟨tag, attrs, text, ta, children, tail, tla⟩ := parent
  simp only at hp1 hp2
  subst hp1; subst hp2
  cases items with
  | nil => simp [ppFold, DocParse2.lt, linkText, Node.truthy]
  | cons it rest =>
    have h0 : DocParse2.lt (c :: r) ([], (⟨tag, attrs, none, false, children, tail, tla⟩ : Node)) =
        ([], ⟨tag, attrs, some (c :: r), false, children, tail, tla⟩) := by
      simp [DocParse2.lt, linkText, Node.truthy]
    simp only [ppFold, h0]
    rw [ppFold_closed rest it.1 it.2 [] _ (htl it List.mem_cons_self) (fun x hx => htl x (List.mem_cons_of_mem _ hx))]
    simp

end MdVerif.RenderG
