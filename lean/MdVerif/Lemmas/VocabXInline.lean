/-
Lemmas for C05 on the extension model (`PipelineX.treeX`), part 1: the inline stage over a pattern table
(`InlineX.runX`) keeps every element inside a vocabulary given as a predicate `qt` on (tag, attributes)
(`BlockExt.NI qt`), provided `qt` accepts the elements the patterns of the table build (`InlQ`).

Core Lean only.
-/
import MdVerif.Lemmas.InlineVocab
import MdVerif.Lemmas.BlockExtTree
import MdVerif.Lemmas.PlaceholdersRun
import MdVerif.Model.InlineX

namespace MdVerif.VocabX
open Py Inline InlineX
open BlockExt (NI NI_iff NI_fields NI_children allNodes allKids)

variable {qt : Tag → List (Str × Str) → Bool}

/-- what `qt` has to accept for the inline stage with the pattern table of `xc` -/
structure InlQ (qt : Tag → List (Str × Str) → Bool) (xc : InlineX.XCfg) : Prop where
  /-- the elements of the core patterns: `code`, `em`, `strong`, `a`, `img`, `br` with `href`/`title`/`src`/`alt` -/
  core : ∀ t attrs, Vocab2.hasTag Vocab2.inlineTags t = true → Vocab2.attrsOk attrs = true → qt (.name t) attrs = true
  /-- `FootnoteInlineProcessor`: `sup#fnref:… > a.footnote-ref` -/
  fnSup : PatK.footnote ∈ xc.table → ∀ v, qt (.name "sup".toList) [("id".toList, v)] = true
  fnA : PatK.footnote ∈ xc.table → ∀ h c, qt (.name "a".toList) [("href".toList, h), ("class".toList, c)] = true
  /-- `WikiLinksInlineProcessor`: `a.wikilink` -/
  wiki : PatK.wikilink ∈ xc.table → ∀ h c, qt (.name "a".toList) [("href".toList, h), ("class".toList, c)] = true

/-! ### vocabulary trees of the core proof are `NI` trees -/

mutual
theorem allNodes_of_goodT {ts : List String}
    (hq : ∀ t attrs, Vocab2.hasTag ts t = true → Vocab2.attrsOk attrs = true → qt (.name t) attrs = true) :
    (n : Node) → Vocab2.GoodT ts n = true → allNodes qt n = true
  | ⟨tag, attrs, text, ta, children, tail, tla⟩, h => by
    rw [Vocab2.goodT_mk, Bool.and_eq_true] at h
    simp only [allNodes, Bool.and_eq_true]
    refine ⟨?_, allKids_of_goodList hq children h.2⟩
    cases tag with
    | name t =>
      have h1 := h.1
      simp only [Vocab2.nodeOk, Bool.and_eq_true] at h1
      exact hq t attrs h1.1.1 h1.1.2
    | _ => simp [Vocab2.nodeOk] at h
theorem allKids_of_goodList {ts : List String}
    (hq : ∀ t attrs, Vocab2.hasTag ts t = true → Vocab2.attrsOk attrs = true → qt (.name t) attrs = true) :
    (l : List Node) → Vocab2.GoodListT ts l = true → allKids qt l = true
  | [], _ => rfl
  | x :: r, h => by
    simp only [Vocab2.GoodListT, Bool.and_eq_true] at h
    simp only [allKids, Bool.and_eq_true]
    exact ⟨allNodes_of_goodT hq x h.1, allKids_of_goodList hq r h.2⟩
end

theorem NI_of_goodT {ts : List String}
    (hq : ∀ t attrs, Vocab2.hasTag ts t = true → Vocab2.attrsOk attrs = true → qt (.name t) attrs = true)
    (n : Node) (h : Vocab2.GoodT ts n = true) : NI qt n := allNodes_of_goodT hq n h

/-! ### the stash, `applyPatternX`, `handleInlineX` -/

def StashQ (qt : Tag → List (Str × Str) → Bool) (stash : List StashItem) : Prop :=
  ∀ n, StashItem.node n ∈ stash → NI qt n

theorem stashQ_nil : StashQ qt [] := by intro n hn; cases hn

theorem stashQ_push {stash : List StashItem} (h : StashQ qt stash) (it : StashItem)
    (hit : ∀ n, it = .node n → NI qt n) : StashQ qt (stash ++ [it]) := by
  intro n hn
  rcases List.mem_append.1 hn with hn | hn
  · exact h n hn
  · simp only [List.mem_singleton] at hn; exact hit n hn.symm

theorem NI_text_tail {n : Node} (h : NI qt n) (t tl : Option Str) : NI qt { n with text := t, tail := tl } := by
  rw [NI_iff] at h ⊢; exact h

def HIQ (qt : Tag → List (Str × Str) → Bool) (hi : HIX) : Prop :=
  ∀ d p x d' x', hi d p x = some (d', x') → StashQ qt x.st.stash → StashQ qt x'.st.stash

theorem hiOptX_Q {hi : HIX} (hhi : HIQ qt hi) {t t' : Option Str} {atomic : Bool} {pi : Nat} {x x' : XSt}
    (h : hiOptX hi t atomic pi x = some (t', x')) (hs : StashQ qt x.st.stash) : StashQ qt x'.st.stash := by
  unfold hiOptX at h
  split at h
  · split at h
    · rename_i d x1 hh
      simp only [Option.some.injEq, Prod.mk.injEq] at h
      obtain ⟨_, h2⟩ := h; subst h2
      exact hhi _ _ _ _ _ hh hs
    · cases h
  · simp only [Option.some.injEq, Prod.mk.injEq] at h
    obtain ⟨_, h2⟩ := h; subst h2; exact hs

theorem hiNodeX_Q {hi : HIX} (hhi : HIQ qt hi) {pi : Nat} {n n' : Node} {x x' : XSt}
    (h : hiNodeX hi pi n x = some (n', x')) (hn : NI qt n) (hs : StashQ qt x.st.stash) :
    NI qt n' ∧ StashQ qt x'.st.stash := by
  unfold hiNodeX at h
  split at h
  · cases h
  · rename_i t x1 h1
    split at h
    · cases h
    · rename_i tl x2 h2
      simp only [Option.some.injEq, Prod.mk.injEq] at h
      obtain ⟨e1, e2⟩ := h; subst e1; subst e2
      exact ⟨NI_text_tail hn _ _, hiOptX_Q hhi h2 (hiOptX_Q hhi h1 hs)⟩

theorem hiNodesX_Q {hi : HIX} (hhi : HIQ qt hi) (pi : Nat) :
    ∀ (ns : List Node) (x : XSt) (ns' : List Node) (x' : XSt), hiNodesX hi pi ns x = some (ns', x') →
      (∀ n ∈ ns, NI qt n) → StashQ qt x.st.stash → (∀ n ∈ ns', NI qt n) ∧ StashQ qt x'.st.stash := by
  intro ns
  induction ns with
  | nil =>
    intro x ns' x' h _ hs
    simp only [hiNodesX, Option.some.injEq, Prod.mk.injEq] at h
    obtain ⟨e1, e2⟩ := h; subst e1; subst e2
    exact ⟨by simp, hs⟩
  | cons n r ih =>
    intro x ns' x' h hn hs
    simp only [hiNodesX] at h
    split at h
    · cases h
    · rename_i n1 x1 h1
      split at h
      · cases h
      · rename_i r1 x2 h2
        simp only [Option.some.injEq, Prod.mk.injEq] at h
        obtain ⟨e1, e2⟩ := h; subst e1; subst e2
        obtain ⟨a1, a2⟩ := hiNodeX_Q hhi h1 (hn n List.mem_cons_self) hs
        obtain ⟨b1, b2⟩ := ih _ _ _ h2 (fun m hm => hn m (List.mem_cons_of_mem _ hm)) a2
        refine ⟨?_, b2⟩
        intro m hm
        rcases List.mem_cons.1 hm with rfl | hm
        · exact a1
        · exact b1 m hm

theorem NI_mkEl (t : String) (h : qt (.name t.toList) [] = true) : NI qt (mkEl t) := by
  rw [NI_iff]; exact ⟨h, by intro c hc; cases hc⟩

/-- **every element a pattern of the table builds** is in the vocabulary; the node stash is not touched -/
theorem findX_Q {xc : InlineX.XCfg} (hq : InlQ qt xc) {k : PatK} (hk : k ∈ xc.table) {data : Str} {si : Nat} {x x' : XSt}
    {f : Found} (h : findX xc k data si x = some (some f, x')) :
    x'.st.stash = x.st.stash ∧ ∀ n, f.node = .el n → NI qt n := by
  unfold findX at h
  cases k with
  | core i =>
    simp only at h
    split at h
    · cases h
    · rename_i fo st hf
      simp only [Option.some.injEq, Prod.mk.injEq] at h
      obtain ⟨e1, e2⟩ := h; subst e1; subst e2
      obtain ⟨a, b⟩ := Vocab2.findMatch_ok _ _ _ _ _ _ _ hf
      exact ⟨a, fun n hn => NI_of_goodT hq.core n (b n hn).good⟩
  | footnote =>
    simp only at h
    split at h
    · cases h
    · split at h
      · rename_i id s e _
        simp only [Option.some.injEq, Prod.mk.injEq] at h
        obtain ⟨e1, e2⟩ := h; subst e1; subst e2
        refine ⟨rfl, ?_⟩
        intro n hn
        simp only [PNode.el.injEq] at hn; subst hn
        unfold fnRefNode
        rw [NI_iff]
        refine ⟨hq.fnSup hk _, ?_⟩
        intro c hc
        simp only [List.mem_singleton] at hc
        subst hc
        rw [NI_iff]
        exact ⟨hq.fnA hk _ _, by intro c hc; cases hc⟩
      · cases h
  | wikilink =>
    simp only at h
    split at h
    · cases h
    · split at h
      · rename_i g s e _
        simp only [Option.some.injEq, Prod.mk.injEq] at h
        obtain ⟨e1, e2⟩ := h; subst e1; subst e2
        refine ⟨rfl, ?_⟩
        intro n hn
        unfold wikiNode at hn
        simp only at hn
        split at hn
        · cases hn
        · simp only [PNode.el.injEq] at hn; subst hn
          rw [NI_iff]
          exact ⟨hq.wiki hk _ _, by intro c hc; cases hc⟩
      · cases h
  | nl =>
    simp only at h
    split at h
    · cases h
    · split at h
      · simp only [Option.some.injEq, Prod.mk.injEq] at h
        obtain ⟨e1, e2⟩ := h; subst e1; subst e2
        refine ⟨rfl, ?_⟩
        intro n hn
        simp only [PNode.el.injEq] at hn; subst hn
        exact NI_mkEl "br" (hq.core _ _ (by decide) (by decide))
      · cases h

theorem findX_none_stash {xc : InlineX.XCfg} {k : PatK} {data : Str} {si : Nat} {x x' : XSt}
    (h : findX xc k data si x = some (none, x')) : x'.st.stash = x.st.stash := by
  unfold findX at h
  cases k with
  | core i =>
    simp only at h
    split at h
    · cases h
    · rename_i fo st hf
      simp only [Option.some.injEq, Prod.mk.injEq] at h
      obtain ⟨e1, e2⟩ := h; subst e1; subst e2
      exact Vocab2.findMatch_none_stash _ _ _ _ _ _ hf
  | footnote =>
    simp only at h
    repeat' split at h
    all_goals first | (cases h; rfl) | cases h | (simp only [Option.some.injEq, Prod.mk.injEq] at h; rw [← h.2])
  | wikilink =>
    simp only at h
    repeat' split at h
    all_goals first | (cases h; rfl) | cases h | (simp only [Option.some.injEq, Prod.mk.injEq] at h; rw [← h.2])
  | nl =>
    simp only at h
    repeat' split at h
    all_goals first | (cases h; rfl) | cases h | (simp only [Option.some.injEq, Prod.mk.injEq] at h; rw [← h.2])

def APQ (qt : Tag → List (Str × Str) → Bool) (ap : Nat → Str → Nat → XSt → Option (Str × Bool × Nat × XSt)) : Prop :=
  ∀ pi d si x d' m si' x', ap pi d si x = some (d', m, si', x') → StashQ qt x.st.stash → StashQ qt x'.st.stash

theorem applyPatternX_Q {xc : InlineX.XCfg} (hq : InlQ qt xc) {hi : HIX} (hhi : HIQ qt hi) : APQ qt (applyPatternX xc hi) := by
  intro pi data si x d' m si' x' h hs
  unfold applyPatternX at h
  split at h
  · simp only [Option.some.injEq, Prod.mk.injEq] at h
    obtain ⟨_, _, _, e⟩ := h; subst e; exact hs
  · rename_i k hk
    have hkm : k ∈ xc.table := List.mem_of_getElem? hk
    split at h
    · cases h
    · rename_i x1 hf
      simp only [Option.some.injEq, Prod.mk.injEq] at h
      obtain ⟨_, _, _, e⟩ := h; subst e
      rw [findX_none_stash hf]; exact hs
    · rename_i f x1 hf
      obtain ⟨c1, c2⟩ := findX_Q hq hkm hf
      have hs1 : StashQ qt x1.st.stash := by rw [c1]; exact hs
      split at h
      · simp only [Option.some.injEq, Prod.mk.injEq] at h
        obtain ⟨_, _, _, e⟩ := h; subst e; exact hs1
      · simp only [stashX, stashNode, Option.some.injEq, Prod.mk.injEq] at h
        obtain ⟨_, _, _, e⟩ := h; subst e
        exact stashQ_push hs1 _ (fun n hn => by cases hn)
      · rename_i n hnode
        have hn := c2 n hnode
        simp only at h
        split at h
        · cases h
        · rename_i n' x2 hr
          simp only [stashX, stashNode, Option.some.injEq, Prod.mk.injEq] at h
          obtain ⟨_, _, _, e⟩ := h; subst e
          have q : NI qt n' ∧ StashQ qt x2.st.stash := by
            split at hr
            · simp only [Option.some.injEq, Prod.mk.injEq] at hr
              obtain ⟨e1, e2⟩ := hr; subst e1; subst e2
              exact ⟨hn, hs1⟩
            · split at hr
              · cases hr
              · rename_i n1 x3 h1
                split at hr
                · cases hr
                · rename_i kids x4 h2
                  simp only [Option.some.injEq, Prod.mk.injEq] at hr
                  obtain ⟨e1, e2⟩ := hr; subst e1; subst e2
                  rw [NI_iff] at hn
                  obtain ⟨a1, a2⟩ := hiNodeX_Q hhi h1 (n := { n with children := [] })
                    (by rw [NI_iff]; exact ⟨hn.1, by intro c hc; cases hc⟩) hs1
                  obtain ⟨b1, b2⟩ := hiNodesX_Q hhi _ _ _ _ _ h2 hn.2 a2
                  exact ⟨NI_children a1 _ b1, b2⟩
          exact stashQ_push q.2 _ (fun m hm => by cases hm; exact q.1)

theorem hiLoopX_Q {count : Nat} {ap : Nat → Str → Nat → XSt → Option (Str × Bool × Nat × XSt)} (hap : APQ qt ap) :
    ∀ (g : Nat) (data : Str) (pi si : Nat) (x : XSt) (d' : Str) (x' : XSt),
      hiLoopX count ap g data pi si x = some (d', x') → StashQ qt x.st.stash → StashQ qt x'.st.stash := by
  intro g
  induction g with
  | zero => intro data pi si x d' x' h; simp [hiLoopX] at h
  | succ g ih =>
    intro data pi si x d' x' h hs
    simp only [hiLoopX] at h
    split at h
    · split at h
      · cases h
      · rename_i d m si1 x1 h1
        exact ih _ _ _ _ _ _ h (hap _ _ _ _ _ _ _ _ h1 hs)
    · simp only [Option.some.injEq, Prod.mk.injEq] at h
      obtain ⟨_, e⟩ := h; subst e; exact hs

theorem handleInlineX_Q {xc : InlineX.XCfg} (hq : InlQ qt xc) : ∀ (f : Nat), HIQ qt (handleInlineX xc f) := by
  intro f
  induction f with
  | zero => intro d p x d' x' h; simp [handleInlineX] at h
  | succ f ih =>
    intro d p x d' x' h hs
    simp only [handleInlineX] at h
    exact hiLoopX_Q (applyPatternX_Q hq ih) _ _ _ _ _ _ _ h hs

theorem handleInlineTopX_Q {xc : InlineX.XCfg} (hq : InlQ qt xc) {data : Str} {x : XSt} {d' : Str} {x' : XSt}
    (h : handleInlineTopX xc data x = some (d', x')) (hs : StashQ qt x.st.stash) : StashQ qt x'.st.stash :=
  handleInlineX_Q hq _ _ _ _ _ _ h hs

/-! ### `processPlaceholders` -/

theorem linkText_Q (text : Str) (atomic isText : Bool) (result : List Node) (parent : Node)
    (hr : ∀ n ∈ result, NI qt n) :
    (∀ n ∈ (linkText text atomic isText result parent).1, NI qt n) ∧
      (NI qt parent → NI qt (linkText text atomic isText result parent).2) := by
  unfold linkText
  split
  · exact ⟨hr, fun hp => hp⟩
  · split
    · rename_i l r
      have hl := hr l List.mem_cons_self
      have hrest : ∀ n ∈ r, NI qt n := fun n hn => hr n (List.mem_cons_of_mem _ hn)
      split
      · refine ⟨?_, fun hp => hp⟩
        intro n hn
        rcases List.mem_cons.1 hn with e | hn
        · subst e; exact NI_fields hl _ _ _ _
        · exact hrest n hn
      · refine ⟨?_, fun hp => hp⟩
        intro n hn
        rcases List.mem_cons.1 hn with e | hn
        · subst e; exact NI_fields hl _ _ _ _
        · exact hrest n hn
    · split
      · split
        · exact ⟨by simp, fun hp => NI_fields hp _ _ _ _⟩
        · exact ⟨by simp, fun hp => NI_fields hp _ _ _ _⟩
      · split
        · exact ⟨by simp, fun hp => NI_fields hp _ _ _ _⟩
        · exact ⟨by simp, fun hp => NI_fields hp _ _ _ _⟩

def NestedQ (qt : Tag → List (Str × Str) → Bool) (nested : Node → Option Node) : Prop :=
  ∀ n n', NI qt n → nested n = some n' → NI qt n'

theorem ppLoop_Q {stash : List StashItem} (hs : StashQ qt stash) {nested : Node → Option Node}
    (hn : NestedQ qt nested) (data : Str) (atomic isText : Bool) :
    ∀ (g start : Nat) (result : List Node) (parent : Node) (res : List Node) (parent' : Node),
      (∀ n ∈ result, NI qt n) →
      ppLoop stash nested data atomic isText g start result parent = some (res, parent') →
      (∀ n ∈ res, NI qt n) ∧ (NI qt parent → NI qt parent') := by
  intro g
  induction g with
  | zero => intro start result parent res parent' _ h; simp [ppLoop] at h
  | succ g ih =>
    intro start result parent res parent' hr h
    simp only [ppLoop] at h
    have hpre : ∀ (c : Prop) [Decidable c] (t : Str),
        (∀ n ∈ (if c then linkText t false isText result parent else (result, parent)).1, NI qt n) ∧
          (NI qt parent → NI qt (if c then linkText t false isText result parent else (result, parent)).2) := by
      intro c _ t
      split
      · exact linkText_Q _ _ _ _ _ hr
      · exact ⟨hr, fun hp => hp⟩
    split at h
    · rename_i off _
      split at h
      · rename_i item hitem
        have hmem : item ∈ stash := by
          cases hid : (findPh data (start + off)).fst with
          | none => rw [hid] at hitem; cases hitem
          | some id => rw [hid] at hitem; exact Vocab2.stashGet_mem _ _ _ hitem
        have p1 := hpre (start + off > 0) (slice data start (start + off))
        split at h
        · rename_i n
          split at h
          · cases h
          · rename_i n' hn'
            have hg : NI qt n' := hn n n' (hs n hmem) hn'
            have q := ih _ _ _ _ _ (fun m hm => by
              rcases List.mem_cons.1 hm with e | hm
              · subst e; exact hg
              · exact p1.1 m hm) h
            exact ⟨q.1, fun hp => q.2 (p1.2 hp)⟩
        · rename_i s
          have p2 := linkText_Q (qt := qt) s false isText _
            (if start + off > 0 then linkText (slice data start (start + off)) false isText result parent
              else (result, parent)).2 p1.1
          have q := ih _ _ _ _ _ p2.1 h
          exact ⟨q.1, fun hp => q.2 (p2.2 (p1.2 hp))⟩
      · have p1 := linkText_Q (qt := qt) (slice data start (start + off + phPrefixLen)) false isText result parent hr
        have q := ih _ _ _ _ _ p1.1 h
        exact ⟨q.1, fun hp => q.2 (p1.2 hp)⟩
    · simp only [Option.some.injEq, Prod.mk.injEq] at h
      obtain ⟨e1, e2⟩ := h; subst e1; subst e2
      have p1 := linkText_Q (qt := qt) (List.drop start data) atomic isText result parent hr
      exact ⟨fun n hn => p1.1 n (List.mem_reverse.1 hn), p1.2⟩

def PPQ (qt : Tag → List (Str × Str) → Bool) (pp : PP) : Prop :=
  ∀ d a parent isText res parent', pp d a parent isText = some (res, parent') →
    (∀ n ∈ res, NI qt n) ∧ (NI qt parent → NI qt parent')

theorem NI_kids {n : Node} (h : NI qt n) : ∀ c ∈ n.children, NI qt c := ((NI_iff n).1 h).2

theorem petTail_Q {pp : PP} (hpp : PPQ qt pp) {c c' : Node} {res : List Node}
    (h : petTail pp c = some (c', res)) (hc : NI qt c) : NI qt c' ∧ ∀ n ∈ res, NI qt n := by
  unfold petTail at h
  split at h
  · split at h
    · rename_i r c1 hh
      simp only [Option.some.injEq, Prod.mk.injEq] at h
      obtain ⟨e1, e2⟩ := h; subst e1; subst e2
      have q := hpp _ _ _ _ _ _ hh
      exact ⟨q.2 (NI_fields hc _ _ _ _), q.1⟩
    · cases h
  · simp only [Option.some.injEq, Prod.mk.injEq] at h
    obtain ⟨e1, e2⟩ := h; subst e1; subst e2
    exact ⟨hc, by simp⟩

theorem petText_Q {pp : PP} (hpp : PPQ qt pp) {c c2 : Node} (h : petText pp c = some c2) (hc : NI qt c) :
    NI qt c2 := by
  unfold petText at h
  split at h
  · split at h
    · rename_i r c1 hh
      simp only [Option.some.injEq] at h; subst h
      have q := hpp _ _ _ _ _ _ hh
      have q2 := q.2 (NI_fields hc _ _ _ _)
      refine NI_children q2 _ ?_
      intro x hx
      rcases List.mem_append.1 hx with hx | hx
      · exact q.1 x hx
      · exact NI_kids q2 x hx
    · cases h
  · simp only [Option.some.injEq] at h; subst h
    exact hc

theorem procKids_Q {pp : PP} (hpp : PPQ qt pp) :
    ∀ (l l' : List Node), procKids pp l = some l' → (∀ n ∈ l, NI qt n) → ∀ n ∈ l', NI qt n := by
  intro l
  induction l with
  | nil => intro l' h _; simp only [procKids, Option.some.injEq] at h; subst h; simp
  | cons c r ih =>
    intro l' h hg
    simp only [procKids] at h
    split at h
    · cases h
    · rename_i c1 res h1
      split at h
      · cases h
      · rename_i c2 h2
        split at h
        · cases h
        · rename_i r' h3
          simp only [Option.some.injEq] at h; subst h
          have q1 := petTail_Q hpp h1 (hg c List.mem_cons_self)
          have q2 := petText_Q hpp h2 q1.1
          have q3 := ih _ h3 (fun n hn => hg n (List.mem_cons_of_mem _ hn))
          intro n hn
          rcases List.mem_cons.1 hn with rfl | hn
          · exact q2
          · rcases List.mem_append.1 hn with hn | hn
            · exact q1.2 n hn
            · exact q3 n hn

theorem procNode_Q {pp : PP} (hpp : PPQ qt pp) : NestedQ qt (procNode pp) := by
  intro node n' hf h
  unfold procNode at h
  simp only [] at h
  split at h
  · cases h
  · rename_i n1 tailRes h1
    split at h
    · cases h
    · rename_i n2 h2
      split at h
      · cases h
      · rename_i kids h3
        simp only [Option.some.injEq] at h; subst h
        have hg0 : NI qt ({ node with children := [] } : Node) := NI_children hf _ (by simp)
        have q1 := petTail_Q hpp h1 hg0
        have q2 := petText_Q hpp h2 q1.1
        have q3 := procKids_Q hpp _ _ h3 (NI_kids hf)
        refine NI_children q2 _ ?_
        intro x hx
        rcases List.mem_append.1 hx with hx | hx
        · rcases List.mem_append.1 hx with hx | hx
          · exact NI_kids q2 x hx
          · exact q1.2 x hx
        · exact q3 x hx

theorem processPlaceholders_Q {stash : List StashItem} (hs : StashQ qt stash) :
    ∀ (f : Nat), PPQ qt (processPlaceholders stash f) := by
  intro f
  induction f with
  | zero => intro d a parent isText res parent' h; simp [processPlaceholders] at h
  | succ f ih =>
    intro d a parent isText res parent' h
    simp only [processPlaceholders] at h
    split at h
    · simp only [Option.some.injEq, Prod.mk.injEq] at h
      obtain ⟨e1, e2⟩ := h; subst e1; subst e2
      exact ⟨by simp, fun hp => hp⟩
    · exact ppLoop_Q hs (procNode_Q ih) d a isText _ _ _ _ _ _ (by simp) h

theorem ppTop_Q (st : St) (hs : StashQ qt st.stash) : PPQ qt (ppTop st) :=
  fun d a parent isText res parent' h => processPlaceholders_Q hs _ d a parent isText res parent' h

/-! ### `runX` -/

theorem visitChildX_Q {xc : InlineX.XCfg} (hq : InlQ qt xc) {child : Node}
    {v : VisitX} {c : Node} {tr : List Node} {v' : VisitX} (h : visitChildX xc child v = some (c, tr, v'))
    (hc : NI qt child) (hs : StashQ qt v.x.st.stash) :
    NI qt c ∧ (∀ t ∈ tr, NI qt t) ∧ StashQ qt v'.x.st.stash ∧ v'.done = v.done := by
  unfold visitChildX at h
  simp only [] at h
  split at h
  · cases h
  · rename_i c1 lst x1 hr1
    have q1 : StashQ qt x1.st.stash ∧ (∀ t ∈ lst, NI qt t) ∧ NI qt c1 := by
      split at hr1
      · split at hr1
        · cases hr1
        · rename_i data x2 hh
          have hs2 := handleInlineTopX_Q hq hh hs
          split at hr1
          · cases hr1
          · rename_i l c' hp
            simp only [Option.some.injEq, Prod.mk.injEq] at hr1
            obtain ⟨e1, e2, e3⟩ := hr1; subst e1; subst e2; subst e3
            have q := ppTop_Q _ hs2 _ _ _ _ _ _ hp
            exact ⟨hs2, q.1, q.2 (NI_fields hc _ _ _ _)⟩
      · simp only [Option.some.injEq, Prod.mk.injEq] at hr1
        obtain ⟨e1, e2, e3⟩ := hr1; subst e1; subst e2; subst e3
        exact ⟨hs, by simp, hc⟩
    split at h
    · cases h
    · rename_i c2 tr' x2 hr2
      simp only [Option.some.injEq, Prod.mk.injEq] at h
      obtain ⟨e1, e2, e3⟩ := h; subst e1; subst e2; subst e3
      have q2 : StashQ qt x2.st.stash ∧ (∀ t ∈ tr', NI qt t) ∧ NI qt c2 := by
        split at hr2
        · split at hr2
          · cases hr2
          · rename_i data x3 hh
            have hs3 : StashQ qt x3.st.stash := by
              split at hh
              · simp only [Option.some.injEq, Prod.mk.injEq] at hh
                obtain ⟨_, e⟩ := hh; subst e; exact q1.1
              · exact handleInlineTopX_Q hq hh q1.1
            split at hr2
            · cases hr2
            · rename_i tr2 dumby hp
              simp only [Option.some.injEq, Prod.mk.injEq] at hr2
              obtain ⟨e1, e2, e3⟩ := hr2; subst e1; subst e2; subst e3
              have q := ppTop_Q _ hs3 _ _ _ _ _ _ hp
              refine ⟨hs3, q.1, ?_⟩
              split
              · exact NI_fields q1.2.2 _ _ _ _
              · exact NI_fields q1.2.2 _ _ _ _
        · simp only [Option.some.injEq, Prod.mk.injEq] at hr2
          obtain ⟨e1, e2, e3⟩ := hr2; subst e1; subst e2; subst e3
          exact ⟨q1.1, by simp, q1.2.2⟩
      refine ⟨?_, q2.2.1, ?_, ?_⟩
      · refine NI_children q2.2.2 _ ?_
        intro x hx
        rcases List.mem_append.1 hx with hx | hx
        · exact q1.2.1 x hx
        · exact NI_kids q2.2.2 x hx
      · split <;> exact q2.1
      · split <;> rfl

theorem visitLoopX_Q {xc : InlineX.XCfg} (hq : InlQ qt xc) :
    ∀ (g : Nat) (todo : List (Node × Option Nat)) (v v' : VisitX), visitLoopX xc g todo v = some v' →
      (∀ x ∈ todo, NI qt x.1) → (∀ n ∈ v.done, NI qt n) → StashQ qt v.x.st.stash →
      (∀ n ∈ v'.done, NI qt n) ∧ StashQ qt v'.x.st.stash := by
  intro g
  induction g with
  | zero => intro todo v v' h; simp [visitLoopX] at h
  | succ g ih =>
    intro todo v v' h htodo hdone hs
    cases todo with
    | nil =>
      simp only [visitLoopX, Option.some.injEq] at h; subst h
      exact ⟨hdone, hs⟩
    | cons x todo =>
      obtain ⟨child, orig⟩ := x
      simp only [visitLoopX] at h
      split at h
      · cases h
      · rename_i c tr v1 hv
        have q := visitChildX_Q hq hv (htodo (child, orig) List.mem_cons_self) hs
        refine ih _ _ _ h ?_ ?_ q.2.2.1
        · intro y hy
          rcases List.mem_append.1 hy with hy | hy
          · obtain ⟨n, hn, e⟩ := List.mem_map.1 hy
            subst e; exact q.2.1 n hn
          · exact htodo y (List.mem_cons_of_mem _ hy)
        · intro n hn
          rcases List.mem_cons.1 hn with e | hn
          · subst e; exact q.1
          · rw [q.2.2.2] at hn; exact hdone n hn

theorem NI_getAt : ∀ (p : Path) {root cur : Node}, NI qt root → getAt root p = some cur → NI qt cur := by
  intro p
  induction p with
  | nil => intro root cur hr h; rw [NoCtl.getAt_nil] at h; cases h; exact hr
  | cons i p ih =>
    intro root cur hr h
    rw [NoCtl.getAt_cons] at h
    cases hc : root.children[i]? with
    | none => simp [hc] at h
    | some c =>
      simp only [hc] at h
      exact ih (NI_kids hr c (List.mem_of_getElem? hc)) h

theorem NI_setAt : ∀ (p : Path) {root cur new : Node}, NI qt root → NI qt new → getAt root p = some cur →
    NI qt (setAt root p new) := by
  intro p
  induction p with
  | nil => intro root cur new _ hn _; rw [NoCtl.setAt_nil]; exact hn
  | cons i p ih =>
    intro root cur new hr hn h
    rw [NoCtl.getAt_cons] at h
    rw [NoCtl.setAt_cons]
    cases hc : root.children[i]? with
    | none => simp [hc] at h
    | some c =>
      simp only [hc] at h ⊢
      refine NI_children hr _ ?_
      intro d hd
      rcases List.mem_or_eq_of_mem_set hd with hd | rfl
      · exact NI_kids hr d hd
      · exact ih (NI_kids hr c (List.mem_of_getElem? hc)) hn h

theorem runLoopX_Q {xc : InlineX.XCfg} (hq : InlQ qt xc) (g2 : Nat) :
    ∀ (g : Nat) (root : Node) (stack : List Path) (x : XSt) (root' : Node) (x' : XSt),
      runLoopX xc g2 g root stack x = some (root', x') → NI qt root → StashQ qt x.st.stash → NI qt root' := by
  intro g
  induction g with
  | zero => intro root stack x root' x' h; simp [runLoopX] at h
  | succ g ih =>
    intro root stack x root' x' h hd hs
    cases stack with
    | nil =>
      simp only [runLoopX, Option.some.injEq, Prod.mk.injEq] at h
      obtain ⟨e, _⟩ := h; subst e; exact hd
    | cons p stack =>
      simp only [runLoopX] at h
      split at h
      · exact ih _ _ _ _ _ h hd hs
      · rename_i cur hcur
        split at h
        · cases h
        · rename_i v hv
          have hcurQ := NI_getAt p hd hcur
          have q := visitLoopX_Q hq g2 _ { x := x } v hv
            (fun y hy => NI_kids hcurQ y.1 (Vocab2.withIdx_fst _ _ _ hy))
            (by intro n hn; cases hn) hs
          refine ih _ _ _ _ _ h ?_ q.2
          exact NI_setAt p hd (NI_children hcurQ _ (fun n hn => q.1 n (List.mem_reverse.1 hn))) hcur

/-- **the inline stage over a pattern table stays inside the vocabulary** -/
theorem runX_Q {xc : InlineX.XCfg} (hq : InlQ qt xc) {root : Node} {html : List Str} {t : Node} {x : XSt}
    (h : runX xc root html = some (t, x)) (hd : NI qt root) : NI qt t := by
  unfold runX at h
  exact runLoopX_Q hq _ _ _ _ _ _ _ h hd stashQ_nil

end MdVerif.VocabX
