/-
tables end to end: `TableProcessor.test` needs a `|`; `md.ESCAPED_CHARS` with `|` appended makes no difference to the
inline stage on texts without `|`.  Core Lean only.
-/
import MdVerif.Lemmas.PipelineXInertTree4
import MdVerif.Lemmas.InlineXRel
import MdVerif.Lemmas.PipelineXInert

namespace MdVerif.BlockExt
open Py Block

/-! ### `TableProcessor.test` needs a pipe -/

theorem tokAux_pipe_mem : ∀ (s : Str) (k pos : Nat) {p : Nat}, Tables.Tok.pipe p ∈ Tables.tokAux k pos s → '|' ∈ s := by
  intro s
  induction s with
  | nil => intro k pos p h; cases k <;> simp [Tables.tokAux] at h
  | cons a r ih =>
    intro k pos p h
    cases k with
    | succ k =>
      simp only [Tables.tokAux] at h
      exact List.mem_cons_of_mem _ (ih _ _ h)
    | zero =>
      simp only [Tables.tokAux] at h
      split at h
      · split at h
        · exact List.mem_cons_of_mem _ (ih _ _ h)
        · split at h
          · rcases List.mem_cons.mp h with h | h
            · cases h
            · exact List.mem_cons_of_mem _ (ih _ _ h)
          · split at h
            · exact List.mem_cons_of_mem _ (ih _ _ h)
            · exact List.mem_cons_of_mem _ (ih _ _ h)
      · split at h
        · rcases List.mem_cons.mp h with h | h
          · cases h
          · exact List.mem_cons_of_mem _ (ih _ _ h)
        · split at h
          · rename_i hp
            exact hp ▸ List.mem_cons_self
          · exact List.mem_cons_of_mem _ (ih _ _ h)

theorem cut_length : ∀ (ps : List Nat) (pos : Nat) (row : Str), (Tables.cut pos row ps).length = ps.length + 1 := by
  intro ps
  induction ps with
  | nil => intro pos row; rfl
  | cons p ps ih => intro pos row; simp [Tables.cut, ih]

theorem split_two_needs_pipe {row : Str} (h : (Tables.split row).length > 1) : '|' ∈ row := by
  simp only [Tables.split, cut_length] at h
  have hne : Tables.goodPipes row ≠ [] := by intro e; rw [e] at h; simp at h
  obtain ⟨p, hp⟩ := List.exists_mem_of_ne_nil _ hne
  simp only [Tables.goodPipes] at hp
  have h1 := (List.mem_filter.mp hp).1
  obtain ⟨tok, htok, hpo⟩ := List.mem_filterMap.mp h1
  cases tok with
  | escTick a b => simp [Tables.pipeOf] at hpo
  | tick a b => simp [Tables.pipeOf] at hpo
  | pipe q => exact tokAux_pipe_mem row 0 0 htok

theorem isEndBorder_needs_pipe {row : Str} (h : Tables.isEndBorder row = true) : '|' ∈ row := by
  simp only [Tables.isEndBorder, Tables.endBorderSub] at h
  by_cases hnl : row.reverse.head? = some '\n'
  · simp only [hnl, if_true] at h
    split at h
    · rename_i hb
      exact List.mem_reverse.mp (List.mem_of_mem_tail (List.mem_of_mem_head? (by rw [hb]; simp)))
    · simp at h
  · simp only [hnl, if_false] at h
    split at h
    · rename_i hb
      exact List.mem_reverse.mp (List.mem_of_mem_head? (by rw [hb]; simp))
    · simp at h

theorem tableTest_needs_pipe {b : Str} {bs : Nat × List Str} (h : Tables.tableTest b = some bs) : '|' ∈ b := by
  simp only [Tables.tableTest] at h
  split at h
  · rename_i header0 row1 more hrows
    have hh0 : ∀ x ∈ header0, x ∈ b := by
      have : header0 ∈ (splitC '\n' b).map (stripC ' ') := by rw [hrows]; exact List.mem_cons_self
      obtain ⟨l, hl, rfl⟩ := List.mem_map.mp this
      exact fun x hx => (mem_lines_infix hl).subset ((stripP_infix _ _).subset hx)
    split at h
    · rename_i hist
      simp only [Bool.or_eq_true, decide_eq_true_eq, Bool.and_eq_true, beq_iff_eq, bne_iff_ne, ne_eq] at hist
      rcases hist with hgt | ⟨⟨_, hbord⟩, _⟩
      · -- more than one cell in the header row
        by_cases hb0 : Tables.borderOf header0 = 0
        · have : (Tables.split header0).length > 1 := by simpa [Tables.splitRow, hb0] using hgt
          exact hh0 _ (split_two_needs_pipe this)
        · -- a border: the header starts with `|` or ends with one
          simp only [Tables.borderOf] at hb0
          by_cases hsw : startsWith header0 ['|'] = true
          · exact hh0 _ (((startsWith_iff_prefix _ _).mp hsw).subset List.mem_cons_self)
          · by_cases heb : Tables.isEndBorder header0 = true
            · exact hh0 _ (isEndBorder_needs_pipe heb)
            · simp [hsw, heb] at hb0
      · simp only [Tables.borderOf] at hbord
        by_cases hsw : startsWith header0 ['|'] = true
        · exact hh0 _ (((startsWith_iff_prefix _ _).mp hsw).subset List.mem_cons_self)
        · by_cases heb : Tables.isEndBorder header0 = true
          · exact hh0 _ (isEndBorder_needs_pipe heb)
          · simp [hsw, heb] at hbord
    · cases h
  · cases h

theorem dispatchXT_tables (cfg : XCfg) (tab : Nat) (pb : PB) (state : List BState) (refs : Refs) (parent : Node)
    (b : Str) (rest : List Str) (hb : '|' ∉ b) :
    dispatchXT true cfg tab pb state refs parent b rest = dispatchXT false cfg tab pb state refs parent b rest := by
  have : Tables.tableTest b = none := by
    cases h : Tables.tableTest b with
    | none => rfl
    | some bs => exact absurd (tableTest_needs_pipe h) hb
  simp only [dispatchXT, tailEmptyT, this]
  simp

end MdVerif.BlockExt

namespace MdVerif.InlineX
open Py Inline

/-! ### the escapable characters matter to the escape pattern only -/

theorem linkHandle_esc (e1 e2 : List Char) (refs : List (Str × Str × Option Str)) (stash : List StashItem) (pi : Nat)
    (data : Str) (a b : Nat) :
    linkHandle { esc := e1, refs := refs } stash pi data a b = linkHandle { esc := e2, refs := refs } stash pi data a b := by
  simp only [linkHandle]

theorem linkScan_esc (e1 e2 : List Char) (refs : List (Str × Str × Option Str)) (stash : List StashItem) (pi : Nat)
    (data : Str) : ∀ (suf : Str) (prev : Option Char) (i : Nat),
    linkScan { esc := e1, refs := refs } stash pi data prev suf i =
      linkScan { esc := e2, refs := refs } stash pi data prev suf i := by
  intro suf
  induction suf with
  | nil => intro prev i; rfl
  | cons ch r ih =>
    intro prev i
    simp only [linkScan, linkHandle_esc e1 e2, ih]

theorem escScan_mem : ∀ (suf : Str) (i : Nat) {j : Nat} {ch : Char}, escScan suf i = some (j, ch) → ch ∈ suf := by
  intro suf
  induction suf with
  | nil => intro i j ch h; simp [escScan] at h
  | cons a r ih =>
    intro i j ch h
    cases r with
    | nil => simp [escScan] at h
    | cons d r' =>
      simp only [escScan] at h
      split at h
      · injection h with h
        injection h with _ h
        exact h ▸ List.mem_cons_of_mem _ List.mem_cons_self
      · exact List.mem_cons_of_mem _ (ih _ h)

/-- with `|` appended to the escapable characters every core pattern finds the same on a text without `|` -/
theorem findMatch_escPipe (esc : List Char) (refs : List (Str × Str × Option Str)) (pi : Nat) (data : Str) (si : Nat)
    (st : St) (hd : '|' ∉ data) :
    findMatch { esc := esc ++ ['|'], refs := refs } pi data si st = findMatch { esc := esc, refs := refs } pi data si st := by
  unfold findMatch
  simp only
  split
  · rfl
  · split
    · rfl
    · -- escape
      split
      · rename_i i ch hsc
        have hch : ch ≠ '|' := fun e =>
          hd ((List.drop_suffix _ _).subset (e ▸ escScan_mem _ _ hsc))
        have : (esc ++ ['|']).contains ch = esc.contains ch := by
          simp [List.contains_iff_mem, hch]
        rw [this]
      · rfl
    · rfl
    · rfl
    · rfl
    · rfl
    · rfl
    · rfl
    · rfl
    · rfl
    · simp only [linkScan_esc (esc ++ ['|']) esc]

end MdVerif.InlineX

namespace MdVerif.PipelineX
open Py Pipeline BlockExt InlineX

theorem blockSafe_pipe : BlockSafeC '|' where
  nl := by decide
  none_ := by decide
  ent := by decide
  lower := by
    intro d hd
    by_cases hc : d.toNat < 128
    · exact RefDef.char_of_ascii (fun d => d ≠ '|' → '|' ∉ lowerChar d) (by decide +kernel) d hc hd
    · simp only [lowerChar, hc, if_false]
      cases hf : Generated.Chars.lowerNonAscii.find? (fun p => p.1 = d.toNat) with
      | none => simp [hd.symm]
      | some p =>
        have hp := List.mem_of_find?_eq_some hf
        have hall : Generated.Chars.lowerNonAscii.all (fun p => p.2.all (fun n => Char.ofNat n != '|')) = true := by
          decide +kernel
        have := List.all_eq_true.mp hall p hp
        simp only [List.all_eq_true, bne_iff_ne, ne_eq] at this
        simp only [List.mem_map, not_exists, not_and]
        intro n hn he
        exact this n hn he
  upper := by
    intro d hd
    have : ∀ n, n < 128 → isAsciiLower (Char.ofNat n) = true → Char.ofNat (n - 32) ≠ '|' := by decide +kernel
    have hlt : d.toNat < 128 := by
      simp only [isAsciiLower, Bool.and_eq_true, decide_eq_true_eq, Char.le_def, UInt32.le_iff_toNat_le] at hd
      have h2 : ('z' : Char).val.toNat = 122 := by decide
      have : d.toNat = d.val.toNat := rfl
      omega
    have := this d.toNat hlt (by rwa [Char.ofNat_toNat])
    exact this
  fn1 := by decide
  fn2 := by decide

theorem safe_pipe : SafeC '|' where
  stx := by decide
  etx := by decide
  digit := by decide
  ph := by decide
  ent := by decide

theorem convertX_tables (x : Exts) (hx : x.tables = false) (cfg : Cfg) (src : Str)
    (h : '|' ∉ Normalize.normalize cfg.tab src) :
    convertX { x with tables := true } cfg src = convertX x cfg src := by
  have hc : Closed (NoC '|') := closed_noC '|' (by decide)
  have hp : PrepClosed (NoC '|') := by
    have := prepClosed_noSub ['|'] (by simp) '|' (by simp) (by decide)
    refine ⟨fun s hs => ?_, fun k => ?_⟩
    · have h1 := this.extract s (by
        cases hcs : contains s ['|'] with
        | false => rfl
        | true => exact absurd (((contains_iff_infix s _).mp hcs).subset List.mem_cons_self) hs)
      intro hm
      have : ['|'] <:+: Extract.extract s := by
        obtain ⟨a, b, hab⟩ := List.append_of_mem hm
        exact ⟨a, b, by simp [hab]⟩
      have := (contains_iff_infix _ _).mpr this
      simp [h1] at this
    · have h1 := this.ph k
      intro hm
      have : ['|'] <:+: Fenced.placeholder k := by
        obtain ⟨a, b, hab⟩ := List.append_of_mem hm
        exact ⟨a, b, by simp [hab]⟩
      have := (contains_iff_infix _ _).mpr this
      simp [h1] at this
  apply convertX_of_stages
  · rfl
  · intro text stash hprep
    rw [hx]
    exact blockStage_congr (qt := qtTrue) hc false true x.blockCfg x.blockCfg x.footnotes cfg
      (tagsOk_true x.blockCfg) (fun hf => by cases hf) rfl
      (fun pb st refs p b rest hb _ => dispatchXT_tables x.blockCfg cfg.tab pb st refs p b rest hb)
      (prepareX_ok hc hp x cfg src hprep h)
  · intro text stash root log hprep hb
    have htext : NoC '|' text := prepareX_ok hc hp x cfg src hprep h
    have hroot : DeepC '|' root := blockStage_tree blockSafe_pipe _ _ _ cfg htext hb
    simp only [lateX]
    have hescx : escX x cfg = cfg.esc := by simp [escX, hx]
    have hrefs : refsX { x with tables := true } log = refsX x log := rfl
    by_cases he : cfg.esc.contains '|' = true
    · have hmem : '|' ∈ cfg.esc := List.contains_iff_mem.mp he
      have hesc1 : escX { x with tables := true } cfg = cfg.esc := by simp [escX, hmem]
      rw [hesc1, hescx, hrefs]
      rfl
    · have hmem : '|' ∉ cfg.esc := fun hm => he (List.contains_iff_mem.mpr hm)
      have hesc1 : escX { x with tables := true } cfg = cfg.esc ++ ['|'] := by simp [escX, hmem]
      rw [hesc1, hescx, hrefs]
      have hrun := runX_rel (c := '|')
        (xc1 := { cfg := { esc := cfg.esc ++ ['|'], refs := (refsX x log).reverse },
                  table := InlineX.table x.footnotes x.wikilinks x.nl2br,
                  fnKeys := (footnotesOf log).map (·.1) })
        (xc2 := { cfg := { esc := cfg.esc, refs := (refsX x log).reverse },
                  table := InlineX.table x.footnotes x.wikilinks x.nl2br,
                  fnKeys := (footnotesOf log).map (·.1) })
        safe_pipe rfl (by
          intro k data si xs hd _
          cases k with
          | core i =>
            simp only [findX]
            rw [findMatch_escPipe cfg.esc _ i data si xs.st hd]
          | footnote => rfl
          | wikilink => rfl
          | nl => rfl) root stash hroot
      rw [hrun.1]
      rfl
  · intro _ _; rfl

end MdVerif.PipelineX
