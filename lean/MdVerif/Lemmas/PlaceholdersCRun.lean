/-
C10c: copy of `Lemmas/PlaceholdersBRun.lean` with the invariant `Adj3` (no `](`, no `![`) replaced by `AdjC true` (simple regions
behind `](` and `![`, `Spec/NoCtlC.lean`).  Declarations that do not depend on the invariant are imported from the
original file.  Core Lean only.
-/
import MdVerif.Lemmas.PlaceholdersBRun
import MdVerif.Lemmas.PlaceholdersCAdj
import MdVerif.Lemmas.PlaceholdersCPP

namespace MdVerif.NoCtl
open Py Inline

theorem WNodeC.mono {k k' : Nat} (hk : k ≤ k') {n : Node} (h : WNodeC k n) : WNodeC k' n := by
  obtain ⟨h1, h2, h3, h4, h5, h6⟩ := h
  refine ⟨h1, h2, h3, h4.mono hk, ?_, h6⟩
  split
  · rename_i hc; rw [if_pos hc] at h5; exact h5
  · rename_i hc; rw [if_neg hc] at h5; exact h5.mono hk

theorem forall_WNode_monoC {k k' : Nat} (hk : k ≤ k') {n : Node} (h : n.Forall (WNodeC k)) :
    n.Forall (WNodeC k') := Node.Forall.mono (fun _ hm => hm.mono hk) n h

theorem WNodeC.children_irrel {k : Nat} (n : Node) (l : List Node) (h : WNodeC k n) :
    WNodeC k { n with children := l } := h

theorem WNodeC.clean {k : Nat} {n : Node} (h : WNodeC k n) (hc : Clean true n) : WNodeC 0 n := by
  obtain ⟨h1, h2, h3, h4, h5, h6⟩ := h
  refine ⟨h1, h2, h3, ⟨hc.2, h4.2⟩, ?_, h6⟩
  split
  · rename_i hcd; rw [if_pos hcd] at h5; exact h5
  · rename_i hcd; rw [if_neg hcd] at h5; exact ⟨hc.1, h5.2⟩

mutual
theorem all_cleanC (k : Nat) : ∀ n : Node, n.Forall (WNodeC k) → Clean true n →
    (∀ m, ¬ Unclean true n m) → n.Forall (WNodeC 0)
  | ⟨tag, attrs, text, ta, children, tail, tla⟩ => by
    intro h hc hu
    simp only [Node.Forall] at h ⊢
    refine ⟨h.1.clean hc, all_clean_listC k children h.2 ?_ ?_⟩
    · intro c hcm
      apply Classical.byContradiction
      intro hnc
      exact hu [] ⟨_, getAt_nil _, c, hcm, hnc⟩
    · intro j c m hj hum
      obtain ⟨n, hn, hx⟩ := hum
      exact hu (j :: m) ⟨n, by rw [getAt_cons]; simp only [hj]; exact hn, hx⟩
theorem all_clean_listC (k : Nat) : ∀ l : List Node, Node.ForallL (WNodeC k) l →
    (∀ c ∈ l, Clean true c) → (∀ (j : Nat) (c : Node) (m : Path), l[j]? = some c → ¬ Unclean true c m) → Node.ForallL (WNodeC 0) l
  | [] => by intros; trivial
  | c :: r => by
    intro h hc hu
    simp only [Node.ForallL] at h ⊢
    refine ⟨all_cleanC k c h.1 (hc c (by simp)) (fun m => hu 0 c m rfl),
      all_clean_listC k r h.2 (fun d hd => hc d (by simp [hd])) (fun j d m hj => hu (j + 1) d m (by simpa using hj))⟩
end

/-! ### `visitChild` -/

/-- the text step of `visitChild` -/
theorem visit_textC {cfg : Cfg} (hhi : HISpecC cfg) {child : Node} {st : St}
    (hc : WNodeC st.stash.length child) (hst : StOKC st.stash) {c1 : Node} {lst : List Node} {st1 : St}
    (h : (if Node.truthy child.text && !child.textAtomic then
            match handleInlineTop cfg (child.text.getD []) st with
            | none => none
            | some (data, st1) =>
              match ppTop st1 data false { child with text := none, textAtomic := false } true with
              | none => none
              | some (lst, c1) => some (c1, lst, st1)
          else some (child, [], st)) = some (c1, lst, st1)) :
    st.stash.length ≤ st1.stash.length ∧ StOKC st1.stash ∧ st1.html = st.html ∧
    WNodeC st1.stash.length c1 ∧ WFO true 0 c1.text ∧ c1.children = child.children ∧ c1.tail = child.tail ∧
    c1.tailAtomic = child.tailAtomic ∧ ∀ n ∈ lst, OutC st1.stash.length n := by
  split at h
  · rename_i hcond
    simp only [Bool.and_eq_true, Bool.not_eq_true'] at hcond
    cases hh : handleInlineTop cfg (child.text.getD []) st with
    | none => simp [hh] at h
    | some r =>
      obtain ⟨data, st1'⟩ := r
      simp only [hh] at h
      cases hp : ppTop st1' data false { child with text := none, textAtomic := false } true with
      | none => simp [hp] at h
      | some r2 =>
        obtain ⟨lst', c1'⟩ := r2
        simp only [hp, Option.some.injEq, Prod.mk.injEq] at h
        obtain ⟨rfl, rfl, rfl⟩ := h
        obtain ⟨t1, t2, t3, t4, t5, t6⟩ := hc
        rw [hcond.2] at t5
        simp only [Bool.false_eq_true, if_false] at t5
        obtain ⟨w1, w3, w4, w5⟩ := hhi _ _ _ _ t5 hst hh
        have inv := ppTopC_spec w3 (isText := true) (parent := { child with text := none, textAtomic := false })
          w1 rfl rfl hp
        have hs : StrC 0 c1'.text := inv.slotOK
        have hfl : c1'.textAtomic = false := inv.flag
        have hcode : isCode c1' = isCode child := by simp only [isCode, ← inv.frame.1]
        refine ⟨w4, w3, w5, ?_, hs.1, inv.frame.2.2.symm, inv.other.1, inv.other.2, inv.res⟩
        refine ⟨by rw [← inv.frame.1]; exact t1, by rw [← inv.frame.2.1]; exact t2,
          by rw [inv.other.2]; exact t3, by rw [inv.other.1]; exact t4.mono w4, ?_, ?_⟩
        · rw [hfl]; simp only [Bool.false_eq_true, if_false]
          exact (hs.mono (Nat.zero_le _)).toT
        · intro hcd
          rw [hcode] at hcd
          have := t6 hcd
          rw [this] at hcond; exact absurd hcond.2 (by decide)
  · rename_i hcond
    simp only [Option.some.injEq, Prod.mk.injEq] at h
    obtain ⟨rfl, rfl, rfl⟩ := h
    refine ⟨Nat.le_refl _, hst, rfl, hc, ?_, rfl, rfl, rfl, by simp⟩
    by_cases hat : child.textAtomic = true
    · have := hc.2.2.2.2.1
      rw [if_pos hat] at this
      exact WF.of_noCtl this
    · have : Node.truthy child.text = false := by
        simp only [Bool.and_eq_true, Bool.not_eq_true', not_and, Bool.not_eq_false] at hcond
        cases htr : Node.truthy child.text with
        | false => rfl
        | true => exact absurd (hcond htr) hat
      unfold WFO
      cases htx : child.text with
      | none => exact .nil
      | some s =>
        cases s with
        | nil => exact .nil
        | cons a b => rw [htx] at this; simp [Node.truthy] at this

/-- the tail step of `visitChild` -/
theorem visit_tailC {cfg : Cfg} (hhi : HISpecC cfg) {c1 : Node} {st1 : St}
    (hc : WNodeC st1.stash.length c1) (hst : StOKC st1.stash) {c2 : Node} {tr : List Node} {st2 : St}
    (h : (if Node.truthy c1.tail then
            match (if c1.tailAtomic then some (c1.tail.getD [], st1) else handleInlineTop cfg (c1.tail.getD []) st1) with
            | none => none
            | some (data, st2) =>
              match ppTop st2 data c1.tailAtomic (mkEl "d") false with
              | none => none
              | some (tr, dumby) =>
                some ((if Node.truthy dumby.tail then { c1 with tail := dumby.tail, tailAtomic := dumby.tailAtomic }
                       else { c1 with tail := none, tailAtomic := false }), tr, st2)
          else some (c1, [], st1)) = some (c2, tr, st2)) :
    st1.stash.length ≤ st2.stash.length ∧ StOKC st2.stash ∧ st2.html = st1.html ∧
    WNodeC st2.stash.length c2 ∧ WFO true 0 c2.tail ∧ c2.text = c1.text ∧ c2.children = c1.children ∧
    ∀ n ∈ tr, OutC st2.stash.length n := by
  have hta : c1.tailAtomic = false := hc.2.2.1
  rw [hta] at h
  simp only [Bool.false_eq_true, if_false] at h
  split at h
  · cases hx : handleInlineTop cfg (c1.tail.getD []) st1 with
    | none => simp [hx] at h
    | some r =>
      obtain ⟨data, st2'⟩ := r
      simp only [hx] at h
      obtain ⟨w1, w3, w4, w5⟩ := hhi _ _ _ _ hc.2.2.2.1 hst hx
      cases hp : ppTop st2' data false (mkEl "d") false with
      | none => simp [hp] at h
      | some r2 =>
        obtain ⟨tr', dumby⟩ := r2
        simp only [hp, Option.some.injEq, Prod.mk.injEq] at h
        obtain ⟨rfl, rfl, rfl⟩ := h
        have inv := ppTopC_spec w3 (isText := false) (parent := mkEl "d") w1 rfl rfl hp
        have hs : StrC 0 dumby.tail := inv.slotOK
        have hfl : dumby.tailAtomic = false := inv.flag
        have hcm := hc.mono w4
        refine ⟨w4, w3, w5, ?_, ?_, ?_, ?_, inv.res⟩
        · split
          · rw [hfl]; exact hcm.set_tail (hs.mono (Nat.zero_le _)).toT
          · exact hcm.set_tail (strT_noneC _)
        · split
          · exact hs.1
          · exact .nil
        · split <;> rfl
        · split <;> rfl
  · rename_i hcond
    simp only [Option.some.injEq, Prod.mk.injEq] at h
    obtain ⟨rfl, rfl, rfl⟩ := h
    refine ⟨Nat.le_refl _, hst, rfl, hc, ?_, rfl, rfl, by simp⟩
    unfold WFO
    cases htx : c1.tail with
    | none => exact .nil
    | some s =>
      cases s with
      | nil => exact .nil
      | cons a b => rw [htx] at hcond; simp [Node.truthy] at hcond

theorem visitChild_specC {cfg : Cfg} (hhi : HISpecC cfg) {child : Node} {v : Visit} {c3 : Node}
    {tr : List Node} {v' : Visit} (hc : child.Forall (WNodeC v.st.stash.length)) (hst : StOKC v.st.stash)
    (h : visitChild cfg child v = some (c3, tr, v')) :
    v.st.stash.length ≤ v'.st.stash.length ∧ StOKC v'.st.stash ∧ v'.st.html = v.st.html ∧ v'.done = v.done ∧
    v'.posmap = v.posmap ∧ c3.Forall (WNodeC v'.st.stash.length) ∧ Clean true c3 ∧
    (∀ n ∈ tr, OutC v'.st.stash.length n) ∧ (∀ q ∈ v.pushes, q ∈ v'.pushes) ∧
    (∀ r, Unclean true c3 r → ∃ q ∈ v'.pushes, q <+: v.done.length :: r) := by
  rw [Node.forall_iff] at hc
  unfold visitChild at h
  simp only at h
  split at h
  · simp at h
  · rename_i c1 lst st1 h1
    obtain ⟨a1, a2, a3, a4, a5, a6, a7, a8, a9⟩ := visit_textC hhi hc.1 hst h1
    split at h
    · simp at h
    · rename_i c2 tr' st2 h2
      obtain ⟨b1, b2, b3, b4, b5, b6, b7, b8⟩ := visit_tailC hhi a4 a2 h2
      simp only [Option.some.injEq, Prod.mk.injEq] at h
      obtain ⟨rfl, rfl, rfl⟩ := h
      have hkids : c2.children = child.children := b7.trans a6
      refine ⟨Nat.le_trans a1 b1, b2, b3.trans a3, rfl, rfl, ?_, ⟨by show WFO true 0 c2.text; rw [b6]; exact a5, b5⟩,
        b8, ?_, ?_⟩
      · rw [Node.forall_iff]
        refine ⟨b4, ?_⟩
        intro g hg
        simp only [List.mem_append] at hg
        rcases hg with hg | hg
        · exact forall_WNode_monoC b1 (a9 g hg).1
        · rw [hkids] at hg
          exact forall_WNode_monoC (Nat.le_trans a1 b1) (hc.2 g hg)
      · intro q hq
        split
        · simp [hq]
        · simp [hq]
      · intro r hu
        obtain ⟨n, hn, d, hd, hnc⟩ := hu
        have hpush1 : child.children ≠ [] → [v.done.length] ∈
            (if child.children.isEmpty = true then
              (List.map (fun k => [v.done.length, k]) (List.range lst.length)).reverse ++ v.pushes
            else [v.done.length] ::
              ((List.map (fun k => [v.done.length, k]) (List.range lst.length)).reverse ++ v.pushes)) := by
          intro hne
          have : child.children.isEmpty = false := by
            cases hch : child.children with
            | nil => exact absurd hch hne
            | cons _ _ => rfl
          simp [this]
        have hpush2 : ∀ j, j < lst.length → [v.done.length, j] ∈
            (if child.children.isEmpty = true then
              (List.map (fun k => [v.done.length, k]) (List.range lst.length)).reverse ++ v.pushes
            else [v.done.length] ::
              ((List.map (fun k => [v.done.length, k]) (List.range lst.length)).reverse ++ v.pushes)) := by
          intro j hj
          split <;> simp <;> first | exact .inl hj | exact .inr (.inl hj)
        cases r with
        | nil =>
          rw [getAt_nil] at hn
          cases hn
          simp only [List.mem_append] at hd
          rcases hd with hd | hd
          · exact absurd (a9 d hd).2 hnc
          · rw [hkids] at hd
            exact ⟨_, hpush1 (List.ne_nil_of_mem hd), List.prefix_refl _⟩
        | cons j r' =>
          rw [getAt_cons] at hn
          simp only at hn
          rcases Nat.lt_or_ge j lst.length with hj | hj
          · exact ⟨_, hpush2 j hj, ⟨r', rfl⟩⟩
          · rw [List.getElem?_append_right hj, hkids] at hn
            cases hg : child.children[j - lst.length]? with
            | none => simp [hg] at hn
            | some g =>
              exact ⟨_, hpush1 (List.ne_nil_of_mem (List.mem_of_getElem? hg)), ⟨j :: r', rfl⟩⟩

/-! ### `visitLoop`, `runLoop`, `run` -/

structure VInvC (v : Visit) : Prop where
  stOK : StOKC v.st.stash
  done : ∀ c ∈ v.done, c.Forall (WNodeC v.st.stash.length) ∧ Clean true c
  cov : ∀ (idx : Nat) (c : Node) (r : Path), v.done.reverse[idx]? = some c → Unclean true c r →
    ∃ q ∈ v.pushes, q <+: idx :: r

theorem visitLoop_specC {cfg : Cfg} (hhi : HISpecC cfg) :
    ∀ (g : Nat) (todo : List (Node × Option Nat)) (v v' : Visit), VInvC v →
      (∀ x ∈ todo, x.1.Forall (WNodeC v.st.stash.length)) → visitLoop cfg g todo v = some v' →
      VInvC v' ∧ v.st.stash.length ≤ v'.st.stash.length ∧ v'.st.html = v.st.html := by
  intro g
  induction g with
  | zero => intro todo v v' _ _ h; simp [visitLoop] at h
  | succ g ih =>
    intro todo v v' inv htodo h
    cases todo with
    | nil =>
      simp only [visitLoop, Option.some.injEq] at h
      subst h
      exact ⟨inv, Nat.le_refl _, rfl⟩
    | cons x todo =>
      obtain ⟨child, orig⟩ := x
      simp only [visitLoop] at h
      cases hv : visitChild cfg child v with
      | none => simp [hv] at h
      | some r =>
        obtain ⟨c, tr, v1⟩ := r
        simp only [hv] at h
        obtain ⟨a1, a2, a3, a4, a5, a6, a7, a8, a9, a10⟩ :=
          visitChild_specC hhi (htodo (child, orig) (by simp)) inv.stOK hv
        have inv2 : ∀ pm, VInvC { v1 with done := c :: v1.done, posmap := pm } := by
          intro pm
          refine ⟨a2, ?_, ?_⟩
          · intro d hd
            simp only [List.mem_cons] at hd
            rcases hd with rfl | hd
            · exact ⟨a6, a7⟩
            · rw [a4] at hd
              exact ⟨forall_WNode_monoC a1 (inv.done d hd).1, (inv.done d hd).2⟩
          · intro idx d r hidx hu
            simp only [List.reverse_cons, a4] at hidx
            have hL : v.done.reverse.length = v.done.length := List.length_reverse
            rcases Nat.lt_or_ge idx v.done.reverse.length with hlt | hge
            · rw [List.getElem?_append_left hlt] at hidx
              obtain ⟨q, hq, hpre⟩ := inv.cov idx d r hidx hu
              exact ⟨q, a9 q hq, hpre⟩
            · rw [List.getElem?_append_right hge] at hidx
              have h0 : idx - v.done.reverse.length = 0 := by
                rcases Nat.eq_zero_or_pos (idx - v.done.reverse.length) with h0 | hpos
                · exact h0
                · rw [List.getElem?_eq_none (by simp only [List.length_cons, List.length_nil]; omega)] at hidx; cases hidx
              rw [h0] at hidx
              simp only [List.getElem?_cons_zero, Option.some.injEq] at hidx
              subst hidx
              have hidx' : idx = v.done.length := by omega
              subst hidx'
              exact a10 r hu
        have htodo2 : ∀ x ∈ tr.map (fun n => (n, (none : Option Nat))) ++ todo,
            x.1.Forall (WNodeC v1.st.stash.length) := by
          intro x hx
          rcases List.mem_append.1 hx with hx | hx
          · obtain ⟨n, hn, rfl⟩ := List.mem_map.1 hx
            exact (a8 n hn).1
          · exact forall_WNode_monoC a1 (htodo x (by simp [hx]))
        obtain ⟨r1, r2, r3⟩ := ih _ _ v' (inv2 _) htodo2 h
        exact ⟨r1, Nat.le_trans a1 r2, r3.trans a3⟩

/-- state of the `while stack` loop -/
structure RInvC (root : Node) (stack : List Path) (st : St) : Prop where
  stOK : StOKC st.stash
  tree : root.Forall (WNodeC st.stash.length)
  rootClean : Clean true root
  cov : Covered true root stack

theorem runLoop_specC {cfg : Cfg} (hhi : HISpecC cfg) (g2 : Nat) :
    ∀ (g : Nat) (root : Node) (stack : List Path) (st : St) (root' : Node) (st' : St), RInvC root stack st →
      runLoop cfg g2 g root stack st = some (root', st') →
      root'.Forall (WNodeC 0) ∧ st'.html = st.html := by
  intro g
  induction g with
  | zero => intro root stack st root' st' _ h; simp [runLoop] at h
  | succ g ih =>
    intro root stack st root' st' inv h
    cases stack with
    | nil =>
      simp only [runLoop, Option.some.injEq, Prod.mk.injEq] at h
      obtain ⟨rfl, rfl⟩ := h
      refine ⟨all_cleanC _ root inv.tree inv.rootClean ?_, rfl⟩
      intro m hu
      obtain ⟨q, hq, _⟩ := inv.cov m hu
      simp at hq
    | cons p stack =>
      simp only [runLoop] at h
      cases hg : getAt root p with
      | none =>
        simp only [hg] at h
        refine ih _ _ _ _ _ ⟨inv.stOK, inv.tree, inv.rootClean, ?_⟩ h
        intro m hu
        obtain ⟨q, hq, hpre⟩ := inv.cov m hu
        rcases List.mem_cons.1 hq with rfl | hq
        · obtain ⟨n, hn, _⟩ := hu
          obtain ⟨n', hn'⟩ := getAt_prefix hn hpre
          rw [hg] at hn'; cases hn'
        · exact ⟨q, hq, hpre⟩
      | some cur =>
        simp only [hg] at h
        cases hv : visitLoop cfg g2 (withIdx cur.children 0) { st := st } with
        | none => simp [hv] at h
        | some v =>
          simp only [hv] at h
          have hcur := forall_getAt inv.tree hg
          rw [Node.forall_iff] at hcur
          have vinv0 : VInvC ({ st := st } : Visit) := ⟨inv.stOK, by simp, by simp⟩
          obtain ⟨vinv, hle, hhtml⟩ := visitLoop_specC hhi g2 _ _ v vinv0
            (fun x hx => hcur.2 _ (mem_withIdx hx)) hv
          simp only at hle hhtml
          -- the new subtree
          have hnew : ({ cur with children := v.done.reverse } : Node).Forall (WNodeC v.st.stash.length) := by
            rw [Node.forall_iff]
            exact ⟨hcur.1.mono hle, fun c hc => (vinv.done c (List.mem_reverse.1 hc)).1⟩
          have hframe := setAt_frame (root := root) (new := { cur with children := v.done.reverse }) hg rfl rfl rfl rfl rfl rfl
          have inv' : RInvC (setAt root p { cur with children := v.done.reverse })
              (v.pushes.map (p ++ ·) ++ stack.map (remap p v.posmap)) v.st := by
            refine ⟨vinv.stOK, forall_setAt WNodeC.children_irrel (forall_WNode_monoC hle inv.tree) hnew hg, ?_, ?_⟩
            · unfold Clean; rw [hframe.1, hframe.2.2.1]; exact inv.rootClean
            · intro m hu
              by_cases hpm : p <+: m
              · obtain ⟨r, rfl⟩ := hpm
                obtain ⟨n, hn, d, hd, hnc⟩ := hu
                rw [getAt_setAt_append hg] at hn
                -- an unclean element inside the new subtree is below one of the pushes
                cases r with
                | nil =>
                  rw [getAt_nil] at hn; cases hn
                  exact absurd (vinv.done d (List.mem_reverse.1 hd)).2 hnc
                | cons j r' =>
                  rw [getAt_cons] at hn
                  simp only at hn
                  cases hj : v.done.reverse[j]? with
                  | none => simp [hj] at hn
                  | some c =>
                    simp only [hj] at hn
                    obtain ⟨q, hq, hpre⟩ := vinv.cov j c r' hj ⟨n, hn, d, hd, hnc⟩
                    refine ⟨p ++ q, List.mem_append_left _ (List.mem_map.2 ⟨q, hq, rfl⟩), ?_⟩
                    exact (List.prefix_append_right_inj p).2 hpre
              · have hu' := unclean_setAt_outside (new := { cur with children := v.done.reverse }) hg rfl rfl hpm hu
                obtain ⟨q, hq, hpre⟩ := inv.cov m hu'
                rcases List.mem_cons.1 hq with rfl | hq
                · exact absurd hpre hpm
                · refine ⟨q, List.mem_append_right _ (List.mem_map.2 ⟨q, hq, ?_⟩), hpre⟩
                  exact remap_of_not_prefix _ (fun hpq => hpm (hpq.trans hpre))
          obtain ⟨r1, r2⟩ := ih _ _ _ _ _ inv' h
          exact ⟨r1, r2.trans hhtml⟩

theorem run_specC {cfg : Cfg} (hhi : HISpecC cfg) {tree t : Node} {html : List Str} {st : St}
    (ht : tree.Forall (WNodeC 0)) (h : run cfg tree html = some (t, st)) :
    t.Forall (WNodeC 0) ∧ st.html = html := by
  unfold run at h
  have hcl : Clean true tree := by
    rw [Node.forall_iff] at ht
    obtain ⟨-, -, -, t4, t5, -⟩ := ht.1
    refine ⟨?_, t4.1⟩
    by_cases hc : tree.textAtomic = true
    · rw [if_pos hc] at t5; exact WF.of_noCtl t5
    · rw [if_neg hc] at t5; exact t5.1
  have inv : RInvC tree [[]] { html := html } := by
    refine ⟨by intro i it hi; simp at hi, ht, hcl, ?_⟩
    intro m _
    exact ⟨[], by simp, List.nil_prefix⟩
  exact runLoop_specC hhi _ _ _ _ _ _ _ inv h

end MdVerif.NoCtl
