/-
`PipelineX.convertX` with no extension is `Pipeline.convert`; the block parser with the table processor off is the
extended block parser of `Model/BlockExt.lean`.  Core Lean only.
-/
import MdVerif.Model.PipelineX
import MdVerif.Lemmas.BlockExt
import MdVerif.Lemmas.InlineX

namespace MdVerif.BlockExt
open Py Block

theorem tailEmptyT_false (cfg : XCfg) (tab : Nat) (pb : PB) (state : List BState) (refs : Refs) (parent : Node)
    (b : Str) (rest : List Str) :
    tailEmptyT false cfg tab pb state refs parent b rest = tailEmpty cfg tab pb state refs parent b rest := by
  simp only [tailEmptyT, tailEmpty]
  simp
  rfl

theorem dispatchXT_false (cfg : XCfg) (tab : Nat) (pb : PB) (state : List BState) (refs : Refs) (parent : Node)
    (b : Str) (rest : List Str) :
    dispatchXT false cfg tab pb state refs parent b rest = dispatchX cfg tab pb state refs parent b rest := by
  simp only [dispatchXT, dispatchX, tailEmptyT_false]
  rfl

/-- without the table processor `parseBlocksXT` is `parseBlocksX` -/
theorem parseBlocksXT_false (cfg : XCfg) (tab fuel : Nat) : parseBlocksXT false cfg tab fuel = parseBlocksX cfg tab fuel := by
  induction fuel with
  | zero =>
    funext state refs parent blocks
    cases blocks <;> rfl
  | succ f ih =>
    funext state refs parent blocks
    cases blocks with
    | nil => rfl
    | cons b rest =>
      simp only [parseBlocksXT, parseBlocksX, dispatchXT_false, ih]
      rfl

end MdVerif.BlockExt

namespace MdVerif.PipelineX
open Py Pipeline

theorem table_core : InlineX.table false false false = InlineX.coreTable := by decide

/-- with every extension off, `convertX` is the core `convert` -/
theorem convertX_core (cfg : Cfg) (src : Str) : convertX {} cfg src = convert cfg src := by
  simp only [convertX, convert, Exts.unsupported]
  split
  · rfl
  · simp only [Bool.false_eq_true, if_false]
    split
    · rfl
    · simp only [treeX, tree, prepareX, prepare, Exts.blockCfg, BlockExt.parseDocumentXT, Block.parseDocument,
        Block.parseDocumentWith, BlockExt.parseBlocksXT_false, BlockExt.fuelForX, Block.fuelFor, refsX, escX]
      have hcore : ({ admonition := false, defList := false, footnotes := false, abbr := false, saneLists := false } :
          BlockExt.XCfg) = BlockExt.XCfg.core := rfl
      simp only [Bool.false_eq_true, if_false, Bool.or_self, Bool.false_and, hcore, BlockExt.parseBlocksX_core]
      cases Block.parseChunk (Block.parseBlocks cfg.tab (2 * (Extract.extract (Normalize.normalize cfg.tab src)).length + 10))
          [] [] (Node.el "div") (Extract.extract (Normalize.normalize cfg.tab src)) with
      | none => rfl
      | some r =>
        obtain ⟨root, refs⟩ := r
        simp only [table_core]
        have hx := InlineX.runX_core { esc := cfg.esc, refs := refs.reverse }
          (List.map (fun x => x.fst) (BlockExt.footnotesOf refs)) root []
        simp only [InlineX.xcCore] at hx
        rw [hx]
        cases Inline.run { esc := cfg.esc, refs := refs.reverse } root [] with
        | none => rfl
        | some q =>
          obtain ⟨t, st⟩ := q
          simp only [Option.map_some, InlineX.lift]
          cases TreeProc.unescapeTree (TreeProc.prettify t cfg.blockLevel) with
          | none => rfl
          | some u =>
            simp only [finishX, postX, Post.finish, Post.post]
            cases Post.topLevelStrip (Ser.serialize cfg.fmt u) with
            | none => rfl
            | some out =>
              simp only [Bool.false_eq_true, if_false]
              cases Post.rawHtml cfg.blockLevel st.html (Post.rawHtmlFuel st.html) out with
              | none => rfl
              | some r => rfl

end MdVerif.PipelineX
