/-
Helper lemmas for `Props/C06Links.lean` (inline links), part 3: the whole pattern loop on a line
`C₀ [T₁](d₁) C₁ … [Tₘ](dₘ) Cₘ`.  Core Lean only.
-/
import MdVerif.Lemmas.RefTextInlLine

namespace MdVerif.RefText
open Py Inline Escape CodeLaw DocParse DocParse2

/-- the source of the line -/
def lineRawI (esc : List Char) (C0 : Chunk) (us : List IUse) : Str := C0.raw esc ++ usStageI esc 0 false 0 0 us

theorem outOK_usOuterI {esc : List Char} (us : List IUse) (h : ∀ u ∈ us, IUseOK esc u) :
    ∀ (m n0 s : Nat), OutOK esc (usOuter esc m n0 s (us.map IUse.toR)) := by
  induction us with
  | nil => intro _ _ _ o ho; simp [usOuter] at ho
  | cons u r ih =>
    intro m n0 s o ho
    simp only [List.map_cons, usOuter, List.mem_cons] at ho
    rcases ho with rfl | ho
    · exact (h u List.mem_cons_self).after
    · exact ih (fun x hx => h x (List.mem_cons_of_mem _ hx)) _ _ _ o ho

theorem usRawI_length {esc : List Char} (us : List IUse) (h : ∀ u ∈ us, IUseOK esc u) : ∀ (m n0 : Nat),
    usEscs esc (us.map IUse.toR) + usCnt0 (us.map IUse.toR) + usLinkLen (us.map IUse.toR) +
        usOutCnt 1 (us.map IUse.toR) + usOutCnt 2 (us.map IUse.toR) ≤
      (usStageI esc 0 false m n0 us).length := by
  induction us with
  | nil => intro _ _; simp [usEscs, usCnt0, usLinkLen, usOutCnt, usStageI]
  | cons u r ih =>
    intro m n0
    have hu := h u List.mem_cons_self
    have h1 := chunk_raw_length esc u.T hu.text.ok
    have h2 := chunk_raw_length esc u.C hu.after.ok
    have h3 := ih (fun x hx => h x (List.mem_cons_of_mem _ hx)) (m + u.T.escs esc + u.C.escs esc)
      (n0 + u.T.cnt 0 + u.C.cnt 0)
    simp only [List.map_cons, IUse.toR, usEscs, usCnt0, usLinkLen, usOutCnt, usStageI, Chunk.stage_raw,
      List.length_cons, List.length_append]
    omega

theorem charOK_usStageI1 {cfg : Inline.Cfg} (hE : EscOK cfg.esc) (hrb : ']' ∈ cfg.esc) (us : List IUse)
    (hus : ∀ u ∈ us, IUseOK cfg.esc u) : ∀ (m n0 : Nat), '\\' ∉ usStageI cfg.esc 1 true m n0 us := by
  induction us with
  | nil => intro _ _ h; simp [usStageI] at h
  | cons u r ih =>
    intro m n0 h
    have hu := hus u List.mem_cons_self
    rw [usStageI_cons] at h
    simp only [List.mem_append, List.mem_singleton] at h
    rcases h with h | h | h | h | h
    · exact absurd h (by decide)
    · exact bs_not_mem_stage hE hrb 1 (by omega) u.T hu.text.ok hu.text.plain _ _ _ _ h
    · exact bs_not_mem_closerI hu h
    · exact bs_not_mem_stage hE hrb 1 (by omega) u.C hu.after.ok hu.after.plain _ _ _ _ h
    · exact ih (fun x hx => hus x (List.mem_cons_of_mem _ hx)) _ _ h

/-- **the pattern loop on the line**: the code spans of all chunks, the escapes of all chunks, the references left
    to right (each with the emphases of its text), the `*` emphases and the `_` emphases of the contents outside the
    links -/
theorem handleInlineTop_lineI (cfg : Inline.Cfg) (hE : EscOK cfg.esc) (hrb : ']' ∈ cfg.esc) (C0 : Chunk)
    (us : List IUse) (st : St) (h0 : ChunkOK cfg.esc C0) (hus : ∀ u ∈ us, IUseOK cfg.esc u) :
    handleInlineTop cfg (lineRawI cfg.esc C0 us) st =
      some (lineRes cfg.esc st.stash.length C0 (us.map IUse.toR),
        { st with stash := st.stash ++ lineStash cfg.esc st.stash.length C0 (us.map IUse.toR) }) := by
  generalize hraw : lineRawI cfg.esc C0 us = raw
  have hlen : C0.escs cfg.esc + C0.cnt 0 + C0.cnt 1 + C0.cnt 2 + (usEscs cfg.esc (us.map IUse.toR) + usCnt0 (us.map IUse.toR) + usLinkLen (us.map IUse.toR) +
      usOutCnt 1 (us.map IUse.toR) + usOutCnt 2 (us.map IUse.toR)) ≤ raw.length := by
    have h1 := chunk_raw_length cfg.esc C0 h0.ok
    have h2 := usRawI_length us hus 0 0
    rw [← hraw, lineRawI, List.length_append]; omega
  have hul : us.length ≤ usLinkLen (us.map IUse.toR) := by
    clear hus hlen hraw
    induction us with
    | nil => simp [usLinkLen]
    | cons u r ih => simp only [List.map_cons, usLinkLen, List.length_cons]; omega
  obtain ⟨x, hx⟩ : ∃ x, loopFuel raw.length =
      x + 1 + 1 + usOutCnt 2 (us.map IUse.toR) + C0.cnt 2 + 1 + usOutCnt 1 (us.map IUse.toR) + C0.cnt 1 + 1 + 10 + us.length + 1 + 1 +
        usEscs cfg.esc (us.map IUse.toR) + C0.escs cfg.esc + 1 + usCnt0 (us.map IUse.toR) + C0.cnt 0 :=
    ⟨loopFuel raw.length - (usOutCnt 2 (us.map IUse.toR) + C0.cnt 2 + usOutCnt 1 (us.map IUse.toR) + C0.cnt 1 + us.length + usEscs cfg.esc (us.map IUse.toR) +
      C0.escs cfg.esc + usCnt0 (us.map IUse.toR) + C0.cnt 0 + 17), by
      have := CodeLaw.loopFuel_ge raw.length; omega⟩
  unfold handleInlineTop depthFuel
  rw [show raw.length + 20 = ((raw.length + 18) + 1) + 1 from rfl]
  unfold handleInline
  rw [hx]
  generalize hhi : (fun d p s => handleInline cfg ((raw.length + 18) + 1) d p s) = hi
  generalize hs0 : st.stash.length = s0
  rw [← hraw, lineRawI, ← Chunk.stage_raw cfg.esc 0 0 0 0 C0]
  -- pattern 0
  have e0 := code_pass_chunk cfg hi hE.bs hE.tick (usStageI cfg.esc 0 false 0 0 us) (usStageI_head _ _ _ _ _ _) C0 []
    0 0 0 0 st (x + 1 + 1 + usOutCnt 2 (us.map IUse.toR) + C0.cnt 2 + 1 + usOutCnt 1 (us.map IUse.toR) + C0.cnt 1 + 1 + 10 + us.length + 1 + 1 +
        usEscs cfg.esc (us.map IUse.toR) + C0.escs cfg.esc + 1 + usCnt0 (us.map IUse.toR)) btOK_nil (by simp) h0.ok h0.junctions
  simp only [List.nil_append] at e0
  rw [e0, hs0]
  have hb1 := btOK_chunk1 hE.bs hE.tick C0.segs [] C0.t0 (0 + escCount cfg.esc C0.t0) s0 0 0 btOK_nil (by simp) h0.ok
  simp only [List.nil_append] at hb1
  obtain ⟨e0', hb2⟩ := code_pass_usesI cfg hi hE.bs hE.tick us (C0.stage cfg.esc 1 false 0 s0 0 0) 0 0
    { st with stash := st.stash ++ nodesOf 0 C0.segs }
    (x + 1 + 1 + usOutCnt 2 (us.map IUse.toR) + C0.cnt 2 + 1 + usOutCnt 1 (us.map IUse.toR) + C0.cnt 1 + 1 + 10 + us.length + 1 + 1 +
        usEscs cfg.esc (us.map IUse.toR) + C0.escs cfg.esc + 1)
    (by simpa [Chunk.stage] using hb1) hus
  rw [e0']
  have hl1 : (st.stash ++ nodesOf 0 C0.segs).length = s0 + C0.cnt 0 := by simp [hs0, Chunk.cnt]
  simp only [hl1] at hb2 ⊢
  rw [hiLoop_step _ _ _ 0 0 _ (by omega) _ _ _ _ (applyPattern_zero_none cfg _ _ _ (btFind_of_btOK _ hb2))]
  simp only [Bool.false_eq_true, if_false, Nat.zero_add]
  -- pattern 1
  have e1 := esc_pass_chunk cfg hi hE.bs 1 (by omega) (usStageI cfg.esc 1 false 0 (s0 + C0.cnt 0) us) C0 [] 0 s0 0 0
    { st with stash := st.stash ++ nodesOf 0 C0.segs ++ usNodes0 (us.map IUse.toR) }
    (x + 1 + 1 + usOutCnt 2 (us.map IUse.toR) + C0.cnt 2 + 1 + usOutCnt 1 (us.map IUse.toR) + C0.cnt 1 + 1 + 10 + us.length + 1 + 1 +
        usEscs cfg.esc (us.map IUse.toR)) (by simp) h0.ok
  simp only [List.nil_append] at e1
  rw [e1]
  have hl2 : (st.stash ++ nodesOf 0 C0.segs ++ usNodes0 (us.map IUse.toR)).length = mStart s0 C0 (us.map IUse.toR) := by
    simp [hs0, Chunk.cnt, mStart, usNodes0_length, Nat.add_assoc]
  simp only [hl2]
  have hbs0 : '\\' ∉ C0.stage cfg.esc 1 true (mStart s0 C0 (us.map IUse.toR)) s0 0 0 :=
    bs_not_mem_stage hE hrb 1 (by omega) C0 h0.ok h0.plain _ _ _ _
  have e1' := esc_pass_usesI cfg hi hE hrb us (C0.stage cfg.esc 1 true (mStart s0 C0 (us.map IUse.toR)) s0 0 0) 0 (s0 + C0.cnt 0)
    { st with stash := st.stash ++ nodesOf 0 C0.segs ++ usNodes0 (us.map IUse.toR) ++ C0.escStash cfg.esc }
    (x + 1 + 1 + usOutCnt 2 (us.map IUse.toR) + C0.cnt 2 + 1 + usOutCnt 1 (us.map IUse.toR) + C0.cnt 1 + 1 + 10 + us.length + 1 + 1) hbs0 hus
  rw [e1']
  have hl3 : (st.stash ++ nodesOf 0 C0.segs ++ usNodes0 (us.map IUse.toR) ++ C0.escStash cfg.esc).length =
      mStart s0 C0 (us.map IUse.toR) + C0.escs cfg.esc := by
    rw [List.length_append, hl2, Chunk.escStash_length]
  simp only [hl3]
  have hbsD : '\\' ∉ C0.stage cfg.esc 1 true (mStart s0 C0 (us.map IUse.toR)) s0 0 0 ++
      usStageI cfg.esc 1 true (mStart s0 C0 (us.map IUse.toR) + C0.escs cfg.esc) (s0 + C0.cnt 0) us := by
    intro h; rcases List.mem_append.1 h with h | h
    · exact hbs0 h
    · exact charOK_usStageI1 hE hrb us hus _ _ h
  rw [hiLoop_step _ _ _ 1 0 _ (by omega) _ _ _ _ (applyPattern_esc_none cfg hi _ _ hbsD)]
  simp only [Bool.false_eq_true, if_false]
  -- pattern 2: the reference pattern finds nothing
  have hc0 := charOK_stage hE hrb 1 (by omega) C0 h0.ok h0.plain (mStart s0 C0 (us.map IUse.toR)) s0 0 0
  have hn0 := not_mem_of_charOK hc0
  have hscan2 := linkScan2_uses cfg hE hrb
    (st.stash ++ nodesOf 0 C0.segs ++ usNodes0 (us.map IUse.toR) ++ C0.escStash cfg.esc ++ usEscStash cfg.esc (us.map IUse.toR))
    us [] (C0.stage cfg.esc 1 true (mStart s0 C0 (us.map IUse.toR)) s0 0 0)
    (mStart s0 C0 (us.map IUse.toR) + C0.escs cfg.esc) (s0 + C0.cnt 0) none hn0.1 hn0.2.2.1 (by simp) hus
  simp only [List.nil_append, List.length_nil] at hscan2
  rw [show (1 : Nat) + 1 = 2 from rfl,
    hiLoop_step _ _ _ 2 0 _ (by omega) _ _ _ _ (InlineRef.applyPattern_none cfg hi 2 _ 0 _ (by
      rw [findMatch2_eq]; simp only [hscan2]))]
  simp only [Bool.false_eq_true, if_false]
  -- pattern 3: the inline links
  have hhi2 : hi = fun d p s => handleInline cfg ((raw.length + 17) + 2) d p s := hhi.symm
  have e2 := link_pass_usesI cfg hE hrb (raw.length + 17) us (C0.stage cfg.esc 1 true (mStart s0 C0 (us.map IUse.toR)) s0 0 0)
    (mStart s0 C0 (us.map IUse.toR) + C0.escs cfg.esc) (s0 + C0.cnt 0)
    { st with stash := st.stash ++ nodesOf 0 C0.segs ++ usNodes0 (us.map IUse.toR) ++ C0.escStash cfg.esc ++ usEscStash cfg.esc (us.map IUse.toR) }
    (x + 1 + 1 + usOutCnt 2 (us.map IUse.toR) + C0.cnt 2 + 1 + usOutCnt 1 (us.map IUse.toR) + C0.cnt 1 + 1 + 10) hn0.1 hn0.2.2.1 hus
  have hl4 : (st.stash ++ nodesOf 0 C0.segs ++ usNodes0 (us.map IUse.toR) ++ C0.escStash cfg.esc ++ usEscStash cfg.esc (us.map IUse.toR)).length =
      lStart cfg.esc s0 C0 (us.map IUse.toR) := by
    rw [List.length_append, hl3, usEscStash_length]; rfl
  simp only [hl4] at e2
  rw [show (2 : Nat) + 1 = 3 from rfl, hhi2, e2, ← hhi2]
  have hos : OutOK cfg.esc (lineOuter cfg.esc s0 C0 (us.map IUse.toR)) := outOK_usOuterI us hus _ _ _
  have hfold : usOuter cfg.esc (mStart s0 C0 (us.map IUse.toR) + C0.escs cfg.esc) (s0 + C0.cnt 0) (lStart cfg.esc s0 C0 (us.map IUse.toR)) (us.map IUse.toR) =
      lineOuter cfg.esc s0 C0 (us.map IUse.toR) := rfl
  have hfold2 : usLinkStash cfg.esc (mStart s0 C0 (us.map IUse.toR) + C0.escs cfg.esc) (s0 + C0.cnt 0) (lStart cfg.esc s0 C0 (us.map IUse.toR)) (us.map IUse.toR) =
      lineLinks cfg.esc s0 C0 (us.map IUse.toR) := rfl
  rw [hfold, hfold2]
  generalize hos' : lineOuter cfg.esc s0 C0 (us.map IUse.toR) = os at hos
  -- patterns 3–12
  have hmid : Mid (C0.stage cfg.esc 1 true (mStart s0 C0 (us.map IUse.toR)) s0 0 0 ++ outStage cfg.esc 1 0 0 os) :=
    Mid.append (mid_of_charOK hc0) (mid_of_charOK (charOK_outStage hE hrb 1 (by omega) os hos 0 0))
  rw [hiLoop_mid cfg hi _ _ hmid _ 10 3 rfl (by omega)]
  -- pattern 13
  have hns : nsFind (C0.stage cfg.esc 1 true (mStart s0 C0 (us.map IUse.toR)) s0 0 0 ++ outStage cfg.esc 1 0 0 os) 0 = none :=
    nsFind_of_nsSkip _ (nsSkip_append (nsSkip_stage hE.star hE.under 1 (by omega) C0 h0.ok _ _ _ _)
      (nsSkip_outStage hE.star hE.under 1 (by omega) os hos 0 0))
  rw [hiLoop_step _ _ _ 13 0 _ (by omega) _ _ _ _ (applyPattern_13 cfg hi _ _ hns)]
  simp only [Bool.false_eq_true, if_false]
  have hoc : ∀ k, outCnt k os = usOutCnt k (us.map IUse.toR) := by
    intro k; rw [← hos']; exact outCnt_usOuter cfg.esc k (us.map IUse.toR) _ _ _
  -- pattern 14
  have hl5 : (st.stash ++ nodesOf 0 C0.segs ++ usNodes0 (us.map IUse.toR) ++ C0.escStash cfg.esc ++ usEscStash cfg.esc (us.map IUse.toR) ++
      lineLinks cfg.esc s0 C0 (us.map IUse.toR)).length = o1Start cfg.esc s0 C0 (us.map IUse.toR) := by
    rw [List.length_append, hl4]; simp [lineLinks, usLinkStash_length, o1Start]
  have e14 := star_pass_chunk cfg (raw.length + 18) hE.star hE.under (outStage cfg.esc 1 0 0 os) C0 []
    (mStart s0 C0 (us.map IUse.toR)) s0 0 0
    { st with stash := st.stash ++ nodesOf 0 C0.segs ++ usNodes0 (us.map IUse.toR) ++ C0.escStash cfg.esc ++ usEscStash cfg.esc (us.map IUse.toR) ++
      lineLinks cfg.esc s0 C0 (us.map IUse.toR) } (x + 1 + 1 + usOutCnt 2 (us.map IUse.toR) + C0.cnt 2 + 1 + usOutCnt 1 (us.map IUse.toR)) (by simp) h0.ok
  simp only [List.nil_append, hl5] at e14
  rw [show 13 + 1 = 14 from rfl, ← hhi, e14]
  have e14' := star_pass_outer cfg (raw.length + 18) hE hrb os
    (C0.stage cfg.esc 2 true (mStart s0 C0 (us.map IUse.toR)) s0 (o1Start cfg.esc s0 C0 (us.map IUse.toR)) 0) 0 0
    { st with stash := st.stash ++ nodesOf 0 C0.segs ++ usNodes0 (us.map IUse.toR) ++ C0.escStash cfg.esc ++ usEscStash cfg.esc (us.map IUse.toR) ++
      lineLinks cfg.esc s0 C0 (us.map IUse.toR) ++ nodesOf 1 C0.segs } (x + 1 + 1 + usOutCnt 2 (us.map IUse.toR) + C0.cnt 2 + 1)
    (star_not_mem_stage2 hE hrb C0 h0.ok h0.plain _ _ _ _) hos
  have hl6 : (st.stash ++ nodesOf 0 C0.segs ++ usNodes0 (us.map IUse.toR) ++ C0.escStash cfg.esc ++ usEscStash cfg.esc (us.map IUse.toR) ++
      lineLinks cfg.esc s0 C0 (us.map IUse.toR) ++ nodesOf 1 C0.segs).length = o1Start cfg.esc s0 C0 (us.map IUse.toR) + C0.cnt 1 := by
    rw [List.length_append, hl5]; rfl
  simp only [hl6, hoc] at e14'
  rw [outStage1_indep cfg.esc os 0 0 (0 + C0.cnt 1) (0 + C0.cnt 2)] at e14
  rw [outStage1_indep cfg.esc os (0 + C0.cnt 1) (0 + C0.cnt 2) 0 0] at e14
  rw [e14']
  have hstar2 : '*' ∉ C0.stage cfg.esc 2 true (mStart s0 C0 (us.map IUse.toR)) s0 (o1Start cfg.esc s0 C0 (us.map IUse.toR)) 0 ++
      outStage cfg.esc 2 (o1Start cfg.esc s0 C0 (us.map IUse.toR) + C0.cnt 1) 0 os := by
    intro h; rcases List.mem_append.1 h with h | h
    · exact star_not_mem_stage2 hE hrb C0 h0.ok h0.plain _ _ _ _ h
    · have := (charOK_outStage hE hrb 2 (by omega) os hos _ _ _ h).2.2.2.2.2.2.2.1 rfl
      omega
  rw [hhi, hiLoop_step _ _ _ 14 0 _ (by omega) _ _ _ _
    (applyPattern_em_none cfg hi 14 (Or.inl rfl) _ _ (by simpa using hstar2))]
  simp only [Bool.false_eq_true, if_false]
  -- pattern 15
  have hl7 : (st.stash ++ nodesOf 0 C0.segs ++ usNodes0 (us.map IUse.toR) ++ C0.escStash cfg.esc ++ usEscStash cfg.esc (us.map IUse.toR) ++
      lineLinks cfg.esc s0 C0 (us.map IUse.toR) ++ nodesOf 1 C0.segs ++ outNodes 1 os).length = o2Start cfg.esc s0 C0 (us.map IUse.toR) := by
    rw [List.length_append, hl6, outNodes_length, hoc]; simp [o2Start, Nat.add_assoc]
  have e15 := under_pass_chunk cfg (raw.length + 18) hE.star hE.under
    (outStage cfg.esc 2 (o1Start cfg.esc s0 C0 (us.map IUse.toR) + C0.cnt 1) 0 os) (outStage_head _ _ _ _ _)
    (noTriple_outStage2 hE.star hE.under os hos _ _) C0 [] (mStart s0 C0 (us.map IUse.toR)) s0 (o1Start cfg.esc s0 C0 (us.map IUse.toR)) 0
    { st with stash := st.stash ++ nodesOf 0 C0.segs ++ usNodes0 (us.map IUse.toR) ++ C0.escStash cfg.esc ++ usEscStash cfg.esc (us.map IUse.toR) ++
      lineLinks cfg.esc s0 C0 (us.map IUse.toR) ++ nodesOf 1 C0.segs ++ outNodes 1 os } (x + 1 + 1 + usOutCnt 2 (us.map IUse.toR)) (by simp) h0.ok
    (by
      by_cases ht : C0.t0 = []
      · simp only [ht, if_true]; have := h0.under; rw [ht] at this; simpa [lastOr, isW, lastW] using this
      · simp only [ht, if_false]; exact h0.under)
  simp only [List.nil_append, hl7] at e15
  rw [show 14 + 1 = 15 from rfl, ← hhi, e15]
  have e15' := under_pass_outer cfg (raw.length + 18) hE hrb os
    (C0.stage cfg.esc 3 true (mStart s0 C0 (us.map IUse.toR)) s0 (o1Start cfg.esc s0 C0 (us.map IUse.toR)) (o2Start cfg.esc s0 C0 (us.map IUse.toR)))
    (o1Start cfg.esc s0 C0 (us.map IUse.toR) + C0.cnt 1) 0
    { st with stash := st.stash ++ nodesOf 0 C0.segs ++ usNodes0 (us.map IUse.toR) ++ C0.escStash cfg.esc ++ usEscStash cfg.esc (us.map IUse.toR) ++
      lineLinks cfg.esc s0 C0 (us.map IUse.toR) ++ nodesOf 1 C0.segs ++ outNodes 1 os ++ nodesOf 2 C0.segs } (x + 1 + 1)
    (under_not_mem_stage3 hE hrb C0 h0.ok h0.plain _ _ _ _) hos
  have hl8 : (st.stash ++ nodesOf 0 C0.segs ++ usNodes0 (us.map IUse.toR) ++ C0.escStash cfg.esc ++ usEscStash cfg.esc (us.map IUse.toR) ++
      lineLinks cfg.esc s0 C0 (us.map IUse.toR) ++ nodesOf 1 C0.segs ++ outNodes 1 os ++ nodesOf 2 C0.segs).length =
      o2Start cfg.esc s0 C0 (us.map IUse.toR) + C0.cnt 2 := by
    rw [List.length_append, hl7]; rfl
  simp only [hl8, hoc] at e15'
  rw [e15']
  have hund3 : '_' ∉ C0.stage cfg.esc 3 true (mStart s0 C0 (us.map IUse.toR)) s0 (o1Start cfg.esc s0 C0 (us.map IUse.toR)) (o2Start cfg.esc s0 C0 (us.map IUse.toR)) ++
      outStage cfg.esc 3 (o1Start cfg.esc s0 C0 (us.map IUse.toR) + C0.cnt 1) (o2Start cfg.esc s0 C0 (us.map IUse.toR) + C0.cnt 2) os := by
    intro h; rcases List.mem_append.1 h with h | h
    · exact under_not_mem_stage3 hE hrb C0 h0.ok h0.plain _ _ _ _ h
    · have := (charOK_outStage hE hrb 3 (by omega) os hos _ _ _ h).2.2.2.2.2.2.2.2 rfl
      omega
  rw [hhi, hiLoop_step _ _ _ 15 0 _ (by omega) _ _ _ _
    (applyPattern_em_none cfg hi 15 (Or.inr rfl) _ _ (by simpa using hund3))]
  simp only [Bool.false_eq_true, if_false]
  simp only [hiLoop, patternCount, show ¬ (15 + 1 < 16) by omega, if_false]
  subst hos'
  simp [lineRes, lineStash, List.append_assoc]

end MdVerif.RefText
