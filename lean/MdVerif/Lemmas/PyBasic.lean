/-
Lemma library about the Python `str` shims of `MdVerif/Py/Basic.lean`.  Core Lean only.

Conventions: statements are in simp-normal form; the rewriting lemmas that are always safe are tagged `@[simp]`.
Boolean-valued shims are characterised by `… = true ↔ …` lemmas (suffix `_iff`).
-/
import MdVerif.Py.Basic

namespace MdVerif.Py

/-! ### `startsWith`, `endsWith` -/

@[simp] theorem startsWith_nil (s : Str) : startsWith s [] = true := by
  cases s <;> rfl

@[simp] theorem startsWith_nil_cons (c : Char) (p : Str) : startsWith [] (c :: p) = false := rfl

@[simp] theorem startsWith_cons_cons (c d : Char) (s p : Str) :
    startsWith (c :: s) (d :: p) = (decide (c = d) && startsWith s p) := rfl

@[simp] theorem startsWith_append (p t : Str) : startsWith (p ++ t) p = true := by
  induction p with
  | nil => simp
  | cons c p ih => simp [ih]

@[simp] theorem startsWith_self (p : Str) : startsWith p p = true := by
  simpa using startsWith_append p []

theorem startsWith_iff_prefix {s p : Str} : startsWith s p = true ↔ ∃ t, s = p ++ t := by
  induction p generalizing s with
  | nil => simp
  | cons d p ih =>
    cases s with
    | nil => simp
    | cons c s =>
      simp only [startsWith_cons_cons, Bool.and_eq_true, decide_eq_true_eq, ih, List.cons_append, List.cons.injEq]
      constructor
      · rintro ⟨h, t, rfl⟩; exact ⟨t, h, rfl⟩
      · rintro ⟨t, h, rfl⟩; exact ⟨h, t, rfl⟩

theorem startsWith_iff_isPrefix {s p : Str} : startsWith s p = true ↔ p <+: s := by
  rw [startsWith_iff_prefix]
  constructor
  · rintro ⟨t, rfl⟩; exact ⟨t, rfl⟩
  · rintro ⟨t, rfl⟩; exact ⟨t, rfl⟩

theorem startsWith_length_le {s p : Str} (h : startsWith s p = true) : p.length ≤ s.length := by
  obtain ⟨t, rfl⟩ := startsWith_iff_prefix.1 h
  simp

theorem startsWith_eq_false_of_length_lt {s p : Str} (h : s.length < p.length) : startsWith s p = false := by
  cases hs : startsWith s p with
  | false => rfl
  | true => have := startsWith_length_le hs; omega

/-- what remains after a matched prefix -/
theorem startsWith_drop {s p : Str} (h : startsWith s p = true) : s = p ++ s.drop p.length := by
  obtain ⟨t, rfl⟩ := startsWith_iff_prefix.1 h
  simp

theorem endsWith_iff_suffix {s p : Str} : endsWith s p = true ↔ ∃ t, s = t ++ p := by
  unfold endsWith
  rw [startsWith_iff_prefix]
  constructor
  · rintro ⟨t, h⟩
    refine ⟨t.reverse, ?_⟩
    have := congrArg List.reverse h
    simpa using this
  · rintro ⟨t, rfl⟩
    exact ⟨t.reverse, by simp⟩

theorem endsWith_iff_isSuffix {s p : Str} : endsWith s p = true ↔ p <:+ s := by
  rw [endsWith_iff_suffix]
  constructor
  · rintro ⟨t, rfl⟩; exact ⟨t, rfl⟩
  · rintro ⟨t, rfl⟩; exact ⟨t, rfl⟩

@[simp] theorem endsWith_nil (s : Str) : endsWith s [] = true := by
  simp [endsWith]

@[simp] theorem endsWith_append (t p : Str) : endsWith (t ++ p) p = true :=
  endsWith_iff_suffix.2 ⟨t, rfl⟩

/-! ### `find`, `contains` -/

@[simp] theorem find_nil (pat : Str) : find pat [] = if pat.isEmpty then some 0 else none := rfl

theorem find_cons (pat : Str) (c : Char) (s : Str) :
    find pat (c :: s) = if startsWith (c :: s) pat then some 0 else (find pat s).map (· + 1) := rfl

@[simp] theorem find_nil_pat (s : Str) : find [] s = some 0 := by
  cases s <;> simp [find_cons]

/-- `find` returns the first offset at which the pattern matches -/
theorem find_some_iff_drop {pat s : Str} {i : Nat} :
    find pat s = some i ↔
      i ≤ s.length ∧ startsWith (s.drop i) pat = true ∧ ∀ j, j < i → startsWith (s.drop j) pat = false := by
  induction s generalizing i with
  | nil =>
    cases pat with
    | nil =>
      constructor
      · intro h
        have : i = 0 := by simpa using h.symm
        subst this; simp
      · rintro ⟨h, _, _⟩
        have : i = 0 := by simpa using h
        subst this; simp
    | cons d p => simp
  | cons c s ih =>
    rw [find_cons]
    by_cases h : startsWith (c :: s) pat = true
    · rw [if_pos h]
      constructor
      · intro hi
        have : i = 0 := by simpa using hi.symm
        subst this
        exact ⟨by simp, by simpa using h, by intro j hj; omega⟩
      · rintro ⟨_, _, hmin⟩
        cases i with
        | zero => rfl
        | succ k =>
          have := hmin 0 (by omega)
          rw [List.drop_zero, h] at this
          cases this
    · rw [if_neg h]
      have hf : startsWith (c :: s) pat = false := by simpa using h
      cases i with
      | zero =>
        constructor
        · intro hi; cases hfs : find pat s <;> simp [hfs] at hi
        · rintro ⟨_, h0, _⟩
          rw [List.drop_zero, hf] at h0
          cases h0
      | succ k =>
        have : (Option.map (· + 1) (find pat s) = some (k + 1)) ↔ find pat s = some k := by
          cases find pat s <;> simp
        rw [this, ih]
        constructor
        · rintro ⟨h1, h2, h3⟩
          refine ⟨by simpa using h1, by simpa using h2, ?_⟩
          intro j hj
          cases j with
          | zero => simpa using hf
          | succ j => simpa using h3 j (by omega)
        · rintro ⟨h1, h2, h3⟩
          refine ⟨by simpa using h1, by simpa using h2, ?_⟩
          intro j hj
          simpa using h3 (j + 1) (by omega)

theorem find_isSome_iff {pat s : Str} : (find pat s).isSome = true ↔ ∃ pre post, s = pre ++ pat ++ post := by
  induction s with
  | nil =>
    cases pat with
    | nil => simp
    | cons d p => simp
  | cons c s ih =>
    rw [find_cons]
    by_cases h : startsWith (c :: s) pat = true
    · rw [if_pos h]
      obtain ⟨t, ht⟩ := startsWith_iff_prefix.1 h
      simp only [Option.isSome_some, true_iff]
      exact ⟨[], t, by simpa using ht⟩
    · rw [if_neg h]
      have : (Option.map (· + 1) (find pat s)).isSome = (find pat s).isSome := by
        cases find pat s <;> rfl
      rw [this, ih]
      constructor
      · rintro ⟨pre, post, rfl⟩
        exact ⟨c :: pre, post, by simp⟩
      · rintro ⟨pre, post, hs⟩
        cases pre with
        | nil =>
          exfalso; apply h
          exact startsWith_iff_prefix.2 ⟨post, by simpa using hs⟩
        | cons d pre =>
          simp only [List.cons_append, List.cons.injEq] at hs
          exact ⟨pre, post, by simpa using hs.2⟩

/-- `pat in s` -/
theorem contains_iff {s pat : Str} : contains s pat = true ↔ ∃ pre post, s = pre ++ pat ++ post := by
  unfold contains; exact find_isSome_iff

theorem find_none_iff {pat s : Str} : find pat s = none ↔ ∀ pre post, s ≠ pre ++ pat ++ post := by
  have := @find_isSome_iff pat s
  constructor
  · intro h pre post hs
    have h2 := this.2 ⟨pre, post, hs⟩
    rw [h] at h2; cases h2
  · intro h
    cases hf : find pat s with
    | none => rfl
    | some i =>
      obtain ⟨pre, post, hs⟩ := this.1 (by rw [hf]; rfl)
      exact absurd hs (h pre post)

theorem contains_eq_false_iff {s pat : Str} : contains s pat = false ↔ ∀ pre post, s ≠ pre ++ pat ++ post := by
  rw [← find_none_iff]; unfold contains
  cases find pat s <;> simp

/-- first-occurrence characterisation of `find` by decompositions of the string -/
theorem find_some_iff {pat s : Str} {i : Nat} :
    find pat s = some i ↔
      ∃ pre post, s = pre ++ pat ++ post ∧ pre.length = i ∧
        ∀ pre' post', s = pre' ++ pat ++ post' → i ≤ pre'.length := by
  rw [find_some_iff_drop]
  constructor
  · rintro ⟨hi, hm, hmin⟩
    obtain ⟨t, ht⟩ := startsWith_iff_prefix.1 hm
    refine ⟨s.take i, t, ?_, by simp [hi], ?_⟩
    · rw [List.append_assoc, ← ht, List.take_append_drop]
    · intro pre' post' hs
      by_cases hlt : pre'.length < i
      · have := hmin _ hlt
        rw [hs, List.append_assoc, List.drop_left, startsWith_append] at this
        cases this
      · omega
  · rintro ⟨pre, post, rfl, rfl, hmin⟩
    refine ⟨by simp <;> omega, by simp [List.append_assoc], ?_⟩
    intro j hj
    cases hsw : startsWith (List.drop j (pre ++ pat ++ post)) pat with
    | false => rfl
    | true =>
      obtain ⟨t, ht⟩ := startsWith_iff_prefix.1 hsw
      have hlen : j ≤ (pre ++ pat ++ post).length := by simp <;> omega
      have := hmin ((pre ++ pat ++ post).take j) t
        ((List.take_append_drop j _).symm.trans (by rw [ht]; simp only [List.append_assoc]))
      rw [List.length_take, Nat.min_eq_left hlen] at this
      omega

theorem find_le_length {pat s : Str} {i : Nat} (h : find pat s = some i) : i + pat.length ≤ s.length := by
  obtain ⟨pre, post, rfl, rfl, _⟩ := find_some_iff.1 h
  simp <;> omega

/-! ### `replace` -/

@[simp] theorem replaceAux_nil (pat b : Str) (k : Nat) : replaceAux pat b k [] = [] := by
  cases k <;> rfl

@[simp] theorem replaceAux_succ_cons (pat b : Str) (k : Nat) (c : Char) (s : Str) :
    replaceAux pat b (k + 1) (c :: s) = replaceAux pat b k s := rfl

theorem replaceAux_zero_cons (pat b : Str) (c : Char) (s : Str) :
    replaceAux pat b 0 (c :: s) =
      if startsWith (c :: s) pat then b ++ replaceAux pat b (pat.length - 1) s else c :: replaceAux pat b 0 s := rfl

/-- skipping `k` characters is dropping them -/
theorem replaceAux_eq_drop (pat b : Str) (k : Nat) (s : Str) :
    replaceAux pat b k s = replaceAux pat b 0 (s.drop k) := by
  induction k generalizing s with
  | zero => rfl
  | succ k ih =>
    cases s with
    | nil => simp
    | cons c s => simp [ih]

@[simp] theorem replace_nil (pat b : Str) : replace [] pat b = [] := by
  unfold replace; split <;> simp

@[simp] theorem replace_nil_pat (s b : Str) : replace s [] b = s := by
  simp [replace]

/-- one unfolding step of `replace` at a match: the match is replaced and the scan resumes behind it -/
theorem replace_of_startsWith {s pat b : Str} (hp : pat ≠ []) (h : startsWith s pat = true) :
    replace s pat b = b ++ replace (s.drop pat.length) pat b := by
  have hpe : pat.isEmpty = false := by cases pat <;> simp_all
  cases s with
  | nil =>
    cases pat with
    | nil => exact absurd rfl hp
    | cons d p => simp at h
  | cons c s =>
    simp only [replace, hpe, Bool.false_eq_true, if_false, replaceAux_zero_cons, h, if_true]
    rw [replaceAux_eq_drop]
    cases pat with
    | nil => exact absurd rfl hp
    | cons d p => simp

/-- one unfolding step of `replace` where the pattern does not match -/
theorem replace_cons_of_not_startsWith {c : Char} {s pat b : Str} (h : startsWith (c :: s) pat = false) :
    replace (c :: s) pat b = c :: replace s pat b := by
  unfold replace
  split
  · rfl
  · simp [replaceAux_zero_cons, h]

/-- a one-character pattern: `replace` is a `flatMap` -/
theorem replace_single (s : Str) (a : Char) (b : Str) :
    replace s [a] b = s.flatMap (fun c => if c = a then b else [c]) := by
  induction s with
  | nil => simp
  | cons c s ih =>
    by_cases h : c = a
    · subst h
      rw [replace_of_startsWith (by simp) (by simp)]
      simp [ih]
    · rw [replace_cons_of_not_startsWith (by simp [h]), ih]
      simp [h]

/-- deleting one character -/
theorem replace_single_nil (s : Str) (a : Char) : replace s [a] [] = s.filter (fun c => c != a) := by
  rw [replace_single]
  induction s with
  | nil => rfl
  | cons c s ih =>
    by_cases h : c = a
    · simp [h, ih]
    · simp [h, ih]

/-- substituting one character for another -/
theorem replace_single_single (s : Str) (a b : Char) :
    replace s [a] [b] = s.map (fun c => if c = a then b else c) := by
  rw [replace_single]
  induction s with
  | nil => rfl
  | cons c s ih =>
    by_cases h : c = a
    · simp [h, ih]
    · simp [h, ih]

theorem contains_cons_eq_false {c : Char} {s pat : Str} (h : contains (c :: s) pat = false) :
    startsWith (c :: s) pat = false ∧ contains s pat = false := by
  unfold contains at h ⊢
  rw [find_cons] at h
  by_cases hs : startsWith (c :: s) pat = true
  · rw [if_pos hs] at h; cases h
  · rw [if_neg hs] at h
    refine ⟨by simpa using hs, ?_⟩
    cases hf : find pat s with
    | none => rfl
    | some i => rw [hf] at h; cases h

theorem replace_id_of_not_contains {s pat : Str} (b : Str) (h : contains s pat = false) : replace s pat b = s := by
  induction s with
  | nil => simp
  | cons c s ih =>
    obtain ⟨h1, h2⟩ := contains_cons_eq_false h
    rw [replace_cons_of_not_startsWith h1, ih h2]

/-! ### `join` -/

@[simp] theorem join_nil (sep : Str) : join sep [] = [] := rfl
@[simp] theorem join_singleton (sep a : Str) : join sep [a] = a := rfl
@[simp] theorem join_cons_cons (sep a b : Str) (r : List Str) :
    join sep (a :: b :: r) = a ++ sep ++ join sep (b :: r) := rfl

theorem join_cons_of_ne_nil (sep a : Str) {l : List Str} (h : l ≠ []) : join sep (a :: l) = a ++ sep ++ join sep l := by
  cases l with
  | nil => exact absurd rfl h
  | cons b r => rfl

/-- a character in front of the first piece -/
theorem join_cons_head (sep : Str) (c : Char) (p : Str) (ps : List Str) :
    join sep ((c :: p) :: ps) = c :: join sep (p :: ps) := by
  cases ps <;> simp

theorem join_append (sep : Str) {l₁ l₂ : List Str} (h₁ : l₁ ≠ []) (h₂ : l₂ ≠ []) :
    join sep (l₁ ++ l₂) = join sep l₁ ++ sep ++ join sep l₂ := by
  induction l₁ with
  | nil => exact absurd rfl h₁
  | cons a l₁ ih =>
    cases l₁ with
    | nil => simp [join_cons_of_ne_nil _ _ h₂]
    | cons b r =>
      rw [List.cons_append, List.cons_append, join_cons_cons, ← List.cons_append, ih (by simp)]
      simp [List.append_assoc]

theorem join_eq_intercalate (sep : Str) (l : List Str) : join sep l = sep.intercalate l := by
  induction l with
  | nil => simp [List.intercalate]
  | cons a l ih =>
    cases l with
    | nil => simp [List.intercalate]
    | cons b r =>
      rw [join_cons_cons, ih]
      simp [List.intercalate, List.intersperse]

@[simp] theorem joinLines_nil : joinLines [] = [] := rfl

/-! ### `splitC`, `lines` -/

@[simp] theorem splitC_nil (ch : Char) : splitC ch [] = [[]] := rfl

@[simp] theorem splitC_ne_nil (ch : Char) (s : Str) : splitC ch s ≠ [] := by
  cases s with
  | nil => simp
  | cons c s =>
    unfold splitC
    split
    · simp
    · split <;> simp

theorem splitC_eq_cons (ch : Char) (s : Str) : ∃ p ps, splitC ch s = p :: ps := by
  cases h : splitC ch s with
  | nil => exact absurd h (splitC_ne_nil ch s)
  | cons p ps => exact ⟨p, ps, rfl⟩

theorem splitC_length_pos (ch : Char) (s : Str) : 0 < (splitC ch s).length :=
  List.length_pos_iff.2 (splitC_ne_nil ch s)

@[simp] theorem splitC_cons_sep (ch : Char) (s : Str) : splitC ch (ch :: s) = [] :: splitC ch s := by
  obtain ⟨p, ps, h⟩ := splitC_eq_cons ch s
  rw [splitC, h]; simp

theorem splitC_cons_of_ne {c ch : Char} (h : c ≠ ch) (s : Str) :
    splitC ch (c :: s) = (c :: (splitC ch s).headD []) :: (splitC ch s).tail := by
  obtain ⟨p, ps, hs⟩ := splitC_eq_cons ch s
  rw [splitC, hs]; simp [h]

/-- number of pieces = number of separators + 1 -/
theorem length_splitC (ch : Char) (s : Str) : (splitC ch s).length = s.count ch + 1 := by
  induction s with
  | nil => rfl
  | cons c s ih =>
    by_cases h : c = ch
    · subst h; simp [ih]
    · obtain ⟨p, ps, hs⟩ := splitC_eq_cons ch s
      rw [splitC_cons_of_ne h, List.count_cons_of_ne (by simpa using h), ← ih, hs]
      simp

/-- `ch.join(s.split(ch)) = s` -/
@[simp] theorem splitC_join (ch : Char) (s : Str) : join [ch] (splitC ch s) = s := by
  induction s with
  | nil => rfl
  | cons c s ih =>
    by_cases h : c = ch
    · subst h
      rw [splitC_cons_sep, join_cons_of_ne_nil _ _ (splitC_ne_nil _ _), ih]; rfl
    · obtain ⟨p, ps, hs⟩ := splitC_eq_cons ch s
      rw [splitC_cons_of_ne h, hs]
      simp only [List.headD_cons, List.tail_cons]
      rw [join_cons_head, ← hs, ih]

theorem splitC_of_no_sep {ch : Char} {s : Str} (h : ch ∉ s) : splitC ch s = [s] := by
  induction s with
  | nil => rfl
  | cons c s ih =>
    have hc : c ≠ ch := fun e => h (e ▸ List.mem_cons_self)
    rw [splitC_cons_of_ne hc, ih (fun hm => h (List.mem_cons_of_mem _ hm))]
    rfl

/-- splitting at a separator concatenates the piece lists -/
theorem splitC_append_sep (ch : Char) (a b : Str) : splitC ch (a ++ ch :: b) = splitC ch a ++ splitC ch b := by
  induction a with
  | nil => simp
  | cons c a ih =>
    by_cases h : c = ch
    · subst h; simp [ih]
    · obtain ⟨p, ps, hs⟩ := splitC_eq_cons ch a
      rw [List.cons_append, splitC_cons_of_ne h, splitC_cons_of_ne h, ih, hs]
      simp

theorem splitC_append_sep_of_no_sep {ch : Char} {a : Str} (h : ch ∉ a) (b : Str) :
    splitC ch (a ++ ch :: b) = a :: splitC ch b := by
  rw [splitC_append_sep, splitC_of_no_sep h]; rfl

/-- no piece contains the separator -/
theorem not_mem_of_mem_splitC {ch : Char} {s p : Str} (h : p ∈ splitC ch s) : ch ∉ p := by
  induction s generalizing p with
  | nil =>
    have : p = [] := by simpa using h
    subst this; simp
  | cons c s ih =>
    by_cases hc : c = ch
    · subst hc
      rw [splitC_cons_sep] at h
      rcases List.mem_cons.1 h with h | h
      · subst h; simp
      · exact ih h
    · obtain ⟨q, qs, hs⟩ := splitC_eq_cons ch s
      rw [splitC_cons_of_ne hc, hs] at h
      simp only [List.headD_cons, List.tail_cons, List.mem_cons] at h
      rcases h with h | h
      · subst h
        have := ih (p := q) (by rw [hs]; exact List.mem_cons_self)
        intro hm
        rcases List.mem_cons.1 hm with e | e
        · exact hc e.symm
        · exact this e
      · exact ih (by rw [hs]; exact List.mem_cons_of_mem _ h)

/-- `ch.join(l).split(ch) = l` for a non-empty list of pieces without the separator -/
theorem splitC_join_of_no_sep {ch : Char} {l : List Str} (hne : l ≠ []) (h : ∀ p ∈ l, ch ∉ p) :
    splitC ch (join [ch] l) = l := by
  induction l with
  | nil => exact absurd rfl hne
  | cons a l ih =>
    cases l with
    | nil => exact splitC_of_no_sep (h a List.mem_cons_self)
    | cons b r =>
      rw [join_cons_cons, List.append_assoc, List.singleton_append,
        splitC_append_sep_of_no_sep (h a List.mem_cons_self),
        ih (by simp) (fun p hp => h p (List.mem_cons_of_mem _ hp))]

@[simp] theorem lines_ne_nil (s : Str) : lines s ≠ [] := splitC_ne_nil _ _

/-- `'\n'.join(s.split('\n')) = s` -/
@[simp] theorem lines_joinLines (s : Str) : joinLines (lines s) = s := splitC_join '\n' s

theorem joinLines_lines {l : List Str} (hne : l ≠ []) (h : ∀ p ∈ l, '\n' ∉ p) : lines (joinLines l) = l :=
  splitC_join_of_no_sep hne h

theorem length_lines (s : Str) : (lines s).length = s.count '\n' + 1 := length_splitC _ _

/-! ### `spanLen`, `countPrefix` -/

@[simp] theorem spanLen_nil (p : Char → Bool) : spanLen p [] = 0 := rfl

theorem spanLen_cons (p : Char → Bool) (c : Char) (s : Str) :
    spanLen p (c :: s) = if p c then spanLen p s + 1 else 0 := rfl

theorem spanLen_eq_length_takeWhile (p : Char → Bool) (s : Str) : spanLen p s = (s.takeWhile p).length := by
  induction s with
  | nil => rfl
  | cons c s ih => by_cases h : p c <;> simp [spanLen_cons, h, ih]

theorem spanLen_le (p : Char → Bool) (s : Str) : spanLen p s ≤ s.length := by
  induction s with
  | nil => simp
  | cons c s ih => by_cases h : p c <;> simp [spanLen_cons, h]; omega

theorem take_spanLen (p : Char → Bool) (s : Str) : s.take (spanLen p s) = s.takeWhile p := by
  induction s with
  | nil => rfl
  | cons c s ih => by_cases h : p c <;> simp [spanLen_cons, h, ih]

theorem drop_spanLen (p : Char → Bool) (s : Str) : s.drop (spanLen p s) = s.dropWhile p := by
  induction s with
  | nil => rfl
  | cons c s ih => by_cases h : p c <;> simp [spanLen_cons, h, ih]

/-- the taken prefix satisfies `p` -/
theorem spanLen_prefix_all (p : Char → Bool) (s : Str) : ∀ c ∈ s.take (spanLen p s), p c = true := by
  induction s with
  | nil => simp
  | cons c s ih =>
    by_cases h : p c
    · simp only [spanLen_cons, h, if_true, List.take_succ_cons, List.mem_cons]
      rintro d (rfl | hd)
      · exact h
      · exact ih d hd
    · simp [spanLen_cons, h]

/-- the character behind the taken prefix does not satisfy `p` -/
theorem spanLen_next (p : Char → Bool) (s : Str) {c : Char} (h : s[spanLen p s]? = some c) : p c = false := by
  induction s with
  | nil => simp at h
  | cons d s ih =>
    by_cases hd : p d
    · simp only [spanLen_cons, hd, if_true, List.getElem?_cons_succ] at h
      exact ih h
    · simp only [spanLen_cons, hd, Bool.false_eq_true, if_false, List.getElem?_cons_zero, Option.some.injEq] at h
      subst h; simpa using hd

theorem spanLen_eq_length_iff (p : Char → Bool) (s : Str) : spanLen p s = s.length ↔ s.all p = true := by
  induction s with
  | nil => simp
  | cons c s ih =>
    by_cases h : p c
    · simp [spanLen_cons, h, ih]
    · simp [spanLen_cons, h]

theorem spanLen_append_of_all {p : Char → Bool} {x : Str} (h : x.all p = true) (y : Str) :
    spanLen p (x ++ y) = x.length + spanLen p y := by
  induction x with
  | nil => simp
  | cons c x ih =>
    simp only [List.all_cons, Bool.and_eq_true] at h
    simp [spanLen_cons, h.1, ih h.2]; omega

@[simp] theorem countPrefix_nil (ch : Char) (lim : Option Nat) : countPrefix ch lim [] = 0 := by
  cases lim with
  | none => rfl
  | some n => cases n <;> rfl

@[simp] theorem countPrefix_zero (ch : Char) (s : Str) : countPrefix ch (some 0) s = 0 := by
  cases s <;> rfl

theorem countPrefix_none (ch : Char) (s : Str) : countPrefix ch none s = spanLen (· = ch) s := by
  induction s with
  | nil => rfl
  | cons c s ih =>
    by_cases h : c = ch
    · simp [countPrefix, spanLen_cons, h, ← ih]
    · simp [countPrefix, spanLen_cons, h]

theorem countPrefix_some (ch : Char) (n : Nat) (s : Str) :
    countPrefix ch (some n) s = min n (spanLen (· = ch) s) := by
  induction s generalizing n with
  | nil => simp
  | cons c s ih =>
    cases n with
    | zero => simp
    | succ k =>
      by_cases h : c = ch
      · simp [countPrefix, spanLen_cons, h, ih] <;> omega
      · simp [countPrefix, spanLen_cons, h]

theorem countPrefix_le_length (ch : Char) (lim : Option Nat) (s : Str) : countPrefix ch lim s ≤ s.length := by
  cases lim with
  | none => rw [countPrefix_none]; exact spanLen_le _ _
  | some n => rw [countPrefix_some]; exact Nat.le_trans (Nat.min_le_right _ _) (spanLen_le _ _)

theorem countPrefix_le_limit (ch : Char) (n : Nat) (s : Str) : countPrefix ch (some n) s ≤ n := by
  rw [countPrefix_some]; exact Nat.min_le_left _ _

/-- the counted prefix consists of `ch` -/
theorem countPrefix_prefix (ch : Char) (lim : Option Nat) (s : Str) :
    s.take (countPrefix ch lim s) = List.replicate (countPrefix ch lim s) ch := by
  have key : ∀ (s : Str) k, k ≤ spanLen (· = ch) s → s.take k = List.replicate k ch := by
    intro s
    induction s with
    | nil => intro k hk; have : k = 0 := by simpa using hk
             subst this; rfl
    | cons c s ih =>
      intro k hk
      cases k with
      | zero => rfl
      | succ k =>
        by_cases h : c = ch
        · subst h
          simp only [spanLen_cons, decide_true, if_true] at hk
          simp [List.replicate_succ, ih k (by omega)]
        · simp [spanLen_cons, h] at hk
  have key := key s
  cases lim with
  | none => exact key _ (by rw [countPrefix_none]; exact Nat.le_refl _)
  | some n => exact key _ (by rw [countPrefix_some]; exact Nat.min_le_right _ _)

/-! ### `lstripP`, `rstripP`, `stripP` and their instances -/

@[simp] theorem lstripP_nil (p : Char → Bool) : lstripP p [] = [] := rfl

theorem lstripP_cons (p : Char → Bool) (c : Char) (s : Str) :
    lstripP p (c :: s) = if p c then lstripP p s else c :: s := rfl

theorem lstripP_eq_dropWhile (p : Char → Bool) (s : Str) : lstripP p s = s.dropWhile p := by
  induction s with
  | nil => rfl
  | cons c s ih => by_cases h : p c <;> simp [lstripP_cons, h, ih]

theorem lstripP_eq_drop_spanLen (p : Char → Bool) (s : Str) : lstripP p s = s.drop (spanLen p s) := by
  rw [lstripP_eq_dropWhile, drop_spanLen]

/-- the result is a suffix -/
theorem lstripP_suffix (p : Char → Bool) (s : Str) : lstripP p s <:+ s := by
  rw [lstripP_eq_dropWhile]; exact List.dropWhile_suffix p

/-- the stripped part satisfies `p` -/
theorem lstripP_decomp (p : Char → Bool) (s : Str) : ∃ w, s = w ++ lstripP p s ∧ w.all p = true := by
  refine ⟨s.takeWhile p, ?_, ?_⟩
  · rw [lstripP_eq_dropWhile, List.takeWhile_append_dropWhile]
  · rw [← take_spanLen, List.all_eq_true]; exact spanLen_prefix_all p s

theorem lstripP_eq_nil_iff (p : Char → Bool) (s : Str) : lstripP p s = [] ↔ s.all p = true := by
  induction s with
  | nil => simp
  | cons c s ih => by_cases h : p c <;> simp [lstripP_cons, h, ih]

/-- the first character of the result is not in the class -/
theorem lstripP_head {p : Char → Bool} {s : Str} {c : Char} (h : (lstripP p s).head? = some c) : p c = false := by
  induction s with
  | nil => simp at h
  | cons d s ih =>
    by_cases hd : p d
    · rw [lstripP_cons, if_pos hd] at h; exact ih h
    · rw [lstripP_cons, if_neg hd] at h
      have : d = c := by simpa using h
      subst this; simpa using hd

theorem lstripP_eq_self_iff (p : Char → Bool) (s : Str) :
    lstripP p s = s ↔ ∀ c, s.head? = some c → p c = false := by
  cases s with
  | nil => simp
  | cons d s =>
    by_cases hd : p d
    · simp only [lstripP_cons, hd, if_true, List.head?_cons, Option.some.injEq, forall_eq']
      constructor
      · intro h
        have := (lstripP_suffix p s).length_le
        rw [h] at this; simp at this; omega
      · intro h; cases h
    · simp [lstripP_cons, hd]

@[simp] theorem lstripP_idem (p : Char → Bool) (s : Str) : lstripP p (lstripP p s) = lstripP p s :=
  (lstripP_eq_self_iff p _).2 (fun _ h => lstripP_head h)

theorem lstripP_append_of_all {p : Char → Bool} {x : Str} (h : x.all p = true) (y : Str) :
    lstripP p (x ++ y) = lstripP p y := by
  induction x with
  | nil => rfl
  | cons c x ih =>
    simp only [List.all_cons, Bool.and_eq_true] at h
    simp [lstripP_cons, h.1, ih h.2]

@[simp] theorem rstripP_nil (p : Char → Bool) : rstripP p [] = [] := rfl

theorem rstripP_eq (p : Char → Bool) (s : Str) : rstripP p s = (lstripP p s.reverse).reverse := rfl

theorem rstripP_reverse (p : Char → Bool) (s : Str) : rstripP p s.reverse = (lstripP p s).reverse := by
  simp [rstripP]

/-- the result is a prefix -/
theorem rstripP_prefix (p : Char → Bool) (s : Str) : rstripP p s <+: s := by
  have := lstripP_suffix p s.reverse
  rw [rstripP, ← List.reverse_suffix, List.reverse_reverse]
  exact this

theorem rstripP_decomp (p : Char → Bool) (s : Str) : ∃ w, s = rstripP p s ++ w ∧ w.all p = true := by
  obtain ⟨w, hw, hp⟩ := lstripP_decomp p s.reverse
  refine ⟨w.reverse, ?_, by simpa using hp⟩
  have := congrArg List.reverse hw
  simpa [rstripP] using this

theorem rstripP_eq_nil_iff (p : Char → Bool) (s : Str) : rstripP p s = [] ↔ s.all p = true := by
  simp [rstripP, lstripP_eq_nil_iff]

/-- the last character of the result is not in the class -/
theorem rstripP_getLast {p : Char → Bool} {s : Str} {c : Char} (h : (rstripP p s).getLast? = some c) :
    p c = false := by
  rw [rstripP, List.getLast?_reverse] at h
  exact lstripP_head h

theorem rstripP_eq_self_iff (p : Char → Bool) (s : Str) :
    rstripP p s = s ↔ ∀ c, s.getLast? = some c → p c = false := by
  rw [← List.head?_reverse, ← lstripP_eq_self_iff, rstripP]
  constructor
  · intro h; have := congrArg List.reverse h; simpa using this
  · intro h; rw [h]; simp

@[simp] theorem rstripP_idem (p : Char → Bool) (s : Str) : rstripP p (rstripP p s) = rstripP p s :=
  (rstripP_eq_self_iff p _).2 (fun _ h => rstripP_getLast h)

theorem rstripP_append_of_all {p : Char → Bool} {y : Str} (h : y.all p = true) (x : Str) :
    rstripP p (x ++ y) = rstripP p x := by
  simp only [rstripP, List.reverse_append]
  rw [lstripP_append_of_all (by simpa using h)]

theorem stripP_eq (p : Char → Bool) (s : Str) : stripP p s = rstripP p (lstripP p s) := rfl

@[simp] theorem stripP_nil (p : Char → Bool) : stripP p [] = [] := rfl

/-- the result is an infix, and what is stripped on both sides satisfies `p` -/
theorem stripP_decomp (p : Char → Bool) (s : Str) :
    ∃ a b, s = a ++ stripP p s ++ b ∧ a.all p = true ∧ b.all p = true := by
  obtain ⟨a, ha, hpa⟩ := lstripP_decomp p s
  obtain ⟨b, hb, hpb⟩ := rstripP_decomp p (lstripP p s)
  refine ⟨a, b, ?_, hpa, hpb⟩
  rw [stripP_eq, List.append_assoc, ← hb, ← ha]

theorem stripP_infix (p : Char → Bool) (s : Str) : stripP p s <:+: s := by
  obtain ⟨a, b, h, _⟩ := stripP_decomp p s
  exact ⟨a, b, h.symm⟩

theorem stripP_eq_nil_iff (p : Char → Bool) (s : Str) : stripP p s = [] ↔ s.all p = true := by
  rw [stripP_eq, rstripP_eq_nil_iff]
  constructor
  · intro h
    have h1 : lstripP p (lstripP p s) = [] := (lstripP_eq_nil_iff p _).2 h
    rw [lstripP_idem] at h1
    exact (lstripP_eq_nil_iff p s).1 h1
  · intro h
    rw [(lstripP_eq_nil_iff p s).2 h]; rfl

/-- the last character of the result is not in the class -/
theorem stripP_getLast {p : Char → Bool} {s : Str} {c : Char} (h : (stripP p s).getLast? = some c) : p c = false :=
  rstripP_getLast h

/-- the first character of the result is not in the class -/
theorem stripP_head {p : Char → Bool} {s : Str} {c : Char} (h : (stripP p s).head? = some c) : p c = false := by
  obtain ⟨w, hw⟩ := rstripP_prefix p (lstripP p s)
  rw [stripP_eq] at h
  cases hr : rstripP p (lstripP p s) with
  | nil => rw [hr] at h; simp at h
  | cons d r =>
    rw [hr] at h hw
    have hd : d = c := by simpa using h
    subst hd
    exact lstripP_head (s := s) (by rw [← hw]; rfl)

theorem stripP_eq_self {p : Char → Bool} {s : Str} (h₁ : ∀ c, s.head? = some c → p c = false)
    (h₂ : ∀ c, s.getLast? = some c → p c = false) : stripP p s = s := by
  rw [stripP_eq, (lstripP_eq_self_iff p s).2 h₁, (rstripP_eq_self_iff p s).2 h₂]

theorem stripP_eq_self_iff (p : Char → Bool) (s : Str) :
    stripP p s = s ↔ (∀ c, s.head? = some c → p c = false) ∧ (∀ c, s.getLast? = some c → p c = false) := by
  constructor
  · intro h
    exact ⟨fun c hc => stripP_head (s := s) (by rw [h]; exact hc), fun c hc => stripP_getLast (s := s) (by rw [h]; exact hc)⟩
  · rintro ⟨h₁, h₂⟩; exact stripP_eq_self h₁ h₂

@[simp] theorem stripP_idem (p : Char → Bool) (s : Str) : stripP p (stripP p s) = stripP p s :=
  stripP_eq_self (fun _ h => stripP_head h) (fun _ h => stripP_getLast h)

/-- `str.strip()` and friends -/
@[simp] theorem strip_idem (s : Str) : strip (strip s) = strip s := stripP_idem _ _
@[simp] theorem lstrip_idem (s : Str) : lstrip (lstrip s) = lstrip s := lstripP_idem _ _
@[simp] theorem rstrip_idem (s : Str) : rstrip (rstrip s) = rstrip s := rstripP_idem _ _
@[simp] theorem stripC_idem (ch : Char) (s : Str) : stripC ch (stripC ch s) = stripC ch s := stripP_idem _ _

theorem strip_infix (s : Str) : strip s <:+: s := stripP_infix _ _
theorem lstrip_suffix (s : Str) : lstrip s <:+ s := lstripP_suffix _ _
theorem rstrip_prefix (s : Str) : rstrip s <+: s := rstripP_prefix _ _

/-- a string whose two ends are not white space is its own `strip` -/
theorem strip_eq_self {s : Str} (h₁ : ∀ c, s.head? = some c → isSpace c = false)
    (h₂ : ∀ c, s.getLast? = some c → isSpace c = false) : strip s = s := stripP_eq_self h₁ h₂

theorem strip_head {s : Str} {c : Char} (h : (strip s).head? = some c) : isSpace c = false := stripP_head h
theorem strip_getLast {s : Str} {c : Char} (h : (strip s).getLast? = some c) : isSpace c = false := stripP_getLast h

theorem strip_eq_nil_iff (s : Str) : strip s = [] ↔ isBlank s = true := stripP_eq_nil_iff _ _

/-- `not s.strip()` -/
theorem isBlank_iff_strip (s : Str) : isBlank s = true ↔ strip s = [] := (strip_eq_nil_iff s).symm

theorem isBlank_iff (s : Str) : isBlank s = true ↔ ∀ c ∈ s, isSpace c = true := by
  simp [isBlank, List.all_eq_true]

@[simp] theorem isBlank_nil : isBlank [] = true := rfl

@[simp] theorem isBlank_append (a b : Str) : isBlank (a ++ b) = (isBlank a && isBlank b) := by
  simp [isBlank]

/-- stripping white space around a blank-free core -/
theorem strip_append_of_blank {a b : Str} (ha : isBlank a = true) (hb : isBlank b = true) (s : Str) :
    strip (a ++ s ++ b) = strip s := by
  unfold strip
  rw [stripP_eq, stripP_eq, List.append_assoc, lstripP_append_of_all ha]
  obtain ⟨w, hw, hp⟩ := lstripP_decomp isSpace s
  by_cases hs : s.all isSpace = true
  · have h1 : lstripP isSpace (s ++ b) = [] := (lstripP_eq_nil_iff _ _).2 (by simpa [isBlank] using And.intro hs hb)
    rw [h1, (lstripP_eq_nil_iff _ _).2 hs]
  · have hne : lstripP isSpace s ≠ [] := fun h => hs ((lstripP_eq_nil_iff _ _).1 h)
    have h1 : lstripP isSpace (s ++ b) = lstripP isSpace s ++ b := by
      conv => lhs; rw [hw, List.append_assoc, lstripP_append_of_all hp]
      cases hl : lstripP isSpace s with
      | nil => exact absurd hl hne
      | cons d r =>
        have hd : isSpace d = false := lstripP_head (s := s) (by rw [hl]; rfl)
        simp [lstripP_cons, hd]
    rw [h1, rstripP_append_of_all hb]

/-! ### `splitS` (multi-character separator) -/

@[simp] theorem splitAux_nil (sep : Str) (k : Nat) : splitAux sep k [] = [[]] := by
  cases k <;> rfl

@[simp] theorem splitAux_ne_nil (sep : Str) (k : Nat) (s : Str) : splitAux sep k s ≠ [] := by
  induction s generalizing k with
  | nil => simp
  | cons c s ih =>
    cases k with
    | succ k => exact ih k
    | zero =>
      unfold splitAux
      split
      · simp
      · split <;> simp

/-- `sep.join(s.split(sep)) = s` (skipping `k` characters first) -/
theorem join_splitAux {sep : Str} (hsep : sep ≠ []) (k : Nat) (s : Str) :
    join sep (splitAux sep k s) = s.drop k := by
  induction s generalizing k with
  | nil => simp
  | cons c s ih =>
    cases k with
    | succ k => exact ih k
    | zero =>
      unfold splitAux
      split
      · rename_i hsw
        rw [join_cons_of_ne_nil _ _ (splitAux_ne_nil _ _ _), ih]
        have := startsWith_drop hsw
        cases sep with
        | nil => exact absurd rfl hsep
        | cons d r =>
          simp only [List.length_cons, List.drop_succ_cons, Nat.add_sub_cancel] at this ⊢
          simpa using this.symm
      · have hi := ih 0
        split
        · rename_i h; exact absurd h (splitAux_ne_nil _ _ _)
        · rename_i q qs h
          rw [h] at hi
          rw [join_cons_head, hi]; rfl

theorem join_splitS {sep : Str} (hsep : sep ≠ []) (s : Str) : join sep (splitS sep s) = s :=
  join_splitAux hsep 0 s

@[simp] theorem splitS_ne_nil (sep s : Str) : splitS sep s ≠ [] := splitAux_ne_nil _ _ _

/-! ### `expandtabs` -/

@[simp] theorem expandtabsAux_nil (tab col : Nat) : expandtabsAux tab col [] = [] := rfl
@[simp] theorem expandtabs_nil (tab : Nat) : expandtabs tab [] = [] := rfl

/-- identity on tab-free strings -/
theorem expandtabsAux_no_tab (tab col : Nat) {s : Str} (h : '\t' ∉ s) : expandtabsAux tab col s = s := by
  induction s generalizing col with
  | nil => rfl
  | cons c s ih =>
    have hc : c ≠ '\t' := fun e => h (e ▸ List.mem_cons_self)
    have ih' := fun n => ih n (fun hm => h (List.mem_cons_of_mem _ hm))
    simp only [expandtabsAux, hc, if_false]
    split <;> rw [ih']

theorem expandtabs_no_tab (tab : Nat) {s : Str} (h : '\t' ∉ s) : expandtabs tab s = s :=
  expandtabsAux_no_tab tab 0 h

/-- the output has no tab -/
theorem not_tab_mem_expandtabsAux (tab col : Nat) (s : Str) : '\t' ∉ expandtabsAux tab col s := by
  induction s generalizing col with
  | nil => simp
  | cons c s ih =>
    by_cases hc : c = '\t'
    · by_cases ht : tab > 0
      · simp only [expandtabsAux, hc, ht, if_true, List.mem_append, not_or]
        exact ⟨fun hm => absurd (List.eq_of_mem_replicate hm) (by decide), ih _⟩
      · simp only [expandtabsAux, hc, ht, if_true, if_false]; exact ih _
    · simp only [expandtabsAux, hc, if_false]
      split <;> simp [ih, Ne.symm hc]

theorem not_tab_mem_expandtabs (tab : Nat) (s : Str) : '\t' ∉ expandtabs tab s :=
  not_tab_mem_expandtabsAux tab 0 s

@[simp] theorem expandtabs_idem (tab : Nat) (s : Str) : expandtabs tab (expandtabs tab s) = expandtabs tab s :=
  expandtabs_no_tab tab (not_tab_mem_expandtabs tab s)

/-- the column `expandtabs` has reached after `s`, started at column `col` -/
def tabCol (tab : Nat) : Nat → Str → Nat
  | n, [] => n
  | n, c :: s =>
    if c = '\t' then tabCol tab (n + (tab - n % tab)) s
    else if c = '\n' || c = '\r' then tabCol tab 0 s
    else tabCol tab (n + 1) s

theorem expandtabsAux_append (tab n : Nat) (x y : Str) :
    expandtabsAux tab n (x ++ y) = expandtabsAux tab n x ++ expandtabsAux tab (tabCol tab n x) y := by
  induction x generalizing n with
  | nil => rfl
  | cons c x ih =>
    by_cases h1 : c = '\t'
    · by_cases ht : tab > 0
      · simp [expandtabsAux, tabCol, h1, ht, ih]
      · have : tab = 0 := by omega
        subst this
        simp [expandtabsAux, tabCol, h1, ih]
    · by_cases h2 : c = '\n' ∨ c = '\r'
      · simp [expandtabsAux, tabCol, h1, h2, ih]
      · simp [expandtabsAux, tabCol, h1, h2, ih]

/-- lines are expanded independently -/
theorem expandtabs_append_nl (tab : Nat) (x y : Str) :
    expandtabs tab (x ++ '\n' :: y) = expandtabs tab x ++ '\n' :: expandtabs tab y := by
  unfold expandtabs
  rw [expandtabsAux_append]
  simp [expandtabsAux]

/-- a tab is the spaces to the next tab stop -/
theorem expandtabsAux_tab (tab n : Nat) (ht : tab > 0) (y : Str) :
    expandtabsAux tab n ('\t' :: y) = List.replicate (tab - n % tab) ' ' ++ expandtabsAux tab (n + (tab - n % tab)) y := by
  simp [expandtabsAux, ht]

/-! ### decimal numbers -/

theorem digitChar_spec : ∀ k, k < 10 →
    isAsciiDigit (digitChar k) = true ∧ decimalValue (digitChar k) = k ∧ (digitChar k).toNat = 48 + k := by
  decide

theorem digitChar_mod (n : Nat) : digitChar n = digitChar (n % 10) := by
  simp [digitChar]

theorem isAsciiDigit_digitChar (n : Nat) : isAsciiDigit (digitChar n) = true := by
  rw [digitChar_mod]; exact (digitChar_spec _ (Nat.mod_lt _ (by decide))).1

theorem decimalValue_digitChar (n : Nat) : decimalValue (digitChar n) = n % 10 := by
  rw [digitChar_mod]; exact (digitChar_spec _ (Nat.mod_lt _ (by decide))).2.1

theorem natToDecAux_zero (n : Nat) (acc : Str) : natToDecAux 0 n acc = acc := rfl

theorem natToDecAux_succ (f n : Nat) (acc : Str) :
    natToDecAux (f + 1) n acc =
      if n < 10 then digitChar n :: acc else natToDecAux f (n / 10) (digitChar n :: acc) := rfl

/-- the accumulator is a suffix -/
theorem natToDecAux_acc (f n : Nat) (acc : Str) : natToDecAux f n acc = natToDecAux f n [] ++ acc := by
  induction f generalizing n acc with
  | zero => rfl
  | succ f ih =>
    rw [natToDecAux_succ, natToDecAux_succ]
    split
    · rfl
    · rw [ih, ih (acc := [digitChar n])]; simp

/-- enough fuel is enough fuel -/
theorem natToDecAux_fuel {f f' n : Nat} (h : n < f) (h' : n < f') (acc : Str) :
    natToDecAux f n acc = natToDecAux f' n acc := by
  induction f generalizing f' n acc with
  | zero => omega
  | succ f ih =>
    cases f' with
    | zero => omega
    | succ f' =>
      rw [natToDecAux_succ, natToDecAux_succ]
      split
      · rfl
      · exact ih (by omega) (by omega) _

theorem natToDec_of_lt {n : Nat} (h : n < 10) : natToDec n = [digitChar n] := by
  simp [natToDec, natToDecAux_succ, h]

/-- the recursion `str(n) = str(n // 10) + str(n % 10)` -/
theorem natToDec_of_ge {n : Nat} (h : 10 ≤ n) : natToDec n = natToDec (n / 10) ++ [digitChar n] := by
  unfold natToDec
  rw [natToDecAux_succ, if_neg (by omega), natToDecAux_acc]
  congr 1
  exact natToDecAux_fuel (by omega) (by omega) _

theorem natToDec_ne_nil (n : Nat) : natToDec n ≠ [] := by
  by_cases h : n < 10
  · simp [natToDec_of_lt h]
  · simp [natToDec_of_ge (by omega : 10 ≤ n)]

theorem natToDec_length_pos (n : Nat) : 0 < (natToDec n).length :=
  List.length_pos_iff.2 (natToDec_ne_nil n)

/-- every character of `str(n)` is an ASCII digit -/
theorem natToDec_digits (n : Nat) : ∀ c ∈ natToDec n, isAsciiDigit c = true := by
  induction n using Nat.strongRecOn with
  | _ n ih =>
    by_cases h : n < 10
    · simp [natToDec_of_lt h, isAsciiDigit_digitChar]
    · rw [natToDec_of_ge (by omega)]
      intro c hc
      rcases List.mem_append.1 hc with hc | hc
      · exact ih (n / 10) (by omega) c hc
      · have : c = digitChar n := by simpa using hc
        rw [this]; exact isAsciiDigit_digitChar n

theorem decToNat_nil : decToNat [] = 0 := rfl

theorem decToNat_append_singleton (s : Str) (c : Char) : decToNat (s ++ [c]) = decToNat s * 10 + decimalValue c := by
  simp [decToNat, List.foldl_append]

/-- `int(str(n)) = n` -/
@[simp] theorem decToNat_natToDec (n : Nat) : decToNat (natToDec n) = n := by
  induction n using Nat.strongRecOn with
  | _ n ih =>
    by_cases h : n < 10
    · rw [natToDec_of_lt h]
      have := decToNat_append_singleton [] (digitChar n)
      simp only [List.nil_append, decToNat_nil, Nat.zero_mul, Nat.zero_add] at this
      rw [this, decimalValue_digitChar, Nat.mod_eq_of_lt h]
    · rw [natToDec_of_ge (by omega), decToNat_append_singleton, ih (n / 10) (by omega), decimalValue_digitChar]
      omega

theorem natToDec_injective {m n : Nat} (h : natToDec m = natToDec n) : m = n := by
  have := congrArg decToNat h
  simpa using this

@[simp] theorem natToDec_inj {m n : Nat} : natToDec m = natToDec n ↔ m = n :=
  ⟨natToDec_injective, fun h => h ▸ rfl⟩

/-- leading zeros do not change the value -/
theorem decToNat_replicate_zero_append (k : Nat) (s : Str) : decToNat (List.replicate k '0' ++ s) = decToNat s := by
  induction k with
  | zero => rfl
  | succ k ih =>
    have h0 : decimalValue '0' = 0 := by decide
    simp only [decToNat, List.replicate_succ, List.cons_append, List.foldl_cons, h0, Nat.zero_mul, Nat.add_zero]
    exact ih

theorem pad4_eq (n : Nat) : pad4 n = List.replicate (4 - (natToDec n).length) '0' ++ natToDec n := rfl

theorem pad4_length (n : Nat) : 4 ≤ (pad4 n).length := by
  rw [pad4_eq]; simp; omega

theorem pad4_length_eq (n : Nat) : (pad4 n).length = max 4 (natToDec n).length := by
  rw [pad4_eq]; simp; omega

theorem pad4_digits (n : Nat) : ∀ c ∈ pad4 n, isAsciiDigit c = true := by
  intro c hc
  rw [pad4_eq] at hc
  rcases List.mem_append.1 hc with hc | hc
  · rw [List.eq_of_mem_replicate hc]; decide
  · exact natToDec_digits n c hc

/-- `int('%04d' % n) = n` -/
@[simp] theorem decToNat_pad4 (n : Nat) : decToNat (pad4 n) = n := by
  rw [pad4_eq, decToNat_replicate_zero_append, decToNat_natToDec]

theorem pad4_injective {m n : Nat} (h : pad4 m = pad4 n) : m = n := by
  have := congrArg decToNat h
  simpa using this

/-! ### `lower` -/

@[simp] theorem lower_nil : lower [] = [] := rfl

@[simp] theorem lower_append (a b : Str) : lower (a ++ b) = lower a ++ lower b := by
  simp [lower]

theorem lower_cons (c : Char) (s : Str) : lower (c :: s) = lowerChar c ++ lower s := by
  simp [lower]

theorem lowerChar_ascii_spec : ∀ n, n < 128 →
    (lowerChar (Char.ofNat n)).flatMap lowerChar = lowerChar (Char.ofNat n) ∧
    (lowerChar (Char.ofNat n)).length = 1 ∧
    (∀ d ∈ lowerChar (Char.ofNat n), d.toNat < 128 ∧ isAsciiUpper d = false) := by
  decide

theorem lowerChar_ascii {c : Char} (h : c.toNat < 128) :
    (lowerChar c).flatMap lowerChar = lowerChar c ∧ (lowerChar c).length = 1 ∧
    (∀ d ∈ lowerChar c, d.toNat < 128 ∧ isAsciiUpper d = false) := by
  have := lowerChar_ascii_spec c.toNat h
  rwa [Char.ofNat_toNat] at this

/-- `lower` is idempotent on ASCII strings -/
theorem lower_idem_of_ascii {s : Str} (h : ∀ c ∈ s, c.toNat < 128) : lower (lower s) = lower s := by
  induction s with
  | nil => rfl
  | cons c s ih =>
    rw [lower_cons, lower_append, ih (fun d hd => h d (List.mem_cons_of_mem _ hd))]
    congr 1
    exact (lowerChar_ascii (h c List.mem_cons_self)).1

theorem lower_length_of_ascii {s : Str} (h : ∀ c ∈ s, c.toNat < 128) : (lower s).length = s.length := by
  induction s with
  | nil => rfl
  | cons c s ih =>
    rw [lower_cons, List.length_append, ih (fun d hd => h d (List.mem_cons_of_mem _ hd)),
      (lowerChar_ascii (h c List.mem_cons_self)).2.1]
    simp; omega

/-- an ASCII string without upper-case letters is its own `lower` -/
theorem lowerChar_of_not_upper {c : Char} (h : c.toNat < 128) (hu : isAsciiUpper c = false) : lowerChar c = [c] := by
  simp [lowerChar, h, hu]

theorem lower_eq_self_of_ascii {s : Str} (h : ∀ c ∈ s, c.toNat < 128 ∧ isAsciiUpper c = false) : lower s = s := by
  induction s with
  | nil => rfl
  | cons c s ih =>
    rw [lower_cons, ih (fun d hd => h d (List.mem_cons_of_mem _ hd)),
      lowerChar_of_not_upper (h c List.mem_cons_self).1 (h c List.mem_cons_self).2]
    rfl

/-! ### character classes -/

theorem isSpace_ascii_iff {c : Char} (h : c.toNat < 128) :
    isSpace c = true ↔ c = ' ' ∨ c = '\n' ∨ c = '\t' ∨ c = '\r' ∨ c.toNat = 11 ∨ c.toNat = 12 ∨
      (28 ≤ c.toNat ∧ c.toNat ≤ 31) := by
  simp [isSpace, h, or_assoc]

@[simp] theorem isSpace_space : isSpace ' ' = true := by decide
@[simp] theorem isSpace_nl : isSpace '\n' = true := by decide
@[simp] theorem isSpace_tab : isSpace '\t' = true := by decide
@[simp] theorem isSpace_cr : isSpace '\r' = true := by decide

theorem isDecimal_of_isAsciiDigit {c : Char} (h : isAsciiDigit c = true) : isDecimal c = true := by
  have h9 : c ≤ '9' := by
    simp only [isAsciiDigit, Bool.and_eq_true, decide_eq_true_eq] at h; exact h.2
  have : c.toNat < 128 := by
    have : c.toNat ≤ ('9' : Char).toNat := by
      rw [Char.le_def] at h9; exact h9
    have e : ('9' : Char).toNat = 57 := by decide
    omega
  simp [isDecimal, this, h]

theorem isWord_of_isAsciiAlnum {c : Char} (hc : c.toNat < 128) (h : isAsciiAlnum c = true) : isWord c = true := by
  simp [isWord, hc, h]

end MdVerif.Py
