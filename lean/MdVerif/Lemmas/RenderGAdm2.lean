/-
Helper lemmas for `Props/C16RenderG.lean`, part 13: an admonition whose body has several paragraphs, followed by any
number of ordinary paragraphs — the document through the block stage, the inline stage (nothing to do), prettify,
unescape, the serializer, and `convertX` end to end.

Core Lean only.
-/
import MdVerif.Lemmas.RenderGAdm

namespace MdVerif.RenderG
open Py Block BlockExt MdVerif.RenderX

/-! ### the block stage of the document -/

theorem length_joinChunks : ∀ (L : Str) (bs : List Str), (∀ b ∈ bs, b ≠ []) → bs.length ≤ (DocParse.joinChunks (L :: bs)).length := by
  intro L bs
  induction bs generalizing L with
  | nil => intro _; simp
  | cons b r ih =>
    intro hb
    have := ih b (fun x hx => hb x (List.mem_cons_of_mem _ hx))
    simp only [DocParse.joinChunks, List.length_append, List.length_cons] at this ⊢
    omega

theorem indentLine_facts (tab : Nat) (l : Str) (h : PlainFacts l) :
    CodeLaw.indentLine tab l ≠ [] ∧ '\n' ∉ CodeLaw.indentLine tab l := by
  refine ⟨?_, CodeLaw.not_nl_mem_indentLine h.noNl⟩
  have := h.ne
  cases l with
  | nil => exact absurd rfl this
  | cons a t => simp [CodeLaw.indentLine]

theorem pText_ne (p : Para) (hp : ParaOK p) : pText p ≠ [] := by
  have := (block_facts p.1 p.2 hp).2.2.1
  intro e
  rw [show joinLines (p.1 :: p.2) = pText p from rfl, e] at this
  simp [Escape.startsVisible] at this

/-- the first block: the header and the first body paragraph, whatever follows -/
theorem dispatch_admHead (cfg : XCfg) (hadm : cfg.admonition = true) (tab : Nat) (htab : tab > 0) (kl : Str)
    (title ttl : Option Str) (b : Para) (hk : PlainFacts kl)
    (ht : ∀ t, title = some t → ∀ c ∈ t, c ≠ '\n' ∧ c ≠ '"') (hb : ParaOK b)
    (hcl : admClassTitle kl title = (kl, ttl)) (pbf : Nat) (rest : List Str) :
    dispatchXT false cfg tab (parseBlocksXT false cfg tab (pbf + 1)) [] [] (Node.el "div")
        (admSrc tab kl title (pLines b)) rest =
      some (rootOf [admDivG kl ttl [pText b]], [], rest) := by
  have hat := admAt_header kl title (joinLines (CodeLaw.indentLines tab (b.1 :: b.2))) hk ht
  have htest : ∀ parent, admTest tab parent (admSrc tab kl title (b.1 :: b.2)) =
      some (.re 0 ((admHeader kl title).length + 1) kl title) := by
    intro parent
    simp only [admTest, admSearch, nlSearch, admSrc_eq, hat]
    simp
  have hdrop : (admSrc tab kl title (b.1 :: b.2)).drop ((admHeader kl title).length + 1) =
      joinLines (CodeLaw.indentLines tab (b.1 :: b.2)) := by
    rw [admSrc_eq, show admHeader kl title ++ '\n' :: joinLines (CodeLaw.indentLines tab (b.1 :: b.2)) =
      (admHeader kl title ++ ['\n']) ++ joinLines (CodeLaw.indentLines tab (b.1 :: b.2)) by simp]
    exact List.drop_left' (by simp)
  have hdetab := CodeLaw.detab_indent tab (b.1 :: b.2) (by simp) (fun l hl => (hb l hl).noNl)
  have hres : rootOf [admDivG kl ttl [pText b]] = (Node.el "div").append (admDiv kl ttl (joinLines (b.1 :: b.2))) := by
    rw [admDiv_eq]; rfl
  rw [hres]
  show dispatchXT false cfg tab (parseBlocksXT false cfg tab (pbf + 1)) [] [] (Node.el "div")
    (admSrc tab kl title (b.1 :: b.2)) rest = _
  simp only [dispatchXT, hadm, if_true, htest, admonitionP, Nat.lt_irrefl, if_false, hdrop, hdetab, hcl]
  have hp := fun (d : Node) => parseChunkXT_plain cfg tab htab pbf [] (by decide) [] d b.1 b.2 hb
  by_cases htt : Node.truthy ttl = true
  · simp only [htt, if_true, hp]
    simp [admDiv, htt]
  · simp only [htt, Bool.false_eq_true, if_false, hp]
    simp [admDiv, htt]

/-- the paragraph nodes after the admonition -/
def pNodes (qs : List Para) : List Node := qs.map (fun p => mkText "p" (pText p))

theorem preCode_p (t : Str) : preCode (mkText "p" t) = none := by
  have : (mkText "p" t).isTag "pre" = false := by
    simp only [mkText, Node.isTag, Node.el]; decide
  simp [preCode, this]

theorem preCode_admDivG (kl : Str) (ttl : Option Str) (texts : List Str) : preCode (admDivG kl ttl texts) = none := by
  have : (admDivG kl ttl texts).isTag "pre" = false := by
    simp only [admDivG, Node.isTag, Node.el]; decide
  simp [preCode, this]

theorem parseDocumentXT_admG (cfg : XCfg) (hadm : cfg.admonition = true) (tab : Nat) (htab : tab > 0) (kl : Str)
    (title ttl : Option Str) (b : Para) (bs qs : List Para) (hk : PlainFacts kl)
    (ht : ∀ t, title = some t → ∀ c ∈ t, c ≠ '\n' ∧ c ≠ '"') (hb : ParaOK b) (hbs : ∀ p ∈ bs, ParaOK p)
    (hqs : ∀ p ∈ qs, ParaOK p) (hcl : admClassTitle kl title = (kl, ttl)) :
    parseDocumentXT false cfg tab (admSrcG tab kl title b bs qs ++ ['\n', '\n']) =
      some (rootOf (admDivG kl ttl (pText b :: bs.map pText) :: pNodes qs), []) := by
  -- the blocks
  have hnel : ∀ x ∈ admSrc tab kl title (pLines b) :: (bs.map (bodyBlock tab) ++ qs.map pText),
      Escape.noEmptyLineFrom true x = true := by
    intro x hx
    rcases List.mem_cons.1 hx with rfl | hx
    · apply nel_block _ (by simp)
      intro l hl
      rcases List.mem_cons.1 hl with rfl | hl
      · exact ⟨by simp [admHeader], nl_not_mem_header kl title hk ht⟩
      · obtain ⟨y, hy, rfl⟩ := List.mem_map.1 hl
        exact indentLine_facts tab y (hb y hy)
    · rcases List.mem_append.1 hx with hx | hx
      · obtain ⟨p, hp, rfl⟩ := List.mem_map.1 hx
        apply nel_block _ (by simp [CodeLaw.indentLines, pLines])
        intro l hl
        obtain ⟨y, hy, rfl⟩ := List.mem_map.1 hl
        exact indentLine_facts tab y (hbs p hp y hy)
      · obtain ⟨p, hp, rfl⟩ := List.mem_map.1 hx
        apply nel_block _ (by simp)
        intro l hl
        exact ⟨(hqs p hp l hl).ne, (hqs p hp l hl).noNl⟩
  have hsplit := DocParse.splitS_chunks _ (by simp) hnel
  have hlen : bs.length + qs.length ≤ (admSrcG tab kl title b bs qs).length := by
    have := length_joinChunks (admSrc tab kl title (pLines b)) (bs.map (bodyBlock tab) ++ qs.map pText) (by
      intro x hx
      rcases List.mem_append.1 hx with hx | hx
      · obtain ⟨p, hp, rfl⟩ := List.mem_map.1 hx
        have := (bodyBlock_facts tab htab p (hbs p hp)).2.2
        intro e; rw [e] at this
        obtain ⟨m, rfl⟩ : ∃ m, tab = m + 1 := ⟨tab - 1, by omega⟩
        simp [startsWith, spaces, List.replicate_succ] at this
      · obtain ⟨p, hp, rfl⟩ := List.mem_map.1 hx
        exact pText_ne p (hqs p hp))
    simpa [admSrcG] using this
  obtain ⟨f, hf⟩ : ∃ f, fuelForX (admSrcG tab kl title b bs qs ++ ['\n', '\n']).length =
      (f + qs.length + 2 + bs.length) + 1 := by
    refine ⟨fuelForX (admSrcG tab kl title b bs qs ++ ['\n', '\n']).length - (qs.length + bs.length + 3), ?_⟩
    simp only [fuelForX, List.length_append]
    omega
  have h1 := dispatch_admHead cfg hadm tab htab kl title ttl b hk ht hb hcl (f + qs.length + 2 + bs.length - 1)
    (bs.map (bodyBlock tab) ++ (qs.map pText ++ [[]]))
  rw [show f + qs.length + 2 + bs.length - 1 + 1 = f + qs.length + 2 + bs.length by omega] at h1
  simp only [parseDocumentXT, parseChunk]
  rw [show admSrcG tab kl title b bs qs = DocParse.joinChunks (admSrc tab kl title (pLines b) ::
    (bs.map (bodyBlock tab) ++ qs.map pText)) from rfl] at hf ⊢
  rw [hsplit, hf]
  simp only [List.cons_append, List.append_assoc, parseBlocksXT, h1]
  rw [parse_admBodies cfg hadm tab htab kl ttl bs [pText b] [] (f + qs.length) _ hbs,
    show f + qs.length + 2 = (f + 2) + qs.length by omega,
    parse_paras cfg tab htab qs _ [] (f + 2) _ hqs,
    parse_end cfg tab htab f [] _ (by
      intro c hc
      simp only [rootOf, Node.last?, Node.el] at hc
      rcases List.mem_append.1 (List.mem_of_getLast? hc) with h | h
      · simp only [List.mem_singleton] at h
        subst h; exact preCode_admDivG _ _ _
      · obtain ⟨p, _, rfl⟩ := List.mem_map.1 h
        exact preCode_p _)]
  rfl

/-! ### the inline stage: nothing to do -/

theorem quietKids_ps (ts : List Para) (h : ∀ p ∈ ts, ParaOK p) :
    quietKids false (ts.map (fun p => mkText "p" (pText p))) = true := by
  induction ts with
  | nil => rfl
  | cons p r ih =>
    have hq := quietStr_lines p.1 p.2 (h p List.mem_cons_self)
    rw [show joinLines (p.1 :: p.2) = pText p from rfl] at hq
    simp only [List.map_cons, quietKids, Bool.and_eq_true]
    exact ⟨by simp [mkText, Node.el, quietTree, quietKids, Node.truthy, hq], ih (fun x hx => h x (List.mem_cons_of_mem _ hx))⟩

theorem quietKids_append (a b : List Node) (ha : quietKids false a = true) (hb : quietKids false b = true) :
    quietKids false (a ++ b) = true := by
  induction a with
  | nil => exact hb
  | cons c r ih =>
    simp only [quietKids, Bool.and_eq_true] at ha
    simp only [List.cons_append, quietKids, Bool.and_eq_true]
    exact ⟨ha.1, ih ha.2⟩

theorem quietKids_admDoc (kl : Str) (ttl : Option Str) (ps qs : List Para) (httl : ∀ c ∈ ttl.getD [], DocSpec.isAlnumSp c = true)
    (hps : ∀ p ∈ ps, ParaOK p) (hqs : ∀ p ∈ qs, ParaOK p) :
    quietKids false (rootOf (admDivG kl ttl (ps.map pText) :: pNodes qs)).children = true := by
  have h1 := quietKids_ps ps hps
  have h2 := quietKids_ps qs hqs
  have hk : quietKids false (admDivG kl ttl (ps.map pText)).children = true := by
    have e : (ps.map pText).map (mkText "p") = ps.map (fun p => mkText "p" (pText p)) := by simp
    rcases ttl_cases ttl with ⟨a, as, rfl⟩ | rfl | rfl
    · have htq := quietStr_chars false (a :: as) (by simpa using httl)
      simp only [admDivG, Node.truthy, if_true, e]
      apply quietKids_append _ _ _ h1
      simp [mkText, Node.el, quietKids, quietTree, Node.truthy, htq]
    · simp only [admDivG, Node.truthy, Bool.false_eq_true, if_false, List.nil_append, e]; exact h1
    · simp only [admDivG, Node.truthy, Bool.false_eq_true, if_false, List.nil_append, e]; exact h1
  have hd : quietTree false (admDivG kl ttl (ps.map pText)) = true := by
    have : quietTree false (admDivG kl ttl (ps.map pText)) =
        quietKids false (admDivG kl ttl (ps.map pText)).children := by
      simp [admDivG, Node.el, quietTree, Node.truthy]
    rw [this]; exact hk
  simp only [rootOf, quietKids, Bool.and_eq_true]
  exact ⟨hd, h2⟩

end MdVerif.RenderG
