/-
Helper lemmas for C10 on the extension model (`Props/C10XTocAttr.lean`): the composition of the stage lemmas along
`PipelineX.convertX` when toc and attr_list may be enabled together, possibly with the inline-stage extensions nl2br
and wikilinks (the seven other extensions off): block parser `Block.parseDocument`, inline stage `InlineX.runX`,
`prettify`, `AttrListTree.run` (worker t1: `Lemmas/PlaceholdersXAttr.lean`, `…XAttrAll.lean`), `TocTree.run`
(`Lemmas/PlaceholdersXToc2.lean`), `unescapeTree`, serialiser, postprocessors.  Core Lean only.
-/
import MdVerif.Lemmas.PlaceholdersXToc2
import MdVerif.Lemmas.PlaceholdersXAttrAll

namespace MdVerif.NoCtlX
open MdVerif.NoCtl Py InlineX

/-- only toc, attr_list and the inline-stage extensions: every flag but `nl2br`, `wikilinks`, `attrList`, `toc` is off -/
def TocAttrFlagsOnly (x : PipelineX.Exts) : Prop :=
  x.fencedCode = false ∧ x.tables = false ∧ x.admonition = false ∧ x.defList = false ∧ x.abbr = false ∧
  x.footnotes = false ∧ x.saneLists = false

instance (x : PipelineX.Exts) : Decidable (TocAttrFlagsOnly x) := by unfold TocAttrFlagsOnly; infer_instance

/-- the toc stage of `PipelineX.treeX` -/
def tocStage (tc : Bool) (env : TocTree.Env) (bl : List Str) (t : Node) : TocTree.R Node :=
  if tc then TocTree.run env bl t else .ok t

/-- how `convertX` unfolds when only `nl2br` / `wikilinks` / `attr_list` / `toc` may be on -/
theorem convertX_toc_attr_ok {nl wl al tc : Bool} {cfg : Pipeline.Cfg} {src out : Str}
    (h : PipelineX.convertX { nl2br := nl, wikilinks := wl, attrList := al, toc := tc } cfg src = .ok out) :
    out = [] ∨
    ∃ root refs t xs t2 u o,
      Block.parseDocument cfg.tab (Pipeline.prepare cfg src) = some (root, refs) ∧
      runX (xcOf cfg refs wl nl) root [] = some (t, xs) ∧
      tocStage tc ⟨cfg.fmt, PipelineX.postX { nl2br := nl, wikilinks := wl, attrList := al, toc := tc } cfg xs.st.html⟩
        cfg.blockLevel (lateTree al cfg.blockLevel t) = .ok t2 ∧
      TreeProc.unescapeTree t2 = some u ∧
      Post.finish cfg.blockLevel xs.st.html (Ser.serialize cfg.fmt u) = some (some o) ∧ out = o := by
  simp only [PipelineX.convertX, PipelineX.Exts.unsupported] at h
  split at h
  · cases h
  · simp only [Bool.false_eq_true, if_false] at h
    split at h
    · cases h; exact .inl rfl
    · right
      simp only [PipelineX.treeX, PipelineX.prepareX, PipelineX.Exts.blockCfg, parseDocumentXT_core,
        PipelineX.refsX, PipelineX.escX, Bool.false_eq_true, if_false, Bool.or_self, Bool.false_and] at h
      have hprep : Extract.extract (Normalize.normalize cfg.tab src) = Pipeline.prepare cfg src := rfl
      rw [hprep] at h
      cases hb : Block.parseDocument cfg.tab (Pipeline.prepare cfg src) with
      | none => simp [hb] at h
      | some br =>
        obtain ⟨root, refs⟩ := br
        simp only [hb] at h
        cases hr : runX (xcOf cfg refs wl nl) root [] with
        | none => simp [hr] at h
        | some ir =>
          obtain ⟨t, xs⟩ := ir
          simp only [hr] at h
          have hlate : (if al = true then AttrListTree.run cfg.blockLevel (TreeProc.prettify t cfg.blockLevel)
              else TreeProc.prettify t cfg.blockLevel) = lateTree al cfg.blockLevel t := rfl
          rw [hlate] at h
          have hstage : (if tc = true then
              TocTree.run ⟨cfg.fmt, PipelineX.postX { nl2br := nl, wikilinks := wl, attrList := al, toc := tc } cfg xs.st.html⟩
                cfg.blockLevel (lateTree al cfg.blockLevel t)
              else .ok (lateTree al cfg.blockLevel t)) =
              tocStage tc ⟨cfg.fmt, PipelineX.postX { nl2br := nl, wikilinks := wl, attrList := al, toc := tc } cfg xs.st.html⟩
                cfg.blockLevel (lateTree al cfg.blockLevel t) := rfl
          rw [hstage] at h
          generalize ht : tocStage tc
              ⟨cfg.fmt, PipelineX.postX { nl2br := nl, wikilinks := wl, attrList := al, toc := tc } cfg xs.st.html⟩
              cfg.blockLevel (lateTree al cfg.blockLevel t) = rt at h
          cases rt with
          | oof => simp at h
          | err => simp at h
          | ood => simp at h
          | ok t2 =>
            simp only at h
            cases hu : TreeProc.unescapeTree t2 with
            | none => simp [hu] at h
            | some u =>
              simp only [hu, PipelineX.finishX] at h
              cases hs : Post.topLevelStrip (Ser.serialize cfg.fmt u) with
              | none => rw [hs] at h; cases h
              | some o1 =>
                rw [hs] at h
                simp only [PipelineX.postX, Bool.false_eq_true, if_false] at h
                cases hraw : Post.rawHtml cfg.blockLevel xs.st.html (Post.rawHtmlFuel xs.st.html) o1 with
                | none => rw [hraw] at h; cases h
                | some r =>
                  rw [hraw] at h
                  simp only [Option.map_some, Pipeline.Outcome.ok.injEq] at h
                  subst h
                  refine ⟨root, refs, t, xs, t2, u, _, rfl, hr, ht, hu, ?_, rfl⟩
                  simp only [Post.finish, Post.post, hs, hraw, Option.map_some]

/-- the toc stage (when enabled) keeps `FNodeX`, for postprocessors that keep `NoCtl` -/
theorem tocStage_fnodeX {tc : Bool} {fmt : Ser.Fmt} {post : Str → Option Str} (hp : PostOK post) {bl : List Str}
    {t t2 : Node} (h : t.Forall FNodeX) (hr : tocStage tc ⟨fmt, post⟩ bl t = .ok t2) : t2.Forall FNodeX := by
  unfold tocStage at hr
  split at hr
  · exact toc_run_fnodeX h hr hp
  · injection hr with hr
    subst hr; exact h

/-- end to end with toc, attr_list, nl2br and wikilinks on the domain of `C10_partial_links`; with wikilinks the
    normalised text has no `[` immediately before a blank -/
theorem convertX_noctl_toc_attr {x : PipelineX.Exts} (hx : TocAttrFlagsOnly x)
    {cfg : Pipeline.Cfg} (hcfg : EscOK cfg.esc) {src out : Str} (hd : C10DomainL cfg.tab src)
    (hq : Qw x.wikilinks (Normalize.normalize cfg.tab src))
    (h : PipelineX.convertX x cfg src = .ok out) : NoCtl out := by
  obtain ⟨fc, tb, ad, dl, ab, fnn, sl, nl, wl, al, tc⟩ := x
  obtain ⟨h1, h2, h3, h4, h5, h6, h7⟩ := hx
  simp only at h1 h2 h3 h4 h5 h6 h7 hq
  subst h1 h2 h3 h4 h5 h6 h7
  rcases convertX_toc_attr_ok h with rfl | ⟨root, refs, t, xs, t2, u, o, hb, hr, ht, hu, hf, rfl⟩
  · exact noCtl_nil
  · obtain ⟨hfn, hhtml⟩ := inline_stage_fnode hcfg hd hq hb hr
    rw [hhtml] at ht hf
    have hlate := lateTree_fnodeX al cfg.blockLevel (forall_fnodeX_of_fnode hfn)
    have hun := unescapeTree_fnodeX (tocStage_fnodeX (postX_noctl _ cfg) hlate ht) hu
    exact finish_noctl (serialize_noctl cfg.fmt hun) hf

end MdVerif.NoCtlX
