/-
Helper lemmas for `Props/C16Render.lean`, part 4: generic facts about the tree processors after the inline stage.
`PrettifyTreeprocessor` is `prettifyETree` on a tree without `br` and `pre` elements; it keeps a tree *clean* (no
`STX` in texts, tails and attribute values, no atomic strings), and `UnescapeTreeprocessor` is the identity on a clean
tree.  Core Lean only.
-/
import MdVerif.Model.TreeProc

namespace MdVerif.TreeFacts
open Py TreeProc

mutual
/-- every tag of the tree satisfies `P` -/
def allTag (P : Tag → Bool) : Node → Bool
  | ⟨tag, _, _, _, children, _, _⟩ => P tag && allTagL P children
def allTagL (P : Tag → Bool) : List Node → Bool
  | [] => true
  | c :: r => allTag P c && allTagL P r
end

def okOpt : Option Str → Bool
  | none => true
  | some s => !s.contains TreeProc.STX

mutual
/-- no `STX` anywhere, no atomic strings -/
def clean : Node → Bool
  | ⟨_, attrs, text, ta, children, tail, tla⟩ =>
    !ta && !tla && okOpt text && okOpt tail && attrs.all (fun kv => !kv.2.contains TreeProc.STX) && cleanL children
def cleanL : List Node → Bool
  | [] => true
  | c :: r => clean c && cleanL r
end

/-! ### `mapTree` with a rule that does not apply -/

mutual
theorem mapTree_id (f : Node → Node) (P : Tag → Bool) (hf : ∀ m : Node, P m.tag = true → f m = m) :
    ∀ n : Node, allTag P n = true → mapTree f n = n
  | ⟨tag, attrs, text, ta, children, tail, tla⟩, h => by
    simp only [allTag, Bool.and_eq_true] at h
    simp only [mapTree, mapKids_id f P hf children h.2]
    exact hf _ h.1
theorem mapKids_id (f : Node → Node) (P : Tag → Bool) (hf : ∀ m : Node, P m.tag = true → f m = m) :
    ∀ l : List Node, allTagL P l = true → mapKids f l = l
  | [], _ => rfl
  | c :: r, h => by
    simp only [allTagL, Bool.and_eq_true] at h
    simp only [mapKids, mapTree_id f P hf c h.1, mapKids_id f P hf r h.2]
end

/-- the tag is neither `br` nor `pre` -/
def noBrPre (t : Tag) : Bool := !(t == .name "br".toList) && !(t == .name "pre".toList)

theorem brRule_id (m : Node) (h : noBrPre m.tag = true) : brRule m = m := by
  simp only [noBrPre, Bool.and_eq_true, Bool.not_eq_true'] at h
  simp only [brRule, tagIs, h.1, Bool.false_eq_true, if_false]

theorem preRule_id (m : Node) (h : noBrPre m.tag = true) : preRule m = m := by
  simp only [noBrPre, Bool.and_eq_true, Bool.not_eq_true'] at h
  simp only [preRule, tagIs, h.2, Bool.false_eq_true, if_false]

/-! ### `prettifyETree` keeps tags and cleanliness -/

mutual
theorem allTag_prettifyETree (bl : List Str) (P : Tag → Bool) :
    ∀ n : Node, allTag P (prettifyETree bl n) = allTag P n
  | ⟨tag, attrs, text, ta, children, tail, tla⟩ => by
    simp only [prettifyETree, allTag]
    split
    · rw [allTagL_prettifyKids bl P children]
    · rfl
theorem allTagL_prettifyKids (bl : List Str) (P : Tag → Bool) :
    ∀ l : List Node, allTagL P (prettifyKids bl l) = allTagL P l
  | [] => rfl
  | c :: r => by
    simp only [prettifyKids, allTagL]
    split
    · rw [allTag_prettifyETree bl P c, allTagL_prettifyKids bl P r]
    · rw [allTagL_prettifyKids bl P r]
end

theorem okOpt_nl : okOpt (some ['\n']) = true := by decide

theorem ite_flag (c : Bool) (ta : Bool) (h : ta = false) : (!(if c = true then false else ta)) = true := by
  subst h; cases c <;> rfl

theorem ite_okOpt (c : Bool) (t : Option Str) (h : okOpt t = true) :
    okOpt (if c = true then some ['\n'] else t) = true := by
  cases c
  · simpa using h
  · exact okOpt_nl

mutual
theorem clean_prettifyETree (bl : List Str) : ∀ n : Node, clean n = true → clean (prettifyETree bl n) = true
  | ⟨tag, attrs, text, ta, children, tail, tla⟩, h => by
    simp only [clean, Bool.and_eq_true, Bool.not_eq_true'] at h
    obtain ⟨⟨⟨⟨⟨h1, h2⟩, h3⟩, h4⟩, h5⟩, h6⟩ := h
    have hk : ∀ c : Bool, cleanL (if c = true then prettifyKids bl children else children) = true := by
      intro c; cases c
      · simpa using h6
      · simpa using cleanL_prettifyKids bl children h6
    simp only [prettifyETree, clean, ite_flag _ _ h1, ite_flag _ _ h2, ite_okOpt _ _ h3, ite_okOpt _ _ h4, h5, hk,
      Bool.and_self]
theorem cleanL_prettifyKids (bl : List Str) : ∀ l : List Node, cleanL l = true → cleanL (prettifyKids bl l) = true
  | [], _ => rfl
  | c :: r, h => by
    simp only [cleanL, Bool.and_eq_true] at h
    have hc : ∀ b : Bool, clean (if b = true then prettifyETree bl c else c) = true := by
      intro b; cases b
      · simpa using h.1
      · simpa using clean_prettifyETree bl c h.1
    simp only [prettifyKids, cleanL, hc, cleanL_prettifyKids bl r h.2, Bool.and_self]
end

/-- **`PrettifyTreeprocessor.run` on a tree without `br` and `pre`** is `_prettifyETree` -/
theorem prettify_eq (bl : List Str) (n : Node) (h : allTag noBrPre n = true) :
    prettify n bl = prettifyETree bl n := by
  have h' : allTag noBrPre (prettifyETree bl n) = true := by rw [allTag_prettifyETree]; exact h
  unfold prettify
  rw [mapTree_id brRule noBrPre brRule_id _ h', mapTree_id preRule noBrPre preRule_id _ h']

/-! ### `UnescapeTreeprocessor` on a clean tree -/

theorem unescapeText_id (s : Str) (h : s.contains TreeProc.STX = false) : unescapeText 0 s = some s := by
  induction s with
  | nil => rfl
  | cons c r ih =>
    simp only [List.contains_cons, Bool.or_eq_false_iff, beq_eq_false_iff_ne, ne_eq] at h
    have hc : c ≠ TreeProc.STX := fun e => h.1 e.symm
    simp [unescapeText, hc, ih h.2]

theorem unescAttrs_id (attrs : List (Str × Str)) (h : attrs.all (fun kv => !kv.2.contains TreeProc.STX) = true) :
    unescAttrs attrs = some attrs := by
  induction attrs with
  | nil => rfl
  | cons kv r ih =>
    obtain ⟨k, v⟩ := kv
    simp only [List.all_cons, Bool.and_eq_true, Bool.not_eq_true'] at h
    simp [unescAttrs, unescapeText_id v h.1, ih h.2]

mutual
theorem unescapeTree_clean : ∀ n : Node, clean n = true → unescapeTree n = some n
  | ⟨tag, attrs, text, ta, children, tail, tla⟩, h => by
    simp only [clean, Bool.and_eq_true, Bool.not_eq_true'] at h
    obtain ⟨⟨⟨⟨⟨h1, h2⟩, h3⟩, h4⟩, h5⟩, h6⟩ := h
    subst h1 h2
    have hk := unescapeKids_clean children h6
    have ha := unescAttrs_id attrs h5
    have ht : ∀ s, text = some s → unescapeText 0 s = some s := by
      intro s hs; subst hs; exact unescapeText_id s (by simpa [okOpt] using h3)
    have htl : ∀ s, tail = some s → unescapeText 0 s = some s := by
      intro s hs; subst hs; exact unescapeText_id s (by simpa [okOpt] using h4)
    rcases text with _ | _ | ⟨x, y⟩ <;> rcases tail with _ | _ | ⟨x', y'⟩ <;>
      simp [unescapeTree, hk, ha, ht, htl, Node.truthy]
theorem unescapeKids_clean : ∀ l : List Node, cleanL l = true → unescapeKids l = some l
  | [], _ => rfl
  | c :: r, h => by
    simp only [cleanL, Bool.and_eq_true] at h
    simp [unescapeKids, unescapeTree_clean c h.1, unescapeKids_clean r h.2]
end

/-- tree processors `prettify` and `unescape` on a clean tree without `br`/`pre` -/
theorem unescape_prettify (bl : List Str) (n : Node) (h1 : allTag noBrPre n = true) (h2 : clean n = true) :
    unescapeTree (prettify n bl) = some (prettifyETree bl n) := by
  rw [prettify_eq bl n h1]
  exact unescapeTree_clean _ (clean_prettifyETree bl n h2)

end MdVerif.TreeFacts
