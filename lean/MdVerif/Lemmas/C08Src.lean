/-
Helper lemmas for `Props/C08Src.lean` (C08 at source level): the hypotheses of `Props/C08.lean` about the runs of the
model are derived from conditions on the source texts and from the three successful conversions.

* `stxDigB`, `plainB_of_sh`, `plainTreeB_of_rel`: a text that is `Sh`-related to anything and in which every STX is
  followed by a digit (what `C10b` proves of the result of the inline stage: escape tokens only) is `plainB`;
* `runLoop_result_wnodeB`: the result of the inline stage on a source of `C10DomainL` holds escape tokens only (any fuels);
* `voidOk_of_good`, `topChild_of_runLoop_fmt`: the top-level children of the result are `topChild`ren in both output
  formats (the vocabulary invariant `DocOk` of C05 says that `hr` has no content);
* `convert_ok_inv`: what a successful conversion says about the stages.
The composition is in `Lemmas/C08SrcEven.lean`.
Core Lean only.
-/
import MdVerif.Props.C08
import MdVerif.Props.C10b
import MdVerif.Props.C02Block
import MdVerif.Lemmas.InlineVocab
import MdVerif.Lemmas.C08SrcBlock

namespace MdVerif.C08Src
open Py Block InlineLocal Inline NoCtl MdVerif.C08

/-! ### every STX is followed by a digit -/

/-- every STX of the text is followed by an ASCII digit (the head of an escape token) -/
def stxDigB : Str → Bool
  | [] => true
  | c :: r =>
    (if c = Inline.STX then (match r with | d :: _ => isAsciiDigit d | [] => false) else true) && stxDigB r

theorem stxDigB_of_no_stx : ∀ {s : Str}, Inline.STX ∉ s → stxDigB s = true
  | [], _ => rfl
  | c :: r, h => by
    have hc : c ≠ Inline.STX := fun e => h (by simp [e])
    simp only [stxDigB, if_neg hc, Bool.true_and]
    exact stxDigB_of_no_stx (fun hm => h (List.mem_cons_of_mem _ hm))

theorem stxDigB_tail {c : Char} {s : Str} (h : stxDigB (c :: s) = true) : stxDigB s = true := by
  simp only [stxDigB, Bool.and_eq_true] at h
  exact h.2

/-- a run of characters without Inline.STX in front of a text -/
theorem stxDigB_append_of_no_stx : ∀ {a : Str} (b : Str), Inline.STX ∉ a → stxDigB b = true → stxDigB (a ++ b) = true
  | [], _, _, hb => hb
  | c :: r, b, h, hb => by
    have hc : c ≠ Inline.STX := fun e => h (by simp [e])
    simp only [List.cons_append, stxDigB, if_neg hc, Bool.true_and]
    exact stxDigB_append_of_no_stx b (fun hm => h (List.mem_cons_of_mem _ hm)) hb

theorem natToDec_no_stx (v : Nat) : Inline.STX ∉ natToDec v := by
  intro h
  have := natToDec_digits v Inline.STX h
  revert this; decide

theorem stxDigB_of_wf : ∀ {s : Str}, WF true 0 s → stxDigB s = true := by
  intro s h
  induction h with
  | nil => rfl
  | plain c s hc _ _ ih => simp only [stxDigB, if_neg hc, Bool.true_and]; exact ih
  | ph i s hi _ _ => omega
  | tok v s _ _ _ ih =>
    obtain ⟨d, r, hd⟩ := List.exists_cons_of_ne_nil (natToDec_ne_nil v)
    have hdig : isAsciiDigit d = true := natToDec_digits v d (by rw [hd]; simp)
    have hno : Inline.STX ∉ natToDec v ++ [Inline.ETX] := by
      intro hm
      rcases List.mem_append.1 hm with hm | hm
      · exact natToDec_no_stx v hm
      · simp at hm; revert hm; decide
    have e : escToken v ++ s = Inline.STX :: ((natToDec v ++ [Inline.ETX]) ++ s) := by simp [escToken]
    rw [e]
    have hrest := stxDigB_append_of_no_stx s hno ih
    have e2 : natToDec v ++ [Inline.ETX] ++ s = d :: (r ++ [Inline.ETX] ++ s) := by rw [hd]; simp
    rw [e2] at hrest ⊢
    simp only [stxDigB, if_true, hdig, Bool.true_and] at hrest ⊢
    exact hrest

/-! ### from `Sh` and `stxDigB` to `plainB` -/

theorem plainB_of_sh {ok : Char → Bool} {ρ : Rho} {s s' : Str} (h : Sh ok ρ s s') (hd : stxDigB s = true) :
    plainB ok s = true := by
  induction h with
  | nil => rfl
  | @chr c s s' hc hs _ ih =>
    rw [plainB.eq_def]
    simp only [if_neg hs, hc, Bool.true_and]
    exact ih (stxDigB_tail hd)
  | @tok d s s' hdg _ ih =>
    rw [plainB.eq_def]
    simp only [if_true, hdg, Bool.true_and]
    exact ih (stxDigB_tail (stxDigB_tail hd))
  | @ph i i' s s' _ hi _ _ _ =>
    exfalso
    obtain ⟨a, b, c, d, hp, -⟩ := placeholder_four hi
    rw [hp] at hd
    simp [stxDigB, isAsciiDigit] at hd

theorem plainOptB_of_rel {ρ : Rho} {t t' : Option Str} (h : ORel (Sh okI ρ) t t') (hd : stxDigB (t.getD []) = true) :
    plainOptB okI t = true := by
  match t, t', h with
  | none, none, _ => rfl
  | some a, some b, h => exact plainB_of_sh (show Sh okI ρ a b from h) hd

theorem wnodeB_stx {n : Node} (h : WNodeB 0 n) :
    stxDigB (n.text.getD []) = true ∧ stxDigB (n.tail.getD []) = true := by
  obtain ⟨-, -, -, h4, h5, -⟩ := h
  refine ⟨?_, stxDigB_of_wf h4.1⟩
  by_cases hat : n.textAtomic = true
  · rw [if_pos hat] at h5; exact stxDigB_of_no_stx h5.1
  · rw [if_neg hat] at h5; exact stxDigB_of_wf h5.1

mutual
theorem plainTreeB_of_rel {ρ : Rho} : ∀ (n x : Node), NRel okI ρ n x → n.Forall (WNodeB 0) → plainTreeB okI n = true
  | ⟨tag, attrs, text, ta, ch, tail, tla⟩, ⟨tag', attrs', text', ta', ch', tail', tla'⟩, h, hw => by
    simp only [NRel] at h
    simp only [Node.Forall] at hw
    obtain ⟨-, -, -, -, h5, h6, h7⟩ := h
    obtain ⟨hn, hk⟩ := hw
    obtain ⟨s1, s2⟩ := wnodeB_stx hn
    simp only [plainTreeB, Bool.and_eq_true]
    exact ⟨⟨plainOptB_of_rel h5 s1, plainOptB_of_rel h6 s2⟩, plainTreeLB_of_rel ch ch' h7 hk⟩
theorem plainTreeLB_of_rel {ρ : Rho} : ∀ (l l' : List Node), NRelL okI ρ l l' → Node.ForallL (WNodeB 0) l →
    plainTreeLB okI l = true
  | [], [], _, _ => rfl
  | a :: r, a' :: r', h, hw => by
    simp only [NRelL] at h
    simp only [Node.ForallL] at hw
    simp only [plainTreeLB, Bool.and_eq_true]
    exact ⟨plainTreeB_of_rel a a' h.1 hw.1, plainTreeLB_of_rel r r' h.2 hw.2⟩
  | [], _ :: _, h, _ => by simp only [NRelL] at h
  | _ :: _, [], h, _ => by simp only [NRelL] at h
end

/-! ### the results of the separate runs hold no placeholder -/

theorem forallL_of_forall {P : Node → Prop} {n : Node} (h : n.Forall P) : Node.ForallL P n.children := by
  cases n; simp only [Node.Forall] at h; exact h.2

theorem plainTreeB_root {cs : List Node} (h : plainTreeLB okI cs = true) : plainTreeB okI (root cs) = true := by
  simp only [root, Node.el, plainTreeB, plainOptB, Bool.true_and]
  exact h

/-- the result of the inline stage (the stack loop run with any fuels) on the block tree of a source of `C10DomainL`:
    escape tokens only -/
theorem runLoop_result_wnodeB (pc : Pipeline.Cfg) (hcfg : EscOK pc.esc) {src : Str} (hd : C10DomainL pc.tab src)
    {rt : Node} {refs : Refs} (hb : parseDocument pc.tab (Pipeline.prepare pc src) = some (rt, refs))
    {g2 g : Nat} {t : Node} {st : St}
    (hr : runLoop { esc := pc.esc, refs := refs.reverse } g2 g rt [[]] { html := [] } = some (t, st)) :
    t.Forall (WNodeB 0) := by
  obtain ⟨hroot, hrefs, -⟩ := BlkB.parseDocument_strs strDom_adj3 pc.tab _ (prepare_domB pc hd) hb
  have htree : rt.Forall (WNodeB 0) := Node.Forall.mono (fun _ hn => wnodeB_of_bnodeP hn) rt hroot
  have hhi : HISpecB { esc := pc.esc, refs := refs.reverse } :=
    hiSpecB (cfg := { esc := pc.esc, refs := refs.reverse }) hcfg (refsOK_of_refsC pc.esc hrefs)
  have hcl : Clean true rt := by
    have ht := htree
    rw [Node.forall_iff] at ht
    obtain ⟨-, -, -, t4, t5, -⟩ := ht.1
    refine ⟨?_, t4.1⟩
    by_cases hc : rt.textAtomic = true
    · rw [if_pos hc] at t5; exact WF.of_noCtl t5
    · rw [if_neg hc] at t5; exact t5.1
  have inv : RInvB rt [[]] { html := [] } := by
    refine ⟨by intro i it hi; simp at hi, htree, hcl, ?_⟩
    intro m _
    exact ⟨[], by simp, List.nil_prefix⟩
  exact (runLoop_specB hhi _ _ _ _ _ _ _ inv hr).1

/-- … and the HTML stash stays empty -/
theorem runLoop_result_html (pc : Pipeline.Cfg) (hcfg : EscOK pc.esc) {src : Str} (hd : C10DomainL pc.tab src)
    {rt : Node} {refs : Refs} (hb : parseDocument pc.tab (Pipeline.prepare pc src) = some (rt, refs))
    {g2 g : Nat} {t : Node} {st : St}
    (hr : runLoop { esc := pc.esc, refs := refs.reverse } g2 g rt [[]] { html := [] } = some (t, st)) :
    st.html = [] := by
  obtain ⟨hroot, hrefs, -⟩ := BlkB.parseDocument_strs strDom_adj3 pc.tab _ (prepare_domB pc hd) hb
  have htree : rt.Forall (WNodeB 0) := Node.Forall.mono (fun _ hn => wnodeB_of_bnodeP hn) rt hroot
  have hhi : HISpecB { esc := pc.esc, refs := refs.reverse } :=
    hiSpecB (cfg := { esc := pc.esc, refs := refs.reverse }) hcfg (refsOK_of_refsC pc.esc hrefs)
  have hcl : Clean true rt := by
    have ht := htree
    rw [Node.forall_iff] at ht
    obtain ⟨-, -, -, t4, t5, -⟩ := ht.1
    refine ⟨?_, t4.1⟩
    by_cases hc : rt.textAtomic = true
    · rw [if_pos hc] at t5; exact WF.of_noCtl t5
    · rw [if_neg hc] at t5; exact t5.1
  have inv : RInvB rt [[]] { html := [] } := by
    refine ⟨by intro i it hi; simp at hi, htree, hcl, ?_⟩
    intro m _
    exact ⟨[], by simp, List.nil_prefix⟩
  exact (runLoop_specB hhi _ _ _ _ _ _ _ inv hr).2

theorem run_result_wnodeB (pc : Pipeline.Cfg) (hcfg : EscOK pc.esc) {src : Str} (hd : C10DomainL pc.tab src)
    {rt : Node} {refs : Refs} (hb : parseDocument pc.tab (Pipeline.prepare pc src) = some (rt, refs))
    {t : Node} {st : St} (hr : Inline.run { esc := pc.esc, refs := refs.reverse } rt = some (t, st)) :
    t.Forall (WNodeB 0) := by
  unfold Inline.run at hr
  exact runLoop_result_wnodeB pc hcfg hd hb hr

/-! ### both output formats: a void element has no content -/

open Vocab2 in
theorem void_of_vocab {t : Str} (h : hasTag vocabTags t = true) (he : Ser.isEmptyTag t = true) : isVoidTag t = true := by
  simp only [hasTag, List.any_eq_true] at h
  obtain ⟨e, he1, he2⟩ := h
  have he2' : e.toList = t := by simpa using he2
  subst he2'
  simp only [vocabTags, List.mem_cons, List.not_mem_nil, or_false] at he1
  rcases he1 with rfl | rfl | rfl | rfl | rfl | rfl | rfl | rfl | rfl | rfl | rfl | rfl | rfl | rfl | rfl | rfl | rfl |
    rfl | rfl <;> first | rfl | (exfalso; revert he; decide)

open Vocab2 in
theorem voidOk_of_good (fmt : Ser.Fmt) {c : Node} (h : Good c = true) : voidOk fmt c = true := by
  have h' : GoodT vocabTags c = true := h
  rw [goodT_eq, Bool.and_eq_true] at h'
  obtain ⟨h1, -⟩ := h'
  cases htag : c.tag with
  | name t =>
    rw [htag] at h1
    simp only [nodeOk, Bool.and_eq_true, Bool.or_eq_true, Bool.not_eq_true'] at h1
    obtain ⟨⟨hv, -⟩, h3⟩ := h1
    simp only [voidOk, Node.tagStr, htag, Bool.or_eq_true, decide_eq_true_eq, Bool.not_eq_true', Bool.and_eq_true]
    cases he : Ser.isEmptyTag t with
    | false => exact Or.inl (Or.inr rfl)
    | true =>
      rcases h3 with h3 | h3
      · rw [void_of_vocab hv he] at h3; cases h3
      · exact Or.inr (by simpa using h3)
  | _ => rw [htag] at h1; simp [nodeOk] at h1

/-- the top-level children keep tag, attributes and tail through the stack loop run with any fuels (`run_sig`) -/
theorem runLoop_sig_root {cfg : Cfg} {g2 g : Nat} {cs : List Node} {h : List Str} {r : Node} {t : St}
    (e : runLoop cfg g2 g (root cs) [[]] { html := h } = some (r, t)) (ht : ∀ c ∈ cs, Node.truthy c.tail = false) :
    r.children.map sig = cs.map sig := by
  obtain ⟨g', v, hv, D⟩ := runLoop_root (hdr := Node.el "div") (cs := cs) e
  obtain ⟨Dn, hD, hm⟩ := visitLoop_shape g' hv (by
    intro x hx
    have : x.1 ∈ (withIdx cs 0).map (·.1) := List.mem_map_of_mem hx
    rw [withIdx_map_fst] at this
    exact ht _ this)
  have hne : ∀ p ∈ v.pushes, p ≠ [] := by
    intro p hp
    have := visitLoop_pushes_hdLt hv p hp
    intro hnil; subst hnil; exact this
  have := (D.sig hne).2
  simp only [mk_children] at this
  rw [this, hD, List.append_nil, hm]
  have e2 : (withIdx cs 0).map (fun x => sig x.1) = ((withIdx cs 0).map (·.1)).map sig := by
    rw [List.map_map]; rfl
  rw [e2, withIdx_map_fst]

open Vocab2 in
/-- the top-level children of the result of the inline stage are `topChild`ren in both output formats -/
theorem topChild_of_runLoop_fmt {cfg : Cfg} (fmt : Ser.Fmt) {bl : List Str} {g2 g : Nat} {cs : List Node} {r : Node}
    {t : St} (e : runLoop cfg g2 g (root cs) [[]] { html := [] } = some (r, t))
    (h : ∀ c ∈ cs, blockChild bl c = true ∧ c.tail = none) (hdoc : DocOk (root cs) = true) :
    (∀ c ∈ r.children, topChild fmt bl c = true) ∧ r.children.length = cs.length := by
  have hs := runLoop_sig_root e (fun c hc => by rw [(h c hc).2]; rfl)
  have hok := runLoop_ok cfg g2 g _ _ _ _ _ e hdoc stashOk_nil
  simp only [DocOk, Bool.and_eq_true] at hok
  have hgood := (goodListT_iff _ _).1 hok.2
  refine ⟨fun c hc => ?_, by simpa using congrArg List.length hs⟩
  have : sig c ∈ cs.map sig := by rw [← hs]; exact List.mem_map_of_mem hc
  obtain ⟨c0, hc0, hsig⟩ := List.mem_map.1 this
  simp only [topChild, Bool.and_eq_true]
  exact ⟨by rw [blockChild_of_sig hsig.symm]; exact (h c0 hc0).1, voidOk_of_good fmt (hgood c hc)⟩

/-- the result of the stack loop on a `div` root is a `div` root -/
theorem runLoop_root_shape {cfg : Cfg} {g2 g : Nat} {cs : List Node} {h : List Str} {r : Node} {t : St}
    (e : runLoop cfg g2 g (root cs) [[]] { html := h } = some (r, t)) : r = root r.children := by
  obtain ⟨g', v, hv, D⟩ := runLoop_root (hdr := Node.el "div") (cs := cs) e
  have hne : ∀ p ∈ v.pushes, p ≠ [] := by
    intro p hp
    have := visitLoop_pushes_hdLt hv p hp
    intro hnil; subst hnil; exact this
  exact (D.sig hne).1

/-- the HTML stash is not touched (`run_html`, any fuels) -/
theorem runLoop_html {cfg : Cfg} (hesc : cfg.esc.contains Inline.STX = false) {g2 g : Nat} {cs : List Node}
    (hp : plainTreeLB okI cs = true) {h : List Str} {r : Node} {t : St}
    (e : runLoop cfg g2 g (root cs) [[]] { html := h } = some (r, t)) (hb : t.stash.length ≤ 10000) : t.html = h :=
  runs_html okD_okI cfg hesc (emSim okI) (runLoop_sound e) (plainTree_root hp) (StRel.none okI _ _) hb

/-! ### what a successful conversion says about the stages -/

theorem convert_ok_inv {pc : Pipeline.Cfg} {src out : Str} (h : Pipeline.convert pc src = .ok out)
    (hnb : Normalize.isBlankDoc src = false) :
    ∃ rt refs t st, parseDocument pc.tab (Pipeline.prepare pc src) = some (rt, refs) ∧
      Inline.run { esc := pc.esc, refs := refs.reverse } rt = some (t, st) := by
  unfold Pipeline.convert at h
  split at h
  · cases h
  · rw [hnb] at h
    simp only [Bool.false_eq_true, if_false] at h
    unfold Pipeline.tree at h
    cases hp : parseDocument pc.tab (Pipeline.prepare pc src) with
    | none => simp [hp] at h
    | some rr =>
      obtain ⟨rt, refs⟩ := rr
      cases hr : Inline.run { esc := pc.esc, refs := refs.reverse } rt with
      | none => simp [hp, hr] at h
      | some ts => obtain ⟨t, st⟩ := ts; exact ⟨rt, refs, t, st, rfl, hr⟩

/-! ### the composition -/

theorem escOK_no_stx {esc : List Char} (h : EscOK esc) : esc.contains Inline.STX = false := by
  cases hc : esc.contains Inline.STX with
  | false => rfl
  | true =>
    have hm : Inline.STX ∈ esc := by simpa using hc
    exact absurd rfl (h _ hm).1

open Vocab2 in
theorem docOk_block {tab : Nat} {T : Str} {rt : Node} {refs : Refs} (h : parseDocument tab T = some (rt, refs)) :
    DocOk rt = true := by
  rw [docOk_iff_vocabDoc]
  obtain ⟨htag, hinv⟩ := Block.parseDocument_ok h
  exact hinv.vocabDoc htag

/-! ### the block tree of `A` is not empty: from a visible character of the source -/

theorem plain_of_srcOk (tab : Nat) {A : Str} (hA : A.all srcOk = true) :
    Letters.plain (Normalize.normalize tab A) = true := by
  obtain ⟨-, hall⟩ := prepare_eq { tab := tab } hA
  rw [Letters.plain_iff]
  intro c hc
  have := hall c hc
  simp only [okI, Bool.not_eq_true', Bool.or_eq_false_iff, beq_eq_false_iff_ne, ne_eq] at this
  simp only [Letters.plainChar, Bool.and_eq_true, bne_iff_ne, ne_eq]
  exact ⟨⟨this.1.1.1.2, this.1.1.2⟩, this.1.2⟩


end MdVerif.C08Src
