/-
Helper lemmas for `Props/C18X.lean`, part 4: the stages of the extension pipeline `PipelineX.treeX` / `postX` as a FOLD
over the iteration order of the generated registries.  Core Lean only.

A. `originsOf x`: the origins (core + the enabled bundled extensions) of a flag set; `Dispatch.order` restricted to the
   registrations of one registry (`regsOf`, `orderOn`: the same value, cheaper to evaluate)
B. the named stages (`treeStage`, `postStage`), the fold (`runStages`, `runPost`), the pattern table read off the
   registry (`tableOf`)
C. the order of each registry for every flag set (2048 cases each, by kernel evaluation)
D. `treeX` and `postX` are the folds
-/
import MdVerif.Model.Dispatch
import MdVerif.Model.PipelineX

namespace MdVerif.StagesX
open Py Pipeline PipelineX Dispatch

/-! ### A. origins -/

/-- the origins whose registrations are in force with the extensions `x` loaded: the core and the module names of the
    enabled bundled extensions -/
def originsOf (x : Exts) : List String :=
  ["core"] ++ (if x.fencedCode then ["fenced_code"] else []) ++ (if x.tables then ["tables"] else []) ++
  (if x.admonition then ["admonition"] else []) ++ (if x.defList then ["def_list"] else []) ++
  (if x.abbr then ["abbr"] else []) ++ (if x.footnotes then ["footnotes"] else []) ++
  (if x.saneLists then ["sane_lists"] else []) ++ (if x.nl2br then ["nl2br"] else []) ++
  (if x.wikilinks then ["wikilinks"] else []) ++ (if x.attrList then ["attr_list"] else []) ++
  (if x.toc then ["toc"] else [])

/-- the registrations into one registry -/
def regsOf (reg : String) : List (String × String × String × Int × String) :=
  Generated.registrations.filter (fun r => r.2.1 == reg)

/-- `Dispatch.order` computed from a list of registrations of one registry -/
def orderOn (regs : List (String × String × String × Int × String)) (origins : List String) : List String :=
  (Registry.dump ((regs.filter (fun r => origins.contains r.1)).foldl
    (fun acc r => Registry.register acc r.2.2.1 r.2.2.1 r.2.2.2.1) Registry.empty)).map (·.1)

theorem order_eq (origins : List String) (reg : String) : order origins reg = orderOn (regsOf reg) origins := by
  unfold order build orderOn regsOf
  rw [List.filter_filter]

/-! ### B. the named stages -/

/-- what travels from one tree processor to the next: the tree, the log of the block parser (references, footnotes,
    abbreviations), `md.htmlStash` and the footnote reference bookkeeping -/
structure TS where
  root : Node
  log : Block.Refs
  html : List Str
  fn : Footnotes.State

inductive TR
  | ok (s : TS)
  | oof
  | err
  | ood

/-- the entry of `md.inlinePatterns` registered under a name -/
def patOf : String → Option InlineX.PatK
  | "backtick" => some (.core 0)
  | "escape" => some (.core 1)
  | "reference" => some (.core 2)
  | "link" => some (.core 3)
  | "image_link" => some (.core 4)
  | "image_reference" => some (.core 5)
  | "short_reference" => some (.core 6)
  | "short_image_ref" => some (.core 7)
  | "autolink" => some (.core 8)
  | "automail" => some (.core 9)
  | "linebreak" => some (.core 10)
  | "html" => some (.core 11)
  | "entity" => some (.core 12)
  | "not_strong" => some (.core 13)
  | "em_strong" => some (.core 14)
  | "em_strong2" => some (.core 15)
  | "footnote" => some .footnote
  | "wikilink" => some .wikilink
  | "nl" => some .nl
  | _ => none

/-- the pattern table read off the registry order -/
def tableOf (names : List String) : List InlineX.PatK := names.filterMap patOf

/-- the tree processor registered under `name`, as a function of the state (`x` only configures the processors:
    the parser the footnote processor calls, `ESCAPED_CHARS`, the postprocessors toc calls; it does not say which
    stages run) -/
def treeStage (x : Exts) (cfg : Cfg) (table : List InlineX.PatK) (name : String) (s : TS) : TR :=
  match name with
  | "footnote" =>
    match FootnotesTree.makeDiv (parseChunkX x cfg) fnCount (BlockExt.footnotesOf s.log) s.log with
    | .ok (some div, log') => .ok { s with root := FootnotesTree.placeDiv s.root div, log := log' }
    | .ok (none, log') => .ok { s with log := log' }
    | .oof => .oof
    | .ood => .ood
  | "inline" =>
    let xc : InlineX.XCfg :=
      { cfg := { esc := escX x cfg, refs := (refsX x s.log).reverse }
        table := table
        fnKeys := (BlockExt.footnotesOf s.log).map (·.1) }
    match InlineX.runX xc s.root s.html with
    | none => .oof
    | some (t, xs) => .ok { s with root := t, html := xs.st.html, fn := xs.fn }
  | "footnote-duplicate" =>
    match FootnotesTree.duplicates s.fn s.root with
    | none => .err
    | some t => .ok { s with root := t }
  | "prettify" => .ok { s with root := TreeProc.prettify s.root cfg.blockLevel }
  | "attr_list" => .ok { s with root := AttrListTree.run cfg.blockLevel s.root }
  | "abbr" => .ok { s with root := AbbrTree.run (BlockExt.abbrsOf s.log) s.root }
  | "toc" =>
    match TocTree.run { fmt := cfg.fmt, post := postX x cfg s.html } cfg.blockLevel s.root with
    | .ok t => .ok { s with root := t }
    | .oof => .oof
    | .err => .err
    | .ood => .ood
  | "unescape" =>
    match TreeProc.unescapeTree s.root with
    | none => .err
    | some u => .ok { s with root := u }
  | _ => .ood

def bindTR (r : TR) (f : TS → TR) : TR :=
  match r with
  | .ok s => f s
  | .oof => .oof
  | .err => .err
  | .ood => .ood

/-- `for treeprocessor in self.treeprocessors: root = treeprocessor.run(root) or root`: every stage in list order, each
    applied to the result of the previous one -/
def runStages (fs : List (TS → TR)) (r : TR) : TR := fs.foldl bindTR r

def toTreeResult : TR → TreeResult
  | .ok s => .ok s.root s.html
  | .oof => .oof
  | .err => .err
  | .ood => .ood

/-- the postprocessor registered under `name` (`none` = out of fuel / unknown name) -/
def postStage (cfg : Cfg) (stash : List Str) (name : String) (text : Str) : Option Str :=
  match name with
  | "raw_html" => Post.rawHtml cfg.blockLevel stash (Post.rawHtmlFuel stash) text
  | "footnote" => some (FootnotesTree.postprocess text)
  | "amp_substitute" => some (Post.ampSub text)
  | _ => none

/-- `for pp in self.postprocessors: output = pp.run(output)` -/
def runPost (fs : List (Str → Option Str)) (t : Option Str) : Option Str := fs.foldl Option.bind t

/-! ### C. the order of the registries, every flag set -/

/-- the tree processors that `treeX` applies, in the order in which it applies them -/
def treeNames (x : Exts) : List String :=
  (if x.footnotes then ["footnote"] else []) ++ ["inline"] ++ (if x.footnotes then ["footnote-duplicate"] else []) ++
  ["prettify"] ++ (if x.attrList then ["attr_list"] else []) ++ (if x.abbr then ["abbr"] else []) ++
  (if x.toc then ["toc"] else []) ++ ["unescape"]

/-- the postprocessors that `postX` applies, in order -/
def postNames (x : Exts) : List String :=
  ["raw_html"] ++ (if x.footnotes then ["footnote"] else []) ++ ["amp_substitute"]

/-- the preprocessors behind `prepareX`, in order -/
def preNames (x : Exts) : List String :=
  ["normalize_whitespace"] ++ (if x.fencedCode then ["fenced_code_block"] else []) ++ ["html_block"]

def treeRegs : List (String × String × String × Int × String) := [
  ("core", "treeprocessors", "inline", 20, "InlineProcessor(md)"),
  ("core", "treeprocessors", "prettify", 10, "PrettifyTreeprocessor(md)"),
  ("core", "treeprocessors", "unescape", 0, "UnescapeTreeprocessor(md)"),
  ("abbr", "treeprocessors", "abbr", 7, "AbbrTreeprocessor(md, self.abbrs)"),
  ("attr_list", "treeprocessors", "attr_list", 8, "AttrListTreeprocessor(md)"),
  ("codehilite", "treeprocessors", "hilite", 30, "hiliter"),
  ("footnotes", "treeprocessors", "footnote", 50, "FootnoteTreeprocessor(self)"),
  ("footnotes", "treeprocessors", "footnote-duplicate", 15, "FootnotePostTreeprocessor(self)"),
  ("legacy_attrs", "treeprocessors", "legacyattrs", 15, "LegacyAttrs(md)"),
  ("smarty", "treeprocessors", "smarty", 6, "inlineProcessor"),
  ("toc", "treeprocessors", "toc", 5, "tocext")]

def postRegs : List (String × String × String × Int × String) := [
  ("core", "postprocessors", "raw_html", 30, "RawHtmlPostprocessor(md)"),
  ("core", "postprocessors", "amp_substitute", 20, "AndSubstitutePostprocessor()"),
  ("footnotes", "postprocessors", "footnote", 25, "FootnotePostprocessor(self)"),
  ("md_in_html", "postprocessors", "raw_html", 30, "MarkdownInHTMLPostprocessor(md)")]

def preRegs : List (String × String × String × Int × String) := [
  ("core", "preprocessors", "normalize_whitespace", 30, "NormalizeWhitespace(md)"),
  ("core", "preprocessors", "html_block", 20, "HtmlBlockPreprocessor(md)"),
  ("fenced_code", "preprocessors", "fenced_code_block", 25, "FencedBlockPreprocessor(md, self.getConfigs())"),
  ("md_in_html", "preprocessors", "html_block", 20, "HtmlBlockPreprocessor(md)"),
  ("meta", "preprocessors", "meta", 27, "MetaPreprocessor(md)")]

def inlineRegs : List (String × String × String × Int × String) := [
  ("core", "inlinePatterns", "backtick", 190, "BacktickInlineProcessor(BACKTICK_RE)"),
  ("core", "inlinePatterns", "escape", 180, "EscapeInlineProcessor(ESCAPE_RE, md)"),
  ("core", "inlinePatterns", "reference", 170, "ReferenceInlineProcessor(REFERENCE_RE, md)"),
  ("core", "inlinePatterns", "link", 160, "LinkInlineProcessor(LINK_RE, md)"),
  ("core", "inlinePatterns", "image_link", 150, "ImageInlineProcessor(IMAGE_LINK_RE, md)"),
  ("core", "inlinePatterns", "image_reference", 140, "ImageReferenceInlineProcessor(IMAGE_REFERENCE_RE, md)"),
  ("core", "inlinePatterns", "short_reference", 130, "ShortReferenceInlineProcessor(REFERENCE_RE, md)"),
  ("core", "inlinePatterns", "short_image_ref", 125, "ShortImageReferenceInlineProcessor(IMAGE_REFERENCE_RE, md)"),
  ("core", "inlinePatterns", "autolink", 120, "AutolinkInlineProcessor(AUTOLINK_RE, md)"),
  ("core", "inlinePatterns", "automail", 110, "AutomailInlineProcessor(AUTOMAIL_RE, md)"),
  ("core", "inlinePatterns", "linebreak", 100, "SubstituteTagInlineProcessor(LINE_BREAK_RE, 'br')"),
  ("core", "inlinePatterns", "html", 90, "HtmlInlineProcessor(HTML_RE, md)"),
  ("core", "inlinePatterns", "entity", 80, "HtmlInlineProcessor(ENTITY_RE, md)"),
  ("core", "inlinePatterns", "not_strong", 70, "SimpleTextInlineProcessor(NOT_STRONG_RE)"),
  ("core", "inlinePatterns", "em_strong", 60, "AsteriskProcessor('\\\\*')"),
  ("core", "inlinePatterns", "em_strong2", 50, "UnderscoreProcessor('_')"),
  ("footnotes", "inlinePatterns", "footnote", 175, "FootnoteInlineProcessor(FOOTNOTE_RE, self)"),
  ("legacy_em", "inlinePatterns", "em_strong2", 50, "LegacyUnderscoreProcessor('_')"),
  ("nl2br", "inlinePatterns", "nl", 5, "br_tag"),
  ("smarty", "inlinePatterns", "smarty-em-dashes", 50, "emDashesPattern"),
  ("smarty", "inlinePatterns", "smarty-en-dashes", 45, "enDashesPattern"),
  ("smarty", "inlinePatterns", "smarty-ellipses", 10, "ellipsesPattern"),
  ("smarty", "inlinePatterns", "smarty-left-angle-quotes", 40, "leftAngledQuotePattern"),
  ("smarty", "inlinePatterns", "smarty-right-angle-quotes", 35, "rightAngledQuotePattern"),
  ("smarty", "inlinePatterns", "html", 90, "HtmlInlineProcessor(HTML_STRICT_RE, md)"),
  ("wikilinks", "inlinePatterns", "wikilink", 75, "wikilinkPattern")]

def blockRegs : List (String × String × String × Int × String) := [
  ("core", "blockprocessors", "empty", 100, "EmptyBlockProcessor(parser)"),
  ("core", "blockprocessors", "indent", 90, "ListIndentProcessor(parser)"),
  ("core", "blockprocessors", "code", 80, "CodeBlockProcessor(parser)"),
  ("core", "blockprocessors", "hashheader", 70, "HashHeaderProcessor(parser)"),
  ("core", "blockprocessors", "setextheader", 60, "SetextHeaderProcessor(parser)"),
  ("core", "blockprocessors", "hr", 50, "HRProcessor(parser)"),
  ("core", "blockprocessors", "olist", 40, "OListProcessor(parser)"),
  ("core", "blockprocessors", "ulist", 30, "UListProcessor(parser)"),
  ("core", "blockprocessors", "quote", 20, "BlockQuoteProcessor(parser)"),
  ("core", "blockprocessors", "reference", 15, "ReferenceProcessor(parser)"),
  ("core", "blockprocessors", "paragraph", 10, "ParagraphProcessor(parser)"),
  ("abbr", "blockprocessors", "abbr", 16, "AbbrBlockprocessor(md.parser, self.abbrs)"),
  ("admonition", "blockprocessors", "admonition", 105, "AdmonitionProcessor(md.parser)"),
  ("def_list", "blockprocessors", "defindent", 85, "DefListIndentProcessor(md.parser)"),
  ("def_list", "blockprocessors", "deflist", 25, "DefListProcessor(md.parser)"),
  ("footnotes", "blockprocessors", "footnote", 17, "FootnoteBlockProcessor(self)"),
  ("md_in_html", "blockprocessors", "markdown_block", 105, "MarkdownInHtmlProcessor(md.parser)"),
  ("sane_lists", "blockprocessors", "olist", 40, "SaneOListProcessor(md.parser)"),
  ("sane_lists", "blockprocessors", "ulist", 30, "SaneUListProcessor(md.parser)"),
  ("tables", "blockprocessors", "table", 75, "processor")]

/-- the block processors the dispatcher of `parseBlocksXT` asks, in order (the header of `Model/PipelineX.lean`) -/
def blockNames (x : Exts) : List String :=
  (if x.admonition then ["admonition"] else []) ++ ["empty", "indent"] ++
  (if x.defList then ["defindent"] else []) ++ ["code"] ++ (if x.tables then ["table"] else []) ++
  ["hashheader", "setextheader", "hr", "olist", "ulist"] ++ (if x.defList then ["deflist"] else []) ++ ["quote"] ++
  (if x.footnotes then ["footnote"] else []) ++ (if x.abbr then ["abbr"] else []) ++ ["reference", "paragraph"]

theorem regsOf_tree : regsOf "treeprocessors" = treeRegs := by decide +kernel
theorem regsOf_post : regsOf "postprocessors" = postRegs := by decide +kernel
theorem regsOf_pre : regsOf "preprocessors" = preRegs := by decide +kernel
theorem regsOf_inline : regsOf "inlinePatterns" = inlineRegs := by decide +kernel
theorem regsOf_block : regsOf "blockprocessors" = blockRegs := by decide +kernel

/-! #### which origins are in force -/

theorem has_core (x : Exts) : (originsOf x).contains "core" = true := by simp [originsOf]
theorem has_fenced (x : Exts) : (originsOf x).contains "fenced_code" = x.fencedCode := by simp [originsOf]
theorem has_tables (x : Exts) : (originsOf x).contains "tables" = x.tables := by simp [originsOf]
theorem has_adm (x : Exts) : (originsOf x).contains "admonition" = x.admonition := by simp [originsOf]
theorem has_deflist (x : Exts) : (originsOf x).contains "def_list" = x.defList := by simp [originsOf]
theorem has_abbr (x : Exts) : (originsOf x).contains "abbr" = x.abbr := by simp [originsOf]
theorem has_fn (x : Exts) : (originsOf x).contains "footnotes" = x.footnotes := by simp [originsOf]
theorem has_sane (x : Exts) : (originsOf x).contains "sane_lists" = x.saneLists := by simp [originsOf]
theorem has_nl2br (x : Exts) : (originsOf x).contains "nl2br" = x.nl2br := by simp [originsOf]
theorem has_wiki (x : Exts) : (originsOf x).contains "wikilinks" = x.wikilinks := by simp [originsOf]
theorem has_attr (x : Exts) : (originsOf x).contains "attr_list" = x.attrList := by simp [originsOf]
theorem has_toc (x : Exts) : (originsOf x).contains "toc" = x.toc := by simp [originsOf]
theorem no_codehilite (x : Exts) : (originsOf x).contains "codehilite" = false := by simp [originsOf]
theorem no_legacy_attrs (x : Exts) : (originsOf x).contains "legacy_attrs" = false := by simp [originsOf]
theorem no_legacy_em (x : Exts) : (originsOf x).contains "legacy_em" = false := by simp [originsOf]
theorem no_md_in_html (x : Exts) : (originsOf x).contains "md_in_html" = false := by simp [originsOf]
theorem no_meta (x : Exts) : (originsOf x).contains "meta" = false := by simp [originsOf]
theorem no_smarty (x : Exts) : (originsOf x).contains "smarty" = false := by simp [originsOf]

theorem orderOn_tree (x : Exts) : orderOn treeRegs (originsOf x) = treeNames x := by
  obtain ⟨a, b, c, d, e, f, g, h, i, j, k⟩ := x
  unfold orderOn treeRegs
  cases e <;> cases f <;> cases j <;> cases k <;>
    (simp only [List.filter_cons, List.filter_nil, has_core, has_abbr, has_attr, has_fn, has_toc, no_codehilite, no_legacy_attrs, no_smarty, ↓reduceIte,
      Bool.false_eq_true, treeNames]; decide)

theorem orderOn_post (x : Exts) : orderOn postRegs (originsOf x) = postNames x := by
  obtain ⟨a, b, c, d, e, f, g, h, i, j, k⟩ := x
  unfold orderOn postRegs
  cases f <;>
    (simp only [List.filter_cons, List.filter_nil, has_core, has_fn, no_md_in_html, ↓reduceIte,
      Bool.false_eq_true, postNames]; decide)

theorem orderOn_pre (x : Exts) : orderOn preRegs (originsOf x) = preNames x := by
  obtain ⟨a, b, c, d, e, f, g, h, i, j, k⟩ := x
  unfold orderOn preRegs
  cases a <;>
    (simp only [List.filter_cons, List.filter_nil, has_core, has_fenced, no_md_in_html, no_meta, ↓reduceIte,
      Bool.false_eq_true, preNames]; decide)

theorem orderOn_inline (x : Exts) :
    tableOf (orderOn inlineRegs (originsOf x)) = InlineX.table x.footnotes x.wikilinks x.nl2br := by
  obtain ⟨a, b, c, d, e, f, g, h, i, j, k⟩ := x
  unfold orderOn inlineRegs
  cases f <;> cases h <;> cases i <;>
    (simp only [List.filter_cons, List.filter_nil, has_core, has_fn, has_nl2br, has_wiki, no_legacy_em, no_smarty, ↓reduceIte,
      Bool.false_eq_true]; decide)

theorem orderOn_block (x : Exts) : orderOn blockRegs (originsOf x) = blockNames x := by
  obtain ⟨a, b, c, d, e, f, g, h, i, j, k⟩ := x
  unfold orderOn blockRegs
  cases b <;> cases c <;> cases d <;> cases e <;> cases f <;> cases g <;>
    (simp only [List.filter_cons, List.filter_nil, has_core, has_abbr, has_adm, has_deflist, has_fn, has_sane, has_tables, no_md_in_html, ↓reduceIte,
      Bool.false_eq_true, blockNames]; decide)

theorem order_tree (x : Exts) : order (originsOf x) "treeprocessors" = treeNames x := by
  rw [order_eq, regsOf_tree, orderOn_tree]

theorem order_post (x : Exts) : order (originsOf x) "postprocessors" = postNames x := by
  rw [order_eq, regsOf_post, orderOn_post]

theorem order_pre (x : Exts) : order (originsOf x) "preprocessors" = preNames x := by
  rw [order_eq, regsOf_pre, orderOn_pre]

theorem order_block (x : Exts) : order (originsOf x) "blockprocessors" = blockNames x := by
  rw [order_eq, regsOf_block, orderOn_block]

theorem order_inline (x : Exts) :
    tableOf (order (originsOf x) "inlinePatterns") = InlineX.table x.footnotes x.wikilinks x.nl2br := by
  rw [order_eq, regsOf_inline, orderOn_inline]


/-! #### the priorities along the order -/

/-- names and priorities in iteration order -/
def prios (origins : List String) (reg : String) : List (String × Int) :=
  (Registry.dump (build origins reg)).map (fun e => (e.1, e.2.1))

def priosOn (regs : List (String × String × String × Int × String)) (origins : List String) : List (String × Int) :=
  (Registry.dump ((regs.filter (fun r => origins.contains r.1)).foldl
    (fun acc r => Registry.register acc r.2.2.1 r.2.2.1 r.2.2.2.1) Registry.empty)).map (fun e => (e.1, e.2.1))

theorem prios_eq (origins : List String) (reg : String) : prios origins reg = priosOn (regsOf reg) origins := by
  unfold prios build priosOn regsOf
  rw [List.filter_filter]

theorem order_eq_prios (origins : List String) (reg : String) : order origins reg = (prios origins reg).map (·.1) := by
  unfold order prios
  rw [List.map_map]
  rfl

def treePrios (x : Exts) : List (String × Int) :=
  (if x.footnotes then [("footnote", 50)] else []) ++ [("inline", 20)] ++
  (if x.footnotes then [("footnote-duplicate", 15)] else []) ++ [("prettify", 10)] ++
  (if x.attrList then [("attr_list", 8)] else []) ++ (if x.abbr then [("abbr", 7)] else []) ++
  (if x.toc then [("toc", 5)] else []) ++ [("unescape", 0)]

def postPrios (x : Exts) : List (String × Int) :=
  [("raw_html", 30)] ++ (if x.footnotes then [("footnote", 25)] else []) ++ [("amp_substitute", 20)]

theorem priosOn_tree (x : Exts) : priosOn treeRegs (originsOf x) = treePrios x := by
  obtain ⟨a, b, c, d, e, f, g, h, i, j, k⟩ := x
  unfold priosOn treeRegs
  cases e <;> cases f <;> cases j <;> cases k <;>
    (simp only [List.filter_cons, List.filter_nil, has_core, has_abbr, has_attr, has_fn, has_toc, no_codehilite,
      no_legacy_attrs, no_smarty, ↓reduceIte, Bool.false_eq_true, treePrios]; decide)

theorem priosOn_post (x : Exts) : priosOn postRegs (originsOf x) = postPrios x := by
  obtain ⟨a, b, c, d, e, f, g, h, i, j, k⟩ := x
  unfold priosOn postRegs
  cases f <;>
    (simp only [List.filter_cons, List.filter_nil, has_core, has_fn, no_md_in_html, ↓reduceIte,
      Bool.false_eq_true, postPrios]; decide)

theorem prios_tree (x : Exts) : prios (originsOf x) "treeprocessors" = treePrios x := by
  rw [prios_eq, regsOf_tree, priosOn_tree]

theorem prios_post (x : Exts) : prios (originsOf x) "postprocessors" = postPrios x := by
  rw [prios_eq, regsOf_post, priosOn_post]

theorem treePrios_desc (x : Exts) : List.Pairwise (fun p q : String × Int => p.2 > q.2) (treePrios x) := by
  obtain ⟨a, b, c, d, e, f, g, h, i, j, k⟩ := x
  cases e <;> cases f <;> cases j <;> cases k <;> simp only [treePrios, ↓reduceIte, Bool.false_eq_true] <;> decide

theorem postPrios_desc (x : Exts) : List.Pairwise (fun p q : String × Int => p.2 > q.2) (postPrios x) := by
  obtain ⟨a, b, c, d, e, f, g, h, i, j, k⟩ := x
  cases f <;> simp only [postPrios, ↓reduceIte, Bool.false_eq_true] <;> decide

theorem treePrios_names (x : Exts) : (treePrios x).map (·.1) = treeNames x := by
  obtain ⟨a, b, c, d, e, f, g, h, i, j, k⟩ := x
  cases e <;> cases f <;> cases j <;> cases k <;> rfl

theorem postPrios_names (x : Exts) : (postPrios x).map (·.1) = postNames x := by
  obtain ⟨a, b, c, d, e, f, g, h, i, j, k⟩ := x
  cases f <;> rfl

/-! ### D. `treeX` and `postX` are the folds -/

theorem postX_eq_stages (x : Exts) (cfg : Cfg) (stash : List Str) (text : Str) :
    postX x cfg stash text =
      runPost ((order (originsOf x) "postprocessors").map (postStage cfg stash)) (some text) := by
  rw [order_post]
  unfold postX postNames runPost
  cases x.footnotes <;>
    simp only [Bool.false_eq_true, if_false, if_true, List.nil_append, List.cons_append, List.map_cons, List.map_nil,
      List.foldl_cons, List.foldl_nil, postStage, Option.bind_some] <;>
    cases Post.rawHtml cfg.blockLevel stash (Post.rawHtmlFuel stash) text <;> rfl

theorem treeX_eq_stages (x : Exts) (cfg : Cfg) (src : Str) :
    treeX x cfg src =
      match prepareX x cfg src with
      | .oof => .oof
      | .ood => .ood
      | .ok (text, stash) =>
        match BlockExt.parseDocumentXT x.tables x.blockCfg cfg.tab text with
        | none => .oof
        | some (root, log) =>
          toTreeResult (runStages ((order (originsOf x) "treeprocessors").map
            (treeStage x cfg (tableOf (order (originsOf x) "inlinePatterns"))))
            (.ok ⟨root, log, stash, Footnotes.State.empty⟩)) := by
  rw [order_tree, order_inline]
  unfold treeX
  cases prepareX x cfg src with
  | oof => rfl
  | ood => rfl
  | ok ts =>
    obtain ⟨text, stash⟩ := ts
    simp only
    cases BlockExt.parseDocumentXT x.tables x.blockCfg cfg.tab text with
    | none => rfl
    | some rl =>
      obtain ⟨root, log⟩ := rl
      simp only
      cases hf : x.footnotes <;> cases hj : x.attrList <;> cases he : x.abbr <;> cases hk : x.toc <;>
        simp only [treeNames, hf, hj, he, hk, Bool.false_eq_true, if_false, if_true, List.nil_append, List.cons_append,
          List.map_cons, List.map_nil, runStages, List.foldl_cons, List.foldl_nil, bindTR, treeStage]
      all_goals try (
        generalize FootnotesTree.makeDiv (parseChunkX x cfg) fnCount (BlockExt.footnotesOf log) log = md
        rcases md with ⟨⟨_ | div, log'⟩⟩ | _ | _ <;> simp only [])
      all_goals (repeat' (first | rfl | (split <;> try simp only [*, toTreeResult])))

end MdVerif.StagesX
