/-
Helper lemmas for `Props/C17Src.lean`, part 4: the observations of the output that was read back, and the list facts
behind the C17 clauses (the `sup` ids are those of the specification list `refsFrom` of `Spec/Footnotes.lean`; the
back-link targets of a footnote referenced `k ≥ 1` times are the ids of its `k` references, in order).

Core Lean only.
-/
import MdVerif.Lemmas.C17SrcObs

namespace MdVerif.C17Src
open Py Ser MdVerif.RenderX MdVerif.RenderG MdVerif.Footnotes
open MdVerif.Footnotes.Spec (refName refsFrom supsOf)

/-- **the observations of the output that was read back** -/
theorem obs_of_read (fmt : Fmt) (t : Str) (segs defs : List (Str × Str)) (ht : PlainFacts t) (hs : SegsOK segs)
    (hd : DefsOK defs) (F : List RNode) (hF : readForest fmt (fnRender fmt t segs defs) = some F) :
    refHrefs F = segs.map (fun s => some ('#' :: Footnotes.footnoteId s.1)) ∧
    backrefHrefs F = defs.flatMap (fun d => (backHrefs d.1 (refCount segs d.1)).map some) ∧
    supLinks F = (supPairs segs []).map (fun p => (some p.1, [some p.2])) ∧
    liBacks F = defs.map (fun d => (some (Footnotes.footnoteId d.1), (backHrefs d.1 (refCount segs d.1)).map some)) ∧
    allIds F = (supPairs segs []).map (·.1) ++ defs.map (fun d => Footnotes.footnoteId d.1) := by
  obtain ⟨F', h1, h2⟩ := read_fnRender fmt t segs defs ht hs hd
  rw [h1] at hF
  cases hF
  unfold refHrefs backrefHrefs supLinks liBacks allIds
  rw [h2]
  exact ⟨ref_outEls segs defs hs, back_outEls segs defs hd, sup_outEls segs defs hs, li_outEls segs defs hd,
    ids_outEls segs defs hs hd⟩

/-! ### the references: `supPairs` is the specification list -/

theorem supPairs_refsFrom (keys : List Str) : ∀ (segs : List (Str × Str)) (hist : List Str),
    (∀ s ∈ segs, s.1 ∈ keys) → supPairs segs hist = refsFrom keys hist (segs.map (·.1)) := by
  intro segs
  induction segs with
  | nil => intro _ _; rfl
  | cons s r ih =>
    intro hist h
    have hs : s.1 ∈ keys := h s List.mem_cons_self
    simp only [supPairs, List.map_cons, refsFrom, if_pos hs, ih _ (fun x hx => h x (List.mem_cons_of_mem _ hx))]

theorem refsFrom_mem (defs : List Str) : ∀ (us hist : List Str), ∀ p ∈ refsFrom defs hist us,
    ∃ u ∈ us, ∃ n, p = (refName u n, '#' :: footnoteId u) := by
  intro us
  induction us with
  | nil => intro hist p hp; simp [refsFrom] at hp
  | cons u us ih =>
    intro hist p hp
    by_cases hu : u ∈ defs
    · simp only [refsFrom, if_pos hu, List.mem_cons] at hp
      rcases hp with rfl | hp
      · exact ⟨u, List.mem_cons_self, _, rfl⟩
      · obtain ⟨v, hv, n, e⟩ := ih _ p hp
        exact ⟨v, List.mem_cons_of_mem _ hv, n, e⟩
    · simp only [refsFrom, if_neg hu] at hp
      obtain ⟨v, hv, n, e⟩ := ih _ p hp
      exact ⟨v, List.mem_cons_of_mem _ hv, n, e⟩

/-! ### the back-link targets -/

theorem backHrefs_tail (id : Str) : ∀ (m s : Nat),
    (List.range' (s + 2) m).map (fun i => ('#' :: Footnotes.fnref) ++ natToDec i ++ ':' :: id) =
      (List.range' (s + 1) m).map (fun j => '#' :: refName id j) := by
  intro m
  induction m with
  | zero => intro s; rfl
  | succ m ih =>
    intro s
    rw [List.range'_succ, List.range'_succ, List.map_cons, List.map_cons, ih (s + 1)]
    simp [refName]

/-- the targets of the back-links of a footnote referenced `c` times: `#` + the ids of its references number
    `0 … max c 1 - 1` -/
theorem backHrefs_eq (id : Str) (c : Nat) :
    backHrefs id c = (List.range' 0 (max c 1)).map (fun j => '#' :: refName id j) := by
  have hm : max c 1 = (c - 1) + 1 := by omega
  rw [hm, List.range'_succ, List.map_cons]
  unfold backHrefs
  rw [backHrefs_tail id (c - 1) 0]
  rfl

theorem backHrefs_pos (keys uses : List Str) (id : Str) (hid : id ∈ keys) (hk : 1 ≤ uses.count id) :
    backHrefs id (uses.count id) = (supsOf id (refsFrom keys [] uses)).map ('#' :: ·) := by
  rw [backHrefs_eq, Footnotes.refsFrom_supsOf keys [] uses id hid, show max (uses.count id) 1 = uses.count id by omega]
  simp

theorem backHrefs_zero (id : Str) : backHrefs id 0 = ['#' :: refName id 0] := by
  rw [backHrefs_eq]; rfl

/-! ### ids -/

theorem refName_ne_footnoteId (u : Str) (n : Nat) (d : Str) : refName u n ≠ Footnotes.footnoteId d := by
  cases n <;> simp [refName, Footnotes.fnref, Footnotes.footnoteId]

theorem footnoteId_inj {a b : Str} (h : Footnotes.footnoteId a = Footnotes.footnoteId b) : a = b := by
  simpa [Footnotes.footnoteId] using h

theorem nodup_map_some {α} {l : List α} (h : l.Nodup) : (l.map some).Nodup := by
  induction l with
  | nil => simp
  | cons a r ih =>
    rw [List.nodup_cons] at h
    simp only [List.map_cons, List.nodup_cons, List.mem_map, Option.some.injEq, exists_eq_right]
    exact ⟨h.1, ih h.2⟩

theorem nodup_map_of_inj {α β} (f : α → β) (hf : ∀ a b, f a = f b → a = b) {l : List α} (h : l.Nodup) :
    (l.map f).Nodup := by
  induction l with
  | nil => simp
  | cons a r ih =>
    rw [List.nodup_cons] at h
    simp only [List.map_cons, List.nodup_cons, List.mem_map, not_exists, not_and]
    exact ⟨fun x hx e => h.1 (hf _ _ e ▸ hx), ih h.2⟩

theorem nodup_of_map {α β} (f : α → β) {l : List α} (h : (l.map f).Nodup) : l.Nodup := by
  induction l with
  | nil => simp
  | cons a r ih =>
    rw [List.map_cons, List.nodup_cons] at h
    rw [List.nodup_cons]
    exact ⟨fun hm => h.1 (List.mem_map.2 ⟨a, hm, rfl⟩), ih h.2⟩

/-- the ids of the `sup`s whose link is `#fn:ID`, on the list of pairs -/
theorem supsTo_pairs (R : List (Str × Str)) (id : Str) :
    ((R.map (fun p => ((some p.1 : Option Str), [(some p.2 : Option Str)]))).filter
        (fun p => p.2 = [some ('#' :: Footnotes.footnoteId id)])).map (·.1) = (supsOf id R).map some := by
  unfold supsOf
  induction R with
  | nil => rfl
  | cons p r ih =>
    simp only [List.map_cons, List.filter_cons]
    by_cases h : p.2 = '#' :: Footnotes.footnoteId id
    · simp [h, ih]
    · have : ¬ ([some p.2] = [some ('#' :: Footnotes.footnoteId id)]) := by simpa using h
      simp only [this, h, decide_false, Bool.false_eq_true, if_false]
      exact ih

end MdVerif.C17Src
