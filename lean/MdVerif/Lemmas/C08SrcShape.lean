/-
Helper lemmas for `Props/C08Src.lean`: the shape of the code blocks at the top level of a block tree.

`preOk x`: if `x` is a `pre`, it has no (truthy) text and its first child is a childless `code` without tail whose
text is an `AtomicString` (`CodeOk`) — what `CodeBlockProcessor` builds and `EmptyBlockProcessor` / `CodeBlockProcessor`
extend.  `parseDocument_shape`: every top-level child of a block tree is `preOk`.  The induction is the one of
`parseBlocks_top` in `Lemmas/C08Compose.lean` (children of a parent that is not a list, outside the tight-list state).
Core Lean only.
-/
import MdVerif.Lemmas.BlockLocal
import MdVerif.Lemmas.BlockConserve

namespace MdVerif.C08Src
open Py Block Block.Local Letters

/-- the `code` of a code block -/
def CodeOk (code : Node) : Prop :=
  code.children = [] ∧ Node.truthy code.tail = false ∧ code.text.isSome = true ∧ code.textAtomic = true

/-- a `pre` is a code block as the block parser builds it -/
def preOk (x : Node) : Prop :=
  x.isTag "pre" = true → Node.truthy x.text = false ∧ ∃ code tl, x.children = code :: tl ∧ CodeOk code

def ShapeOK (p : Node) : Prop := ∀ c ∈ p.children, preOk c

theorem preOk_of_not_pre {c : Node} (h : c.isTag "pre" = false) : preOk c := fun h' => by rw [h] at h'; cases h'

theorem isTag_of_shell {c c' : Node} (h : shell c' = shell c) (t : String) : c'.isTag t = c.isTag t := by
  have h1 : c'.tag = c.tag := congrArg (fun n => n.tag) h
  simp only [Node.isTag, h1]

theorem preOk_of_shell {c c' : Node} (h : shell c' = shell c) (hn : c.isTag "pre" = false) : preOk c' :=
  preOk_of_not_pre (by rw [isTag_of_shell h]; exact hn)

theorem ShapeOK.append {p : Node} (hp : ShapeOK p) {c : Node} (hc : preOk c) : ShapeOK (p.append c) := by
  intro d hd
  simp only [Node.append, List.mem_append, List.mem_singleton] at hd
  rcases hd with hd | rfl
  · exact hp d hd
  · exact hc

theorem ShapeOK.setLast {p : Node} (hp : ShapeOK p) {c : Node} (hc : preOk c) : ShapeOK (p.setLast c) := by
  intro d hd
  simp only [Node.setLast, List.mem_append, List.mem_singleton] at hd
  rcases hd with hd | rfl
  · exact hp d (List.dropLast_subset _ hd)
  · exact hc

theorem mem_of_last?' {p sib : Node} (h : p.last? = some sib) : sib ∈ p.children := List.mem_of_getLast? h

theorem ShapeOK.setLast_shell {p sib c : Node} (hp : ShapeOK p) (_hl : p.last? = some sib) (h : shell c = shell sib)
    (hn : sib.isTag "pre" = false) : ShapeOK (p.setLast c) :=
  hp.setLast (preOk_of_shell h hn)

theorem preCode_inv {sib code : Node} (h : preCode sib = some code) :
    sib.isTag "pre" = true ∧ code.isTag "code" = true ∧ ∃ tl, sib.children = code :: tl := by
  simp only [preCode] at h
  split at h
  · next hs =>
    split at h
    · next c tl hch =>
      split at h
      · next hc => cases h; exact ⟨hs, hc, tl, hch⟩
      · cases h
    · cases h
  · cases h

theorem setCodeText_shape {p sib code : Node} {t : Str} (hp : ShapeOK p) (hl : p.last? = some sib)
    (hc : preCode sib = some code) : ShapeOK (setCodeText p sib code t) := by
  refine hp.setLast ?_
  obtain ⟨hpre, -, tl, hch⟩ := preCode_inv hc
  obtain ⟨h1, code0, tl0, hch0, hk, htl, -, -⟩ := hp sib (mem_of_last?' hl) hpre
  rw [hch] at hch0
  simp only [List.cons.injEq] at hch0
  obtain ⟨rfl, rfl⟩ := hch0
  intro _
  refine ⟨h1, { code with text := some t, textAtomic := true }, tl, by simp [hch], hk, htl, rfl, rfl⟩

theorem emptyP_shape {refs p b rest} (hp : ShapeOK p) : ShapeOK (emptyP refs p b rest).1 := by
  simp only [emptyP]
  split
  · rename_i sib hl
    split
    · rename_i code hc; exact setCodeText_shape hp hl hc
    · exact hp
  · exact hp

theorem preOk_fresh (x : Str) :
    preOk { Node.el "pre" with children := [{ Node.el "code" with text := some x, textAtomic := true }] } := by
  intro _
  exact ⟨rfl, _, [], rfl, rfl, rfl, rfl, rfl⟩

theorem codeP_shape {tab refs p b rest} (hp : ShapeOK p) : ShapeOK (codeP tab refs p b rest).1 := by
  simp only [codeP]
  split
  · rename_i sib hl
    split
    · rename_i code hc; exact setCodeText_shape hp hl hc
    · exact hp.append (preOk_fresh _)
  · exact hp.append (preOk_fresh _)

theorem preOk_hTag (lv : Nat) (t : Option Str) : preOk { hTag lv with text := t } :=
  preOk_of_not_pre (by simp [Node.isTag, hTag])

/-- `pb` keeps the children of a non-list parent `preOk`, outside the tight-list state -/
def PBShape (pb : PB) : Prop :=
  ∀ st refs p bs q r, pb st refs p bs = some (q, r) → isstate st .list = false → isListTag p = false →
    ShapeOK p → ShapeOK q

theorem setextP_shape {refs p b rest} (hp : ShapeOK p) : ShapeOK (setextP refs p b rest).1 := by
  simp only [setextP]
  split
  · exact hp.append (preOk_hTag _ _)
  · exact hp.append (preOk_hTag _ _)

theorem paraP_shape {st refs p b rest} (hs : isstate st .list = false) (hp : ShapeOK p) :
    ShapeOK (paraP st refs p b rest).1 := by
  simp only [paraP, hs]
  split
  · exact hp
  · exact hp.append (preOk_of_not_pre (by simp [Node.isTag, mkText, Node.el]))

theorem referenceP_shape {refs p b rest m} (hp : ShapeOK p) : ShapeOK (referenceP refs p b rest m).1 := by
  obtain ⟨s, e, i, l, t5, t6⟩ := m
  exact hp

theorem hashP_shape {pb : PB} (h : PBShape pb) {tab st refs p b rest m q r bs}
    (hs : isstate st .list = false) (hl : isListTag p = false) (hp : ShapeOK p)
    (hr : hashP tab pb st refs p b rest m = some (q, r, bs)) : ShapeOK q := by
  obtain ⟨s, e, lv, hd⟩ := m
  simp only [hashP] at hr
  split at hr
  · simp at hr
  · rename_i p1 r1 h1
    simp only [Option.some.injEq, Prod.mk.injEq] at hr
    obtain ⟨rfl, -, -⟩ := hr
    refine ShapeOK.append ?_ (preOk_hTag _ _)
    split at h1
    · simp only [Option.some.injEq, Prod.mk.injEq] at h1; rw [← h1.1]; exact hp
    · exact h _ _ _ _ _ _ h1 hs hl hp

theorem hrP_shape {pb : PB} (h : PBShape pb) {st refs p b rest m q r bs} (hs : isstate st .list = false)
    (hl : isListTag p = false) (hp : ShapeOK p) (hr : hrP pb st refs p b rest m = some (q, r, bs)) : ShapeOK q := by
  obtain ⟨s, e⟩ := m
  simp only [hrP] at hr
  split at hr
  · simp at hr
  · rename_i p1 r1 h1
    simp only [Option.some.injEq, Prod.mk.injEq] at hr
    obtain ⟨rfl, -, -⟩ := hr
    refine ShapeOK.append ?_ (preOk_of_not_pre (by decide))
    split at h1
    · simp only [Option.some.injEq, Prod.mk.injEq] at h1; rw [← h1.1]; exact hp
    · exact h _ _ _ _ _ _ h1 hs hl hp

theorem sibList_inv {p lst : Node}
    (h : (match p.last? with | some sib => if isListTag sib then some sib else none | none => none) = some lst) :
    p.last? = some lst ∧ isListTag lst = true := by
  split at h
  · split at h
    · rename_i hl hc; cases h; exact ⟨hl, hc⟩
    · cases h
  · cases h

theorem listP_shape {pb : PB} {tab st refs p b rest tag q r bs} (ht : (Node.el tag).isTag "pre" = false)
    (hl : isListTag p = false) (hp : ShapeOK p) (hr : listP tab pb st refs p b rest tag = some (q, r, bs)) :
    ShapeOK q := by
  simp only [listP] at hr
  split at hr
  · rename_i lst hlst
    obtain ⟨hlast, hlist⟩ := sibList_inv hlst
    split at hr
    · simp at hr
    · split at hr
      · rename_i lst' r' hli
        simp only [Option.some.injEq, Prod.mk.injEq] at hr
        rw [← hr.1]
        refine hp.setLast_shell hlast ?_ (not_pre_of_list hlist)
        have g := (listItems_good hli).2 rfl
        rw [g]
        simp only [shell, Node.append]
        split <;> simp [Node.setLast]
      · simp at hr
  · simp only [hl, Bool.false_eq_true, if_false] at hr
    split at hr
    · rename_i lst' r' hli
      simp only [Option.some.injEq, Prod.mk.injEq] at hr
      rw [← hr.1]
      exact hp.append (preOk_of_shell ((listItems_good hli).2 rfl) ht)
    · simp at hr

theorem sibQuote_inv {p sib : Node}
    (h : (match p.last? with | some sib => if sib.isTag "blockquote" then some sib else none | none => none) = some sib) :
    p.last? = some sib ∧ sib.isTag "blockquote" = true := by
  split at h
  · split at h
    · rename_i hl hc; cases h; exact ⟨hl, hc⟩
    · cases h
  · cases h

theorem quoteP_shape {pb : PB} (h : PBShape pb) (hg : PBGood pb) {st refs p b rest n q r bs}
    (hs : isstate st .list = false) (hl : isListTag p = false) (hp : ShapeOK p)
    (hr : quoteP pb st refs p b rest n = some (q, r, bs)) : ShapeOK q := by
  simp only [quoteP, parseChunk] at hr
  split at hr
  · simp at hr
  · rename_i p1 r1 h1
    have hp1 : ShapeOK p1 := h _ _ _ _ _ _ h1 hs hl hp
    have hq2 : isstate (st ++ [BState.blockquote]) .list = false := isstate_snoc_ne _ _ _ (by decide)
    split at hr
    · rename_i sib hsib
      obtain ⟨hlast, hquote⟩ := sibQuote_inv hsib
      split at hr
      · rename_i quote r2 hq
        simp only [Option.some.injEq, Prod.mk.injEq] at hr
        rw [← hr.1]
        exact hp1.setLast_shell hlast ((hg _ _ _ _ _ _ hq).2 hq2) (not_pre_of_quote hquote)
      · simp at hr
    · split at hr
      · rename_i quote r2 hq
        simp only [Option.some.injEq, Prod.mk.injEq] at hr
        rw [← hr.1]
        exact hp1.append (preOk_of_shell ((hg _ _ _ _ _ _ hq).2 hq2) (by decide))
      · simp at hr

theorem sibItem_inv {p c : Node}
    (h : (match p.last? with | some c => if isItemTag c then some c else none | none => none) = some c) :
    p.last? = some c ∧ isItemTag c = true := by
  split at h
  · split at h
    · rename_i hl hc; cases h; exact ⟨hl, hc⟩
    · cases h
  · cases h

theorem isItemTag_textToP (li : Node) : isItemTag (textToP li) = isItemTag li := by
  simp only [textToP]
  split <;> rfl

/-- `updPath` below the top keeps the children of the top `preOk` -/
theorem updPath_shape {p : Node} (hp : ShapeOK p) {f : Node → Node} (k : Nat)
    (hn : ∀ c, p.last? = some c → c.isTag "pre" = false)
    (h0 : ∀ c, p.last? = some c → k = 0 → Good [] c (f c)) : ShapeOK (updPath f (k + 1) p) := by
  simp only [updPath]
  split
  · rename_i c hl
    exact hp.setLast_shell hl ((updPath_good k (h0 c hl)).2 rfl) (hn c hl)
  · exact hp

theorem indentP_shape {pb : PB} (h : PBShape pb) (hg : PBGood pb) {tab st refs p b rest q r bs}
    (hl : isListTag p = false) (hp : ShapeOK p)
    (hr : indentP tab pb st refs p b rest = some (q, r, bs)) : ShapeOK q := by
  have hq2 : isstate (st ++ [BState.detabbed]) .list = false := isstate_snoc_ne _ _ _ (by decide)
  simp only [indentP, parseChunk] at hr
  generalize hlv : getLevel tab st p b = lv at hr
  obtain ⟨level, steps⟩ := lv
  -- the last child on the way down is a list or an item
  have hpath : ∀ k, steps = k + 1 → ∀ c, p.last? = some c → c.isTag "pre" = false := by
    intro k hk c hc
    subst hk
    simp only [getLevel] at hlv
    obtain ⟨c', hc', hlist, -⟩ := getLevelNode_path (k + 1) hlv
    rw [hc] at hc'; cases hc'
    exact not_pre_of_path hlist
  dsimp only at hr
  split at hr
  · split at hr
    · rename_i c hc
      obtain ⟨hlast, hlist⟩ := sibList_inv hc
      split at hr
      · rename_i sub r2 hq
        simp only [Option.some.injEq, Prod.mk.injEq] at hr
        rw [← hr.1]
        exact hp.setLast_shell hlast ((hg _ _ _ _ _ _ hq).2 hq2) (not_pre_of_list hlist)
      · simp at hr
    · split at hr
      · rename_i p' r2 hq
        simp only [Option.some.injEq, Prod.mk.injEq] at hr
        rw [← hr.1]
        exact h _ _ _ _ _ _ hq hq2 hl hp
      · simp at hr
  · split at hr
    · -- the sibling is an item
      split at hr
      · rename_i sub r2 hq
        simp only [Option.some.injEq, Prod.mk.injEq] at hr
        rw [← hr.1]
        cases steps with
        | zero => exact h _ _ _ _ _ _ hq hq2 hl hp
        | succ k =>
          refine updPath_shape hp k (hpath k rfl) (fun c hc hk => ?_)
          subst hk
          simp only [nodeAt, hc] at hq
          exact Good.weaken hq2 (hg _ _ _ _ _ _ hq)
      · simp at hr
    · split at hr
      · rename_i li hli
        split at hr
        · rename_i li' r2 hq
          simp only [Option.some.injEq, Prod.mk.injEq] at hr
          rw [← hr.1]
          cases steps with
          | zero =>
            simp only [nodeAt] at hli
            simp only [updPath]
            obtain ⟨-, hitem⟩ := sibItem_inv hli
            refine hp.setLast (preOk_of_shell ((hg _ _ _ _ _ _ hq).2 hq2) ?_)
            exact not_pre_of_item (by rw [isItemTag_textToP]; exact hitem)
          | succ k => exact updPath_shape hp k (hpath k rfl) (fun c _ _ => Good.setLast (Good.refl ..) _)
        · simp at hr
      · split at hr
        · rename_i li' r2 hq
          simp only [Option.some.injEq, Prod.mk.injEq] at hr
          rw [← hr.1]
          cases steps with
          | zero =>
            simp only [updPath]
            exact hp.append (preOk_of_shell ((hg _ _ _ _ _ _ hq).2 hq2) (by decide))
          | succ k => exact updPath_shape hp k (hpath k rfl) (fun c _ _ => Good.append (Good.refl ..) _)
        · simp at hr

theorem dispatch_shape {pb : PB} (h : PBShape pb) (hg : PBGood pb) {tab st refs p b rest q r bs}
    (hs : isstate st .list = false) (hl : isListTag p = false) (hp : ShapeOK p)
    (hr : dispatch tab pb st refs p b rest = some (q, r, bs)) : ShapeOK q := by
  rw [Local.dispatch_eq] at hr
  cases hc : choose tab st p b <;> rw [hc] at hr <;> simp only [runChoice] at hr
  · have := emptyP_shape (refs := refs) (b := b) (rest := rest) hp
    simp only [Option.some.injEq] at hr; rwa [hr] at this
  · exact indentP_shape h hg hl hp hr
  · have := codeP_shape (tab := tab) (refs := refs) (b := b) (rest := rest) hp
    simp only [Option.some.injEq] at hr; rwa [hr] at this
  · exact hashP_shape h hs hl hp hr
  · have := setextP_shape (refs := refs) (b := b) (rest := rest) hp
    simp only [Option.some.injEq] at hr; rwa [hr] at this
  · exact hrP_shape h hs hl hp hr
  · exact listP_shape (by decide) hl hp hr
  · exact listP_shape (by decide) hl hp hr
  · exact quoteP_shape h hg hs hl hp hr
  · rename_i m
    have := referenceP_shape (refs := refs) (b := b) (rest := rest) (m := m) hp
    simp only [Option.some.injEq] at hr; rwa [hr] at this
  · have := paraP_shape (refs := refs) (b := b) (rest := rest) hs hp
    simp only [Option.some.injEq] at hr; rwa [hr] at this

theorem isListTag_of_shell' {p q : Node} (h : shell q = shell p) : isListTag q = isListTag p := by
  have h1 : q.tag = p.tag := congrArg (fun n => n.tag) h
  simp only [isListTag, Node.isTag, h1]

theorem parseBlocks_shape (tab : Nat) : ∀ f, PBShape (parseBlocks tab f) := by
  intro f
  induction f with
  | zero =>
    intro st refs p bs q r hr _ _ hp
    cases bs with
    | nil => simp only [parseBlocks, Option.some.injEq, Prod.mk.injEq] at hr; rw [← hr.1]; exact hp
    | cons b rest => simp [parseBlocks] at hr
  | succ f ih =>
    intro st refs p bs q r hr hs hl hp
    cases bs with
    | nil => simp only [parseBlocks, Option.some.injEq, Prod.mk.injEq] at hr; rw [← hr.1]; exact hp
    | cons b rest =>
      rw [parseBlocks] at hr
      split at hr
      · rename_i p' r' bs' hd
        have hg := dispatch_good (parseBlocks_good tab f) hd
        refine ih _ _ _ _ _ _ hr hs ?_ (dispatch_shape ih (parseBlocks_good tab f) hs hl hp hd)
        rw [isListTag_of_shell' (hg.2 hs)]; exact hl
      · simp at hr

/-- **every top-level code block of a block tree has the shape `CodeBlockProcessor` gives it** -/
theorem parseDocument_shape {tab : Nat} {text : Str} {root : Node} {refs : Refs}
    (h : parseDocument tab text = some (root, refs)) : ∀ c ∈ root.children, preOk c :=
  parseBlocks_shape tab _ _ _ _ _ _ _ h (isstate_nil _) (by decide) (fun _ hc => by cases hc)

end MdVerif.C08Src
