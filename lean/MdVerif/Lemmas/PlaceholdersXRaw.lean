/-
Helper lemmas for C10 on the extension model, raw-HTML stash (`Props/C10XRaw.lean`).  Core Lean only.

A. `RawHtmlPostprocessor` (`Post.rawHtml`) returns a fixed point of the substitution pass (`rawHtml_fix`); a fixed
   point holds no placeholder of the stash when every entry is `entryOK` (`subPass_fix_no_live`): non-empty, not
   starting with STX, and — when block level — not compatible with `<p>` STX.  Each of the three conditions is needed
   (`fix_counterexample_empty`, `fix_counterexample_p`, `fix_counterexample_self`).  `rawHtml_no_live`.
B. the later postprocessors create no placeholder of the stash: `replaceAux_no_live` (`str.replace` of a token that
   starts with STX by a word without STX), `postprocess_no_live`, `ampSub_no_live`, `hasLive_of_infix` (`strip`).
C. the stash that `convertX` builds: `fencedLoopA_entries` (every entry of the fenced-code preprocessor starts with
   `<pre`), `runX_html` (the inline stage over ANY pattern table and ANY tree only appends entity entries),
   `treeX_html`.
-/
import MdVerif.Lemmas.PlaceholdersXPost
import MdVerif.Lemmas.PlaceholdersXHI
import MdVerif.Lemmas.StashEntities
import MdVerif.Lemmas.FencedCodeAttrs

namespace MdVerif.NoCtlX
open MdVerif.NoCtl Py

/-! ## A. the fixed point of `RawHtmlPostprocessor` -/

/-- `RawHtmlPostprocessor.run` returns a text that the substitution pass leaves alone (or the stash is empty and
    nothing is done at all) -/
theorem rawHtml_fix {bl stash : List Str} {f : Nat} {text out : Str}
    (h : Post.rawHtml bl stash f text = some out) : Post.subPass bl stash 0 out = out ∨ stash = [] := by
  induction f generalizing text with
  | zero => cases h
  | succ f ih =>
    unfold Post.rawHtml at h
    split at h
    · next hemp => right; simpa using hemp
    · simp only at h
      split at h
      · next heq =>
        simp only [Option.some.injEq] at h
        subst h
        left; rw [heq]; exact heq
      · exact ih h

/-- `<p>` STX: how the text looks where the first alternative of the pattern (`<p>` placeholder `</p>`) matches -/
def pStx : Str := ['<', 'p', '>', STX]

/-- the entry is a prefix of `<p>` STX or starts with it -/
def pSelf (e : Str) : Bool := startsWith pStx e || startsWith e pStx

/-- **an entry that the fix-point iteration of `RawHtmlPostprocessor` is guaranteed to restore**: it is not empty,
    does not start with STX and, when it is block level (so that alternative 1 writes it without `<p>`), is neither a
    prefix of `<p>` STX nor starts with `<p>` STX.  (`<pre…`, `&…;` and every entry whose first character is neither
    `<` nor STX are of that kind.) -/
def entryOK (bl : List Str) (e : Str) : Bool :=
  (match e with
   | [] => false
   | c :: _ => c != STX) && !(Post.isBlockLevelHtml bl e && pSelf e)

theorem entryOK_head {bl : List Str} {e : Str} (h : entryOK bl e = true) : ∃ c r, e = c :: r ∧ c ≠ STX := by
  cases e with
  | nil => simp [entryOK] at h
  | cons c r =>
    simp only [entryOK, Bool.and_eq_true, bne_iff_ne, ne_eq] at h
    exact ⟨c, r, rfl, h.1⟩

theorem entryOK_block {bl : List Str} {e : Str} (h : entryOK bl e = true) (hb : Post.isBlockLevelHtml bl e = true) :
    pSelf e = false := by
  simp only [entryOK, Bool.and_eq_true, hb, Bool.true_and, Bool.not_eq_eq_eq_not, Bool.not_true] at h
  exact h.2

/-- an entry whose first character is neither `<` nor STX -/
theorem entryOK_of_head (bl : List Str) {c : Char} (r : Str) (h1 : c ≠ STX) (h2 : c ≠ '<') : entryOK bl (c :: r) = true := by
  have hb : Post.isBlockLevelHtml bl (c :: r) = false := by
    have : Post.blockLevelGroup (c :: r) = none := by
      unfold Post.blockLevelGroup
      split
      · next h => simp only [List.cons.injEq] at h; exact absurd h.1 h2
      · next h => simp only [List.cons.injEq] at h; exact absurd h.1 h2
      · rfl
    simp [Post.isBlockLevelHtml, this]
  simp [entryOK, hb, h1]

theorem entryOK_entityLike (bl : List Str) {e : Str} (h : entityLike e = true) : entryOK bl e = true := by
  obtain ⟨e', rfl, _⟩ := entityLike_cons h
  exact entryOK_of_head bl e' (by decide) (by decide)

/-- an entry that starts with `<pre` (what `fenced_code` stores) -/
theorem entryOK_pre (bl : List Str) (r : Str) : entryOK bl ("<pre".toList ++ r) = true := by
  have hp : pSelf ("<pre".toList ++ r) = false := by
    show pSelf ('<' :: 'p' :: 'r' :: 'e' :: r) = false
    simp [pSelf, pStx, startsWith_cons_cons]
  show entryOK bl ('<' :: 'p' :: 'r' :: 'e' :: r) = true
  have hp' : pSelf ('<' :: 'p' :: 'r' :: 'e' :: r) = false := hp
  simp only [entryOK, hp', Bool.and_false, Bool.not_false, Bool.and_true, bne_iff_ne, ne_eq]
  decide

theorem not_pSelf_append {e X Y : Str} (h : pSelf e = false) : e ++ X ≠ pStx ++ Y := by
  intro heq
  simp only [pSelf, Bool.or_eq_false_iff] at h
  rcases List.append_eq_append_iff.1 heq with ⟨a', h1, _⟩ | ⟨c', h1, _⟩
  · have : startsWith pStx e = true := startsWith_iff_prefix.2 ⟨a', h1⟩
    rw [h.1] at this; cases this
  · have : startsWith e pStx = true := startsWith_iff_prefix.2 ⟨c', h1⟩
    rw [h.2] at this; cases this

theorem stashLookup_mem_stash {stash : List Str} {ds html : Str} (h : Post.stashLookup stash ds = some html) :
    html ∈ stash := by
  unfold Post.stashLookup at h
  simp only at h
  split at h
  · exact List.mem_of_getElem? h
  · cases h

theorem p_phStr_eq (ds Z : Str) : "<p>".toList ++ (phStr ds ++ Z) =
    pStx ++ ('w' :: 'z' :: 'x' :: 'h' :: 'z' :: 'd' :: 'k' :: ':' :: (ds ++ [ETX]) ++ Z) := by
  rw [phStr_eq]; rfl

theorem subPass_fix_no_live_aux {bl stash : List Str} (he : ∀ e ∈ stash, entryOK bl e = true) (n : Nat) :
    ∀ t : Str, t.length ≤ n → Post.subPass bl stash 0 t = t → hasLiveHtmlPh stash t = false := by
  induction n with
  | zero =>
    intro t hl _
    have : t = [] := List.length_eq_zero_iff.1 (by omega)
    subst this; rfl
  | succ n ih =>
    intro t hl h
    cases t with
    | nil => rfl
    | cons c s =>
      rcases subPass_cases bl stash c s with ⟨ds, rest, hds, e, hr⟩ | ⟨ds, rest, hds, e, hr⟩ | ⟨hno, hr⟩
      · -- `<p>` placeholder `</p>`
        have hl' : rest.length ≤ n := by
          have := congrArg List.length e
          simp [phStr_length] at this hl; omega
        rw [hr] at h
        rw [e] at h ⊢
        rw [hasLive_p_phStr hds]
        cases hlk : Post.stashLookup stash ds with
        | none =>
          have hp : pOut bl stash ds = "<p>".toList ++ (phStr ds ++ "</p>".toList) := by unfold pOut; rw [hlk]
          rw [hp] at h
          have h' : Post.subPass bl stash 0 rest = rest := by
            simp only [List.append_assoc] at h
            exact List.append_cancel_left (List.append_cancel_left (List.append_cancel_left h))
          rw [ih rest hl' h']; rfl
        | some html =>
          exfalso
          have hok := he html (stashLookup_mem_stash hlk)
          obtain ⟨c0, r0, rfl, hc0⟩ := entryOK_head hok
          by_cases hb : Post.isBlockLevelHtml bl (c0 :: r0) = true
          · have hp : pOut bl stash ds = c0 :: r0 := by unfold pOut; rw [hlk]; simp only; rw [if_pos hb]
            rw [hp, p_phStr_eq] at h
            exact not_pSelf_append (entryOK_block hok hb) h
          · have hp : pOut bl stash ds = "<p>".toList ++ (c0 :: r0) ++ "</p>".toList := by
              unfold pOut; rw [hlk]; simp only; rw [if_neg hb]
            rw [hp, phStr_eq] at h
            simp only [List.append_assoc] at h
            have h2 := List.append_cancel_left h
            simp only [List.cons_append, List.cons.injEq] at h2
            exact hc0 h2.1
      · -- bare placeholder
        have hl' : rest.length ≤ n := by
          have := congrArg List.length e
          simp [phStr_length] at this hl; omega
        rw [hr] at h
        rw [e] at h ⊢
        rw [hasLive_phStr hds]
        cases hlk : Post.stashLookup stash ds with
        | none =>
          have hp : phOut stash ds = phStr ds := by unfold phOut; rw [hlk]
          rw [hp] at h
          rw [ih rest hl' (List.append_cancel_left h)]; rfl
        | some html =>
          exfalso
          have hok := he html (stashLookup_mem_stash hlk)
          obtain ⟨c0, r0, rfl, hc0⟩ := entryOK_head hok
          have hp : phOut stash ds = c0 :: r0 := by unfold phOut; rw [hlk]
          rw [hp, phStr_eq] at h
          simp only [List.cons_append, List.cons.injEq] at h
          exact hc0 h.1
      · -- a copied character
        rw [hr] at h
        have h' : Post.subPass bl stash 0 s = s := by
          simp only [List.cons.injEq, true_and] at h; exact h
        rw [hasLive_cons, ih s (by simp at hl; omega) h', Bool.or_false]
        cases hq : liveHtmlPhAt stash (c :: s) with
        | false => rfl
        | true =>
          exfalso
          have hc := liveHtmlPhAt_head hq
          obtain ⟨ds, rest, hds, e, _⟩ := liveHtmlPhAt_some hq
          have := htmlPhAt_phStr hds rest
          rw [← e, hno hc] at this; cases this

/-- **a fixed point of the substitution pass holds no placeholder of the stash** when every entry is `entryOK`: at
    the first placeholder of the stash the pass writes the entry (or `<p>` + entry), whose first character differs
    from what the text has there -/
theorem subPass_fix_no_live {bl stash : List Str} (he : ∀ e ∈ stash, entryOK bl e = true) {t : Str}
    (h : Post.subPass bl stash 0 t = t) : hasLiveHtmlPh stash t = false :=
  subPass_fix_no_live_aux he t.length t (Nat.le_refl _) h

/-- `RawHtmlPostprocessor.run`: no placeholder of the stash is left, for EVERY text, when every entry is `entryOK` -/
theorem rawHtml_no_live {bl stash : List Str} (he : ∀ e ∈ stash, entryOK bl e = true) {f : Nat} {text out : Str}
    (h : Post.rawHtml bl stash f text = some out) : hasLiveHtmlPh stash out = false := by
  rcases rawHtml_fix h with h | rfl
  · exact subPass_fix_no_live he h
  · exact hasLive_nil_stash out

/-! ### each condition of `entryOK` is needed -/

/-- `HtmlStash.get_placeholder(n)` -/
def rawPh (n : Nat) : Str := Post.htmlPrefix ++ natToDec n ++ [ETX]

/-- an EMPTY entry (first character "not STX" vacuously): the text `ph0 STX wzx ph1` is a fixed point — `ph0` vanishes
    and entry 1 completes `STX wzx` to `ph0` again — that still holds both placeholders -/
theorem fix_counterexample_empty :
    let e1 : Str := "hzdk:0\x03\x02wzx".toList ++ rawPh 1
    let t : Str := rawPh 0 ++ "\x02wzx".toList ++ rawPh 1
    Post.subPass [] [[], e1] 0 t = t ∧ hasLiveHtmlPh [[], e1] t = true ∧ e1.head? = some 'h' ∧
      entryOK [] [] = false := by decide

/-- a block-level entry that is a prefix of `<p>` STX (here `<p>` itself, `p` being block level) -/
theorem fix_counterexample_p :
    let bl : List Str := ["p".toList]
    let e1 : Str := "hzdk:0\x03</p>\x02wzx".toList ++ rawPh 1
    let t : Str := "<p>".toList ++ rawPh 0 ++ "</p>\x02wzx".toList ++ rawPh 1
    Post.subPass bl ["<p>".toList, e1] 0 t = t ∧ hasLiveHtmlPh ["<p>".toList, e1] t = true ∧
      entryOK bl "<p>".toList = false ∧ entryOK bl e1 = true := by decide

/-- a block-level entry that starts with `<p>` STX: `<p>ph0</p>` is its own replacement -/
theorem fix_counterexample_self :
    let bl : List Str := ["p".toList]
    let t : Str := "<p>".toList ++ rawPh 0 ++ "</p>".toList
    Post.subPass bl [t] 0 t = t ∧ hasLiveHtmlPh [t] t = true ∧ t.head? = some '<' ∧ entryOK bl t = false := by decide

/-! ## B. the later postprocessors create no placeholder of the stash -/

/-- the characters of a placeholder behind its STX -/
def phBody (ds : Str) : Str := 'w' :: 'z' :: 'x' :: 'h' :: 'z' :: 'd' :: 'k' :: ':' :: (ds ++ [ETX])

theorem phStr_eq_body (ds : Str) : phStr ds = STX :: phBody ds := rfl

/-- no character of a placeholder behind its STX is STX, `&` or `<` -/
theorem phBody_chars {ds : Str} (hds : PhDigits ds) : ∀ x ∈ phBody ds, x ≠ STX ∧ x ≠ '&' := by
  intro x hx
  simp only [phBody, List.mem_cons, List.mem_append, List.not_mem_nil, or_false] at hx
  have hdig : ∀ y, isAsciiDigit y = true → y ≠ STX ∧ y ≠ '&' := by
    intro y hy
    refine ⟨?_, ?_⟩ <;> rintro rfl <;> revert hy <;> decide
  rcases hx with rfl | rfl | rfl | rfl | rfl | rfl | rfl | rfl | hx | rfl
  all_goals first | decide | exact hdig _ (List.all_eq_true.1 hds.2 _ hx)

/-- **`str.replace` of a token that starts with STX by a word that starts with `&` and holds no STX creates no
    placeholder of the stash**: a placeholder in the output starts at a copied STX and its other characters (neither
    STX nor `&`) were copied as well, so it stood in the input -/
theorem replaceAux_no_live {stash : List Str} {P' b' : Str} (hb : STX ∉ '&' :: b') (k : Nat) (s : Str)
    (h : hasLiveHtmlPh stash s = false) :
    hasLiveHtmlPh stash (replaceAux (STX :: P') ('&' :: b') k s) = false := by
  fun_induction replaceAux (STX :: P') ('&' :: b') k s with
  | case1 => rfl
  | case2 k c s ih =>
    rw [hasLive_cons, Bool.or_eq_false_iff] at h
    exact ih h.2
  | case3 c s hm ih =>
    rw [hasLive_cons, Bool.or_eq_false_iff] at h
    rw [hasLive_append_noSTX hb]; exact ih h.2
  | case4 c s hm ih =>
    rw [hasLive_cons, Bool.or_eq_false_iff] at h
    rw [hasLive_cons, ih h.2, Bool.or_false]
    cases hq : liveHtmlPhAt stash (c :: replaceAux (STX :: P') ('&' :: b') 0 s) with
    | false => rfl
    | true =>
      exfalso
      obtain ⟨ds, rest, hds, e, hlk⟩ := liveHtmlPhAt_some hq
      rw [phStr_eq_body, List.cons_append, List.cons.injEq] at e
      obtain ⟨hc, e⟩ := e
      have hsw : startsWith (replaceAux (STX :: P') ('&' :: b') 0 s) (phBody ds) = true := by
        rw [e]; exact startsWith_append _ _
      have hs := startsWith_replaceAux_gen (phBody ds) s hsw (phBody_chars hds)
      obtain ⟨rest', e'⟩ := startsWith_iff_prefix.1 hs
      have : liveHtmlPhAt stash (c :: s) = true := by
        rw [hc, e', ← List.cons_append, ← phStr_eq_body, liveHtmlPhAt_phStr hds]; exact hlk
      rw [h.1] at this; cases this

/-- `FootnotePostprocessor.run` creates no placeholder of the stash -/
theorem postprocess_no_live {stash : List Str} {t : Str} (h : hasLiveHtmlPh stash t = false) :
    hasLiveHtmlPh stash (FootnotesTree.postprocess t) = false := by
  rw [postprocess_eq]
  exact replaceAux_no_live (P' := nbspBody ++ [ETX]) (b' := "#160;".toList) (by decide) 0 _
    (replaceAux_no_live (P' := backlinkBody ++ [ETX]) (b' := "#8617;".toList) (by decide) 0 t h)

/-- `AndSubstitutePostprocessor.run` creates no placeholder of the stash -/
theorem ampSub_no_live {stash : List Str} {t : Str} (h : hasLiveHtmlPh stash t = false) :
    hasLiveHtmlPh stash (Post.ampSub t) = false := by
  rw [ampSub_eq]
  exact replaceAux_no_live (P' := ['a', 'm', 'p', ETX]) (b' := []) (by decide) 0 t h

/-- a placeholder of the stash occurs: where -/
theorem hasLive_iff {stash : List Str} {s : Str} : hasLiveHtmlPh stash s = true ↔
    ∃ pre ds rest, PhDigits ds ∧ s = pre ++ (phStr ds ++ rest) ∧ (Post.stashLookup stash ds).isSome = true := by
  induction s with
  | nil =>
    constructor
    · intro h; cases h
    · rintro ⟨pre, ds, rest, _, e, _⟩
      have := congrArg List.length e
      simp [phStr_length] at this
      omega
  | cons c r ih =>
    rw [hasLive_cons, Bool.or_eq_true]
    constructor
    · rintro (h | h)
      · obtain ⟨ds, rest, hds, e, hlk⟩ := liveHtmlPhAt_some h
        exact ⟨[], ds, rest, hds, e, hlk⟩
      · obtain ⟨pre, ds, rest, hds, e, hlk⟩ := ih.1 h
        exact ⟨c :: pre, ds, rest, hds, by rw [e]; rfl, hlk⟩
    · rintro ⟨pre, ds, rest, hds, e, hlk⟩
      cases pre with
      | nil =>
        left
        rw [e, List.nil_append, liveHtmlPhAt_phStr hds]; exact hlk
      | cons x pre =>
        right
        simp only [List.cons_append, List.cons.injEq] at e
        exact ih.2 ⟨pre, ds, rest, hds, e.2, hlk⟩

/-- a part of a text without placeholder of the stash has none (`str.strip`) -/
theorem hasLive_of_infix {stash : List Str} {l s : Str} (hl : l <:+: s) (h : hasLiveHtmlPh stash s = false) :
    hasLiveHtmlPh stash l = false := by
  cases hq : hasLiveHtmlPh stash l with
  | false => rfl
  | true =>
    obtain ⟨pre, ds, rest, hds, e, hlk⟩ := hasLive_iff.1 hq
    obtain ⟨a, b, rfl⟩ := hl
    have : hasLiveHtmlPh stash (a ++ l ++ b) = true :=
      hasLive_iff.2 ⟨a ++ pre, ds, rest ++ b, hds, by rw [e]; simp [List.append_assoc], hlk⟩
    rw [h] at this; cases this

/-- the tail of `postX`/`finishX`: footnote postprocessor (when enabled), amp_substitute, `strip` -/
theorem final_no_live {stash : List Str} (fn : Bool) {t : Str} (h : hasLiveHtmlPh stash t = false) :
    hasLiveHtmlPh stash (strip (Post.ampSub (if fn then FootnotesTree.postprocess t else t))) = false := by
  apply hasLive_of_infix (strip_infix _)
  apply ampSub_no_live
  cases fn
  · exact h
  · exact postprocess_no_live h

/-! ## C. the stash that `convertX` builds -/

/-! ### the fenced-code preprocessor -/

theorem blockHtmlA_pre (id : Str) (classes : List Str) (lang code : Str) :
    ∃ r, Fenced.blockHtmlA id classes lang code = "<pre".toList ++ r := by
  unfold Fenced.blockHtmlA
  simp only [List.append_assoc]
  exact ⟨_, rfl⟩

/-- the stash `b` is the stash `a` with entries appended that all satisfy `P` -/
def StashExt (P : Str → Prop) (a b : List Str) : Prop := ∃ l, b = a ++ l ∧ ∀ e ∈ l, P e

theorem StashExt.refl (P : Str → Prop) (a : List Str) : StashExt P a a := ⟨[], by simp, by simp⟩

theorem StashExt.of_eq {P : Str → Prop} {a b : List Str} (h : b = a) : StashExt P a b := h ▸ StashExt.refl P a

theorem StashExt.trans {P : Str → Prop} {a b c : List Str} (h1 : StashExt P a b) (h2 : StashExt P b c) :
    StashExt P a c := by
  obtain ⟨l1, rfl, p1⟩ := h1
  obtain ⟨l2, rfl, p2⟩ := h2
  refine ⟨l1 ++ l2, by simp, ?_⟩
  intro e he
  rcases List.mem_append.1 he with he | he
  · exact p1 e he
  · exact p2 e he

theorem StashExt.push {P : Str → Prop} (a : List Str) {e : Str} (h : P e) : StashExt P a (a ++ [e]) :=
  ⟨[e], rfl, by simpa using h⟩

/-- an entry of `fenced_code`: it starts with `<pre` -/
def PreEntry (e : Str) : Prop := ∃ r, e = "<pre".toList ++ r

/-- **`FencedBlockPreprocessor.run` only appends entries that start with `<pre`** -/
theorem fencedLoopA_entries : ∀ (fuel : Nat) (text : Str) (index : Nat) (stash : List Str) (t' : Str)
    (stash' : List Str), Fenced.fencedLoopA fuel text index stash = .ok t' stash' → StashExt PreEntry stash stash' := by
  intro fuel
  induction fuel with
  | zero => intro text index stash t' stash' h; simp [Fenced.fencedLoopA] at h
  | succ k ih =>
    intro text index stash t' stash' h
    simp only [Fenced.fencedLoopA] at h
    split at h
    · simp only [Fenced.RunResult.ok.injEq] at h
      exact StashExt.of_eq h.2.symm
    · split at h
      · exact (StashExt.push stash (blockHtmlA_pre _ _ _ _)).trans (ih _ _ _ _ _ h)
      · split at h
        · exact ih _ _ _ _ _ h
        · exact (StashExt.push stash (blockHtmlA_pre _ _ _ _)).trans (ih _ _ _ _ _ h)

theorem fencedRunA_entries {text t' : Str} {stash : List Str} (h : Fenced.fencedRunA text = .ok t' stash) :
    ∀ e ∈ stash, PreEntry e := by
  obtain ⟨l, rfl, hl⟩ := fencedLoopA_entries _ _ _ _ _ _ h
  simpa using hl

/-! ### the inline stage over any pattern table -/

open Inline InlineX

/-- an entry of the entity pattern -/
def EntEntry (e : Str) : Prop := entityLike e = true

/-- the HTML stash only grows by entity entries -/
abbrev HtmlExt (a b : List Str) : Prop := StashExt EntEntry a b

/-- **one pattern match leaves the HTML stash alone or (the entity pattern) appends one entity entry** — for every
    entry of the pattern table -/
theorem findX_html {xc : XCfg} {k : PatK} {data : Str} {si : Nat} {x x' : XSt} {fo : Option Found}
    (h : findX xc k data si x = some (fo, x')) :
    x'.st.html = x.st.html ∨ ∃ raw, x'.st.html = x.st.html ++ [raw] ∧ entityLike raw = true := by
  unfold findX at h
  cases k with
  | core i =>
    simp only at h
    split at h
    · cases h
    · next f st hf =>
      simp only [Option.some.injEq, Prod.mk.injEq] at h
      obtain ⟨_, rfl⟩ := h
      rcases Vocab2.findMatch_html _ _ _ _ _ _ _ hf with e | ⟨raw, e, hr⟩
      · exact .inl e
      · exact .inr ⟨raw, e, Vocab2.entRef_entityLike hr⟩
  | footnote =>
    simp only at h
    split at h
    · simp only [Option.some.injEq, Prod.mk.injEq] at h; obtain ⟨_, rfl⟩ := h; exact .inl rfl
    · split at h
      · simp only [Option.some.injEq, Prod.mk.injEq] at h; obtain ⟨_, rfl⟩ := h; exact .inl rfl
      · simp only [Option.some.injEq, Prod.mk.injEq] at h; obtain ⟨_, rfl⟩ := h; exact .inl rfl
  | wikilink =>
    simp only at h
    split at h
    · simp only [Option.some.injEq, Prod.mk.injEq] at h; obtain ⟨_, rfl⟩ := h; exact .inl rfl
    · split at h
      · simp only [Option.some.injEq, Prod.mk.injEq] at h; obtain ⟨_, rfl⟩ := h; exact .inl rfl
      · simp only [Option.some.injEq, Prod.mk.injEq] at h; obtain ⟨_, rfl⟩ := h; exact .inl rfl
  | nl =>
    simp only at h
    split at h
    · simp only [Option.some.injEq, Prod.mk.injEq] at h; obtain ⟨_, rfl⟩ := h; exact .inl rfl
    · split at h
      · simp only [Option.some.injEq, Prod.mk.injEq] at h; obtain ⟨_, rfl⟩ := h; exact .inl rfl
      · simp only [Option.some.injEq, Prod.mk.injEq] at h; obtain ⟨_, rfl⟩ := h; exact .inl rfl

theorem findX_ext {xc : XCfg} {k : PatK} {data : Str} {si : Nat} {x x' : XSt} {fo : Option Found}
    (h : findX xc k data si x = some (fo, x')) : HtmlExt x.st.html x'.st.html := by
  rcases findX_html h with e | ⟨raw, e, hr⟩
  · exact StashExt.of_eq e
  · rw [e]; exact StashExt.push _ hr

def HIhtml (hi : HIX) : Prop := ∀ d p x d' x', hi d p x = some (d', x') → HtmlExt x.st.html x'.st.html

theorem hiOptX_ext {hi : HIX} (hhi : HIhtml hi) {t t' : Option Str} {atomic : Bool} {pi : Nat} {x x' : XSt}
    (h : hiOptX hi t atomic pi x = some (t', x')) : HtmlExt x.st.html x'.st.html := by
  unfold hiOptX at h
  split at h
  · split at h
    · next d x1 hh =>
      simp only [Option.some.injEq, Prod.mk.injEq] at h
      obtain ⟨_, rfl⟩ := h
      exact hhi _ _ _ _ _ hh
    · cases h
  · simp only [Option.some.injEq, Prod.mk.injEq] at h
    obtain ⟨_, rfl⟩ := h
    exact StashExt.refl _ _

theorem hiNodeX_ext {hi : HIX} (hhi : HIhtml hi) {pi : Nat} {n n' : Node} {x x' : XSt}
    (h : hiNodeX hi pi n x = some (n', x')) : HtmlExt x.st.html x'.st.html := by
  unfold hiNodeX at h
  split at h
  · cases h
  · next t x1 h1 =>
    split at h
    · cases h
    · next tl x2 h2 =>
      simp only [Option.some.injEq, Prod.mk.injEq] at h
      obtain ⟨_, rfl⟩ := h
      exact (hiOptX_ext hhi h1).trans (hiOptX_ext hhi h2)

theorem hiNodesX_ext {hi : HIX} (hhi : HIhtml hi) {pi : Nat} : ∀ (ns : List Node) {x : XSt} {ns' : List Node} {x' : XSt},
    hiNodesX hi pi ns x = some (ns', x') → HtmlExt x.st.html x'.st.html := by
  intro ns
  induction ns with
  | nil =>
    intro x ns' x' h
    simp only [hiNodesX, Option.some.injEq, Prod.mk.injEq] at h
    obtain ⟨_, rfl⟩ := h
    exact StashExt.refl _ _
  | cons n r ih =>
    intro x ns' x' h
    simp only [hiNodesX] at h
    split at h
    · cases h
    · next n1 x1 h1 =>
      split at h
      · cases h
      · next r1 x2 h2 =>
        simp only [Option.some.injEq, Prod.mk.injEq] at h
        obtain ⟨_, rfl⟩ := h
        exact (hiNodeX_ext hhi h1).trans (ih h2)

theorem elStepX_ext {hi : HIX} (hhi : HIhtml hi) {pi : Nat} {n n' : Node} {x x' : XSt}
    (h : elStepX hi pi n x = some (n', x')) : HtmlExt x.st.html x'.st.html := by
  unfold elStepX at h
  split at h
  · simp only [Option.some.injEq, Prod.mk.injEq] at h
    obtain ⟨_, rfl⟩ := h
    exact StashExt.refl _ _
  · split at h
    · cases h
    · next n1 x3 h1 =>
      split at h
      · cases h
      · next kids x4 h2 =>
        simp only [Option.some.injEq, Prod.mk.injEq] at h
        obtain ⟨_, rfl⟩ := h
        exact (hiNodeX_ext hhi h1).trans (hiNodesX_ext hhi _ h2)

theorem stashX_html (x : XSt) (it : StashItem) : (stashX x it).2.st.html = x.st.html := rfl

def APhtml (ap : Nat → Str → Nat → XSt → Option (Str × Bool × Nat × XSt)) : Prop :=
  ∀ pi d si x d' m si' x', ap pi d si x = some (d', m, si', x') → HtmlExt x.st.html x'.st.html

theorem applyPatternX_ext (xc : XCfg) {hi : HIX} (hhi : HIhtml hi) : APhtml (applyPatternX xc hi) := by
  intro pi data si x d' m si' x' h
  rw [applyPatternX_eq] at h
  split at h
  · simp only [Option.some.injEq, Prod.mk.injEq] at h
    obtain ⟨_, _, _, rfl⟩ := h
    exact StashExt.refl _ _
  · next k hk =>
    split at h
    · cases h
    · next x1 hf =>
      simp only [Option.some.injEq, Prod.mk.injEq] at h
      obtain ⟨_, _, _, rfl⟩ := h
      exact findX_ext hf
    · next f x1 hf =>
      have hs1 := findX_ext hf
      split at h
      · simp only [Option.some.injEq, Prod.mk.injEq] at h
        obtain ⟨_, _, _, rfl⟩ := h
        exact hs1
      · simp only [Option.some.injEq, Prod.mk.injEq] at h
        obtain ⟨_, _, _, rfl⟩ := h
        rw [stashX_html]; exact hs1
      · split at h
        · cases h
        · next n' x2 hr =>
          simp only [Option.some.injEq, Prod.mk.injEq] at h
          obtain ⟨_, _, _, rfl⟩ := h
          rw [stashX_html]
          exact hs1.trans (elStepX_ext hhi hr)

theorem hiLoopX_ext {count : Nat} {ap : Nat → Str → Nat → XSt → Option (Str × Bool × Nat × XSt)} (hap : APhtml ap) :
    ∀ (g : Nat) (data : Str) (pi si : Nat) (x : XSt) (d' : Str) (x' : XSt),
      hiLoopX count ap g data pi si x = some (d', x') → HtmlExt x.st.html x'.st.html := by
  intro g
  induction g with
  | zero => intro data pi si x d' x' h; simp [hiLoopX] at h
  | succ g ih =>
    intro data pi si x d' x' h
    simp only [hiLoopX] at h
    split at h
    · split at h
      · cases h
      · next d m si1 x1 h1 => exact (hap _ _ _ _ _ _ _ _ h1).trans (ih _ _ _ _ _ _ h)
    · simp only [Option.some.injEq, Prod.mk.injEq] at h
      obtain ⟨_, rfl⟩ := h
      exact StashExt.refl _ _

theorem handleInlineX_ext (xc : XCfg) : ∀ (f : Nat), HIhtml (handleInlineX xc f) := by
  intro f
  induction f with
  | zero => intro d p x d' x' h; simp [handleInlineX] at h
  | succ f ih =>
    intro d p x d' x' h
    simp only [handleInlineX] at h
    exact hiLoopX_ext (applyPatternX_ext xc ih) _ _ _ _ _ _ _ h

theorem handleInlineTopX_ext {xc : XCfg} {data : Str} {x : XSt} {d' : Str} {x' : XSt}
    (h : handleInlineTopX xc data x = some (d', x')) : HtmlExt x.st.html x'.st.html :=
  handleInlineX_ext xc _ _ _ _ _ _ h

theorem visitChildX_ext {xc : XCfg} {child : Node} {v : VisitX} {c : Node} {tr : List Node} {v' : VisitX}
    (h : visitChildX xc child v = some (c, tr, v')) : HtmlExt v.x.st.html v'.x.st.html := by
  unfold visitChildX at h
  simp only [] at h
  split at h
  · cases h
  · next c1 lst x1 hr1 =>
    have q1 : HtmlExt v.x.st.html x1.st.html := by
      split at hr1
      · split at hr1
        · cases hr1
        · next data x2 hh =>
          have hs2 := handleInlineTopX_ext hh
          split at hr1
          · cases hr1
          · simp only [Option.some.injEq, Prod.mk.injEq] at hr1
            obtain ⟨_, _, rfl⟩ := hr1
            exact hs2
      · simp only [Option.some.injEq, Prod.mk.injEq] at hr1
        obtain ⟨_, _, rfl⟩ := hr1
        exact StashExt.refl _ _
    split at h
    · cases h
    · next c2 tr' x2 hr2 =>
      simp only [Option.some.injEq, Prod.mk.injEq] at h
      obtain ⟨_, _, rfl⟩ := h
      have q2 : HtmlExt x1.st.html x2.st.html := by
        split at hr2
        · split at hr2
          · cases hr2
          · next data x3 hh =>
            have hs3 : HtmlExt x1.st.html x3.st.html := by
              split at hh
              · simp only [Option.some.injEq, Prod.mk.injEq] at hh
                obtain ⟨_, rfl⟩ := hh
                exact StashExt.refl _ _
              · exact handleInlineTopX_ext hh
            split at hr2
            · cases hr2
            · simp only [Option.some.injEq, Prod.mk.injEq] at hr2
              obtain ⟨_, _, rfl⟩ := hr2
              exact hs3
        · simp only [Option.some.injEq, Prod.mk.injEq] at hr2
          obtain ⟨_, _, rfl⟩ := hr2
          exact StashExt.refl _ _
      exact q1.trans q2

theorem visitLoopX_ext (xc : XCfg) : ∀ (g : Nat) (todo : List (Node × Option Nat)) (v v' : VisitX),
    visitLoopX xc g todo v = some v' → HtmlExt v.x.st.html v'.x.st.html := by
  intro g
  induction g with
  | zero => intro todo v v' h; simp [visitLoopX] at h
  | succ g ih =>
    intro todo v v' h
    cases todo with
    | nil =>
      simp only [visitLoopX, Option.some.injEq] at h
      subst h
      exact StashExt.refl _ _
    | cons a todo =>
      obtain ⟨child, orig⟩ := a
      simp only [visitLoopX] at h
      split at h
      · cases h
      · next c tr v1 hv =>
        have h2 := ih _ _ _ h
        exact (visitChildX_ext hv).trans h2

theorem runLoopX_ext (xc : XCfg) (g2 : Nat) : ∀ (g : Nat) (root : Node) (stack : List Path) (x : XSt) (root' : Node)
    (x' : XSt), runLoopX xc g2 g root stack x = some (root', x') → HtmlExt x.st.html x'.st.html := by
  intro g
  induction g with
  | zero => intro root stack x root' x' h; simp [runLoopX] at h
  | succ g ih =>
    intro root stack x root' x' h
    cases stack with
    | nil =>
      simp only [runLoopX, Option.some.injEq, Prod.mk.injEq] at h
      obtain ⟨_, rfl⟩ := h
      exact StashExt.refl _ _
    | cons p stack =>
      simp only [runLoopX] at h
      split at h
      · exact ih _ _ _ _ _ h
      · split at h
        · cases h
        · next v hv =>
          have := visitLoopX_ext xc g2 _ { x := x } v hv
          exact this.trans (ih _ _ _ _ _ h)

/-- **`InlineProcessor.run` over ANY pattern table on ANY tree keeps the entries of the HTML stash it is given and
    only appends entity entries** -/
theorem runX_html {xc : XCfg} {tree t : Node} {html : List Str} {xs : XSt}
    (h : runX xc tree html = some (t, xs)) : HtmlExt html xs.st.html := by
  unfold runX at h
  exact runLoopX_ext xc _ _ _ _ _ _ _ h

/-! ### the stages of `treeX` -/

open PipelineX in
/-- the preprocessors: the stash handed to the later stages holds the entries of `fenced_code` only -/
theorem prepareX_stash {x : Exts} {cfg : Pipeline.Cfg} {src text : Str} {stash : List Str}
    (h : prepareX x cfg src = .ok (text, stash)) : (∀ e ∈ stash, PreEntry e) ∧ (x.fencedCode = false → stash = []) := by
  unfold prepareX at h
  simp only at h
  split at h
  · cases h
  · split at h
    · next hf =>
      split at h
      · cases h
      · split at h
        · next t' st hr =>
          simp only [FootnotesTree.R.ok.injEq, Prod.mk.injEq] at h
          obtain ⟨_, rfl⟩ := h
          exact ⟨fencedRunA_entries hr, fun h0 => by rw [h0] at hf; cases hf⟩
        · cases h
    · simp only [FootnotesTree.R.ok.injEq, Prod.mk.injEq] at h
      obtain ⟨_, rfl⟩ := h
      exact ⟨by simp, fun _ => rfl⟩

open PipelineX in
/-- **the HTML stash that `convertX` hands to the postprocessors**: the entries of `fenced_code` (each starts with
    `<pre`; none without the extension), then the entries of the entity pattern — for every source and every set of
    extensions -/
theorem treeX_html {x : Exts} {cfg : Pipeline.Cfg} {src : Str} {u : Node} {html : List Str}
    (h : treeX x cfg src = .ok u html) :
    ∃ fenced ents, html = fenced ++ ents ∧ (∀ e ∈ fenced, PreEntry e) ∧ (∀ e ∈ ents, entityLike e = true) ∧
      (x.fencedCode = false → fenced = []) := by
  unfold treeX at h
  split at h
  · cases h
  · cases h
  · next text stash hprep =>
    obtain ⟨hpre, hnil⟩ := prepareX_stash hprep
    split at h
    · cases h
    · next root log hpd =>
      simp only at h
      split at h
      · cases h
      · cases h
      · next root' log' hfn =>
        split at h
        · cases h
        · next t xs hrun =>
          obtain ⟨ents, hx, hents⟩ := runX_html hrun
          split at h
          · cases h
          · split at h
            · cases h
            · cases h
            · cases h
            · split at h
              · cases h
              · simp only [TreeResult.ok.injEq] at h
                obtain ⟨_, rfl⟩ := h
                exact ⟨stash, ents, hx, hpre, hents, hnil⟩

end MdVerif.NoCtlX
