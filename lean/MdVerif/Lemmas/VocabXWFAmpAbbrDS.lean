/-
C05 on the extension pipeline, removal of the residual hypothesis `hamp` of `C05X_partial`: `AbbrTreeprocessor` turns a
tree with the invariant of the inline stage into a dangling-safe tree (`DSN`, `Lemmas/VocabXWFAmpDS.lean`).

The abbreviation pattern is `\b(?:k1|k2|…)\b`.  Where it cuts a text `u + key + v` that satisfies `G.SOk`:

* if `u` ends with an STX, the key starts with what may follow an STX — and when that is a non-zero digit, the second
  digit belongs to the key too, because there is no word boundary between two digits (`cut_key`);
* `u` cannot end with an STX and one digit (no word boundary in front of the second digit);
* otherwise `u` is complete.

`segs_chain` walks `AbbrTree.segs` with the text in front as context; `abbr_run_DS` is the tree statement.  The keys and
titles of the abbreviation table hold no STX (they come from the block parser's log).  Core Lean only.
-/
import MdVerif.Lemmas.VocabXWFAmpDS

set_option autoImplicit false

namespace MdVerif.VocabXAmp
open Py G

/-! ### word boundaries and the invariant -/

theorem isWord_digit {c : Char} (h : isAsciiDigit c = true) : isWord c = true := by
  have hlt : c.toNat < 128 := by
    simp only [isAsciiDigit, Bool.and_eq_true, decide_eq_true_eq, Char.le_def, UInt32.le_iff_toNat_le] at h
    have h2 : ('9' : Char).val.toNat = 57 := by decide
    rw [h2] at h
    have e : c.toNat = c.val.toNat := rfl
    omega
  exact isWord_of_isAsciiAlnum hlt (by simp [isAsciiAlnum, h])

/-- a prefix that ends neither with an STX nor with an STX and a non-zero digit is complete -/
theorem SOk_left_of : ∀ (u : Str) {w : Str}, SOk (u ++ w) = true → u.getLast? ≠ some G.STX →
    (∀ u0 c, u = u0 ++ [G.STX, c] → isNZ c = false) → SOk u = true
  | [], _, _, _, _ => rfl
  | x :: u, w, h, h1, h2 => by
    simp only [List.cons_append, SOk, Bool.and_eq_true, Bool.or_eq_true] at h
    simp only [SOk, Bool.and_eq_true, Bool.or_eq_true]
    have h1' : u.getLast? ≠ some G.STX := by
      cases u with
      | nil => simp
      | cons d u => simpa [List.getLast?_cons_cons] using h1
    have h2' : ∀ u0 c, u = u0 ++ [G.STX, c] → isNZ c = false := by
      intro u0 c e
      exact h2 (x :: u0) c (by rw [e]; rfl)
    refine ⟨?_, SOk_left_of u h.2 h1' h2'⟩
    by_cases hx : x = G.STX
    · right
      rcases h.1 with h' | h'
      · simp [hx] at h'
      · subst hx
        cases u with
        | nil => exact absurd rfl h1
        | cons c u =>
          cases u with
          | nil =>
            have hc := h2 [] c rfl
            simp only [List.cons_append, List.nil_append, fol, hc, Bool.false_and, Bool.or_false] at h'
            simp [fol, h']
          | cons d u => simpa [fol, digit2] using h'
    · left; simpa using hx

theorem getLast?_snoc_eq : ∀ {u : Str} {c : Char}, u.getLast? = some c → ∃ u0, u = u0 ++ [c]
  | [], _, h => by cases h
  | [x], c, h => by
    simp only [List.getLast?_singleton, Option.some.injEq] at h
    exact ⟨[], by rw [h]; rfl⟩
  | x :: y :: r, c, h => by
    rw [List.getLast?_cons_cons] at h
    obtain ⟨u0, e⟩ := getLast?_snoc_eq h
    exact ⟨x :: u0, by rw [e]; rfl⟩

theorem gl_false_of_nz {c : Char} (hz : isNZ c = true) : gl c = false := by
  cases hg : gl c with
  | false => rfl
  | true => rw [gl_not_nz hg] at hz; cases hz

/-- **where the abbreviation pattern cuts a text with the invariant** -/
theorem cut_key {u key v : Str} (h : SOk (u ++ key ++ v) = true) (hne : key ≠ []) (hks : G.STX ∉ key)
    (hb1 : AbbrTree.boundary u.getLast? key.head? = true)
    (hb2 : AbbrTree.boundary key.getLast? v.head? = true) :
    SOk u = true ∨ (u.getLast? = some G.STX ∧ fol key = true) := by
  have _ := hks
  by_cases hl : u.getLast? = some G.STX
  · right
    refine ⟨hl, ?_⟩
    obtain ⟨u0, rfl⟩ := getLast?_snoc_eq hl
    have h1 : SOk (G.STX :: (key ++ v)) = true := by
      have : u0 ++ [G.STX] ++ key ++ v = u0 ++ (G.STX :: (key ++ v)) := by simp
      rw [this] at h
      exact SOk_right h
    rw [SOk_cons, Bool.and_eq_true] at h1
    have hf : fol (key ++ v) = true := by simpa using h1.1
    cases key with
    | nil => exact absurd rfl hne
    | cons c1 k' =>
      simp only [List.cons_append, fol, Bool.or_eq_true, Bool.and_eq_true] at hf
      simp only [fol, Bool.or_eq_true, Bool.and_eq_true]
      rcases hf with hf | hf
      · exact Or.inl hf
      · refine Or.inr ⟨hf.1, ?_⟩
        cases k' with
        | nil =>
          exfalso
          cases v with
          | nil => simp [digit2] at hf
          | cons d v =>
            simp only [List.nil_append, digit2] at hf
            simp only [AbbrTree.boundary, AbbrTree.isW, List.getLast?_singleton, List.head?_cons,
              isWord_digit (isNZ_digit hf.1), isWord_digit hf.2] at hb2
            cases hb2
        | cons d k' => simpa [digit2] using hf.2
  · left
    have hw : u ++ key ++ v = u ++ (key ++ v) := by simp
    rw [hw] at h
    refine SOk_left_of u h hl ?_
    intro u0 c e
    subst e
    cases hz : isNZ c with
    | false => rfl
    | true =>
      exfalso
      have h1 : SOk (G.STX :: c :: (key ++ v)) = true := by
        have : u0 ++ [G.STX, c] ++ (key ++ v) = u0 ++ (G.STX :: c :: (key ++ v)) := by simp
        rw [this] at h
        exact SOk_right h
      rw [SOk_cons, Bool.and_eq_true] at h1
      have hf : fol (c :: (key ++ v)) = true := by simpa using h1.1
      simp only [fol, gl_false_of_nz hz, Bool.false_or, Bool.and_eq_true] at hf
      cases key with
      | nil => exact absurd rfl hne
      | cons d k' =>
        simp only [List.cons_append, digit2] at hf
        simp only [AbbrTree.boundary, AbbrTree.isW, List.head?_cons] at hb1
        have : (u0 ++ [G.STX, c]).getLast? = some c := by simp
        rw [this] at hb1
        simp only [isWord_digit (isNZ_digit hz), isWord_digit hf.2] at hb1
        cases hb1

/-! ### `AbbrTree.segs` -/

/-- the keys and the texts behind them, concatenated -/
def flat : List (Str × Str) → Str
  | [] => []
  | (k, t) :: l => k ++ t ++ flat l

/-- at every key: the text in front of it (with the context `w`) is complete or ends with an STX that the key
    continues -/
def ChainU : Str → Str → List (Str × Str) → Prop
  | _, _, [] => True
  | w, p, (key, t) :: l =>
    (SOk (w ++ p) = true ∨ ((w ++ p).getLast? = some G.STX ∧ fol key = true)) ∧ G.STX ∉ key ∧ key ≠ [] ∧
      ChainU (w ++ p ++ key) t l

theorem chainU_shift (w : Str) (c : Char) (p : Str) (l : List (Str × Str)) :
    ChainU (w ++ [c]) p l → ChainU w (c :: p) l := by
  cases l with
  | nil => intro _; trivial
  | cons kt l =>
    obtain ⟨key, t⟩ := kt
    simp only [ChainU, List.append_assoc, List.singleton_append]
    exact id

theorem abbrAt_spec {keys : List Str} {prev : Option Char} {suf key : Str}
    (h : AbbrTree.abbrAt keys prev suf = some key) :
    key ∈ keys ∧ key ≠ [] ∧ AbbrTree.boundary prev suf.head? = true ∧ (∃ v, suf = key ++ v ∧
      AbbrTree.boundary key.getLast? v.head? = true) := by
  unfold AbbrTree.abbrAt at h
  split at h
  · rename_i hb
    have hm := List.mem_of_find?_eq_some h
    have hp := List.find?_some h
    simp only [Bool.and_eq_true, Bool.not_eq_true', List.isEmpty_eq_false_iff] at hp
    obtain ⟨⟨h1, h2⟩, h3⟩ := hp
    obtain ⟨v, hv⟩ := startsWith_iff_prefix.1 h2
    refine ⟨hm, h1, hb, v, hv, ?_⟩
    rw [hv, List.drop_left] at h3
    exact h3
  · cases h

theorem segs_concat (keys : List Str) : ∀ (s : Str) (prev : Option Char) (k : Nat),
    s.drop k = (AbbrTree.segs keys prev k s).1 ++ flat (AbbrTree.segs keys prev k s).2 := by
  intro s
  induction s with
  | nil => intro prev k; simp [AbbrTree.segs, flat]
  | cons c r ih =>
    intro prev k
    cases k with
    | succ k => simp only [AbbrTree.segs, List.drop_succ_cons]; exact ih _ _
    | zero =>
      simp only [AbbrTree.segs, List.drop_zero]
      split
      · rename_i key hk
        obtain ⟨_, hne, _, v, hv, _⟩ := abbrAt_spec hk
        simp only [flat, List.nil_append]
        have := ih (some c) (key.length - 1)
        rw [List.append_assoc, ← this]
        cases key with
        | nil => exact absurd rfl hne
        | cons d key' =>
          simp only [List.cons_append, List.cons.injEq] at hv
          rw [hv.1, hv.2]
          simp
      · simp only [List.cons_append, List.cons.injEq, true_and]
        have := ih (some c) 0
        simpa using this

/-- **the walk of `finditer` over a text with the invariant**, `u` = the text in front -/
theorem segs_chain {keys : List Str} (hk : ∀ k ∈ keys, G.STX ∉ k) : ∀ (s u : Str) (k : Nat) (prev : Option Char),
    prev = u.getLast? → SOk (u ++ s) = true →
    ChainU (u ++ s.take k) (AbbrTree.segs keys prev k s).1 (AbbrTree.segs keys prev k s).2 := by
  intro s
  induction s with
  | nil => intro u k prev _ _; simp [AbbrTree.segs, ChainU]
  | cons c r ih =>
    intro u k prev hp hs
    have hs' : SOk ((u ++ [c]) ++ r) = true := by simpa using hs
    cases k with
    | succ k =>
      simp only [AbbrTree.segs, List.take_succ_cons]
      have := ih (u ++ [c]) k (some c) (by simp) hs'
      simpa using this
    | zero =>
      simp only [AbbrTree.segs, List.take_zero, List.append_nil]
      split
      · rename_i key hkey
        obtain ⟨hm, hne, hb1, v, hv, hb2⟩ := abbrAt_spec hkey
        simp only [ChainU, List.append_nil]
        have hkc : key = c :: r.take (key.length - 1) := by
          cases key with
          | nil => exact absurd rfl hne
          | cons d key' =>
            simp only [List.cons_append, List.cons.injEq] at hv
            rw [hv.1, hv.2]
            simp
        refine ⟨?_, hk key hm, hne, ?_⟩
        · have hhead : key.head? = some c := by rw [hkc]; rfl
          rw [hp] at hb1
          simp only [List.head?_cons] at hb1
          rw [← hhead] at hb1
          exact cut_key (by rw [List.append_assoc, ← hv]; exact hs) hne (hk key hm) hb1 hb2
        · have := ih (u ++ [c]) (key.length - 1) (some c) (by simp) hs'
          have e : u ++ [c] ++ r.take (key.length - 1) = u ++ key := by
            conv => rhs; rw [hkc]
            simp
          rw [e] at this
          exact this
      · have := ih (u ++ [c]) 0 (some c) (by simp) hs'
        simp only [List.take_zero, List.append_nil] at this
        exact chainU_shift u c _ _ this

/-- what the pieces are: dangling-safe strings, a key that continues a dangling STX -/
def Link : Bool → List (Str × Str) → Prop
  | o, [] => o = false
  | o, (key, t) :: l => (o = true → fol key = true) ∧ G.STX ∉ key ∧ key ≠ [] ∧ StrD t ∧ Link (dang t) l

theorem getLast?_append_of_ne_nil' {a b : Str} (hb : b ≠ []) : (a ++ b).getLast? = b.getLast? := by
  cases b with
  | nil => exact absurd rfl hb
  | cons x b =>
    rw [List.getLast?_append]
    cases h : (x :: b).getLast? with
    | none => simp [List.getLast?_eq_none_iff] at h
    | some y => rfl

theorem noSTX_getLast {k : Str} (hk : G.STX ∉ k) : k.getLast? ≠ some G.STX := by
  intro h
  exact hk (List.mem_of_mem_getLast? h)

theorem link_of_chain : ∀ (l : List (Str × Str)) (w p : Str), ChainU w p l → SOk (w ++ p ++ flat l) = true →
    w.getLast? ≠ some G.STX → StrD p ∧ Link (dang p) l
  | [], w, p, _, hs, _ => by
    simp only [flat, List.append_nil] at hs
    have hp : SOk p = true := SOk_right hs
    exact ⟨Or.inl hp, by simp [Link, dang_of_sok hp]⟩
  | (key, t) :: l, w, p, hc, hs, hw => by
    simp only [ChainU] at hc
    obtain ⟨hcut, hks, hne, hrest⟩ := hc
    have hw' : (w ++ p ++ key).getLast? ≠ some G.STX := by
      rw [getLast?_append_of_ne_nil' hne]; exact noSTX_getLast hks
    have hs' : SOk (w ++ p ++ key ++ t ++ flat l) = true := by
      simpa [flat, List.append_assoc] using hs
    obtain ⟨i1, i2⟩ := link_of_chain l (w ++ p ++ key) t hrest hs' hw'
    rcases hcut with hcut | ⟨hl, hf⟩
    · have hp : SOk p = true := SOk_right hcut
      refine ⟨Or.inl hp, ?_⟩
      simp only [Link, dang_of_sok hp]
      exact ⟨(by intro h; cases h), hks, hne, i1, i2⟩
    · have hpne : p ≠ [] := by
        rintro rfl
        rw [List.append_nil] at hl
        exact hw hl
      have hpl : p.getLast? = some G.STX := by rw [← getLast?_append_of_ne_nil' (a := w) hpne]; exact hl
      obtain ⟨p0, rfl⟩ := getLast?_snoc_eq hpl
      have hp0 : SOk p0 = true := by
        have e : w ++ (p0 ++ [G.STX]) ++ flat ((key, t) :: l) = (w ++ p0) ++ G.STX :: flat ((key, t) :: l) := by
          simp
        rw [e] at hs
        exact SOk_right (SOk_left hs (by intro c hc; simp at hc; subst hc; exact cutOk_stx))
      refine ⟨Or.inr ⟨p0, rfl, hp0⟩, ?_⟩
      simp only [Link, dang_snoc]
      exact ⟨fun _ => hf, hks, hne, i1, i2⟩

/-- **the pieces of a text with the invariant** -/
theorem segs_link {keys : List Str} (hk : ∀ k ∈ keys, G.STX ∉ k) {s : Str} (hs : SOk s = true) :
    StrD (AbbrTree.segs keys none 0 s).1 ∧ Link (dang (AbbrTree.segs keys none 0 s).1) (AbbrTree.segs keys none 0 s).2 := by
  have hc := segs_chain hk s [] 0 none rfl (by simpa using hs)
  simp only [List.take_zero, List.append_nil] at hc
  refine link_of_chain _ [] _ hc ?_ (by simp)
  have := segs_concat keys s none 0
  simp only [List.drop_zero] at this
  rw [List.nil_append, ← this]; exact hs

/-! ### the tree -/

theorem dslo_append : ∀ (a : List Node) {b : List Node} {o o1 o' : Bool}, DSLo o a o1 → DSLo o1 b o' →
    DSLo o (a ++ b) o'
  | [], b, o, o1, o', ha, hb => by
    simp only [DSLo] at ha
    subst ha
    exact hb
  | c :: a, b, o, o1, o', ha, hb => by
    simp only [DSLo] at ha
    simp only [List.cons_append, DSLo]
    exact ⟨ha.1, ha.2.1, dslo_append a ha.2.2 hb⟩

theorem mkAbbr_DS {abbrs : List (Str × Str)} (ha : ∀ kv ∈ abbrs, G.STX ∉ kv.2) {m : Str × Str}
    (h1 : G.STX ∉ m.1) (h2 : StrD m.2) :
    DSN (AbbrTree.mkAbbr abbrs m) ∧ (fol m.1 = true → AbbrKey (AbbrTree.mkAbbr abbrs m)) := by
  have hT : G.STX ∉ ((abbrs.find? (fun kv => kv.1 = m.1)).map (·.2)).getD [] := by
    cases hf : abbrs.find? (fun kv => kv.1 = m.1) with
    | none => simp
    | some kv => exact ha kv (List.mem_of_find?_eq_some hf)
  constructor
  · simp only [AbbrTree.mkAbbr, DSN]
    refine ⟨⟨⟨"abbr".toList, rfl, by decide, by decide⟩, ?_⟩, ?_, h2, ?_, ?_⟩
    · intro kv hkv
      simp only [List.mem_singleton] at hkv
      subst hkv
      show G.STX ∉ "title".toList
      decide
    · exact Or.inl (SOk_of_noSTX h1)
    · intro kv hkv
      simp only [List.mem_singleton] at hkv
      subst hkv
      exact SB_of_SOkA (SOkA_of_noSTX hT)
    · simp only [Option.getD_some, DSLo]
      exact dang_of_sok (SOk_of_noSTX h1)
  · intro hf
    exact ⟨rfl, rfl, ⟨_, rfl, hT⟩, hf, h1⟩

theorem link_dslo {abbrs : List (Str × Str)} (ha : ∀ kv ∈ abbrs, G.STX ∉ kv.2) :
    ∀ (l : List (Str × Str)) (o : Bool), Link o l → DSLo o (l.map (AbbrTree.mkAbbr abbrs)) false
  | [], o, h => by simpa [Link, DSLo] using h
  | (key, t) :: l, o, h => by
    simp only [Link] at h
    obtain ⟨h1, h2, _, h4, h5⟩ := h
    obtain ⟨d1, d2⟩ := mkAbbr_DS ha (m := (key, t)) h2 h4
    simp only [List.map_cons, DSLo]
    refine ⟨fun ho => d2 (h1 ho), d1, ?_⟩
    have : (AbbrTree.mkAbbr abbrs (key, t)).tail.getD [] = t := rfl
    rw [this]
    exact link_dslo ha l _ h5

/-- one string slot (text or tail) of `iter_element` -/
theorem abbrSlot_DS {abbrs : List (Str × Str)} (ha : ∀ kv ∈ abbrs, G.STX ∉ kv.2) {keys : List Str}
    (hk : ∀ k ∈ keys, G.STX ∉ k) (active : Bool) (t : Option Str) (a : Bool) (ht : SOk (t.getD []) = true) :
    StrD ((NoCtlX.abbrSlot abbrs keys active t a).1.1.getD []) ∧
      DSLo (dang ((NoCtlX.abbrSlot abbrs keys active t a).1.1.getD [])) (NoCtlX.abbrSlot abbrs keys active t a).2 false := by
  unfold NoCtlX.abbrSlot
  split
  · simp only
    split
    · exact ⟨Or.inl ht, by simp [DSLo, dang_of_sok ht]⟩
    · obtain ⟨i1, i2⟩ := segs_link hk ht
      exact ⟨i1, link_dslo ha _ _ i2⟩
  · exact ⟨Or.inl ht, by simp [DSLo, dang_of_sok ht]⟩

mutual
theorem abbrNode_DS {abbrs : List (Str × Str)} (ha : ∀ kv ∈ abbrs, G.STX ∉ kv.2) {keys : List Str}
    (hk : ∀ k ∈ keys, G.STX ∉ k) (isRoot : Bool) : ∀ (n : Node), n.Forall NodeSN →
    DSN (AbbrTree.abbrNode abbrs keys isRoot n).1 ∧
      DSLo (dang ((AbbrTree.abbrNode abbrs keys isRoot n).1.tail.getD [])) (AbbrTree.abbrNode abbrs keys isRoot n).2 false
  | ⟨tag, attrs, text, ta, children, tail, tla⟩, h => by
    simp only [Node.Forall] at h
    obtain ⟨⟨⟨h1, h2, h3⟩, hn⟩, hkids⟩ := h
    rw [NoCtlX.abbrNode_eq]
    obtain ⟨t1, t2⟩ := abbrSlot_DS ha hk true text ta h1
    obtain ⟨l1, l2⟩ := abbrSlot_DS ha hk (!isRoot) tail tla h2
    refine ⟨?_, l2⟩
    simp only [DSN]
    exact ⟨hn, t1, l1, h3, dslo_append _ t2 (abbrKids_DS ha hk children hkids)⟩
theorem abbrKids_DS {abbrs : List (Str × Str)} (ha : ∀ kv ∈ abbrs, G.STX ∉ kv.2) {keys : List Str}
    (hk : ∀ k ∈ keys, G.STX ∉ k) : ∀ (l : List Node), Node.ForallL NodeSN l →
    DSLo false (AbbrTree.abbrKids abbrs keys l) false
  | [], _ => by simp [AbbrTree.abbrKids, DSLo]
  | c :: r, h => by
    simp only [Node.ForallL] at h
    rw [AbbrTree.abbrKids]
    obtain ⟨c1, c2⟩ := abbrNode_DS ha hk false c h.1
    have : DSLo false ((AbbrTree.abbrNode abbrs keys false c).1 ::
        ((AbbrTree.abbrNode abbrs keys false c).2 ++ AbbrTree.abbrKids abbrs keys r)) false := by
      simp only [DSLo]
      exact ⟨(by intro h'; cases h'), c1, dslo_append _ c2 (abbrKids_DS ha hk r h.2)⟩
    exact this
end

/-- **`AbbrTreeprocessor.run` makes a dangling-safe tree** from a tree with the invariant of the inline stage; keys and
    titles of the table hold no STX -/
theorem abbr_run_DS {abbrs : List (Str × Str)} (ha : ∀ kv ∈ abbrs, G.STX ∉ kv.1 ∧ G.STX ∉ kv.2) {t : Node}
    (h : t.Forall NodeSN) : DSN (AbbrTree.run abbrs t) := by
  unfold AbbrTree.run
  split
  · exact dsn_of_SN t h
  · refine (abbrNode_DS (fun kv hkv => (ha kv hkv).2) ?_ true t h).1
    intro k hk
    obtain ⟨kv, hkv, e⟩ := List.mem_map.1 (NoCtlX.mem_sortKeys hk)
    rw [← e]; exact (ha kv hkv).1

end MdVerif.VocabXAmp
