/-
Two inline configurations with the same pattern table whose patterns find the same on `c`-free texts (with a `c`-free
stash) run alike on a `c`-free tree, and the resulting tree and stash are `c`-free again (`runX_rel`).
Instances: `md.ESCAPED_CHARS` with and without `|` on `|`-free trees; one configuration twice (a plain invariant).
Core Lean only.
-/
import MdVerif.Lemmas.InlineXInv

namespace MdVerif.InlineX
open Py Inline

variable {c : Char} {xc1 xc2 : XCfg}

/-- the nested `__handleInline` of the two runs agree on `c`-free arguments and keep them `c`-free -/
def HIG (c : Char) (hi1 hi2 : HIX) : Prop :=
  ∀ d p x, c ∉ d → StashC c x.st.stash →
    hi1 d p x = hi2 d p x ∧ ∀ d' x', hi2 d p x = some (d', x') → c ∉ d' ∧ StashC c x'.st.stash

def OptC (c : Char) (t : Option Str) : Prop := ∀ s, t = some s → c ∉ s

theorem hiOptX_rel {hi1 hi2 : HIX} (hg : HIG c hi1 hi2) (t : Option Str) (atomic : Bool) (pi : Nat) (x : XSt)
    (ht : OptC c t) (hx : StashC c x.st.stash) :
    hiOptX hi1 t atomic pi x = hiOptX hi2 t atomic pi x ∧
      ∀ t' x', hiOptX hi2 t atomic pi x = some (t', x') → OptC c t' ∧ StashC c x'.st.stash := by
  simp only [hiOptX]
  split
  · have hd : c ∉ t.getD [] := by
      cases t with
      | none => simp
      | some s => exact ht s rfl
    obtain ⟨e, s⟩ := hg (t.getD []) pi x hd hx
    rw [e]
    refine ⟨rfl, ?_⟩
    intro t' x' h
    cases hh : hi2 (t.getD []) pi x with
    | none => rw [hh] at h; cases h
    | some r =>
      obtain ⟨d, x1⟩ := r
      rw [hh] at h
      injection h with h
      injection h with h1 h2
      subst h1; subst h2
      have := s d x1 hh
      exact ⟨by intro s' hs'; cases hs'; exact this.1, this.2⟩
  · refine ⟨rfl, ?_⟩
    intro t' x' h
    injection h with h
    injection h with h1 h2
    subst h1; subst h2
    exact ⟨ht, hx⟩

theorem DeepC_text_tail {n : Node} (h : DeepC c n) : OptC c n.text ∧ OptC c n.tail :=
  ⟨((DeepC_iff n).mp h).1, ((DeepC_iff n).mp h).2.1⟩

theorem hiNodeX_rel {hi1 hi2 : HIX} (hg : HIG c hi1 hi2) (pi : Nat) (n : Node) (x : XSt) (hn : DeepC c n)
    (hx : StashC c x.st.stash) :
    hiNodeX hi1 pi n x = hiNodeX hi2 pi n x ∧
      ∀ n' x', hiNodeX hi2 pi n x = some (n', x') → DeepC c n' ∧ StashC c x'.st.stash := by
  simp only [hiNodeX]
  obtain ⟨e1, s1⟩ := hiOptX_rel hg n.text n.textAtomic (pi + 1) x (DeepC_text_tail hn).1 hx
  rw [e1]
  cases h1 : hiOptX hi2 n.text n.textAtomic (pi + 1) x with
  | none => exact ⟨rfl, by intro n' x' h; cases h⟩
  | some r1 =>
    obtain ⟨t, x1⟩ := r1
    obtain ⟨ht, hx1⟩ := s1 t x1 h1
    simp only []
    obtain ⟨e2, s2⟩ := hiOptX_rel hg n.tail n.tailAtomic pi x1 (DeepC_text_tail hn).2 hx1
    rw [e2]
    cases h2 : hiOptX hi2 n.tail n.tailAtomic pi x1 with
    | none => exact ⟨rfl, by intro n' x' h; cases h⟩
    | some r2 =>
      obtain ⟨tl, x2⟩ := r2
      obtain ⟨htl, hx2⟩ := s2 tl x2 h2
      refine ⟨rfl, ?_⟩
      intro n' x' h
      injection h with h
      injection h with h3 h4
      subst h3; subst h4
      refine ⟨?_, hx2⟩
      rw [DeepC_iff]
      exact ⟨ht, htl, fun k hk => DeepC_kids hn k hk⟩

theorem hiNodesX_rel {hi1 hi2 : HIX} (hg : HIG c hi1 hi2) (pi : Nat) : ∀ (l : List Node) (x : XSt),
    (∀ n ∈ l, DeepC c n) → StashC c x.st.stash →
    hiNodesX hi1 pi l x = hiNodesX hi2 pi l x ∧
      ∀ l' x', hiNodesX hi2 pi l x = some (l', x') → (∀ n ∈ l', DeepC c n) ∧ StashC c x'.st.stash := by
  intro l
  induction l with
  | nil =>
    intro x _ hx
    refine ⟨rfl, ?_⟩
    intro l' x' h
    simp only [hiNodesX] at h
    injection h with h
    injection h with h1 h2
    subst h1; subst h2
    exact ⟨(by intro n hn; cases hn), hx⟩
  | cons n r ih =>
    intro x hl hx
    simp only [hiNodesX]
    obtain ⟨e1, s1⟩ := hiNodeX_rel hg pi n x (hl n List.mem_cons_self) hx
    rw [e1]
    cases h1 : hiNodeX hi2 pi n x with
    | none => exact ⟨rfl, by intro l' x' h; cases h⟩
    | some r1 =>
      obtain ⟨n', x1⟩ := r1
      obtain ⟨hn', hx1⟩ := s1 n' x1 h1
      simp only []
      obtain ⟨e2, s2⟩ := ih x1 (fun m hm => hl m (List.mem_cons_of_mem _ hm)) hx1
      rw [e2]
      cases h2 : hiNodesX hi2 pi r x1 with
      | none => exact ⟨rfl, by intro l' x' h; cases h⟩
      | some r2 =>
        obtain ⟨r', x2⟩ := r2
        obtain ⟨hr', hx2⟩ := s2 r' x2 h2
        refine ⟨rfl, ?_⟩
        intro l' x' h
        injection h with h
        injection h with h3 h4
        subst h3; subst h4
        refine ⟨?_, hx2⟩
        intro m hm
        rcases List.mem_cons.mp hm with hm | hm
        · exact hm ▸ hn'
        · exact hr' m hm

theorem StashC_snoc {stash : List StashItem} {it : StashItem} (h : StashC c stash) (hi : ItemC c it) :
    StashC c (stash ++ [it]) := by
  intro x hx
  rcases List.mem_append.mp hx with hx | hx
  · exact h x hx
  · simp only [List.mem_singleton] at hx
    exact hx ▸ hi

theorem splice_notin (hs : SafeC c) {data : Str} (hd : c ∉ data) (start : Nat) (stop : Int) (n : Nat) :
    c ∉ data.take start ++ placeholder n ++ pyDrop data stop := by
  intro hm
  rcases List.mem_append.mp hm with hm | hm
  · rcases List.mem_append.mp hm with hm | hm
    · exact hd ((List.take_prefix _ _).subset hm)
    · exact placeholder_notin hs n hm
  · exact hd ((List.drop_suffix _ _).subset hm)

/-- the text part of `visitChildX` -/
def textStageX (xc : XCfg) (child : Node) (x : XSt) : Option (Node × List Node × XSt) :=
  if Node.truthy child.text && !child.textAtomic then
    match handleInlineTopX xc (child.text.getD []) x with
    | none => none
    | some (data, x1) =>
      match ppTop x1.st data false { child with text := none, textAtomic := false } true with
      | none => none
      | some (lst, c1) => some (c1, lst, x1)
  else some (child, [], x)

/-- the end of the tail part of `visitChildX` -/
def tailFinish (c1 : Node) (h : Option (Str × XSt)) : Option (Node × List Node × XSt) :=
  match h with
  | none => none
  | some (data, x2) =>
    match ppTop x2.st data c1.tailAtomic (mkEl "d") false with
    | none => none
    | some (tr, dumby) =>
      let c2 : Node :=
        if Node.truthy dumby.tail then { c1 with tail := dumby.tail, tailAtomic := dumby.tailAtomic }
        else { c1 with tail := none, tailAtomic := false }
      some (c2, tr, x2)

/-- the tail part of `visitChildX` -/
def tailStageX (xc : XCfg) (c1 : Node) (x1 : XSt) : Option (Node × List Node × XSt) :=
  if Node.truthy c1.tail then
    tailFinish c1 (if c1.tailAtomic then some (c1.tail.getD [], x1) else handleInlineTopX xc (c1.tail.getD []) x1)
  else some (c1, [], x1)

theorem visitChildX_stages (xc : XCfg) (child : Node) (v : VisitX) :
    visitChildX xc child v =
      match textStageX xc child v.x with
      | none => none
      | some (c1, lst, x1) =>
        match tailStageX xc c1 x1 with
        | none => none
        | some (c2, tr, x2) =>
          some ({ c2 with children := lst ++ c2.children }, tr,
            { v with
              pushes := (if child.children.isEmpty then
                  ((List.range lst.length).map (fun k => [v.done.length, k])).reverse ++ v.pushes
                else [v.done.length] :: (((List.range lst.length).map (fun k => [v.done.length, k])).reverse ++ v.pushes))
              x := x2 }) := by
  rfl

section rel
variable (hs : SafeC c) (htab : xc1.table = xc2.table)
  (hfind : ∀ k data si x, c ∉ data → StashC c x.st.stash → findX xc1 k data si x = findX xc2 k data si x)
include hs htab hfind

theorem applyPatternX_rel {hi1 hi2 : HIX} (hg : HIG c hi1 hi2) (pi : Nat) (data : Str) (si : Nat) (x : XSt)
    (hd : c ∉ data) (hx : StashC c x.st.stash) :
    applyPatternX xc1 hi1 pi data si x = applyPatternX xc2 hi2 pi data si x ∧
      ∀ d m si' x', applyPatternX xc2 hi2 pi data si x = some (d, m, si', x') → c ∉ d ∧ StashC c x'.st.stash := by
  simp only [applyPatternX, htab]
  cases hk : xc2.table[pi]? with
  | none =>
    refine ⟨rfl, ?_⟩
    intro d m si' x' h
    injection h with h
    injection h with h1 h
    injection h with _ h
    injection h with _ h2
    subst h1; subst h2
    exact ⟨hd, hx⟩
  | some k =>
    simp only []
    rw [hfind k data si x hd hx]
    cases hf : findX xc2 k data si x with
    | none => exact ⟨rfl, by intro d m si' x' h; cases h⟩
    | some r =>
      obtain ⟨fo, x0⟩ := r
      obtain ⟨hst, hfc⟩ := findX_inv hs xc2 k data si x hd hf
      have hx0 : StashC c x0.st.stash := hst ▸ hx
      cases fo with
      | none =>
        refine ⟨rfl, ?_⟩
        intro d m si' x' h
        injection h with h
        injection h with h1 h
        injection h with _ h
        injection h with _ h2
        subst h1; subst h2
        exact ⟨hd, hx0⟩
      | some f =>
        have hF := hfc f rfl
        simp only []
        cases hnode : f.node with
        | none =>
          refine ⟨rfl, ?_⟩
          intro d m si' x' h
          injection h with h
          injection h with h1 h
          injection h with _ h
          injection h with _ h2
          subst h1; subst h2
          exact ⟨hd, hx0⟩
        | str s =>
          refine ⟨rfl, ?_⟩
          intro d m si' x' h
          simp only [stashX, stashNode] at h
          injection h with h
          injection h with h1 h
          injection h with _ h
          injection h with _ h2
          subst h1; subst h2
          have hsC : c ∉ s := by simpa [FoundC, hnode] using hF
          exact ⟨splice_notin hs hd _ _ _, StashC_snoc hx0 hsC⟩
        | el n =>
          have hnD : DeepC c n := by simpa [FoundC, hnode] using hF
          simp only []
          by_cases hat : (n.text.isSome && n.textAtomic) = true
          · simp only [hat, if_true]
            refine ⟨trivial, ?_⟩
            intro d m si' x' h
            simp only [stashX, stashNode] at h
            injection h with h
            injection h with h1 h
            injection h with _ h
            injection h with _ h2
            subst h1; subst h2
            exact ⟨splice_notin hs hd _ _ _, StashC_snoc hx0 hnD⟩
          · simp only [hat, Bool.false_eq_true, if_false]
            obtain ⟨e1, s1⟩ := hiNodeX_rel hg pi { n with children := [] } x0
              (DeepC_children [] hnD (by intro k hk; cases hk)) hx0
            rw [e1]
            cases h1 : hiNodeX hi2 pi { n with children := [] } x0 with
            | none => exact ⟨rfl, by intro d m si' x' h; cases h⟩
            | some r1 =>
              obtain ⟨n1, x1⟩ := r1
              obtain ⟨hn1, hx1⟩ := s1 n1 x1 h1
              simp only []
              obtain ⟨e2, s2⟩ := hiNodesX_rel hg pi n.children x1 (DeepC_kids hnD) hx1
              rw [e2]
              cases h2 : hiNodesX hi2 pi n.children x1 with
              | none => exact ⟨rfl, by intro d m si' x' h; cases h⟩
              | some r2 =>
                obtain ⟨kids, x2⟩ := r2
                obtain ⟨hkids, hx2⟩ := s2 kids x2 h2
                refine ⟨rfl, ?_⟩
                intro d m si' x' h
                simp only [stashX, stashNode] at h
                injection h with h
                injection h with h3 h
                injection h with _ h
                injection h with _ h4
                subst h3; subst h4
                exact ⟨splice_notin hs hd _ _ _, StashC_snoc hx2 (DeepC_children kids hn1 hkids)⟩

omit hs htab hfind in
theorem hiLoopX_rel {ap1 ap2 : Nat → Str → Nat → XSt → Option (Str × Bool × Nat × XSt)} (count : Nat)
    (hap : ∀ pi data si x, c ∉ data → StashC c x.st.stash →
      ap1 pi data si x = ap2 pi data si x ∧
        ∀ d m si' x', ap2 pi data si x = some (d, m, si', x') → c ∉ d ∧ StashC c x'.st.stash) :
    ∀ (g : Nat) (data : Str) (pi si : Nat) (x : XSt), c ∉ data → StashC c x.st.stash →
      hiLoopX count ap1 g data pi si x = hiLoopX count ap2 g data pi si x ∧
        ∀ d x', hiLoopX count ap2 g data pi si x = some (d, x') → c ∉ d ∧ StashC c x'.st.stash := by
  intro g
  induction g with
  | zero => intro data pi si x _ _; exact ⟨rfl, by intro d x' h; cases h⟩
  | succ g ih =>
    intro data pi si x hd hx
    unfold hiLoopX
    split
    · obtain ⟨e, s⟩ := hap pi data si x hd hx
      rw [e]
      cases h1 : ap2 pi data si x with
      | none => exact ⟨rfl, by intro d x' h; cases h⟩
      | some r =>
        obtain ⟨d, m, si', x'⟩ := r
        obtain ⟨hd', hx'⟩ := s d m si' x' h1
        exact ih _ _ _ _ hd' hx'
    · refine ⟨rfl, ?_⟩
      intro d x' h
      injection h with h
      injection h with h1 h2
      subst h1; subst h2
      exact ⟨hd, hx⟩

theorem handleInlineX_rel : ∀ f, HIG c (handleInlineX xc1 f) (handleInlineX xc2 f) := by
  intro f
  induction f with
  | zero => intro d p x _ _; exact ⟨rfl, by intro d' x' h; cases h⟩
  | succ f ih =>
    intro d p x hd hx
    simp only [handleInlineX, htab]
    exact hiLoopX_rel _
      (fun pi data si x hd hx => applyPatternX_rel hs htab hfind ih pi data si x hd hx) _ _ _ _ _ hd hx

theorem handleInlineTopX_rel (data : Str) (x : XSt) (hd : c ∉ data) (hx : StashC c x.st.stash) :
    handleInlineTopX xc1 data x = handleInlineTopX xc2 data x ∧
      ∀ d' x', handleInlineTopX xc2 data x = some (d', x') → c ∉ d' ∧ StashC c x'.st.stash := by
  simp only [handleInlineTopX, htab]
  exact handleInlineX_rel hs htab hfind _ data 0 x hd hx

theorem textStageX_rel (child : Node) (x : XSt) (hch : DeepC c child) (hx : StashC c x.st.stash) :
    textStageX xc1 child x = textStageX xc2 child x ∧
      ∀ c1 lst x1, textStageX xc2 child x = some (c1, lst, x1) →
        DeepC c c1 ∧ (∀ n ∈ lst, DeepC c n) ∧ StashC c x1.st.stash := by
  simp only [textStageX]
  split
  · obtain ⟨e, s⟩ := handleInlineTopX_rel hs htab hfind _ x (optC_of_DeepC_text hch) hx
    rw [e]
    cases hh : handleInlineTopX xc2 (child.text.getD []) x with
    | none => exact ⟨rfl, by intro c1 lst x1 h; cases h⟩
    | some r =>
      obtain ⟨data, x1'⟩ := r
      obtain ⟨hd', hx'⟩ := s data x1' hh
      refine ⟨rfl, ?_⟩
      intro c1 lst x1 h
      simp only [] at h
      cases hp : ppTop x1'.st data false { child with text := none, textAtomic := false } true with
      | none => rw [hp] at h; cases h
      | some q =>
        obtain ⟨lst', c1'⟩ := q
        rw [hp] at h
        injection h with h
        injection h with h1' h
        injection h with h2' h3'
        subst h1'; subst h2'; subst h3'
        have := ppTop_inv hx' hd' (DeepC_noText hch) hp
        exact ⟨this.2, this.1, hx'⟩
  · refine ⟨rfl, ?_⟩
    intro c1 lst x1 h
    injection h with h
    injection h with h1' h
    injection h with h2' h3'
    subst h1'; subst h2'; subst h3'
    exact ⟨hch, (by intro n hn; cases hn), hx⟩

omit hs htab hfind in
theorem tailFinish_inv (c1 : Node) (hc1 : DeepC c c1) (h : Option (Str × XSt))
    (hh : ∀ data x2', h = some (data, x2') → c ∉ data ∧ StashC c x2'.st.stash) :
    ∀ c2 tr x2, tailFinish c1 h = some (c2, tr, x2) →
      DeepC c c2 ∧ (∀ n ∈ tr, DeepC c n) ∧ StashC c x2.st.stash := by
  intro c2 tr x2 he
  cases h with
  | none => cases he
  | some r =>
    obtain ⟨data, x2'⟩ := r
    obtain ⟨hd', hx'⟩ := hh data x2' rfl
    simp only [tailFinish] at he
    cases hp : ppTop x2'.st data c1.tailAtomic (mkEl "d") false with
    | none => rw [hp] at he; cases he
    | some q =>
      obtain ⟨tr', dumby⟩ := q
      rw [hp] at he
      injection he with he
      injection he with h1' he
      injection he with h2' h3'
      subst h1'; subst h2'; subst h3'
      have := ppTop_inv hx' hd' (DeepC_mkEl "d") hp
      refine ⟨?_, this.1, hx'⟩
      have hc1' := (DeepC_iff c1).mp hc1
      split
      · rw [DeepC_iff]
        exact ⟨hc1'.1, ((DeepC_iff dumby).mp this.2).2.1, hc1'.2.2⟩
      · exact DeepC_noTail hc1

theorem tailStageX_rel (c1 : Node) (x1 : XSt) (hc1 : DeepC c c1) (hx1 : StashC c x1.st.stash) :
    tailStageX xc1 c1 x1 = tailStageX xc2 c1 x1 ∧
      ∀ c2 tr x2, tailStageX xc2 c1 x1 = some (c2, tr, x2) →
        DeepC c c2 ∧ (∀ n ∈ tr, DeepC c n) ∧ StashC c x2.st.stash := by
  simp only [tailStageX]
  split
  · by_cases hat : c1.tailAtomic = true
    · rw [if_pos hat, if_pos hat]
      refine ⟨rfl, ?_⟩
      exact tailFinish_inv c1 hc1 _ (by
        intro data x2' hh
        injection hh with hh
        injection hh with e1 e2
        subst e1; subst e2
        exact ⟨optC_of_DeepC_tail hc1, hx1⟩)
    · rw [if_neg hat, if_neg hat]
      obtain ⟨e, s⟩ := handleInlineTopX_rel hs htab hfind _ x1 (optC_of_DeepC_tail hc1) hx1
      rw [e]
      exact ⟨rfl, tailFinish_inv c1 hc1 _ s⟩
  · refine ⟨rfl, ?_⟩
    intro c2 tr x2 h
    injection h with h
    injection h with h1' h
    injection h with h2' h3'
    subst h1'; subst h2'; subst h3'
    exact ⟨hc1, (by intro n hn; cases hn), hx1⟩

theorem visitChildX_rel (child : Node) (v : VisitX) (hch : DeepC c child) (hv : StashC c v.x.st.stash) :
    visitChildX xc1 child v = visitChildX xc2 child v ∧
      ∀ k tr v', visitChildX xc2 child v = some (k, tr, v') →
        DeepC c k ∧ (∀ n ∈ tr, DeepC c n) ∧ StashC c v'.x.st.stash := by
  rw [visitChildX_stages, visitChildX_stages]
  obtain ⟨e1, s1⟩ := textStageX_rel hs htab hfind child v.x hch hv
  rw [e1]
  cases h1 : textStageX xc2 child v.x with
  | none => exact ⟨rfl, by intro k tr v' h; cases h⟩
  | some r1 =>
    obtain ⟨c1, lst, x1⟩ := r1
    obtain ⟨hc1, hlst, hx1⟩ := s1 c1 lst x1 h1
    simp only []
    obtain ⟨e2, s2⟩ := tailStageX_rel hs htab hfind c1 x1 hc1 hx1
    rw [e2]
    cases h2 : tailStageX xc2 c1 x1 with
    | none => exact ⟨rfl, by intro k tr v' h; cases h⟩
    | some r2 =>
      obtain ⟨c2, tr, x2⟩ := r2
      obtain ⟨hc2, htr, hx2⟩ := s2 c2 tr x2 h2
      refine ⟨rfl, ?_⟩
      intro k tr' v' h
      injection h with h
      injection h with h1' h
      injection h with h2' h3'
      subst h1'; subst h2'; subst h3'
      refine ⟨?_, htr, hx2⟩
      apply DeepC_children _ hc2
      intro n hn
      rcases List.mem_append.mp hn with hn | hn
      · exact hlst n hn
      · exact DeepC_kids hc2 n hn

theorem visitLoopX_rel : ∀ (g : Nat) (todo : List (Node × Option Nat)) (v : VisitX),
    (∀ t ∈ todo, DeepC c t.1) → (∀ n ∈ v.done, DeepC c n) → StashC c v.x.st.stash →
    visitLoopX xc1 g todo v = visitLoopX xc2 g todo v ∧
      ∀ v', visitLoopX xc2 g todo v = some v' → (∀ n ∈ v'.done, DeepC c n) ∧ StashC c v'.x.st.stash := by
  intro g
  induction g with
  | zero => intro todo v _ _ _; exact ⟨rfl, by intro v' h; cases h⟩
  | succ g ih =>
    intro todo v ht hdone hv
    cases todo with
    | nil =>
      refine ⟨rfl, ?_⟩
      intro v' h
      simp only [visitLoopX] at h
      injection h with h
      exact h ▸ ⟨hdone, hv⟩
    | cons hd todo =>
      obtain ⟨child, orig⟩ := hd
      simp only [visitLoopX]
      obtain ⟨e, s⟩ := visitChildX_rel hs htab hfind child v (ht (child, orig) List.mem_cons_self) hv
      rw [e]
      cases h1 : visitChildX xc2 child v with
      | none => exact ⟨rfl, by intro v' h; cases h⟩
      | some r =>
        obtain ⟨k, tr, v1⟩ := r
        obtain ⟨hk, htr, hv1⟩ := s k tr v1 h1
        simp only []
        apply ih
        · intro t htm
          rcases List.mem_append.mp htm with htm | htm
          · obtain ⟨n, hn, rfl⟩ := List.mem_map.mp htm
            exact htr n hn
          · exact ht t (List.mem_cons_of_mem _ htm)
        · intro n hn
          rcases List.mem_cons.mp hn with hn | hn
          · exact hn ▸ hk
          · have hd1 : v1.done = v.done := by
              rw [visitChildX_stages] at h1
              cases ht1 : textStageX xc2 child v.x with
              | none => rw [ht1] at h1; cases h1
              | some r1 =>
                obtain ⟨a, b, x1⟩ := r1
                rw [ht1] at h1
                simp only [] at h1
                cases ht2 : tailStageX xc2 a x1 with
                | none => rw [ht2] at h1; cases h1
                | some r2 =>
                  obtain ⟨a2, b2, x2⟩ := r2
                  rw [ht2] at h1
                  injection h1 with h1
                  injection h1 with _ h1
                  injection h1 with _ h1
                  rw [← h1]
            exact hdone n (hd1 ▸ hn)
        · exact hv1

omit hs htab hfind in
theorem getAt_deep : ∀ (p : Path) {root cur : Node}, DeepC c root → getAt root p = some cur → DeepC c cur := by
  intro p
  induction p with
  | nil => intro root cur h e; simp only [getAt] at e; cases e; exact h
  | cons i p ih =>
    intro root cur h e
    simp only [getAt] at e
    split at e
    · rename_i k hk
      exact ih (DeepC_kids h k (List.mem_of_getElem? hk)) e
    · cases e

omit hs htab hfind in
theorem setAt_deep : ∀ (p : Path) {root new : Node}, DeepC c root → DeepC c new → DeepC c (setAt root p new) := by
  intro p
  induction p with
  | nil => intro root new _ hn; exact hn
  | cons i p ih =>
    intro root new h hn
    simp only [setAt]
    split
    · rename_i k hk
      apply DeepC_children _ h
      intro m hm
      rcases List.mem_or_eq_of_mem_set hm with hm | hm
      · exact DeepC_kids h m hm
      · exact hm ▸ ih (DeepC_kids h k (List.mem_of_getElem? hk)) hn
    · exact h

omit hs htab hfind in
theorem withIdx_deep : ∀ (l : List Node) (i : Nat), (∀ n ∈ l, DeepC c n) → ∀ t ∈ withIdx l i, DeepC c t.1 := by
  intro l
  induction l with
  | nil => intro i _ t ht; simp [withIdx] at ht
  | cons n r ih =>
    intro i hl t ht
    simp only [withIdx, List.mem_cons] at ht
    rcases ht with ht | ht
    · rw [ht]; exact hl n List.mem_cons_self
    · exact ih (i + 1) (fun m hm => hl m (List.mem_cons_of_mem _ hm)) t ht

theorem runLoopX_rel (g2 : Nat) : ∀ (g : Nat) (root : Node) (stack : List Path) (x : XSt),
    DeepC c root → StashC c x.st.stash →
    runLoopX xc1 g2 g root stack x = runLoopX xc2 g2 g root stack x ∧
      ∀ r x', runLoopX xc2 g2 g root stack x = some (r, x') → DeepC c r ∧ StashC c x'.st.stash := by
  intro g
  induction g with
  | zero => intro root stack x _ _; exact ⟨rfl, by intro r x' h; cases h⟩
  | succ g ih =>
    intro root stack x hr hx
    cases stack with
    | nil =>
      refine ⟨rfl, ?_⟩
      intro r x' h
      simp only [runLoopX] at h
      injection h with h
      injection h with h1 h2
      subst h1; subst h2
      exact ⟨hr, hx⟩
    | cons p stack =>
      simp only [runLoopX]
      cases hg : getAt root p with
      | none => exact ih _ _ _ hr hx
      | some cur =>
        have hcur := getAt_deep p hr hg
        simp only []
        obtain ⟨e, s⟩ := visitLoopX_rel hs htab hfind g2 (withIdx cur.children 0) { x := x }
          (withIdx_deep _ 0 (DeepC_kids hcur)) (by intro n hn; cases hn) hx
        rw [e]
        cases hv : visitLoopX xc2 g2 (withIdx cur.children 0) { x := x } with
        | none => exact ⟨rfl, by intro r x' h; cases h⟩
        | some v =>
          obtain ⟨hdone, hvx⟩ := s v hv
          simp only []
          apply ih _ _ _ _ hvx
          apply setAt_deep p hr
          apply DeepC_children _ hcur
          intro n hn
          exact hdone n (List.mem_reverse.mp hn)

/-- the two configurations run alike on a `c`-free tree; the result is `c`-free -/
theorem runX_rel (tree : Node) (html : List Str) (ht : DeepC c tree) :
    runX xc1 tree html = runX xc2 tree html ∧
      ∀ r x', runX xc2 tree html = some (r, x') → DeepC c r ∧ StashC c x'.st.stash := by
  simp only [runX]
  exact runLoopX_rel hs htab hfind _ _ tree [[]] { st := { html := html } } ht (by intro it hit; cases hit)

end rel

end MdVerif.InlineX
