/-
Helper lemmas for C05 (block stage).  Core Lean only.

1. `vocabNode n → voidOk n → WFTree n` (`vocab_implies_WFTree`, `vocabDoc_implies_WFTree`).
2. The invariant `BInv c n` of the block stage (`c` = where the node sits: root / child of a `pre` / elsewhere).
3. Every processor preserves it: `StepOK p r` = the result `r` has the tag of the parent `p` and, unless `p` is an
   `hr`, satisfies the invariant whenever `p` does; `PBOK pb` = the recursive call does.  The only place where the
   parent of a recursive call is not known to be a container is the item loop of `OListProcessor.run` (`lst[-1]`,
   which can be an `hr`: `- - x\n    - y\n    ***`); there the first item of a list block is shown not to be
   indented (`getItems_first`), so that `lst[-1]` is an item the loop itself appended.
   `dispatch_ok`, `parseBlocks_ok` (induction on the fuel), `parseDocument_ok`.
4. From `BInv` to the predicates of `Spec/Vocab.lean`.
-/
import MdVerif.Spec.Vocab
import MdVerif.Model.Block

namespace MdVerif.Vocab
open Py Ser

/-! ### 1. vocabulary trees are in the domain of the round-trip theorem -/

theorem isVocabTag_cases {t : Str} (h : isVocabTag t = true) :
    isName t = true ∧ isRawTextTag t = false ∧ isEmptyTag t = isVoidTag t := by
  simp only [isVocabTag, vocabTags, List.any_cons, List.any_nil, Bool.or_false, Bool.or_eq_true,
    decide_eq_true_eq] at h
  rcases h with h | h | h | h | h | h | h | h | h | h | h | h | h | h | h | h | h | h | h <;> subst h <;> decide

theorem attrOk_isName {k : Str} (h : attrOk k = true) : isName k = true := by
  simp only [attrOk, attrNames, List.any_cons, List.any_nil, Bool.or_false, Bool.or_eq_true,
    decide_eq_true_eq] at h
  rcases h with h | h | h | h <;> subst h <;> decide

theorem vocabNodes_cons (n : Node) (r : List Node) : vocabNodes (n :: r) = (vocabNode n && vocabNodes r) := by
  simp [vocabNodes]

theorem voidOkNodes_cons (n : Node) (r : List Node) : voidOkNodes (n :: r) = (voidOk n && voidOkNodes r) := by
  simp [voidOkNodes]

mutual
theorem vocab_implies_WFTree : ∀ (n : Node), vocabNode n = true → voidOk n = true → WFTree n = true
  | ⟨tag, attrs, text, _, children, _, _⟩, hv, ho => by
    cases tag with
    | name t =>
      simp only [vocabNode, attrsOk, Bool.and_eq_true] at hv
      simp only [voidOk, Bool.and_eq_true, Bool.or_eq_true] at ho
      obtain ⟨⟨ht, ha, hk⟩, hc⟩ := hv
      obtain ⟨ho1, ho2⟩ := ho
      obtain ⟨h1, h2, h3⟩ := isVocabTag_cases ht
      have hkids := vocab_implies_WFList children hc ho2
      have hall : attrs.all (fun kv => isName kv.1) = true := by
        rw [List.all_eq_true] at ha ⊢
        intro kv hkv; exact attrOk_isName (ha kv hkv)
      simp only [WFTree, h1, hall, hk, h2, h3, hkids, Bool.true_and, Bool.and_true, Bool.false_eq_true, if_false]
      cases hvt : isVoidTag t with
      | false => simp
      | true =>
        simp only [hvt, Bool.not_true, Bool.false_eq_true, false_or] at ho1
        simpa using ho1
    | comment => simp [vocabNode] at hv
    | pi => simp [vocabNode] at hv
    | none => simp [vocabNode] at hv
    | qname s => simp [vocabNode] at hv
theorem vocab_implies_WFList : ∀ (l : List Node), vocabNodes l = true → voidOkNodes l = true → WFList l = true
  | [], _, _ => by simp [WFList]
  | n :: r, hv, ho => by
    rw [vocabNodes_cons, Bool.and_eq_true] at hv
    rw [voidOkNodes_cons, Bool.and_eq_true] at ho
    simp only [WFList, Bool.and_eq_true]
    exact ⟨vocab_implies_WFTree n hv.1 ho.1, vocab_implies_WFList r hv.2 ho.2⟩
end

/-- the tree handed to the serializer is in the domain of the round-trip theorem -/
theorem vocabDoc_implies_WFTree (root : Node) (h : vocabDoc root = true) : WFTree root = true := by
  obtain ⟨tag, attrs, text, ta, children, tail, tla⟩ := root
  simp only [vocabDoc, Bool.and_eq_true, beq_iff_eq, List.isEmpty_iff] at h
  obtain ⟨⟨⟨h1, h2⟩, h3⟩, h4⟩ := h
  subst h1; subst h2
  have hk := vocab_implies_WFList children h3 h4
  have e1 : isName "div".toList = true := by decide
  have e2 : isEmptyTag "div".toList = false := by decide
  have e3 : isRawTextTag "div".toList = false := by decide
  simp only [WFTree, e1, e2, e3, hk, keysNodup, List.all_nil, Bool.and_true, Bool.false_eq_true, if_false]

end MdVerif.Vocab

namespace MdVerif.Block
open Py Vocab

/-! ### 2. the invariant of the block parser -/

/-- where a node sits: the root of the document, a child of a `pre`, anywhere else -/
inductive Ctx | top | pre | other
  deriving DecidableEq, Repr

/-- the elements the block stage creates -/
def blockTags : List String :=
  ["p", "h1", "h2", "h3", "h4", "h5", "h6", "ul", "ol", "li", "blockquote", "pre", "code", "hr"]

def isBlockTag (t : Str) : Bool := blockTags.any (fun e => e.toList = t)

def tagOk (c : Ctx) (t : Str) : Bool := isBlockTag t || (c == .top && t == "div".toList)

def kidCtx (t : Str) : Ctx := if t = "pre".toList then .pre else .other

/-- the context of the children of `n` -/
def kctx (n : Node) : Ctx :=
  match n.tag with
  | .name t => kidCtx t
  | _ => .other

def NotHr (n : Node) : Prop := n.tag ≠ .name "hr".toList

/-- Invariant of the block stage: ordinary element of the block vocabulary (`div` only in context `top`), no
    attributes, no atomic tail, atomic text only on a `code` in context `pre`, `hr` empty; recursively. -/
inductive BInv : Ctx → Node → Prop
  | mk {c : Ctx} {n : Node} (t : Str) (htag : n.tag = .name t) (hok : tagOk c t = true)
      (hattrs : n.attrs = []) (htl : n.tailAtomic = false)
      (hta : n.textAtomic = true → c = .pre ∧ t = "code".toList)
      (hhr : t = "hr".toList → Node.truthy n.text = false ∧ n.children = [])
      (hkids : ∀ k, k ∈ n.children → BInv (kidCtx t) k) : BInv c n

theorem isTag_iff (n : Node) (t : String) : n.isTag t = true ↔ n.tag = .name t.toList := by
  simp [Node.isTag]

theorem kctx_of_tag {n : Node} {t : Str} (h : n.tag = .name t) : kctx n = kidCtx t := by
  simp [kctx, h]

theorem kctx_congr {a b : Node} (h : a.tag = b.tag) : kctx a = kctx b := by
  simp [kctx, h]

theorem BInv.kids {c : Ctx} {n k : Node} (h : BInv c n) (hk : k ∈ n.children) : BInv (kctx n) k := by
  obtain ⟨t, htag, _, _, _, _, _, hkids⟩ := h
  rw [kctx_of_tag htag]; exact hkids k hk

theorem BInv.last {c : Ctx} {n l : Node} (h : BInv c n) (hl : n.last? = some l) : BInv (kctx n) l :=
  h.kids (List.mem_of_getLast? hl)

theorem BInv.notHr_of_last {c : Ctx} {n l : Node} (h : BInv c n) (hl : n.last? = some l) : NotHr n := by
  obtain ⟨t, htag, _, _, _, _, hhr, _⟩ := h
  intro e
  rw [htag] at e
  have := (hhr (by injection e)).2
  simp [Node.last?, this] at hl

theorem BInv.notAtomic {c : Ctx} {n : Node} (h : BInv c n) (hc : c ≠ .pre ∨ n.tag ≠ .name "code".toList) :
    n.textAtomic = false := by
  obtain ⟨t, htag, _, _, _, hta, _, _⟩ := h
  cases hb : n.textAtomic with
  | false => rfl
  | true =>
    obtain ⟨h1, h2⟩ := hta hb
    rcases hc with hc | hc
    · exact absurd h1 hc
    · rw [htag, h2] at hc; exact absurd rfl hc

/-- a node with the same tag as `p`, no attributes, no atomic tail, text atomic only if that of `p` is, and
    children satisfying the invariant, satisfies the invariant (`hr` must stay empty) -/
theorem BInv.update {c : Ctx} {p : Node} (h : BInv c p) (q : Node) (htag : q.tag = p.tag) (hattrs : q.attrs = [])
    (htl : q.tailAtomic = false) (hta : q.textAtomic = true → p.textAtomic = true)
    (hhr : NotHr p ∨ (Node.truthy q.text = false ∧ q.children = []))
    (hk : ∀ k, k ∈ q.children → BInv (kctx p) k) : BInv c q := by
  obtain ⟨t, ptag, hok, _, _, pta, _, _⟩ := h
  refine ⟨t, htag.trans ptag, hok, hattrs, htl, fun e => pta (hta e), ?_, ?_⟩
  · intro e
    rcases hhr with hhr | hhr
    · exact absurd (by rw [ptag, e]) hhr
    · exact hhr
  · intro k hkm
    have := hk k hkm
    rwa [kctx_of_tag ptag] at this

theorem BInv.append {c : Ctx} {p k : Node} (h : BInv c p) (hn : NotHr p) (hk : BInv (kctx p) k) :
    BInv c (p.append k) := by
  refine h.update _ rfl ?_ ?_ (fun e => e) (Or.inl hn) ?_
  · obtain ⟨_, _, _, ha, _, _, _, _⟩ := h; exact ha
  · obtain ⟨_, _, _, _, ha, _, _, _⟩ := h; exact ha
  · intro x hx
    simp only [Node.append, List.mem_append, List.mem_singleton] at hx
    rcases hx with hx | hx
    · exact h.kids hx
    · subst hx; exact hk

theorem BInv.setLast {c : Ctx} {p k l : Node} (h : BInv c p) (hl : p.last? = some l) (hk : BInv (kctx p) k) :
    BInv c (p.setLast k) := by
  refine h.update _ rfl ?_ ?_ (fun e => e) (Or.inl (h.notHr_of_last hl)) ?_
  · obtain ⟨_, _, _, ha, _, _, _, _⟩ := h; exact ha
  · obtain ⟨_, _, _, _, ha, _, _, _⟩ := h; exact ha
  · intro x hx
    simp only [Node.setLast, List.mem_append, List.mem_singleton] at hx
    rcases hx with hx | hx
    · exact h.kids (List.dropLast_subset _ hx)
    · subst hx; exact hk

theorem setLast_last (p k : Node) : (p.setLast k).last? = some k := by
  simp [Node.setLast, Node.last?]

theorem append_last (p k : Node) : (p.append k).last? = some k := by
  simp [Node.append, Node.last?]

/-- a fresh element of the block vocabulary, with plain text -/
theorem BInv.fresh {c : Ctx} (t : Str) (ht : isBlockTag t = true) (hne : t ≠ "hr".toList) (text : Option Str) :
    BInv c { tag := .name t, text := text } := by
  refine ⟨t, rfl, by simp [tagOk, ht], rfl, rfl, ?_, fun e => absurd e hne, ?_⟩
  · intro e; simp at e
  · intro k hk; simp at hk

theorem BInv.el {c : Ctx} (t : String) (ht : isBlockTag t.toList = true) (hne : t.toList ≠ "hr".toList) :
    BInv c (Node.el t) := BInv.fresh t.toList ht hne none

theorem BInv.hr {c : Ctx} : BInv c (Node.el "hr") := by
  refine ⟨"hr".toList, rfl, by simp [tagOk]; decide, rfl, rfl, ?_, fun _ => ⟨rfl, rfl⟩, ?_⟩
  · intro e; simp [Node.el] at e
  · intro k hk; simp [Node.el] at hk

theorem BInv.attrs_nil {c : Ctx} {n : Node} (h : BInv c n) : n.attrs = [] := by
  obtain ⟨_, _, _, ha, _, _, _, _⟩ := h; exact ha

theorem BInv.tailAtomic_false {c : Ctx} {n : Node} (h : BInv c n) : n.tailAtomic = false := by
  obtain ⟨_, _, _, _, ha, _, _, _⟩ := h; exact ha

/-! ### 3. the processors preserve the invariant -/

/-- what the result `r` of processing blocks into the parent `p` satisfies -/
def StepOK (p r : Node) : Prop := r.tag = p.tag ∧ (NotHr p → ∀ c, BInv c p → BInv c r)

/-- the recursive call preserves the tag of the parent and, unless the parent is an `hr`, the invariant -/
def PBOK (pb : PB) : Prop :=
  ∀ st refs p blocks r refs', pb st refs p blocks = some (r, refs') → StepOK p r

theorem StepOK.refl (p : Node) : StepOK p p := ⟨rfl, fun _ _ h => h⟩

theorem StepOK.trans {p q r : Node} (h1 : StepOK p q) (h2 : StepOK q r) : StepOK p r :=
  ⟨h2.1.trans h1.1, fun hn c h => h2.2 (by unfold NotHr; rw [h1.1]; exact hn) c (h1.2 hn c h)⟩

theorem NotHr.of_tag {a b : Node} (h : a.tag = b.tag) (hb : NotHr b) : NotHr a := by
  unfold NotHr; rw [h]; exact hb

theorem NotHr.of_isTag {n : Node} {t : String} (h : n.isTag t = true) (ht : t.toList ≠ "hr".toList) : NotHr n := by
  rw [isTag_iff] at h
  intro e; rw [h] at e; injection e with e; exact ht e

theorem preCode_some {sib code : Node} (h : preCode sib = some code) :
    sib.tag = .name "pre".toList ∧ code.tag = .name "code".toList ∧ code ∈ sib.children := by
  unfold preCode at h
  split at h
  · rename_i hpre
    split at h
    · rename_i c r hc
      split at h
      · rename_i hcode
        injection h with h; subst h
        exact ⟨(isTag_iff _ _).1 hpre, (isTag_iff _ _).1 hcode, by rw [hc]; exact List.mem_cons_self⟩
      · cases h
    · cases h
  · cases h

theorem setCodeText_ok {parent sib code : Node} (t : Str) (hl : parent.last? = some sib)
    (hp : preCode sib = some code) : StepOK parent (setCodeText parent sib code t) := by
  refine ⟨rfl, fun _ c h => ?_⟩
  obtain ⟨hpre, hcode, hmem⟩ := preCode_some hp
  have hsib : BInv (kctx parent) sib := h.last hl
  have hk : kctx sib = .pre := by rw [kctx_of_tag hpre]; rfl
  have hc : BInv .pre code := by have := hsib.kids hmem; rwa [hk] at this
  refine h.setLast hl ?_
  refine hsib.update _ rfl hsib.attrs_nil hsib.tailAtomic_false (fun e => e) (Or.inl ?_) ?_
  · intro e; rw [hpre] at e; revert e; decide
  · intro x hx
    rw [hk]
    simp only [List.mem_cons] at hx
    rcases hx with hx | hx
    · subst hx
      obtain ⟨t', htag, hok, hattrs, htl, _, _, hkids⟩ := hc
      have ht' : t' = "code".toList := by rw [hcode] at htag; injection htag with e; exact e.symm
      refine ⟨t', htag, hok, hattrs, htl, fun _ => ⟨rfl, ht'⟩, ?_, hkids⟩
      intro e; rw [ht'] at e; exact absurd e (by decide)
    · have := hsib.kids (List.mem_of_mem_drop hx); rwa [hk] at this

theorem emptyP_ok (refs : Refs) (parent : Node) (b : Str) (rest : List Str) :
    StepOK parent (emptyP refs parent b rest).1 := by
  simp only [emptyP]
  cases hl : parent.last? with
  | none => exact StepOK.refl _
  | some sib =>
    dsimp only
    cases hp : preCode sib with
    | none => exact StepOK.refl _
    | some code => exact setCodeText_ok _ hl hp

theorem BInv.preCode {c : Ctx} (esc : Str) : BInv c { Node.el "pre" with
      children := [{ Node.el "code" with text := some esc, textAtomic := true }] } := by
  refine ⟨"pre".toList, rfl, by simp [tagOk]; decide, rfl, rfl, ?_, fun e => absurd e (by decide), ?_⟩
  · intro e; simp [Node.el] at e
  · intro k hk
    simp only [List.mem_singleton] at hk
    subst hk
    refine ⟨"code".toList, rfl, by simp [tagOk]; decide, rfl, rfl, fun _ => ⟨rfl, rfl⟩, fun e => absurd e (by decide), ?_⟩
    intro k hk; simp [Node.el] at hk

theorem codeP_ok (tab : Nat) (refs : Refs) (parent : Node) (b : Str) (rest : List Str) :
    StepOK parent (codeP tab refs parent b rest).1 := by
  simp only [codeP]
  cases hl : parent.last? with
  | none => exact ⟨rfl, fun hn c h => h.append hn (BInv.preCode _)⟩
  | some sib =>
    dsimp only
    cases hp : preCode sib with
    | none => exact ⟨rfl, fun hn c h => h.append hn (BInv.preCode _)⟩
    | some code => exact setCodeText_ok _ hl hp

theorem firstDownFrom_some_v {α} (f : Nat → Option α) (lo : Nat) : ∀ c r, firstDownFrom f lo c = some r →
    ∃ x, lo ≤ x ∧ x < lo + c ∧ f x = some r
  | 0, r, h => by simp [firstDownFrom] at h
  | c + 1, r, h => by
    simp only [firstDownFrom] at h
    split at h
    · rename_i r' hf
      injection h with h; subst h
      exact ⟨lo + c, by omega, by omega, hf⟩
    · obtain ⟨x, h1, h2, h3⟩ := firstDownFrom_some_v f lo c r h
      exact ⟨x, h1, by omega, h3⟩

theorem firstDown_some_v {α} (f : Nat → Option α) (lo hi : Nat) (r : α) (h : firstDown f lo hi = some r) :
    ∃ x, lo ≤ x ∧ x ≤ hi ∧ f x = some r := by
  obtain ⟨x, h1, h2, h3⟩ := firstDownFrom_some_v f lo _ r h
  exact ⟨x, h1, by omega, h3⟩

theorem countPrefix_le_lim (ch : Char) : ∀ (s : Str) (n : Nat), countPrefix ch (some n) s ≤ n
  | [], n => by cases n <;> simp [countPrefix]
  | c :: s, 0 => by simp [countPrefix]
  | c :: s, n + 1 => by
    simp only [countPrefix]
    split
    · have := countPrefix_le_lim ch s n
      simp only [Option.map_some, Nat.add_sub_cancel]
      omega
    · omega

theorem hashAt_level {s : Str} {lv : Nat} {hd : Str} {n : Nat} (h : hashAt s = some (lv, hd, n)) :
    1 ≤ lv ∧ lv ≤ 6 := by
  obtain ⟨x, h1, h2, h3⟩ := firstDown_some_v _ _ _ _ h
  have := countPrefix_le_lim '#' s 6
  split at h3
  · injection h3 with h3
    injection h3 with h3 _
    omega
  · cases h3

theorem hashSearchNl_level : ∀ (s : Str) (i : Nat) {st en lv : Nat} {hd : Str},
    hashSearchNl i s = some (st, en, lv, hd) → 1 ≤ lv ∧ lv ≤ 6
  | [], i, _, _, _, _, h => by simp [hashSearchNl] at h
  | c :: r, i, st, en, lv, hd, h => by
    simp only [hashSearchNl] at h
    split at h
    · split at h
      · rename_i lv' hd' n' ha
        injection h with h
        injection h with _ h
        injection h with _ h
        injection h with h _
        subst h
        exact hashAt_level ha
      · exact hashSearchNl_level r _ h
    · exact hashSearchNl_level r _ h

theorem hashSearch_level {s : Str} {st en lv : Nat} {hd : Str} (h : hashSearch s = some (st, en, lv, hd)) :
    1 ≤ lv ∧ lv ≤ 6 := by
  unfold hashSearch at h
  split at h
  · rename_i lv' hd' n' ha
    injection h with h
    injection h with _ h
    injection h with _ h
    injection h with h _
    subst h
    exact hashAt_level ha
  · exact hashSearchNl_level s 0 h

theorem BInv.hTag {c : Ctx} (lv : Nat) (h : 1 ≤ lv ∧ lv ≤ 6) (text : Option Str) :
    BInv c { hTag lv with text := text } := by
  have : lv = 1 ∨ lv = 2 ∨ lv = 3 ∨ lv = 4 ∨ lv = 5 ∨ lv = 6 := by omega
  rcases this with e | e | e | e | e | e <;> subst e <;>
    exact BInv.fresh _ (by decide) (by decide) text

theorem BInv.hr_empty {c : Ctx} {p : Node} (h : BInv c p) :
    NotHr p ∨ (Node.truthy p.text = false ∧ p.children = []) := by
  obtain ⟨t, htag, _, _, _, _, hhr, _⟩ := h
  by_cases e : t = "hr".toList
  · exact Or.inr (hhr e)
  · refine Or.inl ?_
    intro e'; rw [htag] at e'; injection e' with e'; exact e e'

theorem hashP_ok {tab : Nat} {pb : PB} (hpb : PBOK pb) {state : List BState} {refs : Refs} {parent : Node} {b : Str}
    {rest : List Str} {m : Nat × Nat × Nat × Str} (hm : 1 ≤ m.2.2.1 ∧ m.2.2.1 ≤ 6)
    {r : Node} {refs' : Refs} {rest' : List Str}
    (h : hashP tab pb state refs parent b rest m = some (r, refs', rest')) : StepOK parent r := by
  obtain ⟨st, en, lv, header⟩ := m
  simp only [hashP] at h
  split at h
  · cases h
  · rename_i p1 refs1 h1
    injection h with h; injection h with h _; subst h
    have s1 : StepOK parent p1 := by
      split at h1
      · injection h1 with h1; injection h1 with h1 _; subst h1; exact StepOK.refl _
      · exact hpb _ _ _ _ _ _ h1
    exact s1.trans ⟨rfl, fun hn c hb => hb.append hn (BInv.hTag lv hm _)⟩

theorem setextP_ok (refs : Refs) (parent : Node) (b : Str) (rest : List Str) :
    StepOK parent (setextP refs parent b rest).1 := by
  simp only [setextP]
  refine ⟨rfl, fun hn c hb => hb.append hn ?_⟩
  split
  · exact BInv.hTag 1 (by omega) _
  · exact BInv.hTag 2 (by omega) _

theorem hrP_ok {pb : PB} (hpb : PBOK pb) {state : List BState} {refs : Refs} {parent : Node} {b : Str}
    {rest : List Str} {m : Nat × Nat} {r : Node} {refs' : Refs} {rest' : List Str}
    (h : hrP pb state refs parent b rest m = some (r, refs', rest')) : StepOK parent r := by
  obtain ⟨st, en⟩ := m
  simp only [hrP] at h
  split at h
  · cases h
  · rename_i p1 refs1 h1
    injection h with h; injection h with h _; subst h
    have s1 : StepOK parent p1 := by
      split at h1
      · injection h1 with h1; injection h1 with h1 _; subst h1; exact StepOK.refl _
      · exact hpb _ _ _ _ _ _ h1
    exact s1.trans ⟨rfl, fun hn c hb => hb.append hn BInv.hr⟩

theorem referenceP_ok (refs : Refs) (parent : Node) (b : Str) (rest : List Str)
    (m : Nat × Nat × Str × Str × Option Str × Option Str) :
    StepOK parent (referenceP refs parent b rest m).1 := by
  obtain ⟨st, en, ident, link, t5, t6⟩ := m
  exact StepOK.refl _

theorem paraP_ok (state : List BState) (refs : Refs) (parent : Node) (b : Str) (rest : List Str) :
    StepOK parent (paraP state refs parent b rest).1 := by
  simp only [paraP]
  split
  · exact StepOK.refl _
  · split
    · cases hl : parent.last? with
      | none =>
        refine ⟨rfl, fun hn c hb => ?_⟩
        exact hb.update _ rfl hb.attrs_nil hb.tailAtomic_false (fun e => by simp at e) (Or.inl hn)
          (fun k hk => hb.kids hk)
      | some sib =>
        refine ⟨rfl, fun hn c hb => hb.setLast hl ?_⟩
        have hs := hb.last hl
        exact hs.update _ rfl hs.attrs_nil rfl (fun e => e) hs.hr_empty (fun k hk => hs.kids hk)
    · exact ⟨rfl, fun hn c hb => hb.append hn (BInv.fresh _ (by decide) (by decide) _)⟩

theorem textToP_tag (li : Node) : (textToP li).tag = li.tag := by
  unfold textToP; split <;> rfl

theorem textToP_ok {c : Ctx} {li : Node} (h : BInv c li) (hta : li.textAtomic = false) : BInv c (textToP li) := by
  unfold textToP
  split
  · rename_i ht
    have hn : NotHr li := by
      rcases h.hr_empty with e | e
      · exact e
      · rw [e.1] at ht; cases ht
    refine h.update _ rfl h.attrs_nil h.tailAtomic_false (fun e => by simp at e) (Or.inl hn) ?_
    intro k hk
    simp only [List.mem_cons] at hk
    rcases hk with hk | hk
    · subst hk
      rw [hta]
      exact BInv.fresh _ (by decide) (by decide) _
    · exact h.kids hk
  · exact h

theorem quoteP_ok {pb : PB} (hpb : PBOK pb) {state : List BState} {refs : Refs} {parent : Node} {b : Str}
    {rest : List Str} {q : Nat} {r : Node} {refs' : Refs} {rest' : List Str}
    (h : quoteP pb state refs parent b rest q = some (r, refs', rest')) : StepOK parent r := by
  simp only [quoteP, parseChunk] at h
  split at h
  · cases h
  · rename_i p1 refs1 h1
    have s1 : StepOK parent p1 := hpb _ _ _ _ _ _ h1
    refine s1.trans ?_
    split at h
    · rename_i sib hs
      split at h
      · rename_i quote refs2 h2
        injection h with h; injection h with h _; subst h
        have s2 := hpb _ _ _ _ _ _ h2
        cases hl : p1.last? with
        | none => rw [hl] at hs; cases hs
        | some sib' =>
          rw [hl] at hs
          dsimp only at hs
          split at hs
          · rename_i hq
            injection hs with hs; subst hs
            refine ⟨rfl, fun hn c hb => hb.setLast hl ?_⟩
            exact s2.2 (NotHr.of_isTag hq (by decide)) _ (hb.last hl)
          · cases hs
      · cases h
    · split at h
      · rename_i quote refs2 h2
        injection h with h; injection h with h _; subst h
        have s2 := hpb _ _ _ _ _ _ h2
        refine ⟨rfl, fun hn c hb => hb.append hn ?_⟩
        exact s2.2 (by unfold NotHr Node.el; decide) _ (BInv.el _ (by decide) (by decide))
      · cases h

theorem notHr_el (t : String) (h : t.toList ≠ "hr".toList) : NotHr (Node.el t) := by
  intro e; simp only [Node.el] at e; injection e with e; exact h e

theorem BInv.li {c : Ctx} : BInv c (Node.el "li") := BInv.el _ (by decide) (by decide)

theorem isListTag_notHr {n : Node} (h : isListTag n = true) : NotHr n := by
  simp only [isListTag, Bool.or_eq_true] at h
  rcases h with h | h
  · exact NotHr.of_isTag h (by decide)
  · exact NotHr.of_isTag h (by decide)

theorem isItemTag_notHr {n : Node} (h : isItemTag n = true) : NotHr n := NotHr.of_isTag h (by decide)

theorem isListTag_kctx {n : Node} (h : isListTag n = true) : kctx n = .other := by
  simp only [isListTag, Bool.or_eq_true, isTag_iff] at h
  rcases h with h | h <;> rw [kctx_of_tag h] <;> decide

/-- precondition of the item loop: the last child is not an `hr`, or the next item is not indented -/
def LoopPre (tab : Nat) (lst : Node) (items : List Str) : Prop :=
  (∀ l, lst.last? = some l → NotHr l) ∨ (∀ i, items.head? = some i → startsWith i (spaces tab) = false)

theorem listItems_ok {tab : Nat} {pb : PB} (hpb : PBOK pb) (st2 : List BState) :
    ∀ (items : List Str) (refs : Refs) (lst r : Node) (refs' : Refs),
      listItems tab pb st2 refs lst items = some (r, refs') →
      r.tag = lst.tag ∧ (NotHr lst → LoopPre tab lst items → ∀ c, BInv c lst → BInv c r)
  | [], refs, lst, r, refs', h => by
    simp only [listItems] at h
    injection h with h; injection h with h _; subst h
    exact ⟨rfl, fun _ _ _ hb => hb⟩
  | item :: items, refs, lst, r, refs', h => by
    simp only [listItems] at h
    split at h
    · rename_i hind
      cases hl : lst.last? with
      | none =>
        rw [hl] at h
        dsimp only at h
        have ih := listItems_ok hpb st2 items refs lst r refs' h
        exact ⟨ih.1, fun hn _ c hb => ih.2 hn (Or.inl (fun l e => by rw [hl] at e; cases e)) c hb⟩
      | some l =>
        rw [hl] at h
        dsimp only at h
        split at h
        · rename_i li refs1 h1
          have s1 := hpb _ _ _ _ _ _ h1
          have ih := listItems_ok hpb st2 items refs1 (lst.setLast li) r refs' h
          refine ⟨ih.1, fun hn hpre c hb => ?_⟩
          have hl' : NotHr l := by
            rcases hpre with hpre | hpre
            · exact hpre l hl
            · have := hpre item rfl; rw [this] at hind; cases hind
          refine ih.2 hn (Or.inl ?_) c (hb.setLast hl (s1.2 hl' _ (hb.last hl)))
          intro x hx
          rw [setLast_last] at hx; injection hx with hx; subst hx
          exact NotHr.of_tag s1.1 hl'
        · cases h
    · split at h
      · rename_i li refs1 h1
        have s1 := hpb _ _ _ _ _ _ h1
        have ih := listItems_ok hpb st2 items refs1 (lst.append li) r refs' h
        refine ⟨ih.1, fun hn _ c hb => ?_⟩
        refine ih.2 hn (Or.inl ?_) c (hb.append hn (s1.2 (notHr_el _ (by decide)) _ BInv.li))
        intro x hx
        rw [append_last] at hx; injection hx with hx; subst hx
        exact NotHr.of_tag s1.1 (notHr_el _ (by decide))
      · cases h

/-- the "make sure the last item is in a `p`" step of `OListProcessor.run` -/
def fixLast (lst : Node) : Node :=
  match lst.last? with
  | some li =>
    let li := textToP li
    let li :=
      match li.last? with
      | some lch =>
        if Node.truthy lch.tail then
          (li.setLast { lch with tail := some [], tailAtomic := false }).append
            (mkText "p" (lstrip (lch.tail.getD [])))
        else li
      | none => li
    lst.setLast li
  | none => lst

theorem fixLast_ok {c : Ctx} {lst : Node} (hlist : isListTag lst = true) (hb : BInv c lst) :
    BInv c (fixLast lst) := by
  unfold fixLast
  cases hl : lst.last? with
  | none => exact hb
  | some li0 =>
    dsimp only
    refine hb.setLast hl ?_
    have hk := isListTag_kctx hlist
    have h0 : BInv (kctx lst) li0 := hb.last hl
    have h1 : BInv (kctx lst) (textToP li0) := textToP_ok h0 (h0.notAtomic (Or.inl (by rw [hk]; decide)))
    cases hl1 : (textToP li0).last? with
    | none => exact h1
    | some lch =>
      dsimp only
      split
      · have hch := h1.last hl1
        refine BInv.append (h1.setLast hl1 ?_) (h1.notHr_of_last hl1) (BInv.fresh _ (by decide) (by decide) _)
        exact hch.update _ rfl hch.attrs_nil rfl (fun e => e) hch.hr_empty (fun k hk => hch.kids hk)
      · exact h1

theorem fixLast_tag (lst : Node) : (fixLast lst).tag = lst.tag := by
  unfold fixLast; split <;> rfl

theorem listP_ok {tab : Nat} {pb : PB} (hpb : PBOK pb) {state : List BState} {refs : Refs} {parent : Node} {b : Str}
    {rest : List Str} {tag : String} (htag : tag = "ol" ∨ tag = "ul")
    (hfirst : ∀ i, (getItems tab b).head? = some i → startsWith i (spaces tab) = false)
    {r : Node} {refs' : Refs} {rest' : List Str}
    (h : listP tab pb state refs parent b rest tag = some (r, refs', rest')) : StepOK parent r := by
  simp only [listP] at h
  split at h
  · -- the previous block was a list
    rename_i lst hs
    change (match pb (state ++ [.looselist]) refs (Node.el "li") [(getItems tab b).headD []] with
      | none => none
      | some (newli, refs) =>
        match listItems tab pb (state ++ [.list]) refs ((fixLast lst).append newli) ((getItems tab b).drop 1) with
        | some (lst, refs) => some (parent.setLast lst, refs, rest)
        | none => none) = some (r, refs', rest') at h
    cases hl : parent.last? with
    | none => rw [hl] at hs; cases hs
    | some sib =>
      rw [hl] at hs
      dsimp only at hs
      split at hs
      · rename_i hlist
        injection hs with hs; subst hs
        split at h
        · cases h
        · rename_i newli refs1 h1
          have s1 := hpb _ _ _ _ _ _ h1
          split at h
          · rename_i lstR refs2 h2
            injection h with h; injection h with h _; subst h
            have s2 := listItems_ok hpb _ _ _ _ _ _ h2
            refine ⟨rfl, fun hn c hb => hb.setLast hl ?_⟩
            have hn1 : NotHr (fixLast sib) := NotHr.of_tag (fixLast_tag sib) (isListTag_notHr hlist)
            refine s2.2 hn1 (Or.inl ?_) _ ?_
            · intro x hx
              rw [append_last] at hx; injection hx with hx; subst hx
              exact NotHr.of_tag s1.1 (notHr_el _ (by decide))
            · exact (fixLast_ok hlist (hb.last hl)).append hn1
                (s1.2 (notHr_el _ (by decide)) _ BInv.li)
          · cases h
      · cases hs
  · split at h
    · rename_i hlist
      split at h
      · rename_i lstR refs2 h2
        injection h with h; injection h with h _; subst h
        have s2 := listItems_ok hpb _ _ _ _ _ _ h2
        exact ⟨s2.1, fun hn c hb => s2.2 hn (Or.inr hfirst) c hb⟩
      · cases h
    · split at h
      · rename_i lstR refs2 h2
        injection h with h; injection h with h _; subst h
        have s2 := listItems_ok hpb _ _ _ _ _ _ h2
        refine ⟨rfl, fun hn c hb => hb.append hn ?_⟩
        have hfresh : ∀ c', BInv c' (Node.el tag) := by
          intro c'; rcases htag with e | e <;> subst e <;> exact BInv.el _ (by decide) (by decide)
        have hnf : NotHr (Node.el tag) := by
          rcases htag with e | e <;> subst e <;> exact notHr_el _ (by decide)
        exact s2.2 hnf (Or.inl (fun l e => by simp [Node.el, Node.last?] at e)) _ (hfresh _)
      · cases h

theorem updPath_ok (g : Node → Node) : ∀ (k : Nat) (p : Node),
    (g (nodeAt k p)).tag = (nodeAt k p).tag →
    (∀ c, BInv c (nodeAt k p) → BInv c (g (nodeAt k p))) →
    (updPath g k p).tag = p.tag ∧ ∀ c, BInv c p → BInv c (updPath g k p)
  | 0, p, ht, hg => ⟨ht, hg⟩
  | k + 1, p, ht, hg => by
    simp only [updPath]
    simp only [nodeAt] at ht hg
    cases hl : p.last? with
    | none => exact ⟨rfl, fun _ h => h⟩
    | some l =>
      rw [hl] at ht hg
      dsimp only at ht hg ⊢
      have ih := updPath_ok g k l ht hg
      exact ⟨rfl, fun c hb => hb.setLast hl (ih.2 _ (hb.last hl))⟩

/-- the node `get_level` stops at is the parent itself, a list or an item -/
def Stop (s : Nat) (n : Node) : Prop := s = 0 ∨ isListTag (nodeAt s n) = true ∨ isItemTag (nodeAt s n) = true

mutual
theorem getLevelNode_stop (il : Nat) : ∀ (level : Nat) (n : Node), Stop (getLevelNode il level n).2 n
  | level, ⟨tag, attrs, text, ta, children, tail, tla⟩ => by
    have h := getLevelKids_stop il level children
    simp only [getLevelNode]
    rcases h with h | ⟨c, s', hl, hs, hq⟩
    · exact Or.inl h
    · refine Or.inr ?_
      rw [hs]
      simp only [nodeAt, Node.last?, hl]
      exact hq
theorem getLevelKids_stop (il : Nat) : ∀ (level : Nat) (kids : List Node),
    (getLevelKids il level kids).2 = 0 ∨
    ∃ c s', kids.getLast? = some c ∧ (getLevelKids il level kids).2 = s' + 1 ∧
      (isListTag (nodeAt s' c) = true ∨ isItemTag (nodeAt s' c) = true)
  | level, [] => by simp [getLevelKids]
  | level, [c] => by
    simp only [getLevelKids]
    split
    · rename_i hc
      refine Or.inr ⟨c, _, rfl, rfl, ?_⟩
      rcases getLevelNode_stop il (if isListTag c then level + 1 else level) c with h | h
      · rw [h]; simp only [nodeAt]
        simp only [Bool.and_eq_true, Bool.or_eq_true] at hc
        exact hc.2
      · exact h
    · exact Or.inl rfl
  | level, c :: d :: r => by
    simp only [getLevelKids]
    rcases getLevelKids_stop il level (d :: r) with h | ⟨c', s', hl, hs, hq⟩
    · exact Or.inl h
    · exact Or.inr ⟨c', s', by simpa using hl, hs, hq⟩
end

theorem getLevel_notHr (tab : Nat) (state : List BState) (parent : Node) (b : Str) (hn : NotHr parent) :
    NotHr (nodeAt (getLevel tab state parent b).2 parent) := by
  simp only [getLevel]
  rcases getLevelNode_stop (if countSp b ≥ tab then countSp b / tab else 0)
    (if isstate state .list then 1 else 0) parent with h | h | h
  · rw [h]; exact hn
  · exact isListTag_notHr h
  · exact isItemTag_notHr h

theorem updPath_tag (g : Node → Node) : ∀ (k : Nat) (p : Node),
    (g (nodeAt k p)).tag = (nodeAt k p).tag → (updPath g k p).tag = p.tag
  | 0, p, ht => ht
  | k + 1, p, ht => by
    simp only [updPath]
    cases hl : p.last? with
    | none => rfl
    | some l => rfl

theorem indentP_ok {tab : Nat} {pb : PB} (hpb : PBOK pb) {state : List BState} {refs : Refs} {parent : Node} {b : Str}
    {rest : List Str} {r : Node} {refs' : Refs} {rest' : List Str}
    (h : indentP tab pb state refs parent b rest = some (r, refs', rest')) : StepOK parent r := by
  simp only [indentP, parseChunk] at h
  generalize hsib : nodeAt (getLevel tab state parent b).2 parent = sibling at h
  split at h
  · -- the parent is an item
    split at h
    · rename_i c hc
      split at h
      · rename_i sub refs1 h1
        injection h with h; injection h with h _; subst h
        have s1 := hpb _ _ _ _ _ _ h1
        cases hl : parent.last? with
        | none => rw [hl] at hc; cases hc
        | some c' =>
          rw [hl] at hc
          dsimp only at hc
          split at hc
          · rename_i hlist
            injection hc with hc; subst hc
            exact ⟨rfl, fun hn c hb => hb.setLast hl (s1.2 (isListTag_notHr hlist) _ (hb.last hl))⟩
          · cases hc
      · cases h
    · split at h
      · rename_i p1 refs1 h1
        injection h with h; injection h with h _; subst h
        exact hpb _ _ _ _ _ _ h1
      · cases h
  · split at h
    · -- the sibling is an item
      rename_i hitem
      split at h
      · rename_i sub refs1 h1
        injection h with h; injection h with h _; subst h
        have s1 := hpb _ _ _ _ _ _ h1
        have := updPath_ok (fun _ => sub) (getLevel tab state parent b).2 parent
          (by rw [hsib]; exact s1.1) (by rw [hsib]; exact fun c hb => s1.2 (isItemTag_notHr hitem) c hb)
        exact ⟨this.1, fun _ c hb => this.2 c hb⟩
      · cases h
    · split at h
      · -- the last child of the sibling is an item
        rename_i li hli
        split at h
        · rename_i li' refs1 h1
          injection h with h; injection h with h _; subst h
          have s1 := hpb _ _ _ _ _ _ h1
          cases hl : sibling.last? with
          | none => rw [hl] at hli; cases hli
          | some c' =>
            rw [hl] at hli
            dsimp only at hli
            split at hli
            · rename_i hitem
              injection hli with hli; subst hli
              have := updPath_ok (fun s => s.setLast li') (getLevel tab state parent b).2 parent rfl
                (by
                  rw [hsib]
                  intro c hb
                  refine hb.setLast hl ?_
                  have h0 := hb.last hl
                  have hna : c'.textAtomic = false :=
                    h0.notAtomic (Or.inr (by rw [(isTag_iff _ _).1 hitem]; decide))
                  exact s1.2 (NotHr.of_tag (textToP_tag c') (isItemTag_notHr hitem)) _ (textToP_ok h0 hna))
              exact ⟨this.1, fun _ c hb => this.2 c hb⟩
            · cases hli
        · cases h
      · -- `create_item`
        split at h
        · rename_i li' refs1 h1
          injection h with h; injection h with h _; subst h
          have s1 := hpb _ _ _ _ _ _ h1
          refine ⟨updPath_tag (fun s => s.append li') _ parent rfl, fun hn c hb => ?_⟩
          have hns : NotHr sibling := by rw [← hsib]; exact getLevel_notHr tab state parent b hn
          have := updPath_ok (fun s => s.append li') (getLevel tab state parent b).2 parent rfl
            (by
              rw [hsib]
              intro c hb
              exact hb.append hns (s1.2 (notHr_el _ (by decide)) _ BInv.li))
          exact this.2 c hb
        · cases h

/-! ### the first item of a list block is not indented -/

theorem countPrefix_append (ch : Char) (R : Str) (hR : ∀ c, R.head? = some c → c ≠ ch) :
    ∀ (L : Str) (lim : Option Nat), countPrefix ch lim (L ++ R) = countPrefix ch lim L
  | [], lim => by
    cases R with
    | nil => rfl
    | cons c r =>
      have : c ≠ ch := hR c rfl
      rcases lim with _ | _ | n <;> simp [countPrefix, this]
  | c :: L, lim => by
    rcases lim with _ | _ | n
    · simp only [List.cons_append, countPrefix, Option.map_none]
      rw [countPrefix_append ch R hR L none]
    · simp [countPrefix]
    · simp only [List.cons_append, countPrefix, Option.map_some]
      rw [countPrefix_append ch R hR L _]

theorem countPrefix_le_length (ch : Char) : ∀ (L : Str) (lim : Option Nat), countPrefix ch lim L ≤ L.length
  | [], lim => by rcases lim with _ | _ | n <;> simp [countPrefix]
  | c :: L, lim => by
    rcases lim with _ | _ | n
    · simp only [countPrefix, Option.map_none]
      have := countPrefix_le_length ch L none
      split <;> simp only [List.length_cons] <;> omega
    · simp [countPrefix]
    · simp only [countPrefix, Option.map_some]
      have := countPrefix_le_length ch L (some (n + 1 - 1))
      split <;> simp only [List.length_cons] <;> omega

theorem spanLen_append_nohead (p : Char → Bool) (R : Str) (hR : ∀ c, R.head? = some c → p c = false) :
    ∀ (L : Str), spanLen p (L ++ R) = spanLen p L
  | [] => by
    cases R with
    | nil => rfl
    | cons c r => simp [spanLen, hR c rfl]
  | c :: L => by
    simp only [List.cons_append, spanLen]
    rw [spanLen_append_nohead p R hR L]

theorem spanLen_le_length (p : Char → Bool) : ∀ (L : Str), spanLen p L ≤ L.length
  | [] => by simp [spanLen]
  | c :: L => by
    simp only [spanLen]
    have := spanLen_le_length p L
    split <;> simp only [List.length_cons] <;> omega

/-- the head of the rest is a newline (or there is no rest) -/
def NlHead (R : Str) : Prop := ∀ c, R.head? = some c → c = '\n'

theorem olMarker_append {R : Str} (hR : NlHead R) (L : Str) :
    olMarker (L ++ R) = (olMarker L).map (fun mr => (mr.1, mr.2 ++ R)) := by
  have hs : spanLen isDecimal (L ++ R) = spanLen isDecimal L :=
    spanLen_append_nohead _ R (fun c hc => by rw [hR c hc]; decide) L
  have hd := spanLen_le_length isDecimal L
  simp only [olMarker, hs]
  by_cases hlt : spanLen isDecimal L < L.length
  · rw [List.getElem?_append_left hlt]
    split
    · simp only [Option.map_some]
      rw [List.take_append_of_le_length (by omega), List.drop_append_of_le_length (by omega)]
    · rfl
  · have e : spanLen isDecimal L = L.length := by omega
    have h1 : (L ++ R)[spanLen isDecimal L]? ≠ some '.' := by
      rw [e, List.getElem?_append_right (Nat.le_refl _), Nat.sub_self]
      intro h
      have := hR '.' (by rw [← h]; cases R <;> rfl)
      exact absurd this (by decide)
    have h2 : L[spanLen isDecimal L]? = none := by rw [e]; simp
    simp [h1, h2]

theorem ulMarker_append {R : Str} (hR : NlHead R) (L : Str) :
    ulMarker (L ++ R) = (ulMarker L).map (fun mr => (mr.1, mr.2 ++ R)) := by
  cases L with
  | nil =>
    cases R with
    | nil => rfl
    | cons c r =>
      have := hR c rfl
      subst this
      simp [ulMarker]
  | cons c L =>
    simp only [List.cons_append, ulMarker]
    split <;> rfl

theorem nlHead_ne_space {R : Str} (hR : NlHead R) : ∀ c, R.head? = some c → c ≠ ' ' := by
  intro c hc; rw [hR c hc]; decide

theorem listItemMatch_append {R : Str} (hR : NlHead R) (tab : Nat) (ol ul : Bool) (L : Str) :
    (listItemMatch tab ol ul (L ++ R)).isSome = (listItemMatch tab ol ul L).isSome := by
  simp only [listItemMatch, countSp]
  rw [countPrefix_append ' ' R (nlHead_ne_space hR) L,
    List.drop_append_of_le_length (countPrefix_le_length ' ' L _),
    olMarker_append hR, ulMarker_append hR]
  generalize L.drop (countPrefix ' ' (some (tab - 1)) L) = s1
  cases ol <;> cases ul <;> cases olMarker s1 <;> cases ulMarker s1 <;>
    simp [countPrefix_append ' ' R (nlHead_ne_space hR)] <;> split <;> simp [*]

theorem ulMarker_olMarker {s : Str} {m : Str × Str} (h : ulMarker s = some m) : olMarker s = none := by
  cases s with
  | nil => simp [ulMarker] at h
  | cons c r =>
    simp only [ulMarker] at h
    split at h
    · rename_i hc
      have : isDecimal c = false := by
        simp only [Bool.or_eq_true, decide_eq_true_eq] at hc
        rcases hc with (hc | hc) | hc <;> subst hc <;> decide
      simp [olMarker, spanLen, this]
    · cases h

theorem listItemMatch_both {tab : Nat} {ol ul : Bool} {s : Str} (h : (listItemMatch tab ol ul s).isSome = true) :
    (listItemMatch tab true true s).isSome = true := by
  simp only [listItemMatch] at h ⊢
  generalize s.drop (countPrefix ' ' (some (tab - 1)) s) = s1 at h ⊢
  cases ho : olMarker s1 with
  | some m =>
    cases ol
    · cases ul
      · simp at h
      · cases hu : ulMarker s1 with
        | none => simp [hu] at h
        | some m' => rw [ulMarker_olMarker hu] at ho; cases ho
    · simpa [ho] using h
  | none =>
    cases ol <;> cases ul <;> simp [ho] at h ⊢ <;> exact h

/-- the content group of a list item does not start with a space -/
theorem drop_countSp_head : ∀ (r : Str), ((r.drop (countSp r)).takeWhile notNl).head? ≠ some ' '
  | [] => by simp [countSp, countPrefix]
  | c :: r => by
    simp only [countSp, countPrefix, Option.map_none]
    split
    · simp only [List.drop_succ_cons]
      exact drop_countSp_head r
    · rename_i hc
      simp only [List.drop_zero, List.takeWhile_cons]
      split
      · simp only [List.head?_cons]
        intro e; injection e with e; exact hc e
      · simp

theorem listItemMatch_content_v {tab : Nat} {ol ul : Bool} {s m c : Str} (h : listItemMatch tab ol ul s = some (m, c)) :
    c.head? ≠ some ' ' := by
  simp only [listItemMatch] at h
  split at h
  · cases h
  · split at h
    · cases h
    · injection h with h; injection h with _ h; subst h
      exact drop_countSp_head _

/-- the first item exists and does not start with a space -/
def GoodItems (items : List Str) : Prop := ∃ h t, items = h :: t ∧ h.head? ≠ some ' '

theorem modifyLast_good (line : Str) {items : List Str} (hg : GoodItems items) :
    GoodItems (modifyLast (fun l => l ++ '\n' :: line) items) := by
  obtain ⟨h, t, e, hh⟩ := hg
  subst e
  unfold modifyLast
  cases hl : (h :: t).getLast? with
  | none => exact ⟨h, t, rfl, hh⟩
  | some l =>
    dsimp only
    cases t with
    | nil =>
      simp only [List.getLast?_singleton, Option.some.injEq] at hl
      subst hl
      refine ⟨_, [], rfl, ?_⟩
      cases h with
      | nil => simp
      | cons a r => simpa using hh
    | cons b t => exact ⟨h, (b :: t).dropLast ++ [l ++ '\n' :: line], by simp [List.dropLast], hh⟩

theorem getItemsStep_good (tab : Nat) (line : Str) {items : List Str} (hg : GoodItems items) :
    GoodItems (getItemsStep tab items line) := by
  unfold getItemsStep
  have happ : ∀ x, GoodItems (items ++ [x]) := by
    intro x
    obtain ⟨h, t, e, hh⟩ := hg
    exact ⟨h, t ++ [x], by simp [e], hh⟩
  split
  · exact happ _
  · split
    · split
      · split
        · exact modifyLast_good line hg
        · exact happ _
      · exact happ _
    · exact modifyLast_good line hg

theorem foldl_good (tab : Nat) : ∀ (ls : List Str) (items : List Str), GoodItems items →
    GoodItems (ls.foldl (getItemsStep tab) items)
  | [], _, hg => hg
  | l :: ls, _, hg => foldl_good tab ls _ (getItemsStep_good tab l hg)

theorem lines_eq (s : Str) : ∃ tl, lines s = s.takeWhile notNl :: tl := by
  induction s with
  | nil => exact ⟨[], rfl⟩
  | cons c s ih =>
    obtain ⟨tl, e⟩ := ih
    simp only [lines] at e ⊢
    simp only [splitC, e, List.takeWhile_cons, notNl]
    by_cases hc : c = '\n'
    · subst hc; exact ⟨_, rfl⟩
    · simp [hc]

theorem nlHead_dropWhile : ∀ (s : Str), NlHead (s.dropWhile notNl)
  | [] => by intro c hc; cases hc
  | d :: s => by
    simp only [List.dropWhile_cons]
    split
    · exact nlHead_dropWhile s
    · rename_i hd
      intro c hc
      simp only [List.head?_cons, Option.some.injEq] at hc
      subst hc
      simpa [notNl] using hd

theorem getItems_good {tab : Nat} {ol ul : Bool} {b : Str} (h : (listItemMatch tab ol ul b).isSome = true) :
    GoodItems (getItems tab b) := by
  obtain ⟨tl, e⟩ := lines_eq b
  have hb : b = b.takeWhile notNl ++ b.dropWhile notNl := (List.takeWhile_append_dropWhile).symm
  rw [hb, listItemMatch_append (nlHead_dropWhile b)] at h
  have h2 := listItemMatch_both h
  simp only [getItems, e, List.foldl_cons]
  refine foldl_good tab tl _ ?_
  cases hm : listItemMatch tab true true (b.takeWhile notNl) with
  | none => rw [hm] at h2; cases h2
  | some mc =>
    obtain ⟨m, c⟩ := mc
    simp only [getItemsStep, hm, List.nil_append]
    exact ⟨c, [], rfl, listItemMatch_content_v hm⟩

theorem getItems_first {tab : Nat} (htab : 0 < tab) {ol ul : Bool} {b : Str}
    (h : (listItemMatch tab ol ul b).isSome = true) :
    ∀ i, (getItems tab b).head? = some i → startsWith i (spaces tab) = false := by
  obtain ⟨hd, t, e, hh⟩ := getItems_good h
  intro i hi
  rw [e] at hi
  simp only [List.head?_cons, Option.some.injEq] at hi
  subst hi
  obtain ⟨n, rfl⟩ : ∃ n, tab = n + 1 := ⟨tab - 1, by omega⟩
  cases hd with
  | nil => simp [spaces, List.replicate, startsWith]
  | cons a r =>
    simp only [List.head?_cons, ne_eq, Option.some.injEq] at hh
    simp [spaces, List.replicate, startsWith, hh]

theorem stepOK_of_some {p : Node} {x : Node × Refs × List Str} {r : Node} {a : Refs} {b : List Str}
    (hx : StepOK p x.1) (h : some x = some (r, a, b)) : StepOK p r := by
  injection h with h; subst h; exact hx

theorem startsWith_nil' (s : Str) : startsWith s [] = true := by cases s <;> rfl

theorem dispatch_ok {tab : Nat} {pb : PB} (hpb : PBOK pb) {state : List BState} {refs : Refs} {parent : Node} {b : Str}
    {rest : List Str} {r : Node} {refs' : Refs} {rest' : List Str}
    (h : dispatch tab pb state refs parent b rest = some (r, refs', rest')) : StepOK parent r := by
  unfold dispatch at h
  cases hl : parent.last? <;> rw [hl] at h <;> dsimp only at h
  all_goals
    split at h
    · exact stepOK_of_some (emptyP_ok _ _ _ _) h
    · split at h
      · exact indentP_ok hpb h
      · split at h
        · exact stepOK_of_some (codeP_ok _ _ _ _ _) h
        · rename_i hsp
          have htab : 0 < tab := by
            cases tab with
            | zero => exact absurd (startsWith_nil' b) hsp
            | succ n => omega
          split at h
          · rename_i m hm
            obtain ⟨st, en, lv, hd⟩ := m
            exact hashP_ok hpb (hashSearch_level hm) h
          · split at h
            · exact stepOK_of_some (setextP_ok _ _ _ _) h
            · split at h
              · exact hrP_ok hpb h
              · split at h
                · rename_i hl
                  exact listP_ok hpb (Or.inl rfl) (getItems_first htab hl) h
                · split at h
                  · rename_i hl
                    exact listP_ok hpb (Or.inr rfl) (getItems_first htab hl) h
                  · split at h
                    · exact quoteP_ok hpb h
                    · split at h
                      · exact stepOK_of_some (referenceP_ok _ _ _ _ _) h
                      · exact stepOK_of_some (paraP_ok _ _ _ _ _) h

theorem parseBlocks_ok (tab : Nat) : ∀ (fuel : Nat), PBOK (parseBlocks tab fuel)
  | 0 => by
    intro st refs p blocks r refs' h
    cases blocks with
    | nil => simp only [parseBlocks] at h; injection h with h; injection h with h _; subst h; exact StepOK.refl _
    | cons b rest => simp [parseBlocks] at h
  | f + 1 => by
    have ih := parseBlocks_ok tab f
    intro st refs p blocks
    induction blocks generalizing refs p with
    | nil =>
      intro r refs' h
      simp only [parseBlocks] at h; injection h with h; injection h with h _; subst h; exact StepOK.refl _
    | cons b rest _ =>
      intro r refs' h
      simp only [parseBlocks] at h
      split at h
      · rename_i p1 refs1 blocks1 hd
        exact (dispatch_ok ih hd).trans (ih _ _ _ _ _ _ h)
      · cases h

/-- the block invariant of the document tree -/
theorem parseDocument_ok {tab : Nat} {text : Str} {root : Node} {refs : Refs}
    (h : parseDocument tab text = some (root, refs)) :
    root.tag = .name "div".toList ∧ BInv .top root := by
  simp only [parseDocument, parseDocumentWith, parseChunk] at h
  have s := parseBlocks_ok tab _ _ _ _ _ _ _ h
  refine ⟨s.1, s.2 (notHr_el _ (by decide)) _ ?_⟩
  refine ⟨"div".toList, rfl, by simp [tagOk], rfl, rfl, ?_, fun e => absurd e (by decide), ?_⟩
  · intro e; simp [Node.el] at e
  · intro k hk; simp [Node.el] at hk

/-! ### 4. from the invariant to the specification predicates -/

theorem vocabNodes_of_forall : ∀ (l : List Node), (∀ k, k ∈ l → vocabNode k = true) → vocabNodes l = true
  | [], _ => by simp [vocabNodes]
  | n :: r, h => by
    rw [vocabNodes_cons, Bool.and_eq_true]
    exact ⟨h n List.mem_cons_self, vocabNodes_of_forall r (fun k hk => h k (List.mem_cons_of_mem _ hk))⟩

theorem voidOkNodes_of_forall : ∀ (l : List Node), (∀ k, k ∈ l → voidOk k = true) → voidOkNodes l = true
  | [], _ => by simp [voidOkNodes]
  | n :: r, h => by
    rw [voidOkNodes_cons, Bool.and_eq_true]
    exact ⟨h n List.mem_cons_self, voidOkNodes_of_forall r (fun k hk => h k (List.mem_cons_of_mem _ hk))⟩

theorem noAttrsNodes_of_forall : ∀ (l : List Node), (∀ k, k ∈ l → noAttrs k = true) → noAttrsNodes l = true
  | [], _ => by simp [noAttrsNodes]
  | n :: r, h => by
    simp only [noAttrsNodes, Bool.and_eq_true]
    exact ⟨h n List.mem_cons_self, noAttrsNodes_of_forall r (fun k hk => h k (List.mem_cons_of_mem _ hk))⟩

theorem atomicOnlyCodeNodes_of_forall (b : Bool) : ∀ (l : List Node),
    (∀ k, k ∈ l → atomicOnlyCode b k = true) → atomicOnlyCodeNodes b l = true
  | [], _ => by simp [atomicOnlyCodeNodes]
  | n :: r, h => by
    simp only [atomicOnlyCodeNodes, Bool.and_eq_true]
    exact ⟨h n List.mem_cons_self, atomicOnlyCodeNodes_of_forall b r (fun k hk => h k (List.mem_cons_of_mem _ hk))⟩

theorem isBlockTag_isVocabTag {t : Str} (h : isBlockTag t = true) : isVocabTag t = true := by
  simp only [isBlockTag, blockTags, List.any_cons, List.any_nil, Bool.or_false, Bool.or_eq_true,
    decide_eq_true_eq] at h
  rcases h with h | h | h | h | h | h | h | h | h | h | h | h | h | h <;> subst h <;> decide

theorem isBlockTag_void {t : Str} (h : isBlockTag t = true) (hv : isVoidTag t = true) : t = "hr".toList := by
  simp only [isBlockTag, blockTags, List.any_cons, List.any_nil, Bool.or_false, Bool.or_eq_true,
    decide_eq_true_eq] at h
  rcases h with h | h | h | h | h | h | h | h | h | h | h | h | h | h <;> subst h <;> first | rfl | (revert hv; decide)

theorem tagOk_other {c : Ctx} {t : Str} (hc : c ≠ .top) (h : tagOk c t = true) : isBlockTag t = true := by
  simp only [tagOk, Bool.or_eq_true, Bool.and_eq_true, beq_iff_eq] at h
  rcases h with h | h
  · exact h
  · exact absurd h.1 hc

theorem kidCtx_ne_top (t : Str) : kidCtx t ≠ .top := by
  unfold kidCtx; split <;> decide

theorem BInv.vocabNode {c : Ctx} {n : Node} (h : BInv c n) (hc : c ≠ .top) : vocabNode n = true := by
  induction h with
  | @mk c n t htag hok hattrs htl hta hhr hkids ih =>
    obtain ⟨tag, attrs, text, ta, children, tail, tla⟩ := n
    simp only at htag hattrs
    subst htag; subst hattrs
    simp only [Vocab.vocabNode, attrsOk, List.all_nil, Ser.keysNodup, Bool.and_true, Bool.and_eq_true]
    exact ⟨isBlockTag_isVocabTag (tagOk_other hc hok),
      vocabNodes_of_forall _ (fun k hk => ih k hk (kidCtx_ne_top t))⟩

theorem BInv.voidOk {c : Ctx} {n : Node} (h : BInv c n) (hc : c ≠ .top) : voidOk n = true := by
  induction h with
  | @mk c n t htag hok hattrs htl hta hhr hkids ih =>
    obtain ⟨tag, attrs, text, ta, children, tail, tla⟩ := n
    simp only at htag hhr
    subst htag
    simp only [Vocab.voidOk, Bool.and_eq_true, Bool.or_eq_true, Bool.not_eq_true']
    refine ⟨?_, voidOkNodes_of_forall _ (fun k hk => ih k hk (kidCtx_ne_top t))⟩
    cases hv : isVoidTag t with
    | false => exact Or.inl rfl
    | true =>
      have := hhr (isBlockTag_void (tagOk_other hc hok) hv)
      exact Or.inr (by simp [this.1, this.2])

theorem onlyTagsNodes_of_forall (ts : List String) : ∀ (l : List Node),
    (∀ k, k ∈ l → onlyTags ts k = true) → onlyTagsNodes ts l = true
  | [], _ => by simp [onlyTagsNodes]
  | n :: r, h => by
    simp only [onlyTagsNodes, Bool.and_eq_true]
    exact ⟨h n List.mem_cons_self, onlyTagsNodes_of_forall ts r (fun k hk => h k (List.mem_cons_of_mem _ hk))⟩

theorem BInv.onlyTags {c : Ctx} {n : Node} (h : BInv c n) (hc : c ≠ .top) : onlyTags blockStageTags n = true := by
  induction h with
  | @mk c n t htag hok hattrs htl hta hhr hkids ih =>
    obtain ⟨tag, attrs, text, ta, children, tail, tla⟩ := n
    simp only at htag
    subst htag
    simp only [Vocab.onlyTags, Bool.and_eq_true]
    exact ⟨tagOk_other hc hok, onlyTagsNodes_of_forall _ _ (fun k hk => ih k hk (kidCtx_ne_top t))⟩

theorem BInv.noAttrs {c : Ctx} {n : Node} (h : BInv c n) : noAttrs n = true := by
  induction h with
  | @mk c n t htag hok hattrs htl hta hhr hkids ih =>
    obtain ⟨tag, attrs, text, ta, children, tail, tla⟩ := n
    simp only at hattrs
    subst hattrs
    simp only [Vocab.noAttrs, List.isEmpty_nil, Bool.true_and]
    exact noAttrsNodes_of_forall _ ih

theorem BInv.atomicOnlyCode {c : Ctx} {n : Node} (h : BInv c n) : atomicOnlyCode (c == .pre) n = true := by
  induction h with
  | @mk c n t htag hok hattrs htl hta hhr hkids ih =>
    obtain ⟨tag, attrs, text, ta, children, tail, tla⟩ := n
    simp only at htag htl hta
    subst htag; subst htl
    simp only [Vocab.atomicOnlyCode, Bool.not_false, Bool.and_true, Bool.and_eq_true, Bool.or_eq_true,
      Bool.not_eq_true', beq_iff_eq]
    refine ⟨?_, ?_⟩
    · cases ta with
      | false => exact Or.inl rfl
      | true => obtain ⟨h1, h2⟩ := hta rfl; exact Or.inr ⟨h1, by rw [h2]⟩
    · have e : (Tag.name t == Tag.name "pre".toList) = (kidCtx t == Ctx.pre) := by
        unfold kidCtx
        by_cases ht : t = "pre".toList
        · subst ht; rfl
        · have : (Tag.name t == Tag.name "pre".toList) = false := by
            rw [beq_eq_false_iff_ne]; intro e; injection e with e; exact ht e
          rw [this, if_neg ht]; rfl
      rw [e]
      exact atomicOnlyCodeNodes_of_forall _ _ ih

theorem BInv.vocabDoc {root : Node} (h : BInv .top root) (htag : root.tag = .name "div".toList) :
    vocabDoc root = true := by
  obtain ⟨t, htag', _, hattrs, _, _, _, hkids⟩ := h
  have ht : t = "div".toList := by rw [htag] at htag'; injection htag' with e; exact e.symm
  subst ht
  simp only [Vocab.vocabDoc, Bool.and_eq_true, beq_iff_eq, List.isEmpty_iff]
  exact ⟨⟨⟨htag, hattrs⟩, vocabNodes_of_forall _ (fun k hk => (hkids k hk).vocabNode (by decide))⟩,
    voidOkNodes_of_forall _ (fun k hk => (hkids k hk).voidOk (by decide))⟩

end MdVerif.Block
