/-
C06 on the extended block parser, part 3: `TableProcessor.run` (`tableP`).  The element it appends shows exactly the
cell texts of `Tables.tableRun`, row by row; the delimiter row shows nothing; cells added by padding are empty.
Core Lean only.
-/
import MdVerif.Lemmas.ConserveXAdm
import MdVerif.Lemmas.Tables

namespace MdVerif.ConserveX
open Py Block BlockExt Letters

variable {L : Char → Bool}

theorem kidsOk_of_forall : ∀ {kids : List Node}, (∀ k ∈ kids, nodeOk L k = true) → kidsOk L kids = true
  | [], _ => rfl
  | c :: r, h => by
    simp only [kidsOk, Bool.and_eq_true]
    exact ⟨h c (by simp), kidsOk_of_forall (fun k hk => h k (List.mem_cons_of_mem _ hk))⟩

/-- an element without text around children that are not `code` -/
theorem wrap_spec (tag : String) (hs : tailSafe (Node.el tag) = true) (hc : (Node.el tag).isTag "code" = false)
    {kids : List Node} (hk : ∀ k ∈ kids, nodeOk L k = true ∧ k.isTag "code" = false) :
    nodeOk L { Node.el tag with children := kids } = true ∧
      docLetters L { Node.el tag with children := kids } = kidsLetters L kids := by
  constructor
  · rw [nodeOk_eq, Bool.and_eq_true]
    refine ⟨?_, kidsOk_of_forall (fun k h => (hk k h).1)⟩
    simp only [localOk, Bool.and_eq_true]
    refine ⟨⟨?_, ?_⟩, ?_⟩
    · rw [Bool.or_eq_true]; left; exact hs
    · apply preOk_of_not_pre
      have : tailSafe { Node.el tag with children := kids } = true := hs
      simp only [tailSafe, Bool.not_eq_true', Bool.or_eq_false_iff] at this
      exact this.2
    · simp only [kidsGood, Bool.or_eq_true, List.all_eq_true, Bool.not_eq_true']
      right; intro k h; exact (hk k h).2
  · rw [docLetters_eq]
    have : textLetters L ({ Node.el tag with children := kids } : Node).tag
        ({ Node.el tag with children := kids } : Node).text = [] := by
      have hne : ¬ (Node.el tag).tag = Tag.name "code".toList := by
        intro e; rw [isTag_iff.mpr e] at hc; cases hc
      simp only [textLetters]
      rw [if_neg hne]; rfl
    rw [this]; rfl

theorem cellNode_spec {tag : String} (htag : tag = "th" ∨ tag = "td") (t : Str) (a : Option Tables.Align) :
    nodeOk L (cellNode tag t a) = true ∧ (cellNode tag t a).isTag "code" = false ∧
      docLetters L (cellNode tag t a) ++ optLetters L (cellNode tag t a).tail = letters L t := by
  rcases htag with e | e <;> subst e
  · refine ⟨leaf_ok (by rfl) rfl, by rfl, ?_⟩
    rw [leaf_doc (by rfl) rfl rfl]; simp [cellNode, optLetters, Node.el]
  · refine ⟨leaf_ok (by rfl) rfl, by rfl, ?_⟩
    rw [leaf_doc (by rfl) rfl rfl]; simp [cellNode, optLetters, Node.el]

theorem zipCells_spec {tag : String} (htag : tag = "th" ∨ tag = "td") :
    ∀ (ts : List Str) (as : List (Option Tables.Align)), ts.length = as.length →
      (∀ k ∈ zipCells tag ts as, nodeOk L k = true ∧ k.isTag "code" = false) ∧
        kidsLetters L (zipCells tag ts as) = queueLetters L ts
  | [], [], _ => ⟨by simp [zipCells], rfl⟩
  | [], _ :: _, h => by simp at h
  | _ :: _, [], h => by simp at h
  | t :: ts, a :: as, h => by
    obtain ⟨h1, h2⟩ := zipCells_spec htag ts as (by simpa using h)
    obtain ⟨c1, c2, c3⟩ := cellNode_spec (L := L) htag t a
    constructor
    · intro k hk
      simp only [zipCells, List.mem_cons] at hk
      rcases hk with hk | hk
      · rw [hk]; exact ⟨c1, c2⟩
      · exact h1 k hk
    · simp only [zipCells, kidsLetters, queueLetters_cons, h2, c3]

/-- the text cells of a table, row by row (a cell made by `_build_empty_row` has no text) -/
def rowCells (r : List (Option Str)) : List Str := if r.all Option.isSome then r.map (fun c => c.getD []) else []

def cellsOf (t : Tables.Table) : List Str := t.head ++ t.body.flatMap rowCells

/-- the widths agree (what `Tables.tableRun_widths` proves of `tableRun`) -/
def TableWF (t : Tables.Table) : Prop :=
  t.head.length = t.align.length ∧ ∀ r ∈ t.body, r.length = t.align.length

theorem bodyRow_spec (align : List (Option Tables.Align)) (cells : List (Option Str)) (hw : cells.length = align.length) :
    nodeOk L (bodyRow align cells) = true ∧ (bodyRow align cells).isTag "code" = false ∧
      docLetters L (bodyRow align cells) ++ optLetters L (bodyRow align cells).tail =
        queueLetters L (rowCells cells) := by
  simp only [bodyRow, rowCells]
  split
  · obtain ⟨h1, h2⟩ := zipCells_spec (L := L) (Or.inr rfl) (cells.map (fun c => c.getD [])) align (by simpa using hw)
    obtain ⟨w1, w2⟩ := wrap_spec (L := L) "tr" (by rfl) (by rfl) h1
    exact ⟨w1, by rfl, by rw [w2, h2]; simp [optLetters, Node.el]⟩
  · rename_i hsome
    have hk : ∀ k ∈ cells.map (fun _ => Node.el "td"), nodeOk L k = true ∧ k.isTag "code" = false := by
      intro k hk
      simp only [List.mem_map] at hk
      obtain ⟨_, _, rfl⟩ := hk
      exact ⟨el_nodeOk "td", by rfl⟩
    obtain ⟨w1, w2⟩ := wrap_spec (L := L) "tr" (by rfl) (by rfl) hk
    refine ⟨w1, by rfl, ?_⟩
    rw [w2]
    have : kidsLetters L (cells.map (fun _ => Node.el "td")) = [] := by
      clear hk w1 w2 hw hsome
      induction cells with
      | nil => rfl
      | cons c r ih =>
        simp only [List.map_cons, kidsLetters, ih, el_doc]
        simp [optLetters, Node.el]
    rw [this]; simp [optLetters, Node.el]

theorem rows_spec (align : List (Option Tables.Align)) : ∀ (body : List (List (Option Str))),
    (∀ r ∈ body, r.length = align.length) →
      (∀ k ∈ body.map (bodyRow align), nodeOk L k = true ∧ k.isTag "code" = false) ∧
        kidsLetters L (body.map (bodyRow align)) = queueLetters L (body.flatMap rowCells)
  | [], _ => ⟨by simp, rfl⟩
  | r :: body, h => by
    obtain ⟨h1, h2⟩ := rows_spec align body (fun r' hr' => h r' (List.mem_cons_of_mem _ hr'))
    obtain ⟨b1, b2, b3⟩ := bodyRow_spec (L := L) align r (h r (by simp))
    constructor
    · intro k hk
      simp only [List.map_cons, List.mem_cons] at hk
      rcases hk with hk | hk
      · rw [hk]; exact ⟨b1, b2⟩
      · exact h1 k hk
    · simp only [List.map_cons, kidsLetters, List.flatMap_cons, queueLetters_append, h2]
      rw [b3]

/-- **the element `TableProcessor.run` builds** shows exactly the cell texts, row by row -/
theorem tableNode_spec {t : Tables.Table} (hw : TableWF t) :
    nodeOk L (tableNode t) = true ∧ (tableNode t).isTag "code" = false ∧
      docLetters L (tableNode t) ++ optLetters L (tableNode t).tail = queueLetters L (cellsOf t) := by
  obtain ⟨z1, z2⟩ := zipCells_spec (L := L) (Or.inl rfl) t.head t.align hw.1
  obtain ⟨tr1, tr2⟩ := wrap_spec (L := L) "tr" (by rfl) (by rfl) z1
  have hthead : ∀ k ∈ [({ Node.el "tr" with children := zipCells "th" t.head t.align } : Node)],
      nodeOk L k = true ∧ k.isTag "code" = false := by
    intro k hk; simp only [List.mem_singleton] at hk; rw [hk]; exact ⟨tr1, by rfl⟩
  obtain ⟨th1, th2⟩ := wrap_spec (L := L) "thead" (by rfl) (by rfl) hthead
  obtain ⟨r1, r2⟩ := rows_spec (L := L) t.align t.body hw.2
  obtain ⟨tb1, tb2⟩ := wrap_spec (L := L) "tbody" (by rfl) (by rfl) r1
  have hkids : ∀ k ∈ [({ Node.el "thead" with children :=
        [{ Node.el "tr" with children := zipCells "th" t.head t.align }] } : Node),
      { Node.el "tbody" with children := t.body.map (bodyRow t.align) }],
      nodeOk L k = true ∧ k.isTag "code" = false := by
    intro k hk
    simp only [List.mem_cons, List.not_mem_nil, or_false] at hk
    rcases hk with hk | hk
    · rw [hk]; exact ⟨th1, by rfl⟩
    · rw [hk]; exact ⟨tb1, by rfl⟩
  obtain ⟨t1, t2⟩ := wrap_spec (L := L) "table" (by rfl) (by rfl) hkids
  refine ⟨t1, by rfl, ?_⟩
  simp only [tableNode]
  rw [t2]
  simp only [kidsLetters, th2, tb2, tr2, z2, r2, cellsOf, queueLetters_append]
  simp [optLetters, Node.el]

/-- **`TableProcessor.run`**: the block is replaced by a `table` that shows the cell texts of `tableRun`, row by row,
    and nothing else (the delimiter row is not rendered; a row shorter than the header is padded with empty cells; of
    a row longer than the header only the first cells are cells of `tableRun`: `Tables.buildRow`) -/
theorem tableP_step {tab : Nat} {state : List BState} {refs refs' : Refs} {parent parent' : Node} {b : Str}
    {rest blocks' : List Str} (hinv : inv L tab state parent (b :: rest) = true) {bs : Nat × List Str}
    (hr : tableP refs parent b rest bs = (parent', refs', blocks')) :
    StepWith L tab state parent (queueLetters L (cellsOf (Tables.tableRun bs.1 bs.2 b))) rest parent' blocks' := by
  obtain ⟨hok, hpl, hli⟩ := inv_iff.mp hinv
  have hplr : ∀ y ∈ rest, plain y = true := fun y hy => hpl y (List.mem_cons_of_mem _ hy)
  simp only [tableP, Prod.mk.injEq] at hr
  obtain ⟨rfl, _, rfl⟩ := hr
  have hw : TableWF (Tables.tableRun bs.1 bs.2 b) := by
    obtain ⟨w1, w2, w3⟩ := Tables.tableRun_widths bs.1 bs.2 b
    exact ⟨by rw [w2, w1], fun r hr => by rw [w3 r hr, w1]⟩
  obtain ⟨n1, n2, n3⟩ := tableNode_spec (L := L) hw
  have hp := Post.append (L := L) hok n1 n2
  rw [n3] at hp
  exact ⟨by rw [hp.doc], inv_iff.mpr ⟨hp.ok, hplr, listInv_requeue hli hp.tag (Or.inl rfl)⟩, hp.tag, hp.tail⟩

/-! ### the cells of a row: the first `n` cells of `_split_row`, stripped; missing cells are empty -/

theorem letters_stripSp (h : LetterClass L) (s : Str) : letters L (stripC ' ' s) = letters L s := by
  simp only [stripC, stripP]
  rw [letters_rstripP (fun c hc => by simp only [decide_eq_true_eq] at hc; subst hc; exact h.sp),
    letters_lstripP (fun c hc => by simp only [decide_eq_true_eq] at hc; subst hc; exact h.sp)]

theorem cellAt_cons_succ (c : Str) (cs : List Str) (i : Nat) : Tables.cellAt (c :: cs) (i + 1) = Tables.cellAt cs i := by
  simp [Tables.cellAt]

theorem buildRow_cells (h : LetterClass L) : ∀ (n : Nat) (cells : List Str),
    queueLetters L ((List.range n).map (Tables.cellAt cells)) = queueLetters L (cells.take n)
  | 0, _ => by simp
  | n + 1, [] => by
    have : ∀ m, queueLetters L ((List.range m).map (Tables.cellAt [])) = [] := by
      intro m
      induction m with
      | zero => rfl
      | succ m ih => simp [List.range_succ, queueLetters_append, ih, Tables.cellAt]
    rw [this]; rfl
  | n + 1, c :: cs => by
    rw [List.range_succ_eq_map, List.map_cons, List.map_map]
    have e : (Tables.cellAt (c :: cs)) ∘ Nat.succ = Tables.cellAt cs := by
      funext i; exact cellAt_cons_succ c cs i
    rw [e, queueLetters_cons, buildRow_cells h n cs]
    simp [Tables.cellAt, letters_stripSp h]

/-- **the cells of a row**: `_build_row` shows the first `n` cells of `_split_row` (`n` = width of the header) —
    cells beyond the header width are DROPPED, missing cells are empty -/
theorem buildRow_letters (h : LetterClass L) (n : Nat) (row : Str) (border : Nat) :
    queueLetters L (Tables.buildRow n row border) = queueLetters L ((Tables.splitRow border row).take n) :=
  buildRow_cells h n _

end MdVerif.ConserveX
