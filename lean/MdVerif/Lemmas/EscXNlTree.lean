/-
Helper lemmas for `Props/C07X.lean`, `nl2br` with line feeds in the text — the stages after the inline processor on
`<div><p>first line<br/>line<br/>line …</p></div>`: footnote duplicates, prettify (a `br` gets `"\n"` in front of its
tail), attr_list, abbr, toc, unescape, the serializer and the end of `convert`.  Core Lean only.

The domain predicate for `nl2br` is defined here: `nlInk` (every line after the first has a character that is not
white space — `PrettifyTreeprocessor` replaces a blank tail of a `br` by `"\n"`).
-/
import MdVerif.Lemmas.EscXNl
import MdVerif.Lemmas.EscXTree

namespace MdVerif.EscX
open Py Inline Escape

/-! ### vocabulary -/

/-- every line feed of the text is followed by a line that has a character other than white space -/
def nlInk : Str → Bool
  | [] => true
  | c :: r => (c != '\n' || !isBlank (Block.firstLine r)) && nlInk r

/-- `nlInk`, line by line: no line after the first is white space only -/
theorem nlInk_eq_lines (t : Str) : nlInk t = ((lines t).tail).all (fun l => !isBlank l) := by
  induction t with
  | nil => rfl
  | cons c r ih =>
    rw [lines_tail_cons]
    by_cases hc : c = '\n'
    · subst hc
      simp only [nlInk, if_true, ih]
      rw [lines_head r]
      simp
    · simp [nlInk, hc, ih]

/-- a `br` after `PrettifyTreeprocessor`: the tail starts with a line feed -/
def brP (X : Str) : Node := { mkEl "br" with tail := some ('\n' :: X) }

/-- one prettified `br` per line feed of `t`; `f` = `coded esc` before `UnescapeTreeprocessor`, `id` after it -/
def brNodesP (f : Str → Str) : Str → List Node
  | [] => []
  | c :: r => if c = '\n' then brP (f (Block.firstLine r)) :: brNodesP f r else brNodesP f r

/-- `<div>\n<p>first line<br/>\nline<br/>\nline …</p>\n</div>\n` as a tree -/
def prettyDocNl (f : Str → Str) (t : Str) : Node :=
  { tag := .name "div".toList, text := some ['\n'],
    children := [{ tag := .name "p".toList, text := some (f (Block.firstLine t)), children := brNodesP f t,
                   tail := some ['\n'] }],
    tail := some ['\n'] }

/-- `s` with `b` in front of every line feed: `s.replace("\n", b + "\n")` -/
def brText (b : Str) : Str → Str
  | [] => []
  | c :: r => if c = '\n' then b ++ '\n' :: brText b r else c :: brText b r

theorem brText_eq_replace (b s : Str) : brText b s = replace s ['\n'] (b ++ ['\n']) := by
  rw [replace_single]
  induction s with
  | nil => rfl
  | cons c r ih => by_cases h : c = '\n' <;> simp [brText, h, ih]

theorem brText_of_no_nl (b : Str) {s : Str} (h : '\n' ∉ s) : brText b s = s := by
  induction s with
  | nil => rfl
  | cons c r ih =>
    have hc : c ≠ '\n' := fun e => h (e ▸ List.mem_cons_self)
    simp [brText, hc, ih (fun hh => h (List.mem_cons_of_mem _ hh))]

/-! ### the `br` lists -/

theorem brNodes_forall (esc : List Char) (P : Node → Prop) (h : ∀ X, P (brTail X)) (t : Str) :
    ∀ b ∈ brNodes esc t, P b := by
  induction t with
  | nil => intro b hb; simp [brNodes] at hb
  | cons c r ih =>
    intro b hb
    by_cases hc : c = '\n'
    · simp only [brNodes, hc, if_true, List.mem_cons] at hb
      rcases hb with rfl | hb
      · exact h _
      · exact ih b hb
    · simp only [brNodes, hc, if_false] at hb
      exact ih b hb

theorem brNodesP_forall (f : Str → Str) (P : Node → Prop) (h : ∀ X, P (brP (f X))) (t : Str) :
    ∀ b ∈ brNodesP f t, P b := by
  induction t with
  | nil => intro b hb; simp [brNodesP] at hb
  | cons c r ih =>
    intro b hb
    by_cases hc : c = '\n'
    · simp only [brNodesP, hc, if_true, List.mem_cons] at hb
      rcases hb with rfl | hb
      · exact h _
      · exact ih b hb
    · simp only [brNodesP, hc, if_false] at hb
      exact ih b hb

theorem brTail_tag (X : Str) : (brTail X).tag = .name "br".toList ∧ (brTail X).children = [] ∧
    (brTail X).attrs = [] ∧ (brTail X).text = none := by
  unfold brTail; split <;> exact ⟨rfl, rfl, rfl, rfl⟩

/-! ### footnote duplicates -/

theorem duplicatesKids_br (fn : Footnotes.State) (l : List Node)
    (h : ∀ b ∈ l, b.tag = .name "br".toList ∧ b.children = []) :
    FootnotesTree.duplicatesKids fn l = some l := by
  induction l with
  | nil => rfl
  | cons b r ih =>
    obtain ⟨hb1, hb2⟩ := h b List.mem_cons_self
    have hb : FootnotesTree.duplicates fn b = some b := by
      obtain ⟨tag, attrs, text, ta, children, tail, tla⟩ := b
      simp only at hb1 hb2
      subst hb1 hb2
      have : (Tag.name "br".toList == Tag.name "div".toList) = false := by decide
      simp [FootnotesTree.duplicates, FootnotesTree.duplicatesKids]
    simp only [FootnotesTree.duplicatesKids, hb, ih (fun c hc => h c (List.mem_cons_of_mem _ hc))]

theorem duplicates_paragraph_nl (fn : Footnotes.State) (esc : List Char) (t : Str) :
    FootnotesTree.duplicates fn ((Node.el "div").append (pNode esc t)) =
      some ((Node.el "div").append (pNode esc t)) := by
  have hk := duplicatesKids_br fn (brNodes esc t)
    (brNodes_forall esc _ (fun X => ⟨(brTail_tag X).1, (brTail_tag X).2.1⟩) t)
  have h1 : (Tag.name ['d', 'i', 'v'] == Tag.name ['d', 'i', 'v']) = true := by decide
  have h2 : (Tag.name ['p'] == Tag.name ['d', 'i', 'v']) = false := by decide
  simp [FootnotesTree.duplicates, FootnotesTree.duplicatesKids, Node.append, Node.el, pNode, Block.mkText, h2, hk]

/-! ### prettify -/

theorem isBlank_coded {esc : List Char} (l : Str) (h : isBlank l = false) : isBlank (coded esc l) = false := by
  induction l with
  | nil => simp [isBlank] at h
  | cons c r ih =>
    by_cases hc : c ∈ esc
    · simp only [coded, List.contains_eq_mem, hc, decide_true, if_true, escCode, List.cons_append, isBlank,
        List.all_cons]
      have : isSpace Inline.STX = false := by decide
      simp [this]
    · simp only [coded, List.contains_eq_mem, hc, decide_false, Bool.false_eq_true, if_false, isBlank,
        List.all_cons, Bool.and_eq_false_iff] at h ⊢
      rcases h with h | h
      · exact Or.inl h
      · exact Or.inr (by simpa [isBlank] using ih (by simpa [isBlank] using h))

theorem brRule_brTail (X : Str) (h : isBlank X = false) : TreeProc.brRule (brTail X) = brP X := by
  have hX : X.isEmpty = false := by
    cases X with
    | nil => simp [isBlank] at h
    | cons => rfl
  have ht : TreeProc.tagIs { mkEl "br" with tail := some X } "br" = true := by
    simp only [TreeProc.tagIs, mkEl]; decide
  have hb : TreeProc.blankOrNone (some X) = false := by
    cases X with
    | nil => simp at hX
    | cons a b => simp [TreeProc.blankOrNone, Node.truthy, h]
  simp [brTail, hX, TreeProc.brRule, ht, hb, brP]
  rfl

theorem prettifyKids_br (bl : List Str) (hbl : TreeProc.isBlockLevel bl (.name "br".toList) = false) (l : List Node)
    (h : ∀ b ∈ l, b.tag = .name "br".toList) : TreeProc.prettifyKids bl l = l := by
  induction l with
  | nil => rfl
  | cons b r ih =>
    have hb := h b List.mem_cons_self
    simp only [TreeProc.prettifyKids, hb, hbl, Bool.false_eq_true, if_false,
      ih (fun c hc => h c (List.mem_cons_of_mem _ hc))]

theorem mapTree_leaf (f : Node → Node) (n : Node) (h : n.children = []) : TreeProc.mapTree f n = f n := by
  obtain ⟨tag, attrs, text, ta, children, tail, tla⟩ := n
  simp only at h
  subst h
  simp [TreeProc.mapTree, TreeProc.mapKids]

theorem mapKids_brRule (esc : List Char) (t : Str) (h : nlInk t = true) :
    TreeProc.mapKids TreeProc.brRule (brNodes esc t) = brNodesP (coded esc) t := by
  induction t with
  | nil => rfl
  | cons c r ih =>
    simp only [nlInk, Bool.and_eq_true, Bool.or_eq_true, bne_iff_ne, ne_eq, Bool.not_eq_true'] at h
    by_cases hc : c = '\n'
    · have hb : isBlank (Block.firstLine r) = false := by
        rcases h.1 with h1 | h1
        · exact absurd hc h1
        · exact h1
      simp only [brNodes, brNodesP, hc, if_true, TreeProc.mapKids,
        mapTree_leaf _ _ (brTail_tag _).2.1, brRule_brTail _ (isBlank_coded _ hb), ih h.2]
    · simp only [brNodes, brNodesP, hc, if_false, ih h.2]

theorem mapKids_preRule (f : Str → Str) (t : Str) :
    TreeProc.mapKids TreeProc.preRule (brNodesP f t) = brNodesP f t := by
  induction t with
  | nil => rfl
  | cons c r ih =>
    by_cases hc : c = '\n'
    · have hp : TreeProc.preRule (brP (f (Block.firstLine r))) = brP (f (Block.firstLine r)) := by
        have : TreeProc.tagIs (brP (f (Block.firstLine r))) "pre" = false := by
          simp only [TreeProc.tagIs, brP, mkEl]; decide
        simp [TreeProc.preRule, this]
      simp only [brNodesP, hc, if_true, TreeProc.mapKids, mapTree_leaf _ _ (show (brP _).children = [] from rfl),
        hp, ih]
    · simp only [brNodesP, hc, if_false, ih]

theorem prettifyETree_p (X : Str) (kids : List Node) (hk : ∀ b ∈ kids, b.tag = .name "br".toList) :
    TreeProc.prettifyETree TreeProc.defaultBlockLevel
        { tag := .name "p".toList, text := some X, children := kids } =
      { tag := .name "p".toList, text := some X, children := kids, tail := some ['\n'] } := by
  have h2 : TreeProc.isBlockLevel TreeProc.defaultBlockLevel (.name ['p']) = true := by decide
  have h0 : TreeProc.isBlockLevel TreeProc.defaultBlockLevel (.name "br".toList) = false := by decide
  have h0' : TreeProc.isBlockLevel TreeProc.defaultBlockLevel (.name ['b', 'r']) = false := by decide
  have h5 : (Tag.name ['p'] == Tag.name ['c', 'o', 'd', 'e']) = false := by decide
  have h6 : (Tag.name ['p'] == Tag.name ['p', 'r', 'e']) = false := by decide
  have hkk := prettifyKids_br TreeProc.defaultBlockLevel h0 kids hk
  cases kids with
  | nil =>
    simp [TreeProc.prettifyETree, h2, h5, h6, TreeProc.prettifyKids, TreeProc.blankOrNone, Node.truthy]
  | cons b r =>
    have hb : b.tag = .name ['b', 'r'] := hk b List.mem_cons_self
    simp [TreeProc.prettifyETree, h2, h5, h6, hkk, TreeProc.blankOrNone, Node.truthy, hb, h0']

theorem prettify_paragraph_nl (esc : List Char) (t : Str) (h : nlInk t = true) :
    TreeProc.prettify ((Node.el "div").append (pNode esc t)) = prettyDocNl (coded esc) t := by
  have h1 : TreeProc.isBlockLevel TreeProc.defaultBlockLevel (.name "div".toList) = true := by decide
  have h2 : TreeProc.isBlockLevel TreeProc.defaultBlockLevel (.name "p".toList) = true := by decide
  have h3 : (Tag.name "div".toList == Tag.name "code".toList) = false := by decide
  have h4 : (Tag.name "div".toList == Tag.name "pre".toList) = false := by decide
  have h7 : (Tag.name "div".toList == Tag.name "br".toList) = false := by decide
  have h8 : (Tag.name "p".toList == Tag.name "br".toList) = false := by decide
  have h9 : (Tag.name "div".toList == Tag.name "pre".toList) = false := by decide
  have h10 : (Tag.name "p".toList == Tag.name "pre".toList) = false := by decide
  have hp := prettifyETree_p (coded esc (Block.firstLine t)) (brNodes esc t)
    (brNodes_forall esc _ (fun X => (brTail_tag X).1) t)
  have hpn : pNode esc t =
      { tag := .name "p".toList, text := some (coded esc (Block.firstLine t)), children := brNodes esc t } := rfl
  rw [hpn]
  simp only [TreeProc.prettify, Node.append, Node.el, List.nil_append]
  rw [TreeProc.prettifyETree]
  simp only [h1, h3, h4, TreeProc.prettifyKids, h2, if_true, hp, TreeProc.blankOrNone, Node.truthy,
    Option.getD_none, isBlank, List.all_nil, Bool.not_false, Bool.not_true, 
    Bool.or_true, Bool.and_self,
    TreeProc.mapTree, TreeProc.mapKids, TreeProc.brRule, TreeProc.preRule, TreeProc.tagIs, h7, h8, h10,
    Bool.false_eq_true, if_false, prettyDocNl, mapKids_brRule esc t h, mapKids_preRule]

/-! ### attr_list -/

theorem attrNode_brP (bl : List Str) (hbl : TreeProc.isBlockLevel bl (.name "br".toList) = false) (X : Str) :
    AttrListTree.attrNode bl none (brP X) = brP X := by
  have hm : AttrList.inlineMatch ('\n' :: X) = none := by
    unfold AttrList.inlineMatch AttrList.baseAt
    split
    · rename_i heq; injection heq with h1 _; exact absurd h1 (by decide)
    · rename_i heq; injection heq with h1 _; exact absurd h1 (by decide)
    · rfl
  have hbl' : TreeProc.isBlockLevel bl (.name ['b', 'r']) = false := hbl
  simp [AttrListTree.attrNode, brP, mkEl, hbl', Node.truthy, hm, AttrListTree.attrKids]

theorem attrKids_brs (bl : List Str) (hbl : TreeProc.isBlockLevel bl (.name "br".toList) = false) (l : List Node)
    (h : ∀ b ∈ l, ∃ X, b = brP X) : ∀ i, AttrListTree.attrKids bl none i l = l := by
  induction l with
  | nil => intro i; rfl
  | cons b r ih =>
    intro i
    obtain ⟨X, rfl⟩ := h _ List.mem_cons_self
    simp only [AttrListTree.attrKids, attrNode_brP bl hbl, ih (fun c hc => h c (List.mem_cons_of_mem _ hc))]

theorem blockRule_p (X0 : Str) (kids : List Node) (hX0 : '{' ∉ X0)
    (hk : ∀ b ∈ kids, ∃ X, b = brP X ∧ '{' ∉ X) :
    AttrListTree.blockRule (.name ['p']) [] (some X0) kids = ([], none, none) := by
  have h5 : AttrListTree.isHeaderTag (.name ['p']) = false := by decide
  have h6 : AttrListTree.isCellTag (.name ['p']) = false := by decide
  have h8 : (Tag.name ['p'] == Tag.name ['l', 'i']) = false := by decide
  have hX : AttrList.blockApply false false [] X0 = ([], X0) := blockApply_plain [] hX0
  cases hl : kids.getLast? with
  | none =>
    have : kids = [] := List.getLast?_eq_none_iff.1 hl
    subst this
    cases X0 with
    | nil => simp [AttrListTree.blockRule, h8, Node.truthy]
    | cons a b => simp [AttrListTree.blockRule, h5, h6, h8, Node.truthy, hX]
  | some b =>
    obtain ⟨X, rfl, hXb⟩ := hk b (List.mem_of_getLast? hl)
    have hne : kids.isEmpty = false := by
      cases kids with
      | nil => simp at hl
      | cons => rfl
    have hT : AttrList.blockApply false false [] ('\n' :: X) = ([], '\n' :: X) :=
      blockApply_plain [] (by
        intro hm
        rcases List.mem_cons.1 hm with e | hm
        · exact absurd e (by decide)
        · exact hXb hm)
    simp [AttrListTree.blockRule, h5, h6, h8, hl, hne, brP, Node.truthy, hT]

theorem attrList_prettyDocNl (f : Str → Str) (hf : ∀ s, '{' ∉ f s) (t : Str) :
    AttrListTree.run TreeProc.defaultBlockLevel (prettyDocNl f t) = prettyDocNl f t := by
  have h1 : TreeProc.isBlockLevel TreeProc.defaultBlockLevel (.name ['d', 'i', 'v']) = true := by decide
  have h2 : TreeProc.isBlockLevel TreeProc.defaultBlockLevel (.name ['p']) = true := by decide
  have h0 : TreeProc.isBlockLevel TreeProc.defaultBlockLevel (.name "br".toList) = false := by decide
  have h3 : AttrListTree.isHeaderTag (.name ['d', 'i', 'v']) = false := by decide
  have h4 : AttrListTree.isCellTag (.name ['d', 'i', 'v']) = false := by decide
  have h7 : (Tag.name ['d', 'i', 'v'] == Tag.name ['l', 'i']) = false := by decide
  have hn : AttrList.blockApply false false [] ['\n'] = ([], ['\n']) := blockApply_plain [] (by decide)
  have hk : ∀ b ∈ brNodesP f t, ∃ X, b = brP X ∧ '{' ∉ X :=
    brNodesP_forall f _ (fun X => ⟨f X, rfl, hf X⟩) t
  have hr := blockRule_p (f (Block.firstLine t)) (brNodesP f t) (hf _) hk
  have hkids := attrKids_brs TreeProc.defaultBlockLevel h0 (brNodesP f t)
    (fun b hb => (hk b hb).imp (fun X h => h.1)) 0
  have hdiv : ∀ (p : Node), p.tail = some ['\n'] →
      AttrListTree.blockRule (.name ['d', 'i', 'v']) [] (some ['\n']) [p] = ([], none, none) := by
    intro p hp
    simp [AttrListTree.blockRule, h3, h4, h7, hp, Node.truthy, hn]
  simp [AttrListTree.run, AttrListTree.attrNode, AttrListTree.attrKids, prettyDocNl, h1, h2, hdiv, hr, hkids]

/-! ### toc -/

theorem walkKids_brs (env : TocTree.Env) (st : TocTree.St) (l : List Node) (h : ∀ b ∈ l, ∃ X, b = brP X) :
    TocTree.walkKids env l st = .ok (l, st) := by
  induction l with
  | nil => rfl
  | cons b r ih =>
    obtain ⟨X, rfl⟩ := h _ List.mem_cons_self
    have hh : TocTree.isHeaderTag (.name ['b', 'r']) = false := by decide
    have hb : TocTree.walkNode env (brP X) st = .ok (brP X, st) := by
      simp [TocTree.walkNode, TocTree.walkKids, brP, mkEl, hh]
    simp only [TocTree.walkKids, hb, ih (fun c hc => h c (List.mem_cons_of_mem _ hc))]

theorem replKids_brs (div : Node) (l : List Node) (h : ∀ b ∈ l, ∃ X, b = brP X) : TocTree.replKids div l = l := by
  induction l with
  | nil => rfl
  | cons b r ih =>
    obtain ⟨X, rfl⟩ := h _ List.mem_cons_self
    have hh : TocTree.isHeaderTag (.name ['b', 'r']) = false := by decide
    have h3 : (Tag.name ['b', 'r'] == Tag.name ['p', 'r', 'e']) = false := by decide
    have h4 : (Tag.name ['b', 'r'] == Tag.name ['c', 'o', 'd', 'e']) = false := by decide
    have := ih (fun c hc => h c (List.mem_cons_of_mem _ hc))
    simp [TocTree.replKids, TocTree.replNode, brP, mkEl, hh, h3, h4, Node.truthy, this]

theorem toc_prettyDocNl (env : TocTree.Env) (bl : List Str) (f : Str → Str) (t : Str)
    (h : strip (f (Block.firstLine t)) ≠ TocTree.marker) :
    TocTree.run env bl (prettyDocNl f t) = .ok (prettyDocNl f t) := by
  have h1 : TocTree.isHeaderTag (.name ['d', 'i', 'v']) = false := by decide
  have h2 : TocTree.isHeaderTag (.name ['p']) = false := by decide
  have h3 : (Tag.name ['p'] == Tag.name ['p', 'r', 'e']) = false := by decide
  have h4 : (Tag.name ['p'] == Tag.name ['c', 'o', 'd', 'e']) = false := by decide
  have h5 : (strip (f (Block.firstLine t)) == TocTree.marker) = false := by simpa using h
  have hk : ∀ b ∈ brNodesP f t, ∃ X, b = brP X := brNodesP_forall f _ (fun X => ⟨f X, rfl⟩) t
  have hw := fun st => walkKids_brs env st (brNodesP f t) hk
  have hr := fun div => replKids_brs div (brNodesP f t) hk
  have hids : ∀ l : List Node, (∀ b ∈ l, ∃ X, b = brP X) → TocTree.idsOfKids l = [] := by
    intro l
    induction l with
    | nil => intro _; rfl
    | cons b r ih =>
      intro hl
      obtain ⟨X, rfl⟩ := hl _ List.mem_cons_self
      simp [TocTree.idsOfKids, TocTree.idsOf, brP, mkEl, ih (fun c hc => hl c (List.mem_cons_of_mem _ hc))]
  simp [TocTree.run, TocTree.walkNode, TocTree.walkKids, prettyDocNl, h1, h2, TocTree.replNode, TocTree.replKids,
    h3, h4, h5, hw, hr, TocTree.usedIds, TocTree.idsOf, TocTree.idsOfKids, hids _ hk]

/-! ### unescape -/

theorem firstLine_subset (t : Str) : ∀ c ∈ Block.firstLine t, c ∈ t := by
  intro c hc
  exact (List.takeWhile_sublist _).subset hc

theorem unescapeKids_brs (esc : List Char) (t : Str) (hstx : Inline.STX ∉ t) :
    TreeProc.unescapeKids (brNodesP (coded esc) t) = some (brNodesP id t) := by
  induction t with
  | nil => rfl
  | cons c r ih =>
    have hr : Inline.STX ∉ r := fun h => hstx (List.mem_cons_of_mem _ h)
    by_cases hc : c = '\n'
    · have hfl : Inline.STX ∉ Block.firstLine r := fun h => hr (firstLine_subset r _ h)
      have hu : TreeProc.unescapeText 0 ('\n' :: coded esc (Block.firstLine r)) = some ('\n' :: Block.firstLine r) := by
        have hne : ('\n' : Char) ≠ TreeProc.STX := by decide
        simp [TreeProc.unescapeText, hne, unescapeText_coded (esc := esc) _ hfl]
      have hb : TreeProc.unescapeTree (brP (coded esc (Block.firstLine r))) = some (brP (Block.firstLine r)) := by
        simp [TreeProc.unescapeTree, TreeProc.unescapeKids, TreeProc.unescAttrs, brP, mkEl, Node.truthy, hu]
      simp only [brNodesP, hc, if_true, TreeProc.unescapeKids, hb, ih hr, id]
    · simp only [brNodesP, hc, if_false, ih hr]

theorem unescapeTree_prettyDocNl (esc : List Char) (t : Str) (hv : startsVisible t = true) (hstx : Inline.STX ∉ t) :
    TreeProc.unescapeTree (prettyDocNl (coded esc) t) = some (prettyDocNl id t) := by
  have hnl : TreeProc.unescapeText 0 ['\n'] = some ['\n'] := by decide
  have hfl : Inline.STX ∉ Block.firstLine t := fun h => hstx (firstLine_subset t _ h)
  have hne := firstLine_ne_nil hv
  have hcn : coded esc (Block.firstLine t) ≠ [] := coded_ne_nil hne
  obtain ⟨a, b, hab⟩ : ∃ a b, coded esc (Block.firstLine t) = a :: b := by
    cases hcd : coded esc (Block.firstLine t) with
    | nil => exact absurd hcd hcn
    | cons a b => exact ⟨a, b, rfl⟩
  have hu := unescapeText_coded (esc := esc) (Block.firstLine t) hfl
  rw [hab] at hu
  simp [prettyDocNl, TreeProc.unescapeTree, TreeProc.unescapeKids, TreeProc.unescAttrs, hnl, Node.truthy, hab, hu,
    unescapeKids_brs esc t hstx]

/-! ### the serializer -/

/-- `<br />` or `<br>` -/
def brTag (fmt : Ser.Fmt) : Str := if fmt = .xhtml then "<br />".toList else "<br>".toList

theorem serialize_brP (fmt : Ser.Fmt) (X : Str) :
    Ser.serialize fmt (brP X) = brTag fmt ++ Ser.escCdata ('\n' :: X) := by
  have h1 : Ser.isEmptyTag ['b', 'r'] = true := by decide
  cases fmt <;> simp [brP, mkEl, Ser.serialize, Ser.serializeList, Ser.element, Ser.sortAttrs, Ser.writeAttrs, h1,
    Node.truthy, brTag]

/-- escaping a text without `&`, character by character -/
theorem esc1_cons_no_amp (c : Char) (r : Str) (hc : c ≠ '&') :
    Ser.esc1 false false (c :: r) =
      (if c = '<' then "&lt;".toList else if c = '>' then "&gt;".toList else [c]) ++ Ser.esc1 false false r := by
  simp only [Ser.esc1, hc, if_false, Bool.false_and, Bool.false_eq_true]
  split
  · rfl
  · split <;> rfl

theorem brText_append_of_no_nl (b : Str) {x : Str} (h : '\n' ∉ x) (y : Str) :
    brText b (x ++ y) = x ++ brText b y := by
  induction x with
  | nil => rfl
  | cons c r ih =>
    have hc : c ≠ '\n' := fun e => h (e ▸ List.mem_cons_self)
    simp [brText, hc, ih (fun hh => h (List.mem_cons_of_mem _ hh))]

theorem serialize_kids (fmt : Ser.Fmt) (t : Str) (hamp : '&' ∉ t) :
    Ser.esc1 false false (Block.firstLine t) ++ Ser.serializeList fmt (brNodesP id t) =
      brText (brTag fmt) (Ser.esc1 false false t) := by
  induction t with
  | nil => rfl
  | cons c r ih =>
    have hr : '&' ∉ r := fun h => hamp (List.mem_cons_of_mem _ h)
    have hca : c ≠ '&' := fun e => hamp (e ▸ List.mem_cons_self)
    rw [firstLine_cons, esc1_cons_no_amp c r hca]
    by_cases hc : c = '\n'
    · subst hc
      have e2 : ∀ X : Str, Ser.esc1 false false ('\n' :: X) = '\n' :: Ser.esc1 false false X := by
        intro X; rw [esc1_cons_no_amp _ _ (by decide)]; rfl
      have e3 : brNodesP id ('\n' :: r) = brP (Block.firstLine r) :: brNodesP id r := by simp [brNodesP]
      rw [e3]
      simp only [if_true, Ser.serializeList, serialize_brP, Ser.onepass_cdata', e2]
      have : (if ('\n' : Char) = '<' then "&lt;".toList else if ('\n' : Char) = '>' then "&gt;".toList else ['\n']) =
          ['\n'] := by decide
      rw [this]
      simp only [brText, if_true, List.nil_append, List.append_assoc, List.cons_append]
      rw [← ih hr]
      rfl
    · simp only [hc, if_false, brNodesP, esc1_cons_no_amp c _ hca]
      rw [List.append_assoc, ih hr, brText_append_of_no_nl]
      intro hm
      split at hm
      · exact absurd hm (by decide)
      · split at hm
        · exact absurd hm (by decide)
        · have : '\n' = c := by simpa using hm
          exact hc this.symm

theorem serialize_prettyDocNl (fmt : Ser.Fmt) (t : Str) (hv : startsVisible t = true) (hamp : '&' ∉ t) :
    Ser.serialize fmt (prettyDocNl id t) =
      "<div>".toList ++ ('\n' :: "<p>".toList ++ brText (brTag fmt) (Ser.escCdata t) ++ "</p>".toList ++ ['\n']) ++
        "</div>\n".toList := by
  obtain ⟨a, b, hab⟩ : ∃ a b, Block.firstLine t = a :: b := by
    cases hcd : Block.firstLine t with
    | nil => exact absurd hcd (firstLine_ne_nil hv)
    | cons a b => exact ⟨a, b, rfl⟩
  have h1 : Ser.isEmptyTag "div".toList = false := by decide
  have h2 : Ser.isEmptyTag "p".toList = false := by decide
  have h3 : Ser.isRawTextTag "div".toList = false := by decide
  have h4 : Ser.isRawTextTag "p".toList = false := by decide
  have h5 : Ser.escCdata ['\n'] = ['\n'] := by decide
  have hk := serialize_kids fmt t hamp
  rw [← Ser.onepass_cdata', ← Ser.onepass_cdata'] at hk
  rw [← hk]
  simp only [prettyDocNl, id, Ser.serialize, Ser.serializeList, Ser.element, Ser.sortAttrs, List.foldr_nil,
    Ser.writeAttrs, h1, h2, h3, h4, h5, Node.truthy, hab, Option.getD_some, Bool.false_eq_true, if_false,
    if_true, List.append_nil, Bool.and_false]
  simp [List.append_assoc]

theorem stx_not_mem_brText (b s : Str) (hb : Post.STX ∉ b) (hs : Post.STX ∉ s) : Post.STX ∉ brText b s := by
  induction s with
  | nil => simp [brText]
  | cons c r ih =>
    have hc : c ≠ Post.STX := fun e => hs (e ▸ List.mem_cons_self)
    have ih' := ih (fun hh => hs (List.mem_cons_of_mem _ hh))
    by_cases hn : c = '\n'
    · simp only [brText, hn, if_true]
      intro hm
      rcases List.mem_append.1 hm with hm | hm
      · exact hb hm
      · rcases List.mem_cons.1 hm with e | hm
        · exact absurd e (by decide)
        · exact ih' hm
    · simp only [brText, hn, if_false]
      intro hm
      rcases List.mem_cons.1 hm with e | hm
      · exact hc e.symm
      · exact ih' hm

end MdVerif.EscX
