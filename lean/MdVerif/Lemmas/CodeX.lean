/-
Helper lemmas for C03 with extensions enabled (`Props/C03X.lean`): INDENTED code blocks through
`PipelineX.convertX x` for every flag set `x`.  Core Lean only.

A. no line of an indented block starts an admonition (`noBangLine`, `admSearch_noBang`)
B. the extended dispatcher on the blocks of a code block (`dispatchXT_run`, `dispatchXT_nil`, `dispatchXT_nl`)
C. the extended block parser on a code block (`parseDocumentXT_code`)
-/
import MdVerif.Lemmas.FencedPipe
import MdVerif.Lemmas.BlockExtFuelTotal
import MdVerif.Lemmas.BlockExtFuelMono

namespace MdVerif.CodeX
open Py Block BlockExt CodeLaw

/-! ### A. no line of the text starts with a character of a given kind -/

/-- no line of the text (the first one only when `atStart`) starts with a character for which `bad` holds -/
def lineHeads (bad : Char → Bool) : Bool → Str → Bool
  | _, [] => true
  | atStart, c :: r => !(atStart && bad c) && lineHeads bad (c == '\n') r

/-- no line of the text starts with `!` -/
abbrev noBangLine : Bool → Str → Bool := lineHeads (· == '!')

theorem lineHeads_nl (bad : Char → Bool) (hbad : bad '\n' = false) (b : Bool) (y : Str) :
    lineHeads bad b ('\n' :: y) = lineHeads bad true y := by
  simp [lineHeads, hbad]

theorem lineHeads_append_nl (bad : Char → Bool) (hbad : bad '\n' = false) (x y : Str) :
    ∀ b, lineHeads bad b (x ++ '\n' :: y) = (lineHeads bad b x && lineHeads bad true y) := by
  induction x with
  | nil => intro b; simp [lineHeads, hbad]
  | cons c r ih => intro b; simp only [List.cons_append, lineHeads, ih, Bool.and_assoc]

theorem lineHeads_nls (bad : Char → Bool) (hbad : bad '\n' = false) (k : Nat) (y : Str) :
    lineHeads bad true (nls k ++ y) = lineHeads bad true y := by
  induction k with
  | zero => rfl
  | succ k ih =>
    rw [show nls (k + 1) ++ y = '\n' :: (nls k ++ y) from by simp [nls, List.replicate_succ], lineHeads_nl bad hbad, ih]

theorem lineHeads_false_of_no_nl (bad : Char → Bool) (x : Str) (hx : '\n' ∉ x) : lineHeads bad false x = true := by
  induction x with
  | nil => rfl
  | cons c r ih =>
    have hc : c ≠ '\n' := fun e => hx (by simp [e])
    simp only [lineHeads, Bool.false_and, Bool.not_false, Bool.true_and]
    rw [show (c == '\n') = false from by simpa using hc]
    exact ih (fun e => hx (List.mem_cons_of_mem _ e))

theorem lineHeads_line (bad : Char → Bool) (x : Str) (hx : '\n' ∉ x) (hh : ∀ c, x.head? = some c → bad c = false) :
    lineHeads bad true x = true := by
  cases x with
  | nil => rfl
  | cons c r =>
    have hc : c ≠ '\n' := fun e => hx (by simp [e])
    simp only [lineHeads, Bool.true_and, Bool.and_eq_true, Bool.not_eq_true']
    refine ⟨hh c rfl, ?_⟩
    rw [show (c == '\n') = false from by simpa using hc]
    exact lineHeads_false_of_no_nl bad r (fun e => hx (List.mem_cons_of_mem _ e))

theorem lineHeads_joinLines (bad : Char → Bool) (hbad : bad '\n' = false) (ls : List Str)
    (h : ∀ l ∈ ls, '\n' ∉ l ∧ ∀ c, l.head? = some c → bad c = false) :
    lineHeads bad true (joinLines ls) = true := by
  induction ls with
  | nil => rfl
  | cons a r ih =>
    obtain ⟨ha1, ha2⟩ := h a List.mem_cons_self
    cases r with
    | nil => simpa [joinLines] using lineHeads_line bad a ha1 ha2
    | cons b r =>
      have ih' := ih (fun l hl => h l (List.mem_cons_of_mem _ hl))
      simp only [joinLines] at ih' ⊢
      rw [Py.join_cons_cons, List.append_assoc, List.singleton_append, lineHeads_append_nl bad hbad,
        lineHeads_line bad a ha1 ha2, ih']
      rfl

theorem head_indentLine (tab : Nat) (htab : 0 < tab) (l : Str) (c : Char) (h : (indentLine tab l).head? = some c) :
    c = ' ' := by
  obtain ⟨n, rfl⟩ : ∃ n, tab = n + 1 := ⟨tab - 1, by omega⟩
  cases l with
  | nil => simp [indentLine] at h
  | cons d r => simpa [indentLine, spaces, List.replicate_succ] using h.symm

/-- no line of an indented run starts with a character other than a space -/
theorem lineHeads_indentRun (bad : Char → Bool) (hbad : bad '\n' = false) (hsp : bad ' ' = false) (tab : Nat)
    (htab : 0 < tab) {r : List Str} (h : RunOk r) : lineHeads bad true (indentRun tab r) = true := by
  apply lineHeads_joinLines bad hbad
  intro p hp
  obtain ⟨l, hl, rfl⟩ := List.mem_map.1 hp
  exact ⟨not_nl_mem_indentLine (h.nl l hl), fun c hc => by rw [head_indentLine tab htab l c hc]; exact hsp⟩

theorem noBang_indentRun (tab : Nat) (htab : 0 < tab) {r : List Str} (h : RunOk r) :
    noBangLine true (indentRun tab r) = true :=
  lineHeads_indentRun _ (by decide) (by decide) tab htab h

/-- … nor does a line of what follows the first run of a code block -/
theorem lineHeads_restText (bad : Char → Bool) (hbad : bad '\n' = false) (hsp : bad ' ' = false) (tab : Nat)
    (htab : 0 < tab) (more : List (Nat × List Str)) (h : ∀ er ∈ more, RunOk er.2) :
    lineHeads bad true (restText tab more) = true := by
  induction more with
  | nil => rfl
  | cons er more ih =>
    simp only [restText, List.append_assoc]
    rw [lineHeads_nls bad hbad, lineHeads_append_nl bad hbad, lineHeads_nl bad hbad,
      lineHeads_indentRun bad hbad hsp tab htab (h er List.mem_cons_self),
      ih (fun x hx => h x (List.mem_cons_of_mem _ hx))]
    rfl

/-- … nor a line of the whole source -/
theorem lineHeads_codeSource (bad : Char → Bool) (hbad : bad '\n' = false) (hsp : bad ' ' = false) (tab : Nat)
    (htab : 0 < tab) (first : List Str) (more : List (Nat × List Str)) (h1 : RunOk first) (h : ∀ er ∈ more, RunOk er.2) :
    lineHeads bad true (codeSource tab first more ++ ['\n', '\n']) = true := by
  rw [codeSource_nl2, lineHeads_append_nl bad hbad, lineHeads_nl bad hbad, lineHeads_indentRun bad hbad hsp tab htab h1,
    lineHeads_restText bad hbad hsp tab htab more h]
  rfl

/-- the lines of such a text, seen through `lines` -/
theorem lines_heads (bad : Char → Bool) (s : Str) :
    ∀ b, lineHeads bad b s = true → ∀ l ∈ (lines s).drop (if b then 0 else 1), ∀ c, l.head? = some c → bad c = false := by
  induction s with
  | nil => intro b _ l hl c hc; cases b <;> simp [lines, splitC] at hl <;> simp [hl] at hc
  | cons d r ih =>
    intro b h l hl c hc
    simp only [lineHeads, Bool.and_eq_true, Bool.not_eq_true'] at h
    cases hr : splitC '\n' r with
    | nil => exact absurd hr (Py.splitC_ne_nil _ _)
    | cons q qs =>
      have hlines : lines (d :: r) = if d = '\n' then [] :: q :: qs else (d :: q) :: qs := by
        simp only [lines, splitC, hr]
      rw [hlines] at hl
      by_cases hd : d = '\n'
      · subst hd
        have ih' := ih true (by simpa using h.2)
        simp only [if_true, List.drop_zero, lines, hr] at ih' hl
        have hl' : l = [] ∨ l ∈ q :: qs := by
          cases b with
          | true => simpa using hl
          | false => right; simpa using hl
        rcases hl' with rfl | hl'
        · simp at hc
        · exact ih' l hl' c hc
      · have hf : (d == '\n') = false := by simpa using hd
        rw [hf] at h
        have ih' := ih false h.2
        simp only [Bool.false_eq_true, if_false, lines, hr, List.drop_succ_cons, List.drop_zero] at ih'
        rw [if_neg hd] at hl
        cases b with
        | true =>
          simp only [if_true, List.drop_zero, List.mem_cons] at hl
          rcases hl with rfl | hl
          · simp only [List.head?_cons, Option.some.injEq] at hc
            subst hc
            simpa using h.1
          · exact ih' l hl c hc
        | false =>
          simp only [Bool.false_eq_true, if_false, List.drop_succ_cons, List.drop_zero] at hl
          exact ih' l hl c hc

theorem admAt_none_of_head (t : Str) (h : t.head? ≠ some '!') : admAt t = none := by
  cases t with
  | nil => rfl
  | cons c r =>
    have hc : c ≠ '!' := fun e => h (by simp [e])
    simp [admAt, startsWith, hc]

theorem head_of_noBang {s : Str} (h : noBangLine true s = true) : s.head? ≠ some '!' := by
  cases s with
  | nil => simp
  | cons c r =>
    simp only [noBangLine, lineHeads, Bool.true_and, Bool.and_eq_true, Bool.not_eq_true', beq_eq_false_iff_ne] at h
    simpa using h.1

theorem nlSearchAux_noBang (s : Str) : ∀ (b : Bool) (i : Nat), noBangLine b s = true → nlSearchAux admAt i s = none := by
  induction s with
  | nil => intro b i _; rfl
  | cons c r ih =>
    intro b i h
    simp only [noBangLine, lineHeads, Bool.and_eq_true] at h
    by_cases hc : c = '\n'
    · subst hc
      have h2 : noBangLine true r = true := by simpa using h.2
      simp only [nlSearchAux, if_true, admAt_none_of_head r (head_of_noBang h2)]
      exact ih true _ h2
    · simp only [nlSearchAux, hc, if_false]
      exact ih _ _ h.2

/-- `AdmonitionProcessor.RE` finds nothing in a text none of whose lines starts with `!` -/
theorem admSearch_noBang (s : Str) (h : noBangLine true s = true) : admSearch s = none := by
  simp only [admSearch, nlSearch, admAt_none_of_head s (head_of_noBang h), nlSearchAux_noBang s true 0 h]

/-! ### B. the extended dispatcher on the blocks of a code block -/

theorem admTest_noBang {tab : Nat} {parent : Node} {b : Str} (hb : noBangLine true b = true)
    (hp : ∀ sib, parent.last? = some sib → isAdmDiv sib = false) : admTest tab parent b = none := by
  simp only [admTest, admSearch_noBang b hb, admContent]
  cases hl : parent.last? with
  | none => rfl
  | some sib => simp [hp sib hl]

theorem isAdmDiv_codePre (t : Str) : isAdmDiv (codePre t) = false := by
  simp [isAdmDiv, Node.isTag, codePre, Node.el]

theorem isListTagD_codePre (t : Str) : isListTagD (codePre t) = false := by
  simp [isListTagD, Node.isTag, codePre, Node.el]

theorem isItemTagD_append (p c : Node) : isItemTagD (p.append c) = isItemTagD p := rfl

/-- what the dispatcher needs of the parent: not a list item, its last child no list and no admonition -/
structure ParentOk (parent : Node) : Prop where
  item : isItemTag parent = false
  itemD : isItemTagD parent = false
  last : ∀ sib, parent.last? = some sib → isListTag sib = false ∧ isListTagD sib = false ∧ isAdmDiv sib = false

theorem parentOk_div : ParentOk (Node.el "div") :=
  ⟨rfl, rfl, fun sib hs => by simp [Node.last?, Node.el] at hs⟩

theorem ParentOk.code {parent : Node} (h : ParentOk parent) (t : Str) : ParentOk (parent.append (codePre t)) :=
  ⟨by rw [isItemTag_append]; exact h.item, by rw [isItemTagD_append]; exact h.itemD,
    fun sib hs => by
      rw [last_append] at hs; cases hs
      exact ⟨isListTag_codePre t, isListTagD_codePre t, isAdmDiv_codePre t⟩⟩

/-- **the block of an indented run goes to `CodeBlockProcessor`, whatever extensions are enabled**: admonition
    (105) finds no `!!!` at a line start, `defindent` (85) no list before it, and the processors after `code` (80)
    — table, deflist, footnote, abbr — are never asked -/
theorem dispatchXT_run (tables : Bool) (cfg : XCfg) (tab : Nat) (htab : 0 < tab) (pb : PB) (state : List BState)
    (refs : Refs) (parent : Node) (r : List Str) (rest : List Str) (h : RunOk r) (hp : ParentOk parent) :
    dispatchXT tables cfg tab pb state refs parent (indentRun tab r) rest =
      some (codeP tab refs parent (indentRun tab r) rest) := by
  obtain ⟨c, l, ls, rfl, hc⟩ := h.shape
  obtain ⟨t, ht⟩ := indentRun_shape tab c l ls
  obtain ⟨d, u, hdu, hd⟩ := spaces_cons_shape tab c t hc
  have hA : (if cfg.admonition then admTest tab parent (indentRun tab ((c :: l) :: ls)) else none) = none := by
    split
    · exact admTest_noBang (noBang_indentRun tab htab h) (fun sib hs => (hp.last sib hs).2.2)
    · rfl
  have e1 : ((indentRun tab ((c :: l) :: ls)).isEmpty || startsWith (indentRun tab ((c :: l) :: ls)) ['\n']) = false := by
    unfold indentRun; rw [ht, hdu]; simp [startsWith, hd]
  have e2 : startsWith (indentRun tab ((c :: l) :: ls)) (spaces tab) = true := by
    unfold indentRun; rw [ht]; exact startsWith_append_self _ _
  unfold dispatchXT
  rw [hA]
  simp only [tailEmptyT, e1, e2, indentTestX, hp.item, hp.itemD, Bool.false_eq_true, if_false, Bool.true_and, Bool.false_or]
  cases hl : parent.last? with
  | none => simp
  | some sib => simp [(hp.last sib hl).1, (hp.last sib hl).2.1]

theorem dispatchXT_nil (tables : Bool) (cfg : XCfg) (tab : Nat) (pb : PB) (state : List BState) (refs : Refs)
    (parent : Node) (rest : List Str) (hp : ParentOk parent) :
    dispatchXT tables cfg tab pb state refs parent [] rest = some (emptyP refs parent [] rest) := by
  have hA : (if cfg.admonition then admTest tab parent [] else none) = none := by
    split
    · exact admTest_noBang rfl (fun sib hs => (hp.last sib hs).2.2)
    · rfl
  unfold dispatchXT
  rw [hA]
  simp [tailEmptyT]

theorem dispatchXT_nl (tables : Bool) (cfg : XCfg) (tab : Nat) (pb : PB) (state : List BState) (refs : Refs)
    (parent : Node) (x : Str) (rest : List Str) (hx : noBangLine true x = true) (hp : ParentOk parent) :
    dispatchXT tables cfg tab pb state refs parent ('\n' :: x) rest = some (emptyP refs parent ('\n' :: x) rest) := by
  have hA : (if cfg.admonition then admTest tab parent ('\n' :: x) else none) = none := by
    split
    · exact admTest_noBang (by rw [noBangLine, lineHeads_nl _ (by decide)]; exact hx) (fun sib hs => (hp.last sib hs).2.2)
    · rfl
  unfold dispatchXT
  rw [hA]
  simp [tailEmptyT, startsWith]

/-! ### C. the extended block parser on a code block -/

open FencedPipe in
/-- the blank lines before a further run and the run: fillers and the run are appended to the code text -/
theorem parse_gapX (tables : Bool) (cfg : XCfg) (tab : Nat) (htab : 0 < tab) (state : List BState) (refs : Refs)
    (parent : Node) (hp : ParentOk parent) (r : List Str) (h : RunOk r) (bs : List Str) :
    ∀ (e : Nat) (t : Str) (f : Nat), ∃ k,
      parseBlocksXT tables cfg tab (f + k) state refs (parent.append (codePre t)) (gapBlocks tab e r ++ bs) =
        parseBlocksXT tables cfg tab f state refs (parent.append (codePre (t ++ nls (e + 1) ++ runText r))) bs
  | 0, t, f => by
    refine ⟨1, ?_⟩
    simp only [gapBlocks, List.singleton_append, parseBlocksXT_step]
    rw [dispatchXT_run tables cfg tab htab _ state refs _ r bs h (hp.code t)]
    unfold indentRun
    rw [codeP_more tab refs parent t _ bs h.1 h.nl]
    simp [nls]
  | 1, t, f => by
    refine ⟨2, ?_⟩
    have hne := indentRun_ne_nil tab h
    simp only [gapBlocks, List.singleton_append, parseBlocksXT_step]
    rw [dispatchXT_nl tables cfg tab _ state refs _ _ bs (noBang_indentRun tab htab h) (hp.code t),
      emptyP_nl refs parent t _ bs hne]
    simp only
    rw [parseBlocksXT_step, dispatchXT_run tables cfg tab htab _ state refs _ r bs h (hp.code _)]
    unfold indentRun
    rw [codeP_more tab refs parent _ _ bs h.1 h.nl]
    simp [nls, List.replicate_succ]
  | e + 2, t, f => by
    obtain ⟨k, hk⟩ := parse_gapX tables cfg tab htab state refs parent hp r h bs e (t ++ ['\n', '\n']) f
    refine ⟨k + 1, ?_⟩
    rw [← Nat.add_assoc]
    simp only [gapBlocks, List.cons_append, parseBlocksXT_step]
    rw [dispatchXT_nil tables cfg tab _ state refs _ _ (hp.code t), emptyP_nil]
    simp only
    rw [hk]
    simp [nls, List.replicate_succ]

open FencedPipe in
/-- all the further runs and the empty block at the end -/
theorem parse_restX (tables : Bool) (cfg : XCfg) (tab : Nat) (htab : 0 < tab) (state : List BState) (refs : Refs)
    (parent : Node) (hp : ParentOk parent) (more : List (Nat × List Str)) (h : ∀ er ∈ more, RunOk er.2) (t : Str) :
    ∃ f, parseBlocksXT tables cfg tab f state refs (parent.append (codePre t)) (restBlocks tab more) =
      some (parent.append (codePre (t ++ more.flatMap (fun er => nls (er.1 + 1) ++ runText er.2) ++ ['\n', '\n'])),
        refs) := by
  induction more generalizing t with
  | nil =>
    refine ⟨1, ?_⟩
    simp only [restBlocks, parseBlocksXT_step]
    rw [dispatchXT_nil tables cfg tab _ state refs _ _ (hp.code t), emptyP_nil]
    simp [parseBlocksXT]
  | cons er more ih =>
    obtain ⟨f, hf⟩ := ih (fun x hx => h x (List.mem_cons_of_mem _ hx)) (t ++ nls (er.1 + 1) ++ runText er.2)
    obtain ⟨k, hk⟩ := parse_gapX tables cfg tab htab state refs parent hp er.2 (h er List.mem_cons_self)
      (restBlocks tab more) er.1 t f
    refine ⟨f + k, ?_⟩
    simp only [restBlocks]
    rw [hk, hf]
    simp [List.append_assoc]

open FencedPipe Fuel in
/-- **the extended block parser on a code block**, whatever block-level extensions are enabled: the tree of the core
    parser — one `<pre><code>` whose atomic text is `codeAccum` and `"\n\n"` —, nothing written to the log -/
theorem parseDocumentXT_code (tables : Bool) (cfg : XCfg) (tab : Nat) (htab : 0 < tab) (first : List Str)
    (more : List (Nat × List Str)) (h1 : RunOk first) (h : ∀ er ∈ more, RunOk er.2) :
    parseDocumentXT tables cfg tab (codeSource tab first more ++ ['\n', '\n']) =
      some ((Node.el "div").append (codePre (codeAccum first more ++ ['\n', '\n'])), []) := by
  obtain ⟨f, hf⟩ := parse_restX tables cfg tab htab [] [] (Node.el "div") parentOk_div more h (runText first)
  have key : parseBlocksXT tables cfg tab (f + 1) [] [] (Node.el "div")
      (splitS ['\n', '\n'] (codeSource tab first more ++ ['\n', '\n'])) =
      some ((Node.el "div").append (codePre (codeAccum first more ++ ['\n', '\n'])), []) := by
    rw [splitS_codeSource tab _ more h1 h, parseBlocksXT_step,
      dispatchXT_run tables cfg tab htab _ [] [] _ first _ h1 parentOk_div]
    unfold indentRun
    rw [codeP_fresh tab [] _ _ _ h1.1 h1.nl (fun sib hs => by simp [Node.last?, Node.el] at hs)]
    simpa [codeAccum] using hf
  obtain ⟨r, hr⟩ := Option.isSome_iff_exists.1
    (parseDocumentXT_total tables cfg tab (fun _ => htab) (codeSource tab first more ++ ['\n', '\n']))
  rw [hr]
  simp only [parseDocumentXT, parseChunk] at hr
  have a1 := parseBlocksXT_fuel_mono (fuelForX (codeSource tab first more ++ ['\n', '\n']).length) key
  have a2 := parseBlocksXT_fuel_mono (f + 1) hr
  rw [Nat.add_comm] at a2
  rw [a2] at a1
  exact a1

end MdVerif.CodeX
