/-
Helper lemmas for `Props/C16Legacy.lean`: the `legacy_attrs` tree processor (`Model/Ext/LegacyAttrs.lean`).
Core Lean only.

A. the recogniser: `scan` on a text where `ATTR_RE` matches nowhere (`quiet`), on a text with one definition
B. `handle`, `step`: what they can change (attributes, and non-atomic text / tail)
C. `run`: identity on a quiet tree; atomic strings and `code` texts kept on ANY tree
-/
import MdVerif.Model.Ext.LegacyAttrs
import MdVerif.Lemmas.AtomicXRun
import MdVerif.Lemmas.CodeXAtomic

namespace MdVerif.LegacyAttrs
open Py

/-! ### A. the recogniser -/

/-- `ATTR_RE` matches at no position of the text: the EXACT trigger of the extension on one string -/
def quiet : Str → Bool
  | [] => true
  | c :: r => (matchAt (c :: r)).isNone && quiet r

theorem scan_quiet : ∀ s : Str, quiet s = true → scan 0 s = (s, [])
  | [], _ => rfl
  | c :: r, h => by
    simp only [quiet, Bool.and_eq_true, Option.isNone_iff_eq_none] at h
    simp only [scan, h.1, scan_quiet r h.2]

theorem matchAt_ne_brace (c : Char) (r : Str) (h : c ≠ '{') : matchAt (c :: r) = none := by
  unfold matchAt
  split
  · rename_i heq
    injection heq with h1 _
    exact absurd h1 h
  · rfl

theorem matchAt_no_at (c d : Char) (r : Str) (h : d ≠ '@') : matchAt (c :: d :: r) = none := by
  unfold matchAt
  split
  · rename_i heq
    injection heq with _ h2
    injection h2 with h2 _
    exact absurd h2 h
  · rfl

/-- a text without `{` is quiet -/
theorem quiet_of_no_brace : ∀ s : Str, '{' ∉ s → quiet s = true
  | [], _ => rfl
  | c :: r, h => by
    have hc : c ≠ '{' := fun e => h (e ▸ List.mem_cons_self)
    have hr : '{' ∉ r := fun m => h (List.mem_cons_of_mem _ m)
    simp only [quiet, matchAt_ne_brace c r hc, Option.isNone_none, Bool.true_and, quiet_of_no_brace r hr]

/-- a text without `@` is quiet -/
theorem quiet_of_no_at : ∀ s : Str, '@' ∉ s → quiet s = true
  | [], _ => rfl
  | [c], _ => by
    simp only [quiet, Bool.and_true, Option.isNone_iff_eq_none]
    unfold matchAt
    split
    · rename_i heq; injection heq with _ h2; cases h2
    · rfl
  | c :: d :: r, h => by
    have hd : d ≠ '@' := fun e => h (e ▸ List.mem_cons_of_mem _ List.mem_cons_self)
    have hr : '@' ∉ d :: r := fun m => h (List.mem_cons_of_mem _ m)
    simp only [quiet, matchAt_no_at c d r hd, Option.isNone_none, Bool.true_and]
    exact quiet_of_no_at (d :: r) hr

theorem scan_skip : ∀ (l r : Str), scan l.length (l ++ r) = scan 0 r
  | [], r => by
    cases r <;> rfl
  | _ :: l, r => by
    simp only [List.length_cons, List.cons_append, scan]
    exact scan_skip l r

theorem scan_prefix_no_brace : ∀ (a r : Str), '{' ∉ a → scan 0 (a ++ r) = (a ++ (scan 0 r).1, (scan 0 r).2)
  | [], r, _ => rfl
  | c :: a, r, h => by
    have hc : c ≠ '{' := fun e => h (e ▸ List.mem_cons_self)
    have ha : '{' ∉ a := fun m => h (List.mem_cons_of_mem _ m)
    simp only [List.cons_append, scan, matchAt_ne_brace c (a ++ r) hc, scan_prefix_no_brace a r ha]

theorem runNotBrace_append : ∀ (a b : Str), '}' ∉ a → runNotBrace (a ++ '}' :: b) = (a, '}' :: b)
  | [], b, _ => by simp [runNotBrace]
  | c :: a, b, h => by
    have hc : c ≠ '}' := fun e => h (e ▸ List.mem_cons_self)
    have ha : '}' ∉ a := fun m => h (List.mem_cons_of_mem _ m)
    simp only [List.cons_append, runNotBrace, hc, if_false, runNotBrace_append a b ha]

theorem splitLastEq_none : ∀ v : Str, '=' ∉ v → splitLastEq v = none
  | [], _ => rfl
  | c :: v, h => by
    have hc : c ≠ '=' := fun e => h (e ▸ List.mem_cons_self)
    have hv : '=' ∉ v := fun m => h (List.mem_cons_of_mem _ m)
    simp only [splitLastEq, splitLastEq_none v hv, hc, if_false]

theorem splitLastEq_append : ∀ (k v : Str), '=' ∉ v → splitLastEq (k ++ '=' :: v) = some (k, v)
  | [], v, h => by
    simp only [List.nil_append, splitLastEq, splitLastEq_none v h, if_true]
  | c :: k, v, h => by
    simp only [List.cons_append, splitLastEq, splitLastEq_append k v h]

/-- `ATTR_RE` at a definition `{@k=v}` followed by anything: the key is `k` (it may contain `=`), the value `v` -/
theorem matchAt_def (k v b : Str) (hk : '}' ∉ k) (hv : '}' ∉ v) (hv2 : '=' ∉ v) :
    matchAt ('{' :: '@' :: (k ++ '=' :: v ++ '}' :: b)) = some (k, v, b) := by
  have hkv : '}' ∉ k ++ '=' :: v := by
    intro m
    rcases List.mem_append.mp m with m | m
    · exact hk m
    · rcases List.mem_cons.mp m with e | m
      · cases e
      · exact hv m
  have e : k ++ '=' :: v ++ '}' :: b = (k ++ '=' :: v) ++ '}' :: b := rfl
  simp only [matchAt, runNotBrace_append _ b hkv, splitLastEq_append k v hv2, Option.map_some]

/-- **one definition in a text**: `a {@k=v} b` with no `{` in `a` and no match in `b` — the definition disappears, the
    callback is called once with `(k, v)` -/
theorem scan_single (a k v b : Str) (ha : '{' ∉ a) (hk : '}' ∉ k) (hv : '}' ∉ v) (hv2 : '=' ∉ v)
    (hb : quiet b = true) :
    scan 0 (a ++ '{' :: '@' :: (k ++ '=' :: v ++ '}' :: b)) = (a ++ b, [(k, v)]) := by
  rw [scan_prefix_no_brace a _ ha]
  have hm := matchAt_def k v b hk hv hv2
  have hs : scan 0 ('{' :: '@' :: (k ++ '=' :: v ++ '}' :: b)) = (b, [(k, v)]) := by
    simp only [scan, hm]
    have e : k ++ '=' :: v ++ '}' :: b = (k ++ '=' :: v ++ ['}']) ++ b := by simp
    have hl : k.length + v.length + 2 = (k ++ '=' :: v ++ ['}']).length := by
      simp only [List.length_cons, List.length_append, List.length_nil]; omega
    rw [e, hl, scan_skip, scan_quiet b hb]
  rw [hs]


/-! ### A'. what `sub` can remove and what the callback can see, for EVERY text -/

/-- the text that comes back is the text with pieces cut out: nothing is added, nothing reordered -/
theorem scan_sublist : ∀ (s : Str) (n : Nat), List.Sublist (scan n s).1 s
  | [], n => by cases n <;> exact List.Sublist.slnil
  | c :: r, n + 1 => by
    simp only [scan]
    exact (scan_sublist r n).cons c
  | c :: r, 0 => by
    simp only [scan]
    split
    · exact (scan_sublist r _).cons c
    · exact (scan_sublist r 0).cons₂ c

theorem runNotBrace_spec : ∀ s : Str, '}' ∉ (runNotBrace s).1 ∧ (runNotBrace s).1 ++ (runNotBrace s).2 = s
  | [] => ⟨by simp [runNotBrace], rfl⟩
  | c :: r => by
    simp only [runNotBrace]
    split
    · exact ⟨by simp, rfl⟩
    · rename_i hc
      obtain ⟨h1, h2⟩ := runNotBrace_spec r
      refine ⟨?_, by simp only [List.cons_append, h2]⟩
      intro m
      rcases List.mem_cons.mp m with e | m
      · exact hc e.symm
      · exact h1 m

theorem splitLastEq_spec : ∀ (s a b : Str), splitLastEq s = some (a, b) → s = a ++ '=' :: b ∧ '=' ∉ b
  | [], a, b, h => by simp [splitLastEq] at h
  | c :: r, a, b, h => by
    simp only [splitLastEq] at h
    cases hr : splitLastEq r with
    | some p =>
      obtain ⟨a', b'⟩ := p
      rw [hr] at h
      simp only [Option.some.injEq, Prod.mk.injEq] at h
      obtain ⟨e1, e2⟩ := splitLastEq_spec r a' b' hr
      obtain ⟨ha, hb⟩ := h
      subst ha; subst hb
      exact ⟨by simp only [List.cons_append, ← e1], e2⟩
    | none =>
      rw [hr] at h
      simp only at h
      split at h
      · rename_i hc
        simp only [Option.some.injEq, Prod.mk.injEq] at h
        obtain ⟨ha, hb⟩ := h
        subst ha; subst hb; subst hc
        refine ⟨rfl, ?_⟩
        intro m
        -- `splitLastEq r = none` means no `=` in `r`
        have : ∀ t : Str, splitLastEq t = none → '=' ∉ t := by
          intro t
          induction t with
          | nil => intro _ m; cases m
          | cons d t ih =>
            intro ht m
            simp only [splitLastEq] at ht
            cases h2 : splitLastEq t with
            | some q => rw [h2] at ht; simp at ht
            | none =>
              rw [h2] at ht
              simp only at ht
              split at ht
              · cases ht
              · rename_i hd
                rcases List.mem_cons.mp m with e | m
                · exact hd e.symm
                · exact ih h2 m
        exact this r hr m
      · cases h

/-- a match of `ATTR_RE`: the text is `{@key=value}rest`, no `}` in key and value, no `=` in the value -/
theorem matchAt_spec (s k v rest : Str) (h : matchAt s = some (k, v, rest)) :
    s = '{' :: '@' :: (k ++ '=' :: v ++ '}' :: rest) ∧ '}' ∉ k ∧ '}' ∉ v ∧ '=' ∉ v := by
  unfold matchAt at h
  split at h
  · rename_i r
    obtain ⟨h1, h2⟩ := runNotBrace_spec r
    simp only at h
    split at h
    · rename_i rest' hp
      cases hs : splitLastEq (runNotBrace r).1 with
      | none => rw [hs] at h; simp at h
      | some kv =>
        rw [hs] at h
        simp only [Option.map_some, Option.some.injEq, Prod.mk.injEq] at h
        obtain ⟨e1, e2⟩ := splitLastEq_spec _ kv.1 kv.2 hs
        obtain ⟨hk, hv, hr⟩ := h
        subst hk; subst hv; subst hr
        have hrun : '}' ∉ kv.1 ++ '=' :: kv.2 := e1 ▸ h1
        refine ⟨?_, ?_, ?_, e2⟩
        · rw [hp] at h2
          rw [← h2, e1]
        · intro m; exact hrun (List.mem_append_left _ m)
        · intro m; exact hrun (List.mem_append_right _ (List.mem_cons_of_mem _ m))
    · cases h
  · cases h

/-- whatever the text: every `(key, value)` the callback sees has no `}` in key and value and no `=` in the value -/
theorem scan_pairs_wf : ∀ (s : Str) (n : Nat) (kv : Str × Str), kv ∈ (scan n s).2 →
    '}' ∉ kv.1 ∧ '}' ∉ kv.2 ∧ '=' ∉ kv.2
  | [], n, kv, h => by cases n <;> simp [scan] at h
  | c :: r, n + 1, kv, h => by
    simp only [scan] at h
    exact scan_pairs_wf r n kv h
  | c :: r, 0, kv, h => by
    simp only [scan] at h
    split at h
    · rename_i key val rest hm
      rcases List.mem_cons.mp h with e | h
      · obtain ⟨_, a, b, c'⟩ := matchAt_spec _ _ _ _ hm
        subst e
        exact ⟨a, b, c'⟩
      · exact scan_pairs_wf r _ kv h
    · exact scan_pairs_wf r 0 kv h

/-! ### B. `handle` and `step` -/

/-- everything but the attributes is the same -/
def SameBut (a b : Node) : Prop :=
  a.tag = b.tag ∧ a.text = b.text ∧ a.textAtomic = b.textAtomic ∧ a.children = b.children ∧ a.tail = b.tail ∧
    a.tailAtomic = b.tailAtomic

theorem SameBut.refl (a : Node) : SameBut a a := ⟨rfl, rfl, rfl, rfl, rfl, rfl⟩

theorem SameBut.trans {a b c : Node} (h1 : SameBut a b) (h2 : SameBut b c) : SameBut a c :=
  ⟨h1.1.trans h2.1, h1.2.1.trans h2.2.1, h1.2.2.1.trans h2.2.2.1, h1.2.2.2.1.trans h2.2.2.2.1,
    h1.2.2.2.2.1.trans h2.2.2.2.2.1, h1.2.2.2.2.2.trans h2.2.2.2.2.2⟩

theorem setAttr_sameBut (n : Node) (k v : Str) : SameBut (n.setAttr k v) n := by
  unfold Node.setAttr
  split <;> exact ⟨rfl, rfl, rfl, rfl, rfl, rfl⟩

theorem foldl_setAttr_sameBut (f : Str → Str) : ∀ (l : List (Str × Str)) (n : Node),
    SameBut (l.foldl (fun n kv => n.setAttr kv.1 (f kv.2)) n) n
  | [], n => SameBut.refl n
  | kv :: l, n => by
    simp only [List.foldl_cons]
    exact (foldl_setAttr_sameBut f l _).trans (setAttr_sameBut n kv.1 (f kv.2))

theorem handle_sameBut (n : Node) (txt : Str) : SameBut (handle n txt).1 n :=
  foldl_setAttr_sameBut nlToSp _ n

theorem handle_quiet (n : Node) (txt : Str) (h : quiet txt = true) : handle n txt = (n, txt) := by
  simp only [handle, scan_quiet txt h, List.foldl_nil]

/-- what a stage of `step` keeps: tag, children, both atomic flags; an atomic text / tail is the same string -/
def Keeps (a b : Node) : Prop :=
  a.tag = b.tag ∧ a.children = b.children ∧ a.textAtomic = b.textAtomic ∧ a.tailAtomic = b.tailAtomic ∧
    (b.textAtomic = true → a.text = b.text) ∧ (b.tailAtomic = true → a.tail = b.tail)

theorem Keeps.trans {a b c : Node} (h1 : Keeps a b) (h2 : Keeps b c) : Keeps a c := by
  obtain ⟨a1, a2, a3, a4, a5, a6⟩ := h1
  obtain ⟨b1, b2, b3, b4, b5, b6⟩ := h2
  refine ⟨a1.trans b1, a2.trans b2, a3.trans b3, a4.trans b4, ?_, ?_⟩
  · intro h; exact (a5 (b3.trans h)).trans (b5 h)
  · intro h; exact (a6 (b4.trans h)).trans (b6 h)

theorem keeps_of_sameBut {a b : Node} (h : SameBut a b) : Keeps a b :=
  ⟨h.1, h.2.2.2.1, h.2.2.1, h.2.2.2.2.2, fun _ => h.2.1, fun _ => h.2.2.2.2.1⟩

theorem stepAlt_keeps (n : Node) : Keeps (stepAlt n) n := by
  unfold stepAlt
  split
  · exact keeps_of_sameBut ((setAttr_sameBut _ _ _).trans (handle_sameBut n _))
  · exact keeps_of_sameBut (SameBut.refl n)

theorem stepText_keeps (n : Node) : Keeps (stepText n) n := by
  unfold stepText
  split
  · rename_i c
    simp only [Bool.and_eq_true, Bool.not_eq_true'] at c
    obtain ⟨b1, _, b3, b4, b5, b6⟩ := handle_sameBut n (n.text.getD [])
    refine ⟨b1, b4, b3, b6, ?_, fun _ => b5⟩
    intro h; rw [c.2] at h; cases h
  · exact keeps_of_sameBut (SameBut.refl n)

theorem stepTail_keeps (n : Node) : Keeps (stepTail n) n := by
  unfold stepTail
  split
  · rename_i c
    simp only [Bool.and_eq_true, Bool.not_eq_true'] at c
    obtain ⟨b1, b2, b3, b4, _, b6⟩ := handle_sameBut n (n.tail.getD [])
    refine ⟨b1, b4, b3, b6, fun _ => b2, ?_⟩
    intro h; rw [c.2] at h; cases h
  · exact keeps_of_sameBut (SameBut.refl n)

theorem step_keeps (n : Node) : Keeps (step n) n :=
  (stepTail_keeps _).trans ((stepText_keeps _).trans (stepAlt_keeps n))

/-! ### the trigger on a tree -/

/-- the `alt` attribute, when present, is quiet, and the attribute list is dict-like at `alt` (one entry) -/
def altOk (attrs : List (Str × Str)) : Bool :=
  match attrs.find? (fun kv => kv.1 = altKey) with
  | none => true
  | some kv => quiet kv.2 && attrs.all (fun e => e.1 != altKey || e == kv)

/-- a text / tail the processor reads (truthy, not atomic) is quiet -/
def optQuiet (atomic : Bool) (t : Option Str) : Bool :=
  atomic || match t with
    | some s => quiet s
    | none => true

mutual
/-- `ATTR_RE` matches nowhere in what the processor reads: the exact trigger of the extension on a tree -/
def treeQuiet : Node → Bool
  | ⟨_, attrs, text, ta, children, tail, tla⟩ =>
    altOk attrs && optQuiet ta text && optQuiet tla tail && treeQuietKids children
def treeQuietKids : List Node → Bool
  | [] => true
  | c :: r => treeQuiet c && treeQuietKids r
end

theorem setAttr_self (n : Node) (k : Str) (kv : Str × Str)
    (hf : n.attrs.find? (fun e => e.1 = k) = some kv) (hall : ∀ e ∈ n.attrs, e.1 = k → e = kv) :
    n.setAttr k kv.2 = n := by
  have hk : kv.1 = k := by simpa using List.find?_some hf
  have hm : kv ∈ n.attrs := List.mem_of_find?_eq_some hf
  have hany : n.attrs.any (fun e => decide (e.1 = k)) = true :=
    List.any_eq_true.mpr ⟨kv, hm, by simp [hk]⟩
  unfold Node.setAttr
  simp only [hany, if_true]
  have : n.attrs.map (fun e => if e.1 = k then (k, kv.2) else e) = n.attrs := by
    conv => rhs; rw [← List.map_id n.attrs]
    apply List.map_congr_left
    intro e he
    by_cases c : e.1 = k
    · simp only [c, if_true, id]
      have := hall e he c
      rw [this, ← hk]
    · simp only [c, if_false, id]
  rw [this]
  cases n; rfl

theorem stepAlt_quiet (n : Node) (ha : altOk n.attrs = true) : stepAlt n = n := by
  unfold stepAlt Node.getAttr
  unfold altOk at ha
  cases hf : n.attrs.find? (fun kv => kv.1 = altKey) with
  | none => rfl
  | some kv =>
    rw [hf] at ha
    simp only [Bool.and_eq_true, List.all_eq_true, Bool.or_eq_true, bne_iff_ne, ne_eq, beq_iff_eq] at ha
    simp only [Option.map_some, handle_quiet n kv.2 ha.1]
    apply setAttr_self n altKey kv hf
    intro e he hk
    rcases ha.2 e he with h | h
    · exact absurd hk h
    · exact h

theorem stepText_quiet (n : Node) (ht : optQuiet n.textAtomic n.text = true) : stepText n = n := by
  unfold stepText
  split
  · rename_i c
    simp only [Bool.and_eq_true, Bool.not_eq_true'] at c
    cases htx : n.text with
    | none => rw [htx] at c; simp [Node.truthy] at c
    | some s =>
      have hq : quiet s = true := by
        simpa [optQuiet, c.2, htx] using ht
      simp only [Option.getD_some, handle_quiet n s hq]
      cases n
      simp only at htx
      subst htx; rfl
  · rfl

theorem stepTail_quiet (n : Node) (hl : optQuiet n.tailAtomic n.tail = true) : stepTail n = n := by
  unfold stepTail
  split
  · rename_i c
    simp only [Bool.and_eq_true, Bool.not_eq_true'] at c
    cases htl : n.tail with
    | none => rw [htl] at c; simp [Node.truthy] at c
    | some s =>
      have hq : quiet s = true := by
        simpa [optQuiet, c.2, htl] using hl
      simp only [Option.getD_some, handle_quiet n s hq]
      cases n
      simp only at htl
      subst htl; rfl
  · rfl

theorem step_quiet (n : Node) (ha : altOk n.attrs = true) (ht : optQuiet n.textAtomic n.text = true)
    (hl : optQuiet n.tailAtomic n.tail = true) : step n = n := by
  unfold step
  rw [stepAlt_quiet n ha, stepText_quiet n ht, stepTail_quiet n hl]

/-! ### C. `run` -/

mutual
/-- on a tree where `ATTR_RE` matches nowhere the processor changes nothing -/
theorem run_quiet : ∀ n : Node, treeQuiet n = true → run n = n
  | ⟨tag, attrs, text, ta, children, tail, tla⟩, h => by
    simp only [treeQuiet, Bool.and_eq_true] at h
    obtain ⟨⟨⟨h1, h2⟩, h3⟩, h4⟩ := h
    simp only [run]
    rw [step_quiet ⟨tag, attrs, text, ta, [], tail, tla⟩ h1 h2 h3, runKids_quiet children h4]
theorem runKids_quiet : ∀ l : List Node, treeQuietKids l = true → runKids l = l
  | [], _ => rfl
  | c :: r, h => by
    simp only [treeQuietKids, Bool.and_eq_true] at h
    simp only [runKids, run_quiet c h.1, runKids_quiet r h.2]
end

open AtomicX in
mutual
/-- every `AtomicString` of ANY tree is the same string at the same place after the processor -/
theorem atomicTexts_run : ∀ n : Node, atomicTexts (run n) = atomicTexts n
  | ⟨tag, attrs, text, ta, children, tail, tla⟩ => by
    obtain ⟨_, _, k3, k4, k5, k6⟩ := step_keeps ⟨tag, attrs, text, ta, [], tail, tla⟩
    simp only [] at k3 k4 k5 k6
    simp only [run]
    rw [atomicTexts_eq, atomicTexts_eq]
    simp only [k3, k4, atomicTextsKids_run children]
    cases ta <;> cases tla <;> simp_all
theorem atomicTextsKids_run : ∀ l : List Node, atomicTextsKids (runKids l) = atomicTextsKids l
  | [] => rfl
  | c :: r => by
    simp only [runKids, atomicTextsKids, atomicTexts_run c, atomicTextsKids_run r]
end

theorem codeTexts_eq (n : Node) : CodeX.codeTexts n =
    (if CodeX.isCodeTag n.tag && n.textAtomic then [n.text.getD []] else []) ++ CodeX.codeTextsKids n.children := by
  cases n; rfl

mutual
/-- the texts of the `code` elements of ANY tree are what they were -/
theorem codeTexts_run : ∀ n : Node, CodeX.codeTexts (run n) = CodeX.codeTexts n
  | ⟨tag, attrs, text, ta, children, tail, tla⟩ => by
    obtain ⟨k1, _, k3, _, k5, _⟩ := step_keeps ⟨tag, attrs, text, ta, [], tail, tla⟩
    simp only [] at k1 k3 k5
    simp only [run]
    rw [codeTexts_eq, codeTexts_eq]
    simp only [k1, k3, codeTextsKids_run children]
    cases ta <;> simp_all
theorem codeTextsKids_run : ∀ l : List Node, CodeX.codeTextsKids (runKids l) = CodeX.codeTextsKids l
  | [] => rfl
  | c :: r => by
    simp only [runKids, CodeX.codeTextsKids, codeTexts_run c, codeTextsKids_run r]
end

end MdVerif.LegacyAttrs
