/-
Lemmas for C05 on the extension model (`PipelineX.treeX`), well-formedness part 1: the inline stage over a pattern
table (`InlineX.runX`) keeps the tree well formed (`WF`: attribute names pairwise distinct, a void element has neither
text nor children) and keeps the tag and the attributes of the root — for EVERY pattern table.

The walk is that of `Lemmas/VocabXInline.lean` (`runX_Q`).  What is specific to `WF`:

* the stash invariant is `SW n` = `WF n` and `n` has no truthy tail: `procNode` inserts what the tail of a stashed
  element produces INTO that element, which must not happen to a `br`/`img`; the elements the patterns build have no
  tail and `hiNodeX` only rewrites a truthy tail;
* `processPlaceholders` sets the TEXT of its parent only when `isText`, and it is called with `isText = true` only on
  a parent whose text was truthy (hence not void): `PStep`;
* `hiNodeX` rewrites a text only when it was truthy (`WF_hi`).

Core Lean only.
-/
import MdVerif.Lemmas.VocabXWFDefs
import MdVerif.Lemmas.VocabXInline
import MdVerif.Model.InlineX

namespace MdVerif.VocabXWF
open Py Inline InlineX

/-! ### small facts about `WF` -/

theorem WF_noKids {p : Node} (hp : WF p) : WF { p with children := [] } := by
  rw [WF_iff] at hp ⊢
  exact ⟨⟨hp.1.1, fun hv => ⟨(hp.1.2 hv).1, rfl⟩⟩, by intro c hc; cases hc⟩

/-- a text is replaced only when it was truthy; the tail freely -/
theorem WF_hi {n : Node} (h : WF n) {t : Option Str} (ht : Node.truthy n.text = false → t = n.text)
    (tl : Option Str) : WF { n with text := t, tail := tl } := by
  rw [WF_iff] at h ⊢
  refine ⟨⟨h.1.1, fun hv => ⟨?_, (h.1.2 hv).2⟩⟩, h.2⟩
  have h1 := (h.1.2 hv).1
  show Node.truthy t = false
  rw [ht h1]; exact h1

/-- elements put in front of the children -/
theorem WF_prepend {p : Node} (hp : WF p) (l : List Node) (hl : ∀ c ∈ l, WF c)
    (hn : l = [] ∨ voidT p.tag = false) : WF { p with children := l ++ p.children } := by
  rcases hn with hn | hn
  · subst hn
    cases p
    exact hp
  · apply WF_children hp hn
    intro x hx
    rcases List.mem_append.1 hx with hx | hx
    · exact hl x hx
    · exact hp.kids x hx

theorem WF_mkEl (t : String) : WF (mkEl t) := WF_el t

theorem WF_mkEl_text (t : String) (s : Option Str) (ht : Ser.isEmptyTag t.toList = false) :
    WF { mkEl t with text := s } :=
  WF_mk rfl (fun hv => by
    have : Ser.isEmptyTag t.toList = true := hv
    rw [ht] at this; cases this)
    (by intro c hc; cases hc)

/-! ### the elements of the core patterns -/

theorem inline_void {t : Str} (h : Vocab2.hasTag Vocab2.inlineTags t = true) (hv : Ser.isEmptyTag t = true) :
    Vocab2.isVoidTag t = true := by
  simp only [Vocab2.hasTag, Vocab2.inlineTags, List.any_cons, List.any_nil, Bool.or_false, Bool.or_eq_true,
    decide_eq_true_eq] at h
  rcases h with h | h | h | h | h | h <;> subst h <;> revert hv <;> decide

mutual
theorem WF_of_goodT : (n : Node) → Vocab2.GoodT Vocab2.inlineTags n = true → WF n
  | ⟨tag, attrs, text, ta, children, tail, tla⟩, h => by
    rw [Vocab2.goodT_mk, Bool.and_eq_true] at h
    have h1 := h.1
    cases tag with
    | name t =>
      simp only [Vocab2.nodeOk, Vocab2.attrsOk, Bool.and_eq_true, Bool.or_eq_true, Bool.not_eq_true',
        List.isEmpty_iff] at h1
      refine WF_mk h1.1.2.2 (fun hv => ?_) (WF_of_goodList children h.2)
      have hv' := inline_void h1.1.1 hv
      rcases h1.2 with h2 | h2
      · rw [hv'] at h2; cases h2
      · exact h2
    | _ => simp [Vocab2.nodeOk] at h1
theorem WF_of_goodList : (l : List Node) → Vocab2.GoodListT Vocab2.inlineTags l = true → ∀ c ∈ l, WF c
  | [], _ => by intro c hc; cases hc
  | x :: r, h => by
    simp only [Vocab2.GoodListT, Bool.and_eq_true] at h
    intro c hc
    rcases List.mem_cons.1 hc with e | hc
    · rw [e]; exact WF_of_goodT x h.1
    · exact WF_of_goodList r h.2 c hc
end

/-! ### the stash, `applyPatternX`, `handleInlineX` -/

/-- what is kept about an element of the inline stash: well formed, and without a (truthy) tail -/
def SW (n : Node) : Prop := WF n ∧ Node.truthy n.tail = false

def StashW (stash : List StashItem) : Prop := ∀ n, StashItem.node n ∈ stash → SW n

theorem stashW_nil : StashW [] := by intro n hn; cases hn

theorem stashW_push {stash : List StashItem} (h : StashW stash) (it : StashItem)
    (hit : ∀ n, it = .node n → SW n) : StashW (stash ++ [it]) := by
  intro n hn
  rcases List.mem_append.1 hn with hn | hn
  · exact h n hn
  · simp only [List.mem_singleton] at hn; exact hit n hn.symm

def HIW (hi : HIX) : Prop :=
  ∀ d p x d' x', hi d p x = some (d', x') → StashW x.st.stash → StashW x'.st.stash

theorem hiOptX_W {hi : HIX} (hhi : HIW hi) {t t' : Option Str} {atomic : Bool} {pi : Nat} {x x' : XSt}
    (h : hiOptX hi t atomic pi x = some (t', x')) (hs : StashW x.st.stash) :
    StashW x'.st.stash ∧ (Node.truthy t = false → t' = t) := by
  unfold hiOptX at h
  split at h
  · rename_i hc
    split at h
    · rename_i d x1 hh
      simp only [Option.some.injEq, Prod.mk.injEq] at h
      obtain ⟨_, h2⟩ := h; subst h2
      refine ⟨hhi _ _ _ _ _ hh hs, ?_⟩
      intro ht; rw [ht] at hc; simp at hc
    · cases h
  · simp only [Option.some.injEq, Prod.mk.injEq] at h
    obtain ⟨h1, h2⟩ := h; subst h1; subst h2; exact ⟨hs, fun _ => rfl⟩

theorem hiNodeX_W {hi : HIX} (hhi : HIW hi) {pi : Nat} {n n' : Node} {x x' : XSt}
    (h : hiNodeX hi pi n x = some (n', x')) (hs : StashW x.st.stash) :
    StashW x'.st.stash ∧ ∃ t tl, n' = { n with text := t, tail := tl } ∧
      (Node.truthy n.text = false → t = n.text) ∧ (Node.truthy n.tail = false → tl = n.tail) := by
  unfold hiNodeX at h
  split at h
  · cases h
  · rename_i t x1 h1
    split at h
    · cases h
    · rename_i tl x2 h2
      simp only [Option.some.injEq, Prod.mk.injEq] at h
      obtain ⟨e1, e2⟩ := h; subst e1; subst e2
      have q1 := hiOptX_W hhi h1 hs
      have q2 := hiOptX_W hhi h2 q1.1
      exact ⟨q2.1, t, tl, rfl, q1.2, q2.2⟩

theorem hiNodesX_W {hi : HIX} (hhi : HIW hi) (pi : Nat) :
    ∀ (ns : List Node) (x : XSt) (ns' : List Node) (x' : XSt), hiNodesX hi pi ns x = some (ns', x') →
      (∀ n ∈ ns, WF n) → StashW x.st.stash → (∀ n ∈ ns', WF n) ∧ StashW x'.st.stash := by
  intro ns
  induction ns with
  | nil =>
    intro x ns' x' h _ hs
    simp only [hiNodesX, Option.some.injEq, Prod.mk.injEq] at h
    obtain ⟨e1, e2⟩ := h; subst e1; subst e2
    exact ⟨by simp, hs⟩
  | cons n r ih =>
    intro x ns' x' h hn hs
    simp only [hiNodesX] at h
    split at h
    · cases h
    · rename_i n1 x1 h1
      split at h
      · cases h
      · rename_i r1 x2 h2
        simp only [Option.some.injEq, Prod.mk.injEq] at h
        obtain ⟨e1, e2⟩ := h; subst e1; subst e2
        obtain ⟨a2, t, tl, e, a3, _⟩ := hiNodeX_W hhi h1 hs
        obtain ⟨b1, b2⟩ := ih _ _ _ h2 (fun m hm => hn m (List.mem_cons_of_mem _ hm)) a2
        refine ⟨?_, b2⟩
        intro m hm
        rcases List.mem_cons.1 hm with rfl | hm
        · rw [e]; exact WF_hi (hn n List.mem_cons_self) a3 tl
        · exact b1 m hm

/-- **every element a pattern of the table builds** is well formed and has no tail; the node stash is not touched -/
theorem findX_W {xc : InlineX.XCfg} {k : PatK} {data : Str} {si : Nat} {x x' : XSt}
    {f : Found} (h : findX xc k data si x = some (some f, x')) :
    x'.st.stash = x.st.stash ∧ ∀ n, f.node = .el n → SW n := by
  unfold findX at h
  cases k with
  | core i =>
    simp only at h
    split at h
    · cases h
    · rename_i fo st hf
      simp only [Option.some.injEq, Prod.mk.injEq] at h
      obtain ⟨e1, e2⟩ := h; subst e1; subst e2
      obtain ⟨a, b⟩ := Vocab2.findMatch_ok _ _ _ _ _ _ _ hf
      exact ⟨a, fun n hn => ⟨WF_of_goodT n (b n hn).good, by rw [(b n hn).tail]; rfl⟩⟩
  | footnote =>
    simp only at h
    split at h
    · cases h
    · split at h
      · rename_i id s e _
        simp only [Option.some.injEq, Prod.mk.injEq] at h
        obtain ⟨e1, e2⟩ := h; subst e1; subst e2
        refine ⟨rfl, ?_⟩
        intro n hn
        simp only [PNode.el.injEq] at hn; subst hn
        unfold fnRefNode
        refine ⟨?_, ?_⟩
        · have hs : WF ((mkEl "sup").setAttr "id".toList
              (Footnotes.footnoteRefId id true x.fn).1) := WF_setAttr (WF_mkEl "sup") _ _
          refine WF_children hs ?_ _ ?_
          · rw [(setAttr_tag _ _ _).1]; decide
          · intro c hc
            simp only [List.mem_singleton] at hc
            subst hc
            exact WF_setAttr (WF_setAttr (WF_mkEl_text "a" _ (by decide)) _ _) _ _
        · show Node.truthy ((mkEl "sup").setAttr "id".toList
              (Footnotes.footnoteRefId id true x.fn).1).tail = false
          rw [Vocab2.setAttr_tail]; rfl
      · cases h
  | wikilink =>
    simp only at h
    split at h
    · cases h
    · split at h
      · rename_i g s e _
        simp only [Option.some.injEq, Prod.mk.injEq] at h
        obtain ⟨e1, e2⟩ := h; subst e1; subst e2
        refine ⟨rfl, ?_⟩
        intro n hn
        unfold wikiNode at hn
        simp only at hn
        split at hn
        · cases hn
        · simp only [PNode.el.injEq] at hn; subst hn
          refine ⟨WF_setAttr (WF_setAttr (WF_mkEl_text "a" _ (by decide)) _ _) _ _, ?_⟩
          rw [Vocab2.setAttr_tail, Vocab2.setAttr_tail]; rfl
      · cases h
  | nl =>
    simp only at h
    split at h
    · cases h
    · split at h
      · simp only [Option.some.injEq, Prod.mk.injEq] at h
        obtain ⟨e1, e2⟩ := h; subst e1; subst e2
        refine ⟨rfl, ?_⟩
        intro n hn
        simp only [PNode.el.injEq] at hn; subst hn
        exact ⟨WF_mkEl "br", rfl⟩
      · cases h

def APW (ap : Nat → Str → Nat → XSt → Option (Str × Bool × Nat × XSt)) : Prop :=
  ∀ pi d si x d' m si' x', ap pi d si x = some (d', m, si', x') → StashW x.st.stash → StashW x'.st.stash

theorem applyPatternX_W {xc : InlineX.XCfg} {hi : HIX} (hhi : HIW hi) : APW (applyPatternX xc hi) := by
  intro pi data si x d' m si' x' h hs
  unfold applyPatternX at h
  split at h
  · simp only [Option.some.injEq, Prod.mk.injEq] at h
    obtain ⟨_, _, _, e⟩ := h; subst e; exact hs
  · rename_i k hk
    split at h
    · cases h
    · rename_i x1 hf
      simp only [Option.some.injEq, Prod.mk.injEq] at h
      obtain ⟨_, _, _, e⟩ := h; subst e
      rw [VocabX.findX_none_stash hf]; exact hs
    · rename_i f x1 hf
      obtain ⟨c1, c2⟩ := findX_W hf
      have hs1 : StashW x1.st.stash := by rw [c1]; exact hs
      split at h
      · simp only [Option.some.injEq, Prod.mk.injEq] at h
        obtain ⟨_, _, _, e⟩ := h; subst e; exact hs1
      · simp only [stashX, stashNode, Option.some.injEq, Prod.mk.injEq] at h
        obtain ⟨_, _, _, e⟩ := h; subst e
        exact stashW_push hs1 _ (fun n hn => by cases hn)
      · rename_i n hnode
        have hn := c2 n hnode
        simp only at h
        split at h
        · cases h
        · rename_i n' x2 hr
          simp only [stashX, stashNode, Option.some.injEq, Prod.mk.injEq] at h
          obtain ⟨_, _, _, e⟩ := h; subst e
          have q : SW n' ∧ StashW x2.st.stash := by
            split at hr
            · simp only [Option.some.injEq, Prod.mk.injEq] at hr
              obtain ⟨e1, e2⟩ := hr; subst e1; subst e2
              exact ⟨hn, hs1⟩
            · split at hr
              · cases hr
              · rename_i n1 x3 h1
                split at hr
                · cases hr
                · rename_i kids x4 h2
                  simp only [Option.some.injEq, Prod.mk.injEq] at hr
                  obtain ⟨e1, e2⟩ := hr; subst e1; subst e2
                  obtain ⟨a1, t, tl, e, a2, a3⟩ := hiNodeX_W hhi h1 hs1
                  obtain ⟨b1, b2⟩ := hiNodesX_W hhi _ _ _ _ _ h2 hn.1.kids a1
                  subst e
                  refine ⟨⟨?_, ?_⟩, b2⟩
                  · refine WF_mk hn.1.nodup (fun hv => ?_) b1
                    have hw := hn.1.w.2 hv
                    refine ⟨?_, ?_⟩
                    · rw [a2 hw.1]; exact hw.1
                    · rw [hw.2] at h2
                      simp only [hiNodesX, Option.some.injEq, Prod.mk.injEq] at h2
                      exact h2.1.symm
                  · show Node.truthy tl = false
                    rw [a3 hn.2]; exact hn.2
          exact stashW_push q.2 _ (fun m hm => by cases hm; exact q.1)

theorem hiLoopX_W {count : Nat} {ap : Nat → Str → Nat → XSt → Option (Str × Bool × Nat × XSt)} (hap : APW ap) :
    ∀ (g : Nat) (data : Str) (pi si : Nat) (x : XSt) (d' : Str) (x' : XSt),
      hiLoopX count ap g data pi si x = some (d', x') → StashW x.st.stash → StashW x'.st.stash := by
  intro g
  induction g with
  | zero => intro data pi si x d' x' h; simp [hiLoopX] at h
  | succ g ih =>
    intro data pi si x d' x' h hs
    simp only [hiLoopX] at h
    split at h
    · split at h
      · cases h
      · rename_i d m si1 x1 h1
        exact ih _ _ _ _ _ _ h (hap _ _ _ _ _ _ _ _ h1 hs)
    · simp only [Option.some.injEq, Prod.mk.injEq] at h
      obtain ⟨_, e⟩ := h; subst e; exact hs

theorem handleInlineX_W (xc : InlineX.XCfg) : ∀ (f : Nat), HIW (handleInlineX xc f) := by
  intro f
  induction f with
  | zero => intro d p x d' x' h; simp [handleInlineX] at h
  | succ f ih =>
    intro d p x d' x' h hs
    simp only [handleInlineX] at h
    exact hiLoopX_W (applyPatternX_W ih) _ _ _ _ _ _ _ h hs

theorem handleInlineTopX_W {xc : InlineX.XCfg} {data : Str} {x : XSt} {d' : Str} {x' : XSt}
    (h : handleInlineTopX xc data x = some (d', x')) (hs : StashW x.st.stash) : StashW x'.st.stash :=
  handleInlineX_W xc _ _ _ _ _ _ h hs

/-! ### `processPlaceholders` -/

/-- `p'` is `p` after `processPlaceholders` has worked on it as the parent: same tag and attributes; well formed when
    `p` is — provided `p` is not a void element when its TEXT is the target (`isText`) -/
def PStep (isText : Bool) (p p' : Node) : Prop :=
  p'.tag = p.tag ∧ p'.attrs = p.attrs ∧ (WF p → (isText = true → voidT p.tag = false) → WF p')

theorem PStep.refl (it : Bool) (p : Node) : PStep it p p := ⟨rfl, rfl, fun h _ => h⟩

theorem PStep.trans {it : Bool} {a b c : Node} (h1 : PStep it a b) (h2 : PStep it b c) : PStep it a c :=
  ⟨h2.1.trans h1.1, h2.2.1.trans h1.2.1,
   fun h hn => h2.2.2 (h1.2.2 h hn) (fun e => by rw [h1.1]; exact hn e)⟩

theorem linkText_W (text : Str) (atomic isText : Bool) (result : List Node) (parent : Node)
    (hr : ∀ n ∈ result, WF n) :
    (∀ n ∈ (linkText text atomic isText result parent).1, WF n) ∧
      PStep isText parent (linkText text atomic isText result parent).2 := by
  unfold linkText
  split
  · exact ⟨hr, PStep.refl _ _⟩
  · split
    · rename_i l r
      have hl := hr l List.mem_cons_self
      have hrest : ∀ n ∈ r, WF n := fun n hn => hr n (List.mem_cons_of_mem _ hn)
      split
      · refine ⟨?_, PStep.refl _ _⟩
        intro n hn
        rcases List.mem_cons.1 hn with e | hn
        · subst e; exact WF_tail hl _ _ _
        · exact hrest n hn
      · refine ⟨?_, PStep.refl _ _⟩
        intro n hn
        rcases List.mem_cons.1 hn with e | hn
        · subst e; exact WF_tail hl _ _ _
        · exact hrest n hn
    · split
      · split
        · exact ⟨by simp, rfl, rfl, fun hp _ => WF_tail hp _ _ _⟩
        · exact ⟨by simp, rfl, rfl, fun hp _ => WF_tail hp _ _ _⟩
      · rename_i hit
        have hit' : isText = true := by simpa using hit
        split
        · exact ⟨by simp, rfl, rfl, fun hp hn => WF_fields hp (hn hit') _ _ _ _⟩
        · exact ⟨by simp, rfl, rfl, fun hp hn => WF_fields hp (hn hit') _ _ _ _⟩

def NestedW (nested : Node → Option Node) : Prop :=
  ∀ n n', SW n → nested n = some n' → WF n'

theorem ppLoop_W {stash : List StashItem} (hs : StashW stash) {nested : Node → Option Node}
    (hn : NestedW nested) (data : Str) (atomic isText : Bool) :
    ∀ (g start : Nat) (result : List Node) (parent : Node) (res : List Node) (parent' : Node),
      (∀ n ∈ result, WF n) →
      ppLoop stash nested data atomic isText g start result parent = some (res, parent') →
      (∀ n ∈ res, WF n) ∧ PStep isText parent parent' := by
  intro g
  induction g with
  | zero => intro start result parent res parent' _ h; simp [ppLoop] at h
  | succ g ih =>
    intro start result parent res parent' hr h
    simp only [ppLoop] at h
    have hpre : ∀ (c : Prop) [Decidable c] (t : Str),
        (∀ n ∈ (if c then linkText t false isText result parent else (result, parent)).1, WF n) ∧
          PStep isText parent (if c then linkText t false isText result parent else (result, parent)).2 := by
      intro c _ t
      split
      · exact linkText_W _ _ _ _ _ hr
      · exact ⟨hr, PStep.refl _ _⟩
    split at h
    · rename_i off _
      split at h
      · rename_i item hitem
        have hmem : item ∈ stash := by
          cases hid : (findPh data (start + off)).fst with
          | none => rw [hid] at hitem; cases hitem
          | some id => rw [hid] at hitem; exact Vocab2.stashGet_mem _ _ _ hitem
        have p1 := hpre (start + off > 0) (slice data start (start + off))
        split at h
        · rename_i n
          split at h
          · cases h
          · rename_i n' hn'
            have hg : WF n' := hn n n' (hs n hmem) hn'
            have q := ih _ _ _ _ _ (fun m hm => by
              rcases List.mem_cons.1 hm with e | hm
              · subst e; exact hg
              · exact p1.1 m hm) h
            exact ⟨q.1, p1.2.trans q.2⟩
        · rename_i s
          have p2 := linkText_W s false isText _
            (if start + off > 0 then linkText (slice data start (start + off)) false isText result parent
              else (result, parent)).2 p1.1
          have q := ih _ _ _ _ _ p2.1 h
          exact ⟨q.1, p1.2.trans (p2.2.trans q.2)⟩
      · have p1 := linkText_W (slice data start (start + off + phPrefixLen)) false isText result parent hr
        have q := ih _ _ _ _ _ p1.1 h
        exact ⟨q.1, p1.2.trans q.2⟩
    · simp only [Option.some.injEq, Prod.mk.injEq] at h
      obtain ⟨e1, e2⟩ := h; subst e1; subst e2
      have p1 := linkText_W (List.drop start data) atomic isText result parent hr
      exact ⟨fun n hn => p1.1 n (List.mem_reverse.1 hn), p1.2⟩

def PPW (pp : PP) : Prop :=
  ∀ d a parent isText res parent', pp d a parent isText = some (res, parent') →
    (∀ n ∈ res, WF n) ∧ PStep isText parent parent'

theorem petTail_falsy (pp : PP) {c : Node} (h : Node.truthy c.tail = false) : petTail pp c = some (c, []) := by
  unfold petTail
  rw [if_neg (by rw [h]; simp)]

theorem petText_falsy (pp : PP) {c : Node} (h : Node.truthy c.text = false) : petText pp c = some c := by
  unfold petText
  rw [if_neg (by rw [h]; simp)]

theorem petTail_W {pp : PP} (hpp : PPW pp) {c c' : Node} {res : List Node}
    (h : petTail pp c = some (c', res)) (hc : WF c) : WF c' ∧ c'.tag = c.tag ∧ ∀ n ∈ res, WF n := by
  unfold petTail at h
  split at h
  · split at h
    · rename_i r c1 hh
      simp only [Option.some.injEq, Prod.mk.injEq] at h
      obtain ⟨e1, e2⟩ := h; subst e1; subst e2
      have q := hpp _ _ _ _ _ _ hh
      exact ⟨q.2.2.2 (WF_tail hc _ _ _) (fun e => by cases e), q.2.1, q.1⟩
    · cases h
  · simp only [Option.some.injEq, Prod.mk.injEq] at h
    obtain ⟨e1, e2⟩ := h; subst e1; subst e2
    exact ⟨hc, rfl, by simp⟩

theorem petText_W {pp : PP} (hpp : PPW pp) {c c2 : Node} (h : petText pp c = some c2) (hc : WF c) :
    WF c2 ∧ c2.tag = c.tag := by
  unfold petText at h
  split at h
  · rename_i hcond
    have ht : Node.truthy c.text = true := by
      simp only [Bool.and_eq_true] at hcond; exact hcond.1
    have hnv := hc.nv_of_text ht
    split at h
    · rename_i r c1 hh
      simp only [Option.some.injEq] at h; subst h
      have q := hpp _ _ _ _ _ _ hh
      have q2 : WF c1 := q.2.2.2 (WF_noText hc none rfl _ _ _) (fun _ => hnv)
      have htag : c1.tag = c.tag := q.2.1
      refine ⟨WF_children q2 (by rw [htag]; exact hnv) _ ?_, htag⟩
      intro x hx
      rcases List.mem_append.1 hx with hx | hx
      · exact q.1 x hx
      · exact q2.kids x hx
    · cases h
  · simp only [Option.some.injEq] at h; subst h
    exact ⟨hc, rfl⟩

theorem procKids_W {pp : PP} (hpp : PPW pp) :
    ∀ (l l' : List Node), procKids pp l = some l' → (∀ n ∈ l, WF n) → ∀ n ∈ l', WF n := by
  intro l
  induction l with
  | nil => intro l' h _; simp only [procKids, Option.some.injEq] at h; subst h; simp
  | cons c r ih =>
    intro l' h hg
    simp only [procKids] at h
    split at h
    · cases h
    · rename_i c1 res h1
      split at h
      · cases h
      · rename_i c2 h2
        split at h
        · cases h
        · rename_i r' h3
          simp only [Option.some.injEq] at h; subst h
          have q1 := petTail_W hpp h1 (hg c List.mem_cons_self)
          have q2 := petText_W hpp h2 q1.1
          have q3 := ih _ h3 (fun n hn => hg n (List.mem_cons_of_mem _ hn))
          intro n hn
          rcases List.mem_cons.1 hn with rfl | hn
          · exact q2.1
          · rcases List.mem_append.1 hn with hn | hn
            · exact q1.2.2 n hn
            · exact q3 n hn

/-- an element taken out of the stash: it has no tail, so nothing is inserted into it unless it has a text or
    children — and then it is not void -/
theorem procNode_W {pp : PP} (hpp : PPW pp) : NestedW (procNode pp) := by
  intro node n' hf h
  unfold procNode at h
  simp only [] at h
  rw [petTail_falsy pp (c := { node with children := [] }) hf.2] at h
  simp only [] at h
  have hg0 : WF ({ node with children := [] } : Node) := WF_noKids hf.1
  cases hv : voidT node.tag with
  | true =>
    have hw := hf.1.w.2 hv
    rw [petText_falsy pp (c := { node with children := [] }) hw.1, hw.2] at h
    simp only [procKids, Option.some.injEq] at h
    subst h
    exact hg0
  | false =>
    split at h
    · cases h
    · rename_i n2 h2
      split at h
      · cases h
      · rename_i kids h3
        simp only [Option.some.injEq] at h; subst h
        have q2 := petText_W hpp h2 hg0
        have q3 := procKids_W hpp _ _ h3 hf.1.kids
        refine WF_children q2.1 (by rw [q2.2]; exact hv) _ ?_
        intro x hx
        rcases List.mem_append.1 hx with hx | hx
        · rcases List.mem_append.1 hx with hx | hx
          · exact q2.1.kids x hx
          · cases hx
        · exact q3 x hx

theorem processPlaceholders_W {stash : List StashItem} (hs : StashW stash) :
    ∀ (f : Nat), PPW (processPlaceholders stash f) := by
  intro f
  induction f with
  | zero => intro d a parent isText res parent' h; simp [processPlaceholders] at h
  | succ f ih =>
    intro d a parent isText res parent' h
    simp only [processPlaceholders] at h
    split at h
    · simp only [Option.some.injEq, Prod.mk.injEq] at h
      obtain ⟨e1, e2⟩ := h; subst e1; subst e2
      exact ⟨by simp, PStep.refl _ _⟩
    · exact ppLoop_W hs (procNode_W ih) d a isText _ _ _ _ _ _ (by simp) h

theorem ppTop_W (st : St) (hs : StashW st.stash) : PPW (ppTop st) :=
  fun d a parent isText res parent' h => processPlaceholders_W hs _ d a parent isText res parent' h

/-! ### `runX` -/

theorem visitChildX_W {xc : InlineX.XCfg} {child : Node}
    {v : VisitX} {c : Node} {tr : List Node} {v' : VisitX} (h : visitChildX xc child v = some (c, tr, v'))
    (hc : WF child) (hs : StashW v.x.st.stash) :
    WF c ∧ (∀ t ∈ tr, WF t) ∧ StashW v'.x.st.stash ∧ v'.done = v.done := by
  unfold visitChildX at h
  simp only [] at h
  split at h
  · cases h
  · rename_i c1 lst x1 hr1
    have q1 : StashW x1.st.stash ∧ (∀ t ∈ lst, WF t) ∧ WF c1 ∧ (lst = [] ∨ voidT c1.tag = false) := by
      split at hr1
      · rename_i hcond
        have ht : Node.truthy child.text = true := by
          simp only [Bool.and_eq_true] at hcond; exact hcond.1
        have hnv := hc.nv_of_text ht
        split at hr1
        · cases hr1
        · rename_i data x2 hh
          have hs2 := handleInlineTopX_W hh hs
          split at hr1
          · cases hr1
          · rename_i l c' hp
            simp only [Option.some.injEq, Prod.mk.injEq] at hr1
            obtain ⟨e1, e2, e3⟩ := hr1; subst e1; subst e2; subst e3
            have q := ppTop_W _ hs2 _ _ _ _ _ _ hp
            exact ⟨hs2, q.1, q.2.2.2 (WF_noText hc none rfl _ _ _) (fun _ => hnv),
              Or.inr (by rw [q.2.1]; exact hnv)⟩
      · simp only [Option.some.injEq, Prod.mk.injEq] at hr1
        obtain ⟨e1, e2, e3⟩ := hr1; subst e1; subst e2; subst e3
        exact ⟨hs, by simp, hc, Or.inl rfl⟩
    split at h
    · cases h
    · rename_i c2 tr' x2 hr2
      simp only [Option.some.injEq, Prod.mk.injEq] at h
      obtain ⟨e1, e2, e3⟩ := h; subst e1; subst e2; subst e3
      have q2 : StashW x2.st.stash ∧ (∀ t ∈ tr', WF t) ∧ WF c2 ∧ c2.tag = c1.tag := by
        split at hr2
        · split at hr2
          · cases hr2
          · rename_i data x3 hh
            have hs3 : StashW x3.st.stash := by
              split at hh
              · simp only [Option.some.injEq, Prod.mk.injEq] at hh
                obtain ⟨_, e⟩ := hh; subst e; exact q1.1
              · exact handleInlineTopX_W hh q1.1
            split at hr2
            · cases hr2
            · rename_i tr2 dumby hp
              simp only [Option.some.injEq, Prod.mk.injEq] at hr2
              obtain ⟨e1, e2, e3⟩ := hr2; subst e1; subst e2; subst e3
              have q := ppTop_W _ hs3 _ _ _ _ _ _ hp
              refine ⟨hs3, q.1, ?_, ?_⟩
              · split
                · exact WF_tail q1.2.2.1 _ _ _
                · exact WF_tail q1.2.2.1 _ _ _
              · split <;> rfl
        · simp only [Option.some.injEq, Prod.mk.injEq] at hr2
          obtain ⟨e1, e2, e3⟩ := hr2; subst e1; subst e2; subst e3
          exact ⟨q1.1, by simp, q1.2.2.1, rfl⟩
      refine ⟨?_, q2.2.1, ?_, ?_⟩
      · refine WF_prepend q2.2.2.1 _ q1.2.1 ?_
        rcases q1.2.2.2 with e | e
        · exact Or.inl e
        · exact Or.inr (by rw [q2.2.2.2]; exact e)
      · split <;> exact q2.1
      · split <;> rfl

theorem visitLoopX_nil {xc : InlineX.XCfg} {g : Nat} {v v' : VisitX} (h : visitLoopX xc g [] v = some v') :
    v' = v := by
  cases g with
  | zero => simp [visitLoopX] at h
  | succ g => simp only [visitLoopX, Option.some.injEq] at h; exact h.symm

theorem visitLoopX_W (xc : InlineX.XCfg) :
    ∀ (g : Nat) (todo : List (Node × Option Nat)) (v v' : VisitX), visitLoopX xc g todo v = some v' →
      (∀ x ∈ todo, WF x.1) → (∀ n ∈ v.done, WF n) → StashW v.x.st.stash →
      (∀ n ∈ v'.done, WF n) ∧ StashW v'.x.st.stash := by
  intro g
  induction g with
  | zero => intro todo v v' h; simp [visitLoopX] at h
  | succ g ih =>
    intro todo v v' h htodo hdone hs
    cases todo with
    | nil =>
      simp only [visitLoopX, Option.some.injEq] at h; subst h
      exact ⟨hdone, hs⟩
    | cons x todo =>
      obtain ⟨child, orig⟩ := x
      simp only [visitLoopX] at h
      split at h
      · cases h
      · rename_i c tr v1 hv
        have q := visitChildX_W hv (htodo (child, orig) List.mem_cons_self) hs
        refine ih _ _ _ h ?_ ?_ q.2.2.1
        · intro y hy
          rcases List.mem_append.1 hy with hy | hy
          · obtain ⟨n, hn, e⟩ := List.mem_map.1 hy
            subst e; exact q.2.1 n hn
          · exact htodo y (List.mem_cons_of_mem _ hy)
        · intro n hn
          rcases List.mem_cons.1 hn with e | hn
          · subst e; exact q.1
          · rw [q.2.2.2] at hn; exact hdone n hn

theorem WF_getAt : ∀ (p : Path) {root cur : Node}, WF root → getAt root p = some cur → WF cur := by
  intro p
  induction p with
  | nil => intro root cur hr h; rw [NoCtl.getAt_nil] at h; cases h; exact hr
  | cons i p ih =>
    intro root cur hr h
    rw [NoCtl.getAt_cons] at h
    cases hc : root.children[i]? with
    | none => simp [hc] at h
    | some c =>
      simp only [hc] at h
      exact ih (hr.kids c (List.mem_of_getElem? hc)) h

/-- the element at the path is replaced by a well-formed one with the same tag and attributes -/
theorem WF_setAt : ∀ (p : Path) {root cur new : Node}, WF root → WF new → getAt root p = some cur →
    new.tag = cur.tag → new.attrs = cur.attrs →
    WF (setAt root p new) ∧ (setAt root p new).tag = root.tag ∧ (setAt root p new).attrs = root.attrs := by
  intro p
  induction p with
  | nil =>
    intro root cur new _ hn h e1 e2
    rw [NoCtl.getAt_nil] at h; cases h
    rw [NoCtl.setAt_nil]; exact ⟨hn, e1, e2⟩
  | cons i p ih =>
    intro root cur new hr hn h e1 e2
    rw [NoCtl.getAt_cons] at h
    rw [NoCtl.setAt_cons]
    cases hc : root.children[i]? with
    | none => simp [hc] at h
    | some c =>
      simp only [hc] at h ⊢
      have hcm : c ∈ root.children := List.mem_of_getElem? hc
      refine ⟨WF_children hr (hr.nv_of_child hcm) _ ?_, by first | trivial | exact ⟨rfl, rfl⟩⟩
      intro d hd
      rcases List.mem_or_eq_of_mem_set hd with hd | rfl
      · exact hr.kids d hd
      · exact (ih (hr.kids c hcm) hn h e1 e2).1

theorem runLoopX_W (xc : InlineX.XCfg) (g2 : Nat) :
    ∀ (g : Nat) (root : Node) (stack : List Path) (x : XSt) (root' : Node) (x' : XSt),
      runLoopX xc g2 g root stack x = some (root', x') → WF root → StashW x.st.stash →
      WF root' ∧ root'.tag = root.tag ∧ root'.attrs = root.attrs := by
  intro g
  induction g with
  | zero => intro root stack x root' x' h; simp [runLoopX] at h
  | succ g ih =>
    intro root stack x root' x' h hd hs
    cases stack with
    | nil =>
      simp only [runLoopX, Option.some.injEq, Prod.mk.injEq] at h
      obtain ⟨e, _⟩ := h; subst e; exact ⟨hd, rfl, rfl⟩
    | cons p stack =>
      simp only [runLoopX] at h
      split at h
      · exact ih _ _ _ _ _ h hd hs
      · rename_i cur hcur
        split at h
        · cases h
        · rename_i v hv
          have hcurW := WF_getAt p hd hcur
          have q := visitLoopX_W xc g2 _ { x := x } v hv
            (fun y hy => hcurW.kids y.1 (Vocab2.withIdx_fst _ _ _ hy))
            (by intro n hn; cases hn) hs
          have hnew : WF { cur with children := v.done.reverse } := by
            cases hk : cur.children with
            | nil =>
              rw [hk] at hv
              have e := visitLoopX_nil (xc := xc) hv
              subst e
              exact WF_noKids hcurW
            | cons c r =>
              refine WF_children hcurW (hcurW.nv_of_child (c := c) (by rw [hk]; exact List.mem_cons_self)) _ ?_
              exact fun n hn => q.1 n (List.mem_reverse.1 hn)
          obtain ⟨s1, s2, s3⟩ := WF_setAt p hd hnew hcur rfl rfl
          obtain ⟨r1, r2, r3⟩ := ih _ _ _ _ _ h s1 q.2
          exact ⟨r1, r2.trans s2, r3.trans s3⟩

/-- **the inline stage over any pattern table keeps the tree well formed**, and keeps the root's tag and
    attributes -/
theorem runX_WF {xc : InlineX.XCfg} {root : Node} {html : List Str} {t : Node} {x : InlineX.XSt}
    (h : InlineX.runX xc root html = some (t, x)) (hr : WF root) :
    WF t ∧ t.tag = root.tag ∧ t.attrs = root.attrs := by
  unfold runX at h
  exact runLoopX_W xc _ _ _ _ _ _ _ h hr stashW_nil

end MdVerif.VocabXWF
