/-
Helper lemmas for `Props/C07X.lean`: the preprocessors and the tree processors / postprocessor that the extensions
add, on the document of a fully escaped text (one paragraph, every escapable character coded `STX ord ETX`):
`FencedBlockPreprocessor` (no fence line), the admonition domain check, `FootnoteTreeprocessor` (no footnote),
`FootnotePostTreeprocessor`, `AttrListTreeprocessor` (no `{`), `AbbrTreeprocessor` (no abbreviation),
`TocTreeprocessor` (no heading, no `[TOC]`), `FootnotePostprocessor`.  Core Lean only.

The domain predicate for `fenced_code` (`~` is not escapable) is defined here: `noTildeFence`.
-/
import MdVerif.Model.PipelineX
import MdVerif.Lemmas.InlineEsc
import MdVerif.Lemmas.FencedCodeAttrs
import MdVerif.Lemmas.PyBasic

namespace MdVerif.EscX
open Py Escape

/-! ### characters of `coded esc t` -/

theorem natToDecAux_all (q : Char → Bool) (hq : ∀ d, d < 10 → q (Char.ofNat (48 + d)) = true) :
    ∀ (f n : Nat) (acc : Str), (∀ c ∈ acc, q c = true) → ∀ c ∈ natToDecAux f n acc, q c = true := by
  intro f
  induction f with
  | zero => intro n acc h c hc; exact h c (by simpa [natToDecAux] using hc)
  | succ f ih =>
    intro n acc h c hc
    have hd : q (digitChar n) = true := hq (n % 10) (by omega)
    have h' : ∀ c ∈ digitChar n :: acc, q c = true := by
      intro c hc
      rcases List.mem_cons.1 hc with rfl | hc
      · exact hd
      · exact h c hc
    by_cases hn : n < 10
    · simp only [natToDecAux, hn, if_true] at hc
      exact h' c hc
    · simp only [natToDecAux, hn, if_false] at hc
      exact ih _ _ h' c hc

theorem natToDec_all (q : Char → Bool) (hq : ∀ d, d < 10 → q (Char.ofNat (48 + d)) = true) (n : Nat) :
    ∀ c ∈ natToDec n, q c = true :=
  natToDecAux_all q hq _ n [] (by simp)

/-- a character of `coded esc t` is an unescapable character of `t`, STX, ETX or a digit -/
theorem mem_coded {esc : List Char} {c : Char} {t : Str} (q : Char → Bool)
    (hq : ∀ d, d < 10 → q (Char.ofNat (48 + d)) = true) (h2 : q Inline.STX = true) (h3 : q Inline.ETX = true)
    (h : c ∈ coded esc t) : (c ∈ t ∧ c ∉ esc) ∨ q c = true := by
  induction t with
  | nil => simp [coded] at h
  | cons d r ih =>
    by_cases hd : d ∈ esc
    · simp only [coded, List.contains_eq_mem, hd, decide_true, if_true, escCode, List.cons_append,
        List.mem_cons, List.mem_append, List.mem_nil_iff, or_false] at h
      rcases h with rfl | (h | rfl) | h
      · exact Or.inr h2
      · exact Or.inr (natToDec_all q hq _ c h)
      · exact Or.inr h3
      · rcases ih h with h | h
        · exact Or.inl ⟨List.mem_cons_of_mem _ h.1, h.2⟩
        · exact Or.inr h
    · simp only [coded, List.contains_eq_mem, hd, decide_false, Bool.false_eq_true, if_false, List.mem_cons] at h
      rcases h with rfl | h
      · exact Or.inl ⟨List.mem_cons_self, hd⟩
      · rcases ih h with h | h
        · exact Or.inl ⟨List.mem_cons_of_mem _ h.1, h.2⟩
        · exact Or.inr h

theorem not_mem_coded {esc : List Char} {a : Char} (ha : a ∈ esc) (t : Str)
    (hq : ∀ d, d < 10 → (Char.ofNat (48 + d) != a) = true) (h2 : a ≠ Inline.STX) (h3 : a ≠ Inline.ETX) :
    a ∉ coded esc t := by
  intro h
  rcases mem_coded (fun c => c != a) hq (by simpa using Ne.symm h2) (by simpa using Ne.symm h3) h with h | h
  · exact h.2 ha
  · simp at h

theorem brace_not_mem_coded {esc : List Char} (ha : '{' ∈ esc) (t : Str) : '{' ∉ coded esc t :=
  not_mem_coded ha t (by decide) (by decide) (by decide)

theorem bracket_not_mem_coded {esc : List Char} (ha : '[' ∈ esc) (t : Str) : '[' ∉ coded esc t :=
  not_mem_coded ha t (by decide) (by decide) (by decide)

/-! ### fenced_code: `~` is not escapable — the domain -/

/-- no line of the text starts with three tildes -/
def noTildeFence (t : Str) : Bool := (lines t).all (fun l => !startsWith l "~~~".toList)

theorem startsWith_tildes_escAll {esc : List Char} (l : Str)
    (h : startsWith (escAll esc l) "~~~".toList = true) : startsWith l "~~~".toList = true := by
  have step : ∀ (c : Char) (r : Str), startsWith (escAll esc (c :: r)) ('~' :: "~~".toList) = true →
      c = '~' ∧ escAll esc (c :: r) = c :: escAll esc r := by
    intro c r h
    by_cases hc : c ∈ esc
    · rw [escAll_cons_mem hc] at h; simp [startsWith] at h
    · rw [escAll_cons_not_mem hc] at h ⊢
      simp only [startsWith, Bool.and_eq_true, decide_eq_true_eq] at h
      exact ⟨h.1, rfl⟩
  match l, h with
  | [], h => simp [escAll] at h
  | c1 :: r1, h =>
    obtain ⟨e1, h1⟩ := step c1 r1 h
    rw [h1] at h
    subst e1
    match r1, h with
    | [], h => simp [escAll, startsWith] at h
    | c2 :: r2, h =>
      have h' : startsWith (escAll esc (c2 :: r2)) ('~' :: "~".toList) = true := by
        simpa [startsWith] using h
      by_cases hc : c2 ∈ esc
      · rw [escAll_cons_mem hc] at h'; simp [startsWith] at h'
      · rw [escAll_cons_not_mem hc] at h'
        simp only [startsWith, Bool.and_eq_true, decide_eq_true_eq] at h'
        obtain ⟨e2, h''⟩ := h'
        subst e2
        match r2, h'' with
        | [], h'' => simp [escAll] at h''
        | c3 :: r3, h'' =>
          by_cases hc3 : c3 ∈ esc
          · rw [escAll_cons_mem hc3] at h''; simp [startsWith] at h''
          · rw [escAll_cons_not_mem hc3] at h''
            have e3 : c3 = '~' := by simpa [startsWith] using h''
            subst e3
            show startsWith ('~' :: '~' :: '~' :: r3) ['~', '~', '~'] = true
            simp [startsWith]

theorem noFenceLine_escAll {esc : List Char} (hnl : '\n' ∉ esc) (ht : '`' ∈ esc) (t : Str)
    (h : noTildeFence t = true) : Fenced.noFenceLine (escAll esc t ++ ['\n', '\n']) = true := by
  have hl : lines (escAll esc t ++ ['\n', '\n']) = lines (escAll esc t) ++ [[], []] := by
    have := splitC_append_sep '\n' (escAll esc t) ['\n']
    simpa [lines] using this
  simp only [Fenced.noFenceLine, hl, List.all_append, Bool.and_eq_true]
  refine ⟨?_, by decide⟩
  rw [lines_escAll hnl, List.all_eq_true]
  intro l hl
  obtain ⟨l0, hl0, rfl⟩ := List.mem_map.1 hl
  have h0 : startsWith l0 "~~~".toList = false := by
    have := List.all_eq_true.1 h l0 hl0
    simpa using this
  have h1 : startsWith (escAll esc l0) "```".toList = false :=
    startsWith_head_ne' (head_escAll_ne_tick ht l0)
  have h2 : startsWith (escAll esc l0) "~~~".toList = false := by
    cases hs : startsWith (escAll esc l0) "~~~".toList with
    | false => rfl
    | true => rw [startsWith_tildes_escAll l0 hs] at h0; cases h0
  rw [Fenced.plainLine, h1, h2]; rfl
where
  startsWith_head_ne' {s : Str} {p : Char} {ps : Str} (h : s.head? ≠ some p) : startsWith s (p :: ps) = false := by
    cases s with
    | nil => rfl
    | cons c r =>
      have : c ≠ p := by simpa using h
      simp [startsWith, this]

/-! ### admonition: the domain check of the model -/

theorem admNonAscii_guarded {esc : List Char} (hm : '!' ∈ esc) :
    ∀ (s : Str) (pb : Bool), guardedFrom esc pb s = true → PipelineX.admNonAscii s = false := by
  intro s
  induction s with
  | nil => intro _ _; rfl
  | cons c r ih =>
    intro pb h
    simp only [guardedFrom, Bool.and_eq_true] at h
    have ihr := ih _ h.2
    simp only [PipelineX.admNonAscii, ihr, Bool.or_false]
    by_cases hc : c = '!'
    · subst hc
      cases r with
      | nil => simp
      | cons d r' =>
        have hd : d ≠ '!' := by
          intro e; subst e
          have := h.2
          simp only [guardedFrom, Bool.and_eq_true] at this
          have h1 := this.1
          simp [hm] at h1
        simp only [decide_true, Bool.true_and]
        split
        · rename_i heq; exact absurd (List.cons.inj heq).1 hd
        · rename_i heq; exact absurd (List.cons.inj heq).1 hd
        · rfl
    · simp [hc]

/-! ### the tree processors -/

theorem makeDiv_nil (parse : Block.Refs → Str → Option (Node × Block.Refs)) (fnCount : Block.Refs → Nat) :
    FootnotesTree.makeDiv parse fnCount (BlockExt.footnotesOf []) [] = .ok (none, []) := by
  simp [FootnotesTree.makeDiv, BlockExt.footnotesOf]

theorem duplicates_paragraph (fn : Footnotes.State) (X : Str) :
    FootnotesTree.duplicates fn ((Node.el "div").append (Block.mkText "p" X)) =
      some ((Node.el "div").append (Block.mkText "p" X)) := by
  have h1 : (Tag.name ['d', 'i', 'v'] == Tag.name ['d', 'i', 'v']) = true := by decide
  have h2 : (Tag.name ['p'] == Tag.name ['d', 'i', 'v']) = false := by decide
  simp [FootnotesTree.duplicates, FootnotesTree.duplicatesKids, Node.append, Node.el, Block.mkText, h2]

open AttrList in
theorem baseAt_none' (ok : Str → Bool) {s : Str} (h : '{' ∉ s) : baseAt ok s = none := by
  cases s with
  | nil => rfl
  | cons a r =>
    have ha : a ≠ '{' := fun e => h (e ▸ List.mem_cons_self)
    unfold baseAt
    split
    · rename_i heq; injection heq with h1 _; exact absurd h1 ha
    · rename_i heq; injection heq with h1 _; exact absurd h1 ha
    · rfl

open AttrList in
theorem blockSearch_none' : ∀ {s : Str}, '{' ∉ s → blockSearch s = none := by
  intro s
  induction s with
  | nil => intro _; rfl
  | cons a r ih =>
    intro h
    have hr : '{' ∉ r := fun hm => h (List.mem_cons_of_mem _ hm)
    simp only [blockSearch]
    have : (if a = '\n' then baseAt endOk (r.dropWhile (· = ' ')) else none) = none := by
      split
      · exact baseAt_none' _ (fun hm => hr ((List.dropWhile_suffix _).subset hm))
      · rfl
    rw [this, ih hr]
    rfl

open AttrList in
theorem blockApply_plain (a : Attrs) {s : Str} (h : '{' ∉ s) : blockApply false false a s = (a, s) := by
  simp [blockApply, blockSearch_none' h]

theorem attrList_prettyDoc (X : Str) (h : '{' ∉ X) :
    AttrListTree.run TreeProc.defaultBlockLevel (prettyDoc X) = prettyDoc X := by
  have h1 : TreeProc.isBlockLevel TreeProc.defaultBlockLevel (.name ['d', 'i', 'v']) = true := by decide
  have h2 : TreeProc.isBlockLevel TreeProc.defaultBlockLevel (.name ['p']) = true := by decide
  have h3 : AttrListTree.isHeaderTag (.name ['d', 'i', 'v']) = false := by decide
  have h4 : AttrListTree.isCellTag (.name ['d', 'i', 'v']) = false := by decide
  have h5 : AttrListTree.isHeaderTag (.name ['p']) = false := by decide
  have h6 : AttrListTree.isCellTag (.name ['p']) = false := by decide
  have h7 : (Tag.name ['d', 'i', 'v'] == Tag.name ['l', 'i']) = false := by decide
  have h8 : (Tag.name ['p'] == Tag.name ['l', 'i']) = false := by decide
  have hn : AttrList.blockApply false false [] ['\n'] = ([], ['\n']) := blockApply_plain [] (by decide)
  have hX : AttrList.blockApply false false [] X = ([], X) := blockApply_plain [] h
  cases X with
  | nil =>
    simp [AttrListTree.run, AttrListTree.attrNode, AttrListTree.attrKids, prettyDoc, h1, h2,
      AttrListTree.blockRule, h3, h4, h7, h8, Node.truthy, hn]
  | cons c r =>
    simp [AttrListTree.run, AttrListTree.attrNode, AttrListTree.attrKids, prettyDoc, h1, h2,
      AttrListTree.blockRule, h3, h4, h5, h6, h7, h8, Node.truthy, hn, hX]

theorem abbr_nil (n : Node) : AbbrTree.run (BlockExt.abbrsOf []) n = n := by
  simp [AbbrTree.run, BlockExt.abbrsOf]

theorem toc_prettyDoc (env : TocTree.Env) (bl : List Str) (X : Str) (h : strip X ≠ TocTree.marker) :
    TocTree.run env bl (prettyDoc X) = .ok (prettyDoc X) := by
  have h1 : TocTree.isHeaderTag (.name ['d', 'i', 'v']) = false := by decide
  have h2 : TocTree.isHeaderTag (.name ['p']) = false := by decide
  have h3 : (Tag.name ['p'] == Tag.name ['p', 'r', 'e']) = false := by decide
  have h4 : (Tag.name ['p'] == Tag.name ['c', 'o', 'd', 'e']) = false := by decide
  have h5 : (strip X == TocTree.marker) = false := by simpa using h
  simp [TocTree.run, TocTree.walkNode, TocTree.walkKids, prettyDoc, h1, h2, TocTree.replNode, TocTree.replKids,
    h3, h4, h5, TocTree.usedIds, TocTree.idsOf, TocTree.idsOfKids]

theorem strip_coded_ne_marker {esc : List Char} (ha : '[' ∈ esc) (t : Str) :
    strip (coded esc t) ≠ TocTree.marker := by
  intro e
  have h1 : '[' ∈ strip (coded esc t) := by rw [e]; decide
  exact bracket_not_mem_coded ha t ((strip_infix _).subset h1)

/-! ### the postprocessors -/

theorem stx_eq : FootnotesTree.STX = Post.STX := rfl

theorem postprocess_id (s : Str) (h : Post.STX ∉ s) : FootnotesTree.postprocess s = s := by
  have h1 : contains s FootnotesTree.fnBacklinkText = false := by
    rw [contains_eq_false_iff]
    intro pre post e
    apply h
    rw [e]
    simp [FootnotesTree.fnBacklinkText, stx_eq]
  have h2 : contains s FootnotesTree.nbspPlaceholder = false := by
    rw [contains_eq_false_iff]
    intro pre post e
    apply h
    rw [e]
    simp [FootnotesTree.nbspPlaceholder, stx_eq]
  simp only [FootnotesTree.postprocess]
  rw [replace_id_of_not_contains _ h1, replace_id_of_not_contains _ h2]

/-- the end of `convert` with the extensions on a serialised document `<div>\n<p>M</p>\n</div>\n` -/
theorem finishX_general (x : PipelineX.Exts) (cfg : Pipeline.Cfg) (M : Str) (hM : Post.STX ∉ M) :
    PipelineX.finishX x cfg []
      ("<div>".toList ++ ('\n' :: "<p>".toList ++ M ++ "</p>".toList ++ ['\n']) ++ "</div>\n".toList) =
      .ok ("<p>".toList ++ M ++ "</p>".toList) := by
  have hE : Post.STX ∉ "<p>".toList ++ M ++ "</p>".toList := by
    intro hm
    rcases List.mem_append.1 hm with hm | hm
    · rcases List.mem_append.1 hm with hm | hm
      · exact absurd hm (by decide)
      · exact hM hm
    · exact absurd hm (by decide)
  have hs : strip ("<p>".toList ++ M ++ "</p>".toList) = "<p>".toList ++ M ++ "</p>".toList := by
    apply strip_eq_self
    · intro c hc
      have : c = '<' := by simpa using hc.symm
      subst this; decide
    · intro c hc
      have : c = '>' := by
        have : ("<p>".toList ++ M ++ "</p>".toList).getLast? = some '>' := getLast_closeP _
        rw [this] at hc; exact (Option.some.inj hc).symm
      subst this; decide
  have hpp : (if x.footnotes = true then
      FootnotesTree.postprocess ("<p>".toList ++ M ++ "</p>".toList)
      else "<p>".toList ++ M ++ "</p>".toList) = "<p>".toList ++ M ++ "</p>".toList := by
    split
    · exact postprocess_id _ hE
    · rfl
  simp only [PipelineX.finishX, topLevelStrip_div, strip_paragraph, PipelineX.postX, Post.rawHtmlFuel,
    List.length_nil, Post.rawHtml, List.isEmpty_nil, if_true, Option.map_some, hpp, ampSub_id _ hE, hs]

/-- the end of `convert` with the extensions on the serialised document -/
theorem finishX_paragraph (x : PipelineX.Exts) (cfg : Pipeline.Cfg) (t : Str) (hstx : Post.STX ∉ t) :
    PipelineX.finishX x cfg []
      ("<div>".toList ++ ('\n' :: "<p>".toList ++ Ser.escCdata t ++ "</p>".toList ++ ['\n']) ++ "</div>\n".toList) =
      .ok ("<p>".toList ++ Ser.escCdata t ++ "</p>".toList) :=
  finishX_general x cfg _ (by rw [Ser.onepass_cdata']; exact stx_not_mem_esc1 _ _ t hstx)

end MdVerif.EscX
