/-
Helper lemmas for `Props/C16RenderG.lean`, part 6: prettify and unescape on the document with footnotes — any number
of references and footnotes.

Core Lean only.
-/
import MdVerif.Lemmas.RenderGTree

namespace MdVerif.RenderG
open Py Block BlockExt MdVerif.RenderX Inline InlineX
open MdVerif.Footnotes.Spec (refName)

/-! ### the document after prettify -/

def liFin (id note : Str) (index c : Nat) : Node :=
  { tag := .name "li".toList, attrs := [("id".toList, Footnotes.footnoteId id)], text := some ['\n'], tail := some ['\n'],
    children := [{ tag := .name "p".toList, text := some (note ++ FootnotesTree.nbspPlaceholder),
                   children := (backHrefs id c).map (backN index), tail := some ['\n'] }] }

def lisFin (cnt : Str → Nat) : List (Str × Str) → Nat → List Node
  | [], _ => []
  | d :: r, i => liFin d.1 d.2 i (cnt d.1) :: lisFin cnt r (i + 1)

def fnFinG (t : Str) (sups lis : List Node) : Node :=
  { tag := .name "div".toList, text := some ['\n'], tail := some ['\n'],
    children := [
      { tag := .name "p".toList, text := some t, children := sups, tail := some ['\n'] },
      { tag := .name "div".toList, attrs := [("class".toList, "footnote".toList)], text := some ['\n'], tail := some ['\n'],
        children := [
          { tag := .name "hr".toList, tail := some ['\n'] },
          { tag := .name "ol".toList, text := some ['\n'], tail := some ['\n'], children := lis }] }] }

theorem bl_pS : TreeProc.isBlockLevel TreeProc.defaultBlockLevel (.name "p".toList) = true := by decide
theorem bl_divS : TreeProc.isBlockLevel TreeProc.defaultBlockLevel (.name "div".toList) = true := by decide
theorem bl_sup : TreeProc.isBlockLevel TreeProc.defaultBlockLevel (.name "sup".toList) = false := by decide
theorem bl_a : TreeProc.isBlockLevel TreeProc.defaultBlockLevel (.name "a".toList) = false := by decide
theorem bl_hr : TreeProc.isBlockLevel TreeProc.defaultBlockLevel (.name "hr".toList) = true := by decide
theorem bl_ol : TreeProc.isBlockLevel TreeProc.defaultBlockLevel (.name "ol".toList) = true := by decide
theorem bl_li : TreeProc.isBlockLevel TreeProc.defaultBlockLevel (.name "li".toList) = true := by decide

theorem prettifyKids_inline (ks : List Node)
    (h : ∀ c ∈ ks, TreeProc.isBlockLevel TreeProc.defaultBlockLevel c.tag = false) :
    TreeProc.prettifyKids TreeProc.defaultBlockLevel ks = ks := by
  induction ks with
  | nil => rfl
  | cons c r ih =>
    simp only [TreeProc.prettifyKids, h c List.mem_cons_self, Bool.false_eq_true, if_false,
      ih (fun x hx => h x (List.mem_cons_of_mem _ hx))]

/-- is the first child block-level? -/
def firstBlock (children : List Node) : Bool :=
  (children.head?.map (fun c => TreeProc.isBlockLevel TreeProc.defaultBlockLevel c.tag)).getD false

/-- `_prettifyETree` on a block-level element without tail whose text stays -/
theorem prettify_keep (tag : Tag) (attrs : List (Str × Str)) (text : Option Str) (ta : Bool)
    (children : List Node) (tla : Bool) (hb : TreeProc.isBlockLevel TreeProc.defaultBlockLevel tag = true)
    (hc : tag ≠ Tag.name ['c', 'o', 'd', 'e']) (hp : tag ≠ Tag.name ['p', 'r', 'e'])
    (hno : firstBlock children = false) :
    TreeProc.prettifyETree TreeProc.defaultBlockLevel ⟨tag, attrs, text, ta, children, none, tla⟩ =
      ⟨tag, attrs, text, ta, TreeProc.prettifyKids TreeProc.defaultBlockLevel children, some ['\n'], false⟩ := by
  cases children with
  | nil => simp [TreeProc.prettifyETree, hb, hc, hp, TreeProc.blankOrNone, Node.truthy]
  | cons c r =>
    have h' : TreeProc.isBlockLevel TreeProc.defaultBlockLevel c.tag = false := by simpa [firstBlock] using hno
    simp [TreeProc.prettifyETree, hb, hc, hp, h', TreeProc.blankOrNone, Node.truthy]

/-- `_prettifyETree` on a block-level element without text and tail whose first child is block-level -/
theorem prettify_set (tag : Tag) (attrs : List (Str × Str)) (ta : Bool)
    (children : List Node) (tla : Bool) (hb : TreeProc.isBlockLevel TreeProc.defaultBlockLevel tag = true)
    (hc : tag ≠ Tag.name ['c', 'o', 'd', 'e']) (hp : tag ≠ Tag.name ['p', 'r', 'e'])
    (hyes : firstBlock children = true) :
    TreeProc.prettifyETree TreeProc.defaultBlockLevel ⟨tag, attrs, none, ta, children, none, tla⟩ =
      ⟨tag, attrs, some ['\n'], false, TreeProc.prettifyKids TreeProc.defaultBlockLevel children, some ['\n'], false⟩ := by
  cases children with
  | nil => simp [firstBlock] at hyes
  | cons c r =>
    have h' : TreeProc.isBlockLevel TreeProc.defaultBlockLevel c.tag = true := by simpa [firstBlock] using hyes
    simp [TreeProc.prettifyETree, hb, hc, hp, h', TreeProc.blankOrNone, Node.truthy]

theorem prettifyKids_two (t1 : Tag) (a1 : List (Str × Str)) (x1 : Option Str) (ta1 : Bool) (k1 : List Node)
    (tl1 : Option Str) (tla1 : Bool) (t2 : Tag) (a2 : List (Str × Str)) (x2 : Option Str) (ta2 : Bool) (k2 : List Node)
    (tl2 : Option Str) (tla2 : Bool) (a' b' : Node)
    (ha : TreeProc.isBlockLevel TreeProc.defaultBlockLevel t1 = true)
    (hb : TreeProc.isBlockLevel TreeProc.defaultBlockLevel t2 = true)
    (h1 : TreeProc.prettifyETree TreeProc.defaultBlockLevel ⟨t1, a1, x1, ta1, k1, tl1, tla1⟩ = a')
    (h2 : TreeProc.prettifyETree TreeProc.defaultBlockLevel ⟨t2, a2, x2, ta2, k2, tl2, tla2⟩ = b') :
    TreeProc.prettifyKids TreeProc.defaultBlockLevel [⟨t1, a1, x1, ta1, k1, tl1, tla1⟩, ⟨t2, a2, x2, ta2, k2, tl2, tla2⟩] =
      [a', b'] := by
  simp only [TreeProc.prettifyKids, ha, hb, if_true, h1, h2]

theorem prettifyKids_one (t1 : Tag) (a1 : List (Str × Str)) (x1 : Option Str) (ta1 : Bool) (k1 : List Node)
    (tl1 : Option Str) (tla1 : Bool) (a' : Node)
    (ha : TreeProc.isBlockLevel TreeProc.defaultBlockLevel t1 = true)
    (h1 : TreeProc.prettifyETree TreeProc.defaultBlockLevel ⟨t1, a1, x1, ta1, k1, tl1, tla1⟩ = a') :
    TreeProc.prettifyKids TreeProc.defaultBlockLevel [⟨t1, a1, x1, ta1, k1, tl1, tla1⟩] = [a'] := by
  simp only [TreeProc.prettifyKids, ha, if_true, h1]

theorem tag_ne (s : String) (h1 : s.toList ≠ ['c', 'o', 'd', 'e']) (h2 : s.toList ≠ ['p', 'r', 'e']) :
    Tag.name s.toList ≠ Tag.name ['c', 'o', 'd', 'e'] ∧ Tag.name s.toList ≠ Tag.name ['p', 'r', 'e'] :=
  ⟨fun e => h1 (Tag.name.inj e), fun e => h2 (Tag.name.inj e)⟩

theorem tn_p : Tag.name "p".toList ≠ Tag.name ['c', 'o', 'd', 'e'] ∧ Tag.name "p".toList ≠ Tag.name ['p', 'r', 'e'] :=
  tag_ne "p" (by decide) (by decide)
theorem tn_div : Tag.name "div".toList ≠ Tag.name ['c', 'o', 'd', 'e'] ∧ Tag.name "div".toList ≠ Tag.name ['p', 'r', 'e'] :=
  tag_ne "div" (by decide) (by decide)
theorem tn_hr : Tag.name "hr".toList ≠ Tag.name ['c', 'o', 'd', 'e'] ∧ Tag.name "hr".toList ≠ Tag.name ['p', 'r', 'e'] :=
  tag_ne "hr" (by decide) (by decide)
theorem tn_ol : Tag.name "ol".toList ≠ Tag.name ['c', 'o', 'd', 'e'] ∧ Tag.name "ol".toList ≠ Tag.name ['p', 'r', 'e'] :=
  tag_ne "ol" (by decide) (by decide)
theorem tn_li : Tag.name "li".toList ≠ Tag.name ['c', 'o', 'd', 'e'] ∧ Tag.name "li".toList ≠ Tag.name ['p', 'r', 'e'] :=
  tag_ne "li" (by decide) (by decide)

theorem withTail_tag (n : Node) (u : Str) : (withTail n u).tag = n.tag := by
  unfold withTail; split <;> rfl

theorem supKids_tag (items : List (Node × Str)) (hI : ItemsOK items) : ∀ c ∈ supKids items, c.tag = .name "sup".toList := by
  intro c hc
  obtain ⟨it, hit, rfl⟩ := List.mem_map.1 hc
  obtain ⟨refId, id, n, e⟩ := hI.sup it hit
  rw [withTail_tag, e]; rfl

theorem prettify_li (id note : Str) (index c : Nat) :
    TreeProc.prettifyETree TreeProc.defaultBlockLevel (liMid id note index c) = liFin id note index c := by
  have hb : TreeProc.prettifyKids TreeProc.defaultBlockLevel ((backHrefs id c).map (backN index)) =
      (backHrefs id c).map (backN index) :=
    prettifyKids_inline _ (by
      intro x hx
      obtain ⟨h, _, rfl⟩ := List.mem_map.1 hx
      exact bl_a)
  have hfirst : firstBlock ((backHrefs id c).map (backN index)) = false := by
    simp only [firstBlock, backHrefs, List.map_cons, List.head?_cons, Option.map_some, Option.getD_some]
    exact bl_a
  have hp := prettify_keep (.name "p".toList) [] (some (note ++ FootnotesTree.nbspPlaceholder)) false
    ((backHrefs id c).map (backN index)) false bl_pS tn_p.1 tn_p.2 hfirst
  rw [hb] at hp
  have hl := prettify_set (.name "li".toList) [("id".toList, Footnotes.footnoteId id)] false
    [(Node.mk (.name "p".toList) [] (some (note ++ FootnotesTree.nbspPlaceholder)) false ((backHrefs id c).map (backN index)) none false)]
    false bl_li tn_li.1 tn_li.2 (by simp only [firstBlock, List.head?_cons, Option.map_some, Option.getD_some]; exact bl_pS)
  have hk : TreeProc.prettifyKids TreeProc.defaultBlockLevel
      [(Node.mk (.name "p".toList) [] (some (note ++ FootnotesTree.nbspPlaceholder)) false ((backHrefs id c).map (backN index)) none false)] =
      [(Node.mk (.name "p".toList) [] (some (note ++ FootnotesTree.nbspPlaceholder)) false ((backHrefs id c).map (backN index)) (some ['\n']) false)] := by
    exact prettifyKids_one _ _ _ _ _ _ _ _ bl_pS hp
  rw [hk] at hl
  exact hl

theorem prettifyKids_lis (cnt : Str → Nat) : ∀ (defs : List (Str × Str)) (i : Nat),
    TreeProc.prettifyKids TreeProc.defaultBlockLevel (lisMid cnt defs i) = lisFin cnt defs i := by
  intro defs
  induction defs with
  | nil => intro i; rfl
  | cons d r ih =>
    intro i
    have hl : TreeProc.isBlockLevel TreeProc.defaultBlockLevel (liMid d.1 d.2 i (cnt d.1)).tag = true := bl_li
    simp only [lisMid, lisFin, TreeProc.prettifyKids, hl, if_true, prettify_li, ih (i + 1)]

/-! ### no `br`, no `pre` -/

mutual
def noBP : Node → Bool
  | ⟨tag, _, _, _, children, _, _⟩ => tag != .name "br".toList && tag != .name "pre".toList && noBPKids children
def noBPKids : List Node → Bool
  | [] => true
  | c :: r => noBP c && noBPKids r
end

mutual
theorem mapTree_noBP (f : Node → Node)
    (hf : ∀ n : Node, (n.tag != .name "br".toList && n.tag != .name "pre".toList) = true → f n = n) :
    (n : Node) → noBP n = true → TreeProc.mapTree f n = n
  | ⟨tag, attrs, text, ta, children, tail, tla⟩, h => by
    simp only [noBP, Bool.and_eq_true] at h
    simp only [TreeProc.mapTree, mapKids_noBP f hf children h.2]
    exact hf _ (by simp only [Bool.and_eq_true]; exact h.1)
theorem mapKids_noBP (f : Node → Node)
    (hf : ∀ n : Node, (n.tag != .name "br".toList && n.tag != .name "pre".toList) = true → f n = n) :
    (ns : List Node) → noBPKids ns = true → TreeProc.mapKids f ns = ns
  | [], _ => rfl
  | c :: r, h => by
    simp only [noBPKids, Bool.and_eq_true] at h
    simp only [TreeProc.mapKids, mapTree_noBP f hf c h.1, mapKids_noBP f hf r h.2]
end

theorem brRule_fix (n : Node) (h : (n.tag != .name "br".toList && n.tag != .name "pre".toList) = true) :
    TreeProc.brRule n = n := by
  simp only [Bool.and_eq_true, bne_iff_ne, ne_eq, String.reduceToList] at h
  have : TreeProc.tagIs n "br" = false := by simp [TreeProc.tagIs, h.1]
  simp [TreeProc.brRule, this]

theorem preRule_fix (n : Node) (h : (n.tag != .name "br".toList && n.tag != .name "pre".toList) = true) :
    TreeProc.preRule n = n := by
  simp only [Bool.and_eq_true, bne_iff_ne, ne_eq, String.reduceToList] at h
  have : TreeProc.tagIs n "pre" = false := by simp [TreeProc.tagIs, h.2]
  simp [TreeProc.preRule, this]

theorem noBP_supKids (items : List (Node × Str)) (h : ItemsOK items) : noBPKids (supKids items) = true := by
  induction items with
  | nil => rfl
  | cons it r ih =>
    obtain ⟨refId, id, n, e⟩ := h.sup it List.mem_cons_self
    have hr := ih ⟨fun x hx => h.sup x (List.mem_cons_of_mem _ hx), fun x hx => h.tails x (List.mem_cons_of_mem _ hx)⟩
    simp only [supKids, List.map_cons, noBPKids, Bool.and_eq_true]
    refine ⟨?_, hr⟩
    rw [e]
    unfold withTail
    split <;> (simp only [supG, noBP, noBPKids]; decide)

theorem noBP_backs (index : Nat) (hs : List Str) : noBPKids (hs.map (backN index)) = true := by
  induction hs with
  | nil => rfl
  | cons h r ih =>
    simp only [List.map_cons, noBPKids, ih, Bool.and_true]
    simp only [backN, noBP, noBPKids]; decide

theorem noBP_lisFin (cnt : Str → Nat) : ∀ (defs : List (Str × Str)) (i : Nat), noBPKids (lisFin cnt defs i) = true := by
  intro defs
  induction defs with
  | nil => intro i; rfl
  | cons d r ih =>
    intro i
    simp only [lisFin, noBPKids, ih (i + 1), Bool.and_true]
    simp only [liFin, noBP, noBPKids, noBP_backs]; decide

theorem noBP_fnFinG (t : Str) (sups lis : List Node) (h1 : noBPKids sups = true) (h2 : noBPKids lis = true) :
    noBP (fnFinG t sups lis) = true := by
  simp only [fnFinG, noBP, noBPKids, h1, h2]; decide

theorem prettify_fnG (t : Str) (items : List (Node × Str)) (cnt : Str → Nat) (defs : List (Str × Str))
    (hI : ItemsOK items) (hne : defs ≠ []) :
    TreeProc.prettify (fnMidG t (supKids items) (lisMid cnt defs 1)) =
      fnFinG t (supKids items) (lisFin cnt defs 1) := by
  have hsup : TreeProc.prettifyKids TreeProc.defaultBlockLevel (supKids items) = supKids items :=
    prettifyKids_inline _ (fun c hc => by rw [supKids_tag items hI c hc]; exact bl_sup)
  have hfs : firstBlock (supKids items) = false := by
    cases h : supKids items with
    | nil => rfl
    | cons c r =>
      have := supKids_tag items hI c (by rw [h]; simp)
      simp only [firstBlock, List.head?_cons, Option.map_some, Option.getD_some, this]; exact bl_sup
  have hfl : firstBlock (lisMid cnt defs 1) = true := by
    cases defs with
    | nil => exact absurd rfl hne
    | cons d r =>
      simp only [firstBlock, lisMid, liMid, List.head?_cons, Option.map_some, Option.getD_some]
      exact bl_li
  have bp : TreeProc.isBlockLevel TreeProc.defaultBlockLevel (Tag.name "p".toList) = true := bl_pS
  have bd : TreeProc.isBlockLevel TreeProc.defaultBlockLevel (Tag.name "div".toList) = true := bl_divS
  have bh : TreeProc.isBlockLevel TreeProc.defaultBlockLevel (Tag.name "hr".toList) = true := bl_hr
  have bo : TreeProc.isBlockLevel TreeProc.defaultBlockLevel (Tag.name "ol".toList) = true := bl_ol
  -- the paragraph
  have hP := prettify_keep (.name "p".toList) [] (some t) false (supKids items) false bp tn_p.1 tn_p.2 hfs
  rw [hsup] at hP
  -- the rule and the list
  have hHr := prettify_keep (.name "hr".toList) [] none false [] false bh tn_hr.1 tn_hr.2 rfl
  simp only [TreeProc.prettifyKids] at hHr
  have hOl := prettify_set (.name "ol".toList) [] false (lisMid cnt defs 1) false bo tn_ol.1 tn_ol.2 hfl
  rw [prettifyKids_lis] at hOl
  -- the footnote div
  have hD := prettify_set (.name "div".toList) [("class".toList, "footnote".toList)] false
    [(Node.mk (.name "hr".toList) [] none false [] none false), (Node.mk (.name "ol".toList) [] none false (lisMid cnt defs 1) none false)]
    false bd tn_div.1 tn_div.2
    (by simp only [firstBlock, List.head?_cons, Option.map_some, Option.getD_some]; exact bh)
  have hkD : TreeProc.prettifyKids TreeProc.defaultBlockLevel
      [(Node.mk (.name "hr".toList) [] none false [] none false), (Node.mk (.name "ol".toList) [] none false (lisMid cnt defs 1) none false)] =
      [(Node.mk (.name "hr".toList) [] none false [] (some ['\n']) false), (Node.mk (.name "ol".toList) [] (some ['\n']) false (lisFin cnt defs 1) (some ['\n']) false)] := by
    exact prettifyKids_two _ _ _ _ _ _ _ _ _ _ _ _ _ _ _ _ bh bo hHr hOl
  rw [hkD] at hD
  -- the root
  have hR := prettify_set (.name "div".toList) [] false
    [(Node.mk (.name "p".toList) [] (some t) false (supKids items) none false), (Node.mk (.name "div".toList) [("class".toList, "footnote".toList)] none false [(Node.mk (.name "hr".toList) [] none false [] none false), (Node.mk (.name "ol".toList) [] none false (lisMid cnt defs 1) none false)] none false)]
    false bd tn_div.1 tn_div.2
    (by simp only [firstBlock, List.head?_cons, Option.map_some, Option.getD_some]; exact bp)
  have hkR : TreeProc.prettifyKids TreeProc.defaultBlockLevel
      [(Node.mk (.name "p".toList) [] (some t) false (supKids items) none false), (Node.mk (.name "div".toList) [("class".toList, "footnote".toList)] none false [(Node.mk (.name "hr".toList) [] none false [] none false), (Node.mk (.name "ol".toList) [] none false (lisMid cnt defs 1) none false)] none false)] =
      [(Node.mk (.name "p".toList) [] (some t) false (supKids items) (some ['\n']) false), (Node.mk (.name "div".toList) [("class".toList, "footnote".toList)] (some ['\n']) false [(Node.mk (.name "hr".toList) [] none false [] (some ['\n']) false), (Node.mk (.name "ol".toList) [] (some ['\n']) false (lisFin cnt defs 1) (some ['\n']) false)] (some ['\n']) false)] := by
    exact prettifyKids_two _ _ _ _ _ _ _ _ _ _ _ _ _ _ _ _ bp bd hP hD
  rw [hkR] at hR
  have hE : TreeProc.prettifyETree TreeProc.defaultBlockLevel (fnMidG t (supKids items) (lisMid cnt defs 1)) =
      fnFinG t (supKids items) (lisFin cnt defs 1) := hR
  have hnb := noBP_fnFinG t (supKids items) (lisFin cnt defs 1) (noBP_supKids items hI) (noBP_lisFin cnt defs 1)
  have h1 := mapTree_noBP TreeProc.brRule brRule_fix _ hnb
  have h2 := mapTree_noBP TreeProc.preRule preRule_fix _ hnb
  unfold TreeProc.prettify
  rw [hE, h1, h2]

end MdVerif.RenderG
