/-
Lemmas for C05 on the extension model, block stage, part 2: **tails**.  The extended block parser
(`BlockExt.parseBlocksXT`, every `cfg`, with or without `tables`, any `tab`) keeps the tail of the parent it works
into and — unless the parser state is `list` — keeps "no child of the parent has a truthy tail" (`NT`).

In the block parser a tail is written only by `ParagraphProcessor.run` in state `list` (`paraP`: `sib.tail := …` for
`sib = parent[-1]`), i.e. inside `parseBlocks(li, [item])` called from the item loop of `OListProcessor.run` with the
state `state ++ [.list]`.  Every recursive call a processor makes on the SAME parent keeps the state (`hashP`, `hrP`,
first part of `quoteP` and of `admonitionP`) or pushes `.detabbed` (`indentPX`, parent an item); every child appended
or replaced at the level of the parent is a fresh element (tail `None`), the result of a recursive call into a fresh
element or into the child it replaces (the tail is kept), or the old child with other fields changed.

Consequence (`parseChunkXT_tails`): the top-level children of a chunk parsed in the empty state into a fresh `div` have
no truthy tail.  (No hypothesis on `cfg`: the invariant does not involve void elements, the admonition processor is
covered.)

Core Lean only.
-/
import MdVerif.Lemmas.VocabXWFBlock

namespace MdVerif.VocabXWF
open Py Block BlockExt

/-- no child has a truthy tail -/
def NT (p : Node) : Prop := ∀ c ∈ p.children, Node.truthy c.tail = false

/-- the recursive call keeps the parent's own tail and — unless the state is `list` — keeps "no child has a truthy
    tail" -/
def TStep (st : List BState) (p r : Node) : Prop :=
  r.tail = p.tail ∧ (isstate st .list = false → NT p → NT r)

def PBT (pb : PB) : Prop := ∀ st refs p blocks r refs', pb st refs p blocks = some (r, refs') → TStep st p r

theorem NT_el (t : String) : NT (Node.el t) := by intro c hc; cases hc

theorem NT_append {p c : Node} (hp : NT p) (hc : Node.truthy c.tail = false) : NT (p.append c) := by
  intro x hx
  simp only [Node.append, List.mem_append, List.mem_singleton] at hx
  rcases hx with hx | hx
  · exact hp x hx
  · rw [hx]; exact hc

theorem NT_setLast {p l c : Node} (hp : NT p) (hl : p.last? = some l) (hc : c.tail = l.tail) : NT (p.setLast c) := by
  intro x hx
  simp only [Node.setLast, List.mem_append, List.mem_singleton] at hx
  rcases hx with hx | hx
  · exact hp x ((List.dropLast_prefix _).subset hx)
  · rw [hx, hc]; exact hp l (List.mem_of_getLast? hl)

theorem TStep.refl (st : List BState) (p : Node) : TStep st p p := ⟨rfl, fun _ h => h⟩

theorem TStep.trans {st : List BState} {p q r : Node} (h1 : TStep st p q) (h2 : TStep st q r) : TStep st p r :=
  ⟨h2.1.trans h1.1, fun hs h => h2.2 hs (h1.2 hs h)⟩

/-- a change that keeps the tail and `NT` whatever the state -/
theorem TStep.of {st : List BState} {p r : Node} (h1 : r.tail = p.tail) (h2 : NT p → NT r) : TStep st p r :=
  ⟨h1, fun _ => h2⟩

theorem TStep.append (st : List BState) (p : Node) {c : Node} (hc : Node.truthy c.tail = false) :
    TStep st p (p.append c) := TStep.of rfl (fun hp => NT_append hp hc)

theorem TStep.setLast (st : List BState) {p l c : Node} (hl : p.last? = some l) (hc : c.tail = l.tail) :
    TStep st p (p.setLast c) := TStep.of rfl (fun hp => NT_setLast hp hl hc)

theorem tstep_of_some {st : List BState} {p : Node} {x : Node × Refs × List Str} {r : Node} {a : Refs}
    {b : List Str} (hx : TStep st p x.1) (h : some x = some (r, a, b)) : TStep st p r := by
  injection h with h; subst h; exact hx

/-- `isstate` looks at the last state pushed -/
theorem isstate_push (state : List BState) (a b : BState) : isstate (state ++ [a]) b = (a == b) := by
  simp [isstate]

theorem isstate_nil (b : BState) : isstate [] b = false := rfl

/-! ### the core processors that do not recurse -/

theorem emptyP_t (st : List BState) (refs : Refs) (parent : Node) (b : Str) (rest : List Str) :
    TStep st parent (emptyP refs parent b rest).1 := by
  simp only [emptyP]
  cases hl : parent.last? with
  | none => exact TStep.refl _ _
  | some sib =>
    dsimp only
    cases hp : preCode sib with
    | none => exact TStep.refl _ _
    | some code => exact TStep.setLast _ hl rfl

theorem codeP_t (st : List BState) (tab : Nat) (refs : Refs) (parent : Node) (b : Str) (rest : List Str) :
    TStep st parent (codeP tab refs parent b rest).1 := by
  simp only [codeP]
  cases hl : parent.last? with
  | none => exact TStep.append _ _ rfl
  | some sib =>
    dsimp only
    cases hp : preCode sib with
    | none => exact TStep.append _ _ rfl
    | some code => exact TStep.setLast _ hl rfl

theorem hashP_t {tab : Nat} {pb : PB} (hpb : PBT pb) {state : List BState} {refs : Refs} {parent : Node} {b : Str}
    {rest : List Str} {m : Nat × Nat × Nat × Str} {r : Node} {refs' : Refs} {rest' : List Str}
    (h : hashP tab pb state refs parent b rest m = some (r, refs', rest')) : TStep state parent r := by
  obtain ⟨st, en, lv, header⟩ := m
  simp only [hashP] at h
  split at h
  · cases h
  · rename_i p1 refs1 h1
    injection h with h; injection h with h _; subst h
    have s1 : TStep state parent p1 := by
      split at h1
      · injection h1 with h1; injection h1 with h1 _; subst h1; exact TStep.refl _ _
      · exact hpb _ _ _ _ _ _ h1
    exact s1.trans (TStep.append _ _ rfl)

theorem setextP_t (st : List BState) (refs : Refs) (parent : Node) (b : Str) (rest : List Str) :
    TStep st parent (setextP refs parent b rest).1 := by
  simp only [setextP]
  exact TStep.append _ _ rfl

theorem hrP_t {pb : PB} (hpb : PBT pb) {state : List BState} {refs : Refs} {parent : Node} {b : Str}
    {rest : List Str} {m : Nat × Nat} {r : Node} {refs' : Refs} {rest' : List Str}
    (h : hrP pb state refs parent b rest m = some (r, refs', rest')) : TStep state parent r := by
  obtain ⟨st, en⟩ := m
  simp only [hrP] at h
  split at h
  · cases h
  · rename_i p1 refs1 h1
    injection h with h; injection h with h _; subst h
    have s1 : TStep state parent p1 := by
      split at h1
      · injection h1 with h1; injection h1 with h1 _; subst h1; exact TStep.refl _ _
      · exact hpb _ _ _ _ _ _ h1
    exact s1.trans (TStep.append _ _ rfl)

theorem referenceP_t (st : List BState) (refs : Refs) (parent : Node) (b : Str) (rest : List Str)
    (m : Nat × Nat × Str × Str × Option Str × Option Str) :
    TStep st parent (referenceP refs parent b rest m).1 := by
  obtain ⟨st', en, ident, link, t5, t6⟩ := m
  exact TStep.refl _ _

/-- `ParagraphProcessor.run`: the only place where a tail is written — in state `list` -/
theorem paraP_t (state : List BState) (refs : Refs) (parent : Node) (b : Str) (rest : List Str) :
    TStep state parent (paraP state refs parent b rest).1 := by
  simp only [paraP]
  split
  · exact TStep.refl _ _
  · split
    · rename_i hst
      cases hl : parent.last? with
      | none => exact ⟨rfl, fun hn => by rw [hst] at hn; cases hn⟩
      | some sib => exact ⟨rfl, fun hn => by rw [hst] at hn; cases hn⟩
    · exact TStep.append _ _ rfl

theorem quoteP_t {pb : PB} (hpb : PBT pb) {state : List BState} {refs : Refs} {parent : Node} {b : Str}
    {rest : List Str} {q : Nat} {r : Node} {refs' : Refs} {rest' : List Str}
    (h : quoteP pb state refs parent b rest q = some (r, refs', rest')) : TStep state parent r := by
  simp only [quoteP, parseChunk] at h
  split at h
  · cases h
  · rename_i p1 refs1 h1
    have s1 : TStep state parent p1 := hpb _ _ _ _ _ _ h1
    refine s1.trans ?_
    split at h
    · rename_i sib hs
      split at h
      · rename_i quote refs2 h2
        injection h with h; injection h with h _; subst h
        have s2 := hpb _ _ _ _ _ _ h2
        cases hl : p1.last? with
        | none => rw [hl] at hs; cases hs
        | some sib' =>
          rw [hl] at hs
          dsimp only at hs
          split at hs
          · injection hs with hs; subst hs
            exact TStep.setLast _ hl s2.1
          · cases hs
      · cases h
    · split at h
      · rename_i quote refs2 h2
        injection h with h; injection h with h _; subst h
        have s2 := hpb _ _ _ _ _ _ h2
        exact TStep.append _ _ (by rw [s2.1]; rfl)
      · cases h

/-! ### the list processors -/

/-- the item loop keeps the tail of the list and `NT` of the list (the recursive calls run in state `list`, but into
    the items) -/
theorem listItems_t {tab : Nat} {pb : PB} (hpb : PBT pb) (st2 : List BState) :
    ∀ (items : List Str) (refs : Refs) (lst r : Node) (refs' : Refs),
      listItems tab pb st2 refs lst items = some (r, refs') → r.tail = lst.tail ∧ (NT lst → NT r)
  | [], refs, lst, r, refs', h => by
    simp only [listItems] at h
    injection h with h; injection h with h _; subst h
    exact ⟨rfl, fun hb => hb⟩
  | item :: items, refs, lst, r, refs', h => by
    simp only [listItems] at h
    split at h
    · cases hl : lst.last? with
      | none =>
        rw [hl] at h
        dsimp only at h
        exact listItems_t hpb st2 items refs lst r refs' h
      | some l =>
        rw [hl] at h
        dsimp only at h
        split at h
        · rename_i li refs1 h1
          have s1 := hpb _ _ _ _ _ _ h1
          have ih := listItems_t hpb st2 items refs1 (lst.setLast li) r refs' h
          exact ⟨ih.1, fun hb => ih.2 (NT_setLast hb hl s1.1)⟩
        · cases h
    · split at h
      · rename_i li refs1 h1
        have s1 := hpb _ _ _ _ _ _ h1
        have ih := listItems_t hpb st2 items refs1 (lst.append li) r refs' h
        exact ⟨ih.1, fun hb => ih.2 (NT_append hb (by rw [s1.1]; rfl))⟩
      · cases h

theorem fixLast_tail (lst : Node) : (fixLast lst).tail = lst.tail := by
  unfold fixLast; split <;> rfl

theorem listPX_t {p : ListParams} {tab : Nat} {pb : PB} (hpb : PBT pb) {state : List BState} {refs : Refs}
    {parent : Node} {b : Str} {rest : List Str} {tag : String} {r : Node} {refs' : Refs} {rest' : List Str}
    (h : listPX p tab pb state refs parent b rest tag = some (r, refs', rest')) : TStep state parent r := by
  simp only [listPX] at h
  split at h
  · rename_i lst hs
    change (match pb (state ++ [.looselist]) refs (Node.el "li") [(getItemsX p tab b).headD []] with
      | none => none
      | some (newli, refs) =>
        match listItems tab pb (state ++ [.list]) refs ((fixLast lst).append newli) ((getItemsX p tab b).drop 1) with
        | some (lst, refs) => some (parent.setLast lst, refs, rest)
        | none => none) = some (r, refs', rest') at h
    cases hl : parent.last? with
    | none => rw [hl] at hs; cases hs
    | some sib =>
      rw [hl] at hs
      dsimp only at hs
      split at hs
      · injection hs with hs; subst hs
        split at h
        · cases h
        · rename_i newli refs1 h1
          split at h
          · rename_i lstR refs2 h2
            injection h with h; injection h with h _; subst h
            have s2 := listItems_t hpb _ _ _ _ _ _ h2
            exact TStep.setLast _ hl (s2.1.trans (fixLast_tail sib))
          · cases h
      · cases hs
  · split at h
    · split at h
      · rename_i lstR refs2 h2
        injection h with h; injection h with h _; subst h
        have s2 := listItems_t hpb _ _ _ _ _ _ h2
        exact TStep.of s2.1 s2.2
      · cases h
    · split at h
      · rename_i lstR refs2 h2
        injection h with h; injection h with h _; subst h
        have s2 := listItems_t hpb _ _ _ _ _ _ h2
        exact TStep.append _ _ (by rw [s2.1]; split <;> rfl)
      · cases h

theorem listP_t {tab : Nat} {pb : PB} (hpb : PBT pb) {state : List BState} {refs : Refs} {parent : Node} {b : Str}
    {rest : List Str} {tag : String} {r : Node} {refs' : Refs} {rest' : List Str}
    (h : listP tab pb state refs parent b rest tag = some (r, refs', rest')) : TStep state parent r := by
  rw [← listPX_default] at h
  exact listPX_t hpb h

/-! ### `ListIndentProcessor` -/

theorem updPath_tail (f : Node → Node) : ∀ (k : Nat) (p : Node),
    (f (nodeAt k p)).tail = (nodeAt k p).tail → (updPath f k p).tail = p.tail
  | 0, _, h => h
  | k + 1, p, _ => by
    simp only [updPath]
    split <;> rfl

/-- the node at the end of the path keeps its tail; when the path is empty it keeps `NT` -/
theorem updPath_NT (f : Node → Node) : ∀ (k : Nat) (p : Node),
    (f (nodeAt k p)).tail = (nodeAt k p).tail → (k = 0 → NT (nodeAt k p) → NT (f (nodeAt k p))) →
    NT p → NT (updPath f k p)
  | 0, p, _, h0, hp => h0 rfl hp
  | k + 1, p, h, _, hp => by
    simp only [updPath]
    simp only [nodeAt] at h
    split
    · rename_i c hc
      rw [hc] at h
      exact NT_setLast hp hc (updPath_tail f k c h)
    · exact hp

theorem textToP_tail (li : Node) : (textToP li).tail = li.tail := by
  unfold textToP; split <;> rfl

theorem indentPX_t {isL isI : Node → Bool} {itemTag : String} {tab : Nat} {pb : PB} (hpb : PBT pb)
    {state : List BState} {refs : Refs} {parent : Node} {b : Str} {rest : List Str} {r : Node} {refs' : Refs}
    {rest' : List Str}
    (h : indentPX isL isI itemTag tab pb state refs parent b rest = some (r, refs', rest')) :
    TStep state parent r := by
  have hdet : isstate (state ++ [.detabbed]) .list = false := by rw [isstate_push]; rfl
  simp only [indentPX, parseChunk] at h
  generalize hsib : nodeAt (getLevelX isL isI tab state parent b).2 parent = sibling at h
  split at h
  · -- the parent is an item
    split at h
    · rename_i c hc
      split at h
      · rename_i sub refs1 h1
        injection h with h; injection h with h _; subst h
        have s1 := hpb _ _ _ _ _ _ h1
        cases hl : parent.last? with
        | none => rw [hl] at hc; cases hc
        | some c' =>
          rw [hl] at hc
          dsimp only at hc
          split at hc
          · injection hc with hc; subst hc
            exact TStep.setLast _ hl s1.1
          · cases hc
      · cases h
    · split at h
      · rename_i p1 refs1 h1
        injection h with h; injection h with h _; subst h
        -- the same parent, in state `detabbed`
        have s1 := hpb _ _ _ _ _ _ h1
        exact TStep.of s1.1 (s1.2 hdet)
      · cases h
  · split at h
    · -- the sibling is an item
      split at h
      · rename_i sub refs1 h1
        injection h with h; injection h with h _; subst h
        have s1 := hpb _ _ _ _ _ _ h1
        have e1 : ((fun _ => sub) (nodeAt (getLevelX isL isI tab state parent b).2 parent)).tail =
            (nodeAt (getLevelX isL isI tab state parent b).2 parent).tail := by rw [hsib]; exact s1.1
        exact TStep.of (updPath_tail _ _ _ e1)
          (updPath_NT _ _ _ e1 (fun _ => by rw [hsib]; exact s1.2 hdet))
      · cases h
    · split at h
      · -- the last child of the sibling is an item
        rename_i li hli
        split at h
        · rename_i li' refs1 h1
          injection h with h; injection h with h _; subst h
          have s1 := hpb _ _ _ _ _ _ h1
          cases hl : sibling.last? with
          | none => rw [hl] at hli; cases hli
          | some c' =>
            rw [hl] at hli
            dsimp only at hli
            split at hli
            · injection hli with hli; subst hli
              refine TStep.of (updPath_tail _ _ _ rfl) (updPath_NT _ _ _ rfl (fun _ => ?_))
              rw [hsib]
              intro hs
              exact NT_setLast hs hl (s1.1.trans (textToP_tail c'))
            · cases hli
        · cases h
      · -- `create_item`
        split at h
        · rename_i li' refs1 h1
          injection h with h; injection h with h _; subst h
          have s1 := hpb _ _ _ _ _ _ h1
          refine TStep.of (updPath_tail _ _ _ rfl) (updPath_NT _ _ _ rfl (fun _ hs => ?_))
          exact NT_append hs (by rw [s1.1]; rfl)
        · cases h

theorem indentP_t {tab : Nat} {pb : PB} (hpb : PBT pb) {state : List BState} {refs : Refs} {parent : Node} {b : Str}
    {rest : List Str} {r : Node} {refs' : Refs} {rest' : List Str}
    (h : indentP tab pb state refs parent b rest = some (r, refs', rest')) : TStep state parent r := by
  rw [← indentPX_core] at h
  exact indentPX_t hpb h

/-! ### admonition -/

theorem admonitionP_t {tab : Nat} {pb : PB} (hpb : PBT pb) {state : List BState} {refs : Refs} {parent : Node}
    {b : Str} {rest : List Str} {hit : AdmHit} {r : Node} {refs' : Refs} {rest' : List Str}
    (h : admonitionP tab pb state refs parent b rest hit = some (r, refs', rest')) : TStep state parent r := by
  cases hit with
  | re st en g1 g2 =>
    simp only [admonitionP, parseChunk] at h
    split at h
    · cases h
    · rename_i p1 refs1 h1
      have s1 : TStep state parent p1 := by
        split at h1
        · exact hpb _ _ _ _ _ _ h1
        · injection h1 with h1; injection h1 with h1 _; subst h1; exact TStep.refl _ _
      split at h
      · rename_i div refs2 h2
        injection h with h; injection h with h _; subst h
        have s2 := hpb _ _ _ _ _ _ h2
        exact s1.trans (TStep.append _ _ (by rw [s2.1]; split <;> rfl))
      · cases h
  | sib steps indent =>
    simp only [admonitionP, parseChunk] at h
    split at h
    · rename_i div refs2 h2
      injection h with h; injection h with h _; subst h
      have s2 := hpb _ _ _ _ _ _ h2
      have e1 : ((fun _ => div) (nodeAt steps parent)).tail = (nodeAt steps parent).tail := by
        rw [s2.1]; split <;> rfl
      refine ⟨updPath_tail _ _ _ e1, fun hst hp => updPath_NT _ _ _ e1 (fun _ hs => s2.2 hst ?_) hp⟩
      -- the (possibly wrapped) sibling: its text moved into a new last child `p`
      split
      · intro c hc
        simp only [List.mem_append, List.mem_singleton] at hc
        rcases hc with hc | hc
        · exact hs c hc
        · rw [hc]; rfl
      · exact hs
    · cases h

/-! ### definition lists -/

theorem NT_dropLastChild {p : Node} (hp : NT p) : NT (dropLastChild p) :=
  fun c hc => hp c ((List.dropLast_prefix _).subset hc)

theorem defListP_t {tab : Nat} {pb : PB} (_hpb : PBT pb) {state : List BState} {refs : Refs} {parent : Node}
    {b : Str} {rest : List Str} {m : Nat × Nat × Str} {r : Node} {refs' : Refs} {rest' : List Str}
    (h : defListP tab pb state refs parent b rest m = some (some (r, refs', rest'))) : TStep state parent r := by
  obtain ⟨st, en, g2⟩ := m
  simp only [defListP] at h
  generalize (List.filter (fun t => !List.isEmpty t) (List.map strip (lines (List.take st b)))) = terms0 at h
  generalize (if defNoIndent (List.drop en b) = true then (List.drop en b, [])
    else detab tab (List.drop en b)) = dt at h
  split at h
  · split at h
    · cases h
    · injection h with h
      split at h
      · rename_i dd refs1 h1
        injection h with h; injection h with h _; subst h
        exact TStep.append _ _ rfl
      · cases h
  · rename_i sibling hsib
    injection h with h
    generalize hpar : (if (terms0.isEmpty && sibling.isTag "p") = true then dropLastChild parent else parent) = par
      at h
    have spar : TStep state parent par := by
      rw [← hpar]; split
      · exact TStep.of rfl NT_dropLastChild
      · exact TStep.refl _ _
    refine spar.trans ?_
    split at h
    · rename_i dl hdl
      split at h
      · rename_i dd refs1 h1
        injection h with h; injection h with h _; subst h
        cases hl : par.last? with
        | none => rw [hl] at hdl; cases hdl
        | some s' =>
          rw [hl] at hdl
          dsimp only at hdl
          split at hdl
          · injection hdl with hdl; subst hdl
            exact TStep.setLast _ hl rfl
          · cases hdl
      · cases h
    · split at h
      · rename_i dd refs1 h1
        injection h with h; injection h with h _; subst h
        exact TStep.append _ _ rfl
      · cases h

/-! ### the tail of the dispatcher -/

section tails
variable {cfg : XCfg} {tab : Nat} {pb : PB} {state : List BState} {refs : Refs} {parent : Node} {b : Str}
  {rest : List Str} {r : Node} {refs' : Refs} {rest' : List Str}

theorem tailRef_t (h : tailRef state refs parent b rest = some (r, refs', rest')) : TStep state parent r := by
  simp only [tailRef] at h
  split at h
  · exact tstep_of_some (referenceP_t _ _ _ _ _ _) h
  · exact tstep_of_some (paraP_t _ _ _ _ _) h

theorem tailAbbr_t (h : tailAbbr cfg state refs parent b rest = some (r, refs', rest')) : TStep state parent r := by
  simp only [tailAbbr] at h
  split at h
  · split at h
    · injection h with h; injection h with h _; subst h; exact TStep.refl _ _
    · cases h
    · exact tailRef_t h
  · exact tailRef_t h

theorem tailFootnote_t (h : tailFootnote cfg state refs parent b rest = some (r, refs', rest')) :
    TStep state parent r := by
  simp only [tailFootnote] at h
  split at h
  · split at h
    · injection h with h; injection h with h _; subst h; exact TStep.refl _ _
    · exact tailAbbr_t h
  · exact tailAbbr_t h

theorem tailQuote_t (hpb : PBT pb) (h : tailQuote cfg pb state refs parent b rest = some (r, refs', rest')) :
    TStep state parent r := by
  simp only [tailQuote] at h
  split at h
  · exact quoteP_t hpb h
  · exact tailFootnote_t h

theorem tailDef_t (hpb : PBT pb) (h : tailDef cfg tab pb state refs parent b rest = some (r, refs', rest')) :
    TStep state parent r := by
  simp only [tailDef] at h
  split at h
  · split at h
    · split at h
      · rename_i res hres
        subst h
        exact defListP_t hpb hres
      · exact tailQuote_t hpb h
    · exact tailQuote_t hpb h
  · exact tailQuote_t hpb h

theorem tailList_t (hpb : PBT pb) (h : tailList cfg tab pb state refs parent b rest = some (r, refs', rest')) :
    TStep state parent r := by
  simp only [tailList] at h
  split at h
  · split at h
    · exact listPX_t hpb h
    · exact listP_t hpb h
  · split at h
    · split at h
      · exact listPX_t hpb h
      · exact listP_t hpb h
    · exact tailDef_t hpb h

end tails

/-! ### the dispatcher and the parser -/

theorem tailEmptyT_t {tables : Bool} {cfg : XCfg} {tab : Nat} {pb : PB} (hpb : PBT pb) {state : List BState}
    {refs : Refs} {parent : Node} {b : Str} {rest : List Str} {r : Node} {refs' : Refs} {rest' : List Str}
    (h : tailEmptyT tables cfg tab pb state refs parent b rest = some (r, refs', rest')) : TStep state parent r := by
  unfold tailEmptyT at h
  cases hl : parent.last? <;> rw [hl] at h <;> dsimp only at h
  all_goals
    split at h
    · exact tstep_of_some (emptyP_t _ _ _ _ _) h
    · split at h
      · exact indentP_t hpb h
      · split at h
        · exact indentPX_t hpb h
        · split at h
          · exact tstep_of_some (codeP_t _ _ _ _ _ _) h
          · split at h
            · injection h with h; injection h with h _; subst h
              exact TStep.append _ _ rfl
            · split at h
              · exact hashP_t hpb h
              · split at h
                · exact tstep_of_some (setextP_t _ _ _ _ _) h
                · split at h
                  · exact hrP_t hpb h
                  · exact tailList_t hpb h

theorem dispatchXT_t {tables : Bool} {cfg : XCfg} {tab : Nat} {pb : PB} (hpb : PBT pb) {state : List BState}
    {refs : Refs} {parent : Node} {b : Str} {rest : List Str} {r : Node} {refs' : Refs} {rest' : List Str}
    (h : dispatchXT tables cfg tab pb state refs parent b rest = some (r, refs', rest')) : TStep state parent r := by
  simp only [dispatchXT] at h
  split at h
  · exact admonitionP_t hpb h
  · exact tailEmptyT_t hpb h

/-- **the extended block parser keeps the tail of the parent and, outside state `list`, the absence of truthy tails
    among its children** (every `cfg`, every fuel) -/
theorem parseBlocksXT_PBT (tables : Bool) (cfg : XCfg) (tab : Nat) :
    ∀ fuel, PBT (parseBlocksXT tables cfg tab fuel)
  | 0 => by
    intro st refs p blocks r refs' h
    cases blocks with
    | nil => simp only [parseBlocksXT] at h; injection h with h; injection h with h _; subst h; exact TStep.refl _ _
    | cons b rest => simp [parseBlocksXT] at h
  | f + 1 => by
    have ih := parseBlocksXT_PBT tables cfg tab f
    intro st refs p blocks
    induction blocks generalizing refs p with
    | nil =>
      intro r refs' h
      simp only [parseBlocksXT] at h; injection h with h; injection h with h _; subst h; exact TStep.refl _ _
    | cons b rest _ =>
      intro r refs' h
      simp only [parseBlocksXT] at h
      split at h
      · rename_i p1 refs1 blocks1 hd
        exact (dispatchXT_t ih hd).trans (ih _ _ _ _ _ _ h)
      · cases h

/-- `parser.parseChunk(parent, text)` with the extended parser, any state and parent -/
theorem parseChunkXT_tstep (tables : Bool) (cfg : XCfg) (tab fuel : Nat) (st : List BState) (log : Refs)
    (parent : Node) (text : Str) {n : Node} {r : Refs}
    (h : parseChunk (parseBlocksXT tables cfg tab fuel) st log parent text = some (n, r)) : TStep st parent n :=
  parseBlocksXT_PBT tables cfg tab fuel _ _ _ _ _ _ h

/-- **the top-level children of a chunk parsed (empty state) into a fresh `div` have no truthy tail**; the `div` has no
    tail -/
theorem parseChunkXT_tails (tables : Bool) (cfg : XCfg) (tab fuel : Nat) (log : Refs) (text : Str) {n : Node}
    {r : Refs} (h : parseChunk (parseBlocksXT tables cfg tab fuel) [] log (Node.el "div") text = some (n, r)) :
    ∀ c ∈ n.children, Node.truthy c.tail = false :=
  (parseChunkXT_tstep tables cfg tab fuel [] log _ text h).2 (isstate_nil _) (NT_el _)

theorem parseChunkXT_tail_none (tables : Bool) (cfg : XCfg) (tab fuel : Nat) (log : Refs) (text : Str) {n : Node}
    {r : Refs} (h : parseChunk (parseBlocksXT tables cfg tab fuel) [] log (Node.el "div") text = some (n, r)) :
    n.tail = none :=
  (parseChunkXT_tstep tables cfg tab fuel [] log _ text h).1

/-- the document tree: no top-level child has a truthy tail -/
theorem parseDocumentXT_tails {tables : Bool} {cfg : XCfg} {tab : Nat} {text : Str} {root : Node} {log : Refs}
    (h : parseDocumentXT tables cfg tab text = some (root, log)) :
    ∀ c ∈ root.children, Node.truthy c.tail = false :=
  parseChunkXT_tails tables cfg tab _ [] text h

end MdVerif.VocabXWF
