/-
Helper lemmas for C02 (inline part), `InlineProcessor.run`: `__handleInline` keeps the invariant of the stash (at every
depth of the stored elements; string entries are inert) and does not increase the potential of the text.
Core Lean only.
-/
import MdVerif.Lemmas.InlineFuelPat

namespace MdVerif.Inline
open Py NoCtl

/-- invariant of the stash: ids increase (at every depth of a stored element), string entries are inert -/
def SOK (stash : List StashItem) : Prop :=
  (∀ (i : Nat) (n : Node), stash[i]? = some (StashItem.node n) → Deep (IdsLt i) n ∧ n.tail = none) ∧
  (∀ (i : Nat) (x : Str), stash[i]? = some (StashItem.str x) → Inert x)

theorem SOK.stashOK {stash : List StashItem} (h : SOK stash) : StashOK stash := by
  intro i n hi
  exact shallowQ_nodeStrings (IdsLt.nil _) (shallow_of_deep (h.1 i n hi).1)

theorem sok_nil : SOK [] := ⟨by intro i n h; simp at h, by intro i x h; simp at h⟩

theorem sok_append_str {stash : List StashItem} (h : SOK stash) {x : Str} (hx : Inert x) :
    SOK (stash ++ [StashItem.str x]) := by
  constructor
  · intro i n hi
    rcases Nat.lt_or_ge i stash.length with hlt | hge
    · rw [List.getElem?_append_left hlt] at hi; exact h.1 i n hi
    · rw [List.getElem?_append_right hge] at hi
      cases hsub : i - stash.length with
      | zero => rw [hsub] at hi; simp at hi
      | succ k => rw [hsub] at hi; simp at hi
  · intro i y hi
    rcases Nat.lt_or_ge i stash.length with hlt | hge
    · rw [List.getElem?_append_left hlt] at hi; exact h.2 i y hi
    · rw [List.getElem?_append_right hge] at hi
      cases hsub : i - stash.length with
      | zero =>
        rw [hsub] at hi
        simp only [List.getElem?_cons_zero, Option.some.injEq, StashItem.str.injEq] at hi
        rw [← hi]; exact hx
      | succ k => rw [hsub] at hi; simp at hi

theorem deep_mono {L L' : Nat} (hl : L ≤ L') {n : Node} (h : Deep (IdsLt L) n) : Deep (IdsLt L') n :=
  Node.Forall.mono (fun _ hm => topQ_mono hl hm) n h

theorem sok_append_node {stash : List StashItem} (h : SOK stash) {n : Node} (hn : Deep (IdsLt stash.length) n)
    (htl : n.tail = none) : SOK (stash ++ [StashItem.node n]) := by
  constructor
  · intro i m hi
    rcases Nat.lt_or_ge i stash.length with hlt | hge
    · rw [List.getElem?_append_left hlt] at hi; exact h.1 i m hi
    · rw [List.getElem?_append_right hge] at hi
      cases hsub : i - stash.length with
      | zero =>
        rw [hsub] at hi
        simp only [List.getElem?_cons_zero, Option.some.injEq, StashItem.node.injEq] at hi
        subst hi
        exact ⟨deep_mono (by omega) hn, htl⟩
      | succ k => rw [hsub] at hi; simp at hi
  · intro i y hi
    rcases Nat.lt_or_ge i stash.length with hlt | hge
    · rw [List.getElem?_append_left hlt] at hi; exact h.2 i y hi
    · rw [List.getElem?_append_right hge] at hi
      cases hsub : i - stash.length with
      | zero => rw [hsub] at hi; simp at hi
      | succ k => rw [hsub] at hi; simp at hi

/-! ### frames -/

theorem nuS_frame {st st' : St} (hp : st.stash <+: st'.stash) {s : Str} (h : IdsLt st.stash.length s) :
    nuS st' s = nuS st s := by
  unfold nuS
  exact nuW_frame (wts_prefix hp) (by rw [wts_length]; exact h)

theorem ownS_frame {st st' : St} (hp : st.stash <+: st'.stash) {n : Node} (h : TopQ (IdsLt st.stash.length) n) :
    ownW (wts st'.stash) n = ownW (wts st.stash) n := by
  have h1 := nuS_frame hp (optQ_getD (IdsLt.nil _) h.1)
  have h2 := nuS_frame hp (optQ_getD (IdsLt.nil _) h.2)
  simp only [nuS] at h1 h2
  simp only [ownW, h1, h2]

theorem potS_frame {st st' : St} (hp : st.stash <+: st'.stash) {n : Node} (h : Deep (IdsLt st.stash.length) n) :
    potS st' n = potS st n :=
  npot_congr n (Node.Forall.mono (fun _ hm => ownS_frame hp hm) n h)

theorem lpotS_frame {st st' : St} (hp : st.stash <+: st'.stash) :
    ∀ (l : List Node), (∀ c ∈ l, Deep (IdsLt st.stash.length) c) →
      lpot (ownW (wts st'.stash)) l = lpot (ownW (wts st.stash)) l
  | [], _ => by simp
  | c :: r, h => by
    have h1 := potS_frame hp (h c (List.mem_cons_self ..))
    have h2 := lpotS_frame hp r (fun d hd => h d (List.mem_cons_of_mem _ hd))
    simp only [potS] at h1
    simp only [lpot_cons, h1, h2]

/-! ### the nested calls -/

/-- the nested `__handleInline`: invariant and potential -/
def HiSpec (hi : HI) : Prop :=
  ∀ t pi st d st', hi t pi st = some (d, st') → SOK st.stash → IdsLt st.stash.length t →
    SOK st'.stash ∧ IdsLt st'.stash.length d ∧ st.stash <+: st'.stash ∧ nuS st' d ≤ nuS st t

theorem hiOpt_spec {hi : HI} (hhi : HiSpec hi) {t : Option Str} {atomic : Bool} {pi : Nat} {st : St}
    {r : Option Str} {st' : St} (h : hiOpt hi t atomic pi st = some (r, st')) (hs : SOK st.stash)
    (ht : optQ (IdsLt st.stash.length) t) :
    SOK st'.stash ∧ optQ (IdsLt st'.stash.length) r ∧ st.stash <+: st'.stash ∧
      nuS st' (r.getD []) ≤ nuS st (t.getD []) ∧ (t = none → r = none) := by
  unfold hiOpt at h
  split at h
  · next hc =>
    cases t with
    | none => simp [Node.truthy] at hc
    | some x =>
      simp only [Option.getD_some] at h
      split at h
      · next d st1 hx =>
        cases h
        obtain ⟨h1, h2, h3, h4⟩ := hhi _ _ _ _ _ hx hs (ht x rfl)
        exact ⟨h1, optQ_some h2, h3, by simpa using h4, by intro e; cases e⟩
      · cases h
  · cases h
    exact ⟨hs, ht, List.prefix_refl _, Nat.le_refl _, id⟩

theorem hiNode_spec {hi : HI} (hhi : HiSpec hi) {pi : Nat} {n : Node} {st : St} {n' : Node} {st' : St}
    (h : hiNode hi pi n st = some (n', st')) (hs : SOK st.stash) (hn : TopQ (IdsLt st.stash.length) n) :
    SOK st'.stash ∧ TopQ (IdsLt st'.stash.length) n' ∧ st.stash <+: st'.stash ∧ n'.children = n.children ∧
      ownW (wts st'.stash) n' ≤ ownW (wts st.stash) n ∧ (n.tail = none → n'.tail = none) := by
  unfold hiNode at h
  split at h
  · cases h
  · next t st1 h1 =>
    obtain ⟨a1, a2, a3, a4, _⟩ := hiOpt_spec hhi h1 hs hn.1
    split at h
    · cases h
    · next tl st2 h2 =>
      cases h
      obtain ⟨b1, b2, b3, b4, b5⟩ := hiOpt_spec hhi h2 a1 (optQ_mono a3.length_le hn.2)
      refine ⟨b1, ⟨optQ_mono b3.length_le a2, b2⟩, a3.trans b3, rfl, ?_, b5⟩
      have f1 := nuS_frame b3 (optQ_getD (IdsLt.nil _) a2)
      have f2 := nuS_frame a3 (optQ_getD (IdsLt.nil _) hn.2)
      simp only [nuS] at a4 b4 f1 f2
      simp only [ownW]
      omega

/-- sum of the own potentials and of the (unchanged) grandchildren -/
def kidsW (acc : List Nat) (l : List Node) : Nat := lpot (ownW acc) l

theorem hiNodes_spec {hi : HI} (hhi : HiSpec hi) {pi : Nat} :
    ∀ (l : List Node) {st : St} {l' : List Node} {st' : St}, hiNodes hi pi l st = some (l', st') →
      SOK st.stash → (∀ c ∈ l, Deep (IdsLt st.stash.length) c) →
      SOK st'.stash ∧ (∀ c ∈ l', Deep (IdsLt st'.stash.length) c) ∧ st.stash <+: st'.stash ∧
        lpot (ownW (wts st'.stash)) l' ≤ lpot (ownW (wts st.stash)) l := by
  intro l
  induction l with
  | nil =>
    intro st l' st' h hs _
    simp only [hiNodes, Option.some.injEq, Prod.mk.injEq] at h
    obtain ⟨rfl, rfl⟩ := h
    refine ⟨hs, ?_, List.prefix_refl _, Nat.le_refl _⟩
    intro c hc; cases hc
  | cons n r ih =>
    intro st l' st' h hs hl
    unfold hiNodes at h
    split at h
    · cases h
    · next n1 st1 h1 =>
      have hdn := hl n (List.mem_cons_self ..)
      obtain ⟨a1, a2, a3, a4, a5, _⟩ := hiNode_spec hhi h1 hs ((deep_iff _ _).1 hdn).1
      split at h
      · cases h
      · next r' st2 h2 =>
        cases h
        obtain ⟨b1, b2, b3, b4⟩ := ih h2 a1
          (fun c hc => deep_mono a3.length_le (hl c (List.mem_cons_of_mem _ hc)))
        -- the processed head, seen from the last state
        have hkids : ∀ c ∈ n1.children, Deep (IdsLt st.stash.length) c := by
          rw [a4]; exact ((deep_iff _ _).1 hdn).2
        have hd1 : Deep (IdsLt st1.stash.length) n1 := by
          rw [deep_iff]; exact ⟨a2, fun c hc => deep_mono a3.length_le (hkids c hc)⟩
        refine ⟨b1, ?_, a3.trans b3, ?_⟩
        · intro c hc
          rcases List.mem_cons.1 hc with rfl | hc
          · exact deep_mono b3.length_le hd1
          · exact b2 c hc
        · have f1 := potS_frame b3 hd1
          have f2 := lpotS_frame a3 r (fun c hc => hl c (List.mem_cons_of_mem _ hc))
          have f3 := lpotS_frame a3 n1.children hkids
          simp only [potS] at f1
          simp only [lpot_cons, f1]
          rw [npot_def (ownW (wts st1.stash)) n1, npot_def (ownW (wts st.stash)) n, f3, a4]
          omega

/-! ### one `__applyPattern` step -/

theorem split3 (data : Str) {a e : Nat} (h : a ≤ e) : data.take a ++ slice data a e ++ data.drop e = data := by
  have : data.take e = data.take a ++ slice data a e := by
    simp only [slice]
    have : data.take a = (data.take e).take a := by rw [List.take_take, Nat.min_eq_left h]
    rw [this, List.take_append_drop]
  rw [← this, List.take_append_drop]

/-- replacing the match by the placeholder of a new entry that weighs no more than the match -/
theorem nuS_replaced {st st1 : St} (hp : st.stash <+: st1.stash) {data : Str}
    (hd : IdsLt st.stash.length data) {f : Found} (hlt : f.start ≤ pyIdx data.length f.stop)
    {item : StashItem} {html : List Str}
    (hw : itemW (wts st1.stash) item ≤ nuS st (region data f)) :
    nuS { stash := st1.stash ++ [item], html := html }
      (data.take f.start ++ placeholder st1.stash.length ++ pyDrop data f.stop) ≤ nuS st data := by
  have hp' : st.stash <+: st1.stash ++ [item] := hp.trans (List.prefix_append _ _)
  have htake : IdsLt st.stash.length (data.take f.start) := hd.infix (List.take_prefix _ _).isInfix
  have hdrop : IdsLt st.stash.length (pyDrop data f.stop) := hd.infix (List.drop_suffix _ _).isInfix
  have f1 := nuS_frame (st' := { stash := st1.stash ++ [item], html := html }) hp' htake
  have f2 := nuS_frame (st' := { stash := st1.stash ++ [item], html := html }) hp' hdrop
  have hsplit := split3 data hlt
  have hsup1 := nuW_append_ge (wts st.stash) (data.take f.start ++ region data f) (data.drop (pyIdx data.length f.stop))
  have hsup2 := nuW_append_ge (wts st.stash) (data.take f.start) (region data f)
  simp only [region] at hsup1 hsup2 hw
  rw [hsplit] at hsup1
  simp only [nuS, pyDrop] at f1 f2 hw ⊢
  have hhead : ∃ r, placeholder st1.stash.length ++ data.drop (pyIdx data.length f.stop) = STX :: r :=
    ⟨"klzzwxh:".toList ++ pad4 st1.stash.length ++ ETX :: data.drop (pyIdx data.length f.stop),
      by simp [placeholder, phPrefix]⟩
  obtain ⟨r, hr⟩ := hhead
  have e1 := nuW_append_ninner (wts (st1.stash ++ [item])) (a := data.take f.start)
    (b := placeholder st1.stash.length ++ data.drop (pyIdx data.length f.stop)) (Or.inr ⟨STX, r, hr, by decide⟩)
  have e2 : nuW (wts (st1.stash ++ [item])) (placeholder st1.stash.length ++ data.drop (pyIdx data.length f.stop)) =
      itemW (wts st1.stash) item + nuW (wts (st1.stash ++ [item])) (data.drop (pyIdx data.length f.stop)) := by
    simp only [nuW, phiC_append, phiC_placeholder, idW_placeholder, idWt_pad4, wts_snoc]
    rw [List.getElem?_append_right (by simp), wts_length, Nat.sub_self]
    simp only [List.getElem?_cons_zero, Option.getD_some]
    omega
  rw [List.append_assoc, e1, e2, f1, f2]
  omega

theorem applyPattern_spec (cfg : Cfg) {hi : HI} (hhi : HiSpec hi) {pi : Nat} {data : Str} {si : Nat} {st : St}
    {d : Str} {m : Bool} {si' : Nat} {st' : St}
    (h : applyPattern cfg hi pi data si st = some (d, m, si', st')) (hs : SOK st.stash)
    (hd : IdsLt st.stash.length data) :
    SOK st'.stash ∧ IdsLt st'.stash.length d ∧ st.stash <+: st'.stash ∧ nuS st' d ≤ nuS st data := by
  obtain ⟨r0, st00, hfm0, hspec0⟩ := findMatch_ok cfg pi data si st
  unfold applyPattern at h
  split at h
  · cases h
  · cases h
    next _ hfm =>
    have := (findMatch_Q (infixClosed_idsLt _) (IdsLt.nil _) (fun g hg => hg.codeEscape_strip) cfg pi data si st hd hfm).1
    have e : nuS st' data = nuS st data := by simp only [nuS, this]
    exact ⟨by rw [this]; exact hs, by rw [this]; exact hd, by rw [this]; exact List.prefix_refl _, by rw [e]; exact Nat.le_refl _⟩
  · next f st0 hfm =>
    have hst0 := (findMatch_Q (infixClosed_idsLt _) (IdsLt.nil _) (fun g hg => hg.codeEscape_strip) cfg pi
      data si st hd hfm).1
    have hacc := findMatch_acc (wts st.stash) (infixClosed_idsLt st.stash.length) (IdsLt.nil _)
      (fun g hg => hg.codeEscape_strip) cfg pi data si st hd hfm f rfl
    have hfok : FoundOK data si f := by
      rw [hfm] at hfm0
      simp only [Option.some.injEq, Prod.mk.injEq] at hfm0
      exact hspec0 f hfm0.1.symm
    have hlt : f.start ≤ pyIdx data.length f.stop := Nat.le_of_lt hfok.stop
    have e0 : nuS st0 data = nuS st data := by simp only [nuS, hst0]
    split at h
    · cases h
      exact ⟨by rw [hst0]; exact hs, by rw [hst0]; exact hd, by rw [hst0]; exact List.prefix_refl _,
        by rw [e0]; exact Nat.le_refl _⟩
    · next x hx =>
      simp only [stashNode, Option.some.injEq, Prod.mk.injEq] at h
      obtain ⟨rfl, _, _, rfl⟩ := h
      simp only [FoundAcc, hx] at hacc
      have hpre0 : st.stash <+: st0.stash := by rw [hst0]; exact List.prefix_refl _
      refine ⟨?_, ?_, ?_, ?_⟩
      · simp only; rw [hst0]; exact sok_append_str hs hacc.1
      · simp only [List.length_append, List.length_singleton]
        rw [hst0]
        exact idsLt_replaced (hd.mono (Nat.le_succ _)) (Nat.lt_succ_self _)
      · simp only; rw [hst0]; exact List.prefix_append _ _
      · apply nuS_replaced hpre0 hd hlt
        simp only [itemW, nuW_inert _ hacc.1, nuS]
        exact hacc.2
    · next n hnode =>
      simp only [FoundAcc, hnode] at hacc
      obtain ⟨hdeep, hwt, htail⟩ := hacc
      have hs0 : SOK st0.stash := by rw [hst0]; exact hs
      have hpre0 : st.stash <+: st0.stash := by rw [hst0]; exact List.prefix_refl _
      have hdeep0 : Deep (IdsLt st0.stash.length) n := by rw [hst0]; exact hdeep
      have hW0 : potS st0 n = W (wts st.stash) n := by simp only [potS, W, hst0]
      have finish : ∀ {n' : Node} {st1 : St}, SOK st1.stash → Deep (IdsLt st1.stash.length) n' →
          st0.stash <+: st1.stash → potS st1 n' ≤ potS st0 n → n'.tail = none →
          SOK (st1.stash ++ [StashItem.node n']) ∧
          IdsLt (st1.stash ++ [StashItem.node n']).length
            (List.take f.start data ++ placeholder st1.stash.length ++ pyDrop data f.stop) ∧
          st.stash <+: st1.stash ++ [StashItem.node n'] ∧
          nuS { stash := st1.stash ++ [StashItem.node n'], html := st1.html }
            (List.take f.start data ++ placeholder st1.stash.length ++ pyDrop data f.stop) ≤ nuS st data := by
        intro n' st1 k1 k2 k3 k4 k5
        refine ⟨sok_append_node k1 k2 k5, ?_, (hpre0.trans k3).trans (List.prefix_append _ _), ?_⟩
        · simp only [List.length_append, List.length_singleton]
          exact idsLt_replaced (hd.mono (Nat.le_trans (hpre0.trans k3).length_le (Nat.le_succ _))) (Nat.lt_succ_self _)
        · apply nuS_replaced (hpre0.trans k3) hd hlt
          simp only [itemW, nuS]
          simp only [potS] at k4 hW0
          simp only [W] at hwt hW0
          omega
      split at h
      · simp only [stashNode, Option.some.injEq, Prod.mk.injEq] at h
        obtain ⟨rfl, _, _, rfl⟩ := h
        exact finish hs0 hdeep0 (List.prefix_refl _) (Nat.le_refl _) htail
      · split at h
        · cases h
        · next n1 sta h1 =>
          have hdn := (deep_iff _ _).1 hdeep0
          obtain ⟨a1, a2, a3, a4, a5, a6⟩ := hiNode_spec hhi h1 hs0 (n := { n with children := [] }) hdn.1
          split at h
          · cases h
          · next kids stb h2 =>
            simp only [stashNode, Option.some.injEq, Prod.mk.injEq] at h
            obtain ⟨rfl, _, _, rfl⟩ := h
            obtain ⟨b1, b2, b3, b4⟩ := hiNodes_spec hhi n.children h2 a1
              (fun c hc => deep_mono a3.length_le (hdn.2 c hc))
            apply finish b1 (n' := { n1 with children := kids })
            · rw [deep_iff]; exact ⟨topQ_mono b3.length_le a2, b2⟩
            · exact a3.trans b3
            · have f1 := ownS_frame b3 a2
              have f2 := lpotS_frame a3 n.children hdn.2
              simp only [potS]
              rw [npot_def, npot_def (ownW (wts st0.stash)) n]
              simp only
              have e1 : ownW (wts stb.stash) { n1 with children := kids } = ownW (wts stb.stash) n1 := rfl
              have e2 : ownW (wts st0.stash) ({ n with children := [] } : Node) = ownW (wts st0.stash) n := rfl
              rw [e1, f1]
              rw [e2] at a5
              omega
            · exact a6 htail

/-! ### the loop, `__handleInline` -/

theorem hiLoop_spec {ap : Nat → Str → Nat → St → Option (Str × Bool × Nat × St)}
    (hap : ∀ pi data si st d m si' st', ap pi data si st = some (d, m, si', st') → SOK st.stash →
      IdsLt st.stash.length data →
      SOK st'.stash ∧ IdsLt st'.stash.length d ∧ st.stash <+: st'.stash ∧ nuS st' d ≤ nuS st data) :
    ∀ (g : Nat) (data : Str) (pi si : Nat) (st : St) (d : Str) (st' : St),
      hiLoop ap g data pi si st = some (d, st') → SOK st.stash → IdsLt st.stash.length data →
      SOK st'.stash ∧ IdsLt st'.stash.length d ∧ st.stash <+: st'.stash ∧ nuS st' d ≤ nuS st data := by
  intro g
  induction g with
  | zero => intro data pi si st d st' h; simp [hiLoop] at h
  | succ g ih =>
    intro data pi si st d st' h hs hd
    unfold hiLoop at h
    split at h
    · split at h
      · cases h
      · next d1 m si1 st1 hx =>
        obtain ⟨a1, a2, a3, a4⟩ := hap _ _ _ _ _ _ _ _ hx hs hd
        obtain ⟨b1, b2, b3, b4⟩ := ih _ _ _ _ _ _ h a1 a2
        exact ⟨b1, b2, a3.trans b3, Nat.le_trans b4 a4⟩
    · cases h
      exact ⟨hs, hd, List.prefix_refl _, Nat.le_refl _⟩

/-- **`__handleInline` keeps the invariants and does not increase the potential** -/
theorem handleInline_spec (cfg : Cfg) : ∀ f, HiSpec (handleInline cfg f) := by
  intro f
  induction f with
  | zero => intro t pi st d st' h; simp [handleInline] at h
  | succ f ih =>
    intro t pi st d st' h hs hd
    unfold handleInline at h
    exact hiLoop_spec (fun pi data si st d m si' st' hx hs' hd' => applyPattern_spec cfg ih hx hs' hd') _ _ _ _ _ _ _ h hs hd

end MdVerif.Inline
