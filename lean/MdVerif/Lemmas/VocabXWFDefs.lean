/-
Lemmas for C05 on the extension model (`PipelineX.treeX`), well-formedness part 0: the per-node condition `W`
(attribute names pairwise distinct; a void element — `Ser.isEmptyTag`: `br`, `hr`, `img`, … — has neither text nor
children), the tree invariant `WF` (`W` at every element), the step relation `Step p r` of the stages that work INTO a
parent (`r` has the tag and the attributes of `p` and, unless `p` is a void element, is `WF` when `p` is), and their
preservation by the tree operations the block processors, the inline stage and the tree processors use.

`W` is independent of the vocabulary: together with `NI (qtX x)` (`Props/C05X.lean`, `C05X_tree_vocab`) and
`C05X_names` it gives `Ser.WFTree` (`Lemmas/VocabXWFPipe.lean`).

Core Lean only.
-/
import MdVerif.Lemmas.PlaceholdersBasic
import MdVerif.Lemmas.BlockExtTree
import MdVerif.Spec.Reader

namespace MdVerif.VocabXWF
open Py Block BlockExt

/-- the tag of a void element (`serializers.HTML_EMPTY`) -/
def voidT : Tag → Bool
  | .name t => Ser.isEmptyTag t
  | _ => false

/-- the per-node condition: attribute names pairwise distinct; a void element has neither text nor children -/
def W (n : Node) : Prop :=
  Ser.keysNodup n.attrs = true ∧ (voidT n.tag = true → Node.truthy n.text = false ∧ n.children = [])

/-- `W` at every element of the tree -/
def WF (n : Node) : Prop := n.Forall W

theorem WF_iff (n : Node) : WF n ↔ W n ∧ ∀ c ∈ n.children, WF c := Node.forall_iff W n

theorem WF_mk {tag : Tag} {attrs : List (Str × Str)} {text : Option Str} {ta : Bool} {children : List Node}
    {tail : Option Str} {tla : Bool} (hk : Ser.keysNodup attrs = true)
    (hv : voidT tag = true → Node.truthy text = false ∧ children = []) (hc : ∀ c ∈ children, WF c) :
    WF ⟨tag, attrs, text, ta, children, tail, tla⟩ := (WF_iff _).2 ⟨⟨hk, hv⟩, hc⟩

theorem WF.w {n : Node} (h : WF n) : W n := ((WF_iff n).1 h).1
theorem WF.kids {n : Node} (h : WF n) : ∀ c ∈ n.children, WF c := ((WF_iff n).1 h).2
theorem WF.nodup {n : Node} (h : WF n) : Ser.keysNodup n.attrs = true := h.w.1

theorem WF.last {p c : Node} (hp : WF p) (h : p.last? = some c) : WF c := hp.kids c (List.mem_of_getLast? h)

/-- a node that has a child, or a truthy text, is not void -/
theorem WF.nv_of_child {p c : Node} (hp : WF p) (hc : c ∈ p.children) : voidT p.tag = false := by
  cases hv : voidT p.tag with
  | false => rfl
  | true => have := (hp.w.2 hv).2; rw [this] at hc; cases hc

theorem WF.nv_of_last {p c : Node} (hp : WF p) (h : p.last? = some c) : voidT p.tag = false :=
  hp.nv_of_child (List.mem_of_getLast? h)

theorem WF.nv_of_text {p : Node} (hp : WF p) (ht : Node.truthy p.text = true) : voidT p.tag = false := by
  cases hv : voidT p.tag with
  | false => rfl
  | true => have := (hp.w.2 hv).1; rw [this] at ht; cases ht

theorem voidT_isTag {n : Node} {t : String} (h : n.isTag t = true) (ht : Ser.isEmptyTag t.toList = false) :
    voidT n.tag = false := by
  have : n.tag = .name t.toList := by simpa [Node.isTag] using h
  rw [this]; exact ht

theorem voidT_el (t : String) (ht : Ser.isEmptyTag t.toList = false) : voidT (Node.el t).tag = false := ht

theorem keysNodup_nil : Ser.keysNodup ([] : List (Str × Str)) = true := rfl
theorem keysNodup_single (kv : Str × Str) : Ser.keysNodup [kv] = true := by simp [Ser.keysNodup]

/-- a fresh element without attributes, text and children -/
theorem WF_el (t : String) : WF (Node.el t) :=
  WF_mk rfl (fun _ => ⟨rfl, rfl⟩) (by intro c hc; cases hc)

/-- a fresh non-void element with a text -/
theorem WF_mkText (t : String) (s : Str) (ht : Ser.isEmptyTag t.toList = false) : WF (mkText t s) :=
  WF_mk rfl (fun hv => by
    have : Ser.isEmptyTag t.toList = true := hv
    rw [ht] at this; cases this)
    (by intro c hc; cases hc)

/-- any change of the children of a non-void element -/
theorem WF_children {p : Node} (hp : WF p) (hn : voidT p.tag = false) (cs : List Node) (h : ∀ c ∈ cs, WF c) :
    WF { p with children := cs } := by
  rw [WF_iff]
  exact ⟨⟨hp.nodup, fun hv => by rw [hn] at hv; cases hv⟩, h⟩

theorem WF_append {p c : Node} (hp : WF p) (hn : voidT p.tag = false) (hc : WF c) : WF (p.append c) := by
  apply WF_children hp hn
  intro x hx
  simp only [List.mem_append, List.mem_singleton] at hx
  rcases hx with hx | hx
  · exact hp.kids x hx
  · exact hx ▸ hc

theorem WF_setLast {p c l : Node} (hp : WF p) (hl : p.last? = some l) (hc : WF c) : WF (p.setLast c) := by
  apply WF_children hp (hp.nv_of_last hl)
  intro x hx
  simp only [List.mem_append, List.mem_singleton] at hx
  rcases hx with hx | hx
  · exact hp.kids x ((List.dropLast_prefix _).subset hx)
  · exact hx ▸ hc

/-- `setLast` on a non-void parent (whether or not it has a child) -/
theorem WF_setLast' {p c : Node} (hp : WF p) (hn : voidT p.tag = false) (hc : WF c) : WF (p.setLast c) := by
  apply WF_children hp hn
  intro x hx
  simp only [List.mem_append, List.mem_singleton] at hx
  rcases hx with hx | hx
  · exact hp.kids x ((List.dropLast_prefix _).subset hx)
  · exact hx ▸ hc

theorem WF_dropLastChild {p : Node} (hp : WF p) : WF (dropLastChild p) := by
  rw [WF_iff] at hp ⊢
  refine ⟨⟨hp.1.1, fun hv => ?_⟩, fun x hx => hp.2 x ((List.dropLast_prefix _).subset hx)⟩
  have := hp.1.2 hv
  exact ⟨this.1, by simp [dropLastChild, this.2]⟩

/-- a change of the tail (and of the atomic flags) only -/
theorem WF_tail {p : Node} (hp : WF p) (ta : Bool) (tl : Option Str) (tla : Bool) :
    WF { p with textAtomic := ta, tail := tl, tailAtomic := tla } := by
  rw [WF_iff] at hp ⊢
  exact hp

/-- a change of the text of a non-void element -/
theorem WF_fields {p : Node} (hp : WF p) (hn : voidT p.tag = false) (tx : Option Str) (ta : Bool) (tl : Option Str)
    (tla : Bool) : WF { p with text := tx, textAtomic := ta, tail := tl, tailAtomic := tla } := by
  rw [WF_iff] at hp ⊢
  exact ⟨⟨hp.1.1, fun hv => by rw [hn] at hv; cases hv⟩, hp.2⟩

/-- the text is removed (or replaced by a falsy one) -/
theorem WF_noText {p : Node} (hp : WF p) (tx : Option Str) (htx : Node.truthy tx = false) (ta : Bool) (tl : Option Str)
    (tla : Bool) : WF { p with text := tx, textAtomic := ta, tail := tl, tailAtomic := tla } := by
  rw [WF_iff] at hp ⊢
  exact ⟨⟨hp.1.1, fun hv => ⟨htx, (hp.1.2 hv).2⟩⟩, hp.2⟩

theorem WF_nodeAt (k : Nat) : ∀ {p : Node}, WF p → WF (nodeAt k p) := by
  induction k with
  | zero => intro p hp; exact hp
  | succ k ih =>
    intro p hp
    simp only [nodeAt]
    split
    · rename_i c hc; exact ih (hp.last hc)
    · exact hp

theorem WF_updPath (f : Node → Node) (k : Nat) :
    ∀ {p : Node}, WF p → (WF (nodeAt k p) → WF (f (nodeAt k p))) → WF (updPath f k p) := by
  induction k with
  | zero => intro p hp hf; exact hf hp
  | succ k ih =>
    intro p hp hf
    simp only [updPath]
    simp only [nodeAt] at hf
    split
    · rename_i c hc
      rw [hc] at hf
      exact WF_setLast hp hc (ih (hp.last hc) hf)
    · exact hp

theorem updPath_tag (f : Node → Node) : ∀ (k : Nat) (p : Node),
    (f (nodeAt k p)).tag = (nodeAt k p).tag → (f (nodeAt k p)).attrs = (nodeAt k p).attrs →
    (updPath f k p).tag = p.tag ∧ (updPath f k p).attrs = p.attrs
  | 0, _, h1, h2 => ⟨h1, h2⟩
  | k + 1, p, h1, h2 => by
    simp only [updPath]
    split <;> exact ⟨rfl, rfl⟩

theorem WF_textToP {li : Node} (h : WF li) : WF (textToP li) := by
  simp only [textToP]
  split
  · rename_i ht
    have hn := h.nv_of_text ht
    rw [WF_iff]
    refine ⟨⟨h.nodup, fun hv => by rw [hn] at hv; cases hv⟩, ?_⟩
    intro c hc
    simp only [List.mem_cons] at hc
    rcases hc with hc | hc
    · rw [hc]; exact WF_mk rfl (fun hv => by cases hv) (by intro c hc; cases hc)
    · exact h.kids c hc
  · exact h

theorem textToP_tag (li : Node) : (textToP li).tag = li.tag ∧ (textToP li).attrs = li.attrs := by
  simp only [textToP]; split <;> exact ⟨rfl, rfl⟩

/-! ### the step relation -/

/-- `r` is the result of working blocks (texts, …) INTO the parent `p`: same tag and attributes; well formed when
    `p` is, unless `p` is a void element (nothing is claimed then: `lst[-1]` of `OListProcessor.run` can be an `hr`) -/
def Step (p r : Node) : Prop := r.tag = p.tag ∧ r.attrs = p.attrs ∧ (voidT p.tag = false → WF p → WF r)

theorem Step.refl (p : Node) : Step p p := ⟨rfl, rfl, fun _ h => h⟩

theorem Step.trans {p q r : Node} (h1 : Step p q) (h2 : Step q r) : Step p r :=
  ⟨h2.1.trans h1.1, h2.2.1.trans h1.2.1, fun hn h => h2.2.2 (by rw [h1.1]; exact hn) (h1.2.2 hn h)⟩

theorem Step.nv {p r : Node} (h : Step p r) (hn : voidT p.tag = false) : voidT r.tag = false := by rw [h.1]; exact hn

/-- the recursive call of the block parser (`PB`) is a step -/
def PBW (pb : PB) : Prop := ∀ st refs p blocks r refs', pb st refs p blocks = some (r, refs') → Step p r

/-! ### attribute lists -/

theorem keysNodup_iff (l : List (Str × Str)) : Ser.keysNodup l = true ↔ (l.map Prod.fst).Nodup := by
  induction l with
  | nil => simp [Ser.keysNodup]
  | cons kv r ih =>
    simp only [Ser.keysNodup, Bool.and_eq_true, Bool.not_eq_true', List.map_cons, List.nodup_cons, ih]
    constructor
    · rintro ⟨h1, h2⟩
      refine ⟨?_, h2⟩
      intro hm
      obtain ⟨y, hy, e⟩ := List.mem_map.1 hm
      have : r.any (fun x => decide (x.1 = kv.1)) = true := List.any_eq_true.2 ⟨y, hy, by simp [e]⟩
      rw [this] at h1; cases h1
    · rintro ⟨h1, h2⟩
      refine ⟨?_, h2⟩
      cases ha : r.any (fun x => decide (x.1 = kv.1)) with
      | false => rfl
      | true =>
        obtain ⟨y, hy, e⟩ := List.any_eq_true.1 ha
        exact absurd (List.mem_map.2 ⟨y, hy, by simpa using e⟩) h1

/-- the attribute names are unchanged (values may change) -/
theorem keysNodup_sameKeys {a b : List (Str × Str)} (h : b.map Prod.fst = a.map Prod.fst)
    (ha : Ser.keysNodup a = true) : Ser.keysNodup b = true := by
  rw [keysNodup_iff] at ha ⊢; rw [h]; exact ha

theorem keysNodup_mapVal (f : Str × Str → Str) (a : List (Str × Str)) (ha : Ser.keysNodup a = true) :
    Ser.keysNodup (a.map (fun kv => (kv.1, f kv))) = true :=
  keysNodup_sameKeys (by simp [List.map_map, Function.comp_def]) ha

/-- `elem.set(k, v)`: the names stay pairwise distinct -/
theorem keysNodup_setAttr {n : Node} (h : Ser.keysNodup n.attrs = true) (k v : Str) :
    Ser.keysNodup (n.setAttr k v).attrs = true := by
  unfold Node.setAttr
  split
  · refine keysNodup_sameKeys ?_ h
    simp only [List.map_map]
    apply List.map_congr_left
    intro kv _
    simp only [Function.comp]
    split
    · rename_i e; exact e.symm
    · rfl
  · rename_i hany
    rw [keysNodup_iff] at h ⊢
    simp only [List.map_append, List.map_cons, List.map_nil]
    rw [List.nodup_append]
    refine ⟨h, by simp, ?_⟩
    intro a ha b hb
    simp only [List.mem_singleton] at hb
    subst hb
    intro e; subst e
    obtain ⟨y, hy, e⟩ := List.mem_map.1 ha
    exact hany (List.any_eq_true.2 ⟨y, hy, by simp [e]⟩)

theorem setAttr_tag (n : Node) (k v : Str) : (n.setAttr k v).tag = n.tag ∧ (n.setAttr k v).text = n.text ∧
    (n.setAttr k v).children = n.children := by
  unfold Node.setAttr; split <;> exact ⟨rfl, rfl, rfl⟩

theorem WF_setAttr {n : Node} (h : WF n) (k v : Str) : WF (n.setAttr k v) := by
  obtain ⟨e1, e2, e3⟩ := setAttr_tag n k v
  rw [WF_iff] at h ⊢
  refine ⟨⟨keysNodup_setAttr h.1.1 k v, ?_⟩, by rw [e3]; exact h.2⟩
  rw [e1, e2, e3]; exact h.1.2

/-- a change of the attributes only -/
theorem WF_attrs {n : Node} (h : WF n) (a : List (Str × Str)) (ha : Ser.keysNodup a = true) :
    WF { n with attrs := a } := by
  rw [WF_iff] at h ⊢
  exact ⟨⟨ha, h.1.2⟩, h.2⟩

end MdVerif.VocabXWF
