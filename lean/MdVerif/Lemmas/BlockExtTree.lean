/-
Tree layer of the non-interference proofs of `Props/C16BlockExt.lean`: "every node of the tree has a tag and attributes that
satisfy `qt`" (`NI qt`), and its preservation by the tree operations the block processors use.
Core Lean only.
-/
import MdVerif.Model.BlockExt

namespace MdVerif.BlockExt
open Py Block

mutual
/-- `qt` holds of the tag and attributes of the node and of all its descendants -/
def allNodes (qt : Tag → List (Str × Str) → Bool) : Node → Bool
  | ⟨tag, attrs, _, _, children, _, _⟩ => qt tag attrs && allKids qt children
def allKids (qt : Tag → List (Str × Str) → Bool) : List Node → Bool
  | [] => true
  | c :: r => allNodes qt c && allKids qt r
end

/-- the node invariant -/
def NI (qt : Tag → List (Str × Str) → Bool) (n : Node) : Prop := allNodes qt n = true

variable {qt : Tag → List (Str × Str) → Bool}

theorem allNodes_eq (n : Node) : allNodes qt n = (qt n.tag n.attrs && allKids qt n.children) := by
  cases n; simp [allNodes]

theorem allKids_iff (l : List Node) : allKids qt l = true ↔ ∀ c ∈ l, allNodes qt c = true := by
  induction l with
  | nil => simp [allKids]
  | cons c r ih => simp [allKids, ih]

theorem NI_iff (n : Node) : NI qt n ↔ qt n.tag n.attrs = true ∧ ∀ c ∈ n.children, NI qt c := by
  unfold NI
  rw [allNodes_eq, Bool.and_eq_true, allKids_iff]

theorem NI_el (t : String) (h : qt (.name t.toList) [] = true) : NI qt (Node.el t) := by
  rw [NI_iff]
  exact ⟨h, by intro c hc; cases hc⟩

theorem NI_mkText (t : String) (s : Str) (h : qt (.name t.toList) [] = true) : NI qt (mkText t s) := by
  rw [NI_iff]
  exact ⟨h, by intro c hc; cases hc⟩

theorem NI_append {p c : Node} (hp : NI qt p) (hc : NI qt c) : NI qt (p.append c) := by
  rw [NI_iff] at hp ⊢
  refine ⟨hp.1, ?_⟩
  intro x hx
  simp only [Node.append, List.mem_append, List.mem_singleton] at hx
  rcases hx with hx | hx
  · exact hp.2 x hx
  · exact hx ▸ hc

theorem NI_setLast {p c : Node} (hp : NI qt p) (hc : NI qt c) : NI qt (p.setLast c) := by
  rw [NI_iff] at hp ⊢
  refine ⟨hp.1, ?_⟩
  intro x hx
  simp only [Node.setLast, List.mem_append, List.mem_singleton] at hx
  rcases hx with hx | hx
  · exact hp.2 x ((List.dropLast_prefix _).subset hx)
  · exact hx ▸ hc

theorem NI_last {p c : Node} (hp : NI qt p) (h : p.last? = some c) : NI qt c := by
  rw [NI_iff] at hp
  exact hp.2 c (List.mem_of_getLast? h)

theorem NI_dropLastChild {p : Node} (hp : NI qt p) : NI qt (dropLastChild p) := by
  rw [NI_iff] at hp ⊢
  exact ⟨hp.1, fun x hx => hp.2 x ((List.dropLast_prefix _).subset hx)⟩

/-- an update of the text / tail fields -/
theorem NI_fields {p : Node} (hp : NI qt p) (tx : Option Str) (ta : Bool) (tl : Option Str) (tla : Bool) :
    NI qt { p with text := tx, textAtomic := ta, tail := tl, tailAtomic := tla } := by
  rw [NI_iff] at hp ⊢
  exact hp

theorem NI_children {p : Node} (hp : NI qt p) (cs : List Node) (h : ∀ c ∈ cs, NI qt c) :
    NI qt { p with children := cs } := by
  rw [NI_iff] at hp ⊢
  exact ⟨hp.1, h⟩

theorem NI_nodeAt (k : Nat) : ∀ {p : Node}, NI qt p → NI qt (nodeAt k p) := by
  induction k with
  | zero => intro p hp; exact hp
  | succ k ih =>
    intro p hp
    simp only [nodeAt]
    split
    · rename_i c hc
      exact ih (NI_last hp hc)
    · exact hp

theorem NI_updPath (f : Node → Node) (hf : ∀ s, NI qt s → NI qt (f s)) (k : Nat) :
    ∀ {p : Node}, NI qt p → NI qt (updPath f k p) := by
  induction k with
  | zero => intro p hp; exact hf p hp
  | succ k ih =>
    intro p hp
    simp only [updPath]
    split
    · rename_i c hc
      exact NI_setLast hp (ih (NI_last hp hc))
    · exact hp

theorem NI_textToP {li : Node} (hp : qt (.name "p".toList) [] = true) (h : NI qt li) : NI qt (textToP li) := by
  simp only [textToP]
  split
  · rw [NI_iff] at h ⊢
    refine ⟨h.1, ?_⟩
    intro c hc
    simp only [List.mem_cons] at hc
    rcases hc with hc | hc
    · rw [hc, NI_iff]; exact ⟨hp, by intro c hc; cases hc⟩
    · exact h.2 c hc
  · exact h

theorem NI_setCodeText {parent sib code : Node} (t : Str) (hp : NI qt parent) (hs : parent.last? = some sib)
    (hcode : preCode sib = some code) : NI qt (setCodeText parent sib code t) := by
  have hsib := NI_last hp hs
  simp only [setCodeText]
  apply NI_setLast hp
  rw [NI_iff] at hsib ⊢
  refine ⟨hsib.1, ?_⟩
  intro c hc
  simp only [List.mem_cons] at hc
  have hcodeNI : NI qt code := by
    simp only [preCode] at hcode
    split at hcode
    · split at hcode
      · rename_i code' r hch
        split at hcode
        · injection hcode with hcode
          exact hcode ▸ hsib.2 code' (by rw [hch]; exact List.mem_cons_self)
        · cases hcode
      · cases hcode
    · cases hcode
  rcases hc with hc | hc
  · rw [hc]
    rw [NI_iff] at hcodeNI ⊢
    exact hcodeNI
  · exact hsib.2 c ((List.drop_suffix 1 _).subset hc)

end MdVerif.BlockExt
