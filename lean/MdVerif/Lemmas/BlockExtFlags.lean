/-
Flag layer of the non-interference proofs of `Props/C16BlockExt.lean`: on a block without the trigger of an
extension (and, for admonition and def_list, under a parent without the elements only that extension creates) the
dispatcher with the extension enabled does what the dispatcher without it does.  Together with
`parseBlocksX_good` this gives the block-stage non-interference of each extension.
Core Lean only.
-/
import MdVerif.Lemmas.BlockExtProc

namespace MdVerif.BlockExt
open Py Block

/-! ### searches that find nothing -/

theorem lineSearchAux_none {α : Type} (f : Str → Option α) : ∀ (s : Str) (atStart : Bool) (i : Nat),
    (∀ t, t <:+ s → f t = none) → lineSearchAux f atStart i s = none := by
  intro s
  induction s with
  | nil =>
    intro atStart i h
    simp only [lineSearchAux]
    split
    · simp [h [] (List.suffix_refl _)]
    · rfl
  | cons c r ih =>
    intro atStart i h
    simp only [lineSearchAux]
    have h0 : (if atStart = true then f (c :: r) else none) = none := by
      split
      · exact h _ (List.suffix_refl _)
      · rfl
    rw [h0]
    exact ih _ _ (fun t ht => h t (List.IsSuffix.trans ht (List.suffix_cons c r)))

theorem lineSearch_none {α : Type} (f : Str → Option α) (s : Str) (h : ∀ t, t <:+ s → f t = none) :
    lineSearch f s = none := lineSearchAux_none f s true 0 h

theorem nlSearchAux_none {α : Type} (f : Str → Option α) : ∀ (s : Str) (i : Nat),
    (∀ t, t <:+ s → f t = none) → nlSearchAux f i s = none := by
  intro s
  induction s with
  | nil => intro i _; rfl
  | cons c r ih =>
    intro i h
    have hr : ∀ t, t <:+ r → f t = none := fun t ht => h t (List.IsSuffix.trans ht (List.suffix_cons c r))
    simp only [nlSearchAux]
    split
    · rw [hr r (List.suffix_refl _)]
      exact ih _ hr
    · exact ih _ hr

theorem nlSearch_none {α : Type} (f : Str → Option α) (s : Str) (h : ∀ t, t <:+ s → f t = none) :
    nlSearch f s = none := by
  simp only [nlSearch, h s (List.suffix_refl _)]
  exact nlSearchAux_none f s 0 h

/-- a recogniser that needs `pat` somewhere in its input finds nothing in a string without `pat` -/
theorem none_of_noSub {α : Type} (f : Str → Option α) (pat : Str)
    (hf : ∀ t a, f t = some a → pat <:+: t) {s : Str} (hs : contains s pat = false) :
    ∀ t, t <:+ s → f t = none := by
  intro t ht
  cases h : f t with
  | none => rfl
  | some a =>
    have := (contains_iff_infix s pat).mpr (List.IsInfix.trans (hf t a h) ht.isInfix)
    simp [this] at hs

theorem startsWith_drop_infix {s pat : Str} (k : Nat) (h : startsWith (s.drop k) pat = true) : pat <:+: s :=
  List.IsInfix.trans ((startsWith_iff_prefix _ _).mp h).isInfix (List.drop_suffix k s).isInfix

/-! ### footnotes: the trigger is `[^` -/

def trigFootnote : Str := ['[', '^']

theorem fnAt_trigger (t : Str) (a : Str × Str × Nat) (h : fnAt t = some a) : trigFootnote <:+: t := by
  simp only [fnAt] at h
  split at h
  · rename_i hs
    exact startsWith_drop_infix _ hs
  · cases h

theorem fnSearch_none {b : Str} (hb : contains b trigFootnote = false) : fnSearch b = none :=
  lineSearch_none _ _ (none_of_noSub fnAt _ fnAt_trigger hb)

theorem footnoteP_none {b : Str} (hb : contains b trigFootnote = false) (refs : Refs) (rest : List Str) :
    footnoteP refs b rest = none := by
  simp only [footnoteP, fnSearch_none hb]

theorem dispatchX_footnotes (cfg : XCfg) (tab : Nat) (pb : PB) (state : List BState) (refs : Refs) (parent : Node)
    (b : Str) (rest : List Str) (hb : contains b trigFootnote = false) :
    dispatchX { cfg with footnotes := true } tab pb state refs parent b rest =
      dispatchX cfg tab pb state refs parent b rest := by
  have h1 : tailFootnote { cfg with footnotes := true } state refs parent b rest =
      tailFootnote cfg state refs parent b rest := by
    simp only [tailFootnote, footnoteP_none hb, tailAbbr]
    simp
  simp only [dispatchX, tailEmpty, tailList, tailDef, tailQuote, h1]

/-! ### abbr: the trigger is `*[` -/

def trigAbbr : Str := ['*', '[']

theorem abbrAt_trigger (t : Str) (a : Str × Str × Nat) (h : abbrAt t = some a) : trigAbbr <:+: t := by
  simp only [abbrAt] at h
  split at h
  · rename_i hs
    exact startsWith_drop_infix 0 hs
  · cases h

theorem abbrSearch_none {b : Str} (hb : contains b trigAbbr = false) : abbrSearch b = none :=
  lineSearch_none _ _ (none_of_noSub abbrAt _ abbrAt_trigger hb)

theorem dispatchX_abbr (cfg : XCfg) (tab : Nat) (pb : PB) (state : List BState) (refs : Refs) (parent : Node)
    (b : Str) (rest : List Str) (hb : contains b trigAbbr = false) :
    dispatchX { cfg with abbr := true } tab pb state refs parent b rest =
      dispatchX cfg tab pb state refs parent b rest := by
  have h1 : tailAbbr { cfg with abbr := true } state refs parent b rest = tailAbbr cfg state refs parent b rest := by
    simp only [tailAbbr, abbrP, abbrSearch_none hb]
    simp
  simp only [dispatchX, tailEmpty, tailList, tailDef, tailQuote, tailFootnote, h1]

/-! ### admonition: the trigger is `!!!`; no admonition `div` in the tree -/

def trigAdmonition : Str := ['!', '!', '!']

/-- not an admonition `div` -/
def qtAdm (tag : Tag) (attrs : List (Str × Str)) : Bool :=
  !isAdmDiv { tag := tag, attrs := attrs }

theorem isAdmDiv_eq (n : Node) : isAdmDiv n = !qtAdm n.tag n.attrs := by
  simp [qtAdm, isAdmDiv, Node.isTag, Node.getAttr]

theorem admAt_trigger (t : Str) (a : Str × Option Str × Nat) (h : admAt t = some a) : trigAdmonition <:+: t := by
  simp only [admAt] at h
  split at h
  · rename_i hs
    exact startsWith_drop_infix 0 hs
  · cases h

theorem admSearch_none {b : Str} (hb : contains b trigAdmonition = false) : admSearch b = none := by
  simp only [admSearch, nlSearch_none _ _ (none_of_noSub admAt _ admAt_trigger hb)]

theorem admTest_none {tab : Nat} {parent : Node} {b : Str} (hb : contains b trigAdmonition = false)
    (hp : NI qtAdm parent) : admTest tab parent b = none := by
  simp only [admTest, admSearch_none hb, admContent]
  cases hl : parent.last? with
  | none => rfl
  | some sib =>
    have hs := NI_last hp hl
    rw [NI_iff] at hs
    have : isAdmDiv sib = false := by rw [isAdmDiv_eq, hs.1]; rfl
    simp [this]

theorem dispatchX_admonition (cfg : XCfg) (tab : Nat) (pb : PB) (state : List BState) (refs : Refs) (parent : Node)
    (b : Str) (rest : List Str) (hcfg : cfg.admonition = false) (hb : contains b trigAdmonition = false)
    (hp : NI qtAdm parent) :
    dispatchX { cfg with admonition := true } tab pb state refs parent b rest =
      dispatchX cfg tab pb state refs parent b rest := by
  have h1 : tailEmpty { cfg with admonition := true } tab pb state refs parent b rest =
      tailEmpty cfg tab pb state refs parent b rest := by
    simp only [tailEmpty, tailList, tailDef, tailQuote, tailFootnote, tailAbbr]
  simp only [dispatchX, admTest_none hb hp, hcfg, h1]
  simp

theorem tagsOk_adm (cfg : XCfg) (hcfg : cfg.admonition = false) : TagsOk qtAdm cfg where
  p := by intro a; simp [qtAdm, isAdmDiv, Node.isTag]
  pre := by intro a; simp [qtAdm, isAdmDiv, Node.isTag]
  code := by intro a; simp [qtAdm, isAdmDiv, Node.isTag]
  hr := by intro a; simp [qtAdm, isAdmDiv, Node.isTag]
  ol := by intro a; simp [qtAdm, isAdmDiv, Node.isTag]
  ul := by intro a; simp [qtAdm, isAdmDiv, Node.isTag]
  li := by intro a; simp [qtAdm, isAdmDiv, Node.isTag]
  blockquote := by intro a; simp [qtAdm, isAdmDiv, Node.isTag]
  h := by intro lv a; simp [qtAdm, isAdmDiv, Node.isTag, hTag]
  div := by intro h; rw [hcfg] at h; cases h
  dl := by intro _ a; simp [qtAdm, isAdmDiv, Node.isTag]
  dt := by intro _ a; simp [qtAdm, isAdmDiv, Node.isTag]
  dd := by intro _ a; simp [qtAdm, isAdmDiv, Node.isTag]

/-! ### def_list: the trigger is `: `; no `dl`, `dd` in the tree -/

def trigDefList : Str := [':', ' ']

/-- neither `dl` nor `dd` -/
def qtDef (tag : Tag) (_ : List (Str × Str)) : Bool :=
  !(tag == .name "dl".toList || tag == .name "dd".toList)

theorem defAt_trigger (t : Str) (a : Str × Nat) (h : defAt t = some a) : trigDefList <:+: t := by
  simp only [defAt] at h
  split at h
  · rename_i c r hd
    split at h
    · rename_i hc
      split at h
      · cases h
      · rename_i hsp
        -- `r` starts with a space
        have hr : ∃ r', r = ' ' :: r' := by
          cases r with
          | nil => simp [countPrefix] at hsp
          | cons d r' =>
            by_cases hd' : d = ' '
            · exact ⟨r', by rw [hd']⟩
            · simp [countPrefix, hd'] at hsp
        obtain ⟨r', hr'⟩ := hr
        have : (c :: r) <:+ t := hd ▸ List.drop_suffix _ t
        rw [hc, hr'] at this
        exact List.IsInfix.trans ⟨[], r', by simp [trigDefList]⟩ this.isInfix
    · cases h
  · cases h

theorem defSearch_none {b : Str} (hb : contains b trigDefList = false) : defSearch b = none := by
  simp only [defSearch, nlSearch_none _ _ (none_of_noSub defAt _ defAt_trigger hb)]

theorem isItemTagD_noDef {n : Node} (hn : NI qtDef n) : isItemTagD n = isItemTag n := by
  rw [NI_iff] at hn
  have h1 := hn.1
  simp only [qtDef, Bool.not_eq_true', Bool.or_eq_false_iff] at h1
  simp only [isItemTagD, isItemTag, Node.isTag, h1.2, Bool.false_or]

theorem isListTagD_noDef {n : Node} (hn : NI qtDef n) : isListTagD n = isListTag n := by
  rw [NI_iff] at hn
  have h1 := hn.1
  simp only [qtDef, Bool.not_eq_true', Bool.or_eq_false_iff] at h1
  simp only [isListTagD, isListTag, Node.isTag, h1.1, Bool.false_or, Bool.or_comm]

theorem dispatchX_defList (cfg : XCfg) (tab : Nat) (pb : PB) (state : List BState) (refs : Refs) (parent : Node)
    (b : Str) (rest : List Str) (hb : contains b trigDefList = false) (hp : NI qtDef parent) :
    dispatchX { cfg with defList := true } tab pb state refs parent b rest =
      dispatchX cfg tab pb state refs parent b rest := by
  have h0 : tailQuote { cfg with defList := true } pb state refs parent b rest =
      tailQuote cfg pb state refs parent b rest := by
    simp only [tailQuote, tailFootnote, tailAbbr]
  have h1 : tailDef { cfg with defList := true } tab pb state refs parent b rest =
      tailDef cfg tab pb state refs parent b rest := by
    simp only [tailDef, defSearch_none hb, h0]
    simp
  have h2 : tailList { cfg with defList := true } tab pb state refs parent b rest =
      tailList cfg tab pb state refs parent b rest := by
    simp only [tailList, h1]
  simp only [dispatchX, tailEmpty, h2, indentTestX, isItemTagD_noDef hp]
  cases hl : parent.last? with
  | none =>
    simp only []
    cases startsWith b (spaces tab) <;> cases isstate state .detabbed <;> cases isItemTag parent <;>
      cases cfg.defList <;> simp
  | some c =>
    simp only [isListTagD_noDef (NI_last hp hl)]
    cases startsWith b (spaces tab) <;> cases isstate state .detabbed <;> cases isItemTag parent <;>
      cases isListTag c <;> cases cfg.defList <;> simp

theorem tagsOk_def (cfg : XCfg) (hcfg : cfg.defList = false) : TagsOk qtDef cfg where
  p := by intro a; simp [qtDef]
  pre := by intro a; simp [qtDef]
  code := by intro a; simp [qtDef]
  hr := by intro a; simp [qtDef]
  ol := by intro a; simp [qtDef]
  ul := by intro a; simp [qtDef]
  li := by intro a; simp [qtDef]
  blockquote := by intro a; simp [qtDef]
  h := by intro lv a; simp [qtDef, hTag]
  div := by intro _ a; simp [qtDef]
  dl := by intro h; rw [hcfg] at h; cases h
  dt := by intro h; rw [hcfg] at h; cases h
  dd := by intro h; rw [hcfg] at h; cases h

/-! ### sane_lists: no list item anywhere: none of `* `, `+ `, `- `, `. ` -/

theorem closed_and {Ok1 Ok2 : Str → Prop} (h1 : Closed Ok1) (h2 : Closed Ok2) : Closed (fun s => Ok1 s ∧ Ok2 s) where
  nil := ⟨h1.nil, h2.nil⟩
  sub := fun hts hs => ⟨h1.sub hts hs.1, h2.sub hts hs.2⟩
  joinNl := fun ha hb => ⟨h1.joinNl ha.1 hb.1, h2.joinNl ha.2 hb.2⟩

/-- no list marker followed by a space -/
def noListMarker (s : Str) : Prop :=
  (contains s ['*', ' '] = false ∧ contains s ['+', ' '] = false) ∧
    (contains s ['-', ' '] = false ∧ contains s ['.', ' '] = false)

theorem closed_noListMarker : Closed noListMarker :=
  closed_and (closed_and (closed_noSub _ (by simp) (by simp)) (closed_noSub _ (by simp) (by simp)))
    (closed_and (closed_noSub _ (by simp) (by simp)) (closed_noSub _ (by simp) (by simp)))

theorem countSp_pos {r : Str} (h : ¬ countSp r = 0) : ∃ r', r = ' ' :: r' := by
  cases r with
  | nil => simp [countSp, countPrefix] at h
  | cons d r' =>
    by_cases hd' : d = ' '
    · exact ⟨r', by rw [hd']⟩
    · simp [countSp, countPrefix, hd'] at h

theorem listItemMatch_none {tab : Nat} {ol ul : Bool} {s : Str} (hs : noListMarker s) :
    listItemMatch tab ol ul s = none := by
  cases h : listItemMatch tab ol ul s with
  | none => rfl
  | some x =>
    exfalso
    simp only [listItemMatch] at h
    split at h
    · cases h
    · rename_i mk marker r hmk
      split at h
      · cases h
      · rename_i hsp
        obtain ⟨r', hr'⟩ := countSp_pos hsp
        generalize hs1 : s.drop (countPrefix ' ' (some (tab - 1)) s) = s1 at hmk
        have hs1s : s1 <:+: s := hs1 ▸ (List.drop_suffix _ s).isInfix
        split at hmk
        · rename_i m hm
          injection hmk with hmk
          subst hmk
          split at hm
          · simp only [olMarker] at hm
            split at hm
            · rename_i hcond
              injection hm with hm
              injection hm with _ hm
              simp only [Bool.and_eq_true, beq_iff_eq, decide_eq_true_eq] at hcond
              -- `s1 = take d ++ '.' :: ' ' :: r'`
              have hdot := hcond.2
              have hlt : spanLen isDecimal s1 < s1.length := by
                rcases List.getElem?_eq_some_iff.mp hdot with ⟨hl, _⟩
                exact hl
              have hsplit : s1.drop (spanLen isDecimal s1) = '.' :: s1.drop (spanLen isDecimal s1 + 1) := by
                rw [List.drop_eq_getElem_cons hlt]
                rcases List.getElem?_eq_some_iff.mp hdot with ⟨_, he⟩
                rw [he]
              rw [hm, hr'] at hsplit
              have hinf : ['.', ' '] <:+: s :=
                List.IsInfix.trans ⟨[], r', by simp⟩
                  (List.IsInfix.trans (hsplit ▸ (List.drop_suffix _ s1).isInfix) hs1s)
              have := (contains_iff_infix s _).mpr hinf
              simp [hs.2.2] at this
            · cases hm
          · cases hm
        · split at hmk
          · cases s1 with
            | nil => simp [ulMarker] at hmk
            | cons c r0 =>
              simp only [ulMarker] at hmk
              split at hmk
              · rename_i hc
                injection hmk with hmk
                injection hmk with _ hmk
                rw [hmk, hr'] at hs1s
                have hinf : [c, ' '] <:+: s := List.IsInfix.trans ⟨[], r', by simp⟩ hs1s
                have hcont := (contains_iff_infix s _).mpr hinf
                simp only [Bool.or_eq_true, decide_eq_true_eq] at hc
                rcases hc with (hc | hc) | hc
                · rw [hc, hs.1.1] at hcont; cases hcont
                · rw [hc, hs.1.2] at hcont; cases hcont
                · rw [hc, hs.2.1] at hcont; cases hcont
              · cases hmk
          · cases hmk

theorem dispatchX_saneLists (cfg : XCfg) (tab : Nat) (pb : PB) (state : List BState) (refs : Refs) (parent : Node)
    (b : Str) (rest : List Str) (hb : noListMarker b) :
    dispatchX { cfg with saneLists := true } tab pb state refs parent b rest =
      dispatchX cfg tab pb state refs parent b rest := by
  have h1 : tailList { cfg with saneLists := true } tab pb state refs parent b rest =
      tailList cfg tab pb state refs parent b rest := by
    simp only [tailList, listItemMatch_none hb, tailDef, tailQuote, tailFootnote, tailAbbr]
    simp
  simp only [dispatchX, tailEmpty, h1]

/-- the trivial node invariant -/
def qtTrue (_ : Tag) (_ : List (Str × Str)) : Bool := true

mutual
theorem allNodes_true : ∀ (n : Node), allNodes qtTrue n = true
  | ⟨_, _, _, _, children, _, _⟩ => by simp only [allNodes, qtTrue, Bool.true_and]; exact allKids_true children
theorem allKids_true : ∀ (l : List Node), allKids qtTrue l = true
  | [] => rfl
  | c :: r => by simp only [allKids, allNodes_true c, allKids_true r, Bool.and_self]
end

theorem NI_true (n : Node) : NI qtTrue n := allNodes_true n

theorem tagsOk_true (cfg : XCfg) : TagsOk qtTrue cfg where
  p := fun _ => rfl
  pre := fun _ => rfl
  code := fun _ => rfl
  hr := fun _ => rfl
  ol := fun _ => rfl
  ul := fun _ => rfl
  li := fun _ => rfl
  blockquote := fun _ => rfl
  h := fun _ _ => rfl
  div := fun _ _ => rfl
  dl := fun _ _ => rfl
  dt := fun _ _ => rfl
  dd := fun _ _ => rfl

/-! ### from the parsers to the documents -/

/-- `parseDocumentLog` of two configurations whose parsers agree on good arguments -/
theorem parseDocumentLog_good {Ok : Str → Prop} {qt : Tag → List (Str × Str) → Bool} (hc : Closed Ok)
    {cfg cfg' : XCfg} {tab : Nat}
    (hg : ∀ fuel, Good Ok qt (parseBlocksX cfg' tab fuel) (parseBlocksX cfg tab fuel))
    (hroot : qt (.name "div".toList) [] = true) {text : Str} (ht : Ok text) :
    parseDocumentLog cfg' tab text = parseDocumentLog cfg tab text :=
  ((hg (fuelForX text.length)).chunk hc [] [] (Node.el "div") ht (NI_el _ hroot)).1

end MdVerif.BlockExt
