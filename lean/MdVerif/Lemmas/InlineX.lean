/-
`InlineX` over the table of the sixteen core patterns is `Inline` (`Model/Inline.lean`): same tree, same stashes; the
footnote reference bookkeeping is carried along untouched.  Core Lean only.
-/
import MdVerif.Model.InlineX

namespace MdVerif.InlineX
open Py Inline

/-- the configuration with the core table -/
def xcCore (cfg : Inline.Cfg) (keys : List Str) : XCfg := { cfg := cfg, table := coreTable, fnKeys := keys }

def lift (fn : Footnotes.State) (st : St) : XSt := { st := st, fn := fn }

theorem coreTable_length : coreTable.length = 16 := by decide

theorem coreTable_get (pi : Nat) (h : pi < 16) : coreTable[pi]? = some (PatK.core pi) := by
  simp [coreTable, h]

theorem findX_core (cfg : Inline.Cfg) (keys : List Str) (i : Nat) (data : Str) (si : Nat) (st : St) (fn : Footnotes.State) :
    findX (xcCore cfg keys) (.core i) data si (lift fn st) =
      (findMatch cfg i data si st).map (fun r => (r.1, lift fn r.2)) := by
  simp only [findX, xcCore, lift]
  cases findMatch cfg i data si st with
  | none => rfl
  | some r => rfl

/-- the nested `__handleInline` of the two models agree -/
def HIrel (hi : HI) (hiX : HIX) : Prop :=
  ∀ d p st fn, hiX d p (lift fn st) = (hi d p st).map (fun r => (r.1, lift fn r.2))

theorem hiOptX_core {hi : HI} {hiX : HIX} (h : HIrel hi hiX) (t : Option Str) (atomic : Bool) (pi : Nat) (st : St)
    (fn : Footnotes.State) :
    hiOptX hiX t atomic pi (lift fn st) = (hiOpt hi t atomic pi st).map (fun r => (r.1, lift fn r.2)) := by
  simp only [hiOptX, hiOpt]
  split
  · rw [h]
    cases hi (t.getD []) pi st with
    | none => rfl
    | some r => rfl
  · rfl

theorem hiNodeX_core {hi : HI} {hiX : HIX} (h : HIrel hi hiX) (pi : Nat) (n : Node) (st : St)
    (fn : Footnotes.State) :
    hiNodeX hiX pi n (lift fn st) = (hiNode hi pi n st).map (fun r => (r.1, lift fn r.2)) := by
  simp only [hiNodeX, hiNode, hiOptX_core h]
  cases hiOpt hi n.text n.textAtomic (pi + 1) st with
  | none => rfl
  | some r =>
    obtain ⟨t, st1⟩ := r
    simp only [Option.map_some, hiOptX_core h]
    cases hiOpt hi n.tail n.tailAtomic pi st1 with
    | none => rfl
    | some r2 => rfl

theorem hiNodesX_core {hi : HI} {hiX : HIX} (h : HIrel hi hiX) (pi : Nat) : ∀ (l : List Node) (st : St)
    (fn : Footnotes.State),
    hiNodesX hiX pi l (lift fn st) = (hiNodes hi pi l st).map (fun r => (r.1, lift fn r.2)) := by
  intro l
  induction l with
  | nil => intro st fn; rfl
  | cons n r ih =>
    intro st fn
    simp only [hiNodesX, hiNodes, hiNodeX_core h]
    cases hiNode hi pi n st with
    | none => rfl
    | some p =>
      obtain ⟨n', st1⟩ := p
      simp only [Option.map_some, ih]
      cases hiNodes hi pi r st1 with
      | none => rfl
      | some q => rfl

theorem stashX_core (fn : Footnotes.State) (st : St) (it : StashItem) :
    stashX (lift fn st) it = ((stashNode st it).1, lift fn (stashNode st it).2) := rfl

theorem applyPatternX_core (cfg : Inline.Cfg) (keys : List Str) {hi : HI} {hiX : HIX} (h : HIrel hi hiX) (pi : Nat) (hpi : pi < 16)
    (data : Str) (si : Nat) (st : St) (fn : Footnotes.State) :
    applyPatternX (xcCore cfg keys) hiX pi data si (lift fn st) =
      (applyPattern cfg hi pi data si st).map (fun r => (r.1, r.2.1, r.2.2.1, lift fn r.2.2.2)) := by
  have ht : (xcCore cfg keys).table[pi]? = some (PatK.core pi) := coreTable_get pi hpi
  simp only [applyPatternX, applyPattern, ht, findX_core]
  cases findMatch cfg pi data si st with
  | none => rfl
  | some r =>
    obtain ⟨fo, st1⟩ := r
    cases fo with
    | none => rfl
    | some f =>
      simp only [Option.map_some]
      cases hnode : f.node with
      | none => rfl
      | str s => rfl
      | el n =>
        simp only []
        by_cases hat : (n.text.isSome && n.textAtomic) = true
        · simp only [hat, if_true]
          rfl
        · simp only [hat, Bool.false_eq_true, if_false, hiNodeX_core h]
          cases hiNode hi pi { n with children := [] } st1 with
          | none => rfl
          | some p =>
            obtain ⟨n1, st2⟩ := p
            simp only [Option.map_some, hiNodesX_core h]
            cases hiNodes hi pi n.children st2 with
            | none => rfl
            | some q => rfl

theorem hiLoopX_core {ap : Nat → Str → Nat → St → Option (Str × Bool × Nat × St)}
    {apX : Nat → Str → Nat → XSt → Option (Str × Bool × Nat × XSt)}
    (h : ∀ pi, pi < 16 → ∀ data si st fn,
      apX pi data si (lift fn st) = (ap pi data si st).map (fun r => (r.1, r.2.1, r.2.2.1, lift fn r.2.2.2))) :
    ∀ (g : Nat) (data : Str) (pi si : Nat) (st : St) (fn : Footnotes.State),
      hiLoopX 16 apX g data pi si (lift fn st) = (hiLoop ap g data pi si st).map (fun r => (r.1, lift fn r.2)) := by
  intro g
  induction g with
  | zero => intro data pi si st fn; rfl
  | succ g ih =>
    intro data pi si st fn
    simp only [hiLoopX, hiLoop, patternCount]
    by_cases hpi : pi < 16
    · simp only [hpi, if_true, h pi hpi]
      cases ap pi data si st with
      | none => rfl
      | some r =>
        obtain ⟨d, m, si', st'⟩ := r
        simp only [Option.map_some]
        exact ih _ _ _ _ _
    · simp only [hpi, if_false]
      rfl

theorem handleInlineX_core (cfg : Inline.Cfg) (keys : List Str) : ∀ (f : Nat), HIrel (handleInline cfg f) (handleInlineX (xcCore cfg keys) f) := by
  intro f
  induction f with
  | zero => intro d p st fn; rfl
  | succ f ih =>
    intro d p st fn
    simp only [handleInlineX, handleInline]
    have hl : (xcCore cfg keys).table.length = 16 := coreTable_length
    have hf : loopFuelX 16 d.length = loopFuel d.length := rfl
    rw [hl, hf]
    exact hiLoopX_core (fun pi hpi data si st fn => applyPatternX_core cfg keys ih pi hpi data si st fn) _ _ _ _ _ _

theorem handleInlineTopX_core (cfg : Inline.Cfg) (keys : List Str) (data : Str) (st : St) (fn : Footnotes.State) :
    handleInlineTopX (xcCore cfg keys) data (lift fn st) =
      (handleInlineTop cfg data st).map (fun r => (r.1, lift fn r.2)) := by
  simp only [handleInlineTopX, handleInlineTop, depthFuel]
  have hl : (xcCore cfg keys).table.length = 16 := coreTable_length
  rw [hl]
  exact handleInlineX_core cfg keys _ data 0 st fn

def liftV (fn : Footnotes.State) (v : Visit) : VisitX :=
  { done := v.done, posmap := v.posmap, pushes := v.pushes, x := lift fn v.st }

theorem visitChildX_core (cfg : Inline.Cfg) (keys : List Str) (child : Node) (v : Visit) (fn : Footnotes.State) :
    visitChildX (xcCore cfg keys) child (liftV fn v) =
      (visitChild cfg child v).map (fun r => (r.1, r.2.1, liftV fn r.2.2)) := by
  simp only [visitChildX, visitChild, liftV, handleInlineTopX_core]
  by_cases h1 : (Node.truthy child.text && !child.textAtomic) = true
  · simp only [h1, if_true]
    cases handleInlineTop cfg (child.text.getD []) v.st with
    | none => rfl
    | some r =>
      obtain ⟨data, st1⟩ := r
      simp only [Option.map_some]
      have hst : (lift fn st1).st = st1 := rfl
      rw [hst]
      cases ppTop st1 data false { child with text := none, textAtomic := false } true with
      | none => rfl
      | some q =>
        obtain ⟨lst, c1⟩ := q
        simp only []
        by_cases htl : Node.truthy c1.tail = true
        · simp only [htl, if_true]
          by_cases hat : c1.tailAtomic = true
          · simp only [hat, if_true, hst]
            cases ppTop st1 (c1.tail.getD []) true (mkEl "d") false with
            | none => rfl
            | some q => rfl
          · simp only [hat, Bool.false_eq_true, if_false, handleInlineTopX_core]
            cases handleInlineTop cfg (c1.tail.getD []) st1 with
            | none => rfl
            | some r =>
              obtain ⟨data2, st2⟩ := r
              simp only [Option.map_some]
              have hst2 : (lift fn st2).st = st2 := rfl
              rw [hst2]
              cases ppTop st2 data2 false (mkEl "d") false with
              | none => rfl
              | some q => rfl
        · simp only [htl, Bool.false_eq_true, if_false]
          rfl
  · simp only [h1, Bool.false_eq_true, if_false]
    by_cases htl : Node.truthy child.tail = true
    · simp only [htl, if_true]
      by_cases hat : child.tailAtomic = true
      · have hst : (lift fn v.st).st = v.st := rfl
        simp only [hat, if_true, hst]
        cases ppTop v.st (child.tail.getD []) true (mkEl "d") false with
        | none => rfl
        | some q => rfl
      · simp only [hat, Bool.false_eq_true, if_false, handleInlineTopX_core]
        cases handleInlineTop cfg (child.tail.getD []) v.st with
        | none => rfl
        | some r =>
          obtain ⟨data2, st2⟩ := r
          simp only [Option.map_some]
          have hst2 : (lift fn st2).st = st2 := rfl
          rw [hst2]
          cases ppTop st2 data2 false (mkEl "d") false with
          | none => rfl
          | some q => rfl
    · simp only [htl, Bool.false_eq_true, if_false]
      rfl

theorem visitLoopX_core (cfg : Inline.Cfg) (keys : List Str) (fn : Footnotes.State) : ∀ (g : Nat) (todo : List (Node × Option Nat))
    (v : Visit),
    visitLoopX (xcCore cfg keys) g todo (liftV fn v) = (visitLoop cfg g todo v).map (liftV fn) := by
  intro g
  induction g with
  | zero => intro todo v; rfl
  | succ g ih =>
    intro todo v
    cases todo with
    | nil => rfl
    | cons hd todo =>
      obtain ⟨child, orig⟩ := hd
      simp only [visitLoopX, visitLoop, visitChildX_core]
      cases visitChild cfg child v with
      | none => rfl
      | some r =>
        obtain ⟨c, tr, v1⟩ := r
        simp only [Option.map_some]
        exact ih _ { v1 with
          done := c :: v1.done
          posmap := match orig with | some o => (o, v.done.length) :: v1.posmap | none => v1.posmap }

theorem runLoopX_core (cfg : Inline.Cfg) (keys : List Str) (fn : Footnotes.State) (g2 : Nat) : ∀ (g : Nat) (root : Node)
    (stack : List Path) (st : St),
    runLoopX (xcCore cfg keys) g2 g root stack (lift fn st) =
      (runLoop cfg g2 g root stack st).map (fun r => (r.1, lift fn r.2)) := by
  intro g
  induction g with
  | zero => intro root stack st; rfl
  | succ g ih =>
    intro root stack st
    cases stack with
    | nil => rfl
    | cons p stack =>
      simp only [runLoopX, runLoop]
      cases getAt root p with
      | none => exact ih _ _ _
      | some cur =>
        simp only []
        have hv : ({ x := lift fn st } : VisitX) = liftV fn { st := st } := rfl
        rw [hv, visitLoopX_core]
        cases visitLoop cfg g2 (withIdx cur.children 0) { st := st } with
        | none => rfl
        | some v =>
          simp only [Option.map_some]
          exact ih _ _ _

/-- over the table of the sixteen core patterns `InlineX.runX` is `Inline.run` -/
theorem runX_core (cfg : Inline.Cfg) (keys : List Str) (tree : Node) (html : List Str) :
    runX (xcCore cfg keys) tree html =
      (Inline.run cfg tree html).map (fun r => (r.1, lift Footnotes.State.empty r.2)) := by
  simp only [runX, Inline.run]
  exact runLoopX_core cfg keys Footnotes.State.empty _ _ _ _ _

end MdVerif.InlineX
