/-
Helper lemmas for C10 (`Props/C10.lean`), part: the stages of `Markdown.convert` around the inline engine keep the
text / the tree free of STX and ETX.  Core Lean only.

1. `mem_extract`, `extract_noctl`: the raw-HTML preprocessor on `<`-free text (`Extract.extract`) copies characters
   of its input, except the `#` / `;` of a re-spelt character reference (which needs an `&` in the input).
2. `serialize_noctl`: the serializer writes no STX/ETX for a tree that holds none (`mem_escCdata`, `mem_escAttrHtml`,
   `mem_escAttrib`: the escapers only insert the literals `&amp;` `&lt;` `&gt;` `&quot;` `&#10;`).
3. `prettify_fnode`: `PrettifyTreeprocessor` keeps the invariant `FNode` of the tree handed to the tree processors.
4. `topLevelStrip_noctl`, `finish_noctl`: the end of `convert` (with an empty raw-HTML stash).
5. `unescape_placeholder`, `unescape_placeholder_str`, `unescape_plain`: `Pattern.unescape` expands exactly one level.
-/
import MdVerif.Lemmas.PlaceholdersPost
import MdVerif.Lemmas.PlaceholdersPat
import MdVerif.Lemmas.SerializerTree

namespace MdVerif.NoCtl
open Py

/-! ## 1. the raw-HTML preprocessor on `<`-free text -/

/-- `c` may be emitted for the input `s`: copied, or the `#` / `;` of a re-spelt character reference -/
def ExtractEmits (s : Str) (c : Char) : Prop := c ∈ s ∨ ('&' ∈ s ∧ (c = '#' ∨ c = ';'))

theorem ExtractEmits.mono {a b : Str} {c : Char} (hs : ∀ x ∈ a, x ∈ b) (h : ExtractEmits a c) : ExtractEmits b c := by
  rcases h with h | ⟨h1, h2⟩
  · exact .inl (hs c h)
  · exact .inr ⟨hs _ h1, h2⟩

theorem mem_leave_fst {e : Bool} {out rem : Str} {c : Char} (h : c ∈ (Extract.leave e out rem).1) :
    c ∈ out ∨ c ∈ rem := by
  unfold Extract.leave at h
  split at h
  · exact List.mem_append.1 h
  · exact .inl h

theorem mem_leave_snd {e : Bool} {out rem : Str} {c : Char} (h : c ∈ (Extract.leave e out rem).2) : c ∈ rem := by
  unfold Extract.leave at h
  split at h
  · cases h
  · exact h

theorem mem_extract_slice {s : Str} {a b : Nat} {c : Char} (h : c ∈ Extract.slice s a b) : c ∈ s :=
  List.mem_of_mem_drop (List.mem_of_mem_take h)

theorem mem_goahead (e : Bool) : ∀ (f : Nat) (s : Str),
    (∀ c ∈ (Extract.goahead e f s).1, ExtractEmits s c) ∧ (∀ c ∈ (Extract.goahead e f s).2, c ∈ s) := by
  intro f
  induction f with
  | zero => intro s; simp [Extract.goahead]
  | succ f ih =>
    intro s
    cases s with
    | nil => simp [Extract.goahead]
    | cons c r =>
      rw [Extract.goahead]
      split
      · -- an ordinary character
        have ih' := ih r
        generalize Extract.goahead e f r = g at ih' ⊢
        obtain ⟨o, rest⟩ := g
        obtain ⟨i1, i2⟩ := ih'
        refine ⟨?_, fun x hx => List.mem_cons_of_mem _ (i2 x hx)⟩
        intro x hx
        rcases List.mem_cons.1 hx with rfl | hx
        · exact .inl List.mem_cons_self
        · exact (i1 x hx).mono fun _ h => List.mem_cons_of_mem _ h
      · next hc =>
        have hc : c = '&' := by simpa using hc
        subst hc
        have hamp : '&' ∈ '&' :: r := List.mem_cons_self
        simp only
        split
        · split
          · next en _ =>
            -- a character reference
            generalize (if ('&' :: r)[en - 1]? == some ';' then en else en - 1) = k
            have ih' := ih (('&' :: r).drop k)
            generalize Extract.goahead e f (('&' :: r).drop k) = g at ih' ⊢
            obtain ⟨o, rest⟩ := g
            obtain ⟨i1, i2⟩ := ih'
            refine ⟨?_, fun x hx => List.mem_of_mem_drop (i2 x hx)⟩
            intro x hx
            simp only [List.mem_cons, List.mem_append] at hx
            rcases hx with (rfl | rfl | hx) | rfl | hx
            · exact .inl hamp
            · exact .inr ⟨hamp, .inl rfl⟩
            · exact .inl (mem_extract_slice hx)
            · exact .inr ⟨hamp, .inr rfl⟩
            · exact (i1 x hx).mono fun _ h => List.mem_of_mem_drop h
          · split
            · refine ⟨fun x hx => ?_, fun x hx => List.mem_of_mem_drop (mem_leave_snd hx)⟩
              rcases mem_leave_fst hx with hx | hx
              · simp only [List.mem_cons, List.not_mem_nil, or_false] at hx
                rcases hx with rfl | rfl
                · exact .inl hamp
                · exact .inr ⟨hamp, .inl rfl⟩
              · exact .inl (List.mem_of_mem_drop hx)
            · refine ⟨fun x hx => ?_, fun x hx => mem_leave_snd hx⟩
              rcases mem_leave_fst hx with hx | hx
              · cases hx
              · exact .inl hx
        · split
          · next en _ =>
            -- an entity reference
            have ih' := ih (('&' :: r).drop en)
            generalize Extract.goahead e f (('&' :: r).drop en) = g at ih' ⊢
            obtain ⟨o, rest⟩ := g
            obtain ⟨i1, i2⟩ := ih'
            refine ⟨?_, fun x hx => List.mem_of_mem_drop (i2 x hx)⟩
            intro x hx
            rcases List.mem_append.1 hx with hx | hx
            · exact .inl (List.mem_of_mem_take hx)
            · exact (i1 x hx).mono fun _ h => List.mem_of_mem_drop h
          · split
            · refine ⟨fun x hx => ?_, fun x hx => mem_leave_snd hx⟩
              rcases mem_leave_fst hx with hx | hx
              · cases hx
              · exact .inl hx
            · have ih' := ih r
              generalize Extract.goahead e f r = g at ih' ⊢
              obtain ⟨o, rest⟩ := g
              obtain ⟨i1, i2⟩ := ih'
              refine ⟨?_, fun x hx => List.mem_cons_of_mem _ (i2 x hx)⟩
              intro x hx
              rcases List.mem_cons.1 hx with rfl | hx
              · exact .inl hamp
              · exact (i1 x hx).mono fun _ h => List.mem_cons_of_mem _ h

theorem mem_extract {s : Str} {c : Char} (h : c ∈ Extract.extract s) : c ∈ s ∨ ('&' ∈ s ∧ (c = '#' ∨ c = ';')) := by
  unfold Extract.extract at h
  have ha := mem_goahead false (s.length + 1) s
  generalize Extract.goahead false (s.length + 1) s = g1 at ha h
  obtain ⟨o1, rest1⟩ := g1
  obtain ⟨a1, a2⟩ := ha
  have hb := mem_goahead true (rest1.length + 1) rest1
  simp only at h
  generalize Extract.goahead true (rest1.length + 1) rest1 = g2 at hb h
  obtain ⟨o2, rest2⟩ := g2
  obtain ⟨b1, b2⟩ := hb
  simp only at h
  rcases List.mem_append.1 h with h | h
  · rcases List.mem_append.1 h with h | h
    · exact a1 c h
    · exact (b1 c h).mono a2
  · exact .inl (a2 c (b2 c h))

theorem extract_noctl {s : Str} (h : NoCtl s) : NoCtl (Extract.extract s) := by
  rw [noCtl_iff] at h ⊢
  intro c hc
  rcases mem_extract hc with hc | ⟨_, rfl | rfl⟩
  · exact h c hc
  · decide
  · decide

/-- the `;` is written by the preprocessor: it is not a character of the input -/
example : Extract.extract "a &#38x".toList = "a &#38;x".toList := by decide
/-- without `&` in the input nothing is re-spelt -/
example : Extract.extract "a #38x".toList = "a #38x".toList := by decide

/-! ## 2. the serializer -/

private theorem mem_replace {s pat b : Str} {c : Char} (h : c ∈ replace s pat b) : c ∈ s ∨ c ∈ b := by
  unfold replace at h
  split at h
  · exact .inl h
  · exact mem_replaceAux h

theorem mem_serAmpSub {s : Str} {c : Char} (h : c ∈ Ser.ampSub s) : c ∈ s ∨ c ∈ "&amp;".toList := by
  induction s with
  | nil => simp [Ser.ampSub] at h
  | cons d r ih =>
    simp only [Ser.ampSub] at h
    split at h
    · next hd =>
      split at h
      · rcases List.mem_cons.1 h with h | h
        · left; rw [h, hd]; exact List.mem_cons_self
        · rcases ih h with h | h
          · exact .inl (List.mem_cons_of_mem _ h)
          · exact .inr h
      · rcases List.mem_append.1 h with h | h
        · exact .inr h
        · rcases ih h with h | h
          · exact .inl (List.mem_cons_of_mem _ h)
          · exact .inr h
    · rcases List.mem_cons.1 h with h | h
      · left; rw [h]; exact List.mem_cons_self
      · rcases ih h with h | h
        · exact .inl (List.mem_cons_of_mem _ h)
        · exact .inr h

/-- every character of `_escape_cdata(s)` is a character of `s` or of one of the literals `&amp;` `&lt;` `&gt;` -/
theorem mem_escCdata {s : Str} {c : Char} (h : c ∈ Ser.escCdata s) : c ∈ s ∨ c ∈ "&amp;&lt;&gt;".toList := by
  unfold Ser.escCdata at h
  rcases mem_replace h with h | h
  · rcases mem_replace h with h | h
    · rcases mem_serAmpSub h with h | h
      · exact .inl h
      · exact .inr ((by decide : ∀ c ∈ "&amp;".toList, c ∈ "&amp;&lt;&gt;".toList) c h)
    · exact .inr ((by decide : ∀ c ∈ "&lt;".toList, c ∈ "&amp;&lt;&gt;".toList) c h)
  · exact .inr ((by decide : ∀ c ∈ "&gt;".toList, c ∈ "&amp;&lt;&gt;".toList) c h)

theorem mem_escAttrHtml {s : Str} {c : Char} (h : c ∈ Ser.escAttrHtml s) :
    c ∈ s ∨ c ∈ "&amp;&lt;&gt;&quot;".toList := by
  unfold Ser.escAttrHtml at h
  rcases mem_replace h with h | h
  · rcases mem_escCdata h with h | h
    · exact .inl h
    · exact .inr ((by decide : ∀ c ∈ "&amp;&lt;&gt;".toList, c ∈ "&amp;&lt;&gt;&quot;".toList) c h)
  · exact .inr ((by decide : ∀ c ∈ "&quot;".toList, c ∈ "&amp;&lt;&gt;&quot;".toList) c h)

theorem mem_escAttrib {s : Str} {c : Char} (h : c ∈ Ser.escAttrib s) :
    c ∈ s ∨ c ∈ "&amp;&lt;&gt;&quot;&#10;".toList := by
  unfold Ser.escAttrib at h
  rcases mem_replace h with h | h
  · rcases mem_escAttrHtml h with h | h
    · exact .inl h
    · exact .inr ((by decide : ∀ c ∈ "&amp;&lt;&gt;&quot;".toList, c ∈ "&amp;&lt;&gt;&quot;&#10;".toList) c h)
  · exact .inr ((by decide : ∀ c ∈ "&#10;".toList, c ∈ "&amp;&lt;&gt;&quot;&#10;".toList) c h)

private theorem noCtl_of_mem_or {s t lit : Str} (hs : NoCtl s) (hl : NoCtl lit) (h : ∀ c ∈ t, c ∈ s ∨ c ∈ lit) : NoCtl t := by
  rw [noCtl_iff] at *
  intro c hc
  rcases h c hc with h | h
  · exact hs c h
  · exact hl c h

theorem escCdata_noctl {s : Str} (h : NoCtl s) : NoCtl (Ser.escCdata s) :=
  noCtl_of_mem_or h (by decide) fun _ hc => mem_escCdata hc

theorem escAttrHtml_noctl {s : Str} (h : NoCtl s) : NoCtl (Ser.escAttrHtml s) :=
  noCtl_of_mem_or h (by decide) fun _ hc => mem_escAttrHtml hc

theorem escAttrib_noctl {s : Str} (h : NoCtl s) : NoCtl (Ser.escAttrib s) :=
  noCtl_of_mem_or h (by decide) fun _ hc => mem_escAttrib hc

theorem writeAttrs_noctl (fmt : Ser.Fmt) {attrs : List (Str × Str)} (h : attrsNoCtl attrs) :
    NoCtl (Ser.writeAttrs fmt attrs) := by
  induction attrs with
  | nil => exact noCtl_nil
  | cons kv r ih =>
    obtain ⟨k, v⟩ := kv
    have hkv := h (k, v) List.mem_cons_self
    have hv := escAttrHtml_noctl hkv.2
    have hr := ih (fun x hx => h x (List.mem_cons_of_mem _ hx))
    simp only [Ser.writeAttrs]
    rw [noCtl_append]
    refine ⟨?_, hr⟩
    split
    · exact noCtl_cons.2 ⟨by decide, hv⟩
    · rw [List.cons_append, List.cons_append, List.cons_append]
      refine noCtl_cons.2 ⟨by decide, ?_⟩
      rw [noCtl_append, noCtl_append, noCtl_append]
      exact ⟨⟨⟨hkv.1, by decide⟩, hv⟩, by decide⟩

theorem sortAttrs_noctl {attrs : List (Str × Str)} (h : attrsNoCtl attrs) : attrsNoCtl (Ser.sortAttrs attrs) :=
  fun kv hkv => h kv (Ser.mem_sortAttrs attrs kv hkv)

theorem element_noctl (fmt : Ser.Fmt) {t : Str} {uri : Option Str} {attrs : List (Str × Str)} {text : Option Str}
    {kids : Str} (ht : NoCtl t) (hu : NoCtlO uri) (ha : attrsNoCtl attrs) (htx : NoCtlO text) (hk : NoCtl kids) :
    NoCtl (Ser.element fmt t uri attrs text kids) := by
  have hopen : NoCtl ('<' :: t ++ Ser.writeAttrs fmt (Ser.sortAttrs attrs) ++
      (match (generalizing := false) uri with
       | some (u :: us) => " xmlns=\"".toList ++ Ser.escAttrib (u :: us) ++ ['"']
       | _ => [])) := by
    rw [List.cons_append, List.cons_append]
    refine noCtl_cons.2 ⟨by decide, ?_⟩
    rw [noCtl_append, noCtl_append]
    refine ⟨⟨ht, writeAttrs_noctl fmt (sortAttrs_noctl ha)⟩, ?_⟩
    split
    · next u us =>
      rw [noCtl_append, noCtl_append]
      exact ⟨⟨by decide, escAttrib_noctl hu⟩, by decide⟩
    · exact noCtl_nil
  unfold Ser.element
  simp only
  split
  · rw [noCtl_append]; exact ⟨hopen, by decide⟩
  · rw [noCtl_append, noCtl_append, noCtl_append, noCtl_append]
    refine ⟨⟨⟨⟨hopen, by decide⟩, ?_⟩, hk⟩, ?_⟩
    · split
      · split
        · exact htx
        · exact escCdata_noctl htx
      · exact noCtl_nil
    · split
      · exact noCtl_nil
      · rw [noCtl_append, noCtl_append]; exact ⟨⟨by decide, ht⟩, by decide⟩

theorem splitQName_noctl {q uri t : Str} (hq : NoCtl q) (h : Ser.splitQName q = some (uri, t)) : NoCtl uri ∧ NoCtl t := by
  unfold Ser.splitQName at h
  split at h
  · next r =>
    split at h
    · simp only [Option.some.injEq, Prod.mk.injEq] at h
      obtain ⟨rfl, rfl⟩ := h
      have hr : NoCtl r := (noCtl_cons.1 hq).2
      exact ⟨hr.take _, hr.drop _⟩
    · cases h
  · cases h

mutual
theorem serialize_noctl_node (fmt : Ser.Fmt) : ∀ t : Node, t.Forall NodeNoCtl → NoCtl (Ser.serialize fmt t)
  | ⟨tag, attrs, text, ta, children, tail, tla⟩, h => by
    simp only [Node.Forall] at h
    obtain ⟨⟨h1, h2, h3, h4⟩, hk⟩ := h
    simp only at h1 h2 h3 h4
    have hkids := serialize_noctl_list fmt children hk
    have htxt : NoCtl (Ser.escCdata (text.getD [])) := escCdata_noctl h3
    have htail : NoCtl (if Node.truthy tail = true then Ser.escCdata (tail.getD []) else []) := by
      split
      · exact escCdata_noctl h4
      · exact noCtl_nil
    unfold Ser.serialize
    simp only
    rw [noCtl_append]
    refine ⟨?_, htail⟩
    cases tag with
    | comment =>
      simp only
      rw [noCtl_append, noCtl_append]; exact ⟨⟨by decide, htxt⟩, by decide⟩
    | pi =>
      simp only
      rw [noCtl_append, noCtl_append]; exact ⟨⟨by decide, htxt⟩, by decide⟩
    | none =>
      simp only
      rw [noCtl_append]
      refine ⟨?_, hkids⟩
      split
      · exact htxt
      · exact noCtl_nil
    | name t =>
      simp only
      exact element_noctl fmt h1 noCtl_nil h2 h3 hkids
    | qname q =>
      simp only
      split
      · next uri t hs =>
        obtain ⟨hu, ht⟩ := splitQName_noctl h1 hs
        exact element_noctl fmt ht hu h2 h3 hkids
      · exact noCtl_nil
theorem serialize_noctl_list (fmt : Ser.Fmt) : ∀ l : List Node, Node.ForallL NodeNoCtl l → NoCtl (Ser.serializeList fmt l)
  | [], _ => by unfold Ser.serializeList; exact noCtl_nil
  | c :: r, h => by
    simp only [Node.ForallL] at h
    unfold Ser.serializeList
    rw [noCtl_append]
    exact ⟨serialize_noctl_node fmt c h.1, serialize_noctl_list fmt r h.2⟩
end

theorem serialize_noctl (fmt : Ser.Fmt) {t : Node} (h : TreeNoCtl t) : NoCtl (Ser.serialize fmt t) :=
  serialize_noctl_node fmt t h

/-- a non-trivial tree that satisfies the hypothesis, and what is written for it -/
example :
    let t : Node := { tag := .name "p".toList, attrs := [("title".toList, "a\"<b".toList)], text := some "x & y".toList,
                      children := [{ tag := .name "br".toList, tail := some "1 < 2".toList }] }
    TreeNoCtl t ∧ Ser.serialize .xhtml t = "<p title=\"a&quot;&lt;b\">x &amp; y<br />1 &lt; 2</p>".toList := by
  refine ⟨?_, by decide⟩
  simp only [TreeNoCtl, Node.Forall, Node.ForallL, NodeNoCtl, tagNoCtl, attrsNoCtl, NoCtlO]
  decide

/-! ## 3. `PrettifyTreeprocessor` -/

private theorem wfo_nl : WFO true 0 (some ['\n']) := WF.plain _ _ (by decide) (by decide) .nil

private theorem ite_pred {α : Type} (P : α → Prop) {c : Prop} [Decidable c] {a b : α} (ha : P a) (hb : P b) :
    P (if c then a else b) := by
  split
  · exact ha
  · exact hb

mutual
theorem prettifyETree_fnode (bl : List Str) : ∀ t : Node, t.Forall FNode → (TreeProc.prettifyETree bl t).Forall FNode
  | ⟨tag, attrs, text, ta, children, tail, tla⟩, h => by
    simp only [Node.Forall] at h
    obtain ⟨⟨h1, h2, h3, h4, h5⟩, hk⟩ := h
    simp only at h1 h2 h3 h4 h5
    unfold TreeProc.prettifyETree
    simp only [Node.Forall]
    refine ⟨⟨h1, h2, ?_, ?_, ?_⟩, ?_⟩
    · exact ite_pred (WFO true 0) wfo_nl h3
    · exact ite_pred (WFO true 0) wfo_nl h4
    · intro hc
      exact ite_pred NoCtlO (show NoCtl ['\n'] by decide) (h5 hc)
    · split
      · exact prettifyKids_fnode bl children hk
      · exact hk
theorem prettifyKids_fnode (bl : List Str) : ∀ l : List Node, Node.ForallL FNode l →
    Node.ForallL FNode (TreeProc.prettifyKids bl l)
  | [], _ => by simp [TreeProc.prettifyKids, Node.ForallL]
  | c :: r, h => by
    simp only [Node.ForallL] at h
    unfold TreeProc.prettifyKids
    simp only [Node.ForallL]
    refine ⟨?_, prettifyKids_fnode bl r h.2⟩
    split
    · exact prettifyETree_fnode bl c h.1
    · exact h.1
end

mutual
/-- `mapTree f` keeps the invariant when `f` does on every subtree -/
theorem mapTree_fnode {f : Node → Node} (hf : ∀ n : Node, n.Forall FNode → (f n).Forall FNode) :
    ∀ t : Node, t.Forall FNode → (TreeProc.mapTree f t).Forall FNode
  | ⟨tag, attrs, text, ta, children, tail, tla⟩, h => by
    simp only [Node.Forall] at h
    unfold TreeProc.mapTree
    apply hf
    simp only [Node.Forall]
    exact ⟨h.1, mapKids_fnode hf children h.2⟩
theorem mapKids_fnode {f : Node → Node} (hf : ∀ n : Node, n.Forall FNode → (f n).Forall FNode) :
    ∀ l : List Node, Node.ForallL FNode l → Node.ForallL FNode (TreeProc.mapKids f l)
  | [], _ => by simp [TreeProc.mapKids, Node.ForallL]
  | c :: r, h => by
    simp only [Node.ForallL] at h
    unfold TreeProc.mapKids
    simp only [Node.ForallL]
    exact ⟨mapTree_fnode hf c h.1, mapKids_fnode hf r h.2⟩
end

theorem brRule_fnode {n : Node} (h : n.Forall FNode) : (TreeProc.brRule n).Forall FNode := by
  unfold TreeProc.brRule
  split
  · rw [Node.forall_iff] at h
    obtain ⟨⟨h1, h2, h3, h4, h5⟩, hk⟩ := h
    split
    · rw [Node.forall_iff]
      exact ⟨⟨h1, h2, wfo_nl, h4, h5⟩, hk⟩
    · rw [Node.forall_iff]
      exact ⟨⟨h1, h2, WF.plain _ _ (by decide) (by decide) h3, h4, h5⟩, hk⟩
  · exact h

theorem preRule_fnode {n : Node} (h : n.Forall FNode) : (TreeProc.preRule n).Forall FNode := by
  unfold TreeProc.preRule
  split
  · split
    · next code rest hch =>
      split
      · next hcode =>
        split
        · next t ht =>
          rw [Node.forall_iff] at h ⊢
          obtain ⟨hn, hk⟩ := h
          refine ⟨hn, ?_⟩
          intro c hc
          rw [hch] at hk
          rcases List.mem_cons.1 hc with rfl | hc
          · have hcd := hk code List.mem_cons_self
            rw [Node.forall_iff] at hcd ⊢
            obtain ⟨⟨h1, h2, h3, h4, h5⟩, hkk⟩ := hcd
            simp only [Bool.and_eq_true] at hcode
            have hnc : NoCtl t := by
              have := h5 hcode.1
              rw [ht] at this; exact this
            have hnew : NoCtl (rstrip t ++ ['\n']) :=
              noCtl_append.2 ⟨hnc.subset fun _ hc => (rstrip_prefix t).subset hc, by decide⟩
            exact ⟨⟨h1, h2, h3, WF.of_noCtl hnew, fun _ => hnew⟩, hkk⟩
          · exact hk c (List.mem_cons_of_mem _ hc)
        · exact h
      · exact h
    · exact h
  · exact h

theorem prettify_fnode {t : Node} (h : t.Forall FNode) (bl : List Str) : (TreeProc.prettify t bl).Forall FNode := by
  unfold TreeProc.prettify
  exact mapTree_fnode (fun _ => preRule_fnode) _ (mapTree_fnode (fun _ => brRule_fnode) _ (prettifyETree_fnode bl t h))

/-! ## 4. the end of `convert` -/

theorem topLevelStrip_noctl {s out : Str} (h : NoCtl s) (hr : Post.topLevelStrip s = some out) : NoCtl out := by
  unfold Post.topLevelStrip at hr
  simp only at hr
  split at hr
  · next i e _ _ =>
    simp only [Option.some.injEq] at hr
    subst hr
    unfold Post.topLevelStrip.sl
    exact ((h.take _).drop _).strip
  · split at hr
    · simp only [Option.some.injEq] at hr
      subst hr; exact noCtl_nil
    · cases hr

private theorem post_nil (bl : List Str) (t : Str) : Post.post bl [] t = some (Post.ampSub t) := rfl

theorem finish_noctl {bl : List Str} {s out : Str} (h : NoCtl s) (hr : Post.finish bl [] s = some (some out)) :
    NoCtl out := by
  unfold Post.finish at hr
  split at hr
  · cases hr
  · next t ht =>
    rw [post_nil] at hr
    simp only [Option.map_some, Option.some.injEq] at hr
    subst hr
    exact (ampSub_noctl (topLevelStrip_noctl h ht)).strip

/-! ## 5. `Pattern.unescape` expands one level -/

theorem phSub_skip_all (lookup : Str → Option Str) : ∀ (s : Str) (k : Nat), s.length ≤ k → Inline.phSub lookup k s = []
  | [], k, _ => by cases k <;> rfl
  | c :: s, 0, h => by simp at h
  | c :: s, k + 1, h => by
    simp only [Inline.phSub]
    exact phSub_skip_all lookup s k (by simp at h; omega)

theorem phSub_placeholder (lookup : Str → Option Str) (i : Nat) :
    Inline.phSub lookup 0 (Inline.placeholder i) = (lookup (pad4 i)).getD [] := by
  have e : Inline.placeholder i = Inline.STX :: (['k', 'l', 'z', 'z', 'w', 'x', 'h', ':'] ++ (pad4 i ++ [Inline.ETX])) := by
    simp [Inline.placeholder, phPrefix_eq]
  have hsw : startsWith (Inline.placeholder i) Inline.phPrefix = true := by
    rw [placeholder_eq]; exact startsWith_append _ _
  rw [e] at hsw ⊢
  rw [Inline.phSub]
  have hdrop : (Inline.STX :: (['k', 'l', 'z', 'z', 'w', 'x', 'h', ':'] ++ (pad4 i ++ [Inline.ETX]))).drop Inline.phPrefixLen
      = pad4 i ++ [Inline.ETX] := by
    simp [Inline.phPrefixLen]
  simp only [hsw, hdrop, phAt_pad4, Bool.and_true, decide_true, if_true]
  rw [phSub_skip_all, List.append_nil]
  simp [Inline.phPrefixLen]; omega

/-- a placeholder of a stashed element is replaced by the text content of the element, which is not expanded again -/
theorem unescape_placeholder {stash : List Inline.StashItem} {i : Nat} {n : Node} (h : stash[i]? = some (.node n)) :
    Inline.unescape stash (Inline.placeholder i) = Inline.itertext n := by
  unfold Inline.unescape
  rw [phSub_placeholder, stashGet_pad4, h]; rfl

theorem unescape_placeholder_str {stash : List Inline.StashItem} {i : Nat} {s : Str} (h : stash[i]? = some (.str s)) :
    Inline.unescape stash (Inline.placeholder i) = s := by
  unfold Inline.unescape
  rw [phSub_placeholder, stashGet_pad4, h]; rfl

theorem phSub_plain (lookup : Str → Option Str) {s : Str} (h : Inline.STX ∉ s) : Inline.phSub lookup 0 s = s := by
  induction s with
  | nil => rfl
  | cons c s ih =>
    have hc : c ≠ Inline.STX := fun e => h (by simp [e])
    rw [Inline.phSub]
    simp only [hc, decide_false, Bool.false_and, Bool.false_eq_true, if_false]
    rw [ih (fun hm => h (List.mem_cons_of_mem _ hm))]

theorem unescape_plain {stash : List Inline.StashItem} {s : Str} (h : Inline.STX ∉ s) : Inline.unescape stash s = s :=
  phSub_plain _ h

/-- one level only: the placeholder inside the text of the stashed `a` element comes out verbatim -/
example :
    let stash : List Inline.StashItem :=
      [.node { tag := .name "code".toList, text := some "x".toList },
       .node { tag := .name "a".toList, text := some (Inline.placeholder 0) }]
    Inline.unescape stash (Inline.placeholder 1) = Inline.placeholder 0 := by decide

end MdVerif.NoCtl
