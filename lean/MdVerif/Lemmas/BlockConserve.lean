/-
Helper lemmas for C06 (block-parser half): the tree operations keep `treeOk` and add letters at the end of the
document order; each of the eleven processors, hence one turn of the loop (`dispatch`), hence `parseBlocks`, conserves
`docLetters parent ++ queueLetters blocks` and maintains `inv`.  Core Lean only.  String lemmas:
`Lemmas/BlockConserveStr.lean`.
-/
import MdVerif.Lemmas.BlockConserveStr

namespace MdVerif.Letters
open Py MdVerif.Block

variable {L : Char → Bool}

/-! ### trees -/

theorem docLetters_eq (n : Node) : docLetters L n = textLetters L n.tag n.text ++ kidsLetters L n.children := by
  cases n; simp only [docLetters]

theorem kidsLetters_append (a b : List Node) : kidsLetters L (a ++ b) = kidsLetters L a ++ kidsLetters L b := by
  induction a with
  | nil => simp [kidsLetters]
  | cons c r ih => simp only [List.cons_append, kidsLetters, ih, List.append_assoc]

theorem kidsLetters_single (c : Node) : kidsLetters L [c] = docLetters L c ++ optLetters L c.tail := by
  simp [kidsLetters]

theorem nodeOk_eq (n : Node) : nodeOk L n = (localOk L n && kidsOk L n.children) := by
  cases n; simp only [nodeOk]

theorem kidsOk_append (a b : List Node) : kidsOk L (a ++ b) = (kidsOk L a && kidsOk L b) := by
  induction a with
  | nil => simp [kidsOk]
  | cons c r ih => simp only [List.cons_append, kidsOk, ih, Bool.and_assoc]

theorem kidsOk_single (c : Node) : kidsOk L [c] = nodeOk L c := by simp [kidsOk]

theorem dropLast_append_of_getLast? {α : Type} {l : List α} {c : α} (h : l.getLast? = some c) :
    l.dropLast ++ [c] = l := by
  have hne : l ≠ [] := by intro e; subst e; simp at h
  rw [List.getLast?_eq_some_getLast hne] at h
  cases h
  exact List.dropLast_concat_getLast hne

theorem children_of_last {n c : Node} (h : n.last? = some c) : n.children = n.children.dropLast ++ [c] := by
  simp only [Node.last?] at h
  exact (dropLast_append_of_getLast? h).symm

theorem children_of_last_none {n : Node} (h : n.last? = none) : n.children = [] := by
  simpa [Node.last?] using h

theorem treeOk_iff {n : Node} : treeOk L n = true ↔ kidsOk L n.children = true ∧ kidsGood n = true := by
  simp only [treeOk, Bool.and_eq_true]

theorem nodeOk_of_last {n c : Node} (hok : treeOk L n = true) (h : n.last? = some c) : nodeOk L c = true := by
  have hk := (treeOk_iff.mp hok).1
  rw [children_of_last h, kidsOk_append, kidsOk_single, Bool.and_eq_true] at hk
  exact hk.2

theorem kidsOk_dropLast {l : List Node} (h : kidsOk L l = true) : kidsOk L l.dropLast = true := by
  cases hl : l.getLast? with
  | none => simp at hl; subst hl; rfl
  | some c =>
    rw [← dropLast_append_of_getLast? hl, kidsOk_append, Bool.and_eq_true] at h
    exact h.1

@[simp] theorem append_tag (n c : Node) : (n.append c).tag = n.tag := rfl
@[simp] theorem append_tail (n c : Node) : (n.append c).tail = n.tail := rfl
@[simp] theorem append_text (n c : Node) : (n.append c).text = n.text := rfl
@[simp] theorem append_children (n c : Node) : (n.append c).children = n.children ++ [c] := rfl
@[simp] theorem setLast_tag (n c : Node) : (n.setLast c).tag = n.tag := rfl
@[simp] theorem setLast_tail (n c : Node) : (n.setLast c).tail = n.tail := rfl
@[simp] theorem setLast_text (n c : Node) : (n.setLast c).text = n.text := rfl
@[simp] theorem setLast_children (n c : Node) : (n.setLast c).children = n.children.dropLast ++ [c] := rfl

theorem docLetters_append (n c : Node) :
    docLetters L (n.append c) = docLetters L n ++ (docLetters L c ++ optLetters L c.tail) := by
  rw [docLetters_eq, docLetters_eq n]
  simp only [append_tag, append_text, append_children, kidsLetters_append, kidsLetters_single, List.append_assoc]

theorem docLetters_setLast {n c c' : Node} (hl : n.last? = some c) {x : Str}
    (h : docLetters L c' ++ optLetters L c'.tail = docLetters L c ++ optLetters L c.tail ++ x) :
    docLetters L (n.setLast c') = docLetters L n ++ x := by
  rw [docLetters_eq, docLetters_eq n]
  simp only [setLast_tag, setLast_text, setLast_children]
  conv => rhs; rw [children_of_last hl]
  simp only [kidsLetters_append, kidsLetters_single, h, List.append_assoc]

/-! ### tags -/

theorem isTag_iff {n : Node} {t : String} : n.isTag t = true ↔ n.tag = .name t.toList := by
  simp [Node.isTag]

theorem isTag_congr {n n' : Node} (h : n'.tag = n.tag) (t : String) : n'.isTag t = n.isTag t := by
  simp [Node.isTag, h]

theorem tailSafe_congr {n n' : Node} (h : n'.tag = n.tag) : tailSafe n' = tailSafe n := by
  simp only [tailSafe, isListTag, isItemTag, isTag_congr h]

theorem isItemTag_congr {n n' : Node} (h : n'.tag = n.tag) : isItemTag n' = isItemTag n := by
  simp only [isItemTag, isTag_congr h]

theorem isListTag_congr {n n' : Node} (h : n'.tag = n.tag) : isListTag n' = isListTag n := by
  simp only [isListTag, isTag_congr h]

theorem not_pre_of_item {n : Node} (h : isItemTag n = true) : n.isTag "pre" = false := by
  simp only [isItemTag, isTag_iff] at h
  simp [Node.isTag, h]

theorem not_pre_of_list {n : Node} (h : isListTag n = true) : n.isTag "pre" = false := by
  simp only [isListTag, Bool.or_eq_true, isTag_iff] at h
  rcases h with h | h <;> simp [Node.isTag, h]

theorem not_pre_of_quote {n : Node} (h : n.isTag "blockquote" = true) : n.isTag "pre" = false := by
  simp only [isTag_iff] at h
  simp [Node.isTag, h]

theorem not_safe_of_item {n : Node} (h : isItemTag n = true) : tailSafe n = false := by simp [tailSafe, h]
theorem not_safe_of_list {n : Node} (h : isListTag n = true) : tailSafe n = false := by simp [tailSafe, h]
theorem not_safe_of_quote {n : Node} (h : n.isTag "blockquote" = true) : tailSafe n = false := by simp [tailSafe, h]
theorem not_safe_of_pre {n : Node} (h : n.isTag "pre" = true) : tailSafe n = false := by simp [tailSafe, h]

theorem preOk_of_not_pre {n : Node} (h : n.isTag "pre" = false) : preOk L n = true := by simp [preOk, h]

theorem kidsGood_append {n c : Node} (hg : kidsGood n = true) (hc : c.isTag "code" = false) :
    kidsGood (n.append c) = true := by
  simp only [kidsGood, Bool.or_eq_true, List.all_eq_true, Bool.not_eq_true'] at hg ⊢
  rcases hg with hg | hg
  · left; exact hg
  · right
    intro k hk
    simp only [append_children, List.mem_append, List.mem_singleton] at hk
    rcases hk with hk | hk
    · exact hg k hk
    · rw [hk]; exact hc

theorem kidsGood_setLast {n c c' : Node} (hg : kidsGood n = true) (hl : n.last? = some c) (ht : c'.tag = c.tag) :
    kidsGood (n.setLast c') = true := by
  simp only [kidsGood, Bool.or_eq_true, List.all_eq_true, Bool.not_eq_true'] at hg ⊢
  rcases hg with hg | hg
  · left; exact hg
  · right
    intro k hk
    simp only [setLast_children, List.mem_append, List.mem_singleton] at hk
    rcases hk with hk | hk
    · exact hg k (List.dropLast_subset _ hk)
    · rw [hk, isTag_congr ht]
      exact hg c (by rw [children_of_last hl]; simp)

theorem treeOk_append {n c : Node} (hok : treeOk L n = true) (hc : nodeOk L c = true)
    (hnc : c.isTag "code" = false) : treeOk L (n.append c) = true := by
  obtain ⟨h1, h2⟩ := treeOk_iff.mp hok
  refine treeOk_iff.mpr ⟨?_, kidsGood_append h2 hnc⟩
  simp only [append_children, kidsOk_append, kidsOk_single, h1, hc, Bool.and_self]

theorem treeOk_setLast {n c c' : Node} (hok : treeOk L n = true) (hl : n.last? = some c) (hc : nodeOk L c' = true)
    (ht : c'.tag = c.tag) : treeOk L (n.setLast c') = true := by
  obtain ⟨h1, h2⟩ := treeOk_iff.mp hok
  refine treeOk_iff.mpr ⟨?_, kidsGood_setLast h2 hl ht⟩
  simp only [setLast_children, kidsOk_append, kidsOk_single, Bool.and_eq_true]
  exact ⟨kidsOk_dropLast h1, hc⟩

theorem last_append (n c : Node) : (n.append c).last? = some c := by simp [Node.last?]
theorem last_setLast (n c : Node) : (n.setLast c).last? = some c := by simp [Node.last?]

/-- the tail of an element that is not `tailSafe` has no letters -/
theorem tail_of_not_safe {n : Node} (hok : nodeOk L n = true) (h : tailSafe n = false) : optLetters L n.tail = [] := by
  rw [nodeOk_eq] at hok
  simp only [localOk, h, Bool.false_or, Bool.and_eq_true, List.isEmpty_iff] at hok
  exact hok.1.1.1

/-! ### what a call of `parseBlocks` does to its parent -/

/-- `p'` is `p` with the letters `x` added at the end of the document order, still `treeOk`, same tag and tail -/
structure Post (L : Char → Bool) (p p' : Node) (x : Str) : Prop where
  doc : docLetters L p' = docLetters L p ++ x
  ok : treeOk L p' = true
  tag : p'.tag = p.tag
  tail : p'.tail = p.tail

theorem Post.refl {p : Node} (hok : treeOk L p = true) : Post L p p [] := ⟨by simp, hok, rfl, rfl⟩

theorem Post.trans {p p' p'' : Node} {x y : Str} (h1 : Post L p p' x) (h2 : Post L p' p'' y) : Post L p p'' (x ++ y) :=
  ⟨by rw [h2.doc, h1.doc, List.append_assoc], h2.ok, h2.tag.trans h1.tag, h2.tail.trans h1.tail⟩

/-- a child that is not a `pre`, after a call on it: still `nodeOk` -/
theorem Post.node_ok {p p' : Node} {x : Str} (h : Post L p p' x) (hn : nodeOk L p = true)
    (hpre : p.isTag "pre" = false) : nodeOk L p' = true := by
  obtain ⟨hk, hg⟩ := treeOk_iff.mp h.ok
  rw [nodeOk_eq, Bool.and_eq_true] at hn ⊢
  refine ⟨?_, hk⟩
  have hl := hn.1
  simp only [localOk, Bool.and_eq_true] at hl ⊢
  refine ⟨⟨?_, preOk_of_not_pre (by rw [isTag_congr h.tag]; exact hpre)⟩, hg⟩
  rw [tailSafe_congr h.tag, h.tail]; exact hl.1.1

/-- appending a child -/
theorem Post.append {p c : Node} (hok : treeOk L p = true) (hc : nodeOk L c = true)
    (hnc : c.isTag "code" = false) : Post L p (p.append c) (docLetters L c ++ optLetters L c.tail) :=
  ⟨docLetters_append p c, treeOk_append hok hc hnc, rfl, rfl⟩

/-- replacing the last child by one with more letters at its end -/
theorem Post.setLast {p c c' : Node} {x : Str} (hok : treeOk L p = true) (hl : p.last? = some c)
    (hc : nodeOk L c' = true) (ht : c'.tag = c.tag)
    (h : docLetters L c' ++ optLetters L c'.tail = docLetters L c ++ optLetters L c.tail ++ x) :
    Post L p (p.setLast c') x :=
  ⟨docLetters_setLast hl h, treeOk_setLast hok hl hc ht, rfl, rfl⟩

/-- the last child, not `tailSafe` and not a `pre`, after a call on it -/
theorem Post.setLast_post {p c c' : Node} {x : Str} (hok : treeOk L p = true) (hl : p.last? = some c)
    (hs : tailSafe c = false) (hpre : c.isTag "pre" = false) (h : Post L c c' x) : Post L p (p.setLast c') x := by
  have hn := nodeOk_of_last hok hl
  apply Post.setLast hok hl (h.node_ok hn hpre) h.tag
  rw [h.doc, h.tail, tail_of_not_safe hn hs]; simp

def Conserves (L : Char → Bool) (tab : Nat) (pb : PB) : Prop :=
  ∀ state refs parent blocks parent' refs', inv L tab state parent blocks = true →
    pb state refs parent blocks = some (parent', refs') → Post L parent parent' (queueLetters L blocks)

/-- the result of one turn of the loop -/
structure Step (L : Char → Bool) (tab : Nat) (state : List BState) (parent : Node) (b : Str) (rest : List Str)
    (parent' : Node) (blocks' : List Str) : Prop where
  doc : docLetters L parent' ++ queueLetters L blocks' = docLetters L parent ++ letters L b ++ queueLetters L rest
  inv : inv L tab state parent' blocks' = true
  tag : parent'.tag = parent.tag
  tail : parent'.tail = parent.tail

theorem inv_iff {tab : Nat} {state : List BState} {parent : Node} {blocks : List Str} :
    inv L tab state parent blocks = true ↔
      treeOk L parent = true ∧ (∀ b ∈ blocks, plain b = true) ∧ listInv tab state parent blocks = true := by
  simp only [inv, Bool.and_eq_true, List.all_eq_true, and_assoc]

theorem listInv_of_not_list {tab : Nat} {state : List BState} (h : isstate state .list = false) (p : Node)
    (bs : List Str) : listInv tab state p bs = true := by simp [listInv, h]

theorem listInv_cons {tab : Nat} {state : List BState} {p : Node} {b : Str} {rest : List Str}
    (h : listInv tab state p (b :: rest) = true) (hs : isstate state .list = true) :
    rest = [] ∧ isItemTag p = true ∧ (startsWith b (spaces tab) = true ∨ lastSafe p = true) := by
  simp only [listInv, hs, Bool.not_true, Bool.false_or, Bool.and_eq_true] at h
  cases rest with
  | nil => simpa using h
  | cons x r => simp at h

theorem listInv_nil {tab : Nat} {state : List BState} {p : Node} (h : isstate state .list = true → isItemTag p = true) :
    listInv tab state p [] = true := by
  cases hs : isstate state .list <;> simp [listInv, hs]
  exact h hs

theorem listInv_one {tab : Nat} {state : List BState} {p : Node} {x : Str}
    (h : isstate state .list = true → isItemTag p = true ∧ lastSafe p = true) :
    listInv tab state p [x] = true := by
  cases hs : isstate state .list <;> simp [listInv, hs]
  exact ⟨(h hs).1, Or.inr (h hs).2⟩


/-! ### `EmptyBlockProcessor`, `CodeBlockProcessor` -/

theorem letters_fmtOpt {t : Option Str} (ht : Node.truthy t = true) : letters L (fmtOpt t) = optLetters L t := by
  cases t with
  | none => simp [Node.truthy] at ht
  | some x => rfl

theorem optLetters_falsy {t : Option Str} (ht : Node.truthy t = false) : optLetters L t = [] := by
  cases t with
  | none => rfl
  | some x =>
    cases x with
    | nil => rfl
    | cons c r => simp [Node.truthy] at ht

theorem preCode_spec {sib code : Node} (h : preCode sib = some code) :
    sib.isTag "pre" = true ∧ code.isTag "code" = true ∧ ∃ rest, sib.children = code :: rest := by
  simp only [preCode] at h
  split at h
  · rename_i hpre
    split at h
    · rename_i c rest hch
      split at h
      · rename_i hcode
        cases h
        exact ⟨hpre, hcode, rest, hch⟩
      · cases h
    · cases h
  · cases h

theorem tag_code_of_isTag {c : Node} (h : c.isTag "code" = true) : c.tag = .name "code".toList := isTag_iff.mp h

/-- `sibling[0].text += y` for the `code` of the last `pre` -/
theorem setCodeText_post {parent sib code : Node} (hok : treeOk L parent = true) (hl : parent.last? = some sib)
    (hc : preCode sib = some code) {y : Str} (hy : escClosed false y = true) :
    Post L parent (setCodeText parent sib code (fmtOpt code.text ++ y)) (escLetters L false y) := by
  obtain ⟨hpre, hcode, rest, hch⟩ := preCode_spec hc
  have hn := nodeOk_of_last hok hl
  have hn' := hn
  rw [nodeOk_eq, Bool.and_eq_true] at hn'
  obtain ⟨hloc, hkids⟩ := hn'
  simp only [localOk, preOk, hpre, hch, hcode, not_safe_of_pre hpre, Bool.not_true, Bool.false_or,
    Bool.and_eq_true, List.isEmpty_iff] at hloc
  obtain ⟨⟨htail, ⟨⟨⟨⟨htext, hclosed⟩, hck⟩, hct0⟩, hrest0⟩⟩, _⟩ := hloc
  have hct : optLetters L code.tail = [] := optLetters_falsy (by simpa using hct0)
  subst hrest0
  have hrest : kidsLetters L ([] : List Node) = [] := rfl
  obtain ⟨t, ht⟩ := Option.isSome_iff_exists.mp htext
  rw [ht] at hclosed
  simp only [Option.getD_some] at hclosed
  rw [hch, kidsOk, Bool.and_eq_true] at hkids
  have hcn := hkids.1
  rw [nodeOk_eq, Bool.and_eq_true] at hcn
  have hctag := tag_code_of_isTag hcode
  have hpre' := isTag_iff.mp hpre
  have hkg : kidsGood code = true := by
    have := hcn.1; simp only [localOk, Bool.and_eq_true] at this; exact this.2
  obtain ⟨e1, e2⟩ := esc_append (L := L) hclosed y
  simp only [setCodeText, ht, fmtOpt]
  refine Post.setLast hok hl ?_ rfl ?_
  · rw [nodeOk_eq]
    simp only [localOk, preOk, kidsGood, tailSafe, isListTag, isItemTag, Node.isTag, hch, List.drop_succ_cons,
      List.drop_zero, kidsOk, nodeOk]
    simp only [Node.isTag] at hpre hcode
    simp only [localOk, kidsGood, tailSafe, isListTag, isItemTag, Node.isTag] at hcn
    simp [htail, e2, hy, hck, hct, hcn.2]
    have hct1 : Node.truthy code.tail = false := by simpa using hct0
    refine ⟨⟨Or.inr (Or.inr hct1), Or.inl hpre'⟩, Or.inl (by rw [hctag]; decide), ?_⟩
    simpa [kidsGood, Node.isTag] using hkg
  · rw [docLetters_eq, docLetters_eq sib]
    simp only [hch, List.drop_succ_cons, List.drop_zero, kidsLetters]
    rw [docLetters_eq, docLetters_eq code]
    simp only [hctag, textLetters, ht, if_true, Option.getD_some, e1, hck, hct, htail]
    simp


theorem lastSafe_setLast (p : Node) {c c' : Node} (hl : p.last? = some c) (ht : c'.tag = c.tag) :
    lastSafe (p.setLast c') = lastSafe p := by
  simp only [lastSafe, last_setLast, hl, tailSafe_congr ht]

theorem lastSafe_setCodeText {parent sib : Node} (hl : parent.last? = some sib) (code : Node) (t : Str) :
    lastSafe (setCodeText parent sib code t) = lastSafe parent := by
  simp only [setCodeText]
  apply lastSafe_setLast parent hl
  rfl

theorem lastSafe_append (p c : Node) : lastSafe (p.append c) = tailSafe c := by
  simp only [lastSafe, last_append]

theorem Step.of_post {tab : Nat} {state : List BState} {parent parent' : Node} {b x : Str} {rest blocks' : List Str}
    (hpost : Post L parent parent' x) (hq : x ++ queueLetters L blocks' = letters L b ++ queueLetters L rest)
    (hpl : ∀ y ∈ blocks', plain y = true) (hli : listInv tab state parent' blocks' = true) :
    Step L tab state parent b rest parent' blocks' :=
  ⟨by rw [hpost.doc, List.append_assoc, hq, List.append_assoc], inv_iff.mpr ⟨hpost.ok, hpl, hli⟩, hpost.tag, hpost.tail⟩

/-- the pending blocks after a turn, in state `list`: nothing, or one block behind a `tailSafe` last child -/
theorem listInv_requeue {tab : Nat} {state : List BState} {parent parent' : Node} {b : Str} {rest blocks' : List Str}
    (hli : listInv tab state parent (b :: rest) = true) (htag : parent'.tag = parent.tag)
    (hb : blocks' = rest ∨ ∃ x, blocks' = x :: rest ∧ (isstate state .list = true → lastSafe parent' = true)) :
    listInv tab state parent' blocks' = true := by
  cases hs : isstate state .list with
  | false => exact listInv_of_not_list hs _ _
  | true =>
    obtain ⟨hr, hitem, _⟩ := listInv_cons hli hs
    subst hr
    have hitem' : isItemTag parent' = true := by rw [isItemTag_congr htag]; exact hitem
    rcases hb with hb | ⟨x, hb, hsafe⟩
    · subst hb; exact listInv_nil (fun _ => hitem')
    · subst hb; exact listInv_one (fun hs' => ⟨hitem', hsafe hs'⟩)

theorem listInv_requeue' {tab : Nat} {state : List BState} {parent parent' : Node} {b x : Str} {rest : List Str}
    (hli : listInv tab state parent (b :: rest) = true) (htag : parent'.tag = parent.tag)
    (hb : isstate state .list = true → startsWith x (spaces tab) = true ∨ lastSafe parent' = true) :
    listInv tab state parent' (x :: rest) = true := by
  cases hs : isstate state .list with
  | false => exact listInv_of_not_list hs _ _
  | true =>
    obtain ⟨hr, hitem, _⟩ := listInv_cons hli hs
    subst hr
    have hitem' : isItemTag parent' = true := by rw [isItemTag_congr htag]; exact hitem
    simp only [listInv, hs, hitem', Bool.not_true, Bool.false_or, Bool.true_and, Bool.or_eq_true]
    exact hb hs

theorem not_startsWith_spaces_of_empty {tab : Nat} (htab : 0 < tab) {b : Str}
    (hb : (b.isEmpty || startsWith b ['\n']) = true) : startsWith b (spaces tab) = false := by
  obtain ⟨k, rfl⟩ : ∃ k, tab = k + 1 := ⟨tab - 1, by omega⟩
  cases b with
  | nil => simp [spaces, List.replicate_succ, startsWith]
  | cons c r =>
    simp only [List.isEmpty_cons, Bool.false_or, startsWith, Bool.and_true, decide_eq_true_eq] at hb
    subst hb
    simp [spaces, List.replicate_succ, startsWith]

theorem emptyP_step (h : LetterClass L) {tab : Nat} {state : List BState} {refs refs' : Refs}
    {parent parent' : Node} {b : Str} {rest blocks' : List Str} (hinv : inv L tab state parent (b :: rest) = true)
    (hb : (b.isEmpty || startsWith b ['\n']) = true)
    (hr : emptyP refs parent b rest = (parent', refs', blocks')) : Step L tab state parent b rest parent' blocks' := by
  obtain ⟨hok, hpl, hli⟩ := inv_iff.mp hinv
  have hlb : letters L (b.drop 1) = letters L b := by
    cases b with
    | nil => rfl
    | cons c r =>
      simp only [List.isEmpty_cons, Bool.false_or, startsWith, Bool.and_true, decide_eq_true_eq] at hb
      subst hb
      simp [letters_cons_of_not h.nl]
  have hpb : plain (b.drop 1) = true := plain_drop (hpl b (by simp)) 1
  -- the queue
  have hq : ∀ (p' : Node), Post L parent p' [] → (isstate state .list = true → tab = 0 ∨ lastSafe p' = true) →
      Step L tab state parent b rest p' (if (b.drop 1).isEmpty then rest else b.drop 1 :: rest) := by
    intro p' hp' hsafe
    split
    · rename_i he
      refine Step.of_post hp' ?_ (fun y hy => hpl y (List.mem_cons_of_mem _ hy))
        (listInv_requeue hli hp'.tag (Or.inl rfl))
      rw [← hlb, List.isEmpty_iff.mp he]; rfl
    · refine Step.of_post hp' ?_ ?_ (listInv_requeue' hli hp'.tag (fun hs => ?_))
      rotate_left 2
      · rcases hsafe hs with h0 | h1
        · left; subst h0; simp [spaces, startsWith]
        · right; exact h1
      · rw [← hlb]; rfl
      · intro y hy
        simp only [List.mem_cons] at hy
        rcases hy with hy | hy
        · rw [hy]; exact hpb
        · exact hpl y (List.mem_cons_of_mem _ hy)
  have hsafe0 : isstate state .list = true → tab = 0 ∨ lastSafe parent = true := by
    intro hs
    rcases Nat.eq_zero_or_pos tab with h0 | htab
    · exact Or.inl h0
    · right
      have hns := not_startsWith_spaces_of_empty htab hb
      obtain ⟨_, _, h3⟩ := listInv_cons hli hs
      rcases h3 with h3 | h3
      · rw [hns] at h3; cases h3
      · exact h3
  simp only [emptyP] at hr
  split at hr
  · rename_i sib hl
    split at hr
    · rename_i code hc
      cases hr
      have hy : escClosed false (if b.isEmpty = true then ['\n', '\n'] else ['\n']) = true := by
        split <;> rfl
      have hp' := setCodeText_post (L := L) hok hl hc hy
      have e : escLetters L false (if b.isEmpty = true then ['\n', '\n'] else ['\n']) = [] := by
        split <;> simp [escLetters, h.nl]
      rw [e] at hp'
      refine hq _ hp' ?_
      intro hs
      rw [lastSafe_setCodeText hl]
      exact hsafe0 hs
    · cases hr; exact hq _ (Post.refl hok) hsafe0
  · cases hr; exact hq _ (Post.refl hok) hsafe0

/-- the element `CodeBlockProcessor` creates -/
def freshPre (t : Str) : Node :=
  { Node.el "pre" with children := [{ Node.el "code" with text := some t, textAtomic := true }] }

theorem freshPre_ok {t : Str} (hc : escClosed false t = true) : nodeOk L (freshPre t) = true := by
  simp [freshPre, nodeOk, localOk, preOk, kidsGood, tailSafe, isListTag, isItemTag, Node.isTag, Node.el, kidsOk,
    kidsLetters, optLetters, hc, Node.truthy]

theorem freshPre_doc (t : Str) :
    docLetters L (freshPre t) ++ optLetters L (freshPre t).tail = escLetters L false t := by
  simp [freshPre, docLetters, kidsLetters, textLetters, optLetters, Node.el]

theorem codeP_step (h : LetterClass L) {tab : Nat} {state : List BState} {refs refs' : Refs}
    {parent parent' : Node} {b : Str} {rest blocks' : List Str} (hinv : inv L tab state parent (b :: rest) = true)
    (hnl : isstate state .list = false)
    (hr : codeP tab refs parent b rest = (parent', refs', blocks')) : Step L tab state parent b rest parent' blocks' := by
  obtain ⟨hok, hpl, hli⟩ := inv_iff.mp hinv
  obtain ⟨hd1, hd2⟩ := detab_spec h tab b
  obtain ⟨hp1, hp2⟩ := hd2 (hpl b (by simp))
  simp only [codeP] at hr
  generalize detab tab b = d at hr hd1 hp1 hp2
  obtain ⟨block, theRest⟩ := d
  simp only at hr hd1 hp1 hp2
  have hesc := codeEscape_spec h (plain_rstripP (p := isSpace) hp1)
  rw [show rstripP isSpace block = rstrip block from rfl, letters_rstrip h] at hesc
  obtain ⟨he1, he2⟩ := hesc
  -- the queue
  have hq : ∀ (p' : Node), Post L parent p' (letters L block) →
      Step L tab state parent b rest p' (if theRest.isEmpty then rest else theRest :: rest) := by
    intro p' hp'
    split
    · rename_i he
      refine Step.of_post hp' ?_ (fun y hy => hpl y (List.mem_cons_of_mem _ hy)) (listInv_of_not_list hnl _ _)
      rw [← hd1, List.isEmpty_iff.mp he]; simp
    · refine Step.of_post hp' ?_ ?_ (listInv_of_not_list hnl _ _)
      · rw [← hd1]; simp
      · intro y hy
        simp only [List.mem_cons] at hy
        rcases hy with hy | hy
        · rw [hy]; exact hp2
        · exact hpl y (List.mem_cons_of_mem _ hy)
  have hfresh : Post L parent (parent.append (freshPre (codeEscape (rstrip block) ++ ['\n']))) (letters L block) := by
    obtain ⟨a1, a2⟩ := esc_append (L := L) he2 ['\n']
    have := Post.append (L := L) (p := parent) (c := freshPre (codeEscape (rstrip block) ++ ['\n']))
      hok (freshPre_ok (by rw [a2]; rfl)) (by simp [freshPre, Node.isTag, Node.el])
    rw [freshPre_doc, a1, he1] at this
    simpa [escLetters, h.nl] using this
  change (match parent.last? with
    | some sib =>
      match preCode sib with
      | some code => _
      | none => (parent.append (freshPre (codeEscape (rstrip block) ++ ['\n'])), _, _)
    | none => (parent.append (freshPre (codeEscape (rstrip block) ++ ['\n'])), _, _)) = _ at hr
  simp only [List.append_assoc, List.cons_append] at hr
  split at hr
  · rename_i sib hl
    split at hr
    · rename_i code hc
      cases hr
      have hy : escClosed false ('\n' :: (codeEscape (rstrip block) ++ ['\n'])) = true := by
        obtain ⟨_, a2⟩ := esc_append (L := L) he2 ['\n']
        simp only [escClosed]
        simp [a2, escClosed]
      have hp' := setCodeText_post (L := L) hok hl hc hy
      have e : escLetters L false ('\n' :: (codeEscape (rstrip block) ++ ['\n'])) = letters L block := by
        obtain ⟨a1, _⟩ := esc_append (L := L) he2 ['\n']
        simp only [escLetters]
        simp [a1, he1, escLetters, h.nl]
      rw [e] at hp'
      exact hq _ hp'
    · cases hr; exact hq _ hfresh
  · cases hr; exact hq _ hfresh


/-! ### headers, rules, paragraphs -/

/-- a new element without children and tail, `tailSafe` -/
theorem leaf_ok {n : Node} (hs : tailSafe n = true) (hk : n.children = []) : nodeOk L n = true := by
  rw [nodeOk_eq, hk]
  have : n.isTag "pre" = false := by
    simp only [tailSafe, Bool.not_eq_true', Bool.or_eq_false_iff] at hs; exact hs.2
  simp [localOk, hs, preOk_of_not_pre this, kidsOk, kidsGood, hk]

theorem leaf_doc {n : Node} (hc : n.isTag "code" = false) (hk : n.children = []) (ht : n.tail = none) :
    docLetters L n ++ optLetters L n.tail = optLetters L n.text := by
  have : ¬ n.tag = Tag.name "code".toList := by
    intro e; rw [isTag_iff.mpr e] at hc; cases hc
  rw [docLetters_eq, hk, ht]
  simp [textLetters, kidsLetters, optLetters]
  exact fun e => absurd e this

theorem hNode_safe (lv : Nat) (t : Str) : tailSafe { hTag lv with text := some t } = true := by
  simp [tailSafe, isListTag, isItemTag, Node.isTag, hTag]

theorem hNode_code (lv : Nat) (t : Str) : Node.isTag { hTag lv with text := some t } "code" = false := by
  simp [Node.isTag, hTag]

theorem hNode_post {p : Node} (hok : treeOk L p = true) (lv : Nat) (t : Str) :
    Post L p (p.append { hTag lv with text := some t }) (letters L t) := by
  have := Post.append (L := L) hok (leaf_ok (n := { hTag lv with text := some t }) (hNode_safe lv t) rfl)
    (hNode_code lv t)
  rw [leaf_doc (hNode_code lv t) rfl rfl] at this
  exact this

theorem el_safe {tag : String} (h : tailSafe (Node.el tag) = true) (t : Str) : tailSafe (mkText tag t) = true := h

/-- the recursive call on the text before a match (`before`, `prelines`, the lines before a quote) -/
theorem pb_before {tab : Nat} {pb : PB} (hpb : Conserves L tab pb) {state : List BState} {refs refs1 : Refs}
    {parent p1 : Node} {b x : Str} {rest : List Str} (hinv : inv L tab state parent (b :: rest) = true)
    (hns : startsWith b (spaces tab) = false) (hx : plain x = true)
    (heq : pb state refs parent [x] = some (p1, refs1)) : Post L parent p1 (letters L x) := by
  obtain ⟨hok, hpl, hli⟩ := inv_iff.mp hinv
  have := hpb state refs parent [x] p1 refs1 (inv_iff.mpr ⟨hok, by simpa using hx, ?_⟩) heq
  · simpa using this
  · apply listInv_one
    intro hs
    obtain ⟨_, h2, h3⟩ := listInv_cons hli hs
    rcases h3 with h3 | h3
    · rw [hns] at h3; cases h3
    · exact ⟨h2, h3⟩

theorem hashP_step (h : LetterClass L) {tab : Nat} {pb : PB} (hpb : Conserves L tab pb) {state : List BState}
    {refs refs' : Refs} {parent parent' : Node} {b : Str} {rest blocks' : List Str} {m : Nat × Nat × Nat × Str}
    (hinv : inv L tab state parent (b :: rest) = true) (hns : startsWith b (spaces tab) = false)
    (hm : hashSearch b = some m)
    (hr : hashP tab pb state refs parent b rest m = some (parent', refs', blocks')) :
    Step L tab state parent b rest parent' blocks' := by
  obtain ⟨hok, hpl, hli⟩ := inv_iff.mp hinv
  obtain ⟨st, en, lv, header⟩ := m
  have hlet := hashSearch_letters h hm
  have hpb' := hpl b (by simp)
  simp only [hashP] at hr
  split at hr
  · cases hr
  · rename_i p1 refs1 heq
    cases hr
    have hp1 : Post L parent p1 (letters L (b.take st)) := by
      split at heq
      · rename_i he
        cases heq
        rw [List.isEmpty_iff.mp he]
        exact Post.refl hok
      · exact pb_before hpb hinv hns (plain_take hpb' st) heq
    have hp2 := hp1.trans (hNode_post hp1.ok lv (strip header))
    rw [letters_strip h] at hp2
    have hsafe : lastSafe (p1.append { hTag lv with text := some (strip header) }) = true := by
      rw [lastSafe_append]; exact hNode_safe _ _
    split
    · rename_i he
      refine Step.of_post hp2 ?_ (fun y hy => hpl y (List.mem_cons_of_mem _ hy))
        (listInv_requeue hli hp2.tag (Or.inl rfl))
      rw [← hlet, List.isEmpty_iff.mp he]; simp
    · refine Step.of_post hp2 ?_ ?_ (listInv_requeue hli hp2.tag (Or.inr ⟨_, rfl, fun _ => hsafe⟩))
      · rw [← hlet]
        split
        · simp [(looseDetab_spec h tab (b.drop en) 1).1]
        · simp
      · intro y hy
        simp only [List.mem_cons] at hy
        rcases hy with hy | hy
        · rw [hy]
          split
          · exact (looseDetab_spec h tab (b.drop en) 1).2 (plain_drop hpb' en)
          · exact plain_drop hpb' en
        · exact hpl y (List.mem_cons_of_mem _ hy)

theorem setextP_step (h : LetterClass L) {tab : Nat} {state : List BState}
    {refs refs' : Refs} {parent parent' : Node} {b : Str} {rest blocks' : List Str}
    (hinv : inv L tab state parent (b :: rest) = true) (hm : setextMatch b = true)
    (hr : setextP refs parent b rest = (parent', refs', blocks')) :
    Step L tab state parent b rest parent' blocks' := by
  obtain ⟨hok, hpl, hli⟩ := inv_iff.mp hinv
  obtain ⟨l0, l1, t, hlines, hl1⟩ := setext_lines h hm
  have hlet := queueLetters_lines h b
  have hpb' := hpl b (by simp)
  have hplines := plain_lines hpb'
  rw [hlines] at hlet hplines
  simp only [setextP, hlines] at hr
  cases hr
  simp only [List.getD_cons_zero, List.getD_cons_succ]
  generalize (if startsWith l1 ['='] = true then 1 else 2) = lv
  have hp2 := hNode_post (L := L) hok lv (strip l0)
  rw [letters_strip h] at hp2
  have hsafe : ∀ lv s, lastSafe (parent.append { hTag lv with text := some s }) = true := by
    intro lv s; rw [lastSafe_append]; exact hNode_safe _ _
  simp only [queueLetters_cons, hl1, List.nil_append] at hlet
  split
  · refine Step.of_post hp2 ?_ ?_ (listInv_requeue hli hp2.tag (Or.inr ⟨_, rfl, fun _ => hsafe _ _⟩))
    · rw [← hlet]; simp [letters_joinLines h]
    · intro y hy
      simp only [List.mem_cons] at hy
      rcases hy with hy | hy
      · rw [hy]
        apply plain_joinLines
        intro l hl
        exact hplines l (by simp at hl ⊢; right; right; exact hl)
      · exact hpl y (List.mem_cons_of_mem _ hy)
  · rename_i hlen
    have : t = [] := by
      cases t with
      | nil => rfl
      | cons x t => simp at hlen
    subst this
    refine Step.of_post hp2 ?_ (fun y hy => hpl y (List.mem_cons_of_mem _ hy))
      (listInv_requeue hli hp2.tag (Or.inl rfl))
    rw [← hlet]; simp

theorem hr_safe : tailSafe (Node.el "hr") = true := by decide

theorem hrP_step (h : LetterClass L) {tab : Nat} {pb : PB} (hpb : Conserves L tab pb) {state : List BState}
    {refs refs' : Refs} {parent parent' : Node} {b : Str} {rest blocks' : List Str} {m : Nat × Nat}
    (hinv : inv L tab state parent (b :: rest) = true) (hns : startsWith b (spaces tab) = false)
    (hm : hrSearch b = some m)
    (hr : hrP pb state refs parent b rest m = some (parent', refs', blocks')) :
    Step L tab state parent b rest parent' blocks' := by
  obtain ⟨hok, hpl, hli⟩ := inv_iff.mp hinv
  obtain ⟨st, en⟩ := m
  have hlet := hrSearch_letters h hm
  have hpb' := hpl b (by simp)
  simp only [hrP] at hr
  split at hr
  · cases hr
  · rename_i p1 refs1 heq
    cases hr
    have hp1 : Post L parent p1 (letters L (b.take st)) := by
      rw [← letters_rstripNl h]
      split at heq
      · rename_i he
        cases heq
        rw [List.isEmpty_iff.mp he]
        exact Post.refl hok
      · exact pb_before hpb hinv hns (plain_rstripP (plain_take hpb' st)) heq
    have hp2 := hp1.trans (Post.append (L := L) (c := Node.el "hr") hp1.ok (leaf_ok hr_safe rfl) (by decide))
    rw [leaf_doc (by decide) rfl rfl] at hp2
    have hsafe : lastSafe (p1.append (Node.el "hr")) = true := by rw [lastSafe_append]; exact hr_safe
    split
    · rename_i he
      refine Step.of_post hp2 ?_ (fun y hy => hpl y (List.mem_cons_of_mem _ hy))
        (listInv_requeue hli hp2.tag (Or.inl rfl))
      rw [← hlet, ← letters_lstripNl h (b.drop en), List.isEmpty_iff.mp he]; simp [optLetters, Node.el]
    · refine Step.of_post hp2 ?_ ?_ (listInv_requeue hli hp2.tag (Or.inr ⟨_, rfl, fun _ => hsafe⟩))
      · rw [← hlet]; simp [optLetters, Node.el, letters_lstripNl h]
      · intro y hy
        simp only [List.mem_cons] at hy
        rcases hy with hy | hy
        · rw [hy]; exact plain_lstripP (plain_drop hpb' en)
        · exact hpl y (List.mem_cons_of_mem _ hy)


theorem setTail_doc (c : Node) (t : Option Str) (a : Bool) :
    docLetters L { c with tail := t, tailAtomic := a } = docLetters L c := by
  cases c; simp only [docLetters]

theorem setTail_ok {c : Node} (hn : nodeOk L c = true) (hs : tailSafe c = true) (t : Option Str) (a : Bool) :
    nodeOk L { c with tail := t, tailAtomic := a } = true := by
  rw [nodeOk_eq, Bool.and_eq_true] at hn ⊢
  refine ⟨?_, hn.2⟩
  have h1 : tailSafe { c with tail := t, tailAtomic := a } = true := hs
  have h2 : preOk L { c with tail := t, tailAtomic := a } = preOk L c := rfl
  have h3 : kidsGood { c with tail := t, tailAtomic := a } = kidsGood c := rfl
  have := hn.1
  simp only [localOk, Bool.and_eq_true] at this ⊢
  refine ⟨⟨?_, ?_⟩, ?_⟩
  · rw [h1]; rfl
  · rw [h2]; exact this.1.2
  · rw [h3]; exact this.2

theorem p_safe : tailSafe (Node.el "p") = true := by decide

theorem pNode_post {p : Node} (hok : treeOk L p = true) (t : Str) :
    Post L p (p.append (mkText "p" t)) (letters L t) := by
  have := Post.append (L := L) hok (leaf_ok (n := mkText "p" t) p_safe rfl)
    (by simp [mkText, Node.isTag, Node.el])
  rw [leaf_doc (by simp [mkText, Node.isTag, Node.el]) rfl rfl] at this
  exact this

theorem paraP_step (h : LetterClass L) {tab : Nat} {state : List BState}
    {refs refs' : Refs} {parent parent' : Node} {b : Str} {rest blocks' : List Str}
    (hinv : inv L tab state parent (b :: rest) = true) (hns : startsWith b (spaces tab) = false)
    (hr : paraP state refs parent b rest = (parent', refs', blocks')) :
    Step L tab state parent b rest parent' blocks' := by
  obtain ⟨hok, hpl, hli⟩ := inv_iff.mp hinv
  have hplr : ∀ y ∈ rest, plain y = true := fun y hy => hpl y (List.mem_cons_of_mem _ hy)
  simp only [paraP] at hr
  split at hr
  · rename_i hbl
    cases hr
    refine Step.of_post (Post.refl hok) ?_ hplr (listInv_requeue hli rfl (Or.inl rfl))
    rw [h.letters_blank hbl]
  · split at hr
    · rename_i hs
      obtain ⟨hr0, hitem, h3⟩ := listInv_cons hli hs
      have hsafe : lastSafe parent = true := by
        rcases h3 with h3 | h3
        · rw [hns] at h3; cases h3
        · exact h3
      split at hr
      · rename_i sib hl
        cases hr
        have hss : tailSafe sib = true := by simpa [lastSafe, hl] using hsafe
        have hn := nodeOk_of_last hok hl
        refine Step.of_post (x := letters L b) ?_ (by simp) hplr (listInv_requeue hli rfl (Or.inl rfl))
        refine Post.setLast hok hl (setTail_ok hn hss _ _) rfl ?_
        rw [setTail_doc]
        simp only [List.append_assoc, List.append_cancel_left_eq]
        split
        · rename_i ht
          have e := letters_fmtOpt (L := L) ht
          simp only [optLetters] at e
          simp [optLetters, e, letters_cons_of_not h.nl]
        · rename_i ht
          simp only [Bool.not_eq_true] at ht
          have e := optLetters_falsy (L := L) ht
          simp only [optLetters] at e
          simp [e, optLetters, letters_cons_of_not h.nl]
      · rename_i hl
        cases hr
        have hk := children_of_last_none hl
        have htag : ¬ parent.tag = Tag.name "code".toList := by
          simp only [isItemTag, isTag_iff] at hitem
          rw [hitem]; decide
        refine Step.of_post (x := letters L b) ?_ (by simp) hplr (listInv_requeue hli rfl (Or.inl rfl))
        refine ⟨?_, hok, rfl, rfl⟩
        rw [docLetters_eq, docLetters_eq parent]
        simp only [hk, kidsLetters, List.append_nil, textLetters, htag, if_false]
        split
        · rename_i ht
          have e := letters_fmtOpt (L := L) ht
          simp only [optLetters] at e
          simp [optLetters, e, letters_cons_of_not h.nl]
        · rename_i ht
          simp only [Bool.not_eq_true] at ht
          have e := optLetters_falsy (L := L) ht
          simp only [optLetters] at e
          simp [e, optLetters, letters_lstrip h]
    · cases hr
      have hp := pNode_post (L := L) hok (lstrip b)
      rw [letters_lstrip h] at hp
      exact Step.of_post hp (by simp) hplr (listInv_requeue hli hp.tag (Or.inl rfl))


/-! ### quotes -/

theorem el_nodeOk (tag : String) : nodeOk L (Node.el tag) = true := by
  simp [Node.el, nodeOk, localOk, preOk, kidsGood, kidsOk, optLetters]

theorem el_treeOk (tag : String) : treeOk L (Node.el tag) = true := by
  simp [Node.el, treeOk, kidsGood, kidsOk]

theorem el_doc (tag : String) : docLetters L (Node.el tag) = [] := by
  simp [Node.el, docLetters, textLetters, kidsLetters, optLetters, escLetters]

theorem isstate_snoc (state : List BState) (a b : BState) : isstate (state ++ [a]) b = (a == b) := by
  simp [isstate]

/-- a call on a fresh element `Node.el tag`: the result can be appended -/
theorem Post.of_el {tag : String} {p' : Node} {x : Str} (h : Post L (Node.el tag) p' x)
    (hpre : (Node.el tag).isTag "pre" = false) :
    nodeOk L p' = true ∧ docLetters L p' ++ optLetters L p'.tail = x := by
  refine ⟨h.node_ok (el_nodeOk tag) hpre, ?_⟩
  rw [h.doc, h.tail, el_doc]; simp [Node.el, optLetters]

theorem parseChunk_post {tab : Nat} {pb : PB} (h : LetterClass L) (hpb : Conserves L tab pb) {state : List BState}
    (hs : isstate state .list = false) {refs refs' : Refs} {p p' : Node} {text : Str} (hok : treeOk L p = true)
    (hp : plain text = true) (hr : parseChunk pb state refs p text = some (p', refs')) :
    Post L p p' (letters L text) := by
  obtain ⟨h1, h2⟩ := splitChunk_spec h text
  have := hpb state refs p _ p' refs' (inv_iff.mpr ⟨hok, by simpa [List.all_eq_true] using h2 hp,
    listInv_of_not_list hs _ _⟩) hr
  rwa [h1] at this

theorem quoteP_step (h : LetterClass L) {tab : Nat} {pb : PB} (hpb : Conserves L tab pb) {state : List BState}
    {refs refs' : Refs} {parent parent' : Node} {b : Str} {rest blocks' : List Str} {q : Nat}
    (hinv : inv L tab state parent (b :: rest) = true) (hns : startsWith b (spaces tab) = false)
    (hr : quoteP pb state refs parent b rest q = some (parent', refs', blocks')) :
    Step L tab state parent b rest parent' blocks' := by
  obtain ⟨hok, hpl, hli⟩ := inv_iff.mp hinv
  have hpb' := hpl b (by simp)
  have hplr : ∀ y ∈ rest, plain y = true := fun y hy => hpl y (List.mem_cons_of_mem _ hy)
  obtain ⟨hq1, hq2⟩ := quoteBlock_spec h (b.drop q)
  have hst : isstate (state ++ [.blockquote]) .list = false := by rw [isstate_snoc]; rfl
  simp only [quoteP] at hr
  split at hr
  · cases hr
  · rename_i p1 refs1 heq
    have hp1 := pb_before hpb hinv hns (plain_take hpb' q) heq
    have fin : ∀ p2, Post L p1 p2 (letters L (b.drop q)) → Step L tab state parent b rest p2 rest := by
      intro p2 hp2
      have hp := hp1.trans hp2
      exact Step.of_post hp (by rw [letters_take_drop]) hplr (listInv_requeue hli hp.tag (Or.inl rfl))
    split at hr
    · rename_i sib hsib
      split at hr
      · rename_i quote refs2 hch
        cases hr
        have hl : p1.last? = some sib ∧ sib.isTag "blockquote" = true := by
          split at hsib
          · split at hsib
            · rename_i hb; cases hsib; exact ⟨by assumption, hb⟩
            · cases hsib
          · cases hsib
        have hn := nodeOk_of_last hp1.ok hl.1
        have hsk : treeOk L sib = true := by
          rw [nodeOk_eq, Bool.and_eq_true] at hn
          have := hn.1; simp only [localOk, Bool.and_eq_true] at this
          exact treeOk_iff.mpr ⟨hn.2, this.2⟩
        have hpq := parseChunk_post h hpb hst hsk (hq2 (plain_drop hpb' q)) hch
        rw [hq1] at hpq
        exact fin _ (Post.setLast_post hp1.ok hl.1 (not_safe_of_quote hl.2) (not_pre_of_quote hl.2) hpq)
      · cases hr
    · split at hr
      · rename_i quote refs2 hch
        cases hr
        have hpq := parseChunk_post h hpb hst (el_treeOk "blockquote") (hq2 (plain_drop hpb' q)) hch
        rw [hq1] at hpq
        obtain ⟨hn, hd⟩ := hpq.of_el (by decide)
        have := Post.append (L := L) hp1.ok hn (by rw [isTag_congr hpq.tag]; decide)
        rw [hd] at this
        exact fin _ this
      · cases hr


/-! ### lists -/

theorem treeOk_of_nodeOk {c : Node} (hn : nodeOk L c = true) : treeOk L c = true := by
  rw [nodeOk_eq, Bool.and_eq_true] at hn
  have := hn.1; simp only [localOk, Bool.and_eq_true] at this
  exact treeOk_iff.mpr ⟨hn.2, this.2⟩

theorem li_item : isItemTag (Node.el "li") = true := by decide

/-- the condition under which the loop over the items is entered: an indented item finds an `li` to go into -/
def ItemsReady (tab : Nat) (lst : Node) (items : List Str) : Prop :=
  match items with
  | [] => True
  | item :: _ => startsWith item (spaces tab) = false ∨ ∃ l, lst.last? = some l ∧ isItemTag l = true

theorem listItems_post (_h : LetterClass L) {tab : Nat} {pb : PB} (hpb : Conserves L tab pb) {st2 : List BState}
    (hst2 : isstate st2 .list = true) (items : List Str) : ∀ {refs refs' : Refs} {lst lst' : Node},
    treeOk L lst = true → (∀ x ∈ items, plain x = true) → ItemsReady tab lst items →
    listItems tab pb st2 refs lst items = some (lst', refs') → Post L lst lst' (queueLetters L items) := by
  induction items with
  | nil =>
    intro refs refs' lst lst' hok _ _ hr
    simp only [listItems] at hr
    cases hr
    exact Post.refl hok
  | cons item items ih =>
    intro refs refs' lst lst' hok hpl hready hr
    have hpi := hpl item (by simp)
    have hpl' : ∀ x ∈ items, plain x = true := fun x hx => hpl x (List.mem_cons_of_mem _ hx)
    have ready' : ∀ (lst1 l : Node), lst1.last? = some l → isItemTag l = true → ItemsReady tab lst1 items := by
      intro lst1 l h1 h2
      cases items with
      | nil => trivial
      | cons i2 r => exact Or.inr ⟨l, h1, h2⟩
    simp only [listItems] at hr
    split at hr
    · rename_i hind
      simp only [ItemsReady] at hready
      rcases hready with hready | ⟨l, hl, hitem⟩
      · rw [hind] at hready; cases hready
      · rw [hl] at hr
        simp only at hr
        split at hr
        · rename_i li refs1 hcall
          have hn := nodeOk_of_last hok hl
          have hpli : Post L l li (letters L item) := by
            have := hpb st2 refs l [item] li refs1 (inv_iff.mpr ⟨treeOk_of_nodeOk hn, by simpa using hpi, ?_⟩) hcall
            · simpa using this
            · simp [listInv, hst2, hitem, hind]
          have hp1 := Post.setLast_post hok hl (not_safe_of_item hitem) (not_pre_of_item hitem) hpli
          have hp2 := ih hp1.ok hpl' (ready' _ li (last_setLast _ _) (by rw [isItemTag_congr hpli.tag]; exact hitem)) hr
          exact hp1.trans hp2
        · cases hr
    · rename_i hind
      split at hr
      · rename_i li refs1 hcall
        have hpli : Post L (Node.el "li") li (letters L item) := by
          have := hpb st2 refs (Node.el "li") [item] li refs1
            (inv_iff.mpr ⟨el_treeOk "li", by simpa using hpi, ?_⟩) hcall
          · simpa using this
          · have e : lastSafe (Node.el "li") = true := rfl
            simp [listInv, hst2, li_item, e]
        obtain ⟨hn, hd⟩ := hpli.of_el (by decide)
        have hp1 := Post.append (L := L) hok hn (by rw [isTag_congr hpli.tag]; decide)
        rw [hd] at hp1
        have hp2 := ih hp1.ok hpl' (ready' _ li (last_append _ _) (by rw [isItemTag_congr hpli.tag]; decide)) hr
        exact hp1.trans hp2
      · cases hr


/-- what `parent.setLast` needs of the new last child -/
structure Same (L : Char → Bool) (c c' : Node) : Prop where
  ok : nodeOk L c' = true
  doc : docLetters L c' = docLetters L c
  tag : c'.tag = c.tag
  tail : c'.tail = c.tail

theorem Same.refl {c : Node} (hn : nodeOk L c = true) : Same L c c := ⟨hn, rfl, rfl, rfl⟩
theorem Same.trans {a b c : Node} (h1 : Same L a b) (h2 : Same L b c) : Same L a c :=
  ⟨h2.ok, h2.doc.trans h1.doc, h2.tag.trans h1.tag, h2.tail.trans h1.tail⟩

/-- `if li.text: …`: the text of an item moves into a first child `p` — same place in the document order -/
theorem textToP_same {li : Node} (hn : nodeOk L li = true) (hnc : li.isTag "code" = false) :
    Same L li (textToP li) := by
  simp only [textToP]
  split
  · rename_i ht
    have hn' := hn
    rw [nodeOk_eq, Bool.and_eq_true] at hn'
    obtain ⟨hloc, hk⟩ := hn'
    simp only [localOk, Bool.and_eq_true] at hloc
    obtain ⟨⟨h1, h2⟩, h3⟩ := hloc
    have htag : ¬ li.tag = Tag.name "code".toList := by
      intro e; rw [isTag_iff.mpr e] at hnc; cases hnc
    refine ⟨?_, ?_, rfl, rfl⟩
    · rw [nodeOk_eq]
      simp only [localOk, Bool.and_eq_true, kidsOk]
      refine ⟨⟨⟨h1, ?_⟩, ?_⟩, ?_, hk⟩
      · simp [preOk, Node.isTag, Node.el]
      · simp only [kidsGood, Bool.or_eq_true, List.all_eq_true, Bool.not_eq_true'] at h3 ⊢
        rcases h3 with h3 | h3
        · left; exact h3
        · right
          intro k hk'
          simp only [List.mem_cons] at hk'
          rcases hk' with hk' | hk'
          · rw [hk']; simp [Node.isTag, Node.el]
          · exact h3 k hk'
      · exact leaf_ok (show tailSafe _ = true from rfl) rfl
    · rw [docLetters_eq, docLetters_eq li]
      simp only [kidsLetters, textLetters, htag, if_false]
      rw [docLetters_eq]
      simp [textLetters, Node.el, kidsLetters, optLetters]
  · exact Same.refl hn

theorem setTailEmpty_ok {c : Node} (hn : nodeOk L c = true) :
    nodeOk L { c with tail := some [], tailAtomic := false } = true := by
  rw [nodeOk_eq, Bool.and_eq_true] at hn ⊢
  refine ⟨?_, hn.2⟩
  have h2 : preOk L { c with tail := some [], tailAtomic := false } = preOk L c := rfl
  have h3 : kidsGood { c with tail := some [], tailAtomic := false } = kidsGood c := rfl
  have := hn.1
  simp only [localOk, Bool.and_eq_true] at this ⊢
  refine ⟨⟨?_, ?_⟩, ?_⟩
  · simp [optLetters]
  · rw [h2]; exact this.1.2
  · rw [h3]; exact this.2

/-- `if sibling[-1][-1].tail: …`: the tail of the last child of an item moves into a new last child `p` -/
theorem tailToP_same {li : Node} (hn : nodeOk L li = true) (h : LetterClass L) :
    Same L li
      (match li.last? with
       | some lch =>
         if Node.truthy lch.tail then
           (li.setLast { lch with tail := some [], tailAtomic := false }).append (mkText "p" (lstrip (lch.tail.getD [])))
         else li
       | none => li) := by
  split
  · rename_i lch hl
    split
    · rename_i ht
      have hn' := hn
      rw [nodeOk_eq, Bool.and_eq_true] at hn'
      obtain ⟨hloc, hk⟩ := hn'
      simp only [localOk, Bool.and_eq_true] at hloc
      obtain ⟨⟨h1, h2⟩, h3⟩ := hloc
      have hch := children_of_last hl
      have hnl : nodeOk L lch = true := nodeOk_of_last (treeOk_of_nodeOk hn) hl
      have hpn : nodeOk L (mkText "p" (lstrip (lch.tail.getD []))) = true := leaf_ok p_safe rfl
      have hpc : (mkText "p" (lstrip (lch.tail.getD []))).isTag "code" = false := by
        simp [mkText, Node.isTag, Node.el]
      have hok1 : treeOk L (li.setLast { lch with tail := some [], tailAtomic := false }) = true :=
        treeOk_setLast (treeOk_of_nodeOk hn) hl (setTailEmpty_ok hnl) rfl
      have hok2 := treeOk_append hok1 hpn hpc
      obtain ⟨k2, g2⟩ := treeOk_iff.mp hok2
      refine ⟨?_, ?_, rfl, rfl⟩
      · rw [nodeOk_eq, Bool.and_eq_true]
        refine ⟨?_, k2⟩
        simp only [localOk, Bool.and_eq_true]
        refine ⟨⟨h1, ?_⟩, g2⟩
        -- `preOk`: a `pre` whose first child is a `code` has one child, with a falsy tail
        simp only [preOk, Bool.or_eq_true, Bool.not_eq_true'] at h2 ⊢
        rcases h2 with h2 | h2
        · left; exact h2
        · right
          simp only [append_children, setLast_children]
          cases hinit : li.children.dropLast with
          | nil =>
            rw [hinit, List.nil_append] at hch
            rw [hch] at h2
            simp only [List.nil_append, List.cons_append, Bool.or_eq_true, Bool.not_eq_true'] at h2 ⊢
            rcases h2 with h2 | h2
            · left; exact h2
            · simp only [Bool.and_eq_true, Bool.not_eq_true'] at h2
              rw [h2.1.2] at ht; cases ht
          | cons c0 init =>
            rw [hinit] at hch
            rw [hch] at h2
            simp only [List.cons_append, Bool.or_eq_true, Bool.not_eq_true'] at h2 ⊢
            rcases h2 with h2 | h2
            · left; exact h2
            · simp only [Bool.and_eq_true] at h2
              have := h2.2
              simp at this
      · rw [docLetters_eq, docLetters_eq li]
        simp only [append_tag, setLast_tag, append_text, setLast_text, append_children, setLast_children]
        conv => rhs; rw [hch]
        simp only [kidsLetters_append, kidsLetters_single, setTail_doc]
        rw [leaf_doc hpc rfl rfl]
        simp [optLetters, mkText, letters_lstrip h]
    · exact Same.refl hn
  · exact Same.refl hn


/-- "the previous block was a list: make sure its last item is in a `p`" -/
def prepList (lst : Node) : Node :=
  match lst.last? with
  | some li =>
    lst.setLast
      (match (textToP li).last? with
       | some lch =>
         if Node.truthy lch.tail then
           ((textToP li).setLast { lch with tail := some [], tailAtomic := false }).append
             (mkText "p" (lstrip (lch.tail.getD [])))
         else textToP li
       | none => textToP li)
  | none => lst

theorem prepList_post (h : LetterClass L) {lst : Node} (hn : nodeOk L lst = true) (hlist : isListTag lst = true) :
    Post L lst (prepList lst) [] := by
  have hok := treeOk_of_nodeOk (L := L) hn
  simp only [prepList]
  split
  · rename_i li hl
    have hnl := nodeOk_of_last hok hl
    have hnc : li.isTag "code" = false := by
      obtain ⟨_, hg⟩ := treeOk_iff.mp hok
      simp only [kidsGood, not_pre_of_list hlist, Bool.false_or, List.all_eq_true, Bool.not_eq_true'] at hg
      exact hg li (by rw [children_of_last hl]; simp)
    have s1 := textToP_same hnl hnc
    have s2 := s1.trans (tailToP_same s1.ok h)
    refine Post.setLast hok hl s2.ok s2.tag ?_
    rw [s2.doc, s2.tail]; simp
  · exact Post.refl hok

theorem not_indented_of_head {tab : Nat} (htab : 0 < tab) {x : Str} (hx : x.head? ≠ some ' ') :
    startsWith x (spaces tab) = false := by
  obtain ⟨k, rfl⟩ : ∃ k, tab = k + 1 := ⟨tab - 1, by omega⟩
  cases x with
  | nil => simp [spaces, List.replicate_succ, startsWith]
  | cons c r =>
    have : ¬ c = ' ' := by simpa using hx
    simp [spaces, List.replicate_succ, startsWith, this]

theorem listP_step (h : LetterClass L) {tab : Nat} {pb : PB} (hpb : Conserves L tab pb)
    {state : List BState} {refs refs' : Refs} {parent parent' : Node} {b : Str} {rest blocks' : List Str}
    {tag : String} (htag : tag = "ol" ∨ tag = "ul")
    (hinv : inv L tab state parent (b :: rest) = true) (hns : startsWith b (spaces tab) = false)
    (hm : (listItemMatch tab true false b).isSome = true ∨ (listItemMatch tab false true b).isSome = true)
    (hr : listP tab pb state refs parent b rest tag = some (parent', refs', blocks')) :
    Step L tab state parent b rest parent' blocks' := by
  obtain ⟨hok, hpl, hli⟩ := inv_iff.mp hinv
  have htab : 0 < tab := by
    rcases Nat.eq_zero_or_pos tab with h0 | h0
    · subst h0; simp [spaces, startsWith] at hns
    · exact h0
  have hpb' := hpl b (by simp)
  have hplr : ∀ y ∈ rest, plain y = true := fun y hy => hpl y (List.mem_cons_of_mem _ hy)
  have hm' := listItemMatch_both hm
  rw [listItemMatch_firstLine] at hm'
  obtain ⟨hq, ⟨x, t, hitems, hx⟩, hpi⟩ := getItems_spec h tab hpb' hm'
  have hnind := not_indented_of_head htab hx
  have hst2 : isstate (state ++ [.list]) .list = true := by rw [isstate_snoc]; rfl
  have hstl : isstate (state ++ [.looselist]) .list = false := by rw [isstate_snoc]; rfl
  have fin : ∀ p2, Post L parent p2 (letters L b) → Step L tab state parent b rest p2 rest := by
    intro p2 hp2
    exact Step.of_post hp2 rfl hplr (listInv_requeue hli hp2.tag (Or.inl rfl))
  simp only [listP] at hr
  split at hr
  · rename_i lst hsib
    have hl : parent.last? = some lst ∧ isListTag lst = true := by
      split at hsib
      · split at hsib
        · rename_i hb; cases hsib; exact ⟨by assumption, hb⟩
        · cases hsib
      · cases hsib
    have hn := nodeOk_of_last hok hl.1
    split at hr
    · cases hr
    · rename_i newli refs1 hcall
      split at hr
      · rename_i lst3 refs3 hli3
        cases hr
        change listItems tab pb _ refs1 ((prepList lst).append newli) _ = _ at hli3
        rw [hitems] at hcall hli3
        simp only [List.headD_cons, List.drop_succ_cons, List.drop_zero] at hcall hli3
        have p1 := prepList_post h hn hl.2
        have hpli : Post L (Node.el "li") newli (letters L x) := by
          have := hpb _ refs (Node.el "li") [x] newli refs1
            (inv_iff.mpr ⟨el_treeOk "li", by simpa using hpi x (by rw [hitems]; simp),
              listInv_of_not_list hstl _ _⟩) hcall
          simpa using this
        obtain ⟨hnn, hd⟩ := hpli.of_el (by decide)
        have p2 := Post.append (L := L) p1.ok hnn (by rw [isTag_congr hpli.tag]; decide)
        rw [hd] at p2
        have p3 := listItems_post h hpb hst2 t p2.ok (fun y hy => hpi y (by rw [hitems]; simp [hy])) (by
          cases t with
          | nil => trivial
          | cons i2 r => exact Or.inr ⟨newli, last_append _ _, by rw [isItemTag_congr hpli.tag]; decide⟩) hli3
        have p := (p1.trans p2).trans p3
        rw [List.nil_append, ← queueLetters_cons, ← hitems, hq] at p
        exact fin _ (Post.setLast_post hok hl.1 (not_safe_of_list hl.2) (not_pre_of_list hl.2) p)
      · cases hr
  · split at hr
    · split at hr
      · rename_i lst3 refs3 hli3
        cases hr
        have p := listItems_post h hpb hst2 _ hok hpi (by rw [hitems]; exact Or.inl hnind) hli3
        rw [hq] at p
        exact fin _ p
      · cases hr
    · split at hr
      · rename_i lst3 refs3 hli3
        cases hr
        have p := listItems_post h hpb hst2 _ (el_treeOk tag) hpi (by rw [hitems]; exact Or.inl hnind) hli3
        rw [hq] at p
        have hpre : (Node.el tag).isTag "pre" = false := by rcases htag with e | e <;> subst e <;> decide
        obtain ⟨hnn, hd⟩ := p.of_el hpre
        have p2 := Post.append (L := L) hok hnn (by
          rw [isTag_congr p.tag]; rcases htag with e | e <;> subst e <;> decide)
        rw [hd] at p2
        exact fin _ p2
      · cases hr


/-! ### `ListIndentProcessor` -/

/-- `steps` last-child links from `p`, each into a `ul`/`ol`/`li` -/
def PathOk : Nat → Node → Prop
  | 0, _ => True
  | k + 1, p => ∃ c, p.last? = some c ∧ (isListTag c || isItemTag c) = true ∧ PathOk k c

theorem getLevelNode_eq (il lv : Nat) (p : Node) : getLevelNode il lv p = getLevelKids il lv p.children := by
  cases p; simp only [getLevelNode]

theorem getLevelKids_succ {il : Nat} (kids : List Node) : ∀ {lv l s : Nat}, getLevelKids il lv kids = (l, s + 1) →
    ∃ c lv', kids.getLast? = some c ∧ (isListTag c || isItemTag c) = true ∧ getLevelNode il lv' c = (l, s) := by
  induction kids with
  | nil => intro lv l s hk; simp [getLevelKids] at hk
  | cons c r ih =>
    intro lv l s hk
    cases r with
    | nil =>
      simp only [getLevelKids] at hk
      split at hk
      · rename_i hc
        simp only [Bool.and_eq_true] at hc
        generalize hg : getLevelNode il (if isListTag c = true then lv + 1 else lv) c = g at hk
        obtain ⟨l', s'⟩ := g
        simp only [Prod.mk.injEq] at hk
        refine ⟨c, (if isListTag c = true then lv + 1 else lv), rfl, hc.2, ?_⟩
        rw [hg, hk.1]
        have : s' = s := by omega
        rw [this]
      · simp at hk
    | cons d r' =>
      simp only [getLevelKids] at hk
      obtain ⟨c', lv', h1, h2, h3⟩ := ih hk
      exact ⟨c', lv', by simpa using h1, h2, h3⟩

theorem getLevelNode_path {il : Nat} : ∀ (s : Nat) {p : Node} {lv l : Nat}, getLevelNode il lv p = (l, s) → PathOk s p := by
  intro s
  induction s with
  | zero => intro p lv l _; trivial
  | succ k ih =>
    intro p lv l hg
    rw [getLevelNode_eq] at hg
    obtain ⟨c, lv', h1, h2, h3⟩ := getLevelKids_succ _ hg
    exact ⟨c, h1, h2, ih h3⟩

theorem not_safe_of_path {c : Node} (h : (isListTag c || isItemTag c) = true) : tailSafe c = false := by
  simp only [Bool.or_eq_true] at h
  rcases h with h | h
  · exact not_safe_of_list h
  · exact not_safe_of_item h

theorem not_pre_of_path {c : Node} (h : (isListTag c || isItemTag c) = true) : c.isTag "pre" = false := by
  simp only [Bool.or_eq_true] at h
  rcases h with h | h
  · exact not_pre_of_list h
  · exact not_pre_of_item h

theorem nodeAt_treeOk : ∀ (s : Nat) {p : Node}, PathOk s p → treeOk L p = true → treeOk L (nodeAt s p) = true := by
  intro s
  induction s with
  | zero => intro p _ hok; exact hok
  | succ k ih =>
    intro p hp hok
    obtain ⟨c, hl, _, hpc⟩ := hp
    simp only [nodeAt, hl]
    exact ih hpc (treeOk_of_nodeOk (nodeOk_of_last hok hl))

/-- a change at the end of the node reached by `steps` last-child links is a change at the end of the tree -/
theorem updPath_post {f : Node → Node} {x : Str} : ∀ (s : Nat) {p : Node}, PathOk s p → treeOk L p = true →
    Post L (nodeAt s p) (f (nodeAt s p)) x → Post L p (updPath f s p) x := by
  intro s
  induction s with
  | zero => intro p _ _ hf; exact hf
  | succ k ih =>
    intro p hp hok hf
    obtain ⟨c, hl, htag, hpc⟩ := hp
    simp only [nodeAt, hl] at hf
    simp only [updPath, hl]
    exact Post.setLast_post hok hl (not_safe_of_path htag) (not_pre_of_path htag)
      (ih hpc (treeOk_of_nodeOk (nodeOk_of_last hok hl)) hf)

/-- the last child, not `tailSafe` and not a `pre`, rearranged in place and then extended -/
theorem Post.setLast_same_post {p c c1 c' : Node} {x : Str} (hok : treeOk L p = true) (hl : p.last? = some c)
    (hs : tailSafe c = false) (hpre : c.isTag "pre" = false) (s1 : Same L c c1) (h : Post L c1 c' x) :
    Post L p (p.setLast c') x := by
  have hn := nodeOk_of_last hok hl
  refine Post.setLast hok hl (h.node_ok s1.ok (by rw [isTag_congr s1.tag]; exact hpre)) (h.tag.trans s1.tag) ?_
  rw [h.doc, h.tail, s1.doc, s1.tail, tail_of_not_safe hn hs]; simp

theorem indentP_step (h : LetterClass L) {tab : Nat} {pb : PB} (hpb : Conserves L tab pb)
    {state : List BState} {refs refs' : Refs} {parent parent' : Node} {b : Str} {rest blocks' : List Str}
    (hinv : inv L tab state parent (b :: rest) = true)
    (hr : indentP tab pb state refs parent b rest = some (parent', refs', blocks')) :
    Step L tab state parent b rest parent' blocks' := by
  obtain ⟨hok, hpl, hli⟩ := inv_iff.mp hinv
  have hpb' := hpl b (by simp)
  have hplr : ∀ y ∈ rest, plain y = true := fun y hy => hpl y (List.mem_cons_of_mem _ hy)
  have hst : isstate (state ++ [.detabbed]) .list = false := by rw [isstate_snoc]; rfl
  have fin : ∀ p2, Post L parent p2 (letters L b) → Step L tab state parent b rest p2 rest := by
    intro p2 hp2
    exact Step.of_post hp2 rfl hplr (listInv_requeue hli hp2.tag (Or.inl rfl))
  simp only [indentP] at hr
  generalize hgl : getLevel tab state parent b = gl at hr
  obtain ⟨level, steps⟩ := gl
  simp only at hr
  have hpath : PathOk steps parent := by
    simp only [getLevel] at hgl
    exact getLevelNode_path steps hgl
  obtain ⟨hl1, hl2⟩ := looseDetab_spec h tab b level
  have hbp := hl2 hpb'
  -- a call on one block in state `detabbed`
  have call : ∀ {refs refs1 : Refs} {p p1 : Node}, treeOk L p = true →
      pb (state ++ [.detabbed]) refs p [looseDetab tab b level] = some (p1, refs1) → Post L p p1 (letters L b) := by
    intro refs refs1 p p1 hokp hc
    have := hpb _ refs p _ p1 refs1 (inv_iff.mpr ⟨hokp, by simpa using hbp, listInv_of_not_list hst _ _⟩) hc
    simpa [hl1] using this
  split at hr
  · -- the parent is an item
    rename_i hitem
    split at hr
    · rename_i c hc
      have hl : parent.last? = some c ∧ isListTag c = true := by
        split at hc
        · split at hc
          · rename_i hb; cases hc; exact ⟨by assumption, hb⟩
          · cases hc
        · cases hc
      split at hr
      · rename_i sub refs1 hcall
        cases hr
        have hn := nodeOk_of_last hok hl.1
        exact fin _ (Post.setLast_post hok hl.1 (not_safe_of_list hl.2) (not_pre_of_list hl.2)
          (call (treeOk_of_nodeOk hn) hcall))
      · cases hr
    · split at hr
      · rename_i p1 refs1 hcall
        cases hr
        exact fin _ (call hok hcall)
      · cases hr
  · have hoks := nodeAt_treeOk (L := L) steps hpath hok
    split at hr
    · -- the sibling is an item
      split at hr
      · rename_i sub refs1 hcall
        cases hr
        exact fin _ (updPath_post steps hpath hok (call hoks hcall))
      · cases hr
    · split at hr
      · -- the sibling is a list with an item
        rename_i li hc
        have hl : (nodeAt steps parent).last? = some li ∧ isItemTag li = true := by
          split at hc
          · split at hc
            · rename_i hb; cases hc; exact ⟨by assumption, hb⟩
            · cases hc
          · cases hc
        split at hr
        · rename_i li' refs1 hcall
          cases hr
          have hn := nodeOk_of_last hoks hl.1
          have hnc : li.isTag "code" = false := by
            have := hl.2; simp only [isItemTag, isTag_iff] at this
            simp [Node.isTag, this]
          have s1 := textToP_same hn hnc
          have hp := parseChunk_post h hpb hst (treeOk_of_nodeOk s1.ok) hbp hcall
          rw [hl1] at hp
          exact fin _ (updPath_post steps hpath hok
            (Post.setLast_same_post hoks hl.1 (not_safe_of_item hl.2) (not_pre_of_item hl.2) s1 hp))
        · cases hr
      · -- `create_item`
        split at hr
        · rename_i li refs1 hcall
          cases hr
          have hpli := call (el_treeOk "li") hcall
          obtain ⟨hnn, hd⟩ := hpli.of_el (by decide)
          have p2 := Post.append (L := L) hoks hnn (by rw [isTag_congr hpli.tag]; decide)
          rw [hd] at p2
          exact fin _ (updPath_post steps hpath hok p2)
        · cases hr


/-! ### one turn of the loop, the loop, the document -/

theorem isstate_list_not_detabbed {state : List BState} (h : isstate state .list = true) :
    isstate state .detabbed = false := by
  simp only [isstate, beq_iff_eq] at h ⊢
  rw [h]; decide

/-- the `test` of `ListIndentProcessor` on the parent -/
def indentCond (parent : Node) : Bool :=
  isItemTag parent || (match parent.last? with | some c => isListTag c | none => false)

theorem dispatch_eq (tab : Nat) (pb : PB) (state : List BState) (refs : Refs) (parent : Node) (b : Str)
    (rest : List Str) :
    dispatch tab pb state refs parent b rest =
      if b.isEmpty || startsWith b ['\n'] then some (emptyP refs parent b rest)
      else if startsWith b (spaces tab) && !isstate state .detabbed && indentCond parent then
        indentP tab pb state refs parent b rest
      else if startsWith b (spaces tab) then some (codeP tab refs parent b rest)
      else
      match hashSearch b with
      | some m => hashP tab pb state refs parent b rest m
      | none =>
      if setextMatch b then some (setextP refs parent b rest) else
      match hrSearch b with
      | some m => hrP pb state refs parent b rest m
      | none =>
      if (listItemMatch tab true false b).isSome then listP tab pb state refs parent b rest "ol"
      else if (listItemMatch tab false true b).isSome then listP tab pb state refs parent b rest "ul"
      else
      match quoteSearch b with
      | some q => quoteP pb state refs parent b rest q
      | none =>
      match refSearch b with
      | some m => some (referenceP refs parent b rest m)
      | none => some (paraP state refs parent b rest) := rfl

theorem dispatch_step (h : LetterClass L) {tab : Nat} {pb : PB} (hpb : Conserves L tab pb)
    {state : List BState} {refs refs' : Refs} {parent parent' : Node} {b : Str} {rest blocks' : List Str}
    (hinv : inv L tab state parent (b :: rest) = true)
    (hr : dispatch tab pb state refs parent b rest = some (parent', refs', blocks')) :
    Step L tab state parent b rest parent' blocks' := by
  obtain ⟨hok, hpl, hli⟩ := inv_iff.mp hinv
  rw [dispatch_eq] at hr
  split at hr
  · rename_i he
    simp only [Option.some.injEq] at hr
    exact emptyP_step h hinv he hr
  · split at hr
    · exact indentP_step h hpb hinv hr
    · rename_i hnind
      split at hr
      · rename_i hsp
        simp only [Option.some.injEq] at hr
        refine codeP_step h hinv ?_ hr
        cases hs : isstate state .list with
        | false => rfl
        | true =>
          exfalso
          obtain ⟨_, hitem, _⟩ := listInv_cons hli hs
          apply hnind
          simp [hsp, isstate_list_not_detabbed hs, hitem, indentCond]
      · rename_i hns
        simp only [Bool.not_eq_true] at hns
        split at hr
        · rename_i m hm
          exact hashP_step h hpb hinv hns hm hr
        · split at hr
          · rename_i hm
            simp only [Option.some.injEq] at hr
            exact setextP_step h hinv hm hr
          · split at hr
            · rename_i m hm
              exact hrP_step h hpb hinv hns hm hr
            · split at hr
              · rename_i hm
                exact listP_step h hpb (Or.inl rfl) hinv hns (Or.inl hm) hr
              · split at hr
                · rename_i hm
                  exact listP_step h hpb (Or.inr rfl) hinv hns (Or.inr hm) hr
                · split at hr
                  · exact quoteP_step h hpb hinv hns hr
                  · split at hr
                    · rename_i m hm
                      rw [refSearch_none_of_plain (hpl b (by simp))] at hm
                      cases hm
                    · simp only [Option.some.injEq] at hr
                      exact paraP_step h hinv hns hr

theorem parseBlocks_conserves (h : LetterClass L) (tab : Nat) (f : Nat) :
    Conserves L tab (parseBlocks tab f) := by
  induction f with
  | zero =>
    intro state refs parent blocks parent' refs' hinv hr
    cases blocks with
    | nil =>
      simp only [parseBlocks, Option.some.injEq, Prod.mk.injEq] at hr
      rw [← hr.1]
      exact Post.refl (inv_iff.mp hinv).1
    | cons b rest => simp [parseBlocks] at hr
  | succ f ih =>
    intro state refs parent blocks parent' refs' hinv hr
    cases blocks with
    | nil =>
      simp only [parseBlocks, Option.some.injEq, Prod.mk.injEq] at hr
      rw [← hr.1]
      exact Post.refl (inv_iff.mp hinv).1
    | cons b rest =>
      simp only [parseBlocks] at hr
      split at hr
      · rename_i p1 refs1 blocks1 hd
        have st := dispatch_step h ih hinv hd
        have hp := ih state refs1 p1 blocks1 parent' refs' st.inv hr
        refine ⟨?_, hp.ok, hp.tag.trans st.tag, hp.tail.trans st.tail⟩
        rw [hp.doc, st.doc, queueLetters_cons, List.append_assoc]
      · cases hr

theorem parseDocumentWith_conserves (h : LetterClass L) {tab : Nat} {fuel : Nat} {text : Str}
    (hp : plain text = true) {root : Node} {refs : Refs}
    (hr : parseDocumentWith tab fuel text = some (root, refs)) :
    docLetters L root = letters L text ∧ treeOk L root = true := by
  have := parseChunk_post h (parseBlocks_conserves h tab fuel) (state := []) (by rfl) (el_treeOk "div") hp hr
  exact ⟨by rw [this.doc, el_doc, List.nil_append], this.ok⟩


/-! ### the plain forms used in `Props/C06Block.lean` -/

theorem conserves_iff {tab : Nat} {pb : PB} : Conserves L tab pb ↔ ConservesPB L tab pb := by
  constructor
  · intro hc state refs parent blocks parent' refs' hinv hr
    have := hc state refs parent blocks parent' refs' hinv hr
    exact ⟨this.doc, this.ok, this.tag, this.tail⟩
  · intro hc state refs parent blocks parent' refs' hinv hr
    obtain ⟨h1, h2, h3, h4⟩ := hc state refs parent blocks parent' refs' hinv hr
    exact ⟨h1, h2, h3, h4⟩

theorem Step.turn {tab : Nat} {state : List BState} {parent parent' : Node} {b : Str} {rest blocks' : List Str}
    (s : Step L tab state parent b rest parent' blocks') : TurnConserves L tab state parent b rest parent' blocks' :=
  ⟨s.doc, s.inv, s.tag, s.tail⟩

/-- the invariant holds when `parseDocument` starts -/
theorem inv_start (h : LetterClass L) (tab : Nat) {text : Str} (hp : plain text = true) :
    inv L tab [] (Node.el "div") (splitS ['\n', '\n'] text) = true :=
  inv_iff.mpr ⟨el_treeOk "div", by simpa [List.all_eq_true] using (splitChunk_spec h text).2 hp,
    listInv_of_not_list (by rfl) _ _⟩

end MdVerif.Letters
