/-
Helper lemmas for C10 on the extension model, part 4: the composition of the stage lemmas along `PipelineX.convertX`
when only the inline-stage extensions may be enabled (every block-level and tree-level extension off): the block
parser is `Block.parseDocument`, the inline stage is `InlineX.runX` over `InlineX.table false wikilinks nl2br`, the
later stages are those of `Pipeline.convert`.  Core Lean only.
-/
import MdVerif.Lemmas.PlaceholdersXFM
import MdVerif.Lemmas.PlaceholdersB
import MdVerif.Lemmas.PipelineX

namespace MdVerif.NoCtlX
open MdVerif.NoCtl Py Inline InlineX

/-- only inline-stage extensions: every flag but `nl2br` and `wikilinks` is off -/
def InlineFlagsOnly (x : PipelineX.Exts) : Prop :=
  x.fencedCode = false ∧ x.tables = false ∧ x.admonition = false ∧ x.defList = false ∧ x.abbr = false ∧
  x.footnotes = false ∧ x.saneLists = false ∧ x.attrList = false ∧ x.toc = false

instance (x : PipelineX.Exts) : Decidable (InlineFlagsOnly x) := by unfold InlineFlagsOnly; infer_instance

/-- the source domain with wikilinks: `C10DomainL` (no `<`, `&`; in the normalised text no backslash immediately before
    a backtick, no `![`, no `](`), and — when the wikilinks extension is on — the normalised text has no `[` immediately
    followed by a blank, which excludes the blank labels `[[   ]]` (for which the pattern stashes the empty string) -/
def C10DomainW (wl : Bool) (tab : Nat) (s : Str) : Prop :=
  C10DomainL tab s ∧ (wl = true → NoPair '[' ' ' (Normalize.normalize tab s))

instance (wl : Bool) (tab : Nat) (s : Str) : Decidable (C10DomainW wl tab s) := by unfold C10DomainW; infer_instance

theorem parseDocumentXT_core (tab : Nat) (text : Str) :
    BlockExt.parseDocumentXT false
      { admonition := false, defList := false, footnotes := false, abbr := false, saneLists := false } tab text =
      Block.parseDocument tab text := by
  have hcore : ({ admonition := false, defList := false, footnotes := false, abbr := false, saneLists := false } :
      BlockExt.XCfg) = BlockExt.XCfg.core := rfl
  simp only [BlockExt.parseDocumentXT, Block.parseDocument, Block.parseDocumentWith, BlockExt.parseBlocksXT_false,
    BlockExt.fuelForX, Block.fuelFor, hcore, BlockExt.parseBlocksX_core]

/-- the configuration of the inline stage in `PipelineX.treeX` when only `nl2br` / `wikilinks` may be on -/
abbrev xcOf (cfg : Pipeline.Cfg) (refs : Block.Refs) (wl nl : Bool) : XCfg :=
  { cfg := { esc := cfg.esc, refs := refs.reverse }, table := table false wl nl,
    fnKeys := (BlockExt.footnotesOf refs).map (·.1) }

/-- how `convertX` unfolds when only `nl2br` / `wikilinks` may be on -/
theorem convertX_inline_ok {nl wl : Bool} {cfg : Pipeline.Cfg} {src out : Str}
    (h : PipelineX.convertX { nl2br := nl, wikilinks := wl } cfg src = .ok out) :
    out = [] ∨
    ∃ root refs t xs u o,
      Block.parseDocument cfg.tab (Pipeline.prepare cfg src) = some (root, refs) ∧
      runX (xcOf cfg refs wl nl) root [] = some (t, xs) ∧
      TreeProc.unescapeTree (TreeProc.prettify t cfg.blockLevel) = some u ∧
      Post.finish cfg.blockLevel xs.st.html (Ser.serialize cfg.fmt u) = some (some o) ∧ out = o := by
  simp only [PipelineX.convertX, PipelineX.Exts.unsupported] at h
  split at h
  · cases h
  · simp only [Bool.false_eq_true, if_false] at h
    split at h
    · cases h; exact .inl rfl
    · right
      simp only [PipelineX.treeX, PipelineX.prepareX, PipelineX.Exts.blockCfg, parseDocumentXT_core,
        PipelineX.refsX, PipelineX.escX, Bool.false_eq_true, if_false, Bool.or_self, Bool.false_and] at h
      have hprep : Extract.extract (Normalize.normalize cfg.tab src) = Pipeline.prepare cfg src := rfl
      rw [hprep] at h
      cases hb : Block.parseDocument cfg.tab (Pipeline.prepare cfg src) with
      | none => simp [hb] at h
      | some br =>
        obtain ⟨root, refs⟩ := br
        simp only [hb] at h
        cases hr : runX (xcOf cfg refs wl nl) root [] with
        | none => simp [hr] at h
        | some ir =>
          obtain ⟨t, xs⟩ := ir
          simp only [hr] at h
          cases hu : TreeProc.unescapeTree (TreeProc.prettify t cfg.blockLevel) with
          | none => simp [hu] at h
          | some u =>
            simp only [hu, PipelineX.finishX, PipelineX.postX, Bool.false_eq_true, if_false] at h
            cases hs : Post.topLevelStrip (Ser.serialize cfg.fmt u) with
            | none => rw [hs] at h; cases h
            | some o1 =>
              rw [hs] at h
              simp only at h
              cases hraw : Post.rawHtml cfg.blockLevel xs.st.html (Post.rawHtmlFuel xs.st.html) o1 with
              | none => rw [hraw] at h; cases h
              | some r =>
                rw [hraw] at h
                simp only [Option.map_some, Pipeline.Outcome.ok.injEq] at h
                subst h
                refine ⟨root, refs, t, xs, u, _, rfl, hr, hu, ?_, rfl⟩
                simp only [Post.finish, Post.post, hs, hraw, Option.map_some]

/-! ### the block parser keeps the exclusion of blank wikilink labels -/

theorem prepare_eq_normalize (cfg : Pipeline.Cfg) {s : Str} (h : C10DomainL cfg.tab s) :
    Pipeline.prepare cfg s = Normalize.normalize cfg.tab s := by
  have hamp : '&' ∉ Normalize.normalize cfg.tab s := by
    intro hm
    rcases (Normalize.mem_normalize hm).1 with e | e | hm'
    · exact absurd e (by decide)
    · exact absurd e (by decide)
    · have := h.1 _ hm'
      simp [domCharB] at this
  exact extract_no_amp hamp

/-- the string property that the block parser keeps: characters of the domain, none of the three adjacencies, and
    (with wikilinks) no `[` immediately before a blank -/
theorem strDom_adj3q (wl : Bool) : BlkB.StrDom (fun c => Blk.okc c && domCharB c) Blk.okc
    (fun s => (Blk.AllC (fun c => Blk.okc c && domCharB c) s ∧ Adj3 s) ∧ Qw wl s) where
  chars := BlkB.charDom_domB
  allc := fun _ hs => hs.1.1
  nil := ⟨strDom_adj3.nil, qw_nil wl⟩
  inf := fun s t hs ht => ⟨strDom_adj3.inf s t hs.1 ht, hs.2.infix ht⟩
  joinNl := fun a b ha hb => ⟨strDom_adj3.joinNl a b ha.1 hb.1, qw_joinNl ha.2 hb.2⟩

theorem bnodeP_split {wl : Bool} {n : Node}
    (h : BlkB.BNodeP (fun c => Blk.okc c && domCharB c) Blk.okc
      (fun s => (Blk.AllC (fun c => Blk.okc c && domCharB c) s ∧ Adj3 s) ∧ Qw wl s) n) :
    WNodeB 0 n ∧ QN wl n :=
  ⟨wnodeB_of_bnodeP ⟨h.1, h.2.1.1, fun ha => (h.2.2 ha).1⟩, fun ha => (h.2.2 ha).2, h.2.1.2⟩

/-! ### end to end -/

/-- end to end with nl2br and wikilinks on the domain of `C10_partial_links`; with wikilinks the normalised text has
    no `[` immediately before a blank -/
theorem convertX_noctl_inline {x : PipelineX.Exts} (hx : InlineFlagsOnly x)
    {cfg : Pipeline.Cfg} (hcfg : EscOK cfg.esc) {src out : Str} (hd : C10DomainL cfg.tab src)
    (hq : Qw x.wikilinks (Normalize.normalize cfg.tab src))
    (h : PipelineX.convertX x cfg src = .ok out) : NoCtl out := by
  obtain ⟨fc, tb, ad, dl, ab, fnn, sl, nl, wl, al, toc⟩ := x
  obtain ⟨h1, h2, h3, h4, h5, h6, h7, h8, h9⟩ := hx
  simp only at h1 h2 h3 h4 h5 h6 h7 h8 h9 hq
  subst h1 h2 h3 h4 h5 h6 h7 h8 h9
  rcases convertX_inline_ok h with rfl | ⟨root, refs, t, xs, u, o, hb, hr, hu, hf, rfl⟩
  · exact noCtl_nil
  · have hP : (Blk.AllC (fun c => Blk.okc c && domCharB c) (Pipeline.prepare cfg src) ∧
        Adj3 (Pipeline.prepare cfg src)) ∧ Qw wl (Pipeline.prepare cfg src) :=
      ⟨prepare_domB cfg hd, by rw [prepare_eq_normalize cfg hd]; exact hq⟩
    obtain ⟨hroot, hrefs, -⟩ := BlkB.parseDocument_strs (strDom_adj3q wl) cfg.tab _ hP hb
    have htree : root.Forall (WNodeB 0) := Node.Forall.mono (fun _ hn => (bnodeP_split hn).1) root hroot
    have htreeq : root.Forall (QN wl) := Node.Forall.mono (fun _ hn => (bnodeP_split hn).2) root hroot
    have hhi := hiSpecXB_inline (xc := xcOf cfg refs wl nl) (wl := wl) (nl := nl) hcfg
      (refsOK_of_refsC cfg.esc hrefs) rfl
    obtain ⟨ht', hhtml⟩ := runX_specB hhi htree htreeq hr
    have hfn : t.Forall FNode := Node.Forall.mono (fun _ hn => fnode_of_wnodeB hn) t ht'
    have hun := unescapeTree_fnode (prettify_fnode hfn cfg.blockLevel) hu
    have hser := serialize_noctl cfg.fmt hun
    rw [hhtml] at hf
    exact finish_noctl hser hf

/-- end to end with nl2br (wikilinks off) on the domain of `C10_partial_links` -/
theorem convertX_noctl_nl {x : PipelineX.Exts} (hx : InlineFlagsOnly x) (hw : x.wikilinks = false)
    {cfg : Pipeline.Cfg} (hcfg : EscOK cfg.esc) {src out : Str} (hd : C10DomainL cfg.tab src)
    (h : PipelineX.convertX x cfg src = .ok out) : NoCtl out :=
  convertX_noctl_inline hx hcfg hd (by rw [hw]; intro h; cases h) h

end MdVerif.NoCtlX
