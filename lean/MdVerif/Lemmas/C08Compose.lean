/-
Bridges between the block half (`Props/C08Block.lean`) and the inline half (`Props/C08Inline.lean`) of C08, used by
`Props/C08.lean`.  Core Lean only.
-/
import MdVerif.Lemmas.Normalize
import MdVerif.Lemmas.BlockLocal
import MdVerif.Props.C08Block
import MdVerif.Lemmas.PlaceholdersBlock
import MdVerif.Props.C08Inline
import MdVerif.Lemmas.InlineEsc

namespace MdVerif.C08
open Py Block Normalize

/-! ### (i) source level: normalising `A`, a blank line, `B` -/

/-- **the normaliser works on `A`, a blank line, `B` part by part** (unless `A` ends with a carriage return, which
    would form a CRLF with the first line feed of the blank line) -/
theorem normalize_split (tab : Nat) (A B : Str) (h : (stripCtl A).getLast? ≠ some '\r') :
    normalize tab (A ++ nn ++ B) = normalize tab A ++ normalize tab B := by
  have he : endCR false (stripCtl A) = false := by
    rw [endCR_eq_getLast]
    cases hg : (stripCtl A).getLast? with
    | none => rfl
    | some c =>
      have : c ≠ '\r' := by intro hc; apply h; rw [hg, hc]
      simp [this]
  have hnn : stripCtl nn = nn := by decide
  have e1 : nlAux false (stripCtl (A ++ nn ++ B)) =
      nlAux false (stripCtl A) ++ '\n' :: ([] ++ '\n' :: nlAux false (stripCtl B)) := by
    rw [stripCtl_append, stripCtl_append, hnn, List.append_assoc, nlAux_append, he]
    simp [nlAux]
  rw [normalize_eq, normalize_eq, normalize_eq, e1]
  have e2 : nlAux false (stripCtl A) ++ '\n' :: ([] ++ '\n' :: nlAux false (stripCtl B)) ++ ['\n', '\n'] =
      nlAux false (stripCtl A) ++ '\n' :: ([] ++ '\n' :: (nlAux false (stripCtl B) ++ ['\n', '\n'])) := by simp
  have e3 : nlAux false (stripCtl A) ++ ['\n', '\n'] = nlAux false (stripCtl A) ++ '\n' :: ([] ++ '\n' :: []) := by simp
  rw [e2, e3, pipeline_split, pipeline_split, pipeline_split, pipeline_split]
  simp [expandtabsAux, wsLinesAux]

/-! ### (ii) the top-level children of a block tree: block-level elements without tail -/

/-- the tags of the elements that the block parser puts directly under a parent -/
def topTags : List String := ["p", "h1", "h2", "h3", "h4", "h5", "h6", "ul", "ol", "li", "blockquote", "pre", "hr"]

/-- the configuration knows the elements of the block stage (other than `code`) as block-level -/
def blockLevelOk (bl : List Str) : Bool := topTags.all (fun t => TreeProc.isBlockLevel bl (.name t.toList))

section top
open Block.Local
variable {bl : List Str}

/-- a child as the block parser puts it under the root: block-level, and without tail -/
def topKid (bl : List Str) (c : Node) : Prop := TreeProc.isBlockLevel bl c.tag = true ∧ c.tail = none

def TopOK (bl : List Str) (p : Node) : Prop := ∀ c ∈ p.children, topKid bl c

theorem blockLevelOk_mem (hbl : blockLevelOk bl = true) {t : String} (ht : t ∈ topTags) :
    TreeProc.isBlockLevel bl (.name t.toList) = true :=
  List.all_eq_true.1 hbl t ht

theorem countPrefix_some_le (ch : Char) : ∀ (k : Nat) (s : Str), countPrefix ch (some k) s ≤ k
  | 0, s => by cases s <;> simp
  | k + 1, [] => by simp
  | k + 1, c :: s => by
    simp only [countPrefix]
    split
    · have := countPrefix_some_le ch k s
      simp only [Option.map_some, Nat.add_sub_cancel]
      omega
    · omega

theorem hashAt_level {s : Str} {lv n : Nat} {hd : Str} (h : hashAt s = some (lv, hd, n)) : 1 ≤ lv ∧ lv ≤ 6 := by
  obtain ⟨x, h1, h2, h3⟩ := Block.firstDown_some h
  have := countPrefix_some_le '#' 6 s
  split at h3
  · cases h3; omega
  · cases h3

theorem hashSearchNl_level : ∀ (s : Str) (i : Nat) {st en lv : Nat} {hd : Str},
    hashSearchNl i s = some (st, en, lv, hd) → 1 ≤ lv ∧ lv ≤ 6
  | [], _, _, _, _, _, h => by simp [hashSearchNl] at h
  | c :: s, i, st, en, lv, hd, h => by
    simp only [hashSearchNl] at h
    split at h
    · split at h
      · rename_i hh; cases h; exact hashAt_level hh
      · exact hashSearchNl_level s _ h
    · exact hashSearchNl_level s _ h

theorem hashSearch_level {s : Str} {st en lv : Nat} {hd : Str} (h : hashSearch s = some (st, en, lv, hd)) :
    1 ≤ lv ∧ lv ≤ 6 := by
  simp only [hashSearch] at h
  split at h
  · rename_i hh; cases h; exact hashAt_level hh
  · exact hashSearchNl_level s 0 h

theorem topKid_of_shell {c c' : Node} (h : shell c' = shell c) (hc : topKid bl c) : topKid bl c' := by
  have h1 : c'.tag = c.tag := congrArg (fun n => n.tag) h
  have h2 : c'.tail = c.tail := congrArg (fun n => n.tail) h
  exact ⟨h1 ▸ hc.1, h2 ▸ hc.2⟩

theorem TopOK.of_shell_children {p q : Node} (h : q.children = p.children) (hp : TopOK bl p) : TopOK bl q := by
  intro c hc; rw [h] at hc; exact hp c hc

theorem TopOK.append {p : Node} (hp : TopOK bl p) {c : Node} (hc : topKid bl c) : TopOK bl (p.append c) := by
  intro d hd
  simp only [Node.append, List.mem_append, List.mem_singleton] at hd
  rcases hd with hd | rfl
  · exact hp d hd
  · exact hc

theorem TopOK.setLast {p : Node} (hp : TopOK bl p) {c : Node} (hc : topKid bl c) : TopOK bl (p.setLast c) := by
  intro d hd
  simp only [Node.setLast, List.mem_append, List.mem_singleton] at hd
  rcases hd with hd | rfl
  · exact hp d (List.dropLast_subset _ hd)
  · exact hc

theorem mem_of_last? {p sib : Node} (h : p.last? = some sib) : sib ∈ p.children :=
  List.mem_of_getLast? h

theorem TopOK.setLast_shell {p sib c : Node} (hp : TopOK bl p) (hl : p.last? = some sib) (h : shell c = shell sib) :
    TopOK bl (p.setLast c) :=
  hp.setLast (topKid_of_shell h (hp sib (mem_of_last? hl)))

theorem topKid_el (hbl : blockLevelOk bl = true) {t : String} (h : t ∈ topTags) : topKid bl (Node.el t) :=
  ⟨blockLevelOk_mem hbl h, rfl⟩

/-- `pb` keeps the children of a non-list parent `topKid`s, outside the tight-list state -/
def PBTop (bl : List Str) (pb : PB) : Prop :=
  ∀ st refs p bs q r, pb st refs p bs = some (q, r) → isstate st .list = false → isListTag p = false →
    TopOK bl p → TopOK bl q

theorem isListTag_of_shell {p q : Node} (h : shell q = shell p) : isListTag q = isListTag p := by
  have h1 : q.tag = p.tag := congrArg (fun n => n.tag) h
  simp only [isListTag, Node.isTag, h1]

theorem emptyP_top {refs p b rest} (hp : TopOK bl p) : TopOK bl (emptyP refs p b rest).1 := by
  simp only [emptyP]
  split
  · rename_i sib hl
    split
    · exact hp.setLast_shell hl rfl
    · exact hp
  · exact hp

theorem topKid_pre (hbl : blockLevelOk bl = true) (ks : List Node) : topKid bl { Node.el "pre" with children := ks } :=
  ⟨blockLevelOk_mem hbl (t := "pre") (by decide), rfl⟩

theorem codeP_top (hbl : blockLevelOk bl = true) {tab refs p b rest} (hp : TopOK bl p) : TopOK bl (codeP tab refs p b rest).1 := by
  simp only [codeP]
  split
  · rename_i sib hl
    split
    · exact hp.setLast_shell hl rfl
    · exact hp.append (topKid_pre hbl _)
  · exact hp.append (topKid_pre hbl _)

theorem topKid_hTag (hbl : blockLevelOk bl = true) {lv : Nat} (h1 : 1 ≤ lv) (h6 : lv ≤ 6) (t : Option Str) :
    topKid bl { hTag lv with text := t } := by
  refine ⟨?_, rfl⟩
  have : lv = 1 ∨ lv = 2 ∨ lv = 3 ∨ lv = 4 ∨ lv = 5 ∨ lv = 6 := by omega
  rcases this with rfl | rfl | rfl | rfl | rfl | rfl
  · exact blockLevelOk_mem hbl (t := "h1") (by decide)
  · exact blockLevelOk_mem hbl (t := "h2") (by decide)
  · exact blockLevelOk_mem hbl (t := "h3") (by decide)
  · exact blockLevelOk_mem hbl (t := "h4") (by decide)
  · exact blockLevelOk_mem hbl (t := "h5") (by decide)
  · exact blockLevelOk_mem hbl (t := "h6") (by decide)

theorem setextP_top (hbl : blockLevelOk bl = true) {refs p b rest} (hp : TopOK bl p) :
    TopOK bl (setextP refs p b rest).1 := by
  simp only [setextP]
  split
  · exact hp.append (topKid_hTag hbl (by omega) (by omega) _)
  · exact hp.append (topKid_hTag hbl (by omega) (by omega) _)

theorem paraP_top (hbl : blockLevelOk bl = true) {st refs p b rest} (hs : isstate st .list = false)
    (hp : TopOK bl p) : TopOK bl (paraP st refs p b rest).1 := by
  simp only [paraP, hs]
  split
  · exact hp
  · exact hp.append ⟨blockLevelOk_mem hbl (t := "p") (by decide), rfl⟩

theorem referenceP_top {refs p b rest m} (hp : TopOK bl p) : TopOK bl (referenceP refs p b rest m).1 := by
  obtain ⟨s, e, i, l, t5, t6⟩ := m
  exact hp

theorem hashP_top (hbl : blockLevelOk bl = true) {pb : PB} (h : PBTop bl pb) {tab st refs p b rest m q r bs}
    (hm : hashSearch b = some m) (hs : isstate st .list = false)
    (hl : isListTag p = false) (hp : TopOK bl p) (hr : hashP tab pb st refs p b rest m = some (q, r, bs)) :
    TopOK bl q := by
  obtain ⟨s, e, lv, hd⟩ := m
  obtain ⟨lv1, lv6⟩ := hashSearch_level hm
  simp only [hashP] at hr
  split at hr
  · simp at hr
  · rename_i p1 r1 h1
    simp only [Option.some.injEq, Prod.mk.injEq] at hr
    obtain ⟨rfl, -, -⟩ := hr
    refine TopOK.append ?_ (topKid_hTag hbl lv1 lv6 _)
    split at h1
    · simp only [Option.some.injEq, Prod.mk.injEq] at h1; rw [← h1.1]; exact hp
    · exact h _ _ _ _ _ _ h1 hs hl hp

theorem hrP_top (hbl : blockLevelOk bl = true) {pb : PB} (h : PBTop bl pb) {st refs p b rest m q r bs}
    (hs : isstate st .list = false)
    (hl : isListTag p = false) (hp : TopOK bl p) (hr : hrP pb st refs p b rest m = some (q, r, bs)) : TopOK bl q := by
  obtain ⟨s, e⟩ := m
  simp only [hrP] at hr
  split at hr
  · simp at hr
  · rename_i p1 r1 h1
    simp only [Option.some.injEq, Prod.mk.injEq] at hr
    obtain ⟨rfl, -, -⟩ := hr
    refine TopOK.append ?_ (topKid_el hbl (t := "hr") (by decide))
    split at h1
    · simp only [Option.some.injEq, Prod.mk.injEq] at h1; rw [← h1.1]; exact hp
    · exact h _ _ _ _ _ _ h1 hs hl hp

theorem sibList_last {p lst : Node}
    (h : (match p.last? with | some sib => if isListTag sib then some sib else none | none => none) = some lst) :
    p.last? = some lst := by
  split at h
  · split at h
    · rename_i hl _; rw [hl]; exact h
    · cases h
  · cases h

theorem listP_top (hbl : blockLevelOk bl = true) {pb : PB} {tab st refs p b rest tag q r bs} (ht : tag ∈ topTags)
    (hl : isListTag p = false) (hp : TopOK bl p) (hr : listP tab pb st refs p b rest tag = some (q, r, bs)) :
    TopOK bl q := by
  simp only [listP] at hr
  split at hr
  · rename_i lst hlst
    have hlast := sibList_last hlst
    split at hr
    · simp at hr
    · split at hr
      · rename_i lst' r' hli
        simp only [Option.some.injEq, Prod.mk.injEq] at hr
        rw [← hr.1]
        refine hp.setLast_shell hlast ?_
        have g := (listItems_good hli).2 rfl
        rw [g]
        simp only [shell, Node.append]
        split <;> simp [Node.setLast]
      · simp at hr
  · simp only [hl, Bool.false_eq_true, if_false] at hr
    split at hr
    · rename_i lst' r' hli
      simp only [Option.some.injEq, Prod.mk.injEq] at hr
      rw [← hr.1]
      exact hp.append (topKid_of_shell ((listItems_good hli).2 rfl) (topKid_el hbl ht))
    · simp at hr

theorem sibQuote_last {p sib : Node}
    (h : (match p.last? with | some sib => if sib.isTag "blockquote" then some sib else none | none => none) = some sib) :
    p.last? = some sib := by
  split at h
  · split at h
    · rename_i hl _; rw [hl]; exact h
    · cases h
  · cases h

theorem quoteP_top (hbl : blockLevelOk bl = true) {pb : PB} (h : PBTop bl pb) (hg : PBGood pb) {st refs p b rest n q r bs}
    (hs : isstate st .list = false) (hl : isListTag p = false) (hp : TopOK bl p)
    (hr : quoteP pb st refs p b rest n = some (q, r, bs)) : TopOK bl q := by
  simp only [quoteP, parseChunk] at hr
  split at hr
  · simp at hr
  · rename_i p1 r1 h1
    have hp1 : TopOK bl p1 := h _ _ _ _ _ _ h1 hs hl hp
    have hq2 : isstate (st ++ [BState.blockquote]) .list = false := isstate_snoc_ne _ _ _ (by decide)
    split at hr
    · rename_i sib hsib
      split at hr
      · rename_i quote r2 hq
        simp only [Option.some.injEq, Prod.mk.injEq] at hr
        rw [← hr.1]
        exact hp1.setLast_shell (sibQuote_last hsib) ((hg _ _ _ _ _ _ hq).2 hq2)
      · simp at hr
    · split at hr
      · rename_i quote r2 hq
        simp only [Option.some.injEq, Prod.mk.injEq] at hr
        rw [← hr.1]
        exact hp1.append (topKid_of_shell ((hg _ _ _ _ _ _ hq).2 hq2) (topKid_el hbl (t := "blockquote") (by decide)))
      · simp at hr

theorem topKid_textToP {li : Node} (h : topKid bl li) : topKid bl (textToP li) := by
  simp only [textToP]
  split
  · exact ⟨h.1, h.2⟩
  · exact h

theorem sibItem_last {p c : Node}
    (h : (match p.last? with | some c => if isItemTag c then some c else none | none => none) = some c) :
    p.last? = some c := by
  split at h
  · split at h
    · rename_i hl _; rw [hl]; exact h
    · cases h
  · cases h

/-- `updPath` below the top keeps the children of the top `topKid`s -/
theorem updPath_top {p : Node} (hp : TopOK bl p) {f : Node → Node} (k : Nat)
    (h0 : ∀ c, p.last? = some c → k = 0 → Good [] c (f c)) : TopOK bl (updPath f (k + 1) p) := by
  simp only [updPath]
  split
  · rename_i c hl
    exact hp.setLast_shell hl ((updPath_good k (h0 c hl)).2 rfl)
  · exact hp

theorem indentP_top (hbl : blockLevelOk bl = true) {pb : PB} (h : PBTop bl pb) (hg : PBGood pb) {tab st refs p b rest q r bs}
    (hl : isListTag p = false) (hp : TopOK bl p)
    (hr : indentP tab pb st refs p b rest = some (q, r, bs)) : TopOK bl q := by
  have hq2 : isstate (st ++ [BState.detabbed]) .list = false := isstate_snoc_ne _ _ _ (by decide)
  simp only [indentP, parseChunk] at hr
  generalize getLevel tab st p b = lv at hr
  obtain ⟨level, steps⟩ := lv
  dsimp only at hr
  split at hr
  · split at hr
    · rename_i c hc
      split at hr
      · rename_i sub r2 hq
        simp only [Option.some.injEq, Prod.mk.injEq] at hr
        rw [← hr.1]
        exact hp.setLast_shell (sibList_last hc) ((hg _ _ _ _ _ _ hq).2 hq2)
      · simp at hr
    · split at hr
      · rename_i p' r2 hq
        simp only [Option.some.injEq, Prod.mk.injEq] at hr
        rw [← hr.1]
        exact h _ _ _ _ _ _ hq hq2 hl hp
      · simp at hr
  · split at hr
    · -- the sibling is an item
      split at hr
      · rename_i sub r2 hq
        simp only [Option.some.injEq, Prod.mk.injEq] at hr
        rw [← hr.1]
        cases steps with
        | zero => exact h _ _ _ _ _ _ hq hq2 hl hp
        | succ k =>
          refine updPath_top hp k (fun c hc hk => ?_)
          subst hk
          simp only [nodeAt, hc] at hq
          exact Good.weaken hq2 (hg _ _ _ _ _ _ hq)
      · simp at hr
    · split at hr
      · rename_i li hli
        split at hr
        · rename_i li' r2 hq
          simp only [Option.some.injEq, Prod.mk.injEq] at hr
          rw [← hr.1]
          cases steps with
          | zero =>
            simp only [nodeAt] at hli
            simp only [updPath]
            refine hp.setLast (topKid_of_shell ((hg _ _ _ _ _ _ hq).2 hq2) (topKid_textToP ?_))
            exact hp li (mem_of_last? (sibItem_last hli))
          | succ k => exact updPath_top hp k (fun c _ _ => Good.setLast (Good.refl ..) _)
        · simp at hr
      · split at hr
        · rename_i li' r2 hq
          simp only [Option.some.injEq, Prod.mk.injEq] at hr
          rw [← hr.1]
          cases steps with
          | zero =>
            simp only [updPath]
            exact hp.append (topKid_of_shell ((hg _ _ _ _ _ _ hq).2 hq2) (topKid_el hbl (t := "li") (by decide)))
          | succ k => exact updPath_top hp k (fun c _ _ => Good.append (Good.refl ..) _)
        · simp at hr

theorem choose_hash {tab st p b m} (h : choose tab st p b = .hash m) : hashSearch b = some m := by
  simp only [choose, chooseText] at h
  split at h
  · cases h
  · split at h
    · cases h
    · split at h
      · cases h
      · split at h
        · rename_i m' hm; cases h; exact hm
        · (repeat' split at h) <;> cases h

theorem dispatch_top (hbl : blockLevelOk bl = true) {pb : PB} (h : PBTop bl pb) (hg : PBGood pb)
    {tab st refs p b rest q r bs}
    (hs : isstate st .list = false) (hl : isListTag p = false) (hp : TopOK bl p)
    (hr : dispatch tab pb st refs p b rest = some (q, r, bs)) : TopOK bl q := by
  rw [Local.dispatch_eq] at hr
  cases hc : choose tab st p b <;> rw [hc] at hr <;> simp only [runChoice] at hr
  · have := emptyP_top (refs := refs) (b := b) (rest := rest) hp
    simp only [Option.some.injEq] at hr; rwa [hr] at this
  · exact indentP_top hbl h hg hl hp hr
  · have := codeP_top hbl (tab := tab) (refs := refs) (b := b) (rest := rest) hp
    simp only [Option.some.injEq] at hr; rwa [hr] at this
  · exact hashP_top hbl h (choose_hash hc) hs hl hp hr
  · have := setextP_top hbl (refs := refs) (b := b) (rest := rest) hp
    simp only [Option.some.injEq] at hr; rwa [hr] at this
  · exact hrP_top hbl h hs hl hp hr
  · exact listP_top hbl (by decide) hl hp hr
  · exact listP_top hbl (by decide) hl hp hr
  · exact quoteP_top hbl h hg hs hl hp hr
  · rename_i m
    have := referenceP_top (refs := refs) (b := b) (rest := rest) (m := m) hp
    simp only [Option.some.injEq] at hr; rwa [hr] at this
  · have := paraP_top hbl (refs := refs) (b := b) (rest := rest) hs hp
    simp only [Option.some.injEq] at hr; rwa [hr] at this

theorem parseBlocks_top (hbl : blockLevelOk bl = true) (tab : Nat) : ∀ f, PBTop bl (parseBlocks tab f) := by
  intro f
  induction f with
  | zero =>
    intro st refs p bs q r hr _ _ hp
    cases bs with
    | nil => simp only [parseBlocks, Option.some.injEq, Prod.mk.injEq] at hr; rw [← hr.1]; exact hp
    | cons b rest => simp [parseBlocks] at hr
  | succ f ih =>
    intro st refs p bs q r hr hs hl hp
    cases bs with
    | nil => simp only [parseBlocks, Option.some.injEq, Prod.mk.injEq] at hr; rw [← hr.1]; exact hp
    | cons b rest =>
      rw [parseBlocks] at hr
      split at hr
      · rename_i p' r' bs' hd
        have hg := dispatch_good (parseBlocks_good tab f) hd
        refine ih _ _ _ _ _ _ hr hs ?_ (dispatch_top hbl ih (parseBlocks_good tab f) hs hl hp hd)
        rw [isListTag_of_shell (hg.2 hs)]; exact hl
      · simp at hr

/-- the top-level children of a block tree are block-level elements without tail -/
theorem parseDocument_top (hbl : blockLevelOk bl = true) {tab : Nat} {text : Str} {root : Node} {refs : Refs}
    (h : parseDocument tab text = some (root, refs)) : ∀ c ∈ root.children, topKid bl c :=
  parseBlocks_top hbl tab _ _ _ _ _ _ _ h (isstate_nil _) (by decide) (fun _ hc => by cases hc)
end top

/-! ### (iii) the block trees of texts without `[ & < >` are plain, and there are no references -/

section plain
open NoCtl NoCtl.Blk InlineLocal

theorem not_contains_single {s : Str} {c : Char} (h : c ∉ s) : Py.contains s [c] = false := by
  rw [contains_eq_false_iff]
  intro pre post e
  apply h
  rw [e]; simp

theorem codeEscape_id {s : Str} (h1 : '&' ∉ s) (h2 : '<' ∉ s) (h3 : '>' ∉ s) : codeEscape s = s := by
  unfold codeEscape
  rw [replace_id_of_not_contains _ (not_contains_single h1), replace_id_of_not_contains _ (not_contains_single h2),
    replace_id_of_not_contains _ (not_contains_single h3)]

theorem okI_not_mem {s : Str} (h : AllC okI s) {c : Char} (hc : okI c = false) : c ∉ s := by
  intro hm; rw [h c hm] at hc; cases hc

/-- `okI` (no STX, `[`, `&`, `<`, `>`) is a character domain of the block parser for ordinary and atomic strings alike:
    `code_escape` finds nothing to escape -/
theorem charDom_okI : CharDom okI okI :=
  ⟨fun _ h => h, by decide, by decide,
    fun s h => by
      rw [codeEscape_id (okI_not_mem h (by decide)) (okI_not_mem h (by decide)) (okI_not_mem h (by decide))]
      exact h,
    by decide⟩

theorem plainB_of_allC : ∀ {s : Str}, AllC okI s → plainB okI s = true
  | [], _ => rfl
  | c :: r, h => by
    have hc : okI c = true := h c (List.mem_cons_self)
    have ih := plainB_of_allC (s := r) (fun d hd => h d (List.mem_cons_of_mem _ hd))
    rw [plainB.eq_def]
    dsimp only
    split
    · rename_i e; rw [e] at hc; exact absurd hc (by decide)
    · rw [hc, ih]; rfl

theorem plainOptB_of_allC {o : Option Str} (h : AllC okI (o.getD [])) : plainOptB okI o = true := by
  cases o with
  | none => rfl
  | some s => exact plainB_of_allC h

mutual
theorem plainTreeB_of_forall : ∀ (n : Node), n.Forall (BNode okI okI) → plainTreeB okI n = true
  | ⟨tag, attrs, text, ta, children, tail, tla⟩, h => by
    simp only [Node.Forall] at h
    obtain ⟨⟨_, _, _, htail, htext, _, _⟩, hk⟩ := h
    simp only [plainTreeB, Bool.and_eq_true]
    refine ⟨⟨plainOptB_of_allC ?_, plainOptB_of_allC htail⟩, plainTreeLB_of_forall children hk⟩
    dsimp only at htext
    split at htext <;> exact htext
theorem plainTreeLB_of_forall : ∀ (l : List Node), Node.ForallL (BNode okI okI) l → plainTreeLB okI l = true
  | [], _ => rfl
  | c :: r, h => by
    simp only [Node.ForallL] at h
    simp only [plainTreeLB, Bool.and_eq_true]
    exact ⟨plainTreeB_of_forall c h.1, plainTreeLB_of_forall r h.2⟩
end

/-- the characters a source may not contain -/
def srcOk (c : Char) : Bool := c != '[' && c != '&' && c != '<' && c != '>'

theorem prepare_eq (pc : Pipeline.Cfg) {src : Str} (h : src.all srcOk = true) :
    Pipeline.prepare pc src = normalize pc.tab src ∧ AllC okI (normalize pc.tab src) := by
  have hall : AllC okI (normalize pc.tab src) := by
    intro c hc
    obtain ⟨h1, h2, -, -, -⟩ := mem_normalize hc
    rcases h1 with rfl | rfl | h1
    · decide
    · decide
    · have := List.all_eq_true.1 h c h1
      simp only [srcOk, Bool.and_eq_true, bne_iff_ne, ne_eq] at this
      simp only [okI, Bool.not_eq_true', Bool.or_eq_false_iff, beq_eq_false_iff_ne, ne_eq]
      exact ⟨⟨⟨⟨h2, this.1.1.1⟩, this.1.1.2⟩, this.1.2⟩, this.2⟩
  refine ⟨?_, hall⟩
  unfold Pipeline.prepare
  exact Escape.extract_no_amp _ (okI_not_mem hall (by decide))

/-- **the block tree of a text without `[ & < >` is plain (`plainTreeLB okI`), the root is the bare `div`, and no
    reference is defined** -/
theorem block_tree_plain {tab : Nat} {T : Str} (hT : AllC okI T) {root : Node} {refs : Refs}
    (h : parseDocument tab T = some (root, refs)) :
    plainTreeLB okI root.children = true ∧ refs = [] := by
  obtain ⟨h1, -, h3⟩ := parseDocument_chars charDom_okI tab T hT h
  refine ⟨?_, h3 (by decide)⟩
  cases root with
  | mk tag attrs text ta children tail tla =>
    simp only [Node.Forall] at h1
    exact plainTreeLB_of_forall children h1.2
end plain

/-! ### small bridges -/

section bridges
open Block.Local InlineLocal

theorem wsLinesAux_snoc_nl (st : Option Nat) (w : Str) : ∃ y, wsLinesAux st (w ++ ['\n']) = y ++ ['\n'] := by
  induction w generalizing st with
  | nil => exact ⟨[], by cases st <;> simp [wsLinesAux]⟩
  | cons c w ih =>
    cases st with
    | none =>
      by_cases h : c = '\n'
      · obtain ⟨y, hy⟩ := ih (some 0); exact ⟨'\n' :: y, by simp [wsLinesAux, h, hy]⟩
      · obtain ⟨y, hy⟩ := ih none; exact ⟨c :: y, by simp [wsLinesAux, h, hy]⟩
    | some n =>
      by_cases h1 : c = ' '
      · obtain ⟨y, hy⟩ := ih (some (n + 1)); exact ⟨y, by simp [wsLinesAux, h1, hy]⟩
      · by_cases h2 : c = '\n'
        · obtain ⟨y, hy⟩ := ih (some 0); exact ⟨'\n' :: y, by simp [wsLinesAux, h2, hy]⟩
        · obtain ⟨y, hy⟩ := ih none
          exact ⟨List.replicate n ' ' ++ c :: y, by simp [wsLinesAux, h1, h2, hy]⟩

/-- the normalised text ends with a blank line -/
theorem normalize_ends_nn (tab : Nat) (s : Str) : ∃ X, normalize tab s = X ++ nn := by
  rw [normalize_eq]
  have : nlAux false (stripCtl s) ++ ['\n', '\n'] = nlAux false (stripCtl s) ++ '\n' :: ['\n'] := rfl
  rw [this, pipeline_split]
  obtain ⟨y, hy⟩ := wsLinesAux_snoc_nl (some 0) (expandtabsAux tab 0 (nlAux false (stripCtl s)))
  exact ⟨y, by rw [hy]; simp [expandtabsAux, wsLinesAux]⟩

/-- the last top-level element is not a code block -/
def noTrailingCode (p : Node) : Prop := ∀ sib, p.last? = some sib → preCode sib = none

theorem fillCode_of_noTrailingCode {x : Node} (h : noTrailingCode (fillCode x)) : fillCode x = x := by
  apply fillCode_eq_self
  intro sib hs
  cases hc : preCode sib with
  | none => rfl
  | some code =>
    exfalso
    have e : fillCode x = setCodeText x sib code (fmtOpt code.text ++ ['\n', '\n']) := by
      simp [fillCode, emptyP, hs, hc]
    rw [e] at h
    obtain ⟨ht, hct, tl, hch⟩ := NoCtl.Blk.preCode_some hc
    let code' : Node := { code with text := some (fmtOpt code.text ++ ['\n', '\n']), textAtomic := true }
    let sib' : Node := { sib with children := code' :: sib.children.drop 1 }
    have hl : (setCodeText x sib code (fmtOpt code.text ++ ['\n', '\n'])).last? = some sib' := by
      simp [setCodeText, Node.setLast, Node.last?, sib', code']
    have := h _ hl
    have h1 : sib'.isTag "pre" = true := by simp [Node.isTag, sib', ht, NoCtl.Blk.preTag]
    have h2 : code'.isTag "code" = true := by simp [Node.isTag, code', hct]
    have h3 : sib'.children = code' :: sib.children.drop 1 := rfl
    simp [preCode, h1, h3, h2] at this

theorem root_eq_withKids (cs : List Node) : root cs = withKids (Node.el "div") cs := rfl

theorem parse_root {tab f : Nat} {bs : List Str} {r : Node} {fr : Refs}
    (h : parseBlocks tab f [] [] (Node.el "div") bs = some (r, fr)) : r = root r.children := by
  have hs : shell r = Node.el "div" := (parseBlocks_good tab f _ _ _ _ _ _ h).2 (isstate_nil _)
  rw [root_eq_withKids, ← hs]; cases r; rfl

/-- the trees of `X ⏎⏎`, `TB` and `X ⏎⏎ TB`: exact concatenation, when `X ⏎⏎` ends with the block `"\n"` or its tree
    does not end with a code block -/
theorem text_compose {tab : Nat} {X TB : Str} {ra rb rab : Node} {fa fb fab : Refs}
    (hb : startsPHR tab ((splitS nn TB).headD []) = true)
    (hA : parseDocument tab (X ++ nn) = some (ra, fa)) (hB : parseDocument tab TB = some (rb, fb))
    (hAB : parseDocument tab (X ++ nn ++ TB) = some (rab, fab))
    (hcode : (splitS nn (X ++ nn)).getLast? = some ['\n'] ∨ noTrailingCode ra) :
    rab = root (ra.children ++ rb.children) ∧ fab = fa ++ fb := by
  have key : ∀ hl : (splitS nn (X ++ nn)).getLast? = some ['\n'],
      rab = root (ra.children ++ rb.children) ∧ fab = fa ++ fb := by
    intro hl
    have e2 := Block.C08_text_odd hl hb hA hB
    have := parseBlocks_fuel_det tab hAB e2
    simp only [Prod.mk.injEq] at this
    exact ⟨this.1, this.2⟩
  rcases hcode with hl | hc
  · exact key hl
  · rcases Block.C08_last_block X with hl | hl
    · obtain ⟨ka, e1, e2⟩ := Block.C08_text_even hl hb hA hB
      have := parseBlocks_fuel_det tab hAB e2
      simp only [Prod.mk.injEq] at this
      rw [e1] at hc
      have e3 := fillCode_of_noTrailingCode hc
      rw [e3] at e1
      rw [e1]
      exact ⟨this.1, this.2⟩
    · exact key hl
end bridges

/-! ### `B` is not blank -/

section toplevel
open Block.Local InlineLocal NoCtl.Blk

theorem top_children_block {pc : Pipeline.Cfg} (hbl : blockLevelOk pc.blockLevel = true) {T : Str} {r : Node}
    {fr : Refs} (h : parseDocument pc.tab T = some (r, fr)) :
    ∀ c ∈ r.children, blockChild pc.blockLevel c = true ∧ c.tail = none := by
  intro c hc
  obtain ⟨h1, h2⟩ := parseDocument_top hbl h c hc
  refine ⟨?_, h2⟩
  simp only [blockChild, h1, h2, Bool.true_and]
  rfl

theorem not_blank_of_phr {tab : Nat} {B : Str}
    (hb : startsPHR tab ((splitS nn (normalize tab B)).headD []) = true) : isBlankDoc B = false := by
  obtain ⟨b, bs, e⟩ := List.exists_cons_of_ne_nil (splitS_ne_nil nn (normalize tab B))
  rw [e] at hb
  simp only [List.headD_cons] at hb
  have hnb : isBlank b = false := by
    rw [startsPHR, startsPHRAux_succ] at hb
    simp only [Bool.and_eq_true, Bool.not_eq_eq_eq_not, Bool.not_true] at hb
    exact hb.1.2
  have hsub : AllC (fun c => (normalize tab B).contains c) b := by
    have hall : AllC (fun c => (normalize tab B).contains c) (normalize tab B) := fun c hc => by simpa using hc
    have := hall.splitS (sep := nn) (by decide)
    rw [e] at this
    exact this b (List.mem_cons_self)
  simp only [isBlank, List.all_eq_false] at hnb
  obtain ⟨c, hcb, hcs⟩ := hnb
  have hcT : c ∈ normalize tab B := by simpa using hsub c hcb
  obtain ⟨h1, -⟩ := mem_normalize hcT
  have hcB : c ∈ B := by
    rcases h1 with rfl | rfl | h1
    · exact absurd (by decide) hcs
    · exact absurd (by decide) hcs
    · exact h1
  rw [isBlankDoc_eq_all, List.all_eq_false]
  exact ⟨c, hcB, hcs⟩
end toplevel

/-! ### the composition -/

section compose
open Block.Local InlineLocal NoCtl.Blk Inline

theorem not_contains_lt {s : Str} (h : s.all srcOk = true) : s.contains '<' = false := by
  cases hc : s.contains '<' with
  | false => rfl
  | true =>
    have hm : '<' ∈ s := by simpa using hc
    have := List.all_eq_true.1 h _ hm
    revert this; decide

theorem srcOk_compose {A B : Str} (hA : A.all srcOk = true) (hB : B.all srcOk = true) :
    (A ++ nn ++ B).all srcOk = true := by
  simp only [List.all_append, hA, hB, Bool.and_true, Bool.true_and]; decide

theorem not_blank_compose {A : Str} (B : Str) (h : isBlankDoc A = false) : isBlankDoc (A ++ nn ++ B) = false := by
  rw [isBlankDoc_eq_all] at h ⊢
  simp only [List.all_append, h, Bool.false_and]

theorem parseDocument_eq (tab : Nat) (T : Str) :
    parseDocument tab T = parseBlocks tab (fuelFor T.length) [] [] (Node.el "div") (splitS nn T) := rfl

/-- the block tree of `B` is not empty -/
theorem children_ne_of_phr {tab : Nat} {TB : Str} (hb : startsPHR tab ((splitS nn TB).headD []) = true) {rb : Node}
    {fb : Refs} (pB : parseDocument tab TB = some (rb, fb)) : rb.children ≠ [] := by
  obtain ⟨b, bs, e⟩ := List.exists_cons_of_ne_nil (splitS_ne_nil nn TB)
  rw [parseDocument_eq, e] at pB
  rw [e] at hb
  simp only [List.headD_cons] at hb
  exact (Block.C08_sibling_blind tab _ [] (isstate_nil _) [] (Node.el "div") [] b hb bs).2 _ _ pB

/-- **composition of the two halves**, all hypotheses explicit -/
theorem convert_compose (pc : Pipeline.Cfg) (hfmt : pc.fmt = .xhtml) (hesc : pc.esc.contains Inline.STX = false)
    (hd : divBlock pc.blockLevel = true) (hbl : blockLevelOk pc.blockLevel = true)
    {A B : Str} (hA : A.all srcOk = true) (hB : B.all srcOk = true)
    (hCR : (stripCtl A).getLast? ≠ some '\r') (hnA : isBlankDoc A = false)
    (hb : startsPHR pc.tab ((splitS nn (normalize pc.tab B)).headD []) = true)
    {ra rb rab : Node} {fa fb fab : Refs}
    (pA : parseDocument pc.tab (normalize pc.tab A) = some (ra, fa))
    (pB : parseDocument pc.tab (normalize pc.tab B) = some (rb, fb))
    (pAB : parseDocument pc.tab (normalize pc.tab (A ++ nn ++ B)) = some (rab, fab))
    (hcode : (splitS nn (normalize pc.tab A)).getLast? = some ['\n'] ∨ noTrailingCode ra)
    (hne : ra.children ≠ [])
    {rA rB r : Node} {tA tB t : St}
    (eA : Inline.run { esc := pc.esc, refs := [] } (root ra.children) = some (rA, tA))
    (eB : Inline.run { esc := pc.esc, refs := [] } (root rb.children) = some (rB, tB))
    (eAB : Inline.run { esc := pc.esc, refs := [] } (root (ra.children ++ rb.children)) = some (r, t))
    (hNA : tA.stash.length ≤ 10000) (hNB : tB.stash.length ≤ 10000) (hN : t.stash.length ≤ 10000)
    (hr : plainTreeB okI r = true ∨ (plainTreeB okI rA = true ∧ plainTreeB okI rB = true)) :
    Pipeline.convert pc (A ++ nn ++ B) =
      match Pipeline.convert pc A, Pipeline.convert pc B with
      | .ok oA, .ok oB => .ok (oA ++ ['\n'] ++ oB)
      | _, _ => .err := by
  have hAB := srcOk_compose hA hB
  obtain ⟨qA, aA⟩ := prepare_eq pc hA
  obtain ⟨qB, aB⟩ := prepare_eq pc hB
  obtain ⟨qAB, -⟩ := prepare_eq pc hAB
  have hsplit := normalize_split pc.tab A B hCR
  obtain ⟨X, hX⟩ := normalize_ends_nn pc.tab A
  rw [hsplit] at pAB
  have hcomp : rab = root (ra.children ++ rb.children) ∧ fab = fa ++ fb := by
    rw [hX] at pA pAB hcode
    exact text_compose hb pA pB pAB hcode
  obtain ⟨plA, rfl⟩ := block_tree_plain aA pA
  obtain ⟨plB, rfl⟩ := block_tree_plain aB pB
  obtain ⟨rfl, rfl⟩ := hcomp
  have eRa : ra = root ra.children := parse_root pA
  have eRb : rb = root rb.children := parse_root pB
  refine C08_convert_of_block_half pc hfmt hesc hd (not_contains_lt hA) (not_contains_lt hB) (not_contains_lt hAB)
    hnA (not_blank_of_phr hb) (not_blank_compose B hnA) (csA := ra.children) (csB := rb.children)
    ?_ ?_ ?_ plA plB (top_children_block hbl pA) (top_children_block hbl pB) hne (children_ne_of_phr hb pB)
    eA eB eAB hNA hNB hN hr
  · rw [qA, pA]; exact congrArg (fun x => some (x, ([] : Refs))) eRa
  · rw [qB, pB]; exact congrArg (fun x => some (x, ([] : Refs))) eRb
  · rw [qAB, hsplit, pAB]; rfl

/-- the block tree of `A` is empty (e.g. `A` consists of STX/ETX characters only): the combined document is
    converted as `B` alone is -/
theorem convert_compose_emptyA (pc : Pipeline.Cfg) {A B : Str} (hA : A.all srcOk = true) (hB : B.all srcOk = true)
    (hCR : (stripCtl A).getLast? ≠ some '\r') (hnA : isBlankDoc A = false)
    (hb : startsPHR pc.tab ((splitS nn (normalize pc.tab B)).headD []) = true)
    {ra rb rab : Node} {fa fb fab : Refs}
    (pA : parseDocument pc.tab (normalize pc.tab A) = some (ra, fa))
    (pB : parseDocument pc.tab (normalize pc.tab B) = some (rb, fb))
    (pAB : parseDocument pc.tab (normalize pc.tab (A ++ nn ++ B)) = some (rab, fab))
    (hempty : ra.children = []) :
    Pipeline.convert pc (A ++ nn ++ B) = Pipeline.convert pc B := by
  have hAB := srcOk_compose hA hB
  obtain ⟨qA, aA⟩ := prepare_eq pc hA
  obtain ⟨qB, aB⟩ := prepare_eq pc hB
  obtain ⟨qAB, -⟩ := prepare_eq pc hAB
  have hsplit := normalize_split pc.tab A B hCR
  obtain ⟨X, hX⟩ := normalize_ends_nn pc.tab A
  have pAB' := pAB
  rw [hsplit] at pAB'
  have hcomp : rab = root (ra.children ++ rb.children) ∧ fab = fa ++ fb := by
    rw [hX] at pA pAB'
    refine text_compose hb pA pB pAB' (Or.inr ?_)
    intro sib hs
    simp [Node.last?, hempty] at hs
  obtain ⟨-, rfl⟩ := block_tree_plain aA pA
  obtain ⟨-, rfl⟩ := block_tree_plain aB pB
  obtain ⟨rfl, rfl⟩ := hcomp
  have eRb : rb = root rb.children := parse_root pB
  rw [hempty, List.nil_append, ← eRb] at pAB
  unfold Pipeline.convert Pipeline.tree
  rw [not_contains_lt hAB, not_contains_lt hB, not_blank_compose B hnA, not_blank_of_phr hb, qAB, qB, pAB, pB]
  rfl
end compose

end MdVerif.C08
