/-
Helper lemmas for the document-level clause of C14 (`Props/C14Doc.lean`): html and xhtml output of
`Pipeline.convert` read back to the same forest.  Core Lean only.

(`Lemmas/DocFormatsDomain.lean` is separate because `Lemmas/Placeholders` (via `BlockFuel`) and `Lemmas/InlineVocab`
(via `BlockVocab`) declare several lemmas under the same names and cannot be imported together.)
-/
import MdVerif.Lemmas.InlineVocab
import MdVerif.Lemmas.PlaceholdersChain
import MdVerif.Spec.Spelling

namespace MdVerif.DocFormats
open Py Ser Vocab2

/-- the tree handed to the serializer does not depend on the output format -/
theorem tree_fmt (cfg : Pipeline.Cfg) (f : Fmt) (src : Str) :
    Pipeline.tree { cfg with fmt := f } src = Pipeline.tree cfg src := rfl

theorem no_ampSub_of_no_stx {s : Str} (h : Post.STX ∉ s) : contains s Post.ampSubstitute = false := by
  rw [contains_eq_false_iff]
  rintro p q rfl
  exact h (by simp [Post.ampSubstitute])

/-- a blank document is the empty string in every format -/
theorem convert_blank (cfg : Pipeline.Cfg) (src : Str) (hlt : src.contains '<' = false)
    (hb : Normalize.isBlankDoc src = true) : Pipeline.convert cfg src = .ok [] := by
  unfold Pipeline.convert
  simp only [hlt, hb, Bool.false_eq_true, ↓reduceIte]

/-- both formats, empty stash, no ampersand substitute in either serialisation -/
theorem formats_agree (cfg : Pipeline.Cfg) (src h x : Str) (u : Node) (hlt : src.contains '<' = false)
    (ht : Pipeline.tree cfg src = some (some (u, [])))
    (hah : contains (inner .html u) Post.ampSubstitute = false)
    (hax : contains (inner .xhtml u) Post.ampSubstitute = false)
    (hh : Pipeline.convert { cfg with fmt := .html } src = .ok h)
    (hx : Pipeline.convert { cfg with fmt := .xhtml } src = .ok x) :
    ∃ forest, readForest .html h = some forest ∧ readForest .xhtml x = some forest ∧ RGoodList forest = true := by
  by_cases hb : Normalize.isBlankDoc src = true
  · rw [convert_blank _ src hlt hb] at hh hx
    injection hh with e1; injection hx with e2; subst e1; subst e2
    exact ⟨[], readForest_nil _, readForest_nil _, rfl⟩
  · have hnb : Normalize.isBlankDoc src = false := by simpa using hb
    have hd := tree_docOk cfg src u [] ht
    rw [convert_plain { cfg with fmt := .html } src u hlt hnb ht hah] at hh
    rw [convert_plain { cfg with fmt := .xhtml } src u hlt hnb ht hax] at hx
    injection hh with e1; injection hx with e2; subst e1; subst e2
    exact ⟨_, (strip_inner_reads .html u hd).1, (strip_inner_reads .xhtml u hd).1, (strip_inner_reads .html u hd).2⟩

/-- a tree without STX serialises without the ampersand substitute -/
theorem inner_no_ampSub (fmt : Fmt) (u : Node) (hd : DocOk u = true) (hc : NoCtl.TreeNoCtl u) :
    contains (inner fmt u) Post.ampSubstitute = false := by
  have hs := NoCtl.serialize_noctl fmt hc
  rw [serialize_doc fmt u hd] at hs
  have h1 := (NoCtl.noCtl_append.1 hs).1
  have h2 := (NoCtl.noCtl_append.1 h1).1
  have h3 := (NoCtl.noCtl_append.1 h2).2
  exact no_ampSub_of_no_stx h3.1

/-! ### a decision procedure for `TreeNoCtl` (for the non-vacuity examples) -/

instance (t : Tag) : Decidable (NoCtl.tagNoCtl t) := by
  cases t <;> simp only [NoCtl.tagNoCtl] <;> infer_instance

instance (n : Node) : Decidable (NoCtl.NodeNoCtl n) := by
  unfold NoCtl.NodeNoCtl NoCtl.attrsNoCtl NoCtl.NoCtlO; infer_instance

mutual
def treeNoCtlB : Node → Bool
  | ⟨tag, attrs, text, ta, children, tail, tla⟩ =>
    decide (NoCtl.NodeNoCtl ⟨tag, attrs, text, ta, children, tail, tla⟩) && listNoCtlB children
def listNoCtlB : List Node → Bool
  | [] => true
  | c :: r => treeNoCtlB c && listNoCtlB r
end

mutual
theorem treeNoCtl_of_B : (n : Node) → treeNoCtlB n = true → NoCtl.TreeNoCtl n
  | ⟨tag, attrs, text, ta, children, tail, tla⟩, h => by
    simp only [treeNoCtlB, Bool.and_eq_true, decide_eq_true_eq] at h
    simp only [NoCtl.TreeNoCtl, Node.Forall]
    exact ⟨h.1, listNoCtl_of_B children h.2⟩
theorem listNoCtl_of_B : (l : List Node) → listNoCtlB l = true → Node.ForallL NoCtl.NodeNoCtl l
  | [], _ => by simp [Node.ForallL]
  | c :: r, h => by
    simp only [listNoCtlB, Bool.and_eq_true] at h
    simp only [Node.ForallL]
    exact ⟨treeNoCtl_of_B c h.1, listNoCtl_of_B r h.2⟩
end

/-! ### the syntactic version: the two serialisations differ only in spelling -/

theorem respell_refl : ∀ (s : Str), Respell s s
  | [] => .nil
  | c :: r => .same c (respell_refl r)

theorem respell_append {a b c d : Str} (h1 : Respell a b) (h2 : Respell c d) : Respell (a ++ c) (b ++ d) := by
  induction h1 with
  | nil => exact h2
  | same ch _ ih => exact .same ch ih
  | void _ ih => exact .void ih
  | bool k hk _ ih =>
    have := Respell.bool k hk ih
    simpa [List.append_assoc] using this

theorem writeAttrs_html_cons (k v : Str) (r : List (Str × Str)) :
    writeAttrs .html ((k, v) :: r) =
      (if k = escAttrHtml v then ' ' :: escAttrHtml v else ' ' :: (k ++ '=' :: '"' :: (escAttrHtml v ++ ['"']))) ++
        writeAttrs .html r := by
  simp only [writeAttrs]
  by_cases e : k = escAttrHtml v <;> simp [e]

theorem writeAttrs_xhtml_cons (k v : Str) (r : List (Str × Str)) :
    writeAttrs .xhtml ((k, v) :: r) =
      ' ' :: (k ++ '=' :: '"' :: (escAttrHtml v ++ ['"'])) ++ writeAttrs .xhtml r := by
  simp [writeAttrs]

theorem respell_attrs : ∀ (as : List (Str × Str)), (∀ kv ∈ as, isName kv.1 = true) → ∀ {R R' : Str}, Respell R R' →
    Respell (writeAttrs .html as ++ R) (writeAttrs .xhtml as ++ R')
  | [], _, _, _, h => by simpa [writeAttrs] using h
  | (k, v) :: r, hk, R, R', h => by
    have ih := respell_attrs r (fun kv hkv => hk kv (by simp [hkv])) h
    have hkn : isName k = true := hk (k, v) (by simp)
    rw [writeAttrs_html_cons, writeAttrs_xhtml_cons]
    by_cases e : k = escAttrHtml v
    · simp only [← e, ↓reduceIte]
      have := Respell.bool k hkn ih
      simpa [List.append_assoc] using this
    · simp only [e, ↓reduceIte]
      rw [List.append_assoc, List.append_assoc]
      exact respell_append (respell_refl _) ih

mutual
theorem respell_tree : (n : Node) → WFTree n = true → Respell (serialize .html n) (serialize .xhtml n)
  | ⟨tag, attrs, text, _, children, tail, _⟩, hwf => by
    simp only [WFTree, Bool.and_eq_true] at hwf
    obtain ⟨htag, hch⟩ := hwf
    have hkids := respell_list children hch
    simp only [serialize]
    refine respell_append ?_ (respell_refl _)
    cases tag with
    | comment => exact respell_refl _
    | pi => exact respell_refl _
    | none => exact respell_append (respell_refl _) hkids
    | qname q => simp at htag
    | name t =>
      simp only [Bool.and_eq_true, List.all_eq_true] at htag
      obtain ⟨⟨⟨_, hk⟩, _⟩, hshape⟩ := htag
      have hks : ∀ kv ∈ sortAttrs attrs, isName kv.1 = true := fun kv hkv => hk kv (mem_sortAttrs attrs kv hkv)
      simp only [element_none]
      by_cases hv : isEmptyTag t = true
      · simp only [hv, ↓reduceIte, Bool.and_eq_true, Bool.not_eq_true', List.isEmpty_iff] at hshape
        obtain ⟨htx, hc⟩ := hshape
        subst hc
        simp only [hv, htx, serializeList, Bool.and_true, decide_true, reduceCtorEq, decide_false, Bool.false_eq_true,
          ↓reduceIte, List.append_nil]
        refine .same _ (respell_append (respell_refl _) ?_)
        exact respell_attrs _ hks (.void .nil)
      · have hv' : isEmptyTag t = false := by simpa using hv
        simp only [hv', Bool.and_false, Bool.false_eq_true, ↓reduceIte]
        refine .same _ (respell_append (respell_refl _) ?_)
        refine respell_attrs _ hks (.same _ ?_)
        exact respell_append (respell_refl _) (respell_append hkids (respell_refl _))
theorem respell_list : (l : List Node) → WFList l = true → Respell (serializeList .html l) (serializeList .xhtml l)
  | [], _ => by simpa [serializeList] using Respell.nil
  | n :: r, hwf => by
    simp only [WFList, Bool.and_eq_true] at hwf
    simp only [serializeList]
    exact respell_append (respell_tree n hwf.1) (respell_list r hwf.2)
end

/-- the outputs of `convert` in the two formats differ only in spelling -/
theorem respell_doc (u : Node) (hd : DocOk u = true) : Respell (strip (inner .html u)) (strip (inner .xhtml u)) := by
  obtain ⟨e1, hd'⟩ := strip_inner .html u hd
  obtain ⟨e2, _⟩ := strip_inner .xhtml u hd
  rw [e1, e2]
  simp only [DocOk, Bool.and_eq_true, beq_iff_eq, List.isEmpty_iff] at hd'
  unfold inner
  exact respell_append (respell_refl _) (respell_list _ (good_WFList _ hd'.2))

end MdVerif.DocFormats
