/-
Helper lemmas for `Props/C15Text.lean` / `Props/C06Links.lean`, part 13: BOTH output formats.  The serializer on the
paragraph of a line with references in the html format as well: the elements of the contents are written alike in
both formats (no void element among them); an attribute of an `<a>` element is written as a boolean attribute in
the html format when its escaped value equals its name (`attrHtml` of `Lemmas/InlineRefForms.lean`).
Core Lean only.
-/
import MdVerif.Lemmas.LettersLinksInl

namespace MdVerif.RefText
open Py Inline Escape CodeLaw DocParse DocParse2

/-! ### the serializer, any format -/

theorem serialize_tailedFinM_fmt (fmt : Ser.Fmt) (s : MSeg) (hk : s.k.fine) :
    Ser.serialize fmt (tailedFinM s) = s.k.out ++ Ser.escCdata s.t := by
  obtain ⟨k, t⟩ := s
  cases k with
  | code n b =>
    have e : tailedFinM ⟨.code n b, t⟩ = ⟨.name "code".toList, [], some (Code.codeEscape b), true, [], optStr t, false⟩ := rfl
    rw [e, serialize_plain _ _ _ _ _ _ _ (by decide) (by decide), InlineRef.serializeList_nil, optEsc_optStr]
    have h0 : Ser.escCdata [] = [] := by decide
    cases hb : Code.codeEscape b with
    | nil => simp [MKind.out, hb, Node.truthy, List.append_assoc, h0]
    | cons x y => simp [MKind.out, hb, Node.truthy, List.append_assoc]
  | em st d w =>
    have e : tailedFinM ⟨.em st d w, t⟩ = ⟨.name (emTagS st), [], some w, false, [], optStr t, false⟩ := by
      cases st <;> simp [tailedFinM, MKind.node, emEl, mkEl, emTagS]
    have h1 : Ser.isEmptyTag (emTagS st) = false := by cases st <;> decide
    have h2 : Ser.isRawTextTag (emTagS st) = false := by cases st <;> decide
    have htr : Node.truthy (some w) = true := by
      cases hx : w with
      | nil => exact absurd hx hk.2
      | cons a b => rfl
    rw [e, serialize_plain _ _ _ _ _ _ _ h1 h2, InlineRef.serializeList_nil, optEsc_optStr]
    simp [MKind.out, htr, List.append_assoc]

theorem serializeList_tailedM_fmt (fmt : Ser.Fmt) (segs : List MSeg) (hk : ∀ s ∈ segs, s.k.fine) :
    Ser.serializeList fmt (segs.map tailedFinM) = outM segs := by
  induction segs with
  | nil => rw [List.map_nil, InlineRef.serializeList_nil]; rfl
  | cons s r ih =>
    rw [List.map_cons, serializeList_cons, ih (fun x hx => hk x (List.mem_cons_of_mem _ hx)),
      serialize_tailedFinM_fmt fmt s (hk s List.mem_cons_self), outM_cons]

/-- `<a href="…" title="…">` in the given format (a boolean attribute in the html format) -/
def aOpenF (fmt : Ser.Fmt) (url : Str) (title : Option Str) : Str :=
  "<a".toList ++ InlineRef.attrHtml fmt "href".toList url ++
    (if Node.truthy title then InlineRef.attrHtml fmt "title".toList (title.getD []) else []) ++ ['>']

def useOutF (fmt : Ser.Fmt) (u : RUse) : Str := aOpenF fmt u.url u.title ++ (u.T.out ++ (aClose ++ u.C.out))

def usOutF (fmt : Ser.Fmt) : List RUse → Str
  | [] => []
  | u :: r => useOutF fmt u ++ usOutF fmt r

theorem usOutF_nil (fmt : Ser.Fmt) : usOutF fmt [] = [] := rfl
theorem usOutF_cons (fmt : Ser.Fmt) (u : RUse) (r : List RUse) : usOutF fmt (u :: r) = useOutF fmt u ++ usOutF fmt r := rfl

theorem lit_aTag : '<' :: "a".toList = "<a".toList := by decide

theorem serialize_aFin_fmt {esc : List Char} (fmt : Ser.Fmt) (u : RUse) (hu : UseCh esc u) :
    Ser.serialize fmt (aFin u) = aOpenF fmt u.url u.title ++ (u.T.out ++ (aClose ++ Ser.escCdata u.C.t0)) := by
  have h2a : Ser.isEmptyTag "a".toList = false := by decide
  have h4a : Ser.isRawTextTag "a".toList = false := by decide
  have hkids := serializeList_tailedM_fmt fmt u.T.segs
    (fun s hs => fine_of_ok s.k (hu.text.ok s hs) (hu.text.clean s hs))
  have hnil : Ser.writeAttrs fmt [] = [] := by simp [Ser.writeAttrs]
  unfold aFin
  rw [InlineRef.serialize_name, InlineRef.element_nonempty _ _ _ _ _ h2a h4a, InlineRef.sortAttrs_link,
    InlineRef.writeAttrs_cons, hkids, optEsc_optStr, optEsc_optStr, aClose_eq, lit_aTag]
  unfold aOpenF
  by_cases ht : Node.truthy u.title = true
  · rw [if_pos ht, if_pos ht, InlineRef.writeAttrs_cons, hnil]
    simp only [Chunk.out, List.append_assoc, List.append_nil]
  · rw [if_neg ht, if_neg ht, hnil]
    simp only [Chunk.out, List.append_assoc, List.append_nil]

theorem serializeList_usKidsFin_fmt {esc : List Char} (fmt : Ser.Fmt) : ∀ (us : List RUse), (∀ u ∈ us, UseCh esc u) →
    Ser.serializeList fmt (usKidsFin us) = usOutF fmt us
  | [], _ => by rw [usKidsFin_nil, InlineRef.serializeList_nil, usOutF_nil]
  | u :: r, hus => by
    have hu := hus u List.mem_cons_self
    have hkC := serializeList_tailedM_fmt fmt u.C.segs
      (fun s hs => fine_of_ok s.k (hu.after.ok s hs) (hu.after.clean s hs))
    have hr := serializeList_usKidsFin_fmt fmt r (fun x hx => hus x (List.mem_cons_of_mem _ hx))
    rw [usKidsFin_cons, serializeList_cons, serializeList_append, serialize_aFin_fmt fmt u hu, hkC, hr, usOutF_cons]
    simp only [useOutF, Chunk.out, List.append_assoc]

theorem ser_pFin_fmt {esc : List Char} (fmt : Ser.Fmt) (C0 : Chunk) (us : List RUse) (h0 : ChunkOK esc C0)
    (hus : ∀ u ∈ us, UseCh esc u) :
    Ser.serialize fmt (pFin C0 us) = ("<p>".toList ++ (C0.out ++ usOutF fmt us) ++ "</p>".toList) ++ ['\n'] := by
  have h2 : Ser.isEmptyTag "p".toList = false := by decide
  have h4 : Ser.isRawTextTag "p".toList = false := by decide
  have e7 : Ser.escCdata ['\n'] = ['\n'] := by decide
  have t1 : Node.truthy (some ['\n']) = true := rfl
  have hk0 := serializeList_tailedM_fmt fmt C0.segs (fun s hs => fine_of_ok s.k (h0.ok s hs) (h0.clean s hs))
  simp only [pFin]
  rw [serialize_plain _ _ _ _ _ _ _ h2 h4, serializeList_append, hk0, serializeList_usKidsFin_fmt fmt us hus,
    optEsc_optStr]
  simp [t1, e7, Chunk.out, List.append_assoc]

/-! ### xhtml, and html without boolean attributes: the spelling of `Lemmas/RefTextBack.lean` -/

theorem attrHtml_plain (fmt : Ser.Fmt) (k v : Str) (h : fmt = .xhtml ∨ k ≠ Ser.escAttrHtml v) :
    InlineRef.attrHtml fmt k v = ' ' :: k ++ "=\"".toList ++ Ser.escAttrHtml v ++ ['"'] := by
  unfold InlineRef.attrHtml
  rcases h with rfl | hne
  · simp
  · simp [hne]

theorem lit_aHref : "<a".toList ++ (' ' :: "href".toList ++ "=\"".toList) = "<a href=\"".toList := by decide

/-- when no attribute is boolean (always so in xhtml) the opening tag is `<a href="…" title="…">` -/
theorem aOpenF_eq (fmt : Ser.Fmt) (url : Str) (title : Option Str)
    (h : fmt = .xhtml ∨ ("href".toList ≠ Ser.escAttrHtml url ∧
      ∀ s, title = some s → "title".toList ≠ Ser.escAttrHtml s)) :
    aOpenF fmt url title = aOpen url title := by
  unfold aOpenF aOpen InlineRef.titleAttr
  rw [attrHtml_plain fmt _ _ (h.imp id (·.1))]
  by_cases ht : Node.truthy title = true
  · rw [if_pos ht, if_pos ht]
    cases title with
    | none => simp [Node.truthy] at ht
    | some t =>
      simp only [Option.getD_some]
      rw [attrHtml_plain fmt _ _ (h.imp id (fun x => x.2 t rfl))]
      rw [← lit_aHref]
      simp only [List.append_assoc, List.cons_append, List.nil_append]
      rfl
  · rw [if_neg ht, if_neg ht, ← lit_aHref]
    simp only [List.append_assoc, List.cons_append, List.nil_append, List.append_nil]

theorem usOutF_xhtml : ∀ us : List RUse, usOutF .xhtml us = usOut us
  | [] => rfl
  | u :: r => by
    rw [usOutF_cons, usOut_cons, usOutF_xhtml r]
    simp only [useOutF, useOut, aOpenF_eq .xhtml u.url u.title (Or.inl rfl)]

/-! ### no STX in the output -/

theorem stx_not_mem_aOpenF (fmt : Ser.Fmt) (url : Str) (title : Option Str) (hu : Post.STX ∉ url)
    (ht : ∀ t, title = some t → Post.STX ∉ t) : Post.STX ∉ aOpenF fmt url title := by
  have h1 := InlineRef.stx_not_mem_attrHtml fmt "href".toList url (by decide) hu
  have h2 : Post.STX ∉ (if Node.truthy title then InlineRef.attrHtml fmt "title".toList (title.getD []) else []) := by
    split
    · cases title with
      | none => simp [Node.truthy] at *
      | some t => exact InlineRef.stx_not_mem_attrHtml fmt _ _ (by decide) (ht t rfl)
    · simp
  unfold aOpenF
  simp only [List.mem_append, not_or]
  exact ⟨⟨⟨by decide, h1⟩, h2⟩, by simp; decide⟩

theorem stx_not_mem_usOutF {esc : List Char} (fmt : Ser.Fmt) : ∀ (us : List RUse), (∀ u ∈ us, UseCh esc u) →
    (∀ u ∈ us, UseAttrOK u) → Post.STX ∉ usOutF fmt us
  | [], _, _ => by rw [usOutF_nil]; simp
  | u :: r, hus, ha => by
    have hu := hus u List.mem_cons_self
    have hr := stx_not_mem_usOutF fmt r (fun x hx => hus x (List.mem_cons_of_mem _ hx))
      (fun x hx => ha x (List.mem_cons_of_mem _ hx))
    have h1 := stx_not_mem_aOpenF fmt u.url u.title (ha u List.mem_cons_self).1 (ha u List.mem_cons_self).2
    have h2 := stx_not_mem_chunkOut u.T hu.text
    have h3 := stx_not_mem_chunkOut u.C hu.after
    have h4 : Post.STX ∉ aClose := by decide
    rw [usOutF_cons]
    intro hm
    simp only [useOutF, List.mem_append] at hm
    rcases hm with (hm | hm | hm | hm) | hm
    · exact h1 hm
    · exact h2 hm
    · exact h4 hm
    · exact h3 hm
    · exact hr hm

/-! ### from the source to the output, both formats -/

theorem useCh_of_ok {cfg : Inline.Cfg} {u : RUse} (h : UseOK cfg u) : UseCh cfg.esc u := ⟨h.text, h.after⟩

/-- **From the source to the output**, reference-style links, either output format -/
theorem convert_line_fmt (cfg : Pipeline.Cfg) (hbl : cfg.blockLevel = TreeProc.defaultBlockLevel)
    (htab : 0 < cfg.tab) (hE : EscOK cfg.esc) (hrb : ']' ∈ cfg.esc)
    (before after : List InlineRef.DefSpec) (hb : ∀ d ∈ before, d.ok cfg.tab = true)
    (ha : ∀ d ∈ after, d.ok cfg.tab = true) (C0 : Chunk) (us : List RUse) (hne : us ≠ [])
    (h0 : ChunkOK cfg.esc C0) (hus : ∀ u ∈ us, UseSpec cfg.esc (before ++ after) u)
    (hstart : startPlain (lineRaw cfg.esc C0 us) = true) (hchars : (lineRaw cfg.esc C0 us).all lineCh = true)
    (hnoref : Block.refMatchAt (lineRaw cfg.esc C0 us) 0 = none) :
    Pipeline.convert cfg (InlineRef.docOf before (lineRaw cfg.esc C0 us) after) =
      .ok ("<p>".toList ++ (C0.out ++ usOutF cfg.fmt us) ++ "</p>".toList) := by
  have hd : ∀ d ∈ before ++ after, d.ok cfg.tab = true := by
    intro d hd
    rcases List.mem_append.1 hd with h | h
    · exact hb d h
    · exact ha d h
  have hp := paraOK_line _ hstart hchars hnoref
  have hok : ∀ u ∈ us, UseOK { esc := cfg.esc, refs := ((before ++ after).map InlineRef.DefSpec.entry).reverse } u :=
    fun u hu => useOK_of_spec (hus u hu)
  have hch : ∀ u ∈ us, UseCh cfg.esc u := fun u hu => ⟨(hus u hu).text, (hus u hu).after⟩
  have hattr : ∀ u ∈ us, UseAttrOK u := fun u hu => useAttrOK_of_spec hd (hus u hu)
  have hrun := run_line { esc := cfg.esc, refs := ((before ++ after).map InlineRef.DefSpec.entry).reverse } hE hrb C0 us
    h0 hok (fun u hu => (hus u hu).vis) hne
  refine convert_one cfg hbl htab before after hb ha hp (pMid cfg.esc C0 us) (pPretty cfg.esc C0 us) (pFin C0 us)
    (C0.out ++ usOutF cfg.fmt us) _ hrun rfl
    (by show TreeProc.isBlockLevel TreeProc.defaultBlockLevel (.name "p".toList) = true; decide)
    (pretty_pMid cfg.esc C0 us)
    (unesc_pPrettyG (cfg := { esc := cfg.esc, refs := [] }) C0 us h0 hch hattr)
    (ser_pFin_fmt cfg.fmt C0 us h0 hch) ?_
  intro hm
  rcases List.mem_append.1 hm with hm | hm
  · exact stx_not_mem_chunkOut C0 h0 hm
  · exact stx_not_mem_usOutF cfg.fmt us hch hattr hm

/-- **From the source to the output**, inline links, either output format -/
theorem convert_lineI_fmt (cfg : Pipeline.Cfg) (hbl : cfg.blockLevel = TreeProc.defaultBlockLevel)
    (htab : 0 < cfg.tab) (hE : EscOK cfg.esc) (hrb : ']' ∈ cfg.esc)
    (before after : List InlineRef.DefSpec) (hb : ∀ d ∈ before, d.ok cfg.tab = true)
    (ha : ∀ d ∈ after, d.ok cfg.tab = true) (C0 : Chunk) (is : List IUse) (hne : is ≠ [])
    (h0 : ChunkOK cfg.esc C0) (hus : ∀ u ∈ is, IUseOK cfg.esc u) (hvis : ∀ u ∈ is, u.T.Vis)
    (hstart : startPlain (lineRawI cfg.esc C0 is) = true) (hchars : (lineRawI cfg.esc C0 is).all lineCh = true)
    (hnoref : Block.refMatchAt (lineRawI cfg.esc C0 is) 0 = none) :
    Pipeline.convert cfg (InlineRef.docOf before (lineRawI cfg.esc C0 is) after) =
      .ok ("<p>".toList ++ (C0.out ++ usOutF cfg.fmt (is.map IUse.toR)) ++ "</p>".toList) := by
  have hp := paraOK_line _ hstart hchars hnoref
  have hch := useCh_map hus
  have hattr := useAttrOK_map hus
  have hrun := run_lineI { esc := cfg.esc, refs := ((before ++ after).map InlineRef.DefSpec.entry).reverse } hE hrb C0 is
    h0 hus hvis hne
  refine convert_one cfg hbl htab before after hb ha hp (pMid cfg.esc C0 (is.map IUse.toR))
    (pPretty cfg.esc C0 (is.map IUse.toR)) (pFin C0 (is.map IUse.toR)) (C0.out ++ usOutF cfg.fmt (is.map IUse.toR)) _ hrun
    rfl (by show TreeProc.isBlockLevel TreeProc.defaultBlockLevel (.name "p".toList) = true; decide)
    (pretty_pMid cfg.esc C0 (is.map IUse.toR))
    (unesc_pPrettyG (cfg := { esc := cfg.esc, refs := [] }) C0 (is.map IUse.toR) h0 hch hattr)
    (ser_pFin_fmt cfg.fmt C0 (is.map IUse.toR) h0 hch) ?_
  intro hm
  rcases List.mem_append.1 hm with hm | hm
  · exact stx_not_mem_chunkOut C0 h0 hm
  · exact stx_not_mem_usOutF cfg.fmt (is.map IUse.toR) hch hattr hm

/-! ### conservation, both formats -/

theorem inner_line_fmt (fmt : Ser.Fmt) (C0 : Chunk) (us : List RUse) (E : Str)
    (hser : Ser.serialize fmt (pFin C0 us) = ("<p>".toList ++ E ++ "</p>".toList) ++ ['\n']) :
    strip (Vocab2.inner fmt (prettyOne (pFin C0 us))) = "<p>".toList ++ E ++ "</p>".toList := by
  have h5 : Ser.escCdata ['\n'] = ['\n'] := by decide
  have : Vocab2.inner fmt (prettyOne (pFin C0 us)) = '\n' :: "<p>".toList ++ E ++ "</p>".toList ++ ['\n'] := by
    simp only [Vocab2.inner, prettyOne, Node.truthy, if_true, Option.getD_some, h5, InlineRef.serializeList_one, hser]
    simp [List.append_assoc]
  rw [this]
  exact InlineRef.strip_paragraph E

/-- the visible letters of `<p>` + contents + uses + `</p>` in either format, given the chunk facts -/
theorem visible_line_fmt {L : Char → Bool} (hL : Flat.LetterClass L) {esc : List Char} (fmt : Ser.Fmt) (C0 : Chunk)
    (us : List RUse) (h0 : ChunkOK esc C0) (hch : ∀ u ∈ us, UseCh esc u) (hc0 : C0.CodeClean)
    (hcu : ∀ u ∈ us, u.T.CodeClean ∧ u.C.CodeClean) :
    (Ser.readForest fmt ("<p>".toList ++ (C0.out ++ usOutF fmt us) ++ "</p>".toList)).isSome = true ∧
    C06.visibleLetters L fmt ("<p>".toList ++ (C0.out ++ usOutF fmt us) ++ "</p>".toList) =
      Flat.letters L (visibleSrc esc C0 us) := by
  have hinner := inner_line_fmt fmt C0 us (C0.out ++ usOutF fmt us) (ser_pFin_fmt fmt C0 us h0 hch)
  have hL0 : ChunkL C0 := chunkL_of h0 hc0
  have hLu : ∀ u ∈ us, ChunkL u.T ∧ ChunkL u.C := fun u hu =>
    ⟨chunkL_of (hch u hu).text (hcu u hu).1, chunkL_of (hch u hu).after (hcu u hu).2⟩
  obtain ⟨hr, hv⟩ := C06.visibleLetters_inner hL fmt (docOk_line C0 us) (ampFree_line C0 us hL0 hLu)
  rw [hinner] at hr hv
  exact ⟨hr, by rw [hv, docLetters_line hL, letters_visibleSrc hL esc us C0 hL0 hLu]⟩

end MdVerif.RefText
